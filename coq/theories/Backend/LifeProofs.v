(** C17 - proofs about the lifecycle / retry model, for every table instance satisfying
    [tables_ok] (coq/props/C17.v shows that the tables regenerated from /repo do). *)
From Qib Require Import Backend.LifeModel.
Local Open Scope Z_scope.

Lemma status_eqb_eq a b : status_eqb a b = true <-> a = b.
Proof. destruct a, b; cbn; split; intros H; try reflexivity; discriminate. Qed.

Definition rank (s : status) : nat :=
  match s with INITIALIZING => 0 | QUEUED | RUNNING => 1 | _ => 2 end.

Lemma spec_status_not_init s : spec_status s <> INITIALIZING.
Proof. unfold spec_status. repeat destruct (str_eqb s _); discriminate. Qed.

Lemma spec_status_rank s : (1 <= rank (spec_status s))%nat.
Proof. unfold spec_status. repeat destruct (str_eqb s _); cbn; lia. Qed.

(** the documented table, spelled out *)
Lemma spec_status_table s :
  (s = c_pending -> spec_status s = QUEUED) /\
  (s = c_active -> spec_status s = RUNNING) /\
  (s = c_finished -> spec_status s = DONE) /\
  (s = c_cancelled -> spec_status s = CANCELLED) /\
  (s = c_offline -> spec_status s = ERROR) /\
  (s <> c_pending -> s <> c_active -> s <> c_finished -> s <> c_cancelled -> spec_status s = ERROR).
Proof.
  repeat split; try (intros ->; reflexivity).
  intros H1 H2 H3 H4. unfold spec_status.
  apply str_eqb_neq in H1, H2, H3, H4. rewrite H1, H2, H3, H4. reflexivity.
Qed.

Fixpoint first_ok (outs : list tout) : option reply :=
  match outs with
  | [] => None
  | TOk r :: _ => Some r
  | _ :: rest => first_ok rest
  end.

Lemma firstn_timeouts (l : list tout) k : firstn k (repeat TTimeout k ++ l) = repeat TTimeout k.
Proof. induction k; cbn; [reflexivity|f_equal; exact IHk]. Qed.
Lemma firstn_timeouts_S (l : list tout) o k :
  firstn (S k) (repeat TTimeout k ++ o :: l) = repeat TTimeout k ++ [o].
Proof. induction k; [reflexivity|]. cbn [repeat app]. rewrite firstn_cons. f_equal. exact IHk. Qed.

Section Life.
  Variable T : tables.
  Variable maxr : Z.
  Hypothesis OK : tables_ok T maxr.

  Ltac tb := rewrite ?(ok_guard T maxr OK), ?(ok_terminal T maxr OK),
                     ?(ok_fast_b T maxr OK), ?(ok_tail_b T maxr OK), ?(ok_fast_a T maxr OK),
                     ?(ok_tail_a T maxr OK), ?(ok_submit T maxr OK), ?(ok_status T maxr OK),
                     ?(ok_initial T maxr OK).
  Ltac tbin H := rewrite ?(ok_guard T maxr OK), ?(ok_terminal T maxr OK),
                     ?(ok_fast_b T maxr OK), ?(ok_tail_b T maxr OK), ?(ok_fast_a T maxr OK),
                     ?(ok_tail_a T maxr OK), ?(ok_submit T maxr OK), ?(ok_status T maxr OK),
                     ?(ok_initial T maxr OK) in H.

  (** whether from_json itself records the results of a 'finished' reply (then also for the reply to
      the submission); false for the source in which only query_status does *)
  Definition sfj : bool := tb_store_fj T DONE.

  Lemma store_fj_eq s : tb_store_fj T s = sfj && status_eqb s DONE.
  Proof. apply (ok_store_fj T maxr OK). Qed.

  Lemma store_q s : tb_store T s || (sfj && status_eqb s DONE) = status_eqb s DONE.
  Proof. rewrite <- store_fj_eq. apply (ok_store T maxr OK). Qed.

  (** from_json in terms of the documented tables: [store] says whether the reply's payload is recorded *)
  Definition upd (s : st) (r : reply) (polled store : bool) : st :=
    {| s_status := spec_status (r_status r);
       s_results := if store then Some (r_payload r) else s_results s;
       s_job := Some (r_job r); s_log := s_log s; s_sleeps := s_sleeps s; s_await := s_await s;
       s_last := Some r; s_polled := polled |}.

  Lemma from_json_upd s r p :
    from_json T s r p = upd s r p (sfj && status_eqb (spec_status (r_status r)) DONE).
  Proof. unfold from_json, upd. rewrite (ok_status T maxr OK), store_fj_eq. reflexivity. Qed.

  (** ---------------------------------------------------------------- retry loop *)

  Lemma retry_unfold r outs :
    retry T r outs =
    if r <=? maxr then
      match outs with
      | [] => (TDry, 0%nat, [])
      | o :: rest =>
          match o with
          | TOk x => (TRet x, 1%nat, rest)
          | TTimeout => let '(res, n, rest') := retry T (r + 1) rest in (res, S n, rest')
          | THttpErr => (TRaise XHttp, 1%nat, rest)
          | TReqErr => (TRaise XReq, 1%nat, rest)
          | TConnErr => (TRaise XConn, 1%nat, rest)
          end
      end
    else if maxr <? r then (TRaise XMax, 0%nat, outs) else (TFallOff, 0%nat, outs).
  Proof.
    destruct outs as [|o rest]; cbn [retry];
      rewrite (ok_cond T maxr OK), (ok_final T maxr OK), ?(ok_incr T maxr OK); reflexivity.
  Qed.

  (** at most maxr + 1 - r further attempts when the counter is r *)
  Lemma retry_attempts outs : forall r res n rest,
    r <= maxr + 1 -> retry T r outs = (res, n, rest) -> Z.of_nat n <= maxr + 1 - r.
  Proof.
    induction outs as [|o outs IH]; intros r res n rest Hr E; rewrite retry_unfold in E;
      destruct (r <=? maxr) eqn:C.
    - injection E as <- <- <-. apply Z.leb_le in C. lia.
    - destruct (maxr <? r); injection E as <- <- <-; lia.
    - apply Z.leb_le in C. destruct o; try (injection E as <- <- <-; lia).
      destruct (retry T (r + 1) outs) as [[res' n'] rest'] eqn:E'. injection E as <- <- <-.
      apply IH in E'; lia.
    - destruct (maxr <? r); injection E as <- <- <-; lia.
  Qed.

  (** exact shape of what was consumed: k timeouts, then the deciding outcome *)
  Lemma retry_shape outs : forall r res n rest,
    r <= maxr + 1 -> retry T r outs = (res, n, rest) ->
    exists k : nat,
      match res with
      | TRet x => outs = repeat TTimeout k ++ TOk x :: rest /\ n = S k
      | TRaise XHttp => outs = repeat TTimeout k ++ THttpErr :: rest /\ n = S k
      | TRaise XReq => outs = repeat TTimeout k ++ TReqErr :: rest /\ n = S k
      | TRaise XConn => outs = repeat TTimeout k ++ TConnErr :: rest /\ n = S k
      | TRaise XMax => outs = repeat TTimeout k ++ rest /\ n = k /\ r + Z.of_nat k = maxr + 1
      | TDry => outs = repeat TTimeout k /\ rest = [] /\ n = k /\ r + Z.of_nat k <= maxr
      | TFallOff => False
      end.
  Proof.
    induction outs as [|o outs IH]; intros r res n rest Hr E; rewrite retry_unfold in E;
      destruct (r <=? maxr) eqn:C.
    - injection E as <- <- <-. apply Z.leb_le in C. exists 0%nat. cbn. repeat split; lia.
    - apply Z.leb_gt in C. assert (F : (maxr <? r) = true) by (apply Z.ltb_lt; lia). rewrite F in E.
      injection E as <- <- <-. exists 0%nat. cbn. repeat split; lia.
    - apply Z.leb_le in C. destruct o; try (injection E as <- <- <-; exists 0%nat; cbn; split; reflexivity).
      destruct (retry T (r + 1) outs) as [[res' n'] rest'] eqn:E'. injection E as <- <- <-.
      apply IH in E'; [|lia]. destruct E' as [k Hk]. exists (S k).
      destruct res' as [x|[]| |]; cbn [repeat app].
      + destruct Hk as [-> ->]. split; reflexivity.
      + destruct Hk as [-> ->]. split; reflexivity.
      + destruct Hk as [-> ->]. split; reflexivity.
      + destruct Hk as [-> ->]. split; reflexivity.
      + destruct Hk as [-> [-> Hk]]. repeat split; lia.
      + exact Hk.
      + destruct Hk as [-> [-> [-> Hk]]]. repeat split; lia.
    - apply Z.leb_gt in C. assert (F : (maxr <? r) = true) by (apply Z.ltb_lt; lia). rewrite F in E.
      injection E as <- <- <-. exists 0%nat. cbn. repeat split; lia.
  Qed.

  Lemma first_ok_timeouts k l : first_ok (repeat TTimeout k ++ l) = first_ok l.
  Proof. induction k; cbn; auto. Qed.

  (** the four clauses of the transport half of C17, for one request *)
  Theorem http_request_spec outs res n rest :
    http_request T outs = (res, n, rest) ->
    (* at most 1 + max-retries attempts *)
    Z.of_nat n <= 1 + maxr
    (* never returns nothing *)
    /\ res <> TFallOff
    (* a returned response is the first successful one, everything before it timed out *)
    /\ (forall x, res = TRet x ->
          exists k, outs = repeat TTimeout k ++ TOk x :: rest /\ n = S k /\ first_ok outs = Some x)
    (* every attempt that was followed by another attempt timed out: only timeouts are retried *)
    /\ (exists k, firstn k outs = repeat TTimeout k /\ (n = k \/ n = S k) /\ outs = firstn n outs ++ rest)
    (* a non-timeout failure raises at once; n timeouts in a row raise "maximum retries" *)
    /\ (res = TRaise XMax -> n = Z.to_nat (1 + maxr) /\ firstn n outs = repeat TTimeout n)
    /\ (forall x, res = TRaise x -> x <> XMax ->
          exists k o, outs = repeat TTimeout k ++ o :: rest /\ n = S k /\
                      match x with XHttp => o = THttpErr | XReq => o = TReqErr | XConn => o = TConnErr | XMax => False end).
  Proof.
    unfold http_request. rewrite (ok_init T maxr OK). intros E.
    pose proof (ok_max T maxr OK) as Hm.
    pose proof (retry_attempts outs 0 res n rest ltac:(lia) E) as Hn.
    pose proof (retry_shape outs 0 res n rest ltac:(lia) E) as [k Hk].
    pose proof firstn_timeouts as FN. pose proof firstn_timeouts_S as FS.
    split; [lia|]. split; [intros ->; exact Hk|].
    split.
    { intros x ->. destruct Hk as [-> ->]. exists k. rewrite first_ok_timeouts. cbn. auto. }
    split.
    { exists k. destruct res as [x|[]| |].
      - destruct Hk as [-> ->]. rewrite FN, FS, <- app_assoc. cbn. auto.
      - destruct Hk as [-> ->]. rewrite FN, FS, <- app_assoc. cbn. auto.
      - destruct Hk as [-> ->]. rewrite FN, FS, <- app_assoc. cbn. auto.
      - destruct Hk as [-> ->]. rewrite FN, FS, <- app_assoc. cbn. auto.
      - destruct Hk as [-> [-> _]]. rewrite FN. auto.
      - contradiction.
      - destruct Hk as [-> [-> [-> _]]].
        assert (F0 : firstn k (repeat TTimeout k) = repeat TTimeout k).
        { pose proof (FN [] k) as F0. rewrite app_nil_r in F0. exact F0. }
        rewrite F0, app_nil_r. auto. }
    split.
    { intros ->. destruct Hk as [-> [-> Hk]]. split; [lia|]. apply FN. }
    intros x -> Hx. destruct x; try contradiction; destruct Hk as [-> ->]; exists k;
      eexists; split; try reflexivity; split; reflexivity.
  Qed.

  (** ---------------------------------------------------------------- query_status *)

  Definition logged (s : st) (rq : req) (n : nat) : st := set_log s (s_log s ++ repeat rq n).

  Lemma do_query_cases s outs o s' outs' :
    do_query T s outs = (o, s', outs') ->
    (s_status s = INITIALIZING /\ o = ORefused /\ s' = s /\ outs' = outs) \/
    (spec_terminal (s_status s) = true /\ o = OStatus (s_status s) /\ s' = s /\ outs' = outs) \/
    (spec_guard (s_status s) = GRequest /\
     exists res n, http_request T outs = (res, n, outs') /\
       let s1 := logged s (RPost (s_job s)) n in
       match res with
       | TRet r =>
           o = OStatus (spec_status (r_status r)) /\
           s' = upd s1 r true (status_eqb (spec_status (r_status r)) DONE)
       | TRaise x => o = ONet x /\ s' = s1
       | TFallOff => o = OCrash /\ s' = s1
       | TDry => o = ODry /\ s' = s1
       end).
  Proof.
    unfold do_query. tb. destruct (spec_guard (s_status s)) eqn:G.
    - intros E. injection E as <- <- <-. left. destruct (s_status s); try discriminate. auto.
    - intros E. injection E as <- <- <-. right. left. destruct (s_status s); try discriminate; auto.
    - unfold do_request. destruct (http_request T outs) as [[res n] rest] eqn:H.
      intros E. right. right. split; [reflexivity|]. exists res, n.
      destruct res as [r|x| |]; cbn zeta in E;
        try (injection E as <- <- <-; (split; [reflexivity|]); cbn zeta; split; reflexivity).
      rewrite from_json_upd in E. cbn [upd s_status] in E.
      pose proof (store_q (spec_status (r_status r))) as SQ.
      destruct (tb_store T (spec_status (r_status r))), sfj, (status_eqb (spec_status (r_status r)) DONE);
        cbn in SQ; try discriminate; injection E as <- <- <-; (split; [reflexivity|]); cbn zeta; split; reflexivity.
  Qed.

  Lemma http_request_consumes outs res n rest :
    http_request T outs = (res, n, rest) ->
    (length rest <= length outs)%nat /\ (forall x, res = TRet x -> (length rest < length outs)%nat).
  Proof.
    intros E. destruct (http_request_spec _ _ _ _ E) as [_ [_ [H3 [[k [_ [_ H4]]] _]]]].
    split.
    - apply (f_equal (@length tout)) in H4. rewrite app_length in H4. lia.
    - intros x ->. destruct (H3 x eq_refl) as [j [-> _]]. rewrite app_length. cbn. lia.
  Qed.

  Lemma do_query_status s outs x s' outs' :
    do_query T s outs = (OStatus x, s', outs') -> x = s_status s'.
  Proof.
    intros E. apply do_query_cases in E as [[_ [E _]]|[[_ [E [-> _]]]|[_ [res [n [_ E]]]]]].
    - discriminate.
    - congruence.
    - cbn zeta in E. destruct res as [r|y| |]; destruct E as [E ->]; try discriminate.
      injection E as ->. reflexivity.
  Qed.

  (** ---------------------------------------------------------------- generic lifting of a
      relation that do_query and Submit respect to polls, steps and runs *)
  Section Rel.
    Variable R : st -> list tout -> st -> list tout -> Prop.
    Hypothesis R_refl : forall s o, R s o s o.
    Hypothesis R_trans : forall a oa b ob c oc, R a oa b ob -> R b ob c oc -> R a oa c oc.
    Hypothesis R_sleep : forall s o, R s o (add_sleep s) o.
    Hypothesis R_await : forall s o b, R s o (set_await s b) o.
    Hypothesis R_query : forall s outs o s' outs', do_query T s outs = (o, s', outs') -> R s outs s' outs'.
    Hypothesis R_submit : forall s outs o s' outs', step T s Submit outs = (o, s', outs') -> R s outs s' outs'.

    Lemma poll_R fuel : forall s outs ab s' outs',
      poll T fuel s outs = (ab, s', outs') -> R s outs s' outs'.
    Proof.
      induction fuel as [|f IH]; intros s outs ab s' outs' E; cbn [poll] in E.
      - injection E as <- <- <-. apply R_refl.
      - destruct (do_query T s outs) as [[o s1] outs1] eqn:Q. apply R_query in Q.
        destruct o; try (injection E as <- <- <-; exact Q).
        destruct (tb_terminal T s0).
        + injection E as <- <- <-. exact Q.
        + apply IH in E. eapply R_trans; [exact Q|]. eapply R_trans; [apply R_sleep|exact E].
    Qed.

    Lemma do_results_R fast tail s outs o s' outs' :
      do_results T fast tail s outs = (o, s', outs') -> R s outs s' outs'.
    Proof.
      unfold do_results. destruct (fast _ _).
      - intros E. injection E as <- <- <-. apply R_refl.
      - destruct (poll T (S (length outs)) s outs) as [[ab s1] outs1] eqn:P. apply poll_R in P.
        destruct ab; intros E; injection E as <- <- <-; exact P.
    Qed.

    Lemma await_iter_R s outs o s' outs' :
      await_iter T s outs = (o, s', outs') -> R s outs s' outs'.
    Proof.
      unfold await_iter. destruct (do_query T s outs) as [[o1 s1] outs1] eqn:Q. apply R_query in Q.
      destruct o1; try (intros E; injection E as <- <- <-; eapply R_trans; [exact Q|apply R_await]).
      destruct (tb_terminal T s0); intros E; injection E as <- <- <-.
      - eapply R_trans; [exact Q|apply R_await].
      - eapply R_trans; [exact Q|]. eapply R_trans; [apply R_sleep|apply R_await].
    Qed.

    Lemma step_R_ns e s outs o s' outs' :
      e <> Submit -> step T s e outs = (o, s', outs') -> R s outs s' outs'.
    Proof.
      intros Ne. destruct e.
      - contradiction.
      - cbn [step]. apply R_query.
      - cbn [step]. apply do_results_R.
      - cbn [step]. destruct (s_await s).
        + intros E. injection E as <- <- <-. apply R_refl.
        + apply do_results_R.
      - cbn [step]. destruct (s_await s).
        + intros E. injection E as <- <- <-. apply R_refl.
        + destruct (tb_fast_a T _ _).
          * intros E. injection E as <- <- <-. apply R_refl.
          * apply await_iter_R.
      - cbn [step]. destruct (s_await s).
        + apply await_iter_R.
        + intros E. injection E as <- <- <-. apply R_refl.
    Qed.

    Lemma step_R e s outs o s' outs' :
      step T s e outs = (o, s', outs') -> R s outs s' outs'.
    Proof.
      destruct e.
      - apply R_submit.
      - cbn [step]. apply R_query.
      - cbn [step]. apply do_results_R.
      - cbn [step]. destruct (s_await s).
        + intros E. injection E as <- <- <-. apply R_refl.
        + apply do_results_R.
      - cbn [step]. destruct (s_await s).
        + intros E. injection E as <- <- <-. apply R_refl.
        + destruct (tb_fast_a T _ _).
          * intros E. injection E as <- <- <-. apply R_refl.
          * apply await_iter_R.
      - cbn [step]. destruct (s_await s).
        + apply await_iter_R.
        + intros E. injection E as <- <- <-. apply R_refl.
    Qed.

    Lemma run_R evs : forall s outs tr sf outsf,
      run T s evs outs = (tr, sf, outsf) -> R s outs sf outsf.
    Proof.
      induction evs as [|e es IH]; intros s outs tr sf outsf E; cbn [run] in E.
      - injection E as <- <- <-. apply R_refl.
      - destruct (step T s e outs) as [[o s1] outs1] eqn:S1.
        destruct (run T s1 es outs1) as [[tr1 sf1] outsf1] eqn:R1.
        injection E as <- <- <-. eapply R_trans; [eapply step_R; exact S1|eapply IH; exact R1].
    Qed.
  End Rel.

  Lemma submit_cases s outs o s' outs' :
    step T s Submit outs = (o, s', outs') ->
    (s_status s <> INITIALIZING /\ o = OInvalid /\ s' = s /\ outs' = outs) \/
    (s_status s = INITIALIZING /\
     exists res n, http_request T outs = (res, n, outs') /\
       let s1 := logged s RPut n in
       match res with
       | TRet r =>
           s' = upd s1 r false (sfj && status_eqb (spec_status (r_status r)) DONE) /\
           o = (if status_eqb (spec_status (r_status r)) ERROR then OSubmitRaised
                else OSubmitted (spec_status (r_status r)))
       | TRaise x => o = ONet x /\ s' = s1
       | TFallOff => o = OCrash /\ s' = s1
       | TDry => o = ODry /\ s' = s1
       end).
  Proof.
    cbn [step]. tb. destruct (status_eqb (s_status s) INITIALIZING) eqn:I.
    - apply status_eqb_eq in I. unfold do_request.
      destruct (http_request T outs) as [[res n] rest] eqn:H. intros E. right. split; [exact I|].
      exists res, n. destruct res as [r|x| |]; cbn zeta in E; try rewrite from_json_upd in E;
        cbn [upd s_status] in E; tbin E;
        injection E as <- <- <-; (split; [reflexivity|]); cbn zeta; try (split; reflexivity).
    - intros E. injection E as <- <- <-. left. repeat split; try reflexivity.
      intros H. apply status_eqb_eq in H. congruence.
  Qed.

  (** ---------------------------------------------------------------- monotone lifecycle *)

  Definition R_mono (s : st) (_ : list tout) (s' : st) (_ : list tout) : Prop :=
    (rank (s_status s) <= rank (s_status s'))%nat.

  (** frozen: nothing that the client or the server can observe changes *)
  Definition frozen (s s' : st) : Prop :=
    s_status s' = s_status s /\ s_log s' = s_log s /\ s_results s' = s_results s /\
    s_job s' = s_job s /\ s_last s' = s_last s /\ s_polled s' = s_polled s.

  Definition R_term (s : st) (o : list tout) (s' : st) (o' : list tout) : Prop :=
    spec_terminal (s_status s) = true -> o' = o /\ frozen s s'.

  Lemma frozen_refl s : frozen s s.
  Proof. repeat split. Qed.

  Lemma query_mono s outs o s' outs' : do_query T s outs = (o, s', outs') -> R_mono s outs s' outs'.
  Proof.
    unfold R_mono. intros E.
    apply do_query_cases in E as [[_ [_ [-> _]]]|[[_ [_ [-> _]]]|[G [res [n [_ E]]]]]]; try lia.
    cbn zeta in E. destruct res as [r|x| |]; destruct E as [_ ->]; cbn; try lia.
    assert (rank (s_status s) <= 1)%nat by (destruct (s_status s); cbn in *; try discriminate; lia).
    pose proof (spec_status_rank (r_status r)).
    destruct (status_eqb (spec_status (r_status r)) DONE); cbn; tb; lia.
  Qed.

  Lemma submit_mono s outs o s' outs' : step T s Submit outs = (o, s', outs') -> R_mono s outs s' outs'.
  Proof.
    unfold R_mono. intros E. apply submit_cases in E as [[_ [_ [-> _]]]|[I [res [n [_ E]]]]]; try lia.
    rewrite I. cbn. lia.
  Qed.

  Lemma query_term s outs o s' outs' : do_query T s outs = (o, s', outs') -> R_term s outs s' outs'.
  Proof.
    unfold R_term. intros E Ht.
    apply do_query_cases in E as [[_ [_ [-> ->]]]|[[_ [_ [-> ->]]]|[G _]]];
      try (split; [reflexivity|apply frozen_refl]).
    destruct (s_status s); cbn in *; discriminate.
  Qed.

  Lemma submit_term s outs o s' outs' : step T s Submit outs = (o, s', outs') -> R_term s outs s' outs'.
  Proof.
    unfold R_term. intros E Ht. apply submit_cases in E as [[_ [_ [-> ->]]]|[I _]].
    - split; [reflexivity|apply frozen_refl].
    - rewrite I in Ht. discriminate.
  Qed.

  Lemma R_term_trans a oa b ob c oc : R_term a oa b ob -> R_term b ob c oc -> R_term a oa c oc.
  Proof.
    unfold R_term, frozen. intros H1 H2 Ht. destruct (H1 Ht) as [-> F1].
    destruct F1 as [A1 [A2 [A3 [A4 [A5 A6]]]]].
    rewrite <- A1 in Ht. destruct (H2 Ht) as [-> [B1 [B2 [B3 [B4 [B5 B6]]]]]].
    repeat split; congruence.
  Qed.

  (** once a terminal status is reached: no event changes the status, the results, the job id or
      the request log, and no scripted outcome is consumed (no request reaches the server) *)
  Theorem step_terminal_absorbing e s outs o s' outs' :
    spec_terminal (s_status s) = true -> step T s e outs = (o, s', outs') ->
    outs' = outs /\ s_status s' = s_status s /\ s_log s' = s_log s /\ s_results s' = s_results s
    /\ s_job s' = s_job s.
  Proof.
    intros Ht E.
    assert (H : R_term s outs s' outs').
    { eapply (step_R R_term); try exact E.
      - unfold R_term; intros; split; [reflexivity|apply frozen_refl].
      - apply R_term_trans.
      - unfold R_term; intros; split; [reflexivity|repeat split].
      - unfold R_term; intros; split; [reflexivity|repeat split].
      - apply query_term.
      - apply submit_term. }
    destruct (H Ht) as [-> [A1 [A2 [A3 [A4 _]]]]]. auto.
  Qed.

  Theorem run_terminal_absorbing evs : forall s outs tr sf outsf,
    spec_terminal (s_status s) = true -> run T s evs outs = (tr, sf, outsf) ->
    outsf = outs /\ s_status sf = s_status s /\ s_log sf = s_log s /\ s_results sf = s_results s /\
    Forall (fun en : tentry => snd (fst en) = s_status s /\ snd en = length (s_log s)) tr.
  Proof.
    induction evs as [|e es IH]; intros s outs tr sf outsf Ht E; cbn [run] in E.
    - injection E as <- <- <-. repeat split; constructor.
    - destruct (step T s e outs) as [[o s1] outs1] eqn:S1.
      destruct (run T s1 es outs1) as [[tr1 sf1] outsf1] eqn:R1. injection E as <- <- <-.
      destruct (step_terminal_absorbing _ _ _ _ _ _ Ht S1) as [-> [A1 [A2 [A3 A4]]]].
      rewrite <- A1 in Ht. destruct (IH _ _ _ _ _ Ht R1) as [-> [B1 [B2 [B3 B4]]]].
      repeat split; try congruence. constructor.
      + cbn. split; congruence.
      + rewrite <- A1, <- A2. exact B4.
  Qed.

  (** the status never moves backwards: INITIALIZING < {QUEUED, RUNNING} < {DONE, ERROR, CANCELLED} *)
  Theorem step_monotone e s outs o s' outs' :
    step T s e outs = (o, s', outs') -> (rank (s_status s) <= rank (s_status s'))%nat.
  Proof.
    intros E. eapply (step_R R_mono); try exact E; unfold R_mono; intros; try lia.
    - cbn; lia.
    - cbn; lia.
    - eapply query_mono; eassumption.
    - eapply submit_mono; eassumption.
  Qed.

  Fixpoint sorted_ranks (prev : nat) (tr : list tentry) : Prop :=
    match tr with
    | [] => True
    | en :: tr' => (prev <= rank (snd (fst en)))%nat /\ sorted_ranks (rank (snd (fst en))) tr'
    end.

  Theorem run_monotone evs : forall s outs tr sf outsf,
    run T s evs outs = (tr, sf, outsf) -> sorted_ranks (rank (s_status s)) tr.
  Proof.
    induction evs as [|e es IH]; intros s outs tr sf outsf E; cbn [run] in E.
    - injection E as <- <- <-. exact I.
    - destruct (step T s e outs) as [[o s1] outs1] eqn:S1.
      destruct (run T s1 es outs1) as [[tr1 sf1] outsf1] eqn:R1. injection E as <- <- <-.
      cbn. split; [eapply step_monotone; exact S1|eapply IH; exact R1].
  Qed.

  (** ---------------------------------------------------------------- state invariant *)

  Record Inv (s : st) : Prop := {
    inv_status : s_status s = match s_last s with None => INITIALIZING | Some r => spec_status (r_status r) end;
    inv_job : s_job s = option_map r_job (s_last s);
    inv_results : forall p, s_results s = Some p ->
                    s_status s = DONE /\ (s_polled s = true \/ sfj = true) /\
                    exists r, s_last s = Some r /\ r_payload r = p;
    inv_done : s_status s = DONE -> (s_polled s = true \/ sfj = true) -> s_results s <> None
  }.

  Definition R_inv (s : st) (_ : list tout) (s' : st) (_ : list tout) : Prop := Inv s -> Inv s'.

  Lemma inv_init : Inv (init_st T).
  Proof. split; cbn; tb; try reflexivity; try discriminate. Qed.

  Lemma inv_logged s rq n : Inv s -> Inv (logged s rq n).
  Proof. intros [A B C D]. split; cbn; assumption. Qed.

  Lemma query_inv s outs o s' outs' : do_query T s outs = (o, s', outs') -> R_inv s outs s' outs'.
  Proof.
    unfold R_inv. intros E HI.
    apply do_query_cases in E as [[_ [_ [-> _]]]|[[_ [_ [-> _]]]|[G [res [n [_ E]]]]]]; try exact HI.
    cbn zeta in E. destruct res as [r|x| |]; destruct E as [_ ->]; try (apply inv_logged; exact HI).
    assert (NR : s_results s = None).
    { destruct (s_results s) as [p|] eqn:Rs; [|reflexivity].
      destruct (inv_results s HI p Rs) as [Hd _]. rewrite Hd in G. discriminate. }
    destruct (status_eqb (spec_status (r_status r)) DONE) eqn:D.
    - apply status_eqb_eq in D. split; cbn.
      + reflexivity.
      + reflexivity.
      + intros p Hp. injection Hp as <-. repeat split; try assumption; [left; reflexivity|]. exists r. auto.
      + discriminate.
    - split; cbn.
      + reflexivity.
      + reflexivity.
      + rewrite NR. discriminate.
      + intros Hd. rewrite Hd in D. discriminate.
  Qed.

  Lemma submit_inv s outs o s' outs' : step T s Submit outs = (o, s', outs') -> R_inv s outs s' outs'.
  Proof.
    unfold R_inv. intros E HI. apply submit_cases in E as [[_ [_ [-> _]]]|[I0 [res [n [_ E]]]]]; try exact HI.
    cbn zeta in E. destruct res as [r|x| |]; try (destruct E as [_ ->]; apply inv_logged; exact HI).
    destruct E as [-> _].
    assert (NR : s_results s = None).
    { destruct (s_results s) as [p|] eqn:Rs; [|reflexivity].
      destruct (inv_results s HI p Rs) as [Hd _]. rewrite Hd in I0. discriminate. }
    destruct sfj eqn:F; cbn [andb];
      [destruct (status_eqb (spec_status (r_status r)) DONE) eqn:D|]; split; cbn.
    - reflexivity.
    - reflexivity.
    - apply status_eqb_eq in D. intros p Hp. injection Hp as <-. repeat split; auto. exists r. auto.
    - discriminate.
    - reflexivity.
    - reflexivity.
    - rewrite NR. discriminate.
    - intros Hd. rewrite Hd in D. discriminate.
    - reflexivity.
    - reflexivity.
    - rewrite NR. discriminate.
    - intros _ [H|H]; [discriminate|unfold sfj in *; congruence].
  Qed.

  Lemma inv_sleep s : Inv s -> Inv (add_sleep s).
  Proof. intros [A B C D]. split; cbn; assumption. Qed.
  Lemma inv_await s b : Inv s -> Inv (set_await s b).
  Proof. intros [A B C D]. split; cbn; assumption. Qed.

  Theorem step_inv e s outs o s' outs' : Inv s -> step T s e outs = (o, s', outs') -> Inv s'.
  Proof.
    intros HI E. revert HI. change (R_inv s outs s' outs').
    eapply (step_R R_inv); try exact E; unfold R_inv; intros; auto using inv_sleep, inv_await.
    - eapply query_inv; eassumption.
    - eapply submit_inv; eassumption.
  Qed.

  Theorem run_inv evs s outs tr sf outsf : Inv s -> run T s evs outs = (tr, sf, outsf) -> Inv sf.
  Proof.
    intros HI E. revert HI. change (R_inv s outs sf outsf).
    eapply (run_R R_inv); try exact E; unfold R_inv; intros; auto using inv_sleep, inv_await.
    - eapply query_inv; eassumption.
    - eapply submit_inv; eassumption.
  Qed.

  (** every status the client ever sees is the documented image of the last processed reply *)
  Theorem status_is_documented evs outs tr sf outsf :
    run T (init_st T) evs outs = (tr, sf, outsf) ->
    s_status sf = match s_last sf with None => INITIALIZING | Some r => spec_status (r_status r) end.
  Proof. intros E. apply inv_status. eapply run_inv; [apply inv_init|exact E]. Qed.

  (** ---------------------------------------------------------------- results exactly when DONE *)

  Lemma poll_none fuel : forall s outs s' outs',
    poll T fuel s outs = (None, s', outs') -> spec_terminal (s_status s') = true.
  Proof.
    induction fuel as [|f IH]; intros s outs s' outs' E; cbn [poll] in E; [discriminate|].
    destruct (do_query T s outs) as [[o s1] outs1] eqn:Q.
    destruct o; try discriminate. pose proof (do_query_status _ _ _ _ _ Q) as ->.
    tbin E. destruct (spec_terminal (s_status s1)) eqn:Tm.
    - injection E as <- <-. exact Tm.
    - eapply IH; exact E.
  Qed.

  Definition results_answer (s : st) : option Z :=
    if status_eqb (s_status s) DONE then s_results s else None.

  Lemma do_query_not_results s outs o s' outs' x :
    do_query T s outs = (o, s', outs') -> o <> OResults x.
  Proof.
    intros Q. apply do_query_cases in Q as [[_ [-> _]]|[[_ [-> _]]|[_ [res [n [_ Q]]]]]]; try discriminate.
    cbn zeta in Q. destruct res; destruct Q as [-> _]; discriminate.
  Qed.

  Lemma poll_not_results fuel : forall s outs o s' outs' x,
    poll T fuel s outs = (Some o, s', outs') -> o <> OResults x.
  Proof.
    induction fuel as [|f IH]; intros s outs o s' outs' x P; cbn [poll] in P.
    - injection P as <- _ _. discriminate.
    - destruct (do_query T s outs) as [[o2 s2] outs2] eqn:Q.
      pose proof (do_query_not_results _ _ _ _ _ x Q) as NQ.
      destruct o2; try (injection P as <- _ _; exact NQ).
      destruct (tb_terminal T s0); [discriminate|]. eapply IH; exact P.
  Qed.

  Lemma do_results_spec fast tail s outs x s' outs' :
    (forall h st0, fast h st0 = h && status_eqb st0 DONE) ->
    (forall st0, tail st0 = status_eqb st0 DONE) ->
    do_results T fast tail s outs = (OResults x, s', outs') ->
    spec_terminal (s_status s') = true /\ x = results_answer s'.
  Proof.
    intros Hf Htl. unfold do_results, results_answer. rewrite Hf.
    destruct (is_some (s_results s) && status_eqb (s_status s) DONE) eqn:F.
    - intros E. injection E as <- <- <-. apply andb_true_iff in F as [_ F]. rewrite F.
      apply status_eqb_eq in F. rewrite F. auto.
    - destruct (poll T (S (length outs)) s outs) as [[ab s1] outs1] eqn:P.
      destruct ab as [o|].
      + intros E. injection E as -> <- <-. exfalso. eapply poll_not_results; [exact P|reflexivity].
      + intros E. injection E as <- <- <-. rewrite Htl. split; [eapply poll_none; exact P|reflexivity].
  Qed.

  Lemma await_iter_spec s outs x s' outs' :
    await_iter T s outs = (OResults x, s', outs') ->
    spec_terminal (s_status s') = true /\ x = results_answer s'.
  Proof.
    unfold await_iter, results_answer. destruct (do_query T s outs) as [[o s1] outs1] eqn:Q.
    pose proof (do_query_not_results _ _ _ _ _ x Q) as NQ.
    destruct o; try (intros E; injection E as E _ _; try discriminate; congruence).
    pose proof (do_query_status _ _ _ _ _ Q) as ->. tb.
    destruct (spec_terminal (s_status s1)) eqn:Tm; intros E; [|discriminate].
    injection E as <- <- <-. cbn. auto.
  Qed.

  (** results() / wait_for_results() (in one piece or resumed at any await point) return only in a
      terminal status, and what they return is the stored results iff that status is DONE *)
  Theorem step_results_spec e s outs x s' outs' :
    Inv s -> step T s e outs = (OResults x, s', outs') ->
    spec_terminal (s_status s') = true /\ x = results_answer s'.
  Proof.
    intros HI. destruct e; cbn [step].
    - intros E. exfalso. apply submit_cases in E as [[_ [E _]]|[_ [res [n [_ E]]]]]; [discriminate|].
      cbn zeta in E. destruct res as [r| | |]; try (destruct E as [E _]; discriminate).
      destruct E as [_ E]. destruct (status_eqb _ _) in E; discriminate.
    - intros E. exfalso. apply do_query_cases in E as [[_ [E _]]|[[_ [E _]]|[_ [res [n [_ E]]]]]]; try discriminate.
      cbn zeta in E. destruct res; destruct E as [E _]; discriminate.
    - apply do_results_spec; [apply (ok_fast_b T maxr OK)|apply (ok_tail_b T maxr OK)].
    - destruct (s_await s); [discriminate|].
      apply do_results_spec; [apply (ok_fast_a T maxr OK)|apply (ok_tail_a T maxr OK)].
    - destruct (s_await s); [discriminate|]. tb.
      destruct (is_some (s_results s) && status_eqb (s_status s) DONE) eqn:F.
      + intros E. injection E as <- <- <-. apply andb_true_iff in F as [_ F]. unfold results_answer. rewrite F.
        apply status_eqb_eq in F. rewrite F. auto.
      + apply await_iter_spec.
    - destruct (s_await s); [|discriminate]. apply await_iter_spec.
  Qed.

  (** the answer in terms of the server's replies *)
  Lemma results_answer_payload s :
    Inv s ->
    (s_status s <> DONE -> results_answer s = None) /\
    (s_status s = DONE -> (s_polled s = true \/ sfj = true) ->
       exists r, s_last s = Some r /\ spec_status (r_status r) = DONE /\ results_answer s = Some (r_payload r)) /\
    (forall p, results_answer s = Some p -> s_status s = DONE).
  Proof.
    intros HI. unfold results_answer. split; [|split].
    - intros H. destruct (status_eqb (s_status s) DONE) eqn:E; [apply status_eqb_eq in E; contradiction|reflexivity].
    - intros Hd Hp. rewrite Hd. cbn. destruct (s_results s) as [p|] eqn:Rs.
      + destruct (inv_results s HI p Rs) as [_ [_ [r [Hl <-]]]]. exists r. repeat split; try assumption.
        pose proof (inv_status s HI) as Hs. rewrite Hl, Hd in Hs. congruence.
      + exfalso. exact (inv_done s HI Hd Hp Rs).
    - intros p. destruct (status_eqb (s_status s) DONE) eqn:E; [|discriminate].
      intros _. apply status_eqb_eq. exact E.
  Qed.


  (** ---------------------------------------------------------------- reachable states *)

  (** states reachable from a fresh experiment; [reach_g] additionally excludes the one
      history in which submit_experiment itself returns an experiment that is already DONE -
      unless from_json records the results of every 'finished' reply ([sfj] = true), in which case
      nothing is excluded *)
  Inductive reach : st -> list tout -> Prop :=
  | reach_init outs : reach (init_st T) outs
  | reach_step s outs e o s' outs' :
      reach s outs -> step T s e outs = (o, s', outs') -> reach s' outs'.

  Inductive reach_g : st -> list tout -> Prop :=
  | reachg_init outs : reach_g (init_st T) outs
  | reachg_step s outs e o s' outs' :
      reach_g s outs -> step T s e outs = (o, s', outs') -> (o <> OSubmitted DONE \/ sfj = true) ->
      reach_g s' outs'.

  Lemma reach_g_all s outs : sfj = true -> reach s outs -> reach_g s outs.
  Proof. intros F. induction 1; [constructor|econstructor; eauto]. Qed.

  Lemma reach_g_reach s outs : reach_g s outs -> reach s outs.
  Proof. induction 1; [constructor|econstructor; eassumption]. Qed.

  Lemma reach_inv s outs : reach s outs -> Inv s.
  Proof. induction 1; [apply inv_init|eapply step_inv; eassumption]. Qed.

  Definition R_polled (a : st) (_ : list tout) (b : st) (_ : list tout) : Prop :=
    (s_status a = DONE -> s_polled a = true \/ sfj = true) -> (s_status b = DONE -> s_polled b = true \/ sfj = true).

  Lemma query_polled s outs o s' outs' : do_query T s outs = (o, s', outs') -> R_polled s outs s' outs'.
  Proof.
    unfold R_polled. intros E Hp.
    apply do_query_cases in E as [[_ [_ [-> _]]]|[[_ [_ [-> _]]]|[G [res [n [_ E]]]]]]; try exact Hp.
    cbn zeta in E. destruct res as [r|x| |]; destruct E as [_ ->]; try exact Hp.
    cbn. intros _. left. reflexivity.
  Qed.

  (** DONE with missing results can only come from a submission that was answered 'finished' *)
  Lemma step_polled e s outs o s' outs' :
    (s_status s = DONE -> s_polled s = true \/ sfj = true) ->
    step T s e outs = (o, s', outs') -> (o <> OSubmitted DONE \/ sfj = true) ->
    (s_status s' = DONE -> s_polled s' = true \/ sfj = true).
  Proof.
    intros Hp E [Ho|Ho]; [|intros _; right; exact Ho]. destruct e.
    1: { apply submit_cases in E as [[_ [_ [-> _]]]|[I0 [res [n [_ E]]]]]; [exact Hp|].
         cbn zeta in E. destruct res as [r|y| |]; try (destruct E as [_ ->]; cbn; rewrite I0; discriminate).
         destruct E as [-> E]. cbn. intros Hd. rewrite Hd in E. cbn in E. congruence. }
    all: revert Hp; change (R_polled s outs s' outs');
      eapply (step_R_ns R_polled); try exact E; try discriminate; unfold R_polled; intros; auto.
    all: eapply query_polled; eassumption.
  Qed.

  Lemma reach_g_polled s outs : reach_g s outs -> s_status s = DONE -> s_polled s = true \/ sfj = true.
  Proof.
    induction 1.
    - cbn. tb. discriminate.
    - eapply step_polled; eassumption.
  Qed.

  (** C17, results clause: blocking and awaiting result calls return the server's results exactly
      when the final status is DONE and None otherwise *)
  Theorem results_exactly_when_done s outs e x s' outs' :
    reach_g s outs -> step T s e outs = (OResults x, s', outs') ->
    spec_terminal (s_status s') = true /\
    (s_status s' <> DONE -> x = None) /\
    (s_status s' = DONE ->
       exists r, s_last s' = Some r /\ spec_status (r_status r) = DONE /\ x = Some (r_payload r)).
  Proof.
    intros Hr E.
    pose proof (reach_inv _ _ (reach_g_reach _ _ Hr)) as HI.
    destruct (step_results_spec _ _ _ _ _ _ HI E) as [Ht ->].
    assert (Hr' : reach_g s' outs') by (eapply reachg_step; [exact Hr|exact E|left; discriminate]).
    pose proof (reach_inv _ _ (reach_g_reach _ _ Hr')) as HI'.
    destruct (results_answer_payload s' HI') as [A [B _]].
    repeat split; auto. intros Hd. apply B; [exact Hd|]. eapply reach_g_polled; eassumption.
  Qed.

  (** without the guard: still never a payload unless DONE, and a payload is the server's *)
  Theorem results_sound s outs e x s' outs' :
    reach s outs -> step T s e outs = (OResults x, s', outs') ->
    spec_terminal (s_status s') = true /\
    (s_status s' <> DONE -> x = None) /\
    (forall p, x = Some p -> s_status s' = DONE /\ exists r, s_last s' = Some r /\ r_payload r = p).
  Proof.
    intros Hr E. pose proof (reach_inv _ _ Hr) as HI.
    destruct (step_results_spec _ _ _ _ _ _ HI E) as [Ht ->].
    pose proof (step_inv _ _ _ _ _ _ HI E) as HI'.
    destruct (results_answer_payload s' HI') as [A [_ C]].
    repeat split; auto.
    - eapply C; eassumption.
    - unfold results_answer in H. destruct (status_eqb (s_status s') DONE); [|discriminate].
      destruct (inv_results s' HI' p H) as [_ [_ Hx]]. exact Hx.
  Qed.

  (** the same on traces of whole client scripts *)
  Theorem run_results evs : forall s outs tr sf outsf,
    reach_g s outs -> run T s evs outs = (tr, sf, outsf) ->
    (sfj = true \/ forall st0 n, ~ In (OSubmitted DONE, st0, n) tr) ->
    reach_g sf outsf /\
    Forall (fun en : tentry => forall x, fst (fst en) = OResults x ->
              spec_terminal (snd (fst en)) = true /\
              (snd (fst en) <> DONE -> x = None) /\ (snd (fst en) = DONE -> x <> None)) tr.
  Proof.
    induction evs as [|e es IH]; intros s outs tr sf outsf Hr E Hn; cbn [run] in E.
    - injection E as <- <- <-. split; [exact Hr|constructor].
    - destruct (step T s e outs) as [[o s1] outs1] eqn:S1.
      destruct (run T s1 es outs1) as [[tr1 sf1] outsf1] eqn:R1. injection E as <- <- <-.
      assert (Ho : o <> OSubmitted DONE \/ sfj = true).
      { destruct Hn as [Hn|Hn]; [right; exact Hn|left].
        intros ->. apply (Hn (s_status s1) (length (s_log s1))). left. reflexivity. }
      assert (Hr1 : reach_g s1 outs1) by (eapply reachg_step; eassumption).
      destruct (IH _ _ _ _ _ Hr1 R1) as [Hf Hall].
      { destruct Hn as [Hn|Hn]; [left; exact Hn|right]. intros st0 n Hin. apply (Hn st0 n). right. exact Hin. }
      split; [exact Hf|]. constructor; [|exact Hall].
      cbn. intros x ->. destruct (results_exactly_when_done _ _ _ _ _ _ Hr S1) as [A [B C]].
      repeat split; auto. intros Hd. destruct (C Hd) as [r [_ [_ ->]]]. discriminate.
  Qed.

  (** ---------------------------------------------------------------- before submission *)

  Definition client_call (e : ev) : bool :=
    match e with Query | Results | Await | AwaitBegin => true | _ => false end.

  Theorem step_before_submit e s outs :
    s_status s = INITIALIZING -> s_await s = false -> client_call e = true ->
    step T s e outs = (ORefused, s, outs).
  Proof.
    intros I0 Aw Hc.
    assert (Q : do_query T s outs = (ORefused, s, outs)).
    { unfold do_query. tb. rewrite I0. reflexivity. }
    assert (P : poll T (S (length outs)) s outs = (Some ORefused, s, outs)).
    { cbn [poll]. rewrite Q. reflexivity. }
    destruct e; try discriminate; cbn [step]; rewrite ?Aw; tb.
    - exact Q.
    - unfold do_results. tb. rewrite I0, andb_false_r, P. reflexivity.
    - unfold do_results. tb. rewrite I0, andb_false_r, P. reflexivity.
    - rewrite I0, andb_false_r. unfold await_iter. rewrite Q. destruct s; cbn in *. subst. reflexivity.
  Qed.

  Theorem run_before_submit evs outs :
    forallb client_call evs = true ->
    run T (init_st T) evs outs = (map (fun _ => (ORefused, INITIALIZING, 0%nat)) evs, init_st T, outs).
  Proof.
    induction evs as [|e es IH]; intros H; cbn [run map]; [reflexivity|].
    cbn [forallb] in H. apply andb_true_iff in H as [H1 H2].
    rewrite (step_before_submit e (init_st T) outs); [|cbn; tb; reflexivity|reflexivity|exact H1].
    rewrite (IH H2). cbn. tb. reflexivity.
  Qed.

  (** ---------------------------------------------------------------- the poll fuel is enough *)

  Lemma poll_fuel fuel : forall s outs ab s' outs',
    (length outs < fuel)%nat -> poll T fuel s outs = (ab, s', outs') -> ab <> Some OFuel.
  Proof.
    induction fuel as [|f IH]; intros s outs ab s' outs' Hl P; [lia|]. cbn [poll] in P.
    destruct (do_query T s outs) as [[o s1] outs1] eqn:Q.
    assert (NF : o <> OFuel).
    { apply do_query_cases in Q as [[_ [-> _]]|[[_ [-> _]]|[_ [res [n [_ Q]]]]]]; try discriminate.
      cbn zeta in Q. destruct res; destruct Q as [-> _]; discriminate. }
    destruct o; try (injection P as <- _ _; congruence).
    pose proof (do_query_status _ _ _ _ _ Q) as ->. tbin P.
    destruct (spec_terminal (s_status s1)) eqn:Tm; [injection P as <- _ _; discriminate|].
    eapply IH; [|exact P].
    apply do_query_cases in Q as [[_ [Q _]]|[[Ht [_ [-> _]]]|[_ [res [n [H Q]]]]]]; try discriminate.
    - congruence.
    - cbn zeta in Q. destruct res as [r|y| |]; destruct Q as [Q _]; try discriminate.
      destruct (http_request_consumes _ _ _ _ H) as [_ Hc]. specialize (Hc r eq_refl). lia.
  Qed.

  Theorem results_never_out_of_fuel fast tail s outs o s' outs' :
    do_results T fast tail s outs = (o, s', outs') -> o <> OFuel.
  Proof.
    unfold do_results. destruct (fast _ _); [intros E; injection E as <- _ _; discriminate|].
    destruct (poll T (S (length outs)) s outs) as [[ab s1] outs1] eqn:P.
    pose proof (poll_fuel _ _ _ _ _ _ (Nat.lt_succ_diag_r _) P) as NF.
    destruct ab; intros E; injection E as <- _ _; congruence.
  Qed.

  (** ---------------------------------------------------------------- the coroutine in pieces *)

  (** resume the suspended coroutine until it finishes *)
  Fixpoint drive (fuel : nat) (s : st) (outs : list tout) : outcome * st * list tout :=
    match fuel with
    | O => (OFuel, s, outs)
    | S f =>
        let '(o, s1, outs1) := step T s AwaitResume outs in
        match o with OPending => drive f s1 outs1 | _ => (o, s1, outs1) end
    end.

  Definition await_in_pieces (s : st) (outs : list tout) : outcome * st * list tout :=
    let '(o, s1, outs1) := step T s AwaitBegin outs in
    match o with OPending => drive (length outs) s1 outs1 | _ => (o, s1, outs1) end.

  Lemma do_query_await s b outs :
    do_query T (set_await s b) outs =
    (let '(o, s1, outs1) := do_query T s outs in (o, set_await s1 b, outs1)).
  Proof.
    unfold do_query. cbn [s_status set_await]. destruct (tb_guard T (s_status s)); try reflexivity.
    unfold do_request. cbn [s_job s_log set_await]. destruct (http_request T outs) as [[res n] rest].
    destruct res; try reflexivity.
    cbn [from_json s_status set_log]. destruct (tb_store T (tb_status T (r_status r))); reflexivity.
  Qed.

  Lemma do_query_not_pending s outs o s' outs' : do_query T s outs = (o, s', outs') -> o <> OPending.
  Proof.
    intros Q. apply do_query_cases in Q as [[_ [-> _]]|[[_ [-> _]]|[_ [res [n [_ Q]]]]]]; try discriminate.
    cbn zeta in Q. destruct res; destruct Q as [-> _]; discriminate.
  Qed.

  Lemma drive_poll fuel : forall s outs ab s1 outs1,
    poll T fuel s outs = (ab, s1, outs1) -> ab <> Some OFuel ->
    drive fuel (set_await s true) outs =
    (match ab with
     | None => OResults (if tb_tail_a T (s_status s1) then s_results s1 else None)
     | Some o => o
     end, set_await s1 false, outs1).
  Proof.
    induction fuel as [|f IH]; intros s outs ab s1 outs1 P NF; cbn [poll] in P.
    - injection P as <- _ _. contradiction.
    - cbn [drive step s_await set_await]. unfold await_iter. rewrite do_query_await.
      destruct (do_query T s outs) as [[o s2] outs2] eqn:Q.
      pose proof (do_query_not_pending _ _ _ _ _ Q) as NP.
      destruct o; try (injection P as <- <- <-; reflexivity); try contradiction.
      destruct (tb_terminal T s0).
      + injection P as <- <- <-. reflexivity.
      + change (set_await (add_sleep (set_await s2 true)) true) with (set_await (add_sleep s2) true).
        apply IH; assumption.
  Qed.

  (** running wait_for_results in one piece is the same as starting it and resuming it at each of its
      await points until it finishes: same outcome, same state, same requests, same consumed outcomes *)
  Theorem await_split s outs o s' outs' :
    s_await s = false -> step T s Await outs = (o, s', outs') ->
    await_in_pieces s outs = (o, set_await s' false, outs').
  Proof.
    intros Aw E. cbn [step] in E. rewrite Aw in E. unfold await_in_pieces. cbn [step]. rewrite Aw.
    unfold do_results in E. destruct (tb_fast_a T (is_some (s_results s)) (s_status s)).
    - injection E as <- <- <-. destruct s; cbn in *; subst; reflexivity.
    - destruct (poll T (S (length outs)) s outs) as [[ab s1] outs1] eqn:P.
      pose proof (poll_fuel _ _ _ _ _ _ (Nat.lt_succ_diag_r _) P) as NF.
      cbn [poll] in P. unfold await_iter.
      destruct (do_query T s outs) as [[o2 s2] outs2] eqn:Q.
      pose proof (do_query_not_pending _ _ _ _ _ Q) as NP.
      destruct o2; try (injection P as <- <- <-; injection E as <- <- <-; reflexivity); try contradiction.
      destruct (tb_terminal T s0).
      + injection P as <- <- <-. injection E as <- <- <-. reflexivity.
      + assert (Hl : (length outs2 <= length outs)%nat).
        { apply do_query_cases in Q as [[_ [_ [_ ->]]]|[[_ [_ [_ ->]]]|[_ [res [n [H _]]]]]]; try lia.
          apply http_request_consumes in H as [H _]. exact H. }
        (* the remaining fuel of poll is [length outs]; drive is started with the same amount *)
        pose proof (drive_poll _ _ _ _ _ _ P NF) as D.
        change (set_await (add_sleep s2) true) with (set_await (add_sleep s2) true) in D.
        rewrite D. destruct ab; injection E as <- <- <-; reflexivity.
  Qed.

End Life.
