(** C17 - executable model of the experiment lifecycle (WMIExperiment + processor.submit_experiment)
    and of the transport retry loop (qib.util.networking._http_request).

    No proofs here.  Everything that can be read off the syntax of the Python source is a field of
    the record [tables]; gen/backend.py regenerates an instance of it ([Run.GenLife.gen_tables])
    from /repo on every run.  Two places may record the results of a 'finished' reply: query_status
    ([tb_store]) and from_json ([tb_store_fj], which then also applies to the reply to the
    submission); the source decides which, the model has both.  The control skeleton (the two poll loops, the order of
    request / from_json / result update, the request log) is hand-written here and tied to the code by
    the correspondence run of checks/C17.py.

    Wall-clock behaviour is replaced by event lists:
      * the server + network are one finite list of transport outcomes [tout], consumed one per
        call of requests.put / requests.post;
      * the client is a finite list of events [ev]; the coroutine wait_for_results is split at its
        await points into AwaitBegin / AwaitResume so that any other client event can be scheduled
        in between (every step between two await points is atomic in Python's coroutine semantics). *)
From Qib Require Export Backend.BkBase.
Local Open Scope Z_scope.

Inductive status := INITIALIZING | QUEUED | RUNNING | DONE | ERROR | CANCELLED.

Definition status_eqb (a b : status) : bool :=
  match a, b with
  | INITIALIZING, INITIALIZING | QUEUED, QUEUED | RUNNING, RUNNING
  | DONE, DONE | ERROR, ERROR | CANCELLED, CANCELLED => true
  | _, _ => false
  end.

(** a well-formed JSON reply of the server: status string, job id, and (for 'finished' replies)
    the results payload, abstracted to an identifier *)
Record reply := { r_status : str; r_job : Z; r_payload : Z }.

(** what one call of requests.put/post does *)
Inductive tout :=
| TOk (r : reply)      (* returns a response whose raise_for_status() passes *)
| TTimeout             (* raises requests.exceptions.Timeout (incl. Read/ConnectTimeout) *)
| THttpErr             (* response.raise_for_status() raises HTTPError (4xx/5xx) *)
| TReqErr              (* response.raise_for_status() raises another RequestException *)
| TConnErr.            (* the call raises a non-timeout exception (ConnectionError) *)

Inductive traise := XHttp | XReq | XConn | XMax.

(** result of _http_request *)
Inductive tres :=
| TRet (r : reply)
| TRaise (x : traise)
| TFallOff             (* the function reaches its end and returns None *)
| TDry.                (* the scripted outcome list is exhausted (not a behaviour of the code) *)

Inductive guard := GRefuse | GReturn | GRequest.

Record tables := {
  tb_initial : status;                 (* WMIExperiment._initialize *)
  tb_status : str -> status;           (* WMIExperiment._from_wmi_status *)
  tb_terminal : status -> bool;        (* ExperimentStatus.is_terminal *)
  tb_guard : status -> guard;          (* head of query_status *)
  tb_store : status -> bool;           (* query_status: condition of the results update (after from_json) *)
  tb_store_fj : status -> bool;        (* from_json: condition of a results update inside from_json itself, i.e. for
                                          the reply to a status query AND for the reply to the submission
                                          (fun _ => false when from_json does not touch the results) *)
  tb_fast_b : bool -> status -> bool;  (* results(): early return (has results, status) *)
  tb_tail_b : status -> bool;          (* results(): after the loop, return self._results iff *)
  tb_fast_a : bool -> status -> bool;  (* wait_for_results(): same two *)
  tb_tail_a : status -> bool;
  tb_submit_raises : status -> bool;   (* processor._process_response: raise iff *)
  tb_init : Z;                         (* _http_request: retries = ... *)
  tb_cond : Z -> bool;                 (* while <cond retries> *)
  tb_incr : Z -> Z;                    (* the Timeout handler's update of retries *)
  tb_final : Z -> bool                 (* the if after the loop *)
}.

(** ------------------------------------------------------------------ transport *)

(** the while loop of _http_request started with counter value [retries]:
    (result, number of calls of request(), remaining outcomes) *)
Fixpoint retry (T : tables) (retries : Z) (outs : list tout) {struct outs} : tres * nat * list tout :=
  if tb_cond T retries then
    match outs with
    | [] => (TDry, 0%nat, [])
    | o :: rest =>
        match o with
        | TOk r => (TRet r, 1%nat, rest)
        | TTimeout => let '(res, n, rest') := retry T (tb_incr T retries) rest in (res, S n, rest')
        | THttpErr => (TRaise XHttp, 1%nat, rest)
        | TReqErr => (TRaise XReq, 1%nat, rest)
        | TConnErr => (TRaise XConn, 1%nat, rest)
        end
    end
  else if tb_final T retries then (TRaise XMax, 0%nat, outs) else (TFallOff, 0%nat, outs).

Definition http_request (T : tables) (outs : list tout) := retry T (tb_init T) outs.

(** ------------------------------------------------------------------ lifecycle *)

Inductive req := RPut | RPost (job : option Z).

Record st := {
  s_status : status;
  s_results : option Z;
  s_job : option Z;
  s_log : list req;          (* every call of requests.put/post, oldest first *)
  s_sleeps : nat;            (* number of waits between polls *)
  s_await : bool;            (* a wait_for_results coroutine is suspended at its await point *)
  s_last : option reply;     (* ghost: the last reply that was processed by from_json *)
  s_polled : bool            (* ghost: that reply answered a status query (not the submission) *)
}.

Definition init_st (T : tables) : st :=
  {| s_status := tb_initial T; s_results := None; s_job := None; s_log := []; s_sleeps := 0;
     s_await := false; s_last := None; s_polled := false |}.

Definition set_log (s : st) (l : list req) : st :=
  {| s_status := s_status s; s_results := s_results s; s_job := s_job s; s_log := l;
     s_sleeps := s_sleeps s; s_await := s_await s; s_last := s_last s; s_polled := s_polled s |}.
Definition set_results (s : st) (r : option Z) : st :=
  {| s_status := s_status s; s_results := r; s_job := s_job s; s_log := s_log s;
     s_sleeps := s_sleeps s; s_await := s_await s; s_last := s_last s; s_polled := s_polled s |}.
Definition set_await (s : st) (b : bool) : st :=
  {| s_status := s_status s; s_results := s_results s; s_job := s_job s; s_log := s_log s;
     s_sleeps := s_sleeps s; s_await := b; s_last := s_last s; s_polled := s_polled s |}.
Definition add_sleep (s : st) : st :=
  {| s_status := s_status s; s_results := s_results s; s_job := s_job s; s_log := s_log s;
     s_sleeps := S (s_sleeps s); s_await := s_await s; s_last := s_last s; s_polled := s_polled s |}.

(** experiment.from_json(reply) *)
Definition from_json (T : tables) (s : st) (r : reply) (polled : bool) : st :=
  {| s_status := tb_status T (r_status r);
     s_results := if tb_store_fj T (tb_status T (r_status r)) then Some (r_payload r) else s_results s;
     s_job := Some (r_job r);
     s_log := s_log s; s_sleeps := s_sleeps s; s_await := s_await s;
     s_last := Some r; s_polled := polled |}.

(** networking.http_put / http_post: every attempt is one entry of the request log *)
Definition do_request (T : tables) (s : st) (rq : req) (outs : list tout) : tres * st * list tout :=
  let '(res, n, rest) := http_request T outs in
  (res, set_log s (s_log s ++ repeat rq n), rest).

Inductive outcome :=
| OInvalid                 (* event not applicable in this state (never generated by the harness) *)
| ORefused                 (* ValueError: experiment has to be submitted first *)
| OStatus (s : status)     (* query_status returned s *)
| OSubmitted (s : status)  (* submit_experiment returned the experiment *)
| OSubmitRaised            (* submit_experiment raised RuntimeError (status ERROR) *)
| OResults (x : option Z)  (* results() / wait_for_results() returned x *)
| OPending                 (* the coroutine is suspended at its await point *)
| ONet (x : traise)        (* a transport exception propagated *)
| OCrash                   (* _http_request returned None and .json() failed *)
| ODry                     (* StillPolling: the scripted replies are exhausted *)
| OFuel.                   (* poll fuel exhausted (unreachable, see LifeProofs.poll_fuel) *)

Definition is_some {A} (o : option A) : bool := match o with Some _ => true | None => false end.

(** WMIExperiment.query_status *)
Definition do_query (T : tables) (s : st) (outs : list tout) : outcome * st * list tout :=
  match tb_guard T (s_status s) with
  | GRefuse => (ORefused, s, outs)
  | GReturn => (OStatus (s_status s), s, outs)
  | GRequest =>
      let '(res, s1, rest) := do_request T s (RPost (s_job s)) outs in
      match res with
      | TRet r =>
          let s2 := from_json T s1 r true in
          let s3 := if tb_store T (s_status s2) then set_results s2 (Some (r_payload r)) else s2 in
          (OStatus (s_status s3), s3, rest)
      | TRaise x => (ONet x, s1, rest)
      | TFallOff => (OCrash, s1, rest)
      | TDry => (ODry, s1, rest)
      end
  end.

(** the poll loop of results() (sched) and of wait_for_results() run without interruption:
    None = the loop ended because query_status returned a terminal status *)
Fixpoint poll (T : tables) (fuel : nat) (s : st) (outs : list tout) : option outcome * st * list tout :=
  match fuel with
  | O => (Some OFuel, s, outs)
  | S f =>
      let '(o, s1, outs1) := do_query T s outs in
      match o with
      | OStatus x => if tb_terminal T x then (None, s1, outs1) else poll T f (add_sleep s1) outs1
      | _ => (Some o, s1, outs1)
      end
  end.

Definition do_results (T : tables) (fast : bool -> status -> bool) (tail : status -> bool)
           (s : st) (outs : list tout) : outcome * st * list tout :=
  if fast (is_some (s_results s)) (s_status s) then (OResults (s_results s), s, outs)
  else
    let '(ab, s1, outs1) := poll T (S (length outs)) s outs in
    match ab with
    | Some o => (o, s1, outs1)
    | None => (OResults (if tail (s_status s1) then s_results s1 else None), s1, outs1)
    end.

(** one evaluation of the loop condition of wait_for_results, up to the next await point *)
Definition await_iter (T : tables) (s : st) (outs : list tout) : outcome * st * list tout :=
  let '(o, s1, outs1) := do_query T s outs in
  match o with
  | OStatus x =>
      if tb_terminal T x
      then (OResults (if tb_tail_a T (s_status s1) then s_results s1 else None), set_await s1 false, outs1)
      else (OPending, set_await (add_sleep s1) true, outs1)
  | _ => (o, set_await s1 false, outs1)
  end.

Inductive ev := Submit | Query | Results | Await | AwaitBegin | AwaitResume.

Definition step (T : tables) (s : st) (e : ev) (outs : list tout) : outcome * st * list tout :=
  match e with
  | Submit =>
      if status_eqb (s_status s) (tb_initial T) then
        let '(res, s1, rest) := do_request T s RPut outs in
        match res with
        | TRet r =>
            let s2 := from_json T s1 r false in
            (if tb_submit_raises T (s_status s2) then OSubmitRaised else OSubmitted (s_status s2), s2, rest)
        | TRaise x => (ONet x, s1, rest)
        | TFallOff => (OCrash, s1, rest)
        | TDry => (ODry, s1, rest)
        end
      else (OInvalid, s, outs)
  | Query => do_query T s outs
  | Results => do_results T (tb_fast_b T) (tb_tail_b T) s outs
  | Await => if s_await s then (OInvalid, s, outs) else do_results T (tb_fast_a T) (tb_tail_a T) s outs
  | AwaitBegin =>
      if s_await s then (OInvalid, s, outs)
      else if tb_fast_a T (is_some (s_results s)) (s_status s) then (OResults (s_results s), s, outs)
      else await_iter T s outs
  | AwaitResume => if s_await s then await_iter T s outs else (OInvalid, s, outs)
  end.

(** trace entry: outcome, status afterwards, number of requests issued so far *)
Definition tentry := (outcome * status * nat)%type.

Fixpoint run (T : tables) (s : st) (evs : list ev) (outs : list tout) : list tentry * st * list tout :=
  match evs with
  | [] => ([], s, outs)
  | e :: es =>
      let '(o, s1, outs1) := step T s e outs in
      let '(tr, sf, outsf) := run T s1 es outs1 in
      ((o, s_status s1, length (s_log s1)) :: tr, sf, outsf)
  end.

(** ------------------------------------------------------------------ the documented tables *)

Definition c_pending : str := [112; 101; 110; 100; 105; 110; 103].
Definition c_active : str := [97; 99; 116; 105; 118; 101].
Definition c_finished : str := [102; 105; 110; 105; 115; 104; 101; 100].
Definition c_cancelled : str := [99; 97; 110; 99; 101; 108; 108; 101; 100].
Definition c_offline : str := [111; 102; 102; 108; 105; 110; 101].

(** documented mapping of the server's status strings; everything else is ERROR *)
Definition spec_status (s : str) : status :=
  if str_eqb s c_pending then QUEUED
  else if str_eqb s c_active then RUNNING
  else if str_eqb s c_finished then DONE
  else if str_eqb s c_cancelled then CANCELLED
  else ERROR.

Definition spec_terminal (s : status) : bool :=
  match s with DONE | ERROR | CANCELLED => true | _ => false end.

Definition spec_guard (s : status) : guard :=
  match s with
  | INITIALIZING => GRefuse
  | DONE | ERROR | CANCELLED => GReturn
  | _ => GRequest
  end.

Record tables_ok (T : tables) (maxr : Z) : Prop := {
  ok_initial : tb_initial T = INITIALIZING;
  ok_status : forall s, tb_status T s = spec_status s;
  ok_terminal : forall s, tb_terminal T s = spec_terminal s;
  ok_guard : forall s, tb_guard T s = spec_guard s;
  (* a reply to a status query stores its results iff the new status is DONE (in query_status or in from_json) *)
  ok_store : forall s, tb_store T s || tb_store_fj T s = status_eqb s DONE;
  (* from_json stores results either never, or exactly when the new status is DONE *)
  ok_store_fj : forall s, tb_store_fj T s = tb_store_fj T DONE && status_eqb s DONE;
  ok_fast_b : forall h s, tb_fast_b T h s = h && status_eqb s DONE;
  ok_tail_b : forall s, tb_tail_b T s = status_eqb s DONE;
  ok_fast_a : forall h s, tb_fast_a T h s = h && status_eqb s DONE;
  ok_tail_a : forall s, tb_tail_a T s = status_eqb s DONE;
  ok_submit : forall s, tb_submit_raises T s = status_eqb s ERROR;
  ok_max : 0 <= maxr;
  ok_init : tb_init T = 0;
  ok_cond : forall r, tb_cond T r = (r <=? maxr);
  ok_incr : forall r, tb_incr T r = r + 1;
  ok_final : forall r, tb_final T r = (maxr <? r)
}.
