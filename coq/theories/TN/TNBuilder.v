(** SymbolicTensorNetwork._build_contraction_tree (TNTree.build_tree) builds, for EVERY scaffold
    whose leaves are distinct real tensors, a tree that the verified checker accepts: the
    invariant [BI] of subtrees is established for leaves and preserved by the node construction
    (bond collection, index unification with partial contraction of multi-edges, open-leg
    tracking).  Totality comes along: on a consistent network the builder never raises. *)
From Qib Require Export TN.TNBuilderLoops TN.TNConsistentConv.
From Coq Require Import Permutation.
Local Open Scope Z_scope.

(* ------------------------------------------------------------------ generic list facts *)
Lemma list_eqb_refl {A} (eqb : A -> A -> bool) (H : forall a, eqb a a = true) l : list_eqb eqb l l = true.
Proof. induction l as [|a l IH]; [reflexivity|]. cbn. rewrite H, IH. reflexivity. Qed.

Lemma NoDup_map_inj_in {A B} (f : A -> B) l :
  (forall x y, In x l -> In y l -> f x = f y -> x = y) -> NoDup l -> NoDup (map f l).
Proof.
  intros Hinj ND. induction ND as [|x l Hx ND IH]; [constructor|]. cbn. constructor.
  - intros Hin. apply in_map_iff in Hin. destruct Hin as [y [E Hy]].
    assert (y = x) by (apply Hinj; [right; exact Hy | left; reflexivity | exact E]). subst. contradiction.
  - apply IH. intros a b Ha Hb. apply Hinj; right; assumption.
Qed.

Lemma NoDup_app_intro {A} (a b : list A) : NoDup a -> NoDup b -> (forall x, In x a -> ~ In x b) -> NoDup (a ++ b).
Proof.
  intros Na Nb D. induction Na as [|x a Hx Na IH]; [exact Nb|]. cbn. constructor.
  - rewrite in_app_iff. intros [H|H]; [contradiction | exact (D x (or_introl eq_refl) H)].
  - apply IH. intros y Hy. apply D. right. exact Hy.
Qed.

Lemma in_combine_ex {A B} (l : list A) (l' : list B) x : length l' = length l -> In x l -> exists y, In (x, y) (combine l l').
Proof.
  revert l'. induction l as [|a l IH]; intros [|b l'] E H; cbn in *; try discriminate; [destruct H|].
  destruct H as [->|H]; [exists b; left; reflexivity|].
  destruct (IH l' ltac:(lia) H) as [y Hy]. exists y. right. exact Hy.
Qed.

Lemma nth_error_combine_inv {A B} (l : list A) (l' : list B) : forall i a b,
  nth_error (combine l l') i = Some (a, b) -> nth_error l i = Some a /\ nth_error l' i = Some b.
Proof.
  revert l'. induction l as [|x l IH]; intros [|y l'] [|i] a b H; cbn in *; try discriminate.
  - injection H as -> ->. auto.
  - apply IH. exact H.
Qed.

Lemma idx_n_sound l o : In l o -> nth_error o (idx_n l o) = Some l /\ nindex l o = Some (idx_n l o).
Proof.
  intros H. unfold idx_n. destruct (nindex_Some l o H) as [p Hp]. rewrite Hp. split; [apply nindex_sound; exact Hp | reflexivity].
Qed.
Lemma idx_n_lt l o : In l o -> (idx_n l o < length o)%nat.
Proof. intros H. apply nth_error_Some. rewrite (proj1 (idx_n_sound l o H)). discriminate. Qed.
Lemma idx_n_inj l l' o : In l o -> In l' o -> idx_n l o = idx_n l' o -> l = l'.
Proof.
  intros H H' E. pose proof (proj1 (idx_n_sound l o H)) as A. pose proof (proj1 (idx_n_sound l' o H')) as A'.
  rewrite E in A. congruence.
Qed.
Lemma idx_n_nth o p : NoDup o -> (p < length o)%nat -> idx_n (nth p o O) o = p.
Proof.
  intros ND Hp. assert (Hin : In (nth p o O) o) by (apply nth_In; exact Hp).
  pose proof (proj1 (idx_n_sound _ _ Hin)) as A. pose proof (idx_n_lt _ _ Hin) as B.
  rewrite NoDup_nth_error in ND. apply ND; [exact B|]. rewrite A. symmetry. apply nth_error_nth'. exact Hp.
Qed.

(* ------------------------------------------------------------------ the legs of a bond *)
Definition blegs (n : net) (b : Z) : list leg :=
  match dget b (bonds n), get_bond_axes n b with
  | Some bd, Some axs => combine (b_tids bd) axs
  | _, _ => []
  end.

(** a leg that exists in the network *)
Definition vleg (n : net) (e : leg) : Prop :=
  exists t, dget (fst e) (tensors n) = Some t /\ (snd e < length (t_bids t))%nat.

Section Legs.
  Variable n : net.
  Hypothesis W : WF n.
  Let W0 : WF0 n := proj1 W.

  Lemma blegs_spec b : In b (dkeys (bonds n)) ->
    exists bd axs, dget b (bonds n) = Some bd /\ get_bond_axes n b = Some axs /\
      length axs = length (b_tids bd) /\ NoDup (combine (b_tids bd) axs) /\
      forall tid ax, In (tid, ax) (combine (b_tids bd) axs) <->
                     exists t, dget tid (tensors n) = Some t /\ nth_error (t_bids t) ax = Some b.
  Proof.
    intros Hb. destruct (In_key_dget b (bonds n) Hb) as [bd Eb].
    pose proof (dget_In _ _ _ Eb) as Hin. destruct (wf_B n W0 b bd Hin) as [Hid Hlen].
    unfold get_bond_axes. rewrite Eb, Hid, Z.eqb_refl.
    destruct (bond_axes_aux_spec (tensors n) b (b_tids bd) []) as [axs [E [L Sp]]].
    { intros tid Ht. destruct (In_key_dget tid (tensors n) (wf_tids_exist n b bd tid W0 Hin Ht)) as [t Et].
      exists t. split; [assumption|]. cbn [app].
      pose proof (wf_inc n W0 tid b) as I. unfold cntT, cntB in I. rewrite Et, Eb in I. lia. }
    exists bd, axs. split; [reflexivity|]. split; [exact E|]. split; [exact L|].
    assert (Leg : forall i tid ax, nth_error (combine (b_tids bd) axs) i = Some (tid, ax) ->
                  nth_error (b_tids bd) i = Some tid /\
                  exists t, dget tid (tensors n) = Some t /\
                            find_leg b (t_bids t) (zcount tid (firstn i (b_tids bd))) O = Some ax).
    { intros i tid ax Hi. destruct (nth_error_combine_inv _ _ _ _ _ Hi) as [A1 A2]. split; [exact A1|].
      destruct (Sp i tid ax A1 A2) as [t [Et F]]. exists t. split; [exact Et | exact F]. }
    split; [|intros tid ax; split].
    - apply NoDup_nth_error. intros i i' Hi Heq.
      destruct (nth_error (combine (b_tids bd) axs) i) as [[tid ax]|] eqn:Ei; [|apply nth_error_None in Ei; lia].
      symmetry in Heq.
      destruct (Leg _ _ _ Ei) as [A1 [t [Et F]]]. destruct (Leg _ _ _ Heq) as [B1 [t' [Et' F']]].
      assert (t' = t) by congruence. subst t'.
      destruct (Nat.lt_trichotomy i i') as [Hlt|[->|Hgt]]; [|reflexivity|]; exfalso.
      + pose proof (zcount_firstn_lt tid (b_tids bd) i i' Hlt A1) as Z1.
        pose proof (find_leg_mono _ _ _ _ _ _ _ Z1 F F'). lia.
      + pose proof (zcount_firstn_lt tid (b_tids bd) i' i Hgt B1) as Z1.
        pose proof (find_leg_mono _ _ _ _ _ _ _ Z1 F' F). lia.
    - intros Hp. apply In_nth_error in Hp. destruct Hp as [i Hi].
      destruct (Leg _ _ _ Hi) as [_ [t [Et F]]]. exists t. split; [exact Et|].
      apply find_leg_sound in F. rewrite Nat.sub_0_r in F. apply F.
    - intros [t [Et Hleg]].
      set (j := zcount b (firstn ax (t_bids t))).
      assert (Hj : (j < zcount tid (b_tids bd))%nat).
      { pose proof (wf_inc n W0 tid b) as I. unfold cntT, cntB in I. rewrite Et, Eb in I. rewrite <- I.
        rewrite <- (firstn_skipn ax (t_bids t)) at 1. rewrite zcount_app. fold j.
        assert (Hs : skipn ax (t_bids t) = b :: skipn (S ax) (t_bids t)).
        { clear - Hleg. revert ax Hleg. generalize (t_bids t). induction l as [|x l IH]; intros [|ax] H; cbn in *; try discriminate.
          - injection H as ->. reflexivity.
          - apply IH. exact H. }
        rewrite Hs, zcount_cons, Z.eqb_refl. lia. }
      destruct (kth_occ tid (b_tids bd) j Hj) as [r [Hr Hc]].
      destruct (nth_error axs r) as [ax'|] eqn:Ea.
      2:{ apply nth_error_None in Ea. assert (r < length (b_tids bd))%nat by (apply nth_error_Some; congruence). lia. }
      destruct (Sp r tid ax' Hr Ea) as [t' [Et' F]]. assert (t' = t) by congruence. subst t'.
      cbn [app] in F. rewrite Hc in F. rewrite (find_leg_char b (t_bids t) j O ax Hleg eq_refl) in F.
      injection F as <-. eapply nth_error_In. apply nth_error_combine; [exact Hr | exact Ea].
  Qed.

  Lemma blegs_In b e : In b (dkeys (bonds n)) ->
    (In e (blegs n b) <-> exists t, dget (fst e) (tensors n) = Some t /\ nth_error (t_bids t) (snd e) = Some b).
  Proof.
    intros Hb. destruct (blegs_spec b Hb) as [bd [axs [E1 [E2 [_ [_ S]]]]]]. unfold blegs. rewrite E1, E2.
    destruct e as [tid ax]. apply S.
  Qed.
  Lemma blegs_NoDup b : NoDup (blegs n b).
  Proof.
    unfold blegs. destruct (dget b (bonds n)) as [bd|] eqn:E1; [|constructor].
    destruct (get_bond_axes n b) as [axs|] eqn:E2; [|constructor].
    destruct (blegs_spec b (dget_Some_key _ _ _ E1)) as [bd' [axs' [E1' [E2' [_ [ND _]]]]]].
    assert (bd' = bd) by congruence. assert (axs' = axs) by congruence. subst. exact ND.
  Qed.
  Lemma blegs_nonempty b : In b (dkeys (bonds n)) -> blegs n b <> [].
  Proof.
    intros Hb. destruct (blegs_spec b Hb) as [bd [axs [E1 [E2 [L _]]]]]. unfold blegs. rewrite E1, E2.
    destruct (wf_B n W0 b bd (dget_In _ _ _ E1)) as [_ Hlen].
    destruct (b_tids bd) as [|x r]; [cbn in Hlen; lia|]. destruct axs; [discriminate|]. discriminate.
  Qed.

  Lemma vleg_bond e : vleg n e ->
    obind (dget (fst e) (tensors n)) (fun t => nth_error (t_bids t) (snd e)) = Some (bondd n e) /\
    In (bondd n e) (dkeys (bonds n)) /\ In e (blegs n (bondd n e)).
  Proof.
    intros [t [Et Hax]]. unfold bondd. rewrite Et. cbn [obind].
    assert (Hn : nth_error (t_bids t) (snd e) = Some (nth (snd e) (t_bids t) 0)) by (apply nth_error_nth'; exact Hax).
    assert (Hb : In (nth (snd e) (t_bids t) 0) (dkeys (bonds n))).
    { eapply wf_bids_exist; [exact W0 | apply dget_In; exact Et | eapply nth_error_In; exact Hn]. }
    split; [exact Hn|]. split; [exact Hb|]. apply blegs_In; [exact Hb|]. exists t. auto.
  Qed.
  Lemma blegs_bond b e : In b (dkeys (bonds n)) -> In e (blegs n b) -> vleg n e /\ bondd n e = b.
  Proof.
    intros Hb He. apply (blegs_In b e Hb) in He. destruct He as [t [Et Hn]]. split.
    - exists t. split; [exact Et | apply nth_error_Some; congruence].
    - unfold bondd. rewrite Et. apply nth_error_nth. exact Hn.
  Qed.
  Lemma blegs_tid b e : In b (dkeys (bonds n)) -> In e (blegs n b) -> In (fst e) (dkeys (tensors n)).
  Proof.
    intros Hb He. destruct (blegs_bond b e Hb He) as [[t [Et _]] _]. eapply dget_Some_key; exact Et.
  Qed.
  (** a bond with an open axis has a leg on the virtual tensor, and conversely *)
  Lemma blegs_VT b : In b (dkeys (bonds n)) -> (In b (vbids n) <-> exists e, In e (blegs n b) /\ fst e = VT).
  Proof.
    intros Hb. unfold vbids. destruct (In_key_dget VT (tensors n) (proj2 W)) as [vt Ev]. rewrite Ev. split.
    - intros Hin. apply In_nth_error in Hin. destruct Hin as [ax Hax]. exists (VT, ax). split; [|reflexivity].
      apply blegs_In; [exact Hb|]. exists vt. auto.
    - intros [e [He Hv]]. apply (blegs_In b e Hb) in He. destruct He as [t [Et Hn]]. rewrite Hv in Et.
      assert (t = vt) by congruence. subst. eapply nth_error_In. exact Hn.
  Qed.
End Legs.

(* ------------------------------------------------------------------ tracking *)
Lemma leg_index_sound a l i : leg_index a l = Some i -> nth_error l i = Some a.
Proof.
  revert i. induction l as [|b l IH]; intros i H; [discriminate|]. cbn in H. destruct (legeqb b a) eqn:E.
  - injection H as <-. apply legeqb_eq in E. subst. reflexivity.
  - destruct (leg_index a l) as [j|]; [|discriminate]. injection H as <-. cbn. apply IH. reflexivity.
Qed.
Lemma track_of_Some t e : length (tr_trk t) = length (tr_oax t) -> In e (tr_oax t) ->
  track_of t e = Some (trackd t e).
Proof.
  intros HL He. unfold trackd, track_of. destruct (leg_index_Some e _ He) as [i [A B]]. rewrite A. cbn [obind].
  destruct (nth_error (tr_trk t) i) eqn:E; [reflexivity|]. apply nth_error_None in E.
  assert (i < length (tr_oax t))%nat by (apply nth_error_Some; congruence). lia.
Qed.
Lemma track_of_In t e k : track_of t e = Some k -> In e (tr_oax t) /\ trackd t e = k.
Proof.
  intros H. unfold trackd. rewrite H. split; [|reflexivity]. unfold track_of in H.
  destruct (leg_index e (tr_oax t)) as [i|] eqn:E; [|discriminate]. apply leg_index_sound in E.
  eapply nth_error_In. exact E.
Qed.

(** the part of build_tree after the two recursive calls *)
Definition build_node (n : net) (nL nR : tree) (tid : Z) : option tree :=
  if negb (legs_disjoint (tr_oax nL) (tr_oax nR)) then None
  else
    let all := tr_oax nL ++ tr_oax nR in
    match ofold (collect_step n nL nR) all ([], [], all) with
    | None => None
    | Some (_, bmaplist, openaxes) =>
        let dL := length (tr_out nL) in
        let dR := length (tr_out nR) in
        let idxL0 := seq 0 dL in
        let idxR0 := seq dL dR in
        match ofold index_bond bmaplist (idxL0, idxR0, idxL0 ++ idxR0) with
        | None => None
        | Some (idxL, idxR, idxout) =>
            match omap (fun ta =>
                     if leg_mem ta (tr_oax nL)
                     then obind (track_of nL ta) (fun k => obind (nth_error idxL k) (fun l => nindex l idxout))
                     else if leg_mem ta (tr_oax nR)
                     then obind (track_of nR ta) (fun k => obind (nth_error idxR k) (fun l => nindex l idxout))
                     else None) openaxes with
            | None => None
            | Some trk => Some (TNode tid nL idxL nR idxR idxout openaxes trk)
            end
        end
    end.

Lemma build_tree_node n a b next :
  build_tree n (SNode a b) next =
  match build_tree n a next with
  | None => None
  | Some nL =>
      let next1 := if Z.leb next (tr_tid nL) then tr_tid nL + 1 else next in
      match build_tree n b next1 with
      | None => None
      | Some nR => build_node n nL nR (if Z.leb next1 (tr_tid nR) then tr_tid nR + 1 else next1)
      end
  end.
Proof. reflexivity. Qed.

Fixpoint sleaves (s : scaffold) : list Z :=
  match s with SLeaf t => [t] | SNode a b => sleaves a ++ sleaves b end.

Definition entry (nL nR : tree) (e : leg) : option (bool * nat) :=
  if leg_mem e (tr_oax nL) then Some (true, trackd nL e)
  else if leg_mem e (tr_oax nR) then Some (false, trackd nR e) else None.

Definition is_node (t : tree) : Prop := match t with TLeaf _ _ _ _ => False | TNode _ _ _ _ _ _ _ _ => True end.

Section Builder.
  Variable n : net.
  Hypothesis W : WF n.
  Let W0 : WF0 n := proj1 W.

  (** the invariant of subtrees *)
  Record BI (t : tree) : Prop := mkBI {
    bi_chk : check_tree n t = true;
    bi_len : length (tr_trk t) = length (tr_oax t);
    bi_nd : NoDup (tr_oax t);
    bi_out : NoDup (tr_out t);
    bi_cov : forall p, (p < length (tr_out t))%nat -> exists e, In e (tr_oax t) /\ trackd t e = p;
    bi_trk : forall e, In e (tr_oax t) -> (trackd t e < length (tr_out t))%nat;
    bi_legs : forall e, In e (tr_oax t) -> In (fst e) (leaves_of t) /\ vleg n e;
    bi_pos : forall e e', In e (tr_oax t) -> In e' (tr_oax t) -> trackd t e = trackd t e' -> bondd n e = bondd n e';
    bi_open : forall e, In e (tr_oax t) -> ~ In (bondd n e) (closed_of n t);
    bi_cl : forall b, In b (closed_of n t) ->
              In b (dkeys (bonds n)) /\ forall e, In e (blegs n b) -> In (fst e) (leaves_of t);
    bi_str : forall e, In (fst e) (leaves_of t) -> vleg n e -> In (bondd n e) (closed_of n t) \/ In e (tr_oax t);
    bi_lv : forall tid, In tid (leaves_of t) -> In tid (dkeys (tensors n)) /\ tid <> VT;
    bi_lvnd : NoDup (leaves_of t);
    (** inner nodes: one position per bond; an open leg's bond reaches outside the subtree *)
    bi_bond : is_node t -> forall e e', In e (tr_oax t) -> In e' (tr_oax t) -> bondd n e = bondd n e' -> trackd t e = trackd t e';
    bi_ext : is_node t -> forall e, In e (tr_oax t) -> exists e', In e' (blegs n (bondd n e)) /\ ~ In (fst e') (leaves_of t) }.

  Section Node.
    Variables nL nR : tree.
    Hypothesis HL : BI nL.
    Hypothesis HR : BI nR.
    Hypothesis Hdis : forall x, In x (leaves_of nL) -> ~ In x (leaves_of nR).
    Notation oaxL := (tr_oax nL).
    Notation oaxR := (tr_oax nR).
    Notation all := (tr_oax nL ++ tr_oax nR).
    Notation dL := (length (tr_out nL)).
    Notation dR := (length (tr_out nR)).
    Notation NN := (length (tr_out nL) + length (tr_out nR))%nat.
    Notation ent := (entry nL nR).

    Definition bmapof (b : Z) : list (option (bool * nat)) := map ent (blegs n b).
    Definition fullb (b : Z) : bool := forallb is_some (bmapof b).
    Definition Qo (b : Z) : list (option nat) := map (cpos_of dL) (bmapof b).
    Definition Jb (b : Z) : nat := hd O (somes (Qo b)).
    Definition opos (e : leg) : option nat := cpos_of dL (ent e).

    Lemma L_disj e : In e oaxL -> In e oaxR -> False.
    Proof.
      intros H1 H2. apply (Hdis (fst e)); [apply (bi_legs _ HL e H1) | apply (bi_legs _ HR e H2)].
    Qed.
    Lemma all_nd : NoDup all.
    Proof. apply NoDup_app_intro; [apply (bi_nd _ HL) | apply (bi_nd _ HR) | intros x H1 H2; exact (L_disj x H1 H2)]. Qed.
    Lemma all_vleg e : In e all -> vleg n e.
    Proof. intros H. apply in_app_or in H. destruct H as [H|H]; [apply (bi_legs _ HL e H) | apply (bi_legs _ HR e H)]. Qed.
    Lemma legs_disjoint_ok : legs_disjoint oaxL oaxR = true.
    Proof.
      unfold legs_disjoint. apply forallb_forall. intros e He. apply negb_true_iff.
      destruct (leg_mem e oaxR) eqn:E; [|reflexivity]. apply leg_mem_In in E. exfalso. exact (L_disj e He E).
    Qed.

    Lemma entry_L e : In e oaxL -> ent e = Some (true, trackd nL e).
    Proof. intros H. unfold entry. rewrite (proj2 (leg_mem_In e oaxL) H). reflexivity. Qed.
    Lemma leg_mem_false e l : ~ In e l -> leg_mem e l = false.
    Proof. intros H. destruct (leg_mem e l) eqn:E; [apply leg_mem_In in E; contradiction | reflexivity]. Qed.
    Lemma entry_R e : In e oaxR -> ent e = Some (false, trackd nR e).
    Proof.
      intros H. unfold entry. rewrite leg_mem_false by (intros H1; exact (L_disj e H1 H)).
      rewrite (proj2 (leg_mem_In e oaxR) H). reflexivity.
    Qed.
    Lemma entry_None e : ~ In e oaxL -> ~ In e oaxR -> ent e = None.
    Proof. intros H1 H2. unfold entry. rewrite !leg_mem_false by assumption. reflexivity. Qed.
    Lemma entry_some_all e : is_some (ent e) = true <-> In e all.
    Proof.
      rewrite in_app_iff. unfold entry. destruct (leg_mem e oaxL) eqn:E1.
      - apply leg_mem_In in E1. cbn. tauto.
      - destruct (leg_mem e oaxR) eqn:E2.
        + apply leg_mem_In in E2. cbn. tauto.
        + cbn. split; [discriminate|]. intros [H|H]; apply leg_mem_In in H; congruence.
    Qed.
    Lemma bmap_entry_total e : bmap_entry nL nR e = Some (ent e).
    Proof.
      unfold bmap_entry, entry. destruct (leg_mem e oaxL) eqn:E1.
      - apply leg_mem_In in E1. rewrite (track_of_Some nL e (bi_len _ HL) E1). reflexivity.
      - destruct (leg_mem e oaxR) eqn:E2; [|reflexivity].
        apply leg_mem_In in E2. rewrite (track_of_Some nR e (bi_len _ HR) E2). reflexivity.
    Qed.

    Lemma opos_L e : In e oaxL -> opos e = Some (trackd nL e).
    Proof. intros H. unfold opos. rewrite (entry_L e H). reflexivity. Qed.
    Lemma opos_R e : In e oaxR -> opos e = Some (dL + trackd nR e)%nat.
    Proof. intros H. unfold opos. rewrite (entry_R e H). reflexivity. Qed.
    Lemma opos_inv e q : opos e = Some q ->
      (In e oaxL /\ q = trackd nL e /\ (q < dL)%nat) \/
      (In e oaxR /\ q = (dL + trackd nR e)%nat /\ (dL <= q < NN)%nat).
    Proof.
      unfold opos, entry. destruct (leg_mem e oaxL) eqn:E1.
      - apply leg_mem_In in E1. cbn. intros [= <-]. left. split; [exact E1|]. split; [reflexivity | apply (bi_trk _ HL e E1)].
      - destruct (leg_mem e oaxR) eqn:E2; [|discriminate].
        apply leg_mem_In in E2. cbn. intros [= <-]. right. split; [exact E2|]. split; [reflexivity|].
        pose proof (bi_trk _ HR e E2). lia.
    Qed.

    Lemma in_Qo b q : In q (somes (Qo b)) <-> exists e, In e (blegs n b) /\ opos e = Some q.
    Proof.
      rewrite in_somes. unfold Qo, bmapof. rewrite map_map, in_map_iff. unfold opos. split.
      - intros [e [A B]]. exists e. auto.
      - intros [e [A B]]. exists e. auto.
    Qed.
    Lemma Qo_range b q : In q (somes (Qo b)) -> (q < NN)%nat.
    Proof.
      intros H. apply in_Qo in H. destruct H as [e [_ Ho]]. apply opos_inv in Ho. destruct Ho as [[_ [_ H]]|[_ [_ H]]]; lia.
    Qed.
    Lemma Qo_disj b b' q : In b (dkeys (bonds n)) -> In b' (dkeys (bonds n)) ->
      In q (somes (Qo b)) -> In q (somes (Qo b')) -> b = b'.
    Proof.
      intros Hb Hb' H1 H2. apply in_Qo in H1, H2. destruct H1 as [e [He Ho]]. destruct H2 as [e' [He' Ho']].
      destruct (blegs_bond n W b e Hb He) as [_ <-]. destruct (blegs_bond n W b' e' Hb' He') as [_ <-].
      apply opos_inv in Ho, Ho'.
      destruct Ho as [[A [B C]]|[A [B C]]], Ho' as [[A' [B' C']]|[A' [B' C']]]; try lia.
      - apply (bi_pos _ HL e e' A A'). lia.
      - apply (bi_pos _ HR e e' A A'). lia.
    Qed.
    Lemma fullb_spec b : fullb b = true <-> forall e, In e (blegs n b) -> In e all.
    Proof.
      unfold fullb, bmapof. rewrite forallb_map_comp, forallb_forall. split; intros H e He; apply entry_some_all, H, He.
    Qed.

    (* ---------------------------------------------------------------- the collected bonds *)
    Definition addb (acc : list Z) (e : leg) : list Z := if zmem (bondd n e) acc then acc else acc ++ [bondd n e].
    Definition bidsof (l : list leg) (acc : list Z) : list Z := fold_left addb l acc.

    Lemma bidsof_spec l : forall acc, NoDup acc ->
      NoDup (bidsof l acc) /\ forall b, In b (bidsof l acc) <-> In b acc \/ exists e, In e l /\ bondd n e = b.
    Proof.
      induction l as [|e l IH]; intros acc ND; cbn [bidsof fold_left].
      - split; [exact ND|]. intros b. split; [auto | intros [H|[e [[] _]]]; exact H].
      - fold (bidsof l (addb acc e)).
        assert (ND' : NoDup (addb acc e)).
        { unfold addb. destruct (zmem (bondd n e) acc) eqn:E; [exact ND|]. apply zmem_false in E. apply NoDup_snoc; assumption. }
        destruct (IH _ ND') as [A B]. split; [exact A|]. intros b. rewrite B. unfold addb.
        destruct (zmem (bondd n e) acc) eqn:E.
        + apply zmem_In in E. split.
          * intros [H|[e' [H1 H2]]]; [left; exact H | right; exists e'; split; [right; exact H1 | exact H2]].
          * intros [H|[e' [[<-|H1] H2]]]; [left; exact H | left; rewrite <- H2; exact E | right; exists e'; auto].
        + rewrite in_app_iff. cbn [In]. split.
          * intros [[H|[H|[]]]|[e' [H1 H2]]]; [left; exact H | right; exists e; split; [left; reflexivity | exact H] | right; exists e'; split; [right; exact H1 | exact H2]].
          * intros [H|[e' [[<-|H1] H2]]]; [left; left; exact H | left; right; left; exact H2 | right; exists e'; auto].
    Qed.

    Definition keepleg (bl : list Z) (e : leg) : bool :=
      forallb (fun b => negb (fullb b && leg_mem e (blegs n b))) bl.

    Lemma collect_step_eval bl e : In e all -> NoDup bl -> (forall b, In b bl -> In b (dkeys (bonds n))) ->
      collect_step n nL nR (bl, map bmapof bl, filter (keepleg bl) all) e
      = Some (addb bl e, map bmapof (addb bl e), filter (keepleg (addb bl e)) all).
    Proof.
      intros He ND Hbl. unfold collect_step.
      destruct (vleg_bond n W e (all_vleg e He)) as [A [B C]]. rewrite A. unfold addb.
      destruct (zmem (bondd n e) bl) eqn:Ez; [reflexivity|]. apply zmem_false in Ez.
      set (b := bondd n e) in *.
      destruct (blegs_spec n W b B) as [bd [axs [E1 [E2 _]]]]. rewrite E1, E2.
      assert (Ebl : combine (b_tids bd) axs = blegs n b) by (unfold blegs; rewrite E1, E2; reflexivity).
      rewrite Ebl. rewrite (omap_total _ ent) by (intros x _; apply bmap_entry_total).
      cbv zeta. fold (bmapof b). fold (fullb b).
      assert (Ekeep : forall x, keepleg (bl ++ [b]) x = keepleg bl x && negb (fullb b && leg_mem x (blegs n b))).
      { intros x. unfold keepleg. rewrite forallb_app. cbn [forallb]. rewrite andb_true_r. reflexivity. }
      destruct (fullb b) eqn:Ef.
      - rewrite ofold_leg_remove.
        + cbn [option_map]. rewrite map_app. cbn [map]. f_equal. f_equal.
          rewrite filter_filter. apply filter_ext. intros x. rewrite Ekeep. reflexivity.
        + apply NoDup_filter. exact all_nd.
        + apply blegs_NoDup. exact W.
        + intros x Hx. apply filter_In. split; [apply (proj1 (fullb_spec b) Ef); exact Hx|].
          unfold keepleg. apply forallb_forall. intros b' Hb'. apply negb_true_iff. apply andb_false_iff. right.
          apply leg_mem_false. intros Hx'.
          destruct (blegs_bond n W b x B Hx) as [_ E3]. destruct (blegs_bond n W b' x (Hbl b' Hb') Hx') as [_ E4].
          apply Ez. rewrite <- E3, E4. exact Hb'.
      - cbn [option_map]. rewrite map_app. cbn [map]. f_equal. f_equal.
        apply filter_ext. intros x. rewrite Ekeep. cbn. rewrite andb_true_r. reflexivity.
    Qed.

    Lemma collect_closed : forall rest bl, (forall e, In e rest -> In e all) -> NoDup bl ->
      (forall b, In b bl -> In b (dkeys (bonds n))) ->
      ofold (collect_step n nL nR) rest (bl, map bmapof bl, filter (keepleg bl) all)
      = Some (bidsof rest bl, map bmapof (bidsof rest bl), filter (keepleg (bidsof rest bl)) all).
    Proof.
      induction rest as [|e rest IH]; intros bl Hr ND Hbl; [reflexivity|].
      cbn [ofold]. rewrite collect_step_eval; [|apply Hr; left; reflexivity | exact ND | exact Hbl].
      cbn [bidsof fold_left]. fold (bidsof rest (addb bl e)). apply IH.
      - intros x Hx. apply Hr. right. exact Hx.
      - unfold addb. destruct (zmem (bondd n e) bl) eqn:E; [exact ND|]. apply zmem_false in E. apply NoDup_snoc; assumption.
      - intros b Hb. unfold addb in Hb. destruct (zmem (bondd n e) bl); [apply Hbl; exact Hb|].
        apply in_app_or in Hb. destruct Hb as [Hb|[<-|[]]]; [apply Hbl; exact Hb|].
        apply (vleg_bond n W e). apply all_vleg. apply Hr. left. reflexivity.
    Qed.

    (* ---------------------------------------------------------------- the index loop *)
    Notation bl := (bidsof all []).
    Definition BLn : list (list nat * bool) := BLof Qo fullb bl.
    Notation oN := (filter (keepX BLn) (seq 0 NN)).

    Lemma bl_nd : NoDup bl.
    Proof. apply (bidsof_spec all []). constructor. Qed.
    Lemma bl_in b : In b bl <-> exists e, In e all /\ bondd n e = b.
    Proof.
      rewrite (proj2 (bidsof_spec all [] (NoDup_nil _))). split; [intros [[]|H]; exact H | intros H; right; exact H].
    Qed.
    Lemma bl_bonds b : In b bl -> In b (dkeys (bonds n)).
    Proof. intros H. apply bl_in in H. destruct H as [e [He <-]]. apply (vleg_bond n W e (all_vleg e He)). Qed.
    Lemma bl_leg b : In b bl -> exists e, In e all /\ In e (blegs n b) /\ bondd n e = b.
    Proof.
      intros H. apply bl_in in H. destruct H as [e [He <-]]. exists e. split; [exact He|]. split; [|reflexivity].
      apply (vleg_bond n W e (all_vleg e He)).
    Qed.
    Lemma all_opos e : In e all -> exists q, opos e = Some q.
    Proof.
      intros H. apply in_app_or in H. destruct H as [H|H]; [rewrite (opos_L e H) | rewrite (opos_R e H)]; eauto.
    Qed.
    Lemma pos_bond e q : In e all -> opos e = Some q -> In (bondd n e) bl /\ In q (somes (Qo (bondd n e))).
    Proof.
      intros He Ho. split; [apply bl_in; exists e; auto|]. apply in_Qo. exists e. split; [|exact Ho].
      apply (vleg_bond n W e (all_vleg e He)).
    Qed.
    Lemma pos_cover i : (i < NN)%nat -> exists e, In e all /\ opos e = Some i.
    Proof.
      intros Hi. destruct (Nat.lt_ge_cases i dL) as [H|H].
      - destruct (bi_cov _ HL i H) as [e [He Ht]]. exists e. split; [apply in_or_app; left; exact He|].
        rewrite (opos_L e He), Ht. reflexivity.
      - destruct (bi_cov _ HR (i - dL)%nat ltac:(lia)) as [e [He Ht]]. exists e. split; [apply in_or_app; right; exact He|].
        rewrite (opos_R e He), Ht. f_equal. lia.
    Qed.
    Lemma Jb_in b : In b bl -> In (Jb b) (somes (Qo b)).
    Proof.
      intros H. destruct (bl_leg b H) as [e [He [Hl _]]]. destruct (all_opos e He) as [q Hq].
      assert (Hin : In q (somes (Qo b))) by (apply in_Qo; exists e; auto).
      unfold Jb. destruct (somes (Qo b)) as [|q0 r]; [destruct Hin | left; reflexivity].
    Qed.
    Lemma Jb_inj b b' : In b bl -> In b' bl -> Jb b = Jb b' -> b = b'.
    Proof.
      intros H H' E. apply (Qo_disj b b' (Jb b)); [apply bl_bonds; exact H | apply bl_bonds; exact H' | apply Jb_in; exact H|].
      rewrite E. apply Jb_in. exact H'.
    Qed.
    Lemma BLn_in p : In p BLn <-> exists b, In b bl /\ p = (somes (Qo b), fullb b).
    Proof.
      unfold BLn, BLof. rewrite in_map_iff. split; intros [b [A B]]; exists b; auto.
    Qed.
    Lemma labX_pos b q : In b bl -> In q (somes (Qo b)) -> labX BLn q = Jb b.
    Proof.
      intros Hb Hq. unfold labX. destruct (find (fun p => nmem q (fst p)) BLn) as [p|] eqn:F.
      - apply find_some in F. destruct F as [Hp Hm]. apply BLn_in in Hp. destruct Hp as [b' [Hb' ->]].
        cbn [fst] in *. apply nmem_In in Hm.
        rewrite (Qo_disj b b' q (bl_bonds b Hb) (bl_bonds b' Hb') Hq Hm). reflexivity.
      - assert (Hp : In (somes (Qo b), fullb b) BLn) by (apply BLn_in; exists b; auto).
        apply (find_none _ _ F) in Hp. cbn [fst] in Hp. apply nmem_false in Hp. contradiction.
    Qed.
    Lemma keepX_Jb b : In b bl -> keepX BLn (Jb b) = negb (fullb b).
    Proof.
      intros Hb. unfold keepX. destruct (fullb b) eqn:Ef; cbn [negb].
      - apply not_true_is_false. intros H. rewrite forallb_forall in H.
        specialize (H (somes (Qo b), fullb b) (proj2 (BLn_in _) (ex_intro _ b (conj Hb eq_refl)))).
        unfold keepB in H. cbn [fst snd] in H. rewrite (proj2 (nmem_In _ _) (Jb_in b Hb)), Ef, andb_false_r in H. discriminate.
      - apply forallb_forall. intros p Hp. apply BLn_in in Hp. destruct Hp as [b' [Hb' ->]]. unfold keepB. cbn [fst snd].
        destruct (nmem (Jb b) (somes (Qo b'))) eqn:Em; [|reflexivity]. apply nmem_In in Em.
        assert (b = b') by (apply (Qo_disj b b' (Jb b)); [apply bl_bonds; exact Hb | apply bl_bonds; exact Hb' | apply Jb_in; exact Hb | exact Em]).
        subst b'. cbn [negb orb]. fold (Jb b). rewrite Nat.eqb_refl, Ef. reflexivity.
    Qed.
    Lemma oN_spec l : In l oN <-> exists b, In b bl /\ l = Jb b /\ fullb b = false.
    Proof.
      rewrite filter_In, in_seq. split.
      - intros [[_ Hl] Hk]. destruct (pos_cover l Hl) as [e [He Ho]]. destruct (pos_bond e l He Ho) as [Hb Hq].
        exists (bondd n e). split; [exact Hb|]. unfold keepX in Hk. rewrite forallb_forall in Hk.
        specialize (Hk (somes (Qo (bondd n e)), fullb (bondd n e)) (proj2 (BLn_in _) (ex_intro _ _ (conj Hb eq_refl)))).
        unfold keepB in Hk. cbn [fst snd] in Hk. rewrite (proj2 (nmem_In _ _) Hq) in Hk. cbn [negb orb] in Hk.
        apply andb_true_iff in Hk. destruct Hk as [A B]. apply Nat.eqb_eq in A. apply negb_true_iff in B. auto.
      - intros [b [Hb [-> Hf]]]. split.
        + split; [lia|]. cbn. apply (Qo_range b). apply Jb_in. exact Hb.
        + rewrite keepX_Jb by exact Hb. rewrite Hf. reflexivity.
    Qed.
    Lemma oN_nd : NoDup oN.
    Proof. apply NoDup_filter_seq. Qed.

    Lemma entry_true_inv e k : ent e = Some (true, k) -> In e oaxL /\ k = trackd nL e.
    Proof.
      unfold entry. destruct (leg_mem e oaxL) eqn:E1.
      - intros [= <-]. split; [apply leg_mem_In; exact E1 | reflexivity].
      - destruct (leg_mem e oaxR); discriminate.
    Qed.

    Lemma index_loop : exists xl xr,
      ofold index_bond (map bmapof bl) (seq 0 dL, seq dL dR, seq 0 dL ++ seq dL dR) = Some (xl, xr, oN)
      /\ length xl = dL /\ xl ++ xr = map (labX BLn) (seq 0 NN).
    Proof.
      pose proof (index_bonds_comb (map bmapof bl) (seq 0 dL) (seq dL dR) (seq 0 dL ++ seq dL dR)) as S1.
      rewrite seq_length in S1.
      assert (Hk : forall bmap k, In bmap (map bmapof bl) -> In (Some (true, k)) bmap -> (k < dL)%nat).
      { intros bmap k Hb Hin. apply in_map_iff in Hb. destruct Hb as [b [<- Hb]]. unfold bmapof in Hin.
        apply in_map_iff in Hin. destruct Hin as [e [He _]]. apply entry_true_inv in He. destruct He as [He ->].
        apply (bi_trk _ HL e He). }
      specialize (S1 Hk). rewrite map_map in S1.
      assert (Cl : ofold ibond (map (fun b => (Qo b, fullb b)) bl) (seq 0 dL ++ seq dL dR, seq 0 dL ++ seq dL dR)
                   = Some (SX Qo fullb NN bl)).
      { rewrite <- seq_app.
        assert (E0 : (seq 0 NN, seq 0 NN) = SX Qo fullb NN []).
        { unfold SX, BLof. cbn [map]. f_equal.
          - rewrite <- (map_id (seq 0 NN)) at 1. apply map_ext. intros i. reflexivity.
          - symmetry. apply filter_all_true. intros i _. reflexivity. }
        rewrite E0. apply (ibonds_closed Qo fullb NN bl).
        - intros b q Hb Hq. apply (Qo_range b q Hq).
        - intros i j b b' q Hi Hj Hq Hq'.
          assert (b = b') by (apply (Qo_disj b b' q); [apply bl_bonds; eapply nth_error_In; exact Hi | apply bl_bonds; eapply nth_error_In; exact Hj | exact Hq | exact Hq']).
          subst b'. pose proof bl_nd as ND. rewrite NoDup_nth_error in ND. apply ND; [apply nth_error_Some; congruence | congruence].
        - reflexivity. }
      change (map (fun x => (map (cpos_of dL) (bmapof x), forallb is_some (bmapof x))) bl)
        with (map (fun b => (Qo b, fullb b)) bl) in S1.
      destruct (ofold index_bond (map bmapof bl) (seq 0 dL, seq dL dR, seq 0 dL ++ seq dL dR)) as [[[xl xr] o]|].
      - destruct S1 as [L1 E1]. rewrite Cl in E1. unfold SX in E1. injection E1 as E1 E2.
        exists xl, xr. fold BLn in E1, E2. rewrite <- E2. split; [reflexivity|]. split; [exact L1 | symmetry; exact E1].
      - rewrite Cl in S1. discriminate.
    Qed.

    (* ---------------------------------------------------------------- labels of the new node *)
    Section Labels.
      Variables xl xr : list nat.
      Hypothesis Hlen : length xl = dL.
      Hypothesis Hcat : xl ++ xr = map (labX BLn) (seq 0 NN).
      Notation lblN := (lbl_of n nL xl nR xr).
      Notation sumdN := (summed_of xl xr oN).
      Notation betaN := (beta_of (lbl_of n nL xl nR xr)).
      Notation newlyN := (map (beta_of (lbl_of n nL xl nR xr)) (summed_of xl xr oN)).

      Lemma len_xr : length xr = dR.
      Proof.
        pose proof (f_equal (@length nat) Hcat) as E. rewrite app_length, map_length, seq_length in E. lia.
      Qed.
      Lemma lab_at q : (q < NN)%nat -> nth q (xl ++ xr) O = labX BLn q.
      Proof. intros H. rewrite Hcat. apply nth_map_seq. exact H. Qed.
      Lemma lab_L e : In e oaxL -> nth (trackd nL e) xl O = Jb (bondd n e).
      Proof.
        intros He. pose proof (bi_trk _ HL e He) as Hk.
        rewrite <- (app_nth1 xl xr O) by (rewrite Hlen; exact Hk). rewrite lab_at by lia.
        assert (Ha : In e all) by (apply in_or_app; left; exact He).
        destruct (pos_bond e _ Ha (opos_L e He)) as [Hb Hq]. apply labX_pos; assumption.
      Qed.
      Lemma lab_R e : In e oaxR -> nth (trackd nR e) xr O = Jb (bondd n e).
      Proof.
        intros He. pose proof (bi_trk _ HR e He) as Hk.
        rewrite <- (app_nth2_plus xl xr). rewrite Hlen. rewrite lab_at by lia.
        assert (Ha : In e all) by (apply in_or_app; right; exact He).
        destruct (pos_bond e _ Ha (opos_R e He)) as [Hb Hq]. apply labX_pos; assumption.
      Qed.
      Lemma lbl_eq : lblN = map (fun e => (Jb (bondd n e), bondd n e)) all.
      Proof.
        unfold lbl_of. rewrite map_app. f_equal; apply map_ext_in; intros e He.
        - rewrite (lab_L e He). reflexivity.
        - rewrite (lab_R e He). reflexivity.
      Qed.
      Lemma lbl_in p : In p lblN <-> exists e, In e all /\ p = (Jb (bondd n e), bondd n e).
      Proof. rewrite lbl_eq, in_map_iff. split; intros [e [A B]]; exists e; auto. Qed.
      Lemma in_labels l : In l xl \/ In l xr <-> exists b, In b bl /\ l = Jb b.
      Proof.
        rewrite <- in_app_iff, Hcat, in_map_iff. split.
        - intros [i [<- Hi]]. apply in_seq in Hi. destruct (pos_cover i ltac:(lia)) as [e [He Ho]].
          destruct (pos_bond e i He Ho) as [Hb Hq]. exists (bondd n e). split; [exact Hb | apply labX_pos; assumption].
        - intros [b [Hb ->]]. exists (Jb b). pose proof (Jb_in b Hb) as Hq. split; [apply labX_pos; assumption|].
          apply in_seq. pose proof (Qo_range b _ Hq). lia.
      Qed.
      Lemma sumd_spec l : In l sumdN <-> exists b, In b bl /\ l = Jb b /\ fullb b = true.
      Proof.
        rewrite summed_of_spec, in_labels. split.
        - intros [[b [Hb ->]] Hno]. exists b. split; [exact Hb|]. split; [reflexivity|].
          destruct (fullb b) eqn:Ef; [reflexivity|]. exfalso. apply Hno. apply oN_spec. exists b. auto.
        - intros [b [Hb [-> Hf]]]. split; [exists b; auto|]. intros Ho. apply oN_spec in Ho.
          destruct Ho as [b' [Hb' [E Hf']]]. apply Jb_inj in E; [|assumption|assumption]. congruence.
      Qed.
      Lemma nmem_sumd b : In b bl -> nmem (Jb b) sumdN = fullb b.
      Proof.
        intros Hb. destruct (fullb b) eqn:Ef.
        - apply nmem_In. apply sumd_spec. exists b. auto.
        - apply nmem_false. intros H. apply sumd_spec in H. destruct H as [b' [Hb' [E Hf']]].
          apply Jb_inj in E; [|assumption|assumption]. congruence.
      Qed.
      Lemma beta_Jb b : In b bl -> betaN (Jb b) = b.
      Proof.
        intros Hb. unfold beta_of. destruct (find (fun p => Nat.eqb (fst p) (Jb b)) lblN) as [p|] eqn:F.
        - apply find_some in F. destruct F as [Hp E]. apply Nat.eqb_eq in E. apply lbl_in in Hp.
          destruct Hp as [e [He ->]]. cbn [fst snd] in *. apply Jb_inj; [apply bl_in; exists e; auto | exact Hb | exact E].
        - destruct (bl_leg b Hb) as [e [He [_ Eb]]].
          assert (Hp : In (Jb b, b) lblN) by (apply lbl_in; exists e; rewrite Eb; auto).
          apply (find_none _ _ F) in Hp. cbn [fst] in Hp. rewrite Nat.eqb_refl in Hp. discriminate.
      Qed.
      Lemma newly_spec b : In b newlyN <-> In b bl /\ fullb b = true.
      Proof.
        rewrite in_map_iff. split.
        - intros [l [E Hl]]. apply sumd_spec in Hl. destruct Hl as [b' [Hb' [-> Hf]]]. rewrite beta_Jb in E by exact Hb'. subst. auto.
        - intros [Hb Hf]. exists (Jb b). split; [apply beta_Jb; exact Hb | apply sumd_spec; exists b; auto].
      Qed.
      Lemma newly_nd : NoDup newlyN.
      Proof.
        apply NoDup_map_inj_in.
        - intros l l' Hl Hl' E. apply sumd_spec in Hl, Hl'. destruct Hl as [b [Hb [-> _]]]. destruct Hl' as [b' [Hb' [-> _]]].
          rewrite !beta_Jb in E by assumption. congruence.
        - unfold summed_of. apply NoDup_filter. apply nnodup_spec.
      Qed.
      Lemma keepleg_all e : In e all -> keepleg bl e = negb (fullb (bondd n e)).
      Proof.
        intros He. destruct (vleg_bond n W e (all_vleg e He)) as [_ [Hbk Hle]].
        assert (Hb : In (bondd n e) bl) by (apply bl_in; exists e; auto).
        unfold keepleg. destruct (fullb (bondd n e)) eqn:Ef; cbn [negb].
        - apply not_true_is_false. intros H. rewrite forallb_forall in H. specialize (H _ Hb).
          rewrite Ef, (proj2 (leg_mem_In _ _) Hle) in H. discriminate.
        - apply forallb_forall. intros b' Hb'. destruct (leg_mem e (blegs n b')) eqn:Em; [|rewrite andb_false_r; reflexivity].
          apply leg_mem_In in Em. destruct (blegs_bond n W b' e (bl_bonds b' Hb') Em) as [_ E]. rewrite <- E, Ef. reflexivity.
      Qed.
      Notation keepLN := (filter (fun e : leg => negb (nmem (nth (trackd nL e) xl O) (summed_of xl xr oN))) (tr_oax nL)).
      Notation keepRN := (filter (fun e : leg => negb (nmem (nth (trackd nR e) xr O) (summed_of xl xr oN))) (tr_oax nR)).
      Lemma keep_eq : filter (keepleg bl) all = keepLN ++ keepRN.
      Proof.
        rewrite filter_app. f_equal; apply filter_ext_in; intros e He.
        - rewrite keepleg_all by (apply in_or_app; left; exact He). rewrite (lab_L e He).
          rewrite nmem_sumd; [reflexivity | apply bl_in; exists e; split; [apply in_or_app; left; exact He | reflexivity]].
        - rewrite keepleg_all by (apply in_or_app; right; exact He). rewrite (lab_R e He).
          rewrite nmem_sumd; [reflexivity | apply bl_in; exists e; split; [apply in_or_app; right; exact He | reflexivity]].
      Qed.
      Lemma keepL_in e : In e keepLN <-> In e oaxL /\ fullb (bondd n e) = false.
      Proof.
        rewrite filter_In. split; intros [He H]; (split; [exact He|]).
        - rewrite (lab_L e He), nmem_sumd in H by (apply bl_in; exists e; split; [apply in_or_app; left; exact He | reflexivity]).
          apply negb_true_iff. exact H.
        - rewrite (lab_L e He), nmem_sumd by (apply bl_in; exists e; split; [apply in_or_app; left; exact He | reflexivity]).
          rewrite H. reflexivity.
      Qed.
      Lemma keepR_in e : In e keepRN <-> In e oaxR /\ fullb (bondd n e) = false.
      Proof.
        rewrite filter_In. split; intros [He H]; (split; [exact He|]).
        - rewrite (lab_R e He), nmem_sumd in H by (apply bl_in; exists e; split; [apply in_or_app; right; exact He | reflexivity]).
          apply negb_true_iff. exact H.
        - rewrite (lab_R e He), nmem_sumd by (apply bl_in; exists e; split; [apply in_or_app; right; exact He | reflexivity]).
          rewrite H. reflexivity.
      Qed.
    End Labels.

    (* ---------------------------------------------------------------- Prop -> bool for the checker *)
    Lemma covered_intro t : BI t -> covered t (length (tr_out t)) = true.
    Proof.
      intros H. unfold covered. apply andb_true_iff. split; apply forallb_forall.
      - intros p Hp. apply in_seq in Hp. destruct (bi_cov _ H p ltac:(lia)) as [e [He Ht]].
        apply existsb_exists. exists e. split; [exact He | apply Nat.eqb_eq; exact Ht].
      - intros e He. rewrite (track_of_Some t e (bi_len _ H) He). apply Nat.ltb_lt. apply (bi_trk _ H e He).
    Qed.
    Lemma legs_ok_intro t : BI t -> legs_ok n t = true.
    Proof.
      intros H. unfold legs_ok. apply forallb_forall. intros e He. destruct (bi_legs _ H e He) as [A [x [Ex Hx]]].
      rewrite (proj2 (zmem_In _ _) A), Ex. apply Nat.ltb_lt. exact Hx.
    Qed.
    Lemma forallb_false_ex {A} (f : A -> bool) l : forallb f l = false -> exists x, In x l /\ f x = false.
    Proof.
      induction l as [|x l IH]; [discriminate|]. cbn. destruct (f x) eqn:E.
      - intros H. destruct (IH H) as [y [A1 A2]]. exists y. auto.
      - intros _. exists x. auto.
    Qed.

    Lemma open_not_closed e : In e all -> ~ In (bondd n e) (closed_of n nL ++ closed_of n nR).
    Proof.
      intros He Hc. destruct (vleg_bond n W e (all_vleg e He)) as [_ [_ Hle]].
      apply in_app_or in He. apply in_app_or in Hc. destruct He as [He|He], Hc as [Hc|Hc].
      - exact (bi_open _ HL e He Hc).
      - apply (Hdis (fst e)); [apply (bi_legs _ HL e He) | apply (bi_cl _ HR _ Hc); exact Hle].
      - apply (Hdis (fst e)); [apply (bi_cl _ HL _ Hc); exact Hle | apply (bi_legs _ HR e He)].
      - exact (bi_open _ HR e He Hc).
    Qed.
    Lemma closed_disjoint b : In b (closed_of n nL) -> In b (closed_of n nR) -> False.
    Proof.
      intros H1 H2. destruct (bi_cl _ HL b H1) as [Hb A]. destruct (bi_cl _ HR b H2) as [_ B].
      pose proof (blegs_nonempty n W b Hb) as Hne. destruct (blegs n b) as [|e r]; [congruence|].
      apply (Hdis (fst e)); [apply A | apply B]; left; reflexivity.
    Qed.

    Theorem build_node_ok tid :
      exists t, build_node n nL nR tid = Some t /\ BI t /\ leaves_of t = leaves_of nL ++ leaves_of nR /\ is_node t.
    Proof.
      destruct index_loop as [xl [xr [Ei [Hlen Hcat]]]].
      pose proof (len_xr xl xr Hlen Hcat) as Hlenr.
      set (sumd := summed_of xl xr oN).
      set (keepLN := filter (fun e : leg => negb (nmem (nth (trackd nL e) xl O) sumd)) oaxL).
      set (keepRN := filter (fun e : leg => negb (nmem (nth (trackd nR e) xr O) sumd)) oaxR).
      set (gL := fun e : leg => idx_n (nth (trackd nL e) xl O) oN).
      set (gR := fun e : leg => idx_n (nth (trackd nR e) xr O) oN).
      set (t := TNode tid nL xl nR xr oN (keepLN ++ keepRN) (map gL keepLN ++ map gR keepRN)).
      assert (Keq : filter (keepleg bl) all = keepLN ++ keepRN) by exact (keep_eq xl xr Hlen Hcat).
      assert (KL : forall e, In e keepLN <-> In e oaxL /\ fullb (bondd n e) = false) by exact (keepL_in xl xr Hlen Hcat).
      assert (KR : forall e, In e keepRN <-> In e oaxR /\ fullb (bondd n e) = false) by exact (keepR_in xl xr Hlen Hcat).
      assert (aN_in : forall e, In e (keepLN ++ keepRN) <-> In e all /\ fullb (bondd n e) = false).
      { intros e. rewrite !in_app_iff, KL, KR. tauto. }
      assert (Jo : forall e, In e (keepLN ++ keepRN) -> In (Jb (bondd n e)) oN).
      { intros e He. apply aN_in in He. destruct He as [He Hf]. apply oN_spec. exists (bondd n e).
        split; [apply bl_in; exists e; auto | auto]. }
      assert (TrL : forall e, In e keepLN -> trackd t e = idx_n (Jb (bondd n e)) oN).
      { intros e He. unfold t. rewrite trackd_node. rewrite (track_app_l gL gR keepLN keepRN e He).
        unfold gL. rewrite (lab_L xl xr Hlen Hcat e (proj1 (proj1 (KL e) He))). reflexivity. }
      assert (TrR : forall e, In e keepRN -> trackd t e = idx_n (Jb (bondd n e)) oN).
      { intros e He. unfold t. rewrite trackd_node. rewrite (track_app_r gL gR keepLN keepRN e); [| |exact He].
        - unfold gR. rewrite (lab_R xl xr Hlen Hcat e (proj1 (proj1 (KR e) He))). reflexivity.
        - intros HeL. exact (L_disj e (proj1 (proj1 (KL e) HeL)) (proj1 (proj1 (KR e) He))). }
      assert (Tr : forall e, In e (keepLN ++ keepRN) -> trackd t e = idx_n (Jb (bondd n e)) oN).
      { intros e He. apply in_app_or in He. destruct He as [He|He]; [apply TrL | apply TrR]; exact He. }
      assert (Clt : closed_of n t = closed_of n nL ++ closed_of n nR ++ map (beta_of (lbl_of n nL xl nR xr)) sumd) by reflexivity.
      exists t. split; [|split; [|split; [reflexivity | exact I]]].
      { (* the computation *)
        unfold build_node. rewrite legs_disjoint_ok. cbn [negb]. cbv zeta.
        pose proof (collect_closed all [] (fun e H => H) (NoDup_nil _) (fun b (H : In b []) => match H with end)) as Ec.
        cbn [map] in Ec.
        assert (E0 : filter (keepleg []) all = all) by (apply filter_all_true; intros e _; reflexivity).
        rewrite E0 in Ec. rewrite Ec. rewrite Ei. rewrite Keq.
        rewrite (omap_total _ (fun e => if leg_mem e oaxL then gL e else gR e)).
        - unfold t. f_equal. f_equal. rewrite map_app. f_equal; apply map_ext_in; intros e He.
          + rewrite (proj2 (leg_mem_In e oaxL) (proj1 (proj1 (KL e) He))). reflexivity.
          + rewrite leg_mem_false; [reflexivity|]. intros HeL. exact (L_disj e HeL (proj1 (proj1 (KR e) He))).
        - intros e He. pose proof (Jo e He) as HJ. apply in_app_or in He. destruct He as [He|He].
          + destruct (proj1 (KL e) He) as [HeL _]. rewrite (proj2 (leg_mem_In e oaxL) HeL).
            rewrite (track_of_Some nL e (bi_len _ HL) HeL). cbn [obind].
            rewrite (nth_error_nth' xl O) by (rewrite Hlen; apply (bi_trk _ HL e HeL)). cbn [obind].
            unfold gL. rewrite (lab_L xl xr Hlen Hcat e HeL). apply (idx_n_sound _ _ HJ).
          + destruct (proj1 (KR e) He) as [HeR _].
            rewrite leg_mem_false by (intros HeL; exact (L_disj e HeL HeR)).
            rewrite (proj2 (leg_mem_In e oaxR) HeR).
            rewrite (track_of_Some nR e (bi_len _ HR) HeR). cbn [obind].
            rewrite (nth_error_nth' xr O) by (rewrite Hlenr; apply (bi_trk _ HR e HeR)). cbn [obind].
            unfold gR. rewrite (lab_R xl xr Hlen Hcat e HeR). apply (idx_n_sound _ _ HJ). }
      (* the invariant *)
      subst t.
      assert (Lbl : forall p, In p (lbl_of n nL xl nR xr) <-> exists e, In e all /\ p = (Jb (bondd n e), bondd n e))
        by exact (lbl_in xl xr Hlen Hcat).
      assert (Newly : forall b, In b (map (beta_of (lbl_of n nL xl nR xr)) sumd) <-> In b bl /\ fullb b = true)
        by exact (newly_spec xl xr Hlen Hcat).
      assert (LvND : NoDup (leaves_of nL ++ leaves_of nR)).
      { apply NoDup_app_intro; [apply (bi_lvnd _ HL) | apply (bi_lvnd _ HR) | exact Hdis]. }
      assert (ClND : NoDup ((closed_of n nL ++ closed_of n nR) ++ map (beta_of (lbl_of n nL xl nR xr)) sumd)).
      { apply NoDup_app_intro; [apply NoDup_app_intro| |].
        - apply closed_nodup. apply (bi_chk _ HL).
        - apply closed_nodup. apply (bi_chk _ HR).
        - exact closed_disjoint.
        - exact (newly_nd xl xr Hlen Hcat).
        - intros b Hb Hn. apply Newly in Hn. destruct Hn as [Hbl _]. destruct (bl_leg b Hbl) as [e [He [_ Eb]]].
          apply (open_not_closed e He). rewrite Eb. exact Hb. }
      constructor.
      - (* check_tree *)
        cbn [check_tree]. rewrite (bi_chk _ HL), (bi_chk _ HR). cbn [andb].
        unfold check_node. cbv zeta. fold sumd. fold keepLN. fold keepRN.
        rewrite !andb_true_iff. repeat split.
        + apply Nat.eqb_eq. exact Hlen.
        + apply Nat.eqb_eq. exact Hlenr.
        + rewrite Hlen. apply covered_intro. exact HL.
        + rewrite Hlenr. apply covered_intro. exact HR.
        + apply legs_ok_intro. exact HL.
        + apply legs_ok_intro. exact HR.
        + apply forallb_forall. intros p Hp. apply forallb_forall. intros q Hq.
          apply Lbl in Hp, Hq. destruct Hp as [e [He ->]]. destruct Hq as [e' [He' ->]]. cbn [fst snd].
          destruct (Nat.eqb_spec (Jb (bondd n e)) (Jb (bondd n e'))) as [E|E]; [|reflexivity]. cbn [negb orb].
          apply Z.eqb_eq. apply Jb_inj; [apply bl_in; exists e; auto | apply bl_in; exists e'; auto | exact E].
        + apply NoDup_znodupb. exact ClND.
        + apply forallb_forall. intros p Hp. apply Lbl in Hp. destruct Hp as [e [He ->]]. cbn [fst snd].
          assert (Hb : In (bondd n e) bl) by (apply bl_in; exists e; auto).
          pose proof (nmem_sumd xl xr Hlen Hcat _ Hb) as Es. fold sumd in Es. rewrite Es.
          destruct (fullb (bondd n e)) eqn:Ef.
          * rewrite (proj2 (zmem_In _ _) (proj2 (Newly _) (conj Hb Ef))). reflexivity.
          * rewrite (proj2 (zmem_false _ _)); [reflexivity|]. intros Hn. apply Newly in Hn. destruct Hn as [_ Hn]. congruence.
        + apply forallb_forall. intros p Hp. apply Lbl in Hp. destruct Hp as [e [He ->]]. cbn [snd].
          apply negb_true_iff. apply zmem_false. apply open_not_closed. exact He.
        + apply list_eqb_refl. exact legeqb_refl.
        + apply list_eqb_refl. exact Nat.eqb_refl.
        + apply NoDup_znodupb. exact LvND.
      - (* bi_len *) cbn [tr_trk tr_oax]. rewrite !app_length, !map_length. reflexivity.
      - (* bi_nd *) cbn [tr_oax]. rewrite <- Keq. apply NoDup_filter. exact all_nd.
      - (* bi_out *) exact oN_nd.
      - (* bi_cov *)
        cbn [tr_out tr_oax]. intros p Hp.
        assert (Hin : In (nth p oN O) oN) by (apply nth_In; exact Hp).
        apply oN_spec in Hin. destruct Hin as [b [Hb [El Hf]]]. destruct (bl_leg b Hb) as [e [He [_ Eb]]].
        assert (HeN : In e (keepLN ++ keepRN)) by (apply aN_in; rewrite Eb; auto).
        exists e. split; [exact HeN|]. rewrite (Tr e HeN), Eb, <- El. apply idx_n_nth; [exact oN_nd | exact Hp].
      - (* bi_trk *) cbn [tr_out tr_oax]. intros e He. rewrite (Tr e He). apply idx_n_lt. apply Jo. exact He.
      - (* bi_legs *)
        cbn [tr_oax leaves_of]. intros e He. apply aN_in in He. destruct He as [He _]. split; [|apply all_vleg; exact He].
        apply in_or_app. apply in_app_or in He. destruct He as [He|He]; [left; apply (bi_legs _ HL e He) | right; apply (bi_legs _ HR e He)].
      - (* bi_pos *)
        cbn [tr_oax]. intros e e' He He' E. rewrite (Tr e He), (Tr e' He') in E.
        apply idx_n_inj in E; [|apply Jo; exact He | apply Jo; exact He'].
        apply aN_in in He, He'. apply Jb_inj; [apply bl_in; exists e; tauto | apply bl_in; exists e'; tauto | exact E].
      - (* bi_open *)
        cbn [tr_oax]. intros e He. rewrite Clt. apply aN_in in He. destruct He as [He Hf]. rewrite app_assoc. intros Hc.
        apply in_app_or in Hc. destruct Hc as [Hc|Hc]; [exact (open_not_closed e He Hc)|].
        apply Newly in Hc. destruct Hc as [_ Hc]. congruence.
      - (* bi_cl *)
        rewrite Clt. cbn [leaves_of]. intros b Hb. rewrite app_assoc in Hb. apply in_app_or in Hb. destruct Hb as [Hb|Hb].
        + apply in_app_or in Hb. destruct Hb as [Hb|Hb].
          * destruct (bi_cl _ HL b Hb) as [A B]. split; [exact A|]. intros e He. apply in_or_app. left. apply B. exact He.
          * destruct (bi_cl _ HR b Hb) as [A B]. split; [exact A|]. intros e He. apply in_or_app. right. apply B. exact He.
        + apply Newly in Hb. destruct Hb as [Hb Hf]. split; [apply bl_bonds; exact Hb|]. intros e He.
          pose proof (proj1 (fullb_spec b) Hf e He) as Ha. apply in_or_app. apply in_app_or in Ha.
          destruct Ha as [Ha|Ha]; [left; apply (bi_legs _ HL e Ha) | right; apply (bi_legs _ HR e Ha)].
      - (* bi_str *)
        rewrite Clt. cbn [leaves_of tr_oax]. intros e Hl Hv.
        assert (Step : In e all -> In (bondd n e) (closed_of n nL ++ closed_of n nR ++ map (beta_of (lbl_of n nL xl nR xr)) sumd) \/ In e (keepLN ++ keepRN)).
        { intros Ha. destruct (fullb (bondd n e)) eqn:Ef.
          - left. apply in_or_app. right. apply in_or_app. right. apply Newly. split; [apply bl_in; exists e; auto | exact Ef].
          - right. apply aN_in. auto. }
        apply in_app_or in Hl. destruct Hl as [Hl|Hl].
        + destruct (bi_str _ HL e Hl Hv) as [Hc|Ho]; [left; apply in_or_app; left; exact Hc|].
          apply Step. apply in_or_app. left. exact Ho.
        + destruct (bi_str _ HR e Hl Hv) as [Hc|Ho]; [left; apply in_or_app; right; apply in_or_app; left; exact Hc|].
          apply Step. apply in_or_app. right. exact Ho.
      - (* bi_lv *)
        cbn [leaves_of]. intros x Hx. apply in_app_or in Hx. destruct Hx as [Hx|Hx]; [apply (bi_lv _ HL x Hx) | apply (bi_lv _ HR x Hx)].
      - exact LvND.
      - (* bi_bond *)
        intros _ e e' He He' E. cbn [tr_oax] in He, He'. rewrite (Tr e He), (Tr e' He'), E. reflexivity.
      - (* bi_ext *)
        intros _ e He. cbn [tr_oax] in He. cbn [leaves_of]. apply aN_in in He. destruct He as [He Hf].
        unfold fullb, bmapof in Hf. rewrite forallb_map_comp in Hf. apply forallb_false_ex in Hf.
        destruct Hf as [e' [He' Hn]]. exists e'. split; [exact He'|]. intros Hl.
        assert (Hb : In (bondd n e) (dkeys (bonds n))) by (apply (vleg_bond n W e (all_vleg e He))).
        destruct (blegs_bond n W _ e' Hb He') as [Hv Eb].
        assert (Hna : ~ In e' all).
        { intros Ha. apply entry_some_all in Ha. congruence. }
        apply Hna. apply in_or_app. apply in_app_or in Hl. destruct Hl as [Hl|Hl].
        + destruct (bi_str _ HL e' Hl Hv) as [Hc|Ho]; [|left; exact Ho].
          exfalso. apply (open_not_closed e He). rewrite <- Eb. apply in_or_app. left. exact Hc.
        + destruct (bi_str _ HR e' Hl Hv) as [Hc|Ho]; [|right; exact Ho].
          exfalso. apply (open_not_closed e He). rewrite <- Eb. apply in_or_app. right. exact Hc.
    Qed.
  End Node.

  (* ------------------------------------------------------------------ leaves *)
  Lemma nindex_seq i m : (i < m)%nat -> nindex i (seq 0 m) = Some i.
  Proof.
    intros H. assert (Hin : In i (seq 0 m)) by (apply in_seq; lia).
    destruct (nindex_Some i _ Hin) as [p Hp]. rewrite Hp. f_equal.
    pose proof (nindex_sound _ _ _ Hp) as E.
    assert (Hlt : (p < m)%nat) by (rewrite <- (seq_length m 0); apply nth_error_Some; congruence).
    apply nth_error_nth with (d := O) in E. rewrite seq_nth in E by exact Hlt. lia.
  Qed.
  Lemma inv_perm_seq m : inv_perm (seq 0 m) = seq 0 m.
  Proof.
    unfold inv_perm. rewrite seq_length. rewrite <- (map_id (seq 0 m)) at 2. apply map_ext_in.
    intros i Hi. apply in_seq in Hi. rewrite nindex_seq by lia. reflexivity.
  Qed.

  Lemma leaf_BI tid t : dget tid (tensors n) = Some t -> tid <> VT ->
    BI (TLeaf tid (seq 0 (t_ndim t)) (map (fun i => (tid, i)) (seq 0 (t_ndim t))) (seq 0 (t_ndim t))).
  Proof.
    intros Et Hne. set (nd := t_ndim t).
    assert (Hnd : nd = length (t_bids t)) by (apply (wf_T n W0 tid t (dget_In _ _ _ Et))).
    assert (Tr : forall ax, (ax < nd)%nat ->
              trackd (TLeaf tid (seq 0 nd) (map (fun i => (tid, i)) (seq 0 nd)) (seq 0 nd)) (tid, ax) = ax).
    { intros ax Hax. unfold trackd, track_of. cbn [tr_oax tr_trk]. rewrite leg_index_seq by exact Hax. cbn [obind].
      rewrite (nth_error_nth' _ O) by (rewrite seq_length; exact Hax). apply seq_nth. exact Hax. }
    assert (InL : forall e, In e (map (fun i => (tid, i)) (seq 0 nd)) <-> fst e = tid /\ (snd e < nd)%nat).
    { intros [a b]. rewrite in_map_iff. cbn [fst snd]. split.
      - intros [i [[= <- <-] Hi]]. apply in_seq in Hi. split; [reflexivity | lia].
      - intros [-> Hb]. exists b. split; [reflexivity | apply in_seq; lia]. }
    constructor; cbn [tr_oax tr_trk tr_out leaves_of closed_of].
    - cbn [check_tree]. rewrite Et. rewrite <- Hnd.
      destruct (Z.eqb_spec tid VT) as [E|_]; [contradiction|]. cbn [negb andb].
      rewrite !andb_true_iff. repeat split.
      + apply Nat.eqb_eq. reflexivity.
      + apply Nat.eqb_eq. apply seq_length.
      + apply list_eqb_refl. exact legeqb_refl.
      + rewrite inv_perm_seq. apply list_eqb_refl. exact Nat.eqb_refl.
      + apply forallb_forall. intros ax Hax. apply in_seq in Hax. apply Nat.eqb_eq.
        replace (nth ax (seq 0 nd) O) with ax by (rewrite seq_nth by lia; reflexivity). rewrite seq_nth by lia. reflexivity.
    - rewrite map_length. reflexivity.
    - apply NoDup_map_inj_in; [|apply seq_NoDup]. intros x y _ _ [= E]. exact E.
    - apply seq_NoDup.
    - rewrite seq_length. intros p Hp. exists (tid, p). split; [apply InL; auto | apply Tr; exact Hp].
    - rewrite seq_length. intros [a b] He. apply InL in He. cbn [fst snd] in He. destruct He as [-> Hb]. rewrite Tr; assumption.
    - intros e He. apply InL in He. destruct He as [E Hs]. split; [left; symmetry; exact E|].
      exists t. rewrite E. split; [exact Et | rewrite <- Hnd; exact Hs].
    - intros [a b] [a' b'] He He' E. apply InL in He, He'. cbn [fst snd] in He, He'. destruct He as [-> Hb]. destruct He' as [-> Hb'].
      rewrite !Tr in E by assumption. subst. reflexivity.
    - intros e _ [].
    - intros b [].
    - intros e [E|[]] [t' [Et' Hs]]. right. apply InL. split; [symmetry; exact E|]. rewrite <- E in Et'.
      assert (t' = t) by congruence. subst t'. rewrite Hnd. exact Hs.
    - intros x [<-|[]]. split; [eapply dget_Some_key; exact Et | exact Hne].
    - constructor; [intros [] | constructor].
    - intros [].
    - intros [].
  Qed.

  (** the builder never fails on a scaffold whose leaves are distinct real tensors, and what it
      returns satisfies the invariant *)
  Theorem build_tree_ok s : forall next, NoDup (sleaves s) ->
    (forall x, In x (sleaves s) -> In x (dkeys (tensors n)) /\ x <> VT) ->
    exists t, build_tree n s next = Some t /\ BI t /\ leaves_of t = sleaves s.
  Proof.
    induction s as [tid | a IHa b IHb]; intros next ND Hx.
    - destruct (Hx tid (or_introl eq_refl)) as [Hk Hne]. destruct (In_key_dget tid (tensors n) Hk) as [t Et].
      cbn [build_tree]. destruct (Z.eqb_spec tid VT) as [E|_]; [contradiction|]. rewrite Et. cbv zeta.
      eexists. split; [reflexivity|]. split; [apply leaf_BI; assumption | reflexivity].
    - cbn [sleaves] in ND, Hx. destruct (NoDup_app_inv _ _ ND) as [NDa [NDb Dab]].
      rewrite build_tree_node.
      destruct (IHa next NDa (fun x H => Hx x (in_or_app _ _ _ (or_introl H)))) as [nL [EL [BL LL]]]. rewrite EL. cbv zeta.
      destruct (IHb (if Z.leb next (tr_tid nL) then tr_tid nL + 1 else next) NDb (fun x H => Hx x (in_or_app _ _ _ (or_intror H))))
        as [nR [ER [BR LR]]]. rewrite ER.
      destruct (build_node_ok nL nR BL BR) with (tid := (if Z.leb (if Z.leb next (tr_tid nL) then tr_tid nL + 1 else next) (tr_tid nR)
                                                        then tr_tid nR + 1 else (if Z.leb next (tr_tid nL) then tr_tid nL + 1 else next)))
        as [t [Et [Bt [Lt _]]]].
      { rewrite LL, LR. exact Dab. }
      exists t. split; [exact Et|]. split; [exact Bt|]. cbn [sleaves]. rewrite Lt, LL, LR. reflexivity.
  Qed.

  (** inner nodes *)
  Lemma build_tree_is_node a b next t : build_tree n (SNode a b) next = Some t -> is_node t.
  Proof.
    rewrite build_tree_node. destruct (build_tree n a next) as [nL|]; [|discriminate]. cbv zeta.
    destruct (build_tree n b _) as [nR|]; [|discriminate]. unfold build_node.
    destruct (negb _); [discriminate|]. cbv zeta. destruct (ofold (collect_step n nL nR) _ _) as [[[x y] z]|]; [|discriminate].
    destruct (ofold index_bond _ _) as [[[u v] w]|]; [|discriminate]. destruct (omap _ _); [|discriminate].
    intros [= <-]. exact I.
  Qed.
End Builder.
