(** Lemmas about the association-list dictionaries and the small list helpers of TNModel. *)
From Qib Require Export TN.TNModel.
From Coq Require Import Permutation.
Local Open Scope Z_scope.

(* ------------------------------------------------------------------ membership, counting *)
Lemma zmem_In x l : zmem x l = true <-> In x l.
Proof.
  unfold zmem. rewrite existsb_exists. split.
  - intros [y [Hy E]]. apply Z.eqb_eq in E. subst. exact Hy.
  - intros H. exists x. split; [exact H | apply Z.eqb_refl].
Qed.
Lemma zmem_false x l : zmem x l = false <-> ~ In x l.
Proof. rewrite <- zmem_In. destruct (zmem x l); split; intros H; try congruence; try (exfalso; apply H; reflexivity). Qed.
Lemma nmem_In x l : nmem x l = true <-> In x l.
Proof.
  unfold nmem. rewrite existsb_exists. split.
  - intros [y [Hy E]]. apply Nat.eqb_eq in E. subst. exact Hy.
  - intros H. exists x. split; [exact H | apply Nat.eqb_refl].
Qed.
Lemma nmem_false x l : nmem x l = false <-> ~ In x l.
Proof. rewrite <- nmem_In. destruct (nmem x l); split; intros H; try congruence; try (exfalso; apply H; reflexivity). Qed.

Lemma znodupb_NoDup l : znodupb l = true <-> NoDup l.
Proof.
  induction l as [|x l IH]; cbn.
  - split; [constructor | reflexivity].
  - rewrite andb_true_iff, negb_true_iff, zmem_false, IH. split.
    + intros [A B]. constructor; assumption.
    + intros H. inversion H; subst. split; assumption.
Qed.
Lemma nnodupb_NoDup l : nnodupb l = true <-> NoDup l.
Proof.
  induction l as [|x l IH]; cbn.
  - split; [constructor | reflexivity].
  - rewrite andb_true_iff, negb_true_iff, nmem_false, IH. split.
    + intros [A B]. constructor; assumption.
    + intros H. inversion H; subst. split; assumption.
Qed.

Lemma zcount_nil x : zcount x [] = O. Proof. reflexivity. Qed.
Lemma zcount_cons x y l : zcount x (y :: l) = ((if Z.eqb x y then 1 else 0) + zcount x l)%nat.
Proof. unfold zcount. cbn. destruct (Z.eqb x y); reflexivity. Qed.
Lemma zcount_app x a b : zcount x (a ++ b) = (zcount x a + zcount x b)%nat.
Proof. unfold zcount. rewrite filter_app, app_length. reflexivity. Qed.
Lemma zcount_0 x l : zcount x l = O <-> ~ In x l.
Proof.
  induction l as [|y l IH]; [cbn; tauto|]. rewrite zcount_cons. cbn [In].
  destruct (Z.eqb_spec x y).
  - subst. split; [lia | intros H; exfalso; apply H; left; reflexivity].
  - cbn. rewrite IH. split; [intros H [E|E]; [congruence | auto] | intros H E; apply H; right; exact E].
Qed.
Lemma zcount_pos x l : (0 < zcount x l)%nat <-> In x l.
Proof.
  destruct (in_dec Z.eq_dec x l) as [H|H].
  - split; [auto|]. intros _. destruct (zcount x l) eqn:E; [apply zcount_0 in E; contradiction | lia].
  - split; [|contradiction]. apply zcount_0 in H. lia.
Qed.
Lemma zcount_perm x a b : Permutation a b -> zcount x a = zcount x b.
Proof. induction 1; rewrite ?zcount_cons; try lia. Qed.
Lemma zcount_le_length x l : (zcount x l <= length l)%nat.
Proof. induction l as [|y l IH]; [cbn; lia|]. rewrite zcount_cons. cbn [length]. destruct (Z.eqb x y); lia. Qed.

Lemma zinsert_perm x l : Permutation (x :: l) (zinsert x l).
Proof.
  induction l as [|y l IH]; cbn; [reflexivity|].
  destruct (Z.leb x y); [reflexivity|].
  rewrite perm_swap. constructor. exact IH.
Qed.
Lemma zsort_perm l : Permutation l (zsort l).
Proof.
  induction l as [|x l IH]; cbn; [constructor|].
  rewrite <- zinsert_perm. constructor. exact IH.
Qed.
Lemma zcount_zsort x l : zcount x (zsort l) = zcount x l.
Proof. symmetry. apply zcount_perm, zsort_perm. Qed.
Lemma zsort_length l : length (zsort l) = length l.
Proof. symmetry. apply Permutation_length, zsort_perm. Qed.
Lemma zsort_In x l : In x (zsort l) <-> In x l.
Proof. split; apply Permutation_in; [symmetry|]; apply zsort_perm. Qed.

Lemma zreplace_length a c l : length (zreplace a c l) = length l.
Proof. apply map_length. Qed.
(** counting after replacing a by c (a <> c) *)
Lemma zcount_zreplace a c x l : a <> c ->
  zcount x (zreplace a c l) =
  if Z.eqb x c then (zcount c l + zcount a l)%nat else if Z.eqb x a then O else zcount x l.
Proof.
  intros Hac. induction l as [|y l IH].
  - cbn. destruct (Z.eqb x c), (Z.eqb x a); reflexivity.
  - change (zreplace a c (y :: l)) with ((if Z.eqb y a then c else y) :: zreplace a c l).
    rewrite !zcount_cons, IH.
    destruct (Z.eqb_spec y a), (Z.eqb_spec x c), (Z.eqb_spec x a), (Z.eqb_spec x y),
      (Z.eqb_spec c y), (Z.eqb_spec a y); subst; try congruence; try lia.
Qed.
Lemma zreplace_notin a c l : ~ In a l -> zreplace a c l = l.
Proof.
  induction l as [|y l IH]; cbn; [reflexivity|]. intros H.
  destruct (Z.eqb_spec y a); [exfalso; apply H; left; congruence|].
  f_equal. apply IH. intros E; apply H; right; exact E.
Qed.
Lemma zreplace_In a c x l : In x (zreplace a c l) -> x = c \/ (x <> a /\ In x l).
Proof.
  unfold zreplace. rewrite in_map_iff. intros [y [E Hy]].
  destruct (Z.eqb_spec y a); [left; congruence | right; subst; split; [congruence | exact Hy]].
Qed.

Lemma zremove1_count x y l l' : zremove1 x l = Some l' ->
  zcount y l = ((if Z.eqb y x then 1 else 0) + zcount y l')%nat.
Proof.
  revert l'; induction l as [|z l IH]; intros l' H; cbn in H; [discriminate|].
  destruct (Z.eqb_spec z x).
  - injection H as <-. subst. rewrite zcount_cons. reflexivity.
  - destruct (zremove1 x l) as [r|] eqn:E; [|discriminate]. injection H as <-.
    rewrite !zcount_cons, (IH r eq_refl).
    destruct (Z.eqb_spec y x), (Z.eqb_spec y z); subst; try congruence; lia.
Qed.
Lemma zremove1_length x l l' : zremove1 x l = Some l' -> length l = S (length l').
Proof.
  revert l'; induction l as [|z l IH]; intros l' H; cbn in H; [discriminate|].
  destruct (Z.eqb z x); [injection H as <-; reflexivity|].
  destruct (zremove1 x l) as [r|] eqn:E; [|discriminate]. injection H as <-. cbn. f_equal. apply IH. reflexivity.
Qed.
Lemma zremove1_some x l : In x l -> exists l', zremove1 x l = Some l'.
Proof.
  induction l as [|z l IH]; [intros []|]. intros H. cbn.
  destruct (Z.eqb_spec z x); [eexists; reflexivity|].
  destruct H as [H|H]; [congruence|]. destruct (IH H) as [r ->]. eexists; reflexivity.
Qed.
Lemma zremove1_none x l : ~ In x l -> zremove1 x l = None.
Proof.
  induction l as [|z l IH]; [reflexivity|]. intros H. cbn.
  destruct (Z.eqb_spec z x); [exfalso; apply H; left; exact e|].
  rewrite IH; [reflexivity|]. intros E; apply H; right; exact E.
Qed.

Lemma iter_S {A} n (f : A -> A) x : Nat.iter (S n) f x = f (Nat.iter n f x).
Proof. reflexivity. Qed.
Lemma iter_succ_r {A} n (f : A -> A) x : Nat.iter (S n) f x = Nat.iter n f (f x).
Proof. induction n as [|n IH]; [reflexivity|]. cbn in *. f_equal. exact IH. Qed.

(* ------------------------------------------------------------------ dictionaries *)
Section DictLemmas.
  Context {V : Type}.
  Implicit Types (d : dict V) (k : Z) (v : V).

  Lemma dget_In k v d : dget k d = Some v -> In (k, v) d.
  Proof.
    induction d as [|[k' v'] d IH]; cbn; [discriminate|].
    destruct (Z.eqb_spec k k'); [intros [= ->]; subst; left; reflexivity | intros H; right; auto].
  Qed.
  Lemma In_dget k v d : NoDup (dkeys d) -> In (k, v) d -> dget k d = Some v.
  Proof.
    induction d as [|[k' v'] d IH]; cbn; [intros _ []|].
    intros ND [E|H]; inversion ND; subst.
    - injection E as -> ->. rewrite Z.eqb_refl. reflexivity.
    - destruct (Z.eqb_spec k k'); [subst; exfalso; apply H2; apply (in_map fst) in H; exact H | auto].
  Qed.
  Lemma dget_None k d : dget k d = None <-> ~ In k (dkeys d).
  Proof.
    induction d as [|[k' v'] d IH]; cbn; [tauto|].
    destruct (Z.eqb_spec k k').
    - subst. split; [discriminate | intros H; exfalso; apply H; left; reflexivity].
    - rewrite IH. split; [intros H [E|E]; [congruence | auto] | intros H E; apply H; right; exact E].
  Qed.
  Lemma dget_Some_key k v d : dget k d = Some v -> In k (dkeys d).
  Proof. intros H. apply dget_In in H. apply (in_map fst) in H. exact H. Qed.
  Lemma dhas_In k d : dhas k d = true <-> In k (dkeys d).
  Proof.
    unfold dhas. destruct (dget k d) eqn:E.
    - split; [intros _; eapply dget_Some_key; eauto | reflexivity].
    - apply dget_None in E. split; [discriminate | contradiction].
  Qed.
  Lemma dhas_false k d : dhas k d = false <-> ~ In k (dkeys d).
  Proof. rewrite <- dhas_In. destruct (dhas k d); split; intros H; try congruence; try (exfalso; apply H; reflexivity). Qed.
  Lemma In_key_dget k d : In k (dkeys d) -> exists v, dget k d = Some v.
  Proof. intros H. destruct (dget k d) eqn:E; [eauto|]. apply dget_None in E. contradiction. Qed.

  (** dset on an existing key = pointwise map *)
  Lemma dset_map k v d : In k (dkeys d) -> NoDup (dkeys d) ->
    dset k v d = map (fun kv => if Z.eqb (fst kv) k then (k, v) else kv) d.
  Proof.
    induction d as [|[k' v'] d IH]; cbn; [intros []|]. intros H ND. inversion ND; subst.
    destruct (Z.eqb_spec k k').
    - subst. rewrite Z.eqb_refl. f_equal.
      rewrite <- (map_id d) at 1. apply map_ext_in. intros [k2 v2] Hin. cbn.
      destruct (Z.eqb_spec k2 k'); [subst; exfalso; apply H2; apply (in_map fst) in Hin; exact Hin | reflexivity].
    - destruct (Z.eqb_spec k' k); [congruence|]. f_equal. apply IH; [|assumption].
      destruct H; [congruence | assumption].
  Qed.
  Lemma dset_new k v d : ~ In k (dkeys d) -> dset k v d = d ++ [(k, v)].
  Proof.
    induction d as [|[k' v'] d IH]; cbn; [reflexivity|]. intros H.
    destruct (Z.eqb_spec k k'); [exfalso; apply H; left; congruence|].
    f_equal. apply IH. intros E; apply H; right; exact E.
  Qed.
  Lemma dkeys_dset_in k v d : In k (dkeys d) -> dkeys (dset k v d) = dkeys d.
  Proof.
    induction d as [|[k' v'] d IH]; cbn; [intros []|]. intros H.
    destruct (Z.eqb_spec k k'); [subst; reflexivity|]. cbn. f_equal. apply IH.
    destruct H; [congruence | assumption].
  Qed.
  Lemma dget_dset k k' v d : dget k' (dset k v d) = if Z.eqb k' k then Some v else dget k' d.
  Proof.
    induction d as [|[k2 v2] d IH]; cbn.
    - destruct (Z.eqb k' k); reflexivity.
    - destruct (Z.eqb_spec k k2).
      + subst. cbn. destruct (Z.eqb_spec k' k2); reflexivity.
      + cbn. destruct (Z.eqb_spec k' k2).
        * subst. destruct (Z.eqb_spec k2 k); [congruence | reflexivity].
        * exact IH.
  Qed.

  Lemma dpop_filter k d : NoDup (dkeys d) -> dpop k d = filter (fun kv => negb (Z.eqb (fst kv) k)) d.
  Proof.
    induction d as [|[k' v'] d IH]; cbn; [reflexivity|]. intros ND. inversion ND; subst.
    destruct (Z.eqb_spec k k').
    - subst. rewrite Z.eqb_refl. cbn. symmetry.
      rewrite <- (filter_ext_in (fun _ => true)); [clear; induction d; cbn; congruence|].
      intros [k2 v2] Hin. cbn. destruct (Z.eqb_spec k2 k'); [subst; exfalso; apply H1; apply (in_map fst) in Hin; exact Hin | reflexivity].
    - destruct (Z.eqb_spec k' k); [congruence|]. cbn. f_equal. apply IH. assumption.
  Qed.
  Lemma dget_dpop k k' d : NoDup (dkeys d) -> dget k' (dpop k d) = if Z.eqb k' k then None else dget k' d.
  Proof.
    induction d as [|[k2 v2] d IH]; cbn; intros ND.
    - destruct (Z.eqb k' k); reflexivity.
    - inversion ND; subst. destruct (Z.eqb_spec k k2).
      + subst. destruct (Z.eqb_spec k' k2); [subst; apply dget_None; assumption | reflexivity].
      + cbn. destruct (Z.eqb_spec k' k2).
        * subst. destruct (Z.eqb_spec k2 k); [congruence | reflexivity].
        * apply IH. assumption.
  Qed.
  Lemma dkeys_dpop k d : NoDup (dkeys d) -> dkeys (dpop k d) = filter (fun x => negb (Z.eqb x k)) (dkeys d).
  Proof.
    intros ND. rewrite dpop_filter by assumption. unfold dkeys.
    induction d as [|[k2 v2] d IH]; cbn; [reflexivity|]. inversion ND; subst.
    destruct (Z.eqb k2 k); cbn; rewrite IH by assumption; reflexivity.
  Qed.
  Lemma NoDup_filter {A} (f : A -> bool) l : NoDup l -> NoDup (filter f l).
  Proof.
    induction 1; cbn; [constructor|]. destruct (f x); [constructor|]; auto.
    rewrite filter_In. tauto.
  Qed.
  Lemma dget_app k d d' : dget k (d ++ d') = match dget k d with Some v => Some v | None => dget k d' end.
  Proof.
    induction d as [|[k2 v2] d IH]; cbn; [reflexivity|]. destruct (Z.eqb k k2); [reflexivity | exact IH].
  Qed.
  Lemma dkeys_app d d' : dkeys (d ++ d') = dkeys d ++ dkeys d'.
  Proof. apply map_app. Qed.

  (** d.update(d2) for disjoint keys *)
  Lemma dupdate_disjoint d d2 : NoDup (dkeys d2) -> (forall k, In k (dkeys d2) -> ~ In k (dkeys d)) ->
    dupdate d d2 = d ++ d2.
  Proof.
    unfold dupdate. revert d. induction d2 as [|[k v] d2 IH]; intros d ND H; cbn.
    - rewrite app_nil_r. reflexivity.
    - inversion ND; subst. rewrite dset_new by (apply H; left; reflexivity).
      rewrite IH; [rewrite <- app_assoc; reflexivity | assumption |].
      intros k' Hk'. rewrite dkeys_app. cbn. intros E. apply in_app_or in E. destruct E as [E|[E|[]]].
      + apply (H k'); [right; assumption | assumption].
      + subst. contradiction.
  Qed.

  (** the loop  "for k in ks: v = d[k]; d[k] = f(v)" *)
  Definition upd_step (f : V -> V) (d : dict V) (k : Z) : option (dict V) :=
    match dget k d with None => None | Some v => Some (dset k (f v) d) end.
  Definition upd_all (f : V -> V) (ks : list Z) (d : dict V) : dict V :=
    map (fun kv => (fst kv, Nat.iter (zcount (fst kv) ks) f (snd kv))) d.

  Lemma upd_all_nil f d : upd_all f [] d = d.
  Proof. unfold upd_all. rewrite <- (map_id d) at 2. apply map_ext. intros [k v]; reflexivity. Qed.
  Lemma dkeys_upd_all f ks d : dkeys (upd_all f ks d) = dkeys d.
  Proof. unfold upd_all, dkeys. rewrite map_map. reflexivity. Qed.

  Lemma ofold_upd f ks d : NoDup (dkeys d) -> (forall k, In k ks -> In k (dkeys d)) ->
    ofold (upd_step f) ks d = Some (upd_all f ks d).
  Proof.
    revert d. induction ks as [|k ks IH]; intros d ND H; cbn [ofold].
    - rewrite upd_all_nil. reflexivity.
    - unfold upd_step at 1. destruct (In_key_dget k d (H k (or_introl eq_refl))) as [v Hv]. rewrite Hv.
      rewrite IH.
      + f_equal. rewrite dset_map by (auto; apply H; left; reflexivity).
        unfold upd_all. rewrite map_map. apply map_ext_in. intros [k2 v2] Hin. cbn [fst snd].
        rewrite zcount_cons. destruct (Z.eqb_spec k2 k).
        * subst. cbn [fst snd]. assert (v2 = v) by (apply In_dget in Hin; congruence). subst.
          cbn [Nat.add]. rewrite iter_succ_r. reflexivity.
        * cbn [fst snd]. reflexivity.
      + rewrite dkeys_dset_in by (apply H; left; reflexivity). assumption.
      + intros k' Hk'. rewrite dkeys_dset_in by (apply H; left; reflexivity). apply H. right. assumption.
  Qed.
  Lemma ofold_upd_some f ks d d' : ofold (upd_step f) ks d = Some d' -> forall k, In k ks -> In k (dkeys d).
  Proof.
    revert d. induction ks as [|k ks IH]; intros d H k' Hk'; [destruct Hk'|].
    cbn [ofold] in H. unfold upd_step at 1 in H. destruct (dget k d) as [v|] eqn:Hv; [|discriminate].
    destruct Hk' as [<-|Hk'].
    - eapply dget_Some_key; eauto.
    - specialize (IH _ H k' Hk'). rewrite dkeys_dset_in in IH by (eapply dget_Some_key; eauto). exact IH.
  Qed.

  Lemma In_upd_all f ks d k v' : In (k, v') (upd_all f ks d) <->
    exists v, In (k, v) d /\ v' = Nat.iter (zcount k ks) f v.
  Proof.
    unfold upd_all. rewrite in_map_iff. split.
    - intros [[k2 v2] [E Hin]]. cbn in E. injection E as -> <-. eauto.
    - intros [v [Hin ->]]. exists (k, v). split; [reflexivity | assumption].
  Qed.
  Lemma dget_upd_all f ks d k : dget k (upd_all f ks d) = option_map (Nat.iter (zcount k ks) f) (dget k d).
  Proof.
    unfold upd_all. induction d as [|[k2 v2] d IH]; cbn; [reflexivity|].
    destruct (Z.eqb_spec k k2); [subst; reflexivity | exact IH].
  Qed.
End DictLemmas.
