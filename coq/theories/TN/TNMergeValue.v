(** C08: the value of a merged network is the contraction of the two values over the joined
    open axes.  The defining sum is followed through the stages of merge (TNMerge.merge_stages):
    fresh relabelling of the second network (value unchanged), disjoint union with fusion of the
    two virtual tensors (product of the values), fusion of the bonds of a joined pair of open
    axes (a Kronecker delta between the two axes, also when an axis is reused or when several
    open legs share a bond), removal of the joined open legs (summation over their indices). *)
From Qib Require Export TN.TNPres.
From Coq Require Import Permutation.
Local Open Scope Z_scope.

(* ------------------------------------------------------------------ presentation of a network,
   with an arbitrary tensor id [v] in the role of the virtual tensor (during the relabelling the
   virtual tensor of the second network carries a fresh id) *)
Definition vbat (v : Z) (n : net) : list Z :=
  match dget v (tensors n) with Some t => t_bids t | None => [] end.
Definition not_key (v : Z) (kt : Z * tensor) : bool := negb (Z.eqb (fst kt) v).
Definition tpres (kt : Z * tensor) : list Z * Z := (t_bids (snd kt), t_ref (snd kt)).
Definition rtl (v : Z) (n : net) : list (list Z * Z) := map tpres (filter (not_key v) (tensors n)).

Lemma bond_kd_keys n : bond_kd n = map (fun b => (b, bond_dim n b)) (dkeys (bonds n)).
Proof. unfold bond_kd, dkeys. rewrite map_map. reflexivity. Qed.
Lemma bond_kd_fst n : map fst (bond_kd n) = dkeys (bonds n).
Proof. unfold bond_kd, dkeys. rewrite map_map. reflexivity. Qed.

Lemma rtl_bids v n p b : WF0 n -> In p (rtl v n) -> In b (fst p) -> In b (dkeys (bonds n)).
Proof.
  intros W Hp Hb. unfold rtl in Hp. apply in_map_iff in Hp. destruct Hp as [[k t] [<- Hin]].
  apply filter_In in Hin. destruct Hin as [Hin _]. cbn in Hb. eapply wf_bids_exist; eauto.
Qed.
Lemma vbat_bids v n b : WF0 n -> In b (vbat v n) -> In b (dkeys (bonds n)).
Proof.
  intros W Hb. unfold vbat in Hb. destruct (dget v (tensors n)) as [t|] eqn:E; [|destruct Hb].
  eapply wf_bids_exist; eauto. apply dget_In. exact E.
Qed.

(** dimensions: when every leg of [b] in [n] is found again (on [b']) in [n'] *)
Lemma bond_dim_transfer n n' b b' : WF0 n -> WF0 n' -> In b (dkeys (bonds n)) ->
  (forall k t ax, In (k, t) (tensors n) -> nth_error (t_bids t) ax = Some b ->
     exists k' t' ax', In (k', t') (tensors n') /\ nth_error (t_bids t') ax' = Some b' /\
                       nth_error (t_shape t') ax' = nth_error (t_shape t) ax) ->
  bond_dim n' b' = bond_dim n b.
Proof.
  intros W W' Hb H. destruct (bond_has_leg n b W Hb) as [k [t [ax [Hin Hleg]]]].
  pose proof (bond_dim_spec n k t ax b W Hin Hleg) as S1.
  destruct (H k t ax Hin Hleg) as [k' [t' [ax' [Hin' [Hleg' Es]]]]].
  pose proof (bond_dim_spec n' k' t' ax' b' W' Hin' Hleg') as S2. congruence.
Qed.

Lemma Permutation_filter {A} (f : A -> bool) l l' : Permutation l l' -> Permutation (filter f l) (filter f l').
Proof.
  induction 1 as [| x l l' P IH | x y l | l l' l'' P1 IH1 P2 IH2]; cbn.
  - constructor.
  - destruct (f x); [constructor|]; exact IH.
  - destruct (f x), (f y); try reflexivity. apply perm_swap.
  - eapply Permutation_trans; eauto.
Qed.
Lemma dpop_perm {V} (d : dict V) k v : dget k d = Some v -> Permutation d ((k, v) :: dpop k d).
Proof.
  induction d as [|[k0 v0] d IH]; cbn; [discriminate|]. destruct (Z.eqb_spec k k0).
  - intros [= ->]. subst. reflexivity.
  - intros H. eapply Permutation_trans; [apply perm_skip; apply IH; exact H|]. apply perm_swap.
Qed.
Lemma filter_ne_dset {V} (d : dict V) k v : In k (dkeys d) ->
  filter (fun kv => negb (Z.eqb (fst kv) k)) (dset k v d) = filter (fun kv => negb (Z.eqb (fst kv) k)) d.
Proof.
  induction d as [|[k0 v0] d IH]; [intros []|]. intros H. cbn [dset]. destruct (Z.eqb_spec k k0).
  - subst. cbn [filter fst]. rewrite Z.eqb_refl. reflexivity.
  - cbn [filter fst]. destruct H as [H|H]; [cbn in H; congruence|]. rewrite (IH H). reflexivity.
Qed.
Lemma filter_notin_keys {V} (d : dict V) k : ~ In k (dkeys d) -> filter (fun kv => negb (Z.eqb (fst kv) k)) d = d.
Proof.
  intros H. apply filter_all_true. intros [k0 v0] Hin. cbn [fst]. apply negb_true_iff, Z.eqb_neq. intros ->.
  apply H. apply (in_map fst) in Hin. exact Hin.
Qed.

(** the loop of rename_bond / merge_bonds rewrites exactly the bond ids [a] to [c] everywhere *)
Lemma upd_all_rebid n a c b : WF0 n -> dget a (bonds n) = Some b -> a <> c ->
  upd_all (f_rebid a c) (b_tids b) (tensors n) = map (fun kx => (fst kx, f_rebid a c (snd kx))) (tensors n).
Proof.
  intros W Hb Hac. unfold upd_all. apply map_ext_in. intros [k0 x0] Hin. cbn [fst snd]. f_equal.
  rewrite iter_rebid by assumption. destruct (zcount k0 (b_tids b)) eqn:Ec; [|reflexivity].
  assert (Hna : ~ In a (t_bids x0)).
  { apply zcount_0. pose proof (wf_inc n W k0 a) as Inc. unfold cntT, cntB in Inc.
    rewrite (In_dget _ _ _ (wf_ndT n W) Hin), Hb in Inc. lia. }
  unfold f_rebid. rewrite (zreplace_notin a c _ Hna). destruct x0; reflexivity.
Qed.

Lemma rtl_map_bids (g : list Z -> list Z) v n n' :
  tensors n' = map (fun kx => (fst kx, set_bids (snd kx) (g (t_bids (snd kx))))) (tensors n) ->
  rtl v n' = map (fun p => (g (fst p), snd p)) (rtl v n).
Proof.
  intros E. unfold rtl. rewrite E. clear E. induction (tensors n) as [|[k t] T IH]; [reflexivity|]. cbn [map filter fst snd].
  replace (not_key v (k, set_bids t (g (t_bids t)))) with (not_key v (k, t)) by reflexivity.
  destruct (not_key v (k, t)); [cbn [map]; f_equal|]; exact IH.
Qed.
Lemma vbat_map_bids (g : list Z -> list Z) v n n' : g [] = [] ->
  tensors n' = map (fun kx => (fst kx, set_bids (snd kx) (g (t_bids (snd kx))))) (tensors n) ->
  vbat v n' = g (vbat v n).
Proof.
  intros Hg E. unfold vbat. rewrite E. rewrite (dget_map_val (fun kx => set_bids (snd kx) (g (t_bids (snd kx))))).
  destruct (dget v (tensors n)); [reflexivity | symmetry; exact Hg].
Qed.

Section StageValues.
  Context {K : Scalar} {L : ScalarLaws K}.
  Local Open Scope K_scope.
  Add Ring KringMV : (s_ring K L).
  Notation ksumN := (ksum (K:=K) Nat.eqb).

  Definition dsum_at (v : Z) (n : net) (data : Z -> list nat -> K) (x : list nat) : K :=
    psum (bond_kd n) (rtl v n) (vbat v n) data x.

  Lemma defining_sum_at n data x : defining_sum n data x = dsum_at VT n data x.
  Proof.
    unfold defining_sum, dsum_at, psum. apply ksum_ext_all. intros s. f_equal.
    unfold rprod, rtl, real_tensors. rewrite !map_map. reflexivity.
  Qed.

  (* ---------------------------------------------------------------- _rename_tensor *)
  Lemma rename_tensor_priv_value n a c n' v data x :
    WF0 n -> rename_tensor_priv n a c = Some n' -> In v (dkeys (tensors n)) ->
    dsum_at (if Z.eqb v a then c else v) n' data x = dsum_at v n data x.
  Proof.
    intros W H Hv. pose proof (rename_tensor_WF0 n a c n' W H) as W'.
    destruct (rename_tensor_spec n a c n' W H) as [t [Ht [Hc En']]].
    assert (Hac : a <> c) by (intros ->; apply Hc; eapply dget_Some_key; eauto).
    assert (Hvc : v <> c) by (intros ->; contradiction).
    pose proof (wf_ndT n W) as NDT.
    assert (Ekd : bond_kd n' = bond_kd n).
    { rewrite !bond_kd_keys. replace (dkeys (bonds n')) with (dkeys (bonds n)) by (rewrite En'; cbn [bonds]; rewrite dkeys_upd_all; reflexivity).
      apply map_ext_in. intros kb Hkb. f_equal. apply (bond_dim_transfer n n' kb kb W W' Hkb).
      intros k0 t0 ax Hk0 Hax. rewrite En'. cbn [tensors]. destruct (Z.eq_dec k0 a) as [->|Hne].
      - exists c, (set_tid t c), ax. assert (t0 = t) by (apply In_dget in Hk0; [congruence | exact NDT]). subst t0.
        split; [apply in_or_app; right; left; reflexivity | auto].
      - exists k0, t0, ax. split; [|auto]. apply in_or_app. left. rewrite dpop_filter by exact NDT.
        apply filter_In. split; [exact Hk0|]. apply negb_true_iff, Z.eqb_neq. exact Hne. }
    unfold dsum_at. rewrite Ekd.
    destruct (Z.eqb_spec v a) as [->|Hva].
    - (* the tensor in the virtual role is the renamed one *)
      assert (Evb : vbat c n' = vbat a n).
      { unfold vbat. rewrite En'. cbn [tensors]. rewrite dget_app, dget_dpop by exact NDT.
        destruct (Z.eqb_spec c a); [congruence|]. pose proof Hc as Hc'. apply dget_None in Hc'. rewrite Hc'.
        cbn [dget]. rewrite Z.eqb_refl, Ht. reflexivity. }
      assert (Er : rtl c n' = rtl a n).
      { unfold rtl. rewrite En'. cbn [tensors]. rewrite filter_app. cbn [filter]. unfold not_key at 2. cbn [fst].
        rewrite Z.eqb_refl. cbn [negb]. rewrite app_nil_r. rewrite dpop_filter by exact NDT.
        rewrite filter_filter. f_equal. apply filter_ext_in. intros [k0 t0] Hin. unfold not_key. cbn [fst].
        destruct (Z.eqb_spec k0 c); [|rewrite andb_true_r; reflexivity].
        subst. exfalso. apply Hc. apply (in_map fst) in Hin. exact Hin. }
      rewrite Evb, Er. reflexivity.
    - assert (Evb : vbat v n' = vbat v n).
      { unfold vbat. rewrite En'. cbn [tensors]. rewrite dget_app, dget_dpop by exact NDT.
        destruct (Z.eqb_spec v a); [contradiction|]. destruct (In_key_dget v (tensors n) Hv) as [vt ->]. reflexivity. }
      rewrite Evb. apply psum_perm; [reflexivity | rewrite bond_kd_fst; apply (wf_ndB n W)|].
      unfold rtl. rewrite En'. cbn [tensors]. rewrite filter_app, map_app. cbn [filter]. unfold not_key at 2. cbn [fst].
      destruct (Z.eqb_spec c v); [congruence|]. cbn [negb map].
      eapply Permutation_trans; [apply Permutation_sym, Permutation_cons_append|].
      change (tpres (c, set_tid t c)) with (tpres (a, t)).
      symmetry.
      eapply Permutation_trans; [apply Permutation_map, Permutation_filter, (dpop_perm _ a t Ht)|].
      cbn [filter]. unfold not_key at 1. cbn [fst]. destruct (Z.eqb_spec a v); [congruence|]. cbn [negb map]. reflexivity.
  Qed.

  (* ---------------------------------------------------------------- rename_bond *)
  Lemma rename_bond_value_at n a c n' v data x :
    WF0 n -> rename_bond n a c = Some n' -> dsum_at v n' data x = dsum_at v n data x.
  Proof.
    intros W H. pose proof (rename_bond_WF0 n a c n' W H) as W'.
    destruct (rename_bond_spec n a c n' W H) as [b [Hb [Hc En']]].
    assert (Hac : a <> c) by (intros ->; apply Hc; eapply dget_Some_key; eauto).
    assert (Ha : In a (dkeys (bonds n))) by (eapply dget_Some_key; eauto).
    set (rho := fun kb : Z => if Z.eqb kb a then c else kb).
    assert (ET : tensors n' = map (fun kx => (fst kx, set_bids (snd kx) (zreplace a c (t_bids (snd kx))))) (tensors n)).
    { rewrite En'. cbn [tensors]. apply upd_all_rebid; assumption. }
    assert (Er : rtl v n' = map (fun p => (map rho (fst p), snd p)) (rtl v n)).
    { exact (rtl_map_bids (zreplace a c) v n n' ET). }
    assert (Evb : vbat v n' = map rho (vbat v n)).
    { exact (vbat_map_bids (zreplace a c) v n n' eq_refl ET). }
    assert (Edim : forall kb, In kb (dkeys (bonds n)) -> bond_dim n' (rho kb) = bond_dim n kb).
    { intros kb Hkb. apply (bond_dim_transfer n n' kb (rho kb) W W' Hkb). intros k0 t0 ax Hk0 Hleg.
      exists k0, (set_bids t0 (zreplace a c (t_bids t0))), ax. split; [|split].
      - rewrite ET. apply in_map_iff. exists (k0, t0). auto.
      - cbn [set_bids t_bids]. rewrite nth_error_zreplace, Hleg. reflexivity.
      - reflexivity. }
    set (rest := filter (fun kb => negb (Z.eqb kb a)) (dkeys (bonds n))).
    assert (Pk : Permutation (dkeys (bonds n)) (rest ++ [a])).
    { eapply Permutation_trans; [apply (filter_partition_perm (fun kb => Z.eqb kb a))|]. apply Permutation_app_head.
      assert (E : filter (fun kb => Z.eqb kb a) (dkeys (bonds n)) = [a]).
      { pose proof (wf_ndB n W) as ND. clear - ND Ha. induction (dkeys (bonds n)) as [|y l IH]; [destruct Ha|].
        inversion ND; subst. cbn. destruct (Z.eqb_spec y a).
        - subst. f_equal. apply filter_all_false. intros z Hz. apply Z.eqb_neq. intros ->. contradiction.
        - destruct Ha as [Ha|Ha]; [congruence|]. apply IH; assumption. }
      rewrite E. reflexivity. }
    assert (Ek' : dkeys (bonds n') = rest ++ [c]).
    { rewrite En'. cbn [bonds]. rewrite dkeys_app, dkeys_dpop by apply (wf_ndB n W). reflexivity. }
    unfold dsum_at. rewrite Er, Evb.
    rewrite <- (psum_rename rho (bond_kd n) (rtl v n) (vbat v n) data x).
    - apply psum_perm; [|rewrite bond_kd_fst; apply (wf_ndB n' W') | reflexivity].
      rewrite !bond_kd_keys, Ek', map_map. cbn [fst snd].
      eapply Permutation_trans; [|apply Permutation_map, Permutation_sym, Pk].
      rewrite !map_app. cbn [map]. rewrite <- (Edim a Ha). unfold rho at 2 3. rewrite Z.eqb_refl.
      apply Permutation_app; [|reflexivity].
      rewrite (map_ext_in (fun b0 => (b0, bond_dim n' b0)) (fun x0 => (rho x0, bond_dim n x0)) rest); [reflexivity|].
      intros kb Hkb. unfold rest in Hkb. apply filter_In in Hkb. destruct Hkb as [HkK Hne].
      apply negb_true_iff, Z.eqb_neq in Hne. rewrite <- (Edim kb HkK). unfold rho.
      destruct (Z.eqb_spec kb a); [contradiction | reflexivity].
    - rewrite bond_kd_fst. intros p q Hp Hq. unfold rho.
      destruct (Z.eqb_spec p a), (Z.eqb_spec q a); subst; intros E; try congruence; subst; contradiction.
    - intros p b0 Hp Hb0. rewrite bond_kd_fst. eapply rtl_bids; eauto.
    - intros b0 Hb0. rewrite bond_kd_fst. eapply vbat_bids; eauto.
  Qed.

  (* ---------------------------------------------------------------- the relabelling loops *)
  Lemma relabel_tensors_value_keep ord : forall o next tmp o1 tmp1 v data x,
    WF0 o -> relabel_tensors o ord next tmp = Some (o1, tmp1) -> In v (dkeys (tensors o)) -> ~ In v ord ->
    In v (dkeys (tensors o1)) /\ dsum_at v o1 data x = dsum_at v o data x.
  Proof.
    induction ord as [|a ord IH]; intros o next tmp o1 tmp1 v data x W H Hv Hno.
    - cbn in H. injection H as <- _. auto.
    - cbn [relabel_tensors] in H. destruct (rename_tensor_priv o a next) as [o'|] eqn:R; [|discriminate].
      pose proof (rename_tensor_WF0 _ _ _ _ W R) as W'.
      assert (Hva : v <> a) by (intros ->; apply Hno; left; reflexivity).
      assert (Hv' : In v (dkeys (tensors o'))).
      { destruct (rename_tensor_keys o a next o' W R) as [_ [_ [Kt _]]]. rewrite Kt. apply in_or_app. left.
        apply filter_In. split; [exact Hv | apply negb_true_iff, Z.eqb_neq; exact Hva]. }
      destruct (IH o' _ _ o1 tmp1 v data x W' H Hv' (fun E => Hno (or_intror E))) as [A B].
      split; [exact A|]. rewrite B.
      pose proof (rename_tensor_priv_value o a next o' v data x W R Hv) as E.
      destruct (Z.eqb_spec v a); [contradiction | exact E].
  Qed.

  Lemma relabel_tensors_value_virtual ord : forall o next tmp o1 tmp1 data x,
    WF0 o -> relabel_tensors o ord next tmp = Some (o1, tmp1) -> In VT (dkeys (tensors o)) ->
    NoDup ord -> (forall k, In k ord -> (k < next)%Z) -> In VT ord ->
    dsum_at tmp1 o1 data x = dsum_at VT o data x.
  Proof.
    induction ord as [|a ord IH]; intros o next tmp o1 tmp1 data x W H HVo ND Hlt HV; [destruct HV|].
    cbn [relabel_tensors] in H. destruct (rename_tensor_priv o a next) as [o'|] eqn:R; [|discriminate].
    pose proof (rename_tensor_WF0 _ _ _ _ W R) as W'. inversion ND as [|? ? Ha ND']; subst.
    destruct (rename_tensor_keys o a next o' W R) as [Hain [Hnext [Kt _]]].
    assert (Hlt' : forall k, In k ord -> (k < next + 1)%Z) by (intros k Hk; specialize (Hlt k (or_intror Hk)); lia).
    destruct (Z.eq_dec a VT) as [->|HVa].
    - rewrite Z.eqb_refl in H. rewrite (relabel_tensors_tmp_keep _ _ _ _ _ _ H Ha).
      assert (Hn' : In next (dkeys (tensors o'))) by (rewrite Kt; apply in_or_app; right; left; reflexivity).
      assert (Hno : ~ In next ord) by (intros E; specialize (Hlt next (or_intror E)); lia).
      destruct (relabel_tensors_value_keep ord o' _ _ o1 tmp1 next data x W' H Hn' Hno) as [_ B]. rewrite B.
      pose proof (rename_tensor_priv_value o VT next o' VT data x W R Hain) as E. rewrite Z.eqb_refl in E. exact E.
    - destruct HV as [HV|HV]; [congruence|].
      assert (HV' : In VT (dkeys (tensors o'))).
      { rewrite Kt. apply in_or_app. left. apply filter_In. split; [exact HVo|].
        apply negb_true_iff, Z.eqb_neq. congruence. }
      rewrite (IH o' _ _ o1 tmp1 data x W' H HV' ND' Hlt' HV).
      pose proof (rename_tensor_priv_value o a next o' VT data x W R HVo) as E.
      destruct (Z.eqb_spec VT a); [congruence | exact E].
  Qed.

  Lemma relabel_bonds_value ord : forall o next o1 v data x,
    WF0 o -> relabel_bonds o ord next = Some o1 -> dsum_at v o1 data x = dsum_at v o data x.
  Proof.
    induction ord as [|a ord IH]; intros o next o1 v data x W H.
    - cbn in H. injection H as <-. reflexivity.
    - cbn [relabel_bonds] in H. destruct (rename_bond o a next) as [o'|] eqn:R; [|discriminate].
      rewrite (IH o' _ o1 v data x (rename_bond_WF0 _ _ _ _ W R) H). eapply rename_bond_value_at; eauto.
  Qed.

  (* ---------------------------------------------------------------- disjoint union, fused virtual tensors *)
  Lemma union_fuse_value n o2 tmp vtn x2 n2 data y1 y2 :
    WF0 n -> WF0 o2 ->
    (forall k, In k (dkeys (tensors o2)) -> ~ In k (dkeys (tensors n))) ->
    (forall k, In k (dkeys (bonds o2)) -> ~ In k (dkeys (bonds n))) ->
    VT <> tmp -> dget VT (tensors n) = Some vtn -> dget tmp (tensors o2) = Some x2 ->
    n2 = mkN (dset VT (fused_tensor vtn x2) (dpop tmp (tensors n ++ tensors o2)))
             (upd_all (f_retid tmp VT) (t_bids x2) (bonds n ++ bonds o2)) ->
    WF0 n2 -> length y1 = length (t_bids vtn) ->
    dsum_at VT n2 data (y1 ++ y2) = dsum_at VT n data y1 * dsum_at tmp o2 data y2.
  Proof.
    intros Wn Wo DT DB HtmpV Hvtn Hx2 En2 W2 Ly.
    assert (HVn : In VT (dkeys (tensors n))) by (eapply dget_Some_key; eauto).
    assert (Htmpo : In tmp (dkeys (tensors o2))) by (eapply dget_Some_key; eauto).
    assert (HVo : ~ In VT (dkeys (tensors o2))) by (intros E; exact (DT VT E HVn)).
    assert (Htmpn : ~ In tmp (dkeys (tensors n))) by (apply DT; exact Htmpo).
    assert (NDu : NoDup (dkeys (tensors n ++ tensors o2))).
    { rewrite dkeys_app. apply NoDup_app_intro; [apply (wf_ndT n Wn) | apply (wf_ndT o2 Wo) | assumption]. }
    assert (HVu : In VT (dkeys (dpop tmp (tensors n ++ tensors o2)))).
    { rewrite dkeys_dpop by exact NDu. apply filter_In. split.
      - rewrite dkeys_app. apply in_or_app. left. exact HVn.
      - apply negb_true_iff, Z.eqb_neq. exact HtmpV. }
    pose proof (wf_T n Wn VT vtn (dget_In _ _ _ Hvtn)) as [_ Lvtn].
    pose proof (wf_T o2 Wo tmp x2 (dget_In _ _ _ Hx2)) as [_ Lx2].
    assert (Evb2 : vbat VT n2 = t_bids vtn ++ t_bids x2).
    { unfold vbat. rewrite En2. cbn [tensors]. rewrite dget_dset, Z.eqb_refl. reflexivity. }
    assert (Evbn : vbat VT n = t_bids vtn) by (unfold vbat; rewrite Hvtn; reflexivity).
    assert (Evbo : vbat tmp o2 = t_bids x2) by (unfold vbat; rewrite Hx2; reflexivity).
    assert (Er : rtl VT n2 = rtl VT n ++ rtl tmp o2).
    { unfold rtl. rewrite En2. cbn [tensors]. unfold not_key.
      rewrite (filter_ne_dset _ VT _ HVu). rewrite dpop_filter by exact NDu.
      rewrite !filter_app, map_app. f_equal; f_equal.
      - rewrite (filter_notin_keys (tensors n) tmp Htmpn). reflexivity.
      - apply filter_all_true. intros [k0 t0] Hin. apply filter_In in Hin. destruct Hin as [Hin _]. cbn [fst].
        apply negb_true_iff, Z.eqb_neq. intros ->. apply HVo. apply (in_map fst) in Hin. exact Hin. }
    assert (In2 : forall k t, In (k, t) (tensors n2) <->
                    (k = VT /\ t = fused_tensor vtn x2) \/ (k <> VT /\ k <> tmp /\ In (k, t) (tensors n ++ tensors o2))).
    { intros k t. rewrite En2. cbn [tensors]. apply In_dset_dpop; [exact NDu | | exact HtmpV].
      rewrite dkeys_app. apply in_or_app. left. exact HVn. }
    assert (Ekd : bond_kd n2 = bond_kd n ++ bond_kd o2).
    { rewrite !bond_kd_keys.
      replace (dkeys (bonds n2)) with (dkeys (bonds n) ++ dkeys (bonds o2))
        by (rewrite En2; cbn [bonds]; rewrite dkeys_upd_all, dkeys_app; reflexivity).
      rewrite map_app. f_equal; apply map_ext_in; intros kb Hkb; f_equal.
      - apply (bond_dim_transfer n n2 kb kb Wn W2 Hkb). intros k0 t0 ax Hk0 Hleg.
        destruct (Z.eq_dec k0 VT) as [->|Hne].
        + assert (t0 = vtn) by (apply In_dget in Hk0; [congruence | apply (wf_ndT n Wn)]). subst t0.
          exists VT, (fused_tensor vtn x2), ax. split; [apply In2; left; auto|].
          assert (ax < length (t_bids vtn))%nat by (apply nth_error_Some; congruence).
          cbn [fused_tensor t_bids t_shape]. rewrite !nth_error_app1 by lia. auto.
        + exists k0, t0, ax. split; [|auto]. apply In2. right. split; [exact Hne|]. split.
          * intros ->. apply Htmpn. apply (in_map fst) in Hk0. exact Hk0.
          * apply in_or_app. left. exact Hk0.
      - apply (bond_dim_transfer o2 n2 kb kb Wo W2 Hkb). intros k0 t0 ax Hk0 Hleg.
        destruct (Z.eq_dec k0 tmp) as [->|Hne].
        + assert (t0 = x2) by (apply In_dget in Hk0; [congruence | apply (wf_ndT o2 Wo)]). subst t0.
          exists VT, (fused_tensor vtn x2), (length (t_bids vtn) + ax)%nat. split; [apply In2; left; auto|].
          cbn [fused_tensor t_bids t_shape]. rewrite !nth_error_app2 by lia. rewrite Lvtn.
          replace (length (t_bids vtn) + ax - length (t_bids vtn))%nat with ax by lia. auto.
        + exists k0, t0, ax. split; [|auto]. apply In2. right. split; [|split; [exact Hne|]].
          * intros ->. apply HVo. apply (in_map fst) in Hk0. exact Hk0.
          * apply in_or_app. right. exact Hk0. }
    unfold dsum_at. rewrite Ekd, Er, Evb2, Evbn, Evbo.
    apply psum_mul.
    - rewrite !bond_kd_fst. apply NoDup_app_intro; [apply (wf_ndB n Wn) | apply (wf_ndB o2 Wo) | assumption].
    - intros p b Hp Hb. rewrite bond_kd_fst. eapply rtl_bids; eauto.
    - intros b Hb. rewrite bond_kd_fst. rewrite <- Evbn in Hb. eapply vbat_bids; eauto.
    - intros p b Hp Hb. rewrite bond_kd_fst. eapply rtl_bids; eauto.
    - intros b Hb. rewrite bond_kd_fst. rewrite <- Evbo in Hb. eapply vbat_bids; eauto.
    - exact Ly.
  Qed.

  (* ---------------------------------------------------------------- fusion of the bonds of two open axes *)
  Lemma filter_map_comm {A B} (f : B -> bool) (g : A -> B) l : filter f (map g l) = map g (filter (fun a => f (g a)) l).
  Proof. induction l as [|a l IH]; [reflexivity|]. cbn. destruct (f (g a)); cbn; rewrite IH; reflexivity. Qed.

  Lemma merge_bonds_value n b1 b2 n' a c Sh d data x :
    WF0 n -> tshape n VT = Some Sh -> nth_error Sh a = Some d -> nth_error Sh c = Some d ->
    nth_error (vbids n) a = Some b1 -> nth_error (vbids n) c = Some b2 ->
    merge_bonds n b1 b2 = Some n' -> length x = length Sh ->
    dsum_at VT n' data x = delta (nth a x O) (nth c x O) * dsum_at VT n data x.
  Proof.
    intros W HS Da Dc Na Nc M Lx.
    pose proof (vbids_tshape_len n Sh W HS) as Lvb.
    change (vbids n) with (vbat VT n) in *.
    destruct (Z.eq_dec b1 b2) as [->|Hne].
    { unfold merge_bonds in M. rewrite Z.eqb_refl in M. injection M as <-.
      unfold dsum_at. apply (psum_same_bond _ _ _ _ _ b2 a c Na Nc). congruence. }
    assert (Hvt : exists t, dget VT (tensors n) = Some t /\ t_shape t = Sh /\ t_bids t = vbat VT n).
    { unfold tshape in HS. unfold vbat. destruct (dget VT (tensors n)) as [t|]; [|discriminate].
      injection HS as HS. exists t. auto. }
    destruct Hvt as [vt [Hvt [Svt Bvt]]].
    assert (DA : dims_agree n b1 b2).
    { exists VT, vt, a, c, d. rewrite Svt, Bvt. split; [apply dget_In; exact Hvt | auto]. }
    pose proof (merge_bonds_WF0 n b1 b2 n' W DA M) as W'.
    destruct (merge_bonds_spec n b1 b2 n' W Hne M) as [y1 [y2 [E1 [E2 En']]]].
    assert (Hne' : b2 <> b1) by congruence.
    assert (ET : tensors n' = map (fun kx => (fst kx, set_bids (snd kx) (zreplace b2 b1 (t_bids (snd kx))))) (tensors n)).
    { rewrite En'. cbn [tensors]. apply upd_all_rebid; assumption. }
    pose proof (rtl_map_bids (zreplace b2 b1) VT n n' ET) as Er.
    pose proof (vbat_map_bids (zreplace b2 b1) VT n n' eq_refl ET) as Evb.
    assert (Hb1 : In b1 (dkeys (bonds n))) by (eapply dget_Some_key; eauto).
    assert (Hb2 : In b2 (dkeys (bonds n))) by (eapply dget_Some_key; eauto).
    assert (Ekeys : dkeys (bonds n') = filter (fun kb => negb (Z.eqb kb b2)) (dkeys (bonds n))).
    { rewrite En'. cbn [bonds]. rewrite dkeys_dset_in; [apply dkeys_dpop; apply (wf_ndB n W)|].
      rewrite dkeys_dpop by apply (wf_ndB n W). apply filter_In. split; [exact Hb1|].
      apply negb_true_iff, Z.eqb_neq. exact Hne. }
    assert (Ekd : bond_kd n' = filter (fun p => negb (Z.eqb (fst p) b2)) (bond_kd n)).
    { rewrite !bond_kd_keys, Ekeys, filter_map_comm. cbn [fst]. apply map_ext_in. intros kb Hkb. f_equal.
      apply filter_In in Hkb. destruct Hkb as [Hkb Hk2]. apply negb_true_iff, Z.eqb_neq in Hk2.
      apply (bond_dim_transfer n n' kb kb W W' Hkb). intros k0 t0 ax Hk0 Hleg.
      exists k0, (set_bids t0 (zreplace b2 b1 (t_bids t0))), ax. split; [|split].
      - rewrite ET. apply in_map_iff. exists (k0, t0). auto.
      - cbn [set_bids t_bids]. rewrite nth_error_zreplace, Hleg. cbn. destruct (Z.eqb_spec kb b2); [contradiction | reflexivity].
      - reflexivity. }
    assert (D1 : bond_dim n b1 = d).
    { pose proof (bond_dim_spec n VT vt a b1 W (dget_In _ _ _ Hvt)) as Sp. rewrite Bvt, Svt in Sp. specialize (Sp Na). congruence. }
    assert (D2 : bond_dim n b2 = d).
    { pose proof (bond_dim_spec n VT vt c b2 W (dget_In _ _ _ Hvt)) as Sp. rewrite Bvt, Svt in Sp. specialize (Sp Nc). congruence. }
    unfold dsum_at. rewrite Ekd, Er, Evb.
    apply (psum_fuse (bond_kd n) (rtl VT n) (vbat VT n) data x b1 b2 d a c).
    - rewrite bond_kd_fst. apply (wf_ndB n W).
    - rewrite bond_kd_keys. apply in_map_iff. exists b1. rewrite D1. auto.
    - rewrite bond_kd_keys. apply in_map_iff. exists b2. rewrite D2. auto.
    - exact Hne.
    - exact Na.
    - exact Nc.
    - congruence.
  Qed.

  (** the whole join loop: one delta per join *)
  Lemma join_fold_value norig joins Sh data x : forall n amap n' amap',
    WF0 n -> tshape n VT = Some Sh ->
    (forall j, In j joins -> exists d, nth_error Sh (fst j) = Some d /\ nth_error Sh (norig + snd j) = Some d) ->
    ofold (join_step norig) joins (n, amap) = Some (n', amap') -> length x = length Sh ->
    dsum_at VT n' data x
    = lprod (map (fun j => delta (nth (fst j) x O) (nth (norig + snd j) x O)) joins) * dsum_at VT n data x.
  Proof.
    induction joins as [|j joins IH]; intros n amap n' amap' W HS HJ H Lx.
    - cbn in H. injection H as <- _. cbn [map]. rewrite lprod_nil. ring.
    - cbn [ofold] in H. destruct (join_step norig (n, amap) j) as [[n1 amap1]|] eqn:J; [|discriminate].
      destruct (join_step_inv _ _ _ _ _ _ Sh W HS (HJ j (or_introl eq_refl)) J) as [W1 [S1 _]].
      rewrite (IH n1 amap1 n' amap' W1 S1 (fun j' Hj' => HJ j' (or_intror Hj')) H Lx).
      cbn [map]. rewrite lprod_cons.
      unfold join_step in J.
      destruct (nth_error (vbids n) (fst j)) as [b1|] eqn:N1; [|discriminate].
      destruct (nth_error (vbids n) (norig + snd j)) as [b2|] eqn:N2; [|discriminate].
      destruct (merge_bonds n b1 b2) as [n1'|] eqn:M; [|discriminate]. injection J as <- _.
      destruct (HJ j (or_introl eq_refl)) as [d [D1 D2]].
      rewrite (merge_bonds_value n b1 b2 n1' (fst j) (norig + snd j)%nat Sh d data x W HS D1 D2 N1 N2 M Lx). ring.
  Qed.

  (* ---------------------------------------------------------------- removal of the joined open legs *)
  Lemma finish_value n3 t3 del n4 data (e0 : nat -> nat) :
    WF0 n3 -> dget VT (tensors n3) = Some t3 -> NoDup del ->
    (forall d, In d del -> (d < length (t_bids t3))%nat) ->
    tensors n4 = tensors n3 -> dkeys (bonds n4) = dkeys (bonds n3) ->
    let keep := filter (fun i => negb (nmem i del)) (seq 0 (length (t_bids t3))) in
    WF0 (mkN (dset VT (sliced t3 keep) (tensors n4)) (bonds n4)) ->
    ksumN (map (fun d => (d, nth d (t_shape t3) O)) del)
          (fun e => dsum_at VT n3 data (map e (seq 0 (length (t_bids t3))))) e0
    = dsum_at VT (mkN (dset VT (sliced t3 keep) (tensors n4)) (bonds n4)) data (map e0 keep).
  Proof.
    intros W Ht ND Hlt T4 K4 keep W'.
    set (n' := mkN (dset VT (sliced t3 keep) (tensors n4)) (bonds n4)) in *.
    assert (HV : In VT (dkeys (tensors n3))) by (eapply dget_Some_key; eauto).
    pose proof (wf_T n3 W VT t3 (dget_In _ _ _ Ht)) as [_ Hlen].
    assert (Evb3 : vbat VT n3 = t_bids t3) by (unfold vbat; rewrite Ht; reflexivity).
    assert (Evb' : vbat VT n' = map (fun i => nth i (t_bids t3) 0%Z) keep).
    { unfold vbat, n'. cbn [tensors]. rewrite dget_dset, Z.eqb_refl. reflexivity. }
    assert (Er' : rtl VT n' = rtl VT n3).
    { unfold rtl, n'. cbn [tensors]. unfold not_key. rewrite filter_ne_dset by (rewrite T4; exact HV). rewrite T4. reflexivity. }
    assert (Hkeep : forall i, In i keep -> (i < length (t_bids t3))%nat).
    { intros i Hi. apply filter_In in Hi. destruct Hi as [Hi _]. apply in_seq in Hi. lia. }
    assert (Ekd' : bond_kd n' = bond_kd n3).
    { rewrite !bond_kd_keys. replace (dkeys (bonds n')) with (dkeys (bonds n3)) by (symmetry; exact K4).
      apply map_ext_in. intros kb Hkb. f_equal. symmetry.
      apply (bond_dim_transfer n' n3 kb kb W' W); [unfold n'; cbn [bonds]; rewrite K4; exact Hkb|].
      intros k0 t0 ax Hk0 Hleg. unfold n' in Hk0. cbn [tensors] in Hk0. rewrite T4 in Hk0.
      apply In_dset_in in Hk0; [|apply (wf_ndT n3 W) | exact HV].
      destruct Hk0 as [[-> ->]|[_ Hk0]]; [|exists k0, t0, ax; auto].
      cbn [sliced t_bids t_shape] in *. rewrite nth_error_map in *.
      destruct (nth_error keep ax) as [i|] eqn:Ei; [|discriminate]. cbn [option_map] in *. injection Hleg as Hleg.
      pose proof (Hkeep i (nth_error_In _ _ Ei)) as Hi.
      exists VT, t3, i. split; [apply dget_In; exact Ht|]. split.
      - rewrite <- Hleg. apply nth_error_nth'. exact Hi.
      - apply nth_error_nth'. lia. }
    unfold dsum_at. rewrite Ekd', Er', Evb', Evb3.
    apply (psum_drop (bond_kd n3) (rtl VT n3) (t_bids t3) data del (fun d => nth d (t_shape t3) O) e0).
    - rewrite bond_kd_fst. apply (wf_ndB n3 W).
    - exact ND.
    - intros d Hd. split; [apply Hlt; exact Hd|].
      assert (Hn : nth_error (t_bids t3) d = Some (nth d (t_bids t3) 0%Z)) by (apply nth_error_nth'; apply Hlt; exact Hd).
      pose proof (bond_dim_spec n3 VT t3 d _ W (dget_In _ _ _ Ht) Hn) as Sp.
      rewrite bond_kd_keys. apply in_map_iff. exists (nth d (t_bids t3) 0%Z). split.
      + f_equal. symmetry. apply nth_error_nth. exact Sp.
      + eapply wf_bids_exist; [exact W | apply dget_In; exact Ht | eapply nth_error_In; exact Hn].
  Qed.

  Lemma ksumN_ext_all kd (F G : (nat -> nat) -> K) : (forall e, F e = G e) -> forall e, ksumN kd F e = ksumN kd G e.
  Proof.
    intros H. induction kd as [|[k d] kd IH]; intros e; cbn [ksum]; [apply H|].
    apply lsum_map_ext. intros v _. apply IH.
  Qed.
End StageValues.

(* ------------------------------------------------------------------ the stages of an accepted merge, with values *)
Definition same_value (v1 : Z) (o1 : net) (v : Z) (o : net) : Prop :=
  forall (K : Scalar) (L : ScalarLaws K) (data : Z -> list nat -> K) x, dsum_at v1 o1 data x = dsum_at v o data x.

Inductive merge_stages_val (n o : net) (joins : list (nat * nat)) (n' : net) : Prop := mkStagesV
  (mv_vtn : tensor) (mv_vto : tensor) (mv_o2 : net) (mv_tmp : Z) (mv_x2 : tensor) (mv_n2 : net) (mv_n3 : net)
  (mv_amap : list nat) (mv_n4 : net) (mv_t3 : tensor)
  (mv_Hvtn : dget VT (tensors n) = Some mv_vtn)
  (mv_Hvto : dget VT (tensors o) = Some mv_vto)
  (mv_Wo2 : WF0 mv_o2)
  (mv_DT : forall k, In k (dkeys (tensors mv_o2)) -> ~ In k (dkeys (tensors n)))
  (mv_DB : forall k, In k (dkeys (bonds mv_o2)) -> ~ In k (dkeys (bonds n)))
  (mv_tmpV : VT <> mv_tmp)
  (mv_Hx2 : dget mv_tmp (tensors mv_o2) = Some mv_x2)
  (mv_Sx2 : t_shape mv_x2 = t_shape mv_vto)
  (mv_En2 : mv_n2 = mkN (dset VT (fused_tensor mv_vtn mv_x2) (dpop mv_tmp (tensors n ++ tensors mv_o2)))
                        (upd_all (f_retid mv_tmp VT) (t_bids mv_x2) (bonds n ++ bonds mv_o2)))
  (mv_W2 : WF0 mv_n2)
  (mv_JF : ofold (join_step (length (t_shape mv_vtn))) joins (mv_n2, seq 0 (length (t_shape mv_vtn ++ t_shape mv_vto))) = Some (mv_n3, mv_amap))
  (mv_Ht3 : dget VT (tensors mv_n3) = Some mv_t3)
  (mv_DF : ofold del_step (filter (fun i => negb (nmem i mv_amap)) (seq 0 (length (t_shape mv_vtn ++ t_shape mv_vto)))) mv_n3 = Some mv_n4)
  (mv_T4 : tensors mv_n4 = tensors mv_n3)
  (mv_En : n' = mkN (dset VT (sliced mv_t3 mv_amap) (tensors mv_n4)) (bonds mv_n4))
  (mv_inrange : forall j, In j joins -> (fst j < length (t_shape mv_vtn))%nat)
  (mv_SV : same_value mv_tmp mv_o2 VT o).

Theorem merge_stages_val_intro n o joins ordT ordB n' :
  WF n -> WF o -> merge n o joins ordT ordB = Some n' -> merge_stages_val n o joins n'.
Proof.
  intros [Wn Vn] [Wo Vo] H. unfold merge in H.
  destruct (In_key_dget _ _ Vn) as [vtn Hvtn]. destruct (In_key_dget _ _ Vo) as [vto Hvto].
  unfold num_open_axes at 1 in H. rewrite Hvtn in H. cbn [option_map] in H.
  destruct (match joins with [] => Some O | _ :: _ => num_open_axes o end) as [nother|]; [|discriminate].
  destruct (forallb _ joins) eqn:FJ; [|discriminate]. cbn [negb] in H.
  destruct (joins_starve n o joins) eqn:JS; [discriminate|].
  unfold merge_changes in H.
  destruct (is_shared_order ordT _ _) eqn:ST; [|discriminate]. cbn [negb] in H.
  destruct (is_shared_order ordB _ _) eqn:SB; [|discriminate]. cbn [negb] in H.
  destruct (relabel_tensors o ordT _ VT) as [[o1 tmp]|] eqn:RT; [|discriminate].
  destruct (relabel_bonds o1 ordB _) as [o2|] eqn:RB; [|discriminate].
  destruct (merge_tensors _ VT tmp) as [n2|] eqn:MT; [|discriminate].
  destruct (ofold (join_step (t_ndim vtn)) joins _) as [[n3 amap]|] eqn:JF; [|discriminate].
  destruct (ofold del_step _ n3) as [n4|] eqn:DF; [|discriminate].
  destruct (dget VT (tensors n4)) as [t4|] eqn:Ht4; [|discriminate]. injection H as <-.
  destruct (relabel_tensors_WF0 _ _ _ _ _ _ Wo RT) as [Wo1 Kb1].
  destruct (is_shared_order_spec _ _ _ ST) as [NDT [ST2 ST3]].
  assert (HVord : In VT ordT) by (apply ST3; assumption).
  set (next := zmax0 (dkeys (tensors n) ++ dkeys (tensors o)) + 1) in *.
  assert (Hlt : forall k, In k ordT -> k < next).
  { intros k Hk. destruct (ST2 k Hk) as [A _].
    assert (Hin : In k (dkeys (tensors n) ++ dkeys (tensors o))) by (apply in_or_app; left; assumption).
    apply zmax0_ge in Hin. unfold next. lia. }
  destruct (relabel_tensors_tmp _ _ _ _ _ _ Wo RT Hlt HVord) as [Htmp1 Htmp2].
  assert (HtmpV : VT <> tmp) by (specialize (Hlt VT HVord); lia).
  pose proof (tshape_relabel_tmp _ _ _ _ _ _ Wo RT NDT Hlt HVord) as Sh1.
  destruct (relabel_bonds_WF0 _ _ _ _ Wo1 RB) as [Wo2 Kt2].
  assert (DT : forall k, In k (dkeys (tensors o2)) -> ~ In k (dkeys (tensors n))).
  { intros k Hk. rewrite Kt2 in Hk. exact (relabel_tensors_disjoint n o ordT o1 tmp k Wo ST RT Hk). }
  assert (DB : forall k, In k (dkeys (bonds o2)) -> ~ In k (dkeys (bonds n))).
  { intros k Hk. refine (relabel_bonds_disjoint n o1 ordB o2 k Wo1 _ RB Hk). rewrite Kb1. exact SB. }
  rewrite (dupdate_disjoint (tensors n) (tensors o2)) in MT by (auto; apply (wf_ndT o2 Wo2)).
  rewrite (dupdate_disjoint (bonds n) (bonds o2)) in MT by (auto; apply (wf_ndB o2 Wo2)).
  pose proof (union_WF0 n o2 Wn Wo2 DT DB) as W1.
  pose proof (merge_tensors_WF0 _ _ _ _ W1 MT) as W2.
  destruct (merge_tensors_spec _ _ _ _ W1 HtmpV MT) as [x1 [x2 [E1 [E2 En2]]]]. cbn [tensors bonds] in E1, E2, En2.
  rewrite dget_app, Hvtn in E1. injection E1 as <-.
  rewrite dget_app in E2.
  assert (Hnt : dget tmp (tensors n) = None).
  { apply dget_None. apply DT. rewrite Kt2. assumption. }
  rewrite Hnt in E2.
  assert (Sx2 : t_shape x2 = t_shape vto).
  { pose proof (tshape_relabel_bonds _ _ _ _ tmp Wo1 RB) as A. rewrite Sh1 in A. unfold tshape in A.
    rewrite E2, Hvto in A. cbn in A. congruence. }
  set (S := t_shape vtn ++ t_shape vto).
  assert (S2 : tshape n2 VT = Some S).
  { rewrite En2. unfold tshape. cbn [tensors]. rewrite dget_dset, Z.eqb_refl. cbn. rewrite Sx2. reflexivity. }
  assert (Nd : num_open_axes n2 = Some (length S)).
  { unfold num_open_axes. unfold tshape in S2. destruct (dget VT (tensors n2)); [|discriminate].
    cbn in S2 |- *. injection S2 as S2. unfold t_ndim. rewrite S2. reflexivity. }
  rewrite Nd in JF, DF.
  pose proof (del_fold_tensors _ _ _ DF) as T4.
  assert (SV : same_value tmp o2 VT o).
  { intros K L data x. rewrite (relabel_bonds_value ordB o1 _ o2 tmp data x Wo1 RB).
    exact (relabel_tensors_value_virtual ordT o next VT o1 tmp data x Wo RT Vo NDT Hlt HVord). }
  refine (mkStagesV n o joins _ vtn vto o2 tmp x2 n2 n3 amap n4 t4 Hvtn Hvto Wo2 DT DB HtmpV E2 Sx2 En2 W2 _ _ _ T4 _ _ SV).
  - exact JF.
  - rewrite <- T4. exact Ht4.
  - exact DF.
  - reflexivity.
  - intros j Hj. rewrite forallb_forall in FJ. specialize (FJ j Hj). rewrite !andb_true_iff in FJ.
    destruct FJ as [[A _] _]. apply Nat.ltb_lt in A. exact A.
Qed.

Lemma del_fold_keys D : forall n n4, ofold del_step D n = Some n4 -> dkeys (bonds n4) = dkeys (bonds n).
Proof.
  induction D as [|d D IH]; intros n n4 H; cbn [ofold] in H; [injection H as <-; reflexivity|].
  destruct (del_step n d) as [n1|] eqn:S; [|discriminate].
  destruct (del_step_spec n d n1 S) as [bid [b [_ [Eb [_ ->]]]]]. rewrite (IH _ _ H). cbn [bonds].
  apply dkeys_dset_in. eapply dget_Some_key; eauto.
Qed.

Lemma env_of_map keep y : NoDup keep -> length y = length keep -> map (env_of keep y) keep = y.
Proof.
  intros ND Ly. apply nth_error_ext_lemma. intros j. rewrite nth_error_map.
  destruct (nth_error keep j) as [i|] eqn:Ei; cbn [option_map].
  - unfold env_of. destruct (nindex_Some i keep (nth_error_In _ _ Ei)) as [p Hp]. rewrite Hp.
    apply nindex_sound in Hp.
    assert (p = j).
    { apply (proj1 (NoDup_nth_error keep) ND); [apply nth_error_Some; congruence | congruence]. }
    subst p. symmetry. apply nth_error_nth'. rewrite Ly. apply nth_error_Some. congruence.
  - symmetry. apply nth_error_None. rewrite Ly. apply nth_error_None. exact Ei.
Qed.

(* ------------------------------------------------------------------ merge = contraction over the joined axes *)
(** positions, in the concatenation (open axes of the first network, then those of the second), of
    the axes that occur in a join / that do not; ascending, each once *)
Definition joined_axes (no1 : nat) (joins : list (nat * nat)) (N : nat) : list nat :=
  filter (fun i => nmem i (join_axes no1 joins)) (seq 0 N).
Definition kept_axes (no1 : nat) (joins : list (nat * nat)) (N : nat) : list nat :=
  filter (fun i => negb (nmem i (join_axes no1 joins))) (seq 0 N).

Lemma kept_axes_alt no1 joins N :
  filter (fun i => negb (nmem i (joined_axes no1 joins N))) (seq 0 N) = kept_axes no1 joins N.
Proof.
  unfold kept_axes, joined_axes. apply filter_ext_in. intros i Hi. f_equal.
  destruct (nmem i (join_axes no1 joins)) eqn:E.
  - apply nmem_In. apply filter_In. split; assumption.
  - apply nmem_false. intros Hin. apply filter_In in Hin. destruct Hin as [_ Hin]. congruence.
Qed.

Section MergeValue.
  Context {K : Scalar} {L : ScalarLaws K}.
  Local Open Scope K_scope.
  Add Ring KringMV2 : (s_ring K L).
  Notation ksumN := (ksum (K:=K) Nat.eqb).

  (** the value of the merged network at the multi-index y of its open axes (the kept axes of n in
      order, then the kept axes of o) is the sum, over one index per joined axis (of either side),
      of  [product over the joins (a, b) of  delta (index of axis a of n) (index of axis b of o)]
          * value of n * value of o,
      where the indices of the kept axes are read from y.  The deltas identify the two axes of each
      join: for joins that use each axis once this is numpy.tensordot over the joined axes; an axis
      used by several joins is identified with all its partners (one summed index per connected
      group). *)
  Theorem merge_value n o joins ordT ordB n' (data : Z -> list nat -> K) y :
    WF n -> WF o -> merge n o joins ordT ordB = Some n' ->
    let no1 := length (vshape n) in
    let no2 := length (vshape o) in
    let Sh := vshape n ++ vshape o in
    let del := joined_axes no1 joins (no1 + no2) in
    let keep := kept_axes no1 joins (no1 + no2) in
    vshape n' = map (fun i => nth i Sh O) keep /\
    (length y = length keep ->
     defining_sum n' data y
     = ksumN (map (fun d => (d, nth d Sh O)) del)
         (fun e => lprod (map (fun j => delta (e (fst j)) (e (no1 + snd j)%nat)) joins)
                   * (defining_sum n data (map e (seq 0 no1)) * defining_sum o data (map e (seq no1 no2))))
         (env_of keep y)).
  Proof.
    intros Wn Wo H.
    pose proof (merge_joins_dim_ok n o joins ordT ordB n' H) as JD.
    pose proof (merge_WF n o joins ordT ordB n' Wn Wo H) as W'.
    destruct (merge_stages_val_intro n o joins ordT ordB n' Wn Wo H)
      as [vtn vto o2 tmp x2 n2 n3 amap n4 t3 Hvtn Hvto Wo2 DT DB HtmpV E2 Sx2 En2 W2 JF Ht3 DF T4 En Hr SV].
    assert (Evn : vshape n = t_shape vtn) by (unfold vshape; rewrite Hvtn; reflexivity).
    assert (Evo : vshape o = t_shape vto) by (unfold vshape; rewrite Hvto; reflexivity).
    cbv zeta. rewrite Evn, Evo.
    set (no1 := length (t_shape vtn)) in *. set (no2 := length (t_shape vto)).
    set (Sh := t_shape vtn ++ t_shape vto) in *.
    assert (LSh : length Sh = (no1 + no2)%nat) by (unfold Sh; rewrite app_length; reflexivity).
    rewrite LSh in JF, DF.
    assert (S2 : tshape n2 VT = Some Sh).
    { rewrite En2. unfold tshape. cbn [tensors]. rewrite dget_dset, Z.eqb_refl. cbn. rewrite Sx2. reflexivity. }
    assert (HJ : forall j, In j joins ->
               exists d, nth_error Sh (fst j) = Some d /\ nth_error Sh (no1 + snd j) = Some d).
    { intros j Hj. destruct (JD (t_shape vtn) (t_shape vto)) with (j := j) as [d [A B]];
        [unfold shape; rewrite Hvtn; reflexivity | unfold shape; rewrite Hvto; reflexivity | assumption |].
      exists d. unfold Sh. split.
      - rewrite nth_error_app1; [assumption|]. apply nth_error_Some. congruence.
      - rewrite nth_error_app2 by (unfold no1; lia). rewrite <- B. f_equal. unfold no1. lia. }
    destruct (join_fold_inv _ _ Sh _ _ _ _ W2 S2 HJ JF) as [W3 [S3 _]].
    destruct (join_fold_counts _ _ Sh _ _ _ _ W2 S2 HJ JF) as [_ [_ EA]].
    rewrite fold_rmj in EA by apply seq_NoDup. fold (kept_axes no1 joins (no1 + no2)) in EA.
    pose proof S3 as S3'. unfold tshape in S3'. rewrite Ht3 in S3'. cbn in S3'. injection S3' as S3'.
    pose proof (wf_T n3 W3 VT t3 (dget_In _ _ _ Ht3)) as [_ Hlen3].
    assert (LN : length (t_bids t3) = (no1 + no2)%nat) by congruence.
    set (N := (no1 + no2)%nat) in *.
    set (del := joined_axes no1 joins N). set (keep := kept_axes no1 joins N) in *.
    assert (NDkeep : NoDup keep) by (apply NoDup_filter, seq_NoDup).
    split.
    - rewrite En. unfold vshape. cbn [tensors]. rewrite dget_dset, Z.eqb_refl. cbn [sliced t_shape].
      rewrite S3', EA. reflexivity.
    - intros Ly. rewrite defining_sum_at.
      assert (NDdel : NoDup del) by (apply NoDup_filter, seq_NoDup).
      assert (Hdel : forall d, In d del -> (d < length (t_bids t3))%nat).
      { intros d Hd. apply filter_In in Hd. destruct Hd as [Hd _]. apply in_seq in Hd. lia. }
      pose proof (del_fold_keys _ _ _ DF) as K4.
      assert (W'' : WF0 (mkN (dset VT (sliced t3 (filter (fun i => negb (nmem i del)) (seq 0 (length (t_bids t3))))) (tensors n4)) (bonds n4))).
      { rewrite LN. unfold del. rewrite kept_axes_alt. fold keep. rewrite <- EA, <- En. apply W'. }
      pose proof (finish_value n3 t3 del n4 data (env_of keep y) W3 Ht3 NDdel Hdel T4 K4 W'') as FV.
      cbv zeta in FV. rewrite LN in FV. unfold del in FV at 2 3. rewrite kept_axes_alt in FV. fold keep in FV.
      rewrite (env_of_map keep y NDkeep Ly) in FV. rewrite S3' in FV. rewrite En, EA, <- FV.
      apply ksumN_ext_all. intros e.
      set (X := map e (seq 0 N)).
      assert (LX : length X = length Sh) by (unfold X; rewrite map_length, seq_length; congruence).
      rewrite (join_fold_value no1 joins Sh data X n2 _ n3 amap W2 S2 HJ JF LX).
      f_equal.
      + apply lprod_map_ext. intros j Hj. destruct (HJ j Hj) as [d [D1 D2]].
        assert (fst j < N)%nat by (rewrite <- LSh; apply nth_error_Some; congruence).
        assert (no1 + snd j < N)%nat by (rewrite <- LSh; apply nth_error_Some; congruence).
        unfold X. rewrite !nth_map_seq by assumption. reflexivity.
      + assert (EX : X = map e (seq 0 no1) ++ map e (seq no1 no2)).
        { unfold X, N. rewrite seq_app, map_app. reflexivity. }
        rewrite EX.
        pose proof (wf_T n (proj1 Wn) VT vtn (dget_In _ _ _ Hvtn)) as [_ Lvtn].
        rewrite (union_fuse_value n o2 tmp vtn x2 n2 data _ _ (proj1 Wn) Wo2 DT DB HtmpV Hvtn E2 En2 W2)
          by (rewrite map_length, seq_length; exact Lvtn).
        rewrite (SV K L data), <- !defining_sum_at. reflexivity.
  Qed.
End MergeValue.

(* ------------------------------------------------------------------ joins that use each axis once: numpy.tensordot *)
Lemma nindex_nth (l : list nat) r k : NoDup l -> nth_error l r = Some k -> nindex k l = Some r.
Proof.
  intros ND H. destruct (nindex_Some k l (nth_error_In _ _ H)) as [p Hp]. rewrite Hp. f_equal.
  apply nindex_sound in Hp. apply (proj1 (NoDup_nth_error l) ND); [apply nth_error_Some; congruence | congruence].
Qed.
Lemma map_seq_shift {A} (f : nat -> A) a len : map f (seq a len) = map (fun i => f (a + i)%nat) (seq 0 len).
Proof.
  revert a. induction len as [|len IH]; intros a; [reflexivity|]. cbn [seq map]. rewrite Nat.add_0_r. f_equal.
  rewrite IH, <- seq_shift, map_map. apply map_ext. intros i. f_equal. lia.
Qed.

Section TensorDot.
  Context {K : Scalar} {L : ScalarLaws K}.
  Local Open Scope K_scope.
  Add Ring KringMV3 : (s_ring K L).
  Notation ksumN := (ksum (K:=K) Nat.eqb).

  (** multi-index of the first operand: axis a_r of join r reads the summed index j r, a kept axis
      reads its entry of y; same for the second operand (its kept axes follow those of the first) *)
  Definition dot_idx1 (no1 : nat) (joins : list (nat * nat)) (e0 j : nat -> nat) : list nat :=
    map (fun ax => match nindex ax (map fst joins) with Some r => j r | None => e0 ax end) (seq 0 no1).
  Definition dot_idx2 (no1 no2 : nat) (joins : list (nat * nat)) (e0 j : nat -> nat) : list nat :=
    map (fun bx => match nindex bx (map snd joins) with Some r => j r | None => e0 (no1 + bx)%nat end) (seq 0 no2).

  Theorem merge_value_injective_joins n o joins ordT ordB n' (data : Z -> list nat -> K) y :
    WF n -> WF o -> merge n o joins ordT ordB = Some n' ->
    NoDup (map fst joins) -> NoDup (map snd joins) ->
    let no1 := length (vshape n) in
    let no2 := length (vshape o) in
    let keep := kept_axes no1 joins (no1 + no2) in
    length y = length keep ->
    defining_sum n' data y
    = ksumN (map (fun r => (r, nth (nth r (map fst joins) O) (vshape n) O)) (seq 0 (length joins)))
        (fun j => defining_sum n data (dot_idx1 no1 joins (env_of keep y) j)
                  * defining_sum o data (dot_idx2 no1 no2 joins (env_of keep y) j))
        (fun _ => O).
  Proof.
    intros Wn Wo H N1 N2 no1 no2 keep Ly.
    destruct (merge_value n o joins ordT ordB n' data y Wn Wo H) as [_ MV]. cbv zeta in MV.
    fold no1 no2 keep in MV. rewrite (MV Ly). clear MV.
    pose proof (merge_joins_dim_ok n o joins ordT ordB n' H) as JD.
    destruct (merge_stages_val_intro n o joins ordT ordB n' Wn Wo H)
      as [vtn vto _ _ _ _ _ _ _ _ Hvtn Hvto _ _ _ _ _ _ _ _ _ _ _ _ _ Hr _].
    assert (Evn : vshape n = t_shape vtn) by (unfold vshape; rewrite Hvtn; reflexivity).
    assert (Evo : vshape o = t_shape vto) by (unfold vshape; rewrite Hvto; reflexivity).
    set (Sh := vshape n ++ vshape o).
    set (A := map fst joins) in *. set (Bs := map snd joins) in *.
    set (B' := map (fun b => (no1 + b)%nat) Bs).
    set (e0 := env_of keep y).
    assert (HJ : forall j, In j joins -> (fst j < no1)%nat /\ (snd j < no2)%nat /\
                   nth (no1 + snd j) Sh O = nth (fst j) Sh O /\ nth (fst j) Sh O = nth (fst j) (vshape n) O).
    { intros j Hj. destruct (JD (t_shape vtn) (t_shape vto)) with (j := j) as [d [D1 D2]];
        [unfold shape; rewrite Hvtn; reflexivity | unfold shape; rewrite Hvto; reflexivity | assumption |].
      rewrite <- Evn in D1. rewrite <- Evo in D2.
      assert (fst j < no1)%nat by (apply nth_error_Some; congruence).
      assert (snd j < no2)%nat by (apply nth_error_Some; congruence).
      split; [assumption|]. split; [assumption|]. unfold Sh. rewrite app_nth2 by (fold no1; lia). rewrite app_nth1 by assumption.
      replace (no1 + snd j - length (vshape n))%nat with (snd j) by (fold no1; lia).
      split; [|reflexivity]. rewrite (nth_error_nth _ _ O D1), (nth_error_nth _ _ O D2). reflexivity. }
    assert (NB' : NoDup B').
    { unfold B'. apply FinFun.Injective_map_NoDup; [intros p q E; lia | exact N2]. }
    assert (HA : forall a, In a A -> (a < no1)%nat).
    { intros a Ha. apply in_map_iff in Ha. destruct Ha as [j [<- Hj]]. apply (HJ j Hj). }
    assert (HB' : forall k, In k B' -> (no1 <= k < no1 + no2)%nat).
    { intros k Hk. unfold B', Bs in Hk. rewrite map_map in Hk. apply in_map_iff in Hk. destruct Hk as [j [<- Hj]].
      destruct (HJ j Hj) as [_ [E _]]. lia. }
    assert (Dis : forall k, In k B' -> ~ In k A) by (intros k Hk Ha; specialize (HA k Ha); specialize (HB' k Hk); lia).
    (* 1. reorder the summed axes: those of the first operand, then those of the second *)
    assert (Pd : Permutation (joined_axes no1 joins (no1 + no2)) (A ++ B')).
    { apply NoDup_Permutation.
      - apply NoDup_filter, seq_NoDup.
      - apply NoDup_app_intro; [exact N1 | exact NB' | exact Dis].
      - intros k. unfold joined_axes. rewrite filter_In, nmem_In, in_seq, in_app_iff. unfold join_axes. rewrite in_flat_map. split.
        + intros [_ [j [Hj [E|[E|[]]]]]].
          * left. subst. apply in_map. exact Hj.
          * right. subst. unfold B', Bs. rewrite map_map. apply in_map_iff. exists j. auto.
        + intros [Ha|Hb].
          * split; [specialize (HA k Ha); lia|]. apply in_map_iff in Ha. destruct Ha as [j [<- Hj]]. exists j. split; [exact Hj | left; reflexivity].
          * split; [specialize (HB' k Hb); lia|]. unfold B', Bs in Hb. rewrite map_map in Hb. apply in_map_iff in Hb.
            destruct Hb as [j [<- Hj]]. exists j. split; [exact Hj | right; left; reflexivity]. }
    set (F := fun e : nat -> nat =>
                lprod (map (fun j => delta (K:=K) (e (fst j)) (e (no1 + snd j)%nat)) joins)
                * (defining_sum n data (map e (seq 0 no1)) * defining_sum o data (map e (seq no1 no2)))).
    assert (RF : resp F).
    { intros e e' He. unfold F. f_equal; [|f_equal; f_equal; apply map_ext; intros; apply He].
      apply lprod_map_ext. intros j _. rewrite !He. reflexivity. }
    set (kdf := fun l : list nat => map (fun d => (d, nth d Sh O)) l).
    assert (Kkeys : forall l, map fst (kdf l) = l) by (intros l; unfold kdf; rewrite map_map; cbn [fst]; apply map_id).
    match goal with |- _ = ?R => change (ksumN (kdf (joined_axes no1 joins (no1 + no2))) F e0 = R) end.
    rewrite (ksum_perm Nat.eqb neqb_eq (kdf (joined_axes no1 joins (no1 + no2))) (kdf (A ++ B')) F
               (Permutation_map _ Pd) ltac:(rewrite Kkeys; apply NoDup_filter, seq_NoDup) RF e0).
    replace (kdf (A ++ B')) with (kdf A ++ kdf B') by (unfold kdf; rewrite map_app; reflexivity). rewrite ksum_app.
    (* 2. the indices of the second operand's joined axes are forced by the deltas *)
    set (G := fun e : nat -> nat =>
                defining_sum n data (map e (seq 0 no1))
                * defining_sum o data (map (fun bx => match nindex bx Bs with
                                                       | Some r => e (nth r A O)
                                                       | None => e0 (no1 + bx)%nat end) (seq 0 no2))).
    rewrite (ksum_ext Nat.eqb neqb_eq (kdf A) _ G e0 ltac:(rewrite Kkeys; exact N1)).
    2:{ intros e [R1 R2].
        set (estar := fun k => match nindex k B' with Some r => e (nth r A O) | None => O end).
        assert (Hidx : forall r j, nth_error joins r = Some j ->
                  nth r A O = fst j /\ nindex (no1 + snd j)%nat B' = Some r /\ nindex (snd j) Bs = Some r).
        { intros r j Hrj. split; [|split].
          - unfold A. apply nth_error_nth. rewrite nth_error_map, Hrj. reflexivity.
          - apply nindex_nth; [exact NB'|]. unfold B', Bs. rewrite map_map, nth_error_map, Hrj. reflexivity.
          - apply nindex_nth; [exact N2|]. unfold Bs. rewrite nth_error_map, Hrj. reflexivity. }
        rewrite (ksum_single Nat.eqb neqb_eq (kdf B') estar F e ltac:(rewrite Kkeys; exact NB') RF).
        - (* the surviving term *)
          set (e' := over Nat.eqb (kdf B') estar e).
          assert (E1 : forall k, ~ In k B' -> e' k = e k).
          { intros k Hk. unfold e'. apply (over_out Nat.eqb neqb_eq). rewrite Kkeys. exact Hk. }
          assert (E2 : forall r j, nth_error joins r = Some j -> e' (no1 + snd j)%nat = e (fst j)).
          { intros r j Hrj. destruct (Hidx r j Hrj) as [I1 [I2 _]]. unfold e'.
            rewrite (over_in Nat.eqb neqb_eq) by (rewrite Kkeys; eapply nindex_sound, nth_error_In in I2; exact I2).
            unfold estar. rewrite I2, I1. reflexivity. }
          unfold F, G. rewrite lprod_ones.
          2:{ intros v Hv. apply in_map_iff in Hv. destruct Hv as [j [<- Hj]].
              destruct (In_nth_error _ _ Hj) as [r Hrj]. rewrite (E2 r j Hrj).
              rewrite E1 by (intros Hk; specialize (HB' _ Hk); destruct (HJ j Hj); lia). apply delta_eq. }
          rewrite kmul_1_l. f_equal; f_equal.
          + apply map_ext_in. intros ax Hax. apply in_seq in Hax. apply E1. intros Hk. specialize (HB' _ Hk). lia.
          + rewrite map_seq_shift. apply map_ext_in. intros bx Hbx. apply in_seq in Hbx.
            destruct (nindex bx Bs) as [r|] eqn:Eb.
            * apply nindex_sound in Eb. unfold Bs in Eb. rewrite nth_error_map in Eb.
              destruct (nth_error joins r) as [j|] eqn:Hrj; [|discriminate]. cbn in Eb. injection Eb as <-.
              rewrite (E2 r j Hrj). destruct (Hidx r j Hrj) as [I1 _]. rewrite I1. reflexivity.
            * apply nindex_None in Eb. rewrite E1.
              -- apply R1. rewrite Kkeys. intros Ha. specialize (HA _ Ha). lia.
              -- unfold B'. intros Hk. apply in_map_iff in Hk. destruct Hk as [b [Eq Hb]].
                 assert (b = bx) by lia. subst. contradiction.
        - (* the forced indices are in range *)
          intros k d Hkd. unfold kdf in Hkd. apply in_map_iff in Hkd. destruct Hkd as [k' [Eq Hk']]. injection Eq as -> <-.
          destruct (In_nth_error _ _ Hk') as [r Hr']. unfold B', Bs in Hr'. rewrite map_map, nth_error_map in Hr'.
          destruct (nth_error joins r) as [j|] eqn:Hrj; [|discriminate]. cbn in Hr'. injection Hr' as <-.
          destruct (Hidx r j Hrj) as [I1 [I2 _]]. unfold estar. rewrite I2, I1.
          destruct (HJ j (nth_error_In _ _ Hrj)) as [_ [_ [Ed _]]]. rewrite Ed.
          apply (R2 (fst j) (nth (fst j) Sh O)). unfold kdf. apply in_map_iff. exists (fst j). split; [reflexivity|].
          unfold A. apply in_map. eapply nth_error_In; eauto.
        - (* every other term vanishes *)
          intros e1 [Q1 _] [k [Hk Hne]]. rewrite Kkeys in Hk, Q1.
          destruct (In_nth_error _ _ Hk) as [r Hr']. unfold B', Bs in Hr'. rewrite map_map, nth_error_map in Hr'.
          destruct (nth_error joins r) as [j|] eqn:Hrj; [|discriminate]. cbn in Hr'. injection Hr' as <-.
          destruct (Hidx r j Hrj) as [I1 [I2 _]]. unfold estar in Hne. rewrite I2, I1 in Hne.
          unfold F. rewrite (lprod_zero (map _ joins)); [ring|].
          apply in_map_iff. exists j. split; [|eapply nth_error_In; eauto].
          rewrite (Q1 (fst j)) by (intros Hk'; specialize (HB' _ Hk'); destruct (HJ j (nth_error_In _ _ Hrj)); lia).
          apply delta_neq. congruence. }
    (* 3. key the remaining sum by the number of the join instead of the axis *)
    set (Rel := fun (e j : nat -> nat) => (forall r, (r < length joins)%nat -> e (nth r A O) = j r) /\
                                           (forall k, ~ In k A -> e k = e0 k)).
    assert (LA : length A = length joins) by (unfold A; apply map_length).
    apply (ksum_rel Nat.eqb Nat.eqb Rel).
    - unfold kdf. rewrite <- (map_nth_seq A O) at 1. rewrite map_map, LA.
      apply Forall2_map_same. intros r Hr'. apply in_seq in Hr'. cbn [fst snd].
      assert (Har : In (nth r A O) A) by (apply nth_In; lia).
      split.
      + apply in_map_iff in Har. destruct Har as [j [Ej Hj]]. rewrite <- Ej. apply (HJ j Hj).
      + intros e j v [R1 R2]. split.
        * intros r' Hr''. unfold upd. destruct (Nat.eqb_spec r' r).
          -- subst. rewrite Nat.eqb_refl. reflexivity.
          -- destruct (Nat.eqb_spec (nth r' A O) (nth r A O)) as [E|E]; [|apply R1; exact Hr''].
             exfalso. apply n0. apply (proj1 (NoDup_nth_error A) N1); [lia|].
             rewrite !(nth_error_nth' A O) by lia. congruence.
        * intros k Hk. unfold upd. destruct (Nat.eqb_spec k (nth r A O)); [subst; contradiction | apply R2; exact Hk].
    - intros e j [R1 R2]. unfold G, dot_idx1, dot_idx2. fold A Bs e0. f_equal; f_equal.
      + apply map_ext_in. intros ax _. destruct (nindex ax A) as [r|] eqn:Ea.
        * pose proof (nindex_sound _ _ _ Ea) as Hn. rewrite <- (R1 r) by (rewrite <- LA; apply nth_error_Some; congruence).
          rewrite (nth_error_nth _ _ O Hn). reflexivity.
        * apply R2. apply nindex_None. exact Ea.
      + apply map_ext_in. intros bx _. destruct (nindex bx Bs) as [r|] eqn:Eb; [|reflexivity].
        apply R1. apply nindex_sound in Eb. unfold Bs in Eb. rewrite <- (map_length snd joins). apply nth_error_Some. congruence.
    - split.
      + intros r Hr'. unfold e0, env_of. replace (nindex (nth r A O) keep) with (@None nat); [reflexivity|].
        symmetry. apply nindex_None. unfold keep, kept_axes. rewrite filter_In, negb_true_iff, nmem_false.
        intros [_ Hn]. apply Hn. unfold join_axes. apply in_flat_map.
        assert (Har : In (nth r A O) A) by (apply nth_In; lia).
        apply in_map_iff in Har. destruct Har as [j [Ej Hj]]. exists j. split; [exact Hj | left; exact Ej].
      + intros k _. reflexivity.
  Qed.
End TensorDot.

(* ------------------------------------------------------------------ the data dictionaries *)
(** TensorNetwork.merge: the data dictionary of the result is the union of the two (a clash with
    different entries is refused), i.e. it agrees with the first dictionary on the references of the
    first network's tensors and with the second on those of the second *)
Section MergeData.
  Context {K : Scalar} {L : ScalarLaws K}.
  Local Open Scope K_scope.
  Notation ksumN := (ksum (K:=K) Nat.eqb).

  Definition data_agree (n : net) (d d' : Z -> list nat -> K) : Prop :=
    forall t, In t (real_tensors n) -> forall idx, d (t_ref t) idx = d' (t_ref t) idx.

  Lemma defining_sum_data_ext n (d d' : Z -> list nat -> K) x : data_agree n d d' ->
    defining_sum n d x = defining_sum n d' x.
  Proof.
    intros H. unfold defining_sum. apply ksum_ext_all. intros s. f_equal. apply lprod_map_ext. intros t Ht. apply H. exact Ht.
  Qed.

  Theorem merge_value_data n o joins ordT ordB n' (d1 d2 d' : Z -> list nat -> K) y :
    WF n -> WF o -> merge n o joins ordT ordB = Some n' -> data_agree n d' d1 -> data_agree o d' d2 ->
    let no1 := length (vshape n) in
    let no2 := length (vshape o) in
    let Sh := vshape n ++ vshape o in
    let del := joined_axes no1 joins (no1 + no2) in
    let keep := kept_axes no1 joins (no1 + no2) in
    length y = length keep ->
    defining_sum n' d' y
    = ksumN (map (fun d => (d, nth d Sh O)) del)
        (fun e => lprod (map (fun j => delta (e (fst j)) (e (no1 + snd j)%nat)) joins)
                  * (defining_sum n d1 (map e (seq 0 no1)) * defining_sum o d2 (map e (seq no1 no2))))
        (env_of keep y).
  Proof.
    intros Wn Wo H A1 A2 no1 no2 Sh del keep Ly.
    destruct (merge_value n o joins ordT ordB n' d' y Wn Wo H) as [_ MV]. cbv zeta in MV.
    rewrite (MV Ly). apply ksumN_ext_all. intros e.
    rewrite (defining_sum_data_ext n d' d1 _ A1), (defining_sum_data_ext o d' d2 _ A2). reflexivity.
  Qed.
End MergeData.
