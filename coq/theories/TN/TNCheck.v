(** Case types and checkers for the C07 / C08 correspondence runs (vm_compute, ZI instance). *)
From Qib Require Export TN.TNTree TN.TNTreeCheckDef Base.Inst.
Local Open Scope Z_scope.

Definition tdesc := (Z * (Z * list nat * list Z * Z))%type.   (* key, (tid, shape, bids, dataref code) *)
Definition bdesc := (Z * (Z * list Z))%type.                   (* key, (bid, tids) *)
Definition ndesc := (list tdesc * list bdesc)%type.

Definition mk_net (d : ndesc) : net :=
  mkN (map (fun x => let '(k, (i, s, b, r)) := x in (k, mkT i s b r)) (fst d))
      (map (fun x => let '(k, (i, t)) := x in (k, mkB i t)) (snd d)).
Definition un_net (n : net) : ndesc :=
  (map (fun kt => (fst kt, (t_id (snd kt), t_shape (snd kt), t_bids (snd kt), t_ref (snd kt)))) (tensors n),
   map (fun kb => (fst kb, (b_id (snd kb), b_tids (snd kb)))) (bonds n)).

Definition leqb_n := list_eqb Nat.eqb.
Definition leqb_z := list_eqb Z.eqb.
Definition tdesc_eqb (a b : tdesc) : bool :=
  let '(k, (i, s, bi, r)) := a in let '(k', (i', s', bi', r')) := b in
  Z.eqb k k' && Z.eqb i i' && leqb_n s s' && leqb_z bi bi' && Z.eqb r r'.
Definition bdesc_eqb (a b : bdesc) : bool :=
  let '(k, (i, t)) := a in let '(k', (i', t')) := b in Z.eqb k k' && Z.eqb i i' && leqb_z t t'.
Definition ndesc_eqb (a b : ndesc) : bool :=
  list_eqb tdesc_eqb (fst a) (fst b) && list_eqb bdesc_eqb (snd a) (snd b).

(* ------------------------------------------------------------------ data *)
Definition dtable := list (Z * (list nat * list (Z * Z))).
Fixpoint ravel (shp idx : list nat) (acc : nat) : nat :=
  match shp, idx with
  | d :: s, i :: r => ravel s r (acc * d + i)
  | _, _ => acc
  end.
Definition data_fn (tb : dtable) : Z -> list nat -> ZI :=
  fun ref idx => match dget ref tb with
                 | Some (shp, flat) => nth (ravel shp idx O) flat (0, 0)
                 | None => (0, 0)
                 end.
(** all multi-indices of a shape in row-major (C) order *)
Fixpoint all_idx (shp : list nat) : list (list nat) :=
  match shp with
  | [] => [[]]
  | d :: s => flat_map (fun i => map (cons i) (all_idx s)) (seq 0 d)
  end.
Definition dense_of (tv : @tval ZI) : list nat * list (Z * Z) := (fst tv, map (snd tv) (all_idx (fst tv))).
Definition dense_eqb (a b : list nat * list (Z * Z)) : bool :=
  leqb_n (fst a) (fst b) && list_eqb zi_eqb (snd a) (snd b).

Definition opt_eqb {A} (f : A -> A -> bool) (a b : option A) : bool :=
  match a, b with Some x, Some y => f x y | None, None => true | _, _ => false end.

(* ------------------------------------------------------------------ C08: operation sequences *)
Inductive op :=
| ORenT (a c : Z)
| ORenB (a c : Z)
| OTrans (axes : list Z)
| OMerge (o : ndesc) (joins : list (nat * nat)) (ordT ordB : list Z).

Definition step (n : net) (o : op) : option net :=
  match o with
  | ORenT a c => rename_tensor n a c
  | ORenB a c => rename_bond n a c
  | OTrans axes => transpose n axes
  | OMerge d joins ordT ordB => merge n (mk_net d) joins ordT ordB
  end.

(** observation after a step: None = refused (state unchanged), else the state, the answer
    of is_consistent and (num_tensors, num_bonds, num_open_axes) *)
Definition obs := option (ndesc * bool * (nat * nat * nat)).

Definition counts (n : net) : nat * nat * nat :=
  (match num_tensors n with Some k => k | None => O end, num_bonds n,
   match num_open_axes n with Some k => k | None => O end).

Definition obs_ok (r : option net) (o : obs) : bool :=
  match r, o with
  | None, None => true
  | Some n, Some (d, c, k) =>
      ndesc_eqb (un_net n) d && Bool.eqb (is_consistent n) c && Bool.eqb (wf_b n) c
      && (let '(a1, b1, c1) := counts n in let '(a2, b2, c2) := k in
          Nat.eqb a1 a2 && Nat.eqb b1 b2 && Nat.eqb c1 c2)
  | _, _ => false
  end.

Fixpoint run_steps (n : net) (l : list (op * obs)) : bool * net :=
  match l with
  | [] => (true, n)
  | (o, ob) :: r =>
      let res := step n o in
      if obs_ok res ob then run_steps (match res with Some n' => n' | None => n end) r
      else (false, n)
  end.

(** dense defining sum of a network on a data table *)
Definition net_dense (n : net) (tb : dtable) : list nat * list (Z * Z) :=
  let shp := match shape n with Some s => s | None => [] end in
  dense_of (shp, defining_sum (K:=ZI) n (data_fn tb)).

(** the exact incidence invariant, as a boolean (TNWF.v proves what it implies) *)
(* ------------------------------------------------------------------ C07 *)
Fixpoint tree_eqb (a b : tree) : bool :=
  match a, b with
  | TLeaf i o x k, TLeaf i' o' x' k' =>
      Z.eqb i i' && leqb_n o o' && list_eqb legeqb x x' && leqb_n k k'
  | TNode i l xl r xr o x k, TNode i' l' xl' r' xr' o' x' k' =>
      Z.eqb i i' && tree_eqb l l' && leqb_n xl xl' && tree_eqb r r' && leqb_n xr xr'
      && leqb_n o o' && list_eqb legeqb x x' && leqb_n k k'
  | _, _ => false
  end.

Definition eargs_eqb (E : einsum_args) (o : list Z * list (list nat) * list nat * list nat) : bool :=
  let '(tids, tidx, out, amap) := o in
  leqb_z (e_tids E) tids && list_eqb leqb_n (e_tidx E) tidx && leqb_n (e_out E) out && leqb_n (e_amap E) amap.

Inductive case :=
(** initial network (must answer [consistent0]), steps with observations, data, dense value of
    the final network as the implementation contracts it *)
| CSeq (n0 : ndesc) (consistent0 : bool) (steps : list (op * obs)) (tb : dtable)
       (final : option (list nat * list (Z * Z)))
(** as_einsum, contract_einsum (compressed tensor), and the dense tensor *)
| CEin (n : ndesc) (tb : dtable)
       (args : option (list Z * list (list nat) * list nat * list nat))
       (val : option (list nat * list (Z * Z)))
       (dense : option (list nat * list (Z * Z)))
(** contract_tree: the tree as permuted by contract_tree, axes_map, compressed root tensor;
    [dense] is the dense tensor of the network (validated against the defining sum by CEin) *)
| CTree (n : ndesc) (tb : dtable) (s : scaffold)
        (res : option (tree * list nat * (list nat * list (Z * Z))))
        (dense : option (list nat * list (Z * Z)))
(** the unpermuted tree built by build_contraction_tree *)
| CBuild (n : ndesc) (s : scaffold) (res : option tree)
(** ContractionTreeNode.permute_axes on the node reached by [path] (true = left child) *)
| CPerm (t : tree) (path : list bool) (p : list nat) (res : option tree)
(** the verified checker (TNTreeCheck.check_root_sound) on a tree, e.g. after permute_axes *)
| CChk (n : ndesc) (t : tree) (amap : list nat) (expect : bool).

Definition check (c : case) : bool :=
  match c with
  | CSeq d c0 steps tb final =>
      let n0 := mk_net d in
      Bool.eqb (is_consistent n0) c0 && Bool.eqb (wf_b n0) c0 &&
      (let '(ok, n) := run_steps n0 steps in
       ok && match final with
             | None => true
             | Some f => dense_eqb (net_dense n tb) f
             end)
  | CEin d tb args val dense =>
      let n := mk_net d in
      match as_einsum n, args with Some E, Some o => eargs_eqb E o | None, None => true | _, _ => false end
      (* the functional form agrees with the port on this network (when it is consistent) *)
      && (negb (wf_b n) || match as_einsum_spec n, args with Some E, Some o => eargs_eqb E o | None, None => true | _, _ => false end)
      && match contract_einsum (K:=ZI) n (data_fn tb), val with
         | None, None => true
         | Some (v, amap), Some w =>
             dense_eqb (dense_of v) w
             && match dense with
                | None => true
                | Some f => dense_eqb (dense_of (to_full_tensor v amap)) f && dense_eqb (net_dense n tb) f
                end
         | _, _ => false
         end
  | CTree d tb s res dense =>
      let n := mk_net d in
      match contract_tree (K:=ZI) n (data_fn tb) s, res with
      | None, None => true
      | Some r, Some (t, amap, w) =>
          tree_eqb (r_tree r) t && leqb_n (r_amap r) amap && dense_eqb (dense_of (r_val r)) w
          && match dense with
             | None => true
             | Some f => dense_eqb (dense_of (to_full_tensor (r_val r) (r_amap r))) f
                         (* translation validation: the verified checker accepts this tree *)
                         && check_root n (r_tree r) (r_amap r)
             end
      | _, _ => false
      end
  | CBuild d s res => opt_eqb tree_eqb (build_contraction_tree (mk_net d) s) res
  | CPerm t path p res => opt_eqb tree_eqb (permute_axes t path p) res
  | CChk d t amap expect => Bool.eqb (check_root (mk_net d) t amap) expect
  end.

Definition bad_cases (cs : list (nat * case)) : list nat :=
  map fst (filter (fun c => negb (check (snd c))) cs).
