(** Counts of tensors, bonds and open axes under network surgery. *)
From Qib Require Export TN.TNProofs.
From Coq Require Import Permutation.
Local Open Scope Z_scope.

Lemma dset_length_in {V} (d : dict V) k v : In k (dkeys d) -> length (dset k v d) = length d.
Proof.
  intros H. pose proof (dkeys_dset_in k v d H) as E. apply (f_equal (@length Z)) in E.
  unfold dkeys in E. rewrite !map_length in E. exact E.
Qed.
Lemma dpop_length {V} (d : dict V) k : NoDup (dkeys d) -> In k (dkeys d) -> S (length (dpop k d)) = length d.
Proof.
  intros ND H. induction d as [|[k' x] d IH]; [destruct H|]. cbn. inversion ND; subst.
  destruct (Z.eqb_spec k k'); [reflexivity|]. cbn. f_equal. apply IH; [assumption|].
  destruct H as [H|H]; [cbn in H; congruence | assumption].
Qed.

Lemma num_open_axes_tshape n : num_open_axes n = option_map (@length nat) (tshape n VT).
Proof. unfold num_open_axes, tshape. destruct (dget VT (tensors n)); reflexivity. Qed.

Lemma num_tensors_WF n : WF n -> num_tensors n = Some (length (tensors n) - 1)%nat.
Proof. intros [_ HV]. unfold num_tensors. apply dhas_In in HV. rewrite HV. reflexivity. Qed.

Theorem rename_tensor_counts n a c n' : WF n -> rename_tensor n a c = Some n' ->
  num_tensors n' = num_tensors n /\ num_bonds n' = num_bonds n /\ num_open_axes n' = num_open_axes n.
Proof.
  intros W H. pose proof (sstep_WF n (SRenT a c) n' W I H) as W'.
  destruct (rename_tensor_pub n a c n' H) as [Ha Hp]. clear H. rename Hp into H.
  destruct W as [W0 HV]. destruct (rename_tensor_len n a c n' W0 H) as [LT LB].
  rewrite (num_tensors_WF n' W'), (num_tensors_WF n (conj W0 HV)), !num_open_axes_tshape.
  unfold num_bonds. rewrite LT, LB. split; [reflexivity|]. split; [reflexivity|].
  rewrite (tshape_rename_tensor n a c n' VT W0 H).
  destruct (rename_tensor_keys n a c n' W0 H) as [_ [Hc _]].
  destruct (Z.eqb_spec VT c); [subst; contradiction|]. destruct (Z.eqb_spec VT a); [congruence | reflexivity].
Qed.

Theorem rename_bond_counts n a c n' : WF n -> rename_bond n a c = Some n' ->
  num_tensors n' = num_tensors n /\ num_bonds n' = num_bonds n /\ num_open_axes n' = num_open_axes n.
Proof.
  intros W H. pose proof (sstep_WF n (SRenB a c) n' W I H) as W'.
  destruct W as [W0 HV]. destruct (rename_bond_len n a c n' W0 H) as [LT LB].
  rewrite (num_tensors_WF n' W'), (num_tensors_WF n (conj W0 HV)), !num_open_axes_tshape.
  unfold num_bonds. rewrite LT, LB, (tshape_rename_bond n a c n' VT W0 H). auto.
Qed.

Theorem transpose_counts n axes n' : WF n -> transpose n axes = Some n' ->
  num_tensors n' = num_tensors n /\ num_bonds n' = num_bonds n /\ num_open_axes n' = num_open_axes n.
Proof.
  intros W H. pose proof (sstep_WF n (STrans axes) n' W I H) as W'.
  pose proof (transpose_is_perm n axes n' (proj1 W) H) as P.
  rewrite (num_tensors_WF n' W'), (num_tensors_WF n W).
  destruct W as [W0 HV]. destruct (transpose_spec n axes n' H) as [t [Ht [_ [_ ->]]]].
  unfold num_bonds, num_open_axes. cbn [tensors bonds]. rewrite dset_length_in by assumption.
  split; [reflexivity|]. split; [reflexivity|]. rewrite dget_dset, Z.eqb_refl, Ht. cbn. f_equal.
  unfold t_ndim. cbn. rewrite map_length. unfold is_perm_of, vbids in P. rewrite Ht in P.
  apply Permutation_length in P. rewrite seq_length in P.
  destruct (wf_T n W0 VT t (dget_In _ _ _ Ht)) as [_ L]. lia.
Qed.

(* ------------------------------------------------------------------ merge *)
Definition rmj (norig : nat) (a : list nat) (j : nat * nat) : list nat := rm1 (norig + snd j) (rm1 (fst j) a).

Lemma join_fold_counts norig joins Sh : forall n amap n' amap',
  WF0 n -> tshape n VT = Some Sh ->
  (forall j, In j joins -> exists d, nth_error Sh (fst j) = Some d /\ nth_error Sh (norig + snd j) = Some d) ->
  ofold (join_step norig) joins (n, amap) = Some (n', amap') ->
  length (tensors n') = length (tensors n) /\
  (length (bonds n') <= length (bonds n) <= length (bonds n') + length joins)%nat /\
  amap' = fold_left (rmj norig) joins amap.
Proof.
  induction joins as [|j joins IH]; intros n amap n' amap' W HS HJ H.
  - cbn in H. injection H as <- <-. cbn. split; [reflexivity|]. split; [lia | reflexivity].
  - cbn [ofold] in H. destruct (join_step norig (n, amap) j) as [[n1 amap1]|] eqn:J; [|discriminate].
    destruct (join_step_inv _ _ _ _ _ _ Sh W HS (HJ j (or_introl eq_refl)) J) as [W1 [S1 _]].
    destruct (IH n1 amap1 n' amap' W1 S1 (fun j' Hj' => HJ j' (or_intror Hj')) H) as [LT [LB EA]].
    unfold join_step in J.
    destruct (nth_error (vbids n) (fst j)) as [b1|]; [|discriminate].
    destruct (nth_error (vbids n) (norig + snd j)) as [b2|]; [|discriminate].
    destruct (merge_bonds n b1 b2) as [n1'|] eqn:M; [|discriminate]. injection J as <- <-.
    cbn [fold_left length]. fold (rm1 (fst j) amap) in EA. fold (rm1 (norig + snd j) (rm1 (fst j) amap)) in EA.
    destruct (Z.eq_dec b1 b2) as [->|Hne].
    + unfold merge_bonds in M. rewrite Z.eqb_refl in M. injection M as <-.
      split; [assumption|]. split; [lia | exact EA].
    + destruct (merge_bonds_spec n b1 b2 n1' W Hne M) as [y1 [y2 [F1 [F2 ->]]]]. cbn [tensors bonds] in *.
      rewrite upd_all_length in LT.
      assert (L : Datatypes.S (length (dset b1 (set_btids y1 (zsort (b_tids y1 ++ b_tids y2))) (dpop b2 (bonds n)))) = length (bonds n)).
      { rewrite dset_length_in.
        - apply dpop_length; [apply (wf_ndB n W) | eapply dget_Some_key; eauto].
        - rewrite dkeys_dpop by apply (wf_ndB n W). apply filter_In. split; [eapply dget_Some_key; eauto|].
          apply negb_true_iff, Z.eqb_neq. assumption. }
      split; [assumption|]. split; [lia | exact EA].
Qed.

Lemma del_fold_bond_len D : forall n n4, ofold del_step D n = Some n4 -> length (bonds n4) = length (bonds n).
Proof.
  induction D as [|d D IH]; intros n n4 H; cbn [ofold] in H; [injection H as <-; reflexivity|].
  destruct (del_step n d) as [n1|] eqn:S; [|discriminate].
  destruct (del_step_spec n d n1 S) as [bid [b [_ [Eb [_ ->]]]]]. rewrite (IH _ _ H). cbn [bonds].
  apply dset_length_in. eapply dget_Some_key; eauto.
Qed.

Lemma filter_all_true {A} (f : A -> bool) l : (forall x, In x l -> f x = true) -> filter f l = l.
Proof.
  induction l as [|x l IH]; intros H; [reflexivity|]. cbn. rewrite (H x (or_introl eq_refl)). f_equal.
  apply IH. intros y Hy. apply H. right. exact Hy.
Qed.
Lemma rm1_filter x l : NoDup l -> rm1 x l = filter (fun y => negb (Nat.eqb y x)) l.
Proof.
  unfold rm1. induction 1 as [|z l Hz ND IH]; [reflexivity|]. cbn.
  destruct (Nat.eqb_spec z x).
  - subst. cbn. symmetry. apply filter_all_true.
    intros y Hy. destruct (Nat.eqb_spec y x); [subst; contradiction | reflexivity].
  - cbn. destruct (nremove1 x l); cbn; f_equal; exact IH.
Qed.
Lemma filter_filter {A} (f g : A -> bool) l : filter f (filter g l) = filter (fun x => g x && f x) l.
Proof. induction l as [|x l IH]; [reflexivity|]. cbn. destruct (g x); cbn; [destruct (f x)|]; rewrite IH; reflexivity. Qed.

(** the axes removed by the joins *)
Definition join_axes (norig : nat) (joins : list (nat * nat)) : list nat :=
  flat_map (fun j => [fst j; (norig + snd j)%nat]) joins.

Lemma fold_rmj norig joins : forall a, NoDup a ->
  fold_left (rmj norig) joins a = filter (fun i => negb (nmem i (join_axes norig joins))) a.
Proof.
  induction joins as [|j joins IH]; intros a ND; cbn [fold_left join_axes flat_map].
  - symmetry. apply filter_all_true. reflexivity.
  - rewrite IH by (unfold rmj; apply rm1_nodup, rm1_nodup; assumption).
    unfold rmj. rewrite (rm1_filter (norig + snd j)) by (apply rm1_nodup; assumption).
    rewrite (rm1_filter (fst j)) by assumption. rewrite !filter_filter. apply filter_ext. intros i.
    cbn [app nmem existsb]. fold (nmem i (join_axes norig joins)). unfold join_axes.
    destruct (Nat.eqb i (fst j)), (Nat.eqb i (norig + snd j)); cbn; try reflexivity.
    all: destruct (nmem i (flat_map _ joins)); reflexivity.
Qed.

Lemma join_axes_nodup norig joins :
  NoDup (map fst joins) -> NoDup (map snd joins) -> (forall j, In j joins -> (fst j < norig)%nat) ->
  NoDup (join_axes norig joins) /\
  (forall x, In x (join_axes norig joins) -> In x (map fst joins) \/ exists y, In y (map snd joins) /\ x = (norig + y)%nat).
Proof.
  induction joins as [|j joins IH]; intros N1 N2 Hr; cbn [join_axes flat_map map app].
  - split; [constructor | intros x []].
  - inversion N1; subst. inversion N2; subst.
    destruct (IH H2 H4 (fun j' Hj' => Hr j' (or_intror Hj'))) as [ND Sub].
    assert (Sub' : forall x, In x (join_axes norig (j :: joins)) ->
                   In x (map fst (j :: joins)) \/ exists y, In y (map snd (j :: joins)) /\ x = (norig + y)%nat).
    { intros x [<-|[<-|Hx]]; [left; left; reflexivity | right; exists (snd j); split; [left; reflexivity | reflexivity]|].
      destruct (Sub x Hx) as [A|[y [A B]]]; [left; right; assumption | right; exists y; split; [right; assumption | assumption]]. }
    split; [|exact Sub'].
    constructor; [|constructor; [|exact ND]].
    + intros [E|Hx].
      * specialize (Hr j (or_introl eq_refl)). lia.
      * destruct (Sub _ Hx) as [A|[y [A B]]]; [contradiction|]. specialize (Hr j (or_introl eq_refl)). lia.
    + intros Hx. destruct (Sub _ Hx) as [A|[y [A B]]].
      * apply in_map_iff in A. destruct A as [j' [E Hj']]. specialize (Hr j' (or_intror Hj')). lia.
      * assert (y = snd j) by lia. subst. contradiction.
Qed.

Theorem merge_counts n o joins ordT ordB n' :
  WF n -> WF o -> merge n o joins ordT ordB = Some n' ->
  forall nt1 nt2 no1 no2, num_tensors n = Some nt1 -> num_tensors o = Some nt2 ->
    num_open_axes n = Some no1 -> num_open_axes o = Some no2 ->
  num_tensors n' = Some (nt1 + nt2)%nat /\
  (num_bonds n' <= num_bonds n + num_bonds o <= num_bonds n' + length joins)%nat /\
  (** joins that use every open axis at most once *)
  (NoDup (map fst joins) -> NoDup (map snd joins) ->
   num_open_axes n' = Some (no1 + no2 - 2 * length joins)%nat).
Proof.
  intros Wn Wo H nt1 nt2 no1 no2 Hnt1 Hnt2 Hno1 Hno2.
  pose proof (merge_joins_dim_ok n o joins ordT ordB n' H) as JD.
  pose proof (merge_WF n o joins ordT ordB n' Wn Wo H) as W'.
  destruct (merge_stages_intro n o joins ordT ordB n' Wn Wo H)
    as [vtn vto o2 tmp x2 n2 n3 amap n4 t3 Hvtn Hvto Wo2 LT2 LB2 DT DB HtmpV E2 Sx2 En2 W2 JF Ht3 DF T4 En Hr].
  set (Sh := t_shape vtn ++ t_shape vto) in *.
  assert (S2 : tshape n2 VT = Some Sh).
  { rewrite En2. unfold tshape. cbn [tensors]. rewrite dget_dset, Z.eqb_refl. cbn. rewrite Sx2. reflexivity. }
  assert (HJ : forall j, In j joins ->
             exists d, nth_error Sh (fst j) = Some d /\ nth_error Sh (length (t_shape vtn) + snd j) = Some d).
  { intros j Hj. destruct (JD (t_shape vtn) (t_shape vto)) with (j := j) as [d [A B]];
      [unfold shape; rewrite Hvtn; reflexivity | unfold shape; rewrite Hvto; reflexivity | assumption |].
    exists d. unfold Sh. split.
    - rewrite nth_error_app1; [assumption|]. apply nth_error_Some. congruence.
    - rewrite nth_error_app2 by lia. rewrite <- B. f_equal. lia. }
  assert (Hr2 : forall j, In j joins -> (snd j < length (t_shape vto))%nat).
  { intros j Hj. destruct (JD (t_shape vtn) (t_shape vto)) with (j := j) as [d [_ B]];
      [unfold shape; rewrite Hvtn; reflexivity | unfold shape; rewrite Hvto; reflexivity | assumption |].
    apply nth_error_Some. congruence. }
  destruct (join_fold_counts _ _ Sh _ _ _ _ W2 S2 HJ JF) as [LT3 [LB3 EA]].
  pose proof (del_fold_bond_len _ _ _ DF) as LB4.
  destruct Wn as [Wn0 HVn]. destruct Wo as [Wo0 HVo].
  rewrite (num_tensors_WF n (conj Wn0 HVn)) in Hnt1. rewrite (num_tensors_WF o (conj Wo0 HVo)) in Hnt2.
  injection Hnt1 as <-. injection Hnt2 as <-.
  assert (LnT : (1 <= length (tensors n))%nat).
  { apply (in_map fst) in Hvtn || idtac. destruct (tensors n); [destruct HVn | cbn; lia]. }
  assert (LoT : (1 <= length (tensors o))%nat) by (destruct (tensors o); [destruct HVo | cbn; lia]).
  (* sizes of n2 *)
  assert (HtmpIn : In tmp (dkeys (tensors n ++ tensors o2))).
  { rewrite dkeys_app. apply in_or_app. right. eapply dget_Some_key; eauto. }
  assert (NDu : NoDup (dkeys (tensors n ++ tensors o2))).
  { rewrite dkeys_app. apply NoDup_app_intro; [apply (wf_ndT n Wn0) | apply (wf_ndT o2 Wo2) | assumption]. }
  assert (L2T : Datatypes.S (length (tensors n2)) = (length (tensors n) + length (tensors o))%nat).
  { rewrite En2. cbn [tensors]. rewrite dset_length_in.
    - rewrite (dpop_length _ tmp NDu HtmpIn). rewrite app_length. lia.
    - rewrite dkeys_dpop by assumption. apply filter_In. split.
      + rewrite dkeys_app. apply in_or_app. left. assumption.
      + apply negb_true_iff, Z.eqb_neq. assumption. }
  assert (L2B : length (bonds n2) = (length (bonds n) + length (bonds o))%nat).
  { rewrite En2. cbn [bonds]. rewrite upd_all_length, app_length. lia. }
  rewrite (num_tensors_WF n' W'). subst n'. unfold num_bonds. cbn [tensors bonds].
  rewrite dset_length_in by (rewrite T4; eapply dget_Some_key; eauto). rewrite T4.
  split; [f_equal; lia|]. split; [lia|].
  intros N1 N2.
  rewrite num_open_axes_tshape. unfold tshape. cbn [tensors]. rewrite dget_dset, Z.eqb_refl. cbn.
  rewrite map_length. f_equal.
  unfold num_open_axes in Hno1, Hno2. rewrite Hvtn in Hno1. rewrite Hvto in Hno2. cbn in Hno1, Hno2.
  injection Hno1 as <-. injection Hno2 as <-. unfold t_ndim in *.
  rewrite EA, fold_rmj by apply seq_NoDup.
  destruct (join_axes_nodup (length (t_shape vtn)) joins N1 N2 Hr) as [NDR SubR].
  pose proof (split_perm (join_axes (length (t_shape vtn)) joins) (length Sh) NDR) as P.
  assert (HR : forall i, In i (join_axes (length (t_shape vtn)) joins) -> (i < length Sh)%nat).
  { intros i Hi. unfold Sh. rewrite app_length. destruct (SubR i Hi) as [A|[y [A B]]].
    - apply in_map_iff in A. destruct A as [j [<- Hj]]. specialize (Hr j Hj). lia.
    - apply in_map_iff in A. destruct A as [j [<- Hj]]. specialize (Hr2 j Hj). lia. }
  specialize (P HR). apply Permutation_length in P. rewrite app_length, seq_length in P.
  assert (LR : length (join_axes (length (t_shape vtn)) joins) = (2 * length joins)%nat).
  { clear. induction joins as [|j joins IH]; [reflexivity|]. cbn [join_axes flat_map app length] in *.
    unfold join_axes in IH. rewrite IH. lia. }
  unfold Sh in *. rewrite app_length in *. lia.
Qed.

Definition counts_eq (n n' : net) : Prop :=
  num_tensors n' = num_tensors n /\ num_bonds n' = num_bonds n /\ num_open_axes n' = num_open_axes n.
