(** C07 (a): single-shot contraction equals the defining sum.
    Part 1: helper lemmas (dimensions, first occurrences, index search, deltas). *)
From Qib Require Export TN.TNSum TN.TNCounts.
From Coq Require Import Permutation.
Local Open Scope Z_scope.

(* ------------------------------------------------------------------ dimension of a bond *)
Lemma leg_dim_some bid bids : forall shp ax d, length shp = length bids ->
  nth_error bids ax = Some bid -> nth_error shp ax = Some d -> exists d', leg_dim bid bids shp = Some d'.
Proof.
  induction bids as [|b r IH]; intros [|s shp] [|ax] d L H1 H2; cbn in *; try discriminate.
  - injection H1 as ->. rewrite Z.eqb_refl. eauto.
  - destruct (Z.eqb b bid); [eauto|]. eapply IH; eauto.
Qed.
Lemma leg_dim_sound bid bids : forall shp d, leg_dim bid bids shp = Some d ->
  exists ax, nth_error bids ax = Some bid /\ nth_error shp ax = Some d.
Proof.
  induction bids as [|b r IH]; intros [|s shp] d H; cbn in *; try discriminate.
  destruct (Z.eqb_spec b bid).
  - injection H as <-. exists O. subst. auto.
  - destruct (IH _ _ H) as [ax [A B]]. exists (S ax). auto.
Qed.
Lemma leg_dim_none bid bids : forall shp ax, length shp = length bids -> leg_dim bid bids shp = None ->
  nth_error bids ax = Some bid -> False.
Proof.
  induction bids as [|b r IH]; intros [|s shp] [|ax] L H1 H2; cbn in *; try discriminate.
  - injection H2 as ->. rewrite Z.eqb_refl in H1. discriminate.
  - destruct (Z.eqb b bid); [discriminate|]. eapply IH; eauto.
Qed.

(** under the invariant every leg of a bond has dimension [bond_dim n bid] *)
Lemma bond_dim_spec n k t ax bid : WF0 n -> In (k, t) (tensors n) ->
  nth_error (t_bids t) ax = Some bid -> nth_error (t_shape t) ax = Some (bond_dim n bid).
Proof.
  intros W Hin Hn. destruct (wf_dim n W bid) as [d Hd]. rewrite (Hd k t ax Hin Hn). f_equal.
  unfold bond_dim.
  assert (G : forall T, (forall k t, In (k, t) T -> In (k, t) (tensors n)) ->
              (exists k t ax, In (k, t) T /\ nth_error (t_bids t) ax = Some bid) -> bond_dim_in T bid = d).
  { induction T as [|[k0 t0] T IH]; intros Sub [k1 [t1 [ax1 [Hin1 Hn1]]]]; [destruct Hin1|].
    cbn [bond_dim_in]. destruct (leg_dim bid (t_bids t0) (t_shape t0)) as [d'|] eqn:E.
    - destruct (leg_dim_sound _ _ _ _ E) as [ax' [A B]].
      pose proof (Hd k0 t0 ax' (Sub _ _ (or_introl eq_refl)) A). congruence.
    - apply IH; [intros; apply Sub; right; assumption|].
      destruct Hin1 as [E1|Hin1]; [|eauto 6]. injection E1 as <- <-. exfalso.
      eapply leg_dim_none; [|exact E|exact Hn1]. apply (wf_T n W k0 t0). apply Sub. left. reflexivity. }
  symmetry. apply G; [auto | eauto 6].
Qed.

(* ------------------------------------------------------------------ first occurrences *)
Lemma first_occ_spec l : forall seen,
  NoDup (first_occ l seen) /\ (forall x, In x (first_occ l seen) <-> In x l /\ ~ In x seen).
Proof.
  induction l as [|x l IH]; intros seen; cbn [first_occ].
  - split; [constructor | intros y; cbn; tauto].
  - destruct (nmem x seen) eqn:E.
    + apply nmem_In in E. destruct (IH seen) as [A B]. split; [assumption|]. intros y. rewrite B. cbn.
      split; [tauto|]. intros [[<-|H] H2]; [contradiction | tauto].
    + apply nmem_false in E. destruct (IH (seen ++ [x])) as [A B]. split.
      * constructor; [|assumption]. rewrite B, in_app_iff. cbn. tauto.
      * intros y. cbn. rewrite B, in_app_iff. cbn. split.
        -- intros [<-|[H1 H2]]; [tauto | split; [tauto | intros H; apply H2; left; exact H]].
        -- intros [[<-|H1] H2]; [left; reflexivity|]. destruct (Nat.eq_dec x y); [left; assumption|].
           right. split; [assumption|]. intros [H|[H|[]]]; [contradiction | congruence].
Qed.

Lemma nindex_Some x l : In x l -> exists p, nindex x l = Some p.
Proof.
  induction l as [|y l IH]; [intros []|]. intros H. cbn. destruct (Nat.eqb_spec y x); [eauto|].
  destruct H as [H|H]; [congruence|]. destruct (IH H) as [p ->]. cbn. eauto.
Qed.
Lemma nindex_sound x l p : nindex x l = Some p -> nth_error l p = Some x.
Proof.
  revert p. induction l as [|y l IH]; intros p H; cbn in H; [discriminate|].
  destruct (Nat.eqb_spec y x); [injection H as <-; subst; reflexivity|].
  destruct (nindex x l) as [q|]; [|discriminate]. injection H as <-. cbn. apply IH. reflexivity.
Qed.
Lemma nindex_None x l : nindex x l = None <-> ~ In x l.
Proof.
  split.
  - intros H Hin. destruct (nindex_Some x l Hin) as [p E]. congruence.
  - intros H. destruct (nindex x l) eqn:E; [|reflexivity]. apply nindex_sound in E.
    apply nth_error_In in E. contradiction.
Qed.
Lemma nindex_inj x y l p : nindex x l = Some p -> nindex y l = Some p -> x = y.
Proof. intros A B. apply nindex_sound in A, B. congruence. Qed.

Lemma zindex_sound x l p : zindex x l = Some p -> nth_error l p = Some x /\ ~ In x (firstn p l).
Proof.
  revert p. induction l as [|y l IH]; intros p H; cbn in H; [discriminate|].
  destruct (Z.eqb_spec y x); [injection H as <-; subst; split; [reflexivity | intros []]|].
  destruct (zindex x l) as [q|]; [|discriminate]. injection H as <-. destruct (IH q eq_refl) as [A B].
  split; [exact A|]. cbn. intros [E|E]; [congruence | contradiction].
Qed.
Lemma zindex_Some x l : In x l -> exists p, zindex x l = Some p.
Proof.
  induction l as [|y l IH]; [intros []|]. intros H. cbn. destruct (Z.eqb_spec y x); [eauto|].
  destruct H as [H|H]; [congruence|]. destruct (IH H) as [p ->]. cbn. eauto.
Qed.
Lemma zindex_first x l p : nth_error l p = Some x -> exists q, zindex x l = Some q /\ (q <= p)%nat.
Proof.
  revert p. induction l as [|y l IH]; intros [|p] H; cbn in *; try discriminate.
  - injection H as ->. rewrite Z.eqb_refl. exists O. auto.
  - destruct (Z.eqb y x); [exists O; split; [reflexivity | lia]|].
    destruct (IH p H) as [q [-> Hq]]. exists (S q). split; [reflexivity | lia].
Qed.

(** searching the image of an injective map *)
Lemma find_pos_map (f : Z -> nat) (l : list Z) b : forall off,
  (forall b', In b' l -> f b' = f b -> b' = b) ->
  find_pos (f b) (map f l) off = option_map (fun p => (off + p)%nat) (zindex b l).
Proof.
  induction l as [|y l IH]; intros off Hinj; cbn; [reflexivity|].
  destruct (Z.eqb_spec y b).
  - subst. rewrite Nat.eqb_refl. cbn. f_equal. lia.
  - destruct (Nat.eqb_spec (f y) (f b)) as [E|E].
    + exfalso. apply n. apply Hinj; [left; reflexivity | assumption].
    + rewrite IH by (intros b' Hb'; apply Hinj; right; assumption).
      destruct (zindex b l); cbn; [f_equal; lia | reflexivity].
Qed.

Lemma forallb_map_comp {A B} (f : B -> bool) (g : A -> B) l : forallb f (map g l) = forallb (fun x => f (g x)) l.
Proof. induction l as [|x l IH]; [reflexivity|]. cbn. rewrite IH. reflexivity. Qed.

(* ------------------------------------------------------------------ deltas *)
Section Deltas.
  Context {K : Scalar} {L : ScalarLaws K}.
  Local Open Scope K_scope.
  Add Ring KringDel : (s_ring K L).

  Lemma delta_eq a : delta (K:=K) a a = 1.
  Proof. unfold delta. rewrite Nat.eqb_refl. reflexivity. Qed.
  Lemma delta_neq a b : a <> b -> delta (K:=K) a b = 0.
  Proof. intros H. unfold delta. destruct (Nat.eqb_spec a b); [contradiction | reflexivity]. Qed.

  Lemma deltas_ext x vb : forall s s', (forall b, In b vb -> s b = s' b) -> deltas (K:=K) x vb s = deltas x vb s'.
  Proof.
    revert vb. induction x as [|xk x IH]; intros [|b vb] s s' H; cbn [deltas]; try reflexivity.
    rewrite (H b (or_introl eq_refl)). f_equal. apply IH. intros b' Hb'. apply H. right. exact Hb'.
  Qed.
  Lemma deltas_zero x vb s k b xk : nth_error vb k = Some b -> nth_error x k = Some xk -> xk <> s b ->
    deltas (K:=K) x vb s = 0.
  Proof.
    revert vb k. induction x as [|x0 x IH]; intros [|b0 vb] [|k] H1 H2 H3; cbn in *; try discriminate.
    - injection H1 as ->. injection H2 as ->. rewrite delta_neq by assumption. ring.
    - rewrite (IH vb k H1 H2 H3). ring.
  Qed.
  (** product of deltas = 1 if all hold, 0 otherwise *)
  Lemma deltas_bool x vb s : length x = length vb ->
    deltas (K:=K) x vb s = if forallb (fun j => Nat.eqb (nth j x O) (s (nth j vb 0%Z))) (seq 0 (length vb)) then 1 else 0.
  Proof.
    revert vb. induction x as [|x0 x IH]; intros [|b0 vb] H; cbn in H; try discriminate; [reflexivity|].
    cbn [deltas length seq forallb nth]. rewrite <- seq_shift, forallb_map_comp. cbn [nth].
    rewrite IH by lia. unfold delta. destruct (Nat.eqb x0 (s b0)); cbn; [|ring].
    destruct (forallb _ _); ring.
  Qed.
End Deltas.

(* ------------------------------------------------------------------ generic list facts *)
Lemma omap_spec {A B} (f : A -> option B) l r : omap f l = Some r ->
  length r = length l /\ forall j x, nth_error l j = Some x -> exists y, f x = Some y /\ nth_error r j = Some y.
Proof.
  revert r. induction l as [|a l IH]; intros r H; cbn in H.
  - injection H as <-. split; [reflexivity|]. intros [|j] x E; discriminate.
  - destruct (f a) as [y|] eqn:Ea; [|discriminate]. destruct (omap f l) as [ys|] eqn:El; [|discriminate].
    injection H as <-. destruct (IH ys eq_refl) as [L S]. split; [cbn; lia|].
    intros [|j] x E; cbn in E.
    + injection E as <-. exists y. auto.
    + apply S. exact E.
Qed.
Lemma omap_total {A B} (f : A -> option B) (g : A -> B) l : (forall x, In x l -> f x = Some (g x)) ->
  omap f l = Some (map g l).
Proof.
  induction l as [|a l IH]; intros H; [reflexivity|]. cbn. rewrite (H a (or_introl eq_refl)), IH; [reflexivity|].
  intros x Hx. apply H. right. exact Hx.
Qed.
Lemma combine_map_l {A B C} (f : A -> B) (g : A -> C) l : combine (map f l) (map g l) = map (fun x => (f x, g x)) l.
Proof. induction l as [|a l IH]; [reflexivity|]. cbn. rewrite IH. reflexivity. Qed.

Lemma nnodup_spec l : NoDup (nnodup l) /\ forall x, In x (nnodup l) <-> In x l.
Proof.
  induction l as [|a l [ND IH]]; cbn [nnodup]; [split; [constructor | tauto]|]. split.
  - constructor; [rewrite filter_In, Nat.eqb_refl; cbn; intros [_ E]; discriminate | apply NoDup_filter; assumption].
  - intros x. cbn. rewrite filter_In, IH, negb_true_iff, Nat.eqb_neq.
    destruct (Nat.eq_dec x a); [subst; tauto | intuition congruence].
Qed.

Definition in_range (shp x : list nat) : Prop :=
  length x = length shp /\ forall k d, nth_error shp k = Some d -> (nth k x O < d)%nat.

Lemma filter_partition_perm {A} (f : A -> bool) l : Permutation l (filter (fun x => negb (f x)) l ++ filter f l).
Proof.
  induction l as [|a l IH]; [constructor|]. cbn. destruct (f a); cbn.
  - apply Permutation_cons_app. exact IH.
  - constructor. exact IH.
Qed.

Lemma zeqb_eq a b : Z.eqb a b = true <-> a = b. Proof. apply Z.eqb_eq. Qed.
Lemma neqb_eq a b : Nat.eqb a b = true <-> a = b. Proof. apply Nat.eqb_eq. Qed.

(* ------------------------------------------------------------------ elimination of the open bonds *)
Section OpenBonds.
  Context {K : Scalar} {L : ScalarLaws K}.
  Local Open Scope K_scope.
  Add Ring KringOB : (s_ring K L).

  Variables (BK : list Z) (dimB : Z -> nat) (vb : list Z) (x : list nat).
  Hypothesis BK_nd : NoDup BK.
  Hypothesis vb_sub : forall b, In b vb -> In b BK.
  Hypothesis x_len : length x = length vb.
  Hypothesis x_rng : forall k b, nth_error vb k = Some b -> (nth k x O < dimB b)%nat.

  Definition kdB (l : list Z) : list (Z * nat) := map (fun b => (b, dimB b)) l.
  Definition OB : list Z := filter (fun b => zmem b vb) BK.
  Definition CB : list Z := filter (fun b => negb (zmem b vb)) BK.
  (** the value the open axes impose on an open bond *)
  Definition xv (b : Z) : nat := match zindex b vb with Some k => nth k x O | None => O end.

  Lemma kdB_keys l : map fst (kdB l) = l.
  Proof. unfold kdB. rewrite map_map. cbn. apply map_id. Qed.

  Lemma open_elim (G : (Z -> nat) -> K) e0 : resp G ->
    ksum Z.eqb (kdB BK) (fun s => G s * deltas x vb s) e0
    = deltas x vb xv * ksum Z.eqb (kdB CB) (fun s => G (over Z.eqb (kdB OB) xv s)) e0.
  Proof.
    intros RG.
    assert (RF : resp (fun s => G s * deltas x vb s)).
    { intros e e' H. rewrite (RG e e' H). f_equal. apply deltas_ext. intros; apply H. }
    rewrite (ksum_perm Z.eqb zeqb_eq (kdB BK) (kdB CB ++ kdB OB)).
    2:{ unfold kdB. rewrite <- map_app. apply Permutation_map. apply (filter_partition_perm (fun b => zmem b vb)). }
    2:{ rewrite kdB_keys. assumption. }
    2:{ exact RF. }
    rewrite ksum_app.
    rewrite <- ksum_scal.
    apply (ksum_ext Z.eqb zeqb_eq); [rewrite kdB_keys; apply NoDup_filter; assumption|].
    intros s _.
    rewrite (ksum_single Z.eqb zeqb_eq (kdB OB) xv).
    - rewrite (deltas_ext x vb (over Z.eqb (kdB OB) xv s) xv); [ring|].
      intros b Hb. apply (over_in Z.eqb zeqb_eq). rewrite kdB_keys. unfold OB. apply filter_In.
      split; [apply vb_sub; assumption | apply zmem_In; assumption].
    - rewrite kdB_keys. apply NoDup_filter. assumption.
    - exact RF.
    - intros b d Hin. unfold kdB in Hin. apply in_map_iff in Hin. destruct Hin as [b' [E Hb']].
      injection E as <- <-. unfold OB in Hb'. apply filter_In in Hb'. destruct Hb' as [_ Hb'].
      apply zmem_In in Hb'. unfold xv. destruct (zindex_Some b' vb Hb') as [k Hk]. rewrite Hk.
      apply zindex_sound in Hk. apply (x_rng k b'). apply Hk.
    - intros e _ [b [Hb Hne]]. rewrite kdB_keys in Hb. unfold OB in Hb. apply filter_In in Hb.
      destruct Hb as [_ Hb]. apply zmem_In in Hb. destruct (zindex_Some b vb Hb) as [k Hk].
      unfold xv in Hne. rewrite Hk in Hne. apply zindex_sound in Hk. destruct Hk as [Hk _].
      rewrite (deltas_zero x vb e k b (nth k x O)); [ring | assumption | | congruence].
      apply nth_error_nth'. rewrite x_len. apply nth_error_Some. congruence.
  Qed.
End OpenBonds.

Lemma forallb_ext_in {A} (f g : A -> bool) l : (forall x, In x l -> f x = g x) -> forallb f l = forallb g l.
Proof.
  induction l as [|a l IH]; intros H; [reflexivity|]. cbn. rewrite (H a (or_introl eq_refl)), IH; [reflexivity|].
  intros x Hx. apply H. right. exact Hx.
Qed.
Lemma nth_error_ext_lemma {A} (a b : list A) : (forall j, nth_error a j = nth_error b j) -> a = b.
Proof.
  revert b. induction a as [|x a IH]; intros [|y b] H.
  - reflexivity.
  - specialize (H O). discriminate.
  - specialize (H O). discriminate.
  - pose proof (H O) as H0. cbn in H0. injection H0 as ->. f_equal. apply IH. intros j. apply (H (S j)).
Qed.
Lemma nth_map_seq {A} (f : nat -> A) n p d : (p < n)%nat -> nth p (map f (seq 0 n)) d = f p.
Proof.
  intros H. rewrite (nth_indep _ d (f O)) by (rewrite map_length, seq_length; assumption).
  rewrite map_nth. rewrite seq_nth by assumption. reflexivity.
Qed.

Lemma label_dim_in_sound labels : forall shp l d, label_dim_in labels shp l = Some d ->
  exists ax, nth_error labels ax = Some l /\ nth_error shp ax = Some d /\ ~ In l (firstn ax labels).
Proof.
  induction labels as [|x r IH]; intros [|s shp] l d H; cbn in H; try discriminate.
  destruct (Nat.eqb_spec x l).
  - injection H as <-. exists O. subst. cbn. auto.
  - destruct (IH _ _ _ H) as [ax [A [B C]]]. exists (S ax). cbn. split; [assumption|]. split; [assumption|].
    intros [E|E]; [congruence | contradiction].
Qed.
Lemma label_dim_in_some labels : forall shp l, length shp = length labels -> In l labels ->
  exists d, label_dim_in labels shp l = Some d.
Proof.
  induction labels as [|x r IH]; intros [|s shp] l Hl H; cbn in *; try discriminate; try contradiction.
  destruct (Nat.eqb_spec x l); [eauto|]. destruct H as [H|H]; [congruence|]. apply IH; [lia | assumption].
Qed.
Lemma label_dim_in_none labels : forall shp l, ~ In l labels -> label_dim_in labels shp l = None.
Proof.
  induction labels as [|x r IH]; intros [|s shp] l H; cbn; try reflexivity.
  destruct (Nat.eqb_spec x l); [exfalso; apply H; left; assumption|]. apply IH. intros E. apply H. right. exact E.
Qed.

Section LabelDim.
  Context {K : Scalar}.
  (** all operands agree on the dimension D of label l, and one of them carries it *)
  Lemma label_dim_const (ops : list (@tval K * list nat)) l D :
    (forall op d, In op ops -> label_dim_in (snd op) (fst (fst op)) l = Some d -> d = D) ->
    (exists op, In op ops /\ label_dim_in (snd op) (fst (fst op)) l <> None) ->
    label_dim ops l = D.
  Proof.
    induction ops as [|[v labs] ops IH]; intros H1 [op [Hin Hne]]; [destruct Hin|].
    cbn [label_dim]. destruct (label_dim_in labs (fst v) l) as [d|] eqn:E.
    - apply (H1 (v, labs) d); [left; reflexivity | exact E].
    - apply IH; [intros op' d' Hin' E'; eapply H1; [right; exact Hin' | exact E']|].
      destruct Hin as [<-|Hin]; [cbn in Hne; congruence | eauto].
  Qed.
End LabelDim.

(* ------------------------------------------------------------------ the main theorem, abstract labelling *)
Section EinsumCorrect.
  Context {K : Scalar} {L : ScalarLaws K}.
  Local Open Scope K_scope.
  Add Ring KringEC : (s_ring K L).

  Variables (n : net) (data : Z -> list nat -> K).
  Hypothesis W : WF n.
  (** an injective labelling of the bonds *)
  Variable lab : Z -> nat.
  Hypothesis lab_inj : forall b b', In b (dkeys (bonds n)) -> In b' (dkeys (bonds n)) -> lab b = lab b' -> b = b'.
  (** the real tensors in the order of the einsum call *)
  Variable ts : list tensor.
  Hypothesis ts_perm : Permutation ts (real_tensors n).
  Variables (vt : tensor) (amap : list nat).
  Hypothesis Hvt : dget VT (tensors n) = Some vt.
  Notation vb := (t_bids vt).
  Notation shp := (t_shape vt).
  Notation out := (first_occ (map lab (t_bids vt)) []).
  Hypothesis amap_def : omap (fun i => nindex i out) (map lab vb) = Some amap.
  (** the ones-vectors *)
  Variable onesops : list (@tval K * list nat).
  Hypothesis ones_form : forall op, In op onesops ->
    exists j b k, op = (ones (nth k shp O), [j]) /\ nth_error vb k = Some b /\ lab b = j.
  Hypothesis ones_cover : forall j, In j out ->
    (exists t, In t ts /\ In j (map lab (t_bids t))) \/ (exists op, In op onesops /\ snd op = [j]).

  Definition targs : list (@tval K * list nat) :=
    map (fun t => ((t_shape t, data (t_ref t)), map lab (t_bids t))) ts.
  Definition ops := targs ++ onesops.

  Let W0 : WF0 n := proj1 W.
  Notation BK := (dkeys (bonds n)).

  Lemma vbids_vt : vbids n = vb. Proof. unfold vbids. rewrite Hvt. reflexivity. Qed.
  Lemma vt_in : In (VT, vt) (tensors n). Proof. apply dget_In. exact Hvt. Qed.
  Lemma vt_len : length shp = length vb. Proof. apply (wf_T n W0 VT vt vt_in). Qed.
  Lemma vb_sub b : In b vb -> In b BK.
  Proof. intros H. eapply wf_bids_exist; [exact W0 | exact vt_in | exact H]. Qed.

  Lemma real_in t : In t (real_tensors n) -> exists k, In (k, t) (tensors n) /\ k <> VT.
  Proof.
    unfold real_tensors. rewrite in_map_iff. intros [[k t'] [E Hin]]. cbn in E. subst t'.
    apply filter_In in Hin. destruct Hin as [Hin Hr]. unfold is_real in Hr. cbn in Hr.
    apply negb_true_iff, Z.eqb_neq in Hr. eauto.
  Qed.
  Lemma ts_in t : In t ts -> exists k, In (k, t) (tensors n) /\ k <> VT.
  Proof. intros H. apply real_in. eapply Permutation_in; eauto. Qed.
  Lemma ts_bids_sub t b : In t ts -> In b (t_bids t) -> In b BK.
  Proof. intros Ht Hb. destruct (ts_in t Ht) as [k [Hin _]]. eapply wf_bids_exist; eauto. Qed.

  Lemma out_spec : NoDup out /\ forall l, In l out <-> exists b, In b vb /\ lab b = l.
  Proof.
    destruct (first_occ_spec (map lab vb) []) as [A B]. split; [assumption|]. intros l. rewrite B, in_map_iff.
    split; [intros [[b [E Hb]] _]; eauto | intros [b [Hb E]]; split; [eauto | intros []]].
  Qed.

  Definition fpos (b : Z) : nat := match nindex (lab b) out with Some p => p | None => O end.
  Lemma amap_fpos : amap = map fpos vb.
  Proof.
    destruct (omap_spec _ _ _ amap_def) as [Ln Sp]. rewrite map_length in Ln.
    apply nth_error_ext_lemma. intros j. rewrite nth_error_map.
    destruct (nth_error vb j) as [b|] eqn:Eb; cbn.
    - destruct (Sp j (lab b)) as [y [Ey Hy]]; [rewrite nth_error_map, Eb; reflexivity|].
      rewrite Hy. unfold fpos. rewrite Ey. reflexivity.
    - apply nth_error_None. apply nth_error_None in Eb. lia.
  Qed.

  Lemma fpos_spec b : In b vb -> nindex (lab b) out = Some (fpos b).
  Proof.
    intros Hb. unfold fpos. destruct (nindex_Some (lab b) out) as [p ->]; [|reflexivity].
    apply out_spec. eauto.
  Qed.
  Lemma fpos_inj b b' : In b vb -> In b' vb -> fpos b = fpos b' -> b = b'.
  Proof.
    intros Hb Hb' E. apply lab_inj; [apply vb_sub; assumption | apply vb_sub; assumption|].
    pose proof (fpos_spec b Hb) as A. pose proof (fpos_spec b' Hb') as B. rewrite E in A.
    eapply nindex_inj; eauto.
  Qed.
  Lemma find_pos_amap b : In b vb -> find_pos (fpos b) amap O = zindex b vb.
  Proof.
    intros Hb. rewrite amap_fpos, find_pos_map.
    - destruct (zindex b vb); reflexivity.
    - intros b' Hb' E. apply fpos_inj; assumption.
  Qed.

  Lemma valid_equiv x : length x = length vb ->
    deltas (K:=K) x vb (xv vb x) = if full_valid amap x then 1 else 0.
  Proof.
    intros Lx. rewrite deltas_bool by assumption. unfold full_valid.
    replace (length amap) with (length vb) by (rewrite amap_fpos, map_length; reflexivity).
    erewrite forallb_ext_in; [reflexivity|]. intros j Hj. apply in_seq in Hj. cbn in Hj.
    destruct (nth_error vb j) as [b|] eqn:Eb; [|apply nth_error_None in Eb; lia].
    assert (Hb : In b vb) by (eapply nth_error_In; eauto).
    rewrite (nth_error_nth _ _ 0%Z Eb).
    replace (nth j amap O) with (fpos b).
    2:{ rewrite amap_fpos. symmetry. apply nth_error_nth with (d := O). rewrite nth_error_map, Eb. reflexivity. }
    rewrite find_pos_amap by assumption. unfold xv. destruct (zindex_Some b vb Hb) as [k ->]. reflexivity.
  Qed.

  (* ---------------------------------------------------------------- dimensions of labels *)
  Lemma dim_lab b : In b BK -> (In b vb \/ exists t, In t ts /\ In b (t_bids t)) ->
    label_dim ops (lab b) = bond_dim n b.
  Proof.
    intros HbK Hwhere. apply label_dim_const.
    - intros op d Hin E. unfold ops in Hin. apply in_app_or in Hin. destruct Hin as [Hin|Hin].
      + unfold targs in Hin. apply in_map_iff in Hin. destruct Hin as [t [<- Ht]]. cbn [fst snd] in E.
        destruct (label_dim_in_sound _ _ _ _ E) as [ax [A [B _]]]. rewrite nth_error_map in A.
        destruct (nth_error (t_bids t) ax) as [b'|] eqn:Eb; [|discriminate]. cbn in A. injection A as A.
        assert (b' = b).
        { apply lab_inj; [eapply ts_bids_sub; [exact Ht | eapply nth_error_In; eauto] | assumption | assumption]. }
        subst b'. destruct (ts_in t Ht) as [k [Hk _]].
        pose proof (bond_dim_spec n k t ax b W0 Hk Eb). congruence.
      + destruct (ones_form op Hin) as [j [b' [k [-> [Hk Hj]]]]]. cbn [fst snd ones] in E.
        cbn in E. destruct (Nat.eqb_spec j (lab b)); [|discriminate]. injection E as <-.
        assert (b' = b).
        { apply lab_inj; [apply vb_sub; eapply nth_error_In; eauto | assumption | congruence]. }
        subst b'. pose proof (bond_dim_spec n VT vt k b W0 vt_in Hk) as S.
        apply nth_error_nth with (d := O) in S. exact S.
    - assert (T : forall t, In t ts -> In b (t_bids t) ->
                exists op, In op ops /\ label_dim_in (snd op) (fst (fst op)) (lab b) <> None).
      { intros t Ht Hb. exists ((t_shape t, data (t_ref t)), map lab (t_bids t)). split.
        - unfold ops, targs. apply in_or_app. left. apply in_map_iff. exists t. auto.
        - cbn [fst snd]. destruct (ts_in t Ht) as [k [Hk _]].
          destruct (label_dim_in_some (map lab (t_bids t)) (t_shape t) (lab b)) as [d ->]; [|apply in_map; assumption|discriminate].
          rewrite map_length. apply (wf_T n W0 k t Hk). }
      destruct Hwhere as [Hb|[t [Ht Hb]]]; [|eapply T; eauto].
      destruct (ones_cover (lab b)) as [[t [Ht Hl]]|[op [Hop Hs]]].
      + apply out_spec. eauto.
      + apply in_map_iff in Hl. destruct Hl as [b' [E Hb']].
        assert (b' = b) by (apply lab_inj; [eapply ts_bids_sub; eauto | assumption | assumption]). subst b'.
        eapply T; eauto.
      + exists op. split; [unfold ops; apply in_or_app; right; assumption|].
        destruct (ones_form op Hop) as [j [b' [k [-> _]]]]. cbn [snd] in Hs. injection Hs as ->.
        cbn. rewrite Nat.eqb_refl. discriminate.
  Qed.

  Theorem einsum_shape : fst (to_full_tensor (einsum_sem ops out) amap) = shp.
  Proof.
    cbn [to_full_tensor fst einsum_sem]. apply nth_error_ext_lemma. intros j. rewrite nth_error_map.
    rewrite amap_fpos, nth_error_map.
    destruct (nth_error vb j) as [b|] eqn:Eb; cbn [option_map].
    - assert (Hb : In b vb) by (eapply nth_error_In; eauto).
      pose proof (fpos_spec b Hb) as Hp. apply nindex_sound in Hp.
      rewrite (bond_dim_spec n VT vt j b W0 vt_in Eb). f_equal.
      erewrite nth_error_nth; [|rewrite nth_error_map, Hp; reflexivity].
      apply dim_lab; [apply vb_sub; assumption | left; assumption].
    - symmetry. apply nth_error_None. rewrite vt_len. apply nth_error_None. assumption.
  Qed.

  (* ---------------------------------------------------------------- the summed labels are the closed bonds *)
  Lemma closed_has_real b : In b BK -> ~ In b vb -> exists t, In t ts /\ In b (t_bids t).
  Proof.
    intros HbK Hnv. destruct (In_key_dget b (bonds n) HbK) as [bo Hbo].
    destruct (wf_B n W0 b bo (dget_In _ _ _ Hbo)) as [_ Hlen].
    destruct (b_tids bo) as [|tid rest] eqn:Et; [cbn in Hlen; lia|].
    assert (Htid : In tid (b_tids bo)) by (rewrite Et; left; reflexivity).
    pose proof (wf_tids_exist n b bo tid W0 (dget_In _ _ _ Hbo) Htid) as Hk.
    destruct (In_key_dget tid (tensors n) Hk) as [t Ht].
    assert (Hleg : In b (t_bids t)).
    { apply zcount_pos. pose proof (wf_inc n W0 tid b) as I. unfold cntT, cntB in I. rewrite Ht, Hbo in I.
      rewrite I. apply zcount_pos. assumption. }
    assert (tid <> VT).
    { intros ->. rewrite Hvt in Ht. injection Ht as <-. contradiction. }
    exists t. split; [|assumption]. eapply Permutation_in; [symmetry; exact ts_perm|].
    unfold real_tensors. apply in_map_iff. exists (tid, t). split; [reflexivity|].
    apply filter_In. split; [apply dget_In; assumption|]. unfold is_real. cbn.
    apply negb_true_iff, Z.eqb_neq. assumption.
  Qed.

  Definition summed : list nat := filter (fun l => negb (nmem l out)) (nnodup (concat (map snd ops))).

  Lemma NoDup_map_lab l : NoDup l -> (forall b, In b l -> In b BK) -> NoDup (map lab l).
  Proof.
    induction 1 as [|b l Hb ND IH]; intros Sub; cbn; [constructor|]. constructor.
    - rewrite in_map_iff. intros [b' [E Hb']]. apply Hb.
      replace b with b'; [assumption|]. apply lab_inj; [apply Sub; right; assumption | apply Sub; left; reflexivity | assumption].
    - apply IH. intros b' Hb'. apply Sub. right. assumption.
  Qed.

  Lemma summed_perm : Permutation summed (map lab (CB BK vb)).
  Proof.
    apply NoDup_Permutation.
    - apply NoDup_filter. apply nnodup_spec.
    - apply NoDup_map_lab; [apply NoDup_filter, (wf_ndB n W0)|]. intros b Hb. apply filter_In in Hb. apply Hb.
    - intros l. unfold summed. rewrite filter_In, (proj2 (nnodup_spec _)), negb_true_iff, nmem_false.
      rewrite in_map_iff. split.
      + intros [Hin Hno]. apply in_concat in Hin. destruct Hin as [labs [Hl Hin]].
        apply in_map_iff in Hl. destruct Hl as [op [<- Hop]]. unfold ops in Hop. apply in_app_or in Hop.
        destruct Hop as [Hop|Hop].
        * unfold targs in Hop. apply in_map_iff in Hop. destruct Hop as [t [<- Ht]]. cbn [snd] in Hin.
          apply in_map_iff in Hin. destruct Hin as [b [<- Hb]]. exists b. split; [reflexivity|].
          unfold CB. apply filter_In. split; [eapply ts_bids_sub; eauto|].
          apply negb_true_iff, zmem_false. intros Hv. apply Hno. apply out_spec. eauto.
        * destruct (ones_form op Hop) as [j [b [k [-> [Hk Hj]]]]]. cbn [snd] in Hin.
          destruct Hin as [<-|[]]. exfalso. apply Hno. apply out_spec. exists b. split; [eapply nth_error_In; eauto | assumption].
      + intros [b [<- Hb]]. unfold CB in Hb. apply filter_In in Hb. destruct Hb as [HbK Hnv].
        apply negb_true_iff, zmem_false in Hnv. split.
        * destruct (closed_has_real b HbK Hnv) as [t [Ht Hleg]]. apply in_concat.
          exists (map lab (t_bids t)). split; [|apply in_map; assumption].
          apply in_map_iff. exists ((t_shape t, data (t_ref t)), map lab (t_bids t)). split; [reflexivity|].
          unfold ops, targs. apply in_or_app. left. apply in_map_iff. exists t. auto.
        * intros Ho. apply out_spec in Ho. destruct Ho as [b' [Hb' E]].
          assert (b' = b) by (apply lab_inj; [apply vb_sub; assumption | assumption | assumption]).
          subst b'. contradiction.
  Qed.

  (* ---------------------------------------------------------------- change of keys: labels <-> closed bonds *)
  Definition Gs (s : Z -> nat) : K :=
    lprod (map (fun t => data (t_ref t) (map s (t_bids t))) (real_tensors n)).
  Definition F1 (e : nat -> nat) : K :=
    lprod (map (fun op : @tval K * list nat => snd (fst op) (map e (snd op))) ops).

  Lemma resp_Gs : resp Gs.
  Proof.
    intros e e' H. unfold Gs. apply lprod_map_ext. intros t _. f_equal. apply map_ext. intros; apply H.
  Qed.
  Lemma resp_F1 : resp F1.
  Proof.
    intros e e' H. unfold F1. apply lprod_map_ext. intros op _. f_equal. apply map_ext. intros; apply H.
  Qed.

  Lemma Forall2_map_same {A B C} (P : B -> C -> Prop) (f : A -> B) (g : A -> C) l :
    (forall a, In a l -> P (f a) (g a)) -> Forall2 P (map f l) (map g l).
  Proof.
    induction l as [|a l IH]; intros H; cbn; constructor; [apply H; left; reflexivity|].
    apply IH. intros a' Ha'. apply H. right. exact Ha'.
  Qed.

  Lemma OB_CB_disjoint b : In b (CB BK vb) -> ~ In b (OB BK vb).
  Proof.
    unfold CB, OB. rewrite !filter_In. intros [_ A] [_ B]. rewrite B in A. discriminate.
  Qed.

  Section KeyChange.
    Variable x : list nat.
    Hypothesis Lx : length x = length vb.
    Notation dimB := (bond_dim n).
    Notation ovr := (over Z.eqb (kdB dimB (OB BK vb)) (xv vb x)).
    Definition Rel (e : nat -> nat) (s : Z -> nat) : Prop := forall b, In b BK -> e (lab b) = ovr s b.

    Lemma Rel_integrand e s : Rel e s -> F1 e = Gs (ovr s).
    Proof.
      intros R. unfold F1, ops. rewrite map_app, lprod_app.
      rewrite (lprod_ones (map _ onesops)).
      2:{ intros v Hv. apply in_map_iff in Hv. destruct Hv as [op [<- Hop]].
          destruct (ones_form op Hop) as [j [b [k [-> _]]]]. reflexivity. }
      assert (E : lprod (map (fun op : @tval K * list nat => snd (fst op) (map e (snd op))) targs)
                  = lprod (map (fun t => data (t_ref t) (map (ovr s) (t_bids t))) ts)).
      { unfold targs. rewrite map_map. apply lprod_map_ext. intros t Ht. cbn [fst snd]. f_equal.
        rewrite map_map. apply map_ext_in. intros b Hb. apply R. eapply ts_bids_sub; eauto. }
      rewrite E, kmul_1_r.
      unfold Gs. apply lprod_perm. apply Permutation_map. exact ts_perm.
    Qed.

    Lemma Rel_base : Rel (env_of out (full_idx (map (label_dim ops) out) amap x)) (fun _ => O).
    Proof.
      intros b HbK. unfold env_of.
      destruct (in_dec Z.eq_dec b vb) as [Hb|Hb].
      - rewrite (fpos_spec b Hb). pose proof (fpos_spec b Hb) as Hp. apply nindex_sound in Hp.
        assert (Hlt : (fpos b < length out)%nat) by (apply nth_error_Some; congruence).
        unfold full_idx. rewrite map_length. rewrite nth_map_seq by assumption.
        rewrite find_pos_amap by assumption.
        rewrite (over_in Z.eqb zeqb_eq).
        + unfold xv. destruct (zindex_Some b vb Hb) as [k ->]. reflexivity.
        + rewrite kdB_keys. unfold OB. apply filter_In. split; [assumption | apply zmem_In; assumption].
      - replace (nindex (lab b) out) with (@None nat).
        + rewrite (over_out Z.eqb zeqb_eq); [reflexivity|]. rewrite kdB_keys. unfold OB. rewrite filter_In.
          intros [_ E]. apply zmem_In in E. contradiction.
        + symmetry. apply nindex_None. intros Ho. apply out_spec in Ho. destruct Ho as [b' [Hb' E]].
          assert (b' = b) by (apply lab_inj; [apply vb_sub; assumption | assumption | assumption]).
          subst b'. contradiction.
    Qed.

    Lemma Rel_step b0 e s v : In b0 (CB BK vb) -> Rel e s -> Rel (upd Nat.eqb e (lab b0) v) (upd Z.eqb s b0 v).
    Proof.
      intros Hb0 R b HbK.
      assert (Hb0K : In b0 BK) by (unfold CB in Hb0; apply filter_In in Hb0; apply Hb0).
      destruct (Z.eq_dec b b0) as [->|Hne].
      - rewrite (upd_same Nat.eqb neqb_eq).
        rewrite (over_out Z.eqb zeqb_eq) by (rewrite kdB_keys; apply OB_CB_disjoint; assumption).
        rewrite (upd_same Z.eqb zeqb_eq). reflexivity.
      - rewrite (upd_other Nat.eqb neqb_eq) by (intros E; apply Hne; apply lab_inj; assumption).
        rewrite (R b HbK).
        destruct (in_dec Z.eq_dec b (OB BK vb)) as [Ho|Ho].
        + rewrite !(over_in Z.eqb zeqb_eq) by (rewrite kdB_keys; assumption). reflexivity.
        + rewrite !(over_out Z.eqb zeqb_eq) by (rewrite kdB_keys; assumption).
          rewrite (upd_other Z.eqb zeqb_eq) by assumption. reflexivity.
    Qed.

    Lemma key_change :
      ksum Nat.eqb (map (fun l => (l, label_dim ops l)) summed) F1
           (env_of out (full_idx (map (label_dim ops) out) amap x))
      = ksum Z.eqb (kdB dimB (CB BK vb)) (fun s => Gs (ovr s)) (fun _ => O).
    Proof.
      rewrite (ksum_perm Nat.eqb neqb_eq _ (map (fun b => (lab b, dimB b)) (CB BK vb))).
      - apply (ksum_rel Nat.eqb Z.eqb Rel).
        + unfold kdB. apply Forall2_map_same. intros b Hb. cbn [fst snd]. split; [reflexivity|].
          intros e1 e2 v R. apply Rel_step; assumption.
        + intros e s R. apply Rel_integrand. exact R.
        + apply Rel_base.
      - eapply Permutation_trans; [apply Permutation_map; exact summed_perm|].
        rewrite map_map. erewrite map_ext_in; [reflexivity|]. intros b Hb. cbn. f_equal.
        unfold CB in Hb. apply filter_In in Hb. destruct Hb as [HbK Hnv]. apply negb_true_iff, zmem_false in Hnv.
        apply dim_lab; [assumption|]. right. apply closed_has_real; assumption.
      - rewrite map_map. cbn [fst]. rewrite map_id. apply NoDup_filter. apply nnodup_spec.
      - exact resp_F1.
    Qed.
  End KeyChange.

  Lemma bond_kd_kdB : bond_kd n = kdB (bond_dim n) BK.
  Proof. unfold bond_kd, kdB, dkeys. rewrite map_map. reflexivity. Qed.

  (** single-shot contraction, expanded, is the defining sum *)
  Theorem einsum_value x : in_range shp x ->
    snd (to_full_tensor (einsum_sem ops out) amap) x = defining_sum n data x.
  Proof.
    intros [Lx Rx]. rewrite vt_len in Lx.
    unfold defining_sum. rewrite vbids_vt, bond_kd_kdB.
    change (fun s => lprod (map (fun t => data (t_ref t) (map s (t_bids t))) (real_tensors n)) * deltas x vb s)
      with (fun s => Gs s * deltas x vb s).
    rewrite (open_elim BK (bond_dim n) vb x (wf_ndB n W0) vb_sub Lx).
    2:{ intros k b Hk. apply Rx. apply (bond_dim_spec n VT vt k b W0 vt_in Hk). }
    2:{ exact resp_Gs. }
    rewrite (valid_equiv x Lx). rewrite <- (key_change x).
    cbn [to_full_tensor snd einsum_sem fst]. fold summed.
    change (fun e => lprod (map (fun op : @tval K * list nat => snd (fst op) (map e (snd op))) ops)) with F1.
    destruct (full_valid amap x); [rewrite kmul_1_l; reflexivity | rewrite kmul_0_l; reflexivity].
  Qed.
End EinsumCorrect.

(* ------------------------------------------------------------------ contract_with on a labelled einsum description *)
Section ContractWith.
  Context {K : Scalar} {L : ScalarLaws K}.
  Variables (n : net) (data : Z -> list nat -> K).
  Hypothesis W : WF n.
  Variable lab : Z -> nat.
  Hypothesis lab_inj : forall b b', In b (dkeys (bonds n)) -> In b' (dkeys (bonds n)) -> lab b = lab b' -> b = b'.
  Variables (ts : list tensor) (vt : tensor) (E : einsum_args).
  Hypothesis ts_perm : Permutation ts (real_tensors n).
  Hypothesis Hvt : dget VT (tensors n) = Some vt.
  Hypothesis E_tids : omap (fun tid => dget tid (tensors n)) (e_tids E) = Some ts.
  Hypothesis E_tidx : e_tidx E = map (fun t => map lab (t_bids t)) ts.
  Hypothesis E_out : e_out E = first_occ (map lab (t_bids vt)) [].
  Hypothesis E_amap : omap (fun i => nindex i (e_out E)) (map lab (t_bids vt)) = Some (e_amap E).

  Notation vb := (t_bids vt).
  Notation shp := (t_shape vt).
  Notation out := (first_occ (map lab (t_bids vt)) []).
  Notation amap := (e_amap E).

  Let amap_def : omap (fun i => nindex i out) (map lab vb) = Some amap.
  Proof. rewrite <- E_out. exact E_amap. Qed.

  Definition ones_for (j : nat) : list (@tval K * list nat) :=
    if existsb (nmem j) (e_tidx E) then []
    else match nindex j out with
         | Some p => match nindex p amap with
                     | Some k => [(ones (nth k shp O), [j])]
                     | None => []
                     end
         | None => []
         end.

  Lemma ones_chain j : In j out -> exists p k b, nindex j out = Some p /\ nindex p amap = Some k /\
    nth_error vb k = Some b /\ lab b = j.
  Proof.
    intros Hj. destruct (nindex_Some j out Hj) as [p Hp].
    destruct (proj1 (proj2 (out_spec lab vt) j) Hj) as [b [Hb Hl]].
    pose proof (fpos_spec lab vt b Hb) as Fp. rewrite Hl, Hp in Fp. injection Fp as Fp.
    assert (Hin : In p amap).
    { rewrite (amap_fpos lab vt amap amap_def). rewrite Fp. apply in_map. exact Hb. }
    destruct (nindex_Some p amap Hin) as [k Hk]. exists p, k.
    pose proof (nindex_sound _ _ _ Hk) as Hk'. rewrite (amap_fpos lab vt amap amap_def), nth_error_map in Hk'.
    destruct (nth_error vb k) as [b'|] eqn:Eb; [|discriminate]. cbn in Hk'. injection Hk' as Hk'.
    exists b'. split; [assumption|]. split; [assumption|]. split; [reflexivity|].
    assert (Hb' : In b' vb) by (eapply nth_error_In; eauto).
    pose proof (fpos_spec lab vt b' Hb') as Fp'. rewrite Hk' in Fp'.
    eapply nindex_inj; eauto.
  Qed.

  (** what contract_with evaluates to: one einsum over the tensors and the ones-vectors *)
  Lemma contract_with_struct : exists onesops,
    (forall op, In op onesops ->
       exists j b k, op = (ones (nth k shp O), [j]) /\ nth_error vb k = Some b /\ lab b = j) /\
    (forall j, In j out ->
       (exists t, In t ts /\ In j (map lab (t_bids t))) \/ (exists op, In op onesops /\ snd op = [j])) /\
    contract_with E n data =
      match ops data lab ts onesops with
      | [] => None
      | _ :: _ => Some (einsum_sem (ops data lab ts onesops) out, amap)
      end.
  Proof.
    set (onesops := concat (map ones_for out)).
    assert (OF : forall op, In op onesops ->
                 exists j b k, op = (ones (nth k shp O), [j]) /\ nth_error vb k = Some b /\ lab b = j).
    { intros op Hop. unfold onesops in Hop. apply in_concat in Hop. destruct Hop as [l [Hl Hop]].
      apply in_map_iff in Hl. destruct Hl as [j [<- Hj]]. unfold ones_for in Hop.
      destruct (existsb (nmem j) (e_tidx E)); [destruct Hop|].
      destruct (ones_chain j Hj) as [p [k [b [Hp [Hk [Hb Hl]]]]]]. rewrite Hp, Hk in Hop.
      destruct Hop as [<-|[]]. exists j, b, k. auto. }
    assert (OC : forall j, In j out ->
                 (exists t, In t ts /\ In j (map lab (t_bids t))) \/ (exists op, In op onesops /\ snd op = [j])).
    { intros j Hj. destruct (existsb (nmem j) (e_tidx E)) eqn:Ex.
      - left. apply existsb_exists in Ex. destruct Ex as [row [Hrow Hin]]. apply nmem_In in Hin.
        rewrite E_tidx in Hrow. apply in_map_iff in Hrow. destruct Hrow as [t [<- Ht]]. eauto.
      - right. destruct (ones_chain j Hj) as [p [k [b [Hp [Hk [Hb Hl]]]]]].
        exists (ones (nth k shp O), [j]). split; [|reflexivity].
        unfold onesops. apply in_concat. exists (ones_for j). split; [apply in_map; assumption|].
        unfold ones_for. rewrite Ex, Hp, Hk. left. reflexivity. }
    exists onesops. split; [exact OF|]. split; [exact OC|].
    unfold contract_with. unfold shape. rewrite Hvt. cbn [option_map]. rewrite E_tids.
    rewrite E_out.
    rewrite (omap_total _ ones_for).
    2:{ intros j Hj. unfold ones_for. destruct (existsb (nmem j) (e_tidx E)); [reflexivity|].
        destruct (ones_chain j Hj) as [p [k [b [Hp [Hk _]]]]]. rewrite Hp, Hk. reflexivity. }
    fold onesops. rewrite E_tidx, combine_map_l.
    change (map (fun t => (t_shape t, data (t_ref t), map lab (t_bids t))) ts ++ onesops) with (ops data lab ts onesops).
    destruct (ops data lab ts onesops); reflexivity.
  Qed.

  Theorem contract_with_correct v am : contract_with E n data = Some (v, am) ->
      am = amap /\ fst (to_full_tensor v am) = shp /\
      forall x, in_range shp x -> snd (to_full_tensor v am) x = defining_sum n data x.
  Proof.
    intros HC. destruct contract_with_struct as [onesops [OF [OC EC]]].
    rewrite EC in HC. destruct (ops data lab ts onesops) eqn:Eo; [discriminate|]. rewrite <- Eo in HC.
    injection HC as <- <-. split; [reflexivity|]. split.
    - apply (einsum_shape n data W lab lab_inj ts ts_perm vt amap Hvt amap_def onesops OF OC).
    - intros x Hx. apply (einsum_value n data W lab lab_inj ts ts_perm vt amap Hvt amap_def onesops OF OC x Hx).
  Qed.

  (** numpy.einsum needs at least one operand *)
  Theorem contract_with_total : ts <> [] \/ t_bids vt <> [] -> contract_with E n data <> None.
  Proof.
    intros NE. destruct contract_with_struct as [onesops [OF [OC EC]]]. rewrite EC.
    destruct (ops data lab ts onesops) eqn:Eo; [|discriminate]. exfalso.
    unfold ops, targs in Eo. apply app_eq_nil in Eo. destruct Eo as [E1 E2].
    apply map_eq_nil in E1. destruct NE as [N|N]; [contradiction|].
    assert (Hb0 : exists b0, In b0 vb) by (destruct vb as [|b0 r]; [contradiction | exists b0; left; reflexivity]).
    destruct Hb0 as [b0 Hb0].
    assert (Hj : In (lab b0) out) by (apply (out_spec lab vt); eauto).
    destruct (OC (lab b0) Hj) as [[t [Ht _]]|[op [Hop _]]]; [subst ts; destruct Ht | rewrite E2 in Hop; destruct Hop].
  Qed.
End ContractWith.
