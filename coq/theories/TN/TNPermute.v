(** C07: re-ordering the axes of a node of a contraction tree (ContractionTreeNode.permute_axes)
    does not change the result of the contraction.

    permute_axes permutes the node's idxout and trackaxes and, correspondingly, the index list
    of the parent.  For every tree that numpy.einsum accepts (tree_ok: distinct output labels,
    operand shapes consistent with the index lists), every path and every permutation p:
      - the value of the permuted node is transposed by p          (permute_self_value),
      - the value of every strict ancestor is unchanged            (permute_axes_value),
      - the tree stays well-formed, so permutations can be iterated (permute_axes_tree_ok),
      - the root value expanded through the correspondingly permuted axes map is unchanged
                                                                    (to_full_tensor_transpose),
      - trees accepted by the verified checker are well-formed      (check_tree_tree_ok). *)
From Qib Require Export TN.TNTreeCheck.
From Coq Require Import Permutation.
Local Open Scope Z_scope.
Local Open Scope nat_scope.

(* ------------------------------------------------------------------ permutations of 0..n-1 *)
Definition is_perm (p : list nat) : Prop := Permutation p (seq 0 (length p)).

Lemma nth_map_lt {A B} (f : A -> B) l i d d' : i < length l -> nth i (map f l) d = f (nth i l d').
Proof.
  intros H. rewrite (nth_indep _ d (f d')) by (rewrite map_length; exact H). apply map_nth.
Qed.

Lemma pick_length {A} (d : A) l p : length (pick d l p) = length p.
Proof. unfold pick. apply map_length. Qed.
Lemma pick_nth {A} (d : A) l p i : i < length p -> nth i (pick d l p) d = nth (nth i p O) l d.
Proof. intros H. unfold pick. apply (nth_map_lt (fun j => nth j l d)). exact H. Qed.

Lemma is_perm_lt p x : is_perm p -> In x p -> x < length p.
Proof. intros P H. apply (Permutation_in _ P) in H. apply in_seq in H. lia. Qed.
Lemma is_perm_NoDup p : is_perm p -> NoDup p.
Proof. intros P. apply (Permutation_NoDup (Permutation_sym P)). apply seq_NoDup. Qed.
Lemma is_perm_In p i : is_perm p -> i < length p -> In i p.
Proof. intros P H. apply (Permutation_in _ (Permutation_sym P)). apply in_seq. lia. Qed.
Lemma is_perm_intro p : NoDup p -> (forall x, In x p -> x < length p) -> is_perm p.
Proof.
  intros ND H. apply NoDup_Permutation_bis; [exact ND | rewrite seq_length; lia|].
  intros x Hx. apply in_seq. specialize (H x Hx). lia.
Qed.
Lemma is_perm_nth_lt p i : is_perm p -> i < length p -> nth i p O < length p.
Proof. intros P H. apply (is_perm_lt p _ P). apply nth_In. exact H. Qed.
Lemma is_perm_nth_inj p i j : is_perm p -> i < length p -> j < length p -> nth i p O = nth j p O -> i = j.
Proof. intros P. apply (proj1 (NoDup_nth p O)). apply is_perm_NoDup. exact P. Qed.

Lemma inv_perm_length p : length (inv_perm p) = length p.
Proof. unfold inv_perm. rewrite map_length, seq_length. reflexivity. Qed.
Lemma inv_perm_nth p i : i < length p ->
  nth i (inv_perm p) O = match nindex i p with Some k => k | None => O end.
Proof. intros H. unfold inv_perm. apply nth_map_seq. exact H. Qed.

(** p[inv[i]] = i *)
Lemma inv_perm_r p i : is_perm p -> i < length p ->
  nth i (inv_perm p) O < length p /\ nth (nth i (inv_perm p) O) p O = i.
Proof.
  intros P H. rewrite inv_perm_nth by exact H.
  destruct (nindex_Some i p (is_perm_In p i P H)) as [k Hk]. rewrite Hk. apply nindex_sound in Hk.
  split; [apply nth_error_Some; congruence | apply nth_error_nth; exact Hk].
Qed.
(** inv[p[i]] = i *)
Lemma inv_perm_l p i : is_perm p -> i < length p -> nth (nth i p O) (inv_perm p) O = i.
Proof.
  intros P H. pose proof (is_perm_nth_lt p i P H) as Hx.
  destruct (inv_perm_r p (nth i p O) P Hx) as [A B].
  apply (is_perm_nth_inj p _ _ P A H B).
Qed.
Lemma inv_perm_is_perm p : is_perm p -> is_perm (inv_perm p).
Proof.
  intros P. apply is_perm_intro.
  - apply (proj2 (NoDup_nth _ O)). rewrite inv_perm_length. intros i j Hi Hj E.
    destruct (inv_perm_r p i P Hi) as [_ A]. destruct (inv_perm_r p j P Hj) as [_ B]. congruence.
  - intros x Hx. rewrite inv_perm_length. apply (In_nth _ _ O) in Hx. destruct Hx as [i [Hi <-]].
    rewrite inv_perm_length in Hi. apply (inv_perm_r p i P Hi).
Qed.
Lemma inv_perm_invol p : is_perm p -> inv_perm (inv_perm p) = p.
Proof.
  intros P. pose proof (inv_perm_is_perm p P) as Q.
  apply (nth_ext _ _ O O); [rewrite !inv_perm_length; reflexivity|].
  intros i Hi. rewrite !inv_perm_length in Hi.
  assert (Hi' : i < length (inv_perm p)) by (rewrite inv_perm_length; exact Hi).
  destruct (inv_perm_r (inv_perm p) i Q Hi') as [A B]. rewrite inv_perm_length in A.
  pose proof (inv_perm_l p i P Hi) as C.
  apply (is_perm_nth_inj (inv_perm p) _ _ Q); rewrite ?inv_perm_length; try assumption.
  - apply is_perm_nth_lt; assumption.
  - congruence.
Qed.

(** picking a duplicate-free list by a permutation *)
Section Pick.
  Variables (o p : list nat).
  Hypothesis P : is_perm p.
  Hypothesis Len : length p = length o.

  Lemma pick_In l : In l (pick O o p) <-> In l o.
  Proof.
    unfold pick. rewrite in_map_iff. split.
    - intros [i [<- Hi]]. apply nth_In. rewrite <- Len. apply is_perm_lt; assumption.
    - intros H. apply (In_nth _ _ O) in H. destruct H as [i [Hi <-]]. exists i. split; [reflexivity|].
      apply is_perm_In; [exact P | lia].
  Qed.
  Lemma pick_nmem l : nmem l (pick O o p) = nmem l o.
  Proof.
    destruct (nmem l o) eqn:E.
    - apply nmem_In. apply pick_In. apply nmem_In. exact E.
    - apply nmem_false. rewrite pick_In. apply nmem_false. exact E.
  Qed.
  Lemma pick_NoDup : NoDup o -> NoDup (pick O o p).
  Proof.
    intros ND. apply (proj2 (NoDup_nth _ O)). rewrite pick_length. intros i j Hi Hj E.
    rewrite !pick_nth in E by assumption.
    apply (proj1 (NoDup_nth o O) ND) in E; try (rewrite <- Len; apply is_perm_nth_lt; assumption).
    apply (is_perm_nth_inj p i j P Hi Hj E).
  Qed.
  Lemma pick_nindex l : NoDup o ->
    nindex l (pick O o p) = option_map (fun i => nth i (inv_perm p) O) (nindex l o).
  Proof.
    intros ND. destruct (nindex l o) as [i|] eqn:E; cbn [option_map].
    - apply nindex_sound in E.
      assert (Hi : i < length p) by (rewrite Len; apply nth_error_Some; congruence).
      destruct (inv_perm_r p i P Hi) as [A B]. set (j := nth i (inv_perm p) O) in *.
      assert (Hj : nth_error (pick O o p) j = Some l).
      { rewrite (nth_error_nth' _ O) by (rewrite pick_length; exact A). f_equal.
        rewrite pick_nth by exact A. rewrite B. apply nth_error_nth. exact E. }
      destruct (nindex_Some l (pick O o p)) as [j' Hj']; [eapply nth_error_In; exact Hj|].
      rewrite Hj'. f_equal. apply nindex_sound in Hj'.
      apply (proj1 (NoDup_nth_error _) (pick_NoDup ND)); [apply nth_error_Some; congruence | congruence].
    - apply nindex_None. rewrite pick_In. apply nindex_None. exact E.
  Qed.
End Pick.

Lemma pick_pick (y a b : list nat) : (forall i, In i b -> i < length a) ->
  pick O (pick O y a) b = pick O y (pick O a b).
Proof.
  intros H. unfold pick. rewrite map_map. apply map_ext_in. intros i Hi.
  apply (nth_map_lt (fun j => nth j y O)). apply H. exact Hi.
Qed.

Lemma is_perm_pick o p : is_perm o -> is_perm p -> length p = length o -> is_perm (pick O o p).
Proof.
  intros Po Pp Len. apply is_perm_intro.
  - apply pick_NoDup; [assumption | assumption | apply is_perm_NoDup; assumption].
  - intros x Hx. rewrite pick_length, Len. apply (is_perm_lt o x Po). apply (pick_In o p Pp Len). exact Hx.
Qed.

(** argsort of a composed permutation *)
Lemma inv_perm_pick o p : is_perm o -> is_perm p -> length p = length o ->
  inv_perm (pick O o p) = pick O (inv_perm p) (inv_perm o).
Proof.
  intros Po Pp Len. apply (nth_ext _ _ O O).
  - rewrite inv_perm_length, !pick_length, inv_perm_length. exact Len.
  - intros i Hi. rewrite inv_perm_length, pick_length in Hi.
    rewrite inv_perm_nth by (rewrite pick_length; exact Hi).
    rewrite (pick_nindex o p Pp Len i (is_perm_NoDup o Po)).
    rewrite pick_nth by (rewrite inv_perm_length; lia).
    rewrite (inv_perm_nth o i) by lia.
    destruct (nindex_Some i o) as [k ->]; [apply is_perm_In; [assumption | lia]|]. reflexivity.
Qed.

Lemma label_dim_in_pick xl s p l : is_perm p -> length xl = length p -> length s = length p ->
  (forall i j, i < length xl -> j < length xl -> nth i xl O = nth j xl O -> nth i s O = nth j s O) ->
  label_dim_in (pick O xl p) (pick O s p) l = label_dim_in xl s l.
Proof.
  intros P Lx Ls Cons. destruct (in_dec Nat.eq_dec l xl) as [Hin|Hnin].
  - destruct (label_dim_in_some xl s l (eq_trans Ls (eq_sym Lx)) Hin) as [d E]. rewrite E.
    destruct (label_dim_in_some (pick O xl p) (pick O s p) l) as [d' E'].
    { rewrite !pick_length. reflexivity. }
    { apply (pick_In xl p P (eq_sym Lx)). exact Hin. }
    rewrite E'. f_equal.
    destruct (label_dim_in_sound _ _ _ _ E) as [ax [A1 [A2 _]]].
    destruct (label_dim_in_sound _ _ _ _ E') as [ax' [B1 [B2 _]]].
    assert (Hax : ax < length xl) by (apply nth_error_Some; congruence).
    assert (Hax' : ax' < length p) by (rewrite <- (pick_length O xl p); apply nth_error_Some; congruence).
    apply (nth_error_nth _ _ O) in A1, A2, B1, B2. rewrite pick_nth in B1, B2 by exact Hax'.
    rewrite <- A2, <- B2. apply Cons; [rewrite Lx; apply is_perm_nth_lt; assumption | exact Hax | congruence].
  - rewrite (label_dim_in_none xl s l Hnin). apply label_dim_in_none.
    rewrite (pick_In xl p P (eq_sym Lx)). exact Hnin.
Qed.

Lemma pick_map_inv (e : nat -> nat) xl p : is_perm p -> length xl = length p ->
  pick O (map e (pick O xl p)) (inv_perm p) = map e xl.
Proof.
  intros P Lx. apply (nth_ext _ _ O O).
  - rewrite pick_length, inv_perm_length, map_length. symmetry. exact Lx.
  - intros i Hi. rewrite pick_length, inv_perm_length in Hi.
    rewrite pick_nth by (rewrite inv_perm_length; exact Hi).
    destruct (inv_perm_r p i P Hi) as [A B].
    rewrite (nth_map_lt e _ _ O O) by (rewrite pick_length; exact A).
    rewrite pick_nth by exact A. rewrite B.
    symmetry. apply nth_map_lt. lia.
Qed.

(* ------------------------------------------------------------------ values *)
Section Permute.
  Context {K : Scalar} {L : ScalarLaws K}.
  Notation ksumN := (ksum (K:=K) Nat.eqb).
  Notation integ ops := (fun e : nat -> nat =>
    lprod (map (fun op : @tval K * list nat => snd (fst op) (map e (snd op))) ops)).

  Variables (n : net) (data : Z -> list nat -> K).

  (** equality of dense tensors: same shape, same entries (at every multi-index) *)
  Definition tv_eq (v w : @tval K) : Prop := fst v = fst w /\ forall y, snd v y = snd w y.

  Lemma tv_eq_refl v : tv_eq v v.
  Proof. split; reflexivity. Qed.
  Lemma tv_eq_sym v w : tv_eq v w -> tv_eq w v.
  Proof. intros [A B]. split; [symmetry; exact A | intros y; symmetry; apply B]. Qed.
  Lemma tv_eq_trans u v w : tv_eq u v -> tv_eq v w -> tv_eq u w.
  Proof. intros [A B] [C D]. split; [congruence | intros y; rewrite B; apply D]. Qed.

  Lemma tv_transpose_cong v w p : tv_eq v w -> tv_eq (tv_transpose v p) (tv_transpose w p).
  Proof. intros [A B]. unfold tv_transpose. split; cbn [fst snd]; [rewrite A; reflexivity | intros y; apply B]. Qed.

  Lemma ksum_ext_all kd (F G : (nat -> nat) -> K) : (forall e, F e = G e) ->
    forall e0, ksumN kd F e0 = ksumN kd G e0.
  Proof.
    intros H. induction kd as [|[k d] kd IH]; intros e0; cbn [ksum]; [apply H|].
    apply lsum_map_ext. intros v _. apply IH.
  Qed.

  Lemma resp_integ (ops : list (@tval K * list nat)) : resp (integ ops).
  Proof.
    intros e e' H. apply lprod_map_ext. intros op _. f_equal. apply map_ext. intros; apply H.
  Qed.

  (** when two einsum calls with the same output labels agree *)
  Lemma einsum_sem_eq (ops ops' : list (@tval K * list nat)) o :
    (forall l, label_dim ops' l = label_dim ops l) ->
    (forall l, In l (concat (map snd ops')) <-> In l (concat (map snd ops))) ->
    (forall e, integ ops' e = integ ops e) ->
    tv_eq (einsum_sem ops' o) (einsum_sem ops o).
  Proof.
    intros HA HB HC. unfold einsum_sem. split; cbn [fst snd]; [apply map_ext; exact HA|].
    intros y.
    rewrite (map_ext (fun l => (l, label_dim ops' l)) (fun l => (l, label_dim ops l))) by (intros l; rewrite HA; reflexivity).
    rewrite (ksum_perm Nat.eqb neqb_eq _
               (map (fun l => (l, label_dim ops l))
                    (filter (fun l => negb (nmem l o)) (nnodup (concat (map snd ops)))))).
    - apply ksum_ext_all. exact HC.
    - apply Permutation_map. apply NoDup_Permutation; try (apply NoDup_filter, nnodup_spec).
      intros l. rewrite !filter_In, !(proj2 (nnodup_spec _)), HB. reflexivity.
    - rewrite map_map. cbn [fst]. rewrite map_id. apply NoDup_filter, nnodup_spec.
    - apply resp_integ.
  Qed.

  (** congruence: tv_eq operands give tv_eq results *)
  Lemma einsum_cong vl vl' vr vr' xl xr o : tv_eq vl' vl -> tv_eq vr' vr ->
    tv_eq (einsum_sem [(vl', xl); (vr', xr)] o) (einsum_sem [(vl, xl); (vr, xr)] o).
  Proof.
    intros [A1 A2] [B1 B2]. apply einsum_sem_eq.
    - intros l. cbn [label_dim]. rewrite A1, B1. reflexivity.
    - intros l. reflexivity.
    - intros e. cbn [map fst snd]. rewrite A2, B2. reflexivity.
  Qed.

  (** shape of an operand consistent with its index list: equal labels carry equal dimensions *)
  Definition shape_ok (s : list nat) (xc : list nat) : Prop :=
    length s = length xc /\
    forall i j, i < length xc -> j < length xc -> nth i xc O = nth j xc O -> nth i s O = nth j s O.

  (** transposing the left operand together with its index list *)
  Lemma einsum_transpose_l vl vr xl xr o p : is_perm p -> length p = length xl -> shape_ok (fst vl) xl ->
    tv_eq (einsum_sem [(tv_transpose vl p, pick O xl p); (vr, xr)] o) (einsum_sem [(vl, xl); (vr, xr)] o).
  Proof.
    intros P Lp [Ls Cons]. apply einsum_sem_eq.
    - intros l. cbn [label_dim tv_transpose fst].
      rewrite (label_dim_in_pick xl (fst vl) p l P (eq_sym Lp) (eq_trans Ls (eq_sym Lp)) Cons). reflexivity.
    - intros l. cbn [map snd concat]. rewrite !in_app_iff, (pick_In xl p P Lp). reflexivity.
    - intros e. cbn [map fst snd tv_transpose]. rewrite (pick_map_inv e xl p P (eq_sym Lp)). reflexivity.
  Qed.
  Lemma einsum_transpose_r vl vr xl xr o p : is_perm p -> length p = length xr -> shape_ok (fst vr) xr ->
    tv_eq (einsum_sem [(vl, xl); (tv_transpose vr p, pick O xr p)] o) (einsum_sem [(vl, xl); (vr, xr)] o).
  Proof.
    intros P Lp [Ls Cons]. apply einsum_sem_eq.
    - intros l. cbn [label_dim tv_transpose fst].
      rewrite (label_dim_in_pick xr (fst vr) p l P (eq_sym Lp) (eq_trans Ls (eq_sym Lp)) Cons). reflexivity.
    - intros l. cbn [map snd concat]. rewrite !in_app_iff, (pick_In xr p P Lp). reflexivity.
    - intros e. cbn [map fst snd tv_transpose]. rewrite (pick_map_inv e xr p P (eq_sym Lp)). reflexivity.
  Qed.

  (** permuting the output labels transposes the result *)
  Lemma einsum_out_perm (ops : list (@tval K * list nat)) o p : NoDup o -> is_perm p -> length p = length o ->
    tv_eq (einsum_sem ops (pick O o p)) (tv_transpose (einsum_sem ops o) p).
  Proof.
    intros ND P Lp. unfold einsum_sem, tv_transpose. split; cbn [fst snd].
    - unfold pick. rewrite !map_map. apply map_ext_in. intros i Hi.
      symmetry. apply nth_map_lt. rewrite <- Lp. apply is_perm_lt; assumption.
    - intros y.
      rewrite (filter_ext (fun l => negb (nmem l (pick O o p))) (fun l => negb (nmem l o)))
        by (intros l; rewrite (pick_nmem o p P Lp); reflexivity).
      apply (ksum_env_ext Nat.eqb); [apply resp_integ|].
      intros l. unfold env_of. rewrite (pick_nindex o p P Lp l ND).
      destruct (nindex l o) as [i|] eqn:E; cbn [option_map]; [|reflexivity].
      apply nindex_sound in E. symmetry. apply pick_nth. rewrite inv_perm_length, Lp.
      apply nth_error_Some. congruence.
  Qed.

  (** numpy.transpose twice *)
  Lemma tv_transpose_comp (X : @tval K) o p : is_perm o -> is_perm p -> length p = length o ->
    tv_eq (tv_transpose X (pick O o p)) (tv_transpose (tv_transpose X o) p).
  Proof.
    intros Po Pp Lp. unfold tv_transpose. split; cbn [fst snd].
    - symmetry. apply pick_pick. intros i Hi. rewrite <- Lp. apply is_perm_lt; assumption.
    - intros y. rewrite (inv_perm_pick o p Po Pp Lp). f_equal. symmetry. apply pick_pick.
      intros i Hi. rewrite inv_perm_length, Lp, <- (inv_perm_length o).
      apply is_perm_lt; [apply inv_perm_is_perm; assumption | exact Hi].
  Qed.

  (* ---------------------------------------------------------------- well-formed trees *)
  (** what numpy.einsum demands of an operand: as many axes as index labels, equal labels on
      axes of equal dimension *)
  Definition opnd_ok (c : tree) (xc : list nat) : Prop :=
    forall v, tree_eval n data c = Some v ->
      length (fst v) = length xc /\
      forall i j, i < length xc -> j < length xc -> nth i xc O = nth j xc O -> nth i (fst v) O = nth j (fst v) O.

  Fixpoint tree_ok (t : tree) : Prop :=
    match t with
    | TLeaf tid o _ _ => exists x, dget tid (tensors n) = Some x /\ is_perm o /\ length o = length (t_shape x)
    | TNode _ l xl r xr o _ _ => tree_ok l /\ tree_ok r /\ NoDup o /\ opnd_ok l xl /\ opnd_ok r xr
    end.

  Lemma tree_eval_len t v : tree_eval n data t = Some v -> length (fst v) = length (tr_out t).
  Proof.
    destruct t as [tid o a k | i l xl r xr o a k]; cbn [tree_eval tr_out].
    - destruct (dget tid (tensors n)); [|discriminate]. cbn [option_map]. intros [= <-].
      unfold tv_transpose. cbn [fst]. apply pick_length.
    - destruct (tree_eval n data l); [|discriminate]. destruct (tree_eval n data r); [|discriminate].
      intros [= <-]. unfold einsum_sem. cbn [fst]. apply map_length.
  Qed.

  Lemma tree_ok_eval t : tree_ok t -> exists v, tree_eval n data t = Some v.
  Proof.
    induction t as [tid o a k | i l IHl xl r IHr xr o a k]; cbn [tree_ok tree_eval].
    - intros [x [E _]]. rewrite E. cbn [option_map]. eauto.
    - intros [Hl [Hr _]]. destruct (IHl Hl) as [vl ->]. destruct (IHr Hr) as [vr ->]. eauto.
  Qed.

  Lemma permute_self_len t p t' : permute_self t p = Some t' -> length p = length (tr_out t).
  Proof.
    unfold permute_self. destruct (Nat.eqb_spec (length p) (length (tr_out t))) as [E|E]; cbn [negb]; [|discriminate].
    intros _. exact E.
  Qed.

  Lemma permute_axes_nil t p : permute_axes t [] p = permute_self t p.
  Proof. destruct t; reflexivity. Qed.

  (** the permuted node itself: its value is transposed *)
  Theorem permute_self_value t p t' v : tree_ok t -> is_perm p -> permute_self t p = Some t' ->
    tree_eval n data t = Some v ->
    exists v', tree_eval n data t' = Some v' /\ tv_eq v' (tv_transpose v p).
  Proof.
    intros OK P HP HE. pose proof (permute_self_len t p t' HP) as Lp.
    unfold permute_self in HP. rewrite Lp, Nat.eqb_refl in HP. cbn [negb] in HP.
    destruct t as [tid o a k | i l xl r xr o a k]; cbn [tr_out] in Lp; injection HP as <-; cbn [tree_eval tree_ok] in *.
    - destruct OK as [x [Ex [Po _]]]. rewrite Ex in *. cbn [option_map] in *. injection HE as <-.
      eexists. split; [reflexivity|]. apply tv_transpose_comp; assumption.
    - destruct OK as [_ [_ [ND _]]].
      destruct (tree_eval n data l) as [vl|]; [|discriminate]. destruct (tree_eval n data r) as [vr|]; [|discriminate].
      injection HE as <-. eexists. split; [reflexivity|]. apply einsum_out_perm; assumption.
  Qed.

  (** permute_axes at any depth: every strict ancestor of the permuted node keeps its value *)
  Theorem permute_axes_value t path p t' v : tree_ok t -> is_perm p -> permute_axes t path p = Some t' ->
    tree_eval n data t = Some v ->
    exists v', tree_eval n data t' = Some v' /\
      match path with [] => tv_eq v' (tv_transpose v p) | _ => tv_eq v' v end.
  Proof.
    intros OK P. revert t t' v OK. induction path as [|d rest IH]; intros t t' v OK HP HE.
    - rewrite permute_axes_nil in HP. apply (permute_self_value t p t' v OK P HP HE).
    - destruct t as [tid o a k | i l xl r xr o a k]; cbn [permute_axes] in HP; [discriminate|].
      cbn [tree_ok] in OK. destruct OK as [OKl [OKr [ND [Ol Or]]]].
      cbn [tree_eval] in HE.
      destruct (tree_eval n data l) as [vl|] eqn:El; [|discriminate].
      destruct (tree_eval n data r) as [vr|] eqn:Er; [|discriminate]. injection HE as <-.
      destruct d.
      + destruct (permute_axes l rest p) as [l'|] eqn:Epl; [|discriminate]. injection HP as <-.
        destruct (IH l l' vl OKl Epl El) as [vl' [El' T]]. cbn [tree_eval]. rewrite El', Er.
        eexists. split; [reflexivity|]. destruct rest as [|d' rest'].
        * rewrite permute_axes_nil in Epl. pose proof (permute_self_len l p l' Epl) as Lp.
          destruct (Ol vl El) as [Ls Cons]. rewrite <- (tree_eval_len l vl El), Ls in Lp.
          eapply tv_eq_trans; [apply (einsum_cong _ _ _ _ _ _ _ T (tv_eq_refl vr))|].
          apply einsum_transpose_l; [exact P | exact Lp | split; assumption].
        * apply einsum_cong; [exact T | apply tv_eq_refl].
      + destruct (permute_axes r rest p) as [r'|] eqn:Epr; [|discriminate]. injection HP as <-.
        destruct (IH r r' vr OKr Epr Er) as [vr' [Er' T]]. cbn [tree_eval]. rewrite El, Er'.
        eexists. split; [reflexivity|]. destruct rest as [|d' rest'].
        * rewrite permute_axes_nil in Epr. pose proof (permute_self_len r p r' Epr) as Lp.
          destruct (Or vr Er) as [Ls Cons]. rewrite <- (tree_eval_len r vr Er), Ls in Lp.
          eapply tv_eq_trans; [apply (einsum_cong _ _ _ _ _ _ _ (tv_eq_refl vl) T)|].
          apply einsum_transpose_r; [exact P | exact Lp | split; assumption].
        * apply einsum_cong; [apply tv_eq_refl | exact T].
  Qed.

  (** in particular: the root of a tree is unchanged by permuting any other node *)
  Corollary permute_axes_root_value t d rest p t' v : tree_ok t -> is_perm p ->
    permute_axes t (d :: rest) p = Some t' -> tree_eval n data t = Some v ->
    exists v', tree_eval n data t' = Some v' /\ tv_eq v' v.
  Proof. intros OK P HP HE. apply (permute_axes_value t (d :: rest) p t' v OK P HP HE). Qed.

  (* ---------------------------------------------------------------- well-formedness is preserved *)
  Lemma opnd_ok_same c c' xc : (forall v, tree_eval n data c = Some v -> exists v', tree_eval n data c' = Some v' /\ tv_eq v' v) ->
    tree_ok c -> opnd_ok c xc -> opnd_ok c' xc.
  Proof.
    intros H OK O v' E'. destruct (tree_ok_eval c OK) as [v E]. destruct (H v E) as [v'' [E'' [T _]]].
    rewrite E' in E''. injection E'' as <-. rewrite T. apply (O v E).
  Qed.

  Lemma opnd_ok_pick c c' xc p : is_perm p -> length p = length xc ->
    (forall v, tree_eval n data c = Some v -> exists v', tree_eval n data c' = Some v' /\ tv_eq v' (tv_transpose v p)) ->
    tree_ok c -> opnd_ok c xc -> opnd_ok c' (pick O xc p).
  Proof.
    intros P Lp H OK O v' E'. destruct (tree_ok_eval c OK) as [v E]. destruct (H v E) as [v'' [E'' [T _]]].
    rewrite E' in E''. injection E'' as <-. rewrite T. destruct (O v E) as [Ls Cons].
    unfold tv_transpose. cbn [fst]. rewrite !pick_length. split; [reflexivity|].
    intros i j Hi Hj. rewrite !pick_nth by assumption. apply Cons; rewrite <- Lp; apply is_perm_nth_lt; assumption.
  Qed.

  Theorem permute_self_tree_ok t p t' : tree_ok t -> is_perm p -> permute_self t p = Some t' -> tree_ok t'.
  Proof.
    intros OK P HP. pose proof (permute_self_len t p t' HP) as Lp.
    unfold permute_self in HP. rewrite Lp, Nat.eqb_refl in HP. cbn [negb] in HP.
    destruct t as [tid o a k | i l xl r xr o a k]; cbn [tr_out] in Lp; injection HP as <-; cbn [tree_ok] in *.
    - destruct OK as [x [Ex [Po Lo]]]. exists x. split; [exact Ex|]. split; [apply is_perm_pick; assumption|].
      rewrite pick_length. congruence.
    - destruct OK as [A [B [ND [C D]]]]. split; [exact A|]. split; [exact B|]. split; [|split; assumption].
      apply pick_NoDup; assumption.
  Qed.

  Theorem permute_axes_tree_ok t path p t' : tree_ok t -> is_perm p -> permute_axes t path p = Some t' -> tree_ok t'.
  Proof.
    intros OK P. revert t t' OK. induction path as [|d rest IH]; intros t t' OK HP.
    - rewrite permute_axes_nil in HP. apply (permute_self_tree_ok t p t' OK P HP).
    - destruct t as [tid o a k | i l xl r xr o a k]; cbn [permute_axes] in HP; [discriminate|].
      cbn [tree_ok] in OK. destruct OK as [OKl [OKr [ND [Ol Or]]]].
      destruct d.
      + destruct (permute_axes l rest p) as [l'|] eqn:Epl; [|discriminate]. injection HP as <-.
        cbn [tree_ok]. split; [apply (IH l l' OKl Epl)|]. split; [exact OKr|]. split; [exact ND|]. split; [|exact Or].
        destruct rest as [|d' rest'].
        * rewrite permute_axes_nil in Epl. pose proof (permute_self_len l p l' Epl) as Lp.
          destruct (tree_ok_eval l OKl) as [vl El]. destruct (Ol vl El) as [Ls _].
          rewrite <- (tree_eval_len l vl El), Ls in Lp.
          apply (opnd_ok_pick l l' xl p P Lp); [|exact OKl | exact Ol].
          intros v E. apply (permute_self_value l p l' v OKl P Epl E).
        * apply (opnd_ok_same l l' xl); [|exact OKl | exact Ol].
          intros v E. apply (permute_axes_value l (d' :: rest') p l' v OKl P Epl E).
      + destruct (permute_axes r rest p) as [r'|] eqn:Epr; [|discriminate]. injection HP as <-.
        cbn [tree_ok]. split; [exact OKl|]. split; [apply (IH r r' OKr Epr)|]. split; [exact ND|]. split; [exact Ol|].
        destruct rest as [|d' rest'].
        * rewrite permute_axes_nil in Epr. pose proof (permute_self_len r p r' Epr) as Lp.
          destruct (tree_ok_eval r OKr) as [vr Er]. destruct (Or vr Er) as [Ls _].
          rewrite <- (tree_eval_len r vr Er), Ls in Lp.
          apply (opnd_ok_pick r r' xr p P Lp); [|exact OKr | exact Or].
          intros v E. apply (permute_self_value r p r' v OKr P Epr E).
        * apply (opnd_ok_same r r' xr); [|exact OKr | exact Or].
          intros v E. apply (permute_axes_value r (d' :: rest') p r' v OKr P Epr E).
  Qed.

  (* ---------------------------------------------------------------- the expanded (dense) result *)
  Lemma find_pos_pick q amap a0 : is_perm q -> a0 < length q -> (forall a, In a amap -> a < length q) ->
    forall off, find_pos (nth a0 q O) (pick O q amap) off = find_pos a0 amap off.
  Proof.
    intros Q Ha0. induction amap as [|a r IH]; intros H off; [reflexivity|].
    cbn [pick map find_pos]. fold (pick O q r).
    assert (Ha : a < length q) by (apply H; left; reflexivity).
    rewrite IH by (intros a' Ha'; apply H; right; exact Ha').
    destruct (Nat.eqb_spec a a0) as [->|Hne]; [rewrite Nat.eqb_refl; reflexivity|].
    destruct (Nat.eqb_spec (nth a q O) (nth a0 q O)) as [E|E]; [|reflexivity].
    exfalso. apply Hne. apply (is_perm_nth_inj q a a0 Q Ha Ha0 E).
  Qed.

  Lemma full_valid_pick q amap x : is_perm q -> (forall a, In a amap -> a < length q) ->
    full_valid (pick O q amap) x = full_valid amap x.
  Proof.
    intros Q H. unfold full_valid. rewrite pick_length. apply forallb_ext_in. intros j Hj. apply in_seq in Hj.
    assert (Hj' : j < length amap) by lia.
    rewrite pick_nth by exact Hj'.
    rewrite find_pos_pick; [reflexivity | exact Q | apply H; apply nth_In; exact Hj' | exact H].
  Qed.

  (** transposing the root value and re-indexing the axes map accordingly leaves the dense
      (logical) tensor unchanged *)
  Theorem to_full_tensor_transpose (v v' : @tval K) p amap : is_perm p -> length p = length (fst v) ->
    (forall a, In a amap -> a < length p) -> tv_eq v' (tv_transpose v p) ->
    tv_eq (to_full_tensor v' (pick O (inv_perm p) amap)) (to_full_tensor v amap).
  Proof.
    intros P Lp Ha [T1 T2]. unfold tv_transpose in T1, T2. cbn [fst snd] in T1, T2.
    pose proof (inv_perm_is_perm p P) as Q.
    assert (Ha' : forall a, In a amap -> a < length (inv_perm p)) by (intros a Hin; rewrite inv_perm_length; apply Ha; exact Hin).
    unfold to_full_tensor. split; cbn [fst snd].
    - unfold pick at 1. rewrite map_map. apply map_ext_in. intros a Hin. rewrite T1.
      destruct (inv_perm_r p a P (Ha a Hin)) as [A B]. rewrite pick_nth by exact A. rewrite B. reflexivity.
    - intros x. rewrite (full_valid_pick (inv_perm p) amap x Q Ha').
      destruct (full_valid amap x); [|reflexivity]. rewrite T2. f_equal.
      apply (nth_ext _ _ O O).
      + rewrite pick_length, inv_perm_length. unfold full_idx. rewrite map_length, seq_length. exact Lp.
      + intros k Hk. rewrite pick_length, inv_perm_length in Hk.
        rewrite pick_nth by (rewrite inv_perm_length; exact Hk).
        destruct (inv_perm_r p k P Hk) as [A B].
        unfold full_idx. rewrite T1, pick_length.
        rewrite nth_map_seq by exact A. rewrite nth_map_seq by (rewrite <- Lp; exact Hk).
        rewrite (find_pos_pick (inv_perm p) amap k Q) by (rewrite ?inv_perm_length; assumption).
        rewrite pick_nth by exact A. rewrite B. reflexivity.
  Qed.

  (** the form contract_tree uses: value transposed by argsort(sort_indices), axes map
      re-indexed by sort_indices *)
  Corollary to_full_tensor_sorted (v v' : @tval K) si amap : is_perm si -> length si = length (fst v) ->
    (forall a, In a amap -> a < length si) -> tv_eq v' (tv_transpose v (inv_perm si)) ->
    tv_eq (to_full_tensor v' (pick O si amap)) (to_full_tensor v amap).
  Proof.
    intros P Lp Ha T. rewrite <- (inv_perm_invol si P) at 1.
    apply to_full_tensor_transpose; [apply inv_perm_is_perm; exact P | | | exact T]; rewrite inv_perm_length; assumption.
  Qed.

  (** permuting the root of a tree and the axes map together: same dense result *)
  Corollary permute_root_full t si t' v amap : tree_ok t -> is_perm si ->
    (forall a, In a amap -> a < length si) ->
    permute_self t (inv_perm si) = Some t' -> tree_eval n data t = Some v ->
    exists v', tree_eval n data t' = Some v' /\
      tv_eq (to_full_tensor v' (pick O si amap)) (to_full_tensor v amap).
  Proof.
    intros OK P Ha HP HE. pose proof (inv_perm_is_perm si P) as Q.
    destruct (permute_self_value t (inv_perm si) t' v OK Q HP HE) as [v' [E' T]].
    exists v'. split; [exact E'|]. apply to_full_tensor_sorted; try assumption.
    pose proof (permute_self_len t _ t' HP) as Lp. rewrite inv_perm_length in Lp.
    rewrite (tree_eval_len t v HE). exact Lp.
  Qed.

  (* ---------------------------------------------------------------- link to the verified checker *)
  Section Checker.
    Hypothesis W : WF n.

    Lemma surj_is_perm o : (forall ax, ax < length o -> In ax o) -> is_perm o.
    Proof.
      intros H.
      assert (I : incl (seq 0 (length o)) o) by (intros ax Hax; apply in_seq in Hax; apply H; lia).
      assert (LE : length o <= length (seq 0 (length o))) by (rewrite seq_length; lia).
      apply is_perm_intro.
      - apply (NoDup_incl_NoDup (seq_NoDup (length o) 0) LE I).
      - intros x Hx. apply (NoDup_length_incl (seq_NoDup (length o) 0) LE I) in Hx. apply in_seq in Hx. lia.
    Qed.

    Lemma check_leaf_ok tid o a k : check_tree n (TLeaf tid o a k) = true -> tree_ok (TLeaf tid o a k).
    Proof.
      cbn [check_tree tree_ok]. rewrite andb_true_iff. intros [_ H].
      destruct (dget tid (tensors n)) as [x|]; [|discriminate].
      rewrite !andb_true_iff in H. destruct H as [[[[H1 H2] _] _] H5].
      apply Nat.eqb_eq in H1, H2. rewrite forallb_forall in H5.
      exists x. split; [reflexivity|]. split; [|congruence].
      apply surj_is_perm. intros ax Hax. rewrite H2 in Hax.
      specialize (H5 ax (proj2 (in_seq _ _ _) (conj (Nat.le_0_l ax) Hax))). apply Nat.eqb_eq in H5.
      destruct (Nat.lt_ge_cases (nth ax k O) (length o)) as [A|A].
      - rewrite <- H5. apply nth_In. exact A.
      - rewrite nth_overflow in H5 by exact A. lia.
    Qed.

    (** a position that trackaxes can name is the first occurrence of its label *)
    Lemma idx_first o p : p < length o -> (p = O \/ exists x, p = idx_n x o) -> nindex (nth p o O) o = Some p.
    Proof.
      intros Hp H.
      assert (Z0 : O < length o -> nindex (nth O o O) o = Some O).
      { destruct o as [|y r]; cbn [length]; [lia|]. intros _. cbn [nth nindex]. rewrite Nat.eqb_refl. reflexivity. }
      destruct H as [->|[x ->]]; [apply Z0; exact Hp|].
      unfold idx_n in *. destruct (nindex x o) as [q|] eqn:E; [|apply Z0; exact Hp].
      rewrite (nth_error_nth _ _ O (nindex_sound _ _ _ E)). exact E.
    Qed.

    (** a node all of whose axes are tracked has distinct output labels (trackaxes only ever
        names first occurrences) *)
    Lemma covered_node_NoDup i l xl r xr o a k : check_node n l xl r xr o a k = true ->
      covered (TNode i l xl r xr o a k) (length o) = true -> NoDup o.
    Proof.
      intros HC Cov. destruct (covered_spec _ _ Cov) as [C1 _].
      destruct (node_facts n l r xl xr o a k HC) as [_ [_ [_ [_ [_ [_ [_ [_ [_ [_ [F12 _]]]]]]]]]]].
      assert (First : forall p, p < length o -> nindex (nth p o O) o = Some p).
      { intros p Hp. apply idx_first; [exact Hp|]. destruct (C1 p Hp) as [e [_ Te]].
        rewrite trackd_node in Te. destruct (obind (leg_index e a) (fun j => nth_error k j)) as [q|] eqn:Eq; [|left; congruence].
        right. subst q. destruct (leg_index e a) as [j|]; [|discriminate]. cbn [obind] in Eq.
        apply nth_error_In in Eq. rewrite F12 in Eq. apply in_app_or in Eq.
        destruct Eq as [Eq|Eq]; apply in_map_iff in Eq; destruct Eq as [e' [Eq _]]; eauto. }
      apply (proj2 (NoDup_nth o O)). intros p q Hp Hq E.
      pose proof (First p Hp) as A. pose proof (First q Hq) as B. rewrite E in A. congruence.
    Qed.

    Lemma covered_out_NoDup t : check_tree n t = true -> covered t (length (tr_out t)) = true -> NoDup (tr_out t).
    Proof.
      destruct t as [tid o a k | i l xl r xr o a k]; intros H Cov; cbn [tr_out] in *.
      - destruct (check_leaf_ok tid o a k H) as [x [_ [Po _]]]. apply is_perm_NoDup. exact Po.
      - cbn [check_tree] in H. rewrite !andb_true_iff in H. destruct H as [_ H3].
        apply (covered_node_NoDup i l xl r xr o a k H3 Cov).
    Qed.

    Lemma check_opnd_ok c xc (lbl : list (nat * Z)) : check_tree n c = true ->
      length xc = length (tr_out c) -> covered c (length xc) = true ->
      (forall e, In e (tr_oax c) -> In (nth (trackd c e) xc O, bondd n e) lbl) ->
      (forall p q, In p lbl -> In q lbl -> fst p = fst q -> snd p = snd q) ->
      opnd_ok c xc.
    Proof.
      intros HC Len Cov Hin Fun v Hv.
      destruct (check_tree_sound n data W c HC) as [v0 [E G]]. rewrite Hv in E. injection E as <-.
      destruct (covered_spec _ _ Cov) as [C1 _].
      split; [rewrite Len; apply (g_len _ _ _ _ G)|].
      intros i j Hi Hj Eij. destruct (C1 i Hi) as [ei [Hei Ti]]. destruct (C1 j Hj) as [ej [Hej Tj]].
      pose proof (Hin ei Hei) as Pi. pose proof (Hin ej Hej) as Pj. rewrite Ti in Pi. rewrite Tj in Pj.
      pose proof (Fun _ _ Pi Pj Eij) as Eb. cbn [snd] in Eb.
      pose proof (g_shp _ _ _ _ G ei Hei) as Si. pose proof (g_shp _ _ _ _ G ej Hej) as Sj.
      rewrite Ti in Si. rewrite Tj in Sj. rewrite Si, Sj, Eb. reflexivity.
    Qed.

    (** trees accepted by the checker are well-formed; the checker does not look at
        duplicates in the idxout of the root itself (for inner nodes it is implied by the
        parent's coverage check), hence the premise on the root's idxout *)
    Theorem check_tree_tree_ok t : check_tree n t = true -> NoDup (tr_out t) -> tree_ok t.
    Proof.
      induction t as [tid o a k | i l IHl xl r IHr xr o a k]; intros H ND.
      - apply check_leaf_ok. exact H.
      - cbn [check_tree] in H. rewrite !andb_true_iff in H. destruct H as [[H1 H2] H3].
        destruct (node_facts n l r xl xr o a k H3) as [[F1 F2] [F3 [F4 [_ [_ [F7 _]]]]]].
        cbn [tree_ok tr_out] in *.
        split; [apply IHl; [exact H1 | apply covered_out_NoDup; [exact H1 | rewrite <- F1; exact F3]]|].
        split; [apply IHr; [exact H2 | apply covered_out_NoDup; [exact H2 | rewrite <- F2; exact F4]]|].
        split; [exact ND|]. split.
        + apply (check_opnd_ok l xl (lbl_of n l xl r xr) H1 F1 F3); [|exact F7].
          intros e He. unfold lbl_of. apply in_or_app. left. apply in_map_iff. exists e. auto.
        + apply (check_opnd_ok r xr (lbl_of n l xl r xr) H2 F2 F4); [|exact F7].
          intros e He. unfold lbl_of. apply in_or_app. right. apply in_map_iff. exists e. auto.
    Qed.

    (** the same with the premise spelled out for every inner node *)
    Fixpoint outs_nodup (t : tree) : Prop :=
      match t with
      | TLeaf _ _ _ _ => True
      | TNode _ l _ r _ o _ _ => outs_nodup l /\ outs_nodup r /\ NoDup o
      end.
    Corollary check_tree_tree_ok_outs t : check_tree n t = true -> outs_nodup t -> tree_ok t.
    Proof.
      destruct t as [tid o a k | i l xl r xr o a k]; intros H ON; [apply check_leaf_ok; exact H|].
      apply check_tree_tree_ok; [exact H | apply ON].
    Qed.

    (** the root check includes the coverage of the root: no extra premise *)
    Theorem check_root_tree_ok t amap : check_root n t amap = true -> tree_ok t.
    Proof.
      intros HR. unfold check_root in HR. cbv zeta in HR. rewrite !andb_true_iff in HR.
      destruct HR as [[[[[[[[[[[[R1 R2] _] _] _] _] _] _] _] _] _] _] _].
      apply check_tree_tree_ok; [exact R1 | apply covered_out_NoDup; assumption].
    Qed.
  End Checker.
End Permute.
