(** A binary einsum of two operands that are themselves keyed sums is one keyed sum
    (product of sums, exchange of the summations, summed labels become new keys). *)
From Qib Require Export TN.TNEinsumPort.
From Coq Require Import Permutation.
Local Open Scope Z_scope.

Lemma NoDup_app_inv {A} (a b : list A) : NoDup (a ++ b) ->
  NoDup a /\ NoDup b /\ forall x, In x a -> ~ In x b.
Proof.
  induction a as [|x a IH]; cbn; intros H; [split; [constructor | split; [assumption | intros ? []]]|].
  inversion H; subst. destruct (IH H3) as [Ha [Hb Hc]]. split; [|split; [assumption|]].
  - constructor; [|assumption]. intros E. apply H2. apply in_or_app. left. exact E.
  - intros y [<-|Hy]; [intros E; apply H2; apply in_or_app; right; exact E | apply Hc; exact Hy].
Qed.

Section MoreKSum.
  Context {K : Scalar} {L : ScalarLaws K}.
  Local Open Scope K_scope.
  Add Ring KringF : (s_ring K L).

  Notation ksumZ := (ksum (K:=K) Z.eqb).
  Notation ksumN := (ksum (K:=K) Nat.eqb).

  (** [F] only looks at the keys in [ks] *)
  Definition localZ (ks : list Z) (F : (Z -> nat) -> K) : Prop :=
    forall s s', (forall k, In k ks -> s k = s' k) -> F s = F s'.

  Lemma ksum_agree kd : forall (F : (Z -> nat) -> K) ks e e',
    localZ (ks ++ map fst kd) F -> (forall k, In k ks -> e k = e' k) -> ksumZ kd F e = ksumZ kd F e'.
  Proof.
    induction kd as [|[k d] kd IH]; intros F ks e e' HF He; cbn [ksum].
    - apply HF. intros k Hk. rewrite app_nil_r in Hk. apply He. exact Hk.
    - apply lsum_map_ext. intros v _. apply (IH F (ks ++ [k])).
      + intros s s' H. apply HF. intros k' Hk'. apply H. cbn [map fst] in Hk'.
        apply in_app_or in Hk'. destruct Hk' as [Hk'|[<-|Hk']].
        * apply in_or_app. left. apply in_or_app. left. exact Hk'.
        * apply in_or_app. left. apply in_or_app. right. left. reflexivity.
        * apply in_or_app. right. exact Hk'.
      + intros k' Hk'. unfold upd. destruct (Z.eqb_spec k' k); [reflexivity|].
        apply in_app_or in Hk'. destruct Hk' as [Hk'|[E|[]]]; [apply He; exact Hk' | congruence].
  Qed.
  Lemma ksum_base kd (F : (Z -> nat) -> K) e e' : localZ (map fst kd) F -> ksumZ kd F e = ksumZ kd F e'.
  Proof. intros HF. apply (ksum_agree kd F []); [exact HF | intros k []]. Qed.

  Lemma ksum_scal_r kd (c : K) (F : (Z -> nat) -> K) e : ksumZ kd (fun s => F s * c) e = ksumZ kd F e * c.
  Proof.
    revert e. induction kd as [|[k d] kd IH]; intros e; cbn [ksum]; [reflexivity|].
    rewrite <- lsum_map_scal_r. apply lsum_map_ext. intros v _. apply IH.
  Qed.

  (** product of two sums over disjoint key sets *)
  Lemma ksum_mul CA CB (F G : (Z -> nat) -> K) e0 :
    NoDup (map fst CA ++ map fst CB) -> localZ (map fst CA) F -> localZ (map fst CB) G ->
    ksumZ CA F e0 * ksumZ CB G e0 = ksumZ (CA ++ CB) (fun s => F s * G s) e0.
  Proof.
    intros ND HF HG. rewrite ksum_app.
    destruct (NoDup_app_inv _ _ ND) as [NA [NB Dis]].
    rewrite <- ksum_scal_r. apply (ksum_ext Z.eqb zeqb_eq); [assumption|]. intros s _.
    transitivity (ksumZ CB (fun s' => F s * G s') s).
    - rewrite ksum_scal. f_equal. apply ksum_base. assumption.
    - apply (ksum_ext Z.eqb zeqb_eq); [assumption|]. intros s' [R1 _]. f_equal.
      apply HF. intros k Hk. symmetry. apply R1. apply Dis. assumption.
  Qed.

  (** a finite sum commutes with a keyed sum *)
  Lemma ksum_lsum {A} kd (f : A -> (Z -> nat) -> K) (l : list A) : forall e,
    ksumZ kd (fun s => lsum (map (fun v => f v s) l)) e = lsum (map (fun v => ksumZ kd (f v) e) l).
  Proof.
    induction kd as [|[k d] kd IH]; intros e; cbn [ksum]; [reflexivity|].
    rewrite lsum_map_swap. apply lsum_map_ext. intros u _. apply IH.
  Qed.

  (** exchanging a sum over labels with a sum over bonds *)
  Lemma ksum_fubini SK kd (H : (nat -> nat) -> (Z -> nat) -> K) s0 : forall e0,
    ksumN SK (fun e => ksumZ kd (fun s => H e s) s0) e0 = ksumZ kd (fun s => ksumN SK (fun e => H e s) e0) s0.
  Proof.
    induction SK as [|[l d] SK IH]; intros e0; cbn [ksum]; [reflexivity|].
    rewrite ksum_lsum. apply lsum_map_ext. intros v _. apply IH.
  Qed.
End MoreKSum.

Section Fusion.
  Context {K : Scalar} {L : ScalarLaws K}.
  Local Open Scope K_scope.
  Add Ring KringFu : (s_ring K L).
  Notation ksumZ := (ksum (K:=K) Z.eqb).
  Notation ksumN := (ksum (K:=K) Nat.eqb).
  Notation e0 := (fun _ : Z => O).

  Variables (shL shR : list nat) (A B : list nat -> K) (idxL idxR out : list nat).
  Variables (CA CB : list (Z * nat)) (PA PB : (Z -> nat) -> list nat -> K).
  Hypothesis HA : forall yL, length yL = length idxL -> A yL = ksumZ CA (fun s => PA s yL) e0.
  Hypothesis HB : forall yR, length yR = length idxR -> B yR = ksumZ CB (fun s => PB s yR) e0.
  Hypothesis locA : forall yL, localZ (map fst CA) (fun s => PA s yL).
  Hypothesis locB : forall yR, localZ (map fst CB) (fun s => PB s yR).
  Variables (beta : nat -> Z) (dimB : Z -> nat).

  Definition fops : list (@tval K * list nat) := [((shL, A), idxL); ((shR, B), idxR)].
  Definition fsummed : list nat := filter (fun l => negb (nmem l out)) (nnodup (concat (map snd fops))).
  Hypothesis Hbeta : NoDup ((map fst CA ++ map fst CB) ++ map beta fsummed).
  Hypothesis Hdim : forall l, In l fsummed -> label_dim fops l = dimB (beta l).

  Definition rdl (s : Z -> nat) (y : list nat) (l : nat) : nat :=
    if nmem l out then nth (idx l out) y O else s (beta l).

  Lemma fsummed_spec l : In l fsummed <-> (In l idxL \/ In l idxR) /\ ~ In l out.
  Proof.
    unfold fsummed. rewrite filter_In, (proj2 (nnodup_spec _)), negb_true_iff, nmem_false.
    cbn [fops map snd concat]. rewrite !in_app_iff. cbn. tauto.
  Qed.

  Theorem fusion y :
    snd (einsum_sem fops out) y =
    ksumZ ((CA ++ CB) ++ kdB dimB (map beta fsummed))
          (fun s => PA s (map (rdl s y) idxL) * PB s (map (rdl s y) idxR)) e0.
  Proof.
    destruct (NoDup_app_inv _ _ Hbeta) as [NDab [NDs Dis]].
    assert (NDS : NoDup fsummed) by (apply NoDup_filter, nnodup_spec).
    cbn [einsum_sem snd]. fold fops. fold fsummed.
    (* 1. the product of the two operands is one sum *)
    transitivity (ksumN (map (fun l => (l, label_dim fops l)) fsummed)
                        (fun e => ksumZ (CA ++ CB) (fun s => PA s (map e idxL) * PB s (map e idxR)) e0)
                        (env_of out y)).
    { apply (ksum_ext Nat.eqb neqb_eq).
      - rewrite map_map. cbn [fst]. rewrite map_id. exact NDS.
      - intros e _. cbn [fops map lprod fold_right fst snd]. rewrite HA, HB by apply map_length.
        rewrite <- (ksum_mul CA CB (fun s => PA s (map e idxL)) (fun s => PB s (map e idxR)) e0 NDab (locA _) (locB _)).
        ring. }
    (* 2. exchange the summations *)
    rewrite ksum_fubini. rewrite (ksum_app Z.eqb (CA ++ CB) (kdB dimB (map beta fsummed))).
    apply (ksum_ext Z.eqb zeqb_eq); [rewrite map_app; exact NDab|]. intros s [R1 _].
    (* 3. the summed labels become keys *)
    set (Rel := fun (e : nat -> nat) (s' : Z -> nat) =>
                  (forall l, In l fsummed -> e l = s' (beta l)) /\
                  (forall l, ~ In l fsummed -> e l = env_of out y l) /\
                  (forall k, In k (map fst (CA ++ CB)) -> s' k = s k)).
    apply (ksum_rel Nat.eqb Z.eqb Rel).
    - unfold kdB. rewrite map_map. apply Forall2_map_same. intros l0 Hl0. cbn [fst snd]. split; [apply Hdim; assumption|].
      intros e s' v [Q1 [Q2 Q3]]. split; [|split].
      + intros l Hl. unfold upd. destruct (Nat.eqb_spec l l0).
        * subst. rewrite Z.eqb_refl. reflexivity.
        * destruct (Z.eqb_spec (beta l) (beta l0)) as [E|E]; [|apply Q1; assumption].
          exfalso. apply n. clear - NDs Hl Hl0 E. induction fsummed as [|x r IH]; [destruct Hl|].
          cbn in NDs. inversion NDs; subst. destruct Hl as [->|Hl], Hl0 as [->|Hl0]; try reflexivity.
          -- exfalso. apply H1. rewrite E. apply in_map. assumption.
          -- exfalso. apply H1. rewrite <- E. apply in_map. assumption.
          -- apply IH; assumption.
      + intros l Hl. unfold upd. destruct (Nat.eqb_spec l l0); [subst; contradiction | apply Q2; assumption].
      + intros k Hk. unfold upd. destruct (Z.eqb_spec k (beta l0)); [|apply Q3; assumption].
        exfalso. subst. rewrite map_app in Hk. apply (Dis _ Hk). apply in_map. assumption.
    - intros e s' [Q1 [Q2 Q3]].
      assert (EqL : forall ix, (forall l, In l ix -> In l idxL \/ In l idxR) -> map e ix = map (rdl s' y) ix).
      { intros ix Hix. apply map_ext_in. intros l Hl. unfold rdl. destruct (nmem l out) eqn:Eo.
        - apply nmem_In in Eo. rewrite Q2 by (rewrite fsummed_spec; tauto).
          unfold env_of, idx. destruct (nindex_Some l out Eo) as [p ->]. reflexivity.
        - apply nmem_false in Eo. apply Q1. apply fsummed_spec. split; [apply Hix; assumption | assumption]. }
      rewrite (EqL idxL) by auto. rewrite (EqL idxR) by auto. f_equal.
      + apply locA. intros k Hk. symmetry. apply Q3. rewrite map_app. apply in_or_app. left. assumption.
      + apply locB. intros k Hk. symmetry. apply Q3. rewrite map_app. apply in_or_app. right. assumption.
    - split; [|split].
      + intros l Hl. pose proof (proj1 (fsummed_spec l) Hl) as [_ Hno].
        unfold env_of. replace (nindex l out) with (@None nat) by (symmetry; apply nindex_None; assumption).
        symmetry. apply R1. rewrite map_app. intros Hk. apply (Dis _ Hk). apply in_map. exact Hl.
      + reflexivity.
      + reflexivity.
  Qed.
End Fusion.
