(** The loops of SymbolicTensorNetwork._build_contraction_tree (TNTree.build_tree), list level:
    closed forms of the index loop (index_step / index_bond over all collected bonds) on the
    concatenated index list idxL ++ idxR, of the openaxes.remove loop, and of the sort_indices
    loop of contract_tree.  No networks here. *)
From Qib Require Export TN.TNTreeCheck.
From Coq Require Import Permutation.

(* ------------------------------------------------------------------ small list facts *)
Lemma filter_true {A} (l : list A) : filter (fun _ => true) l = l.
Proof. induction l as [|x l IH]; [reflexivity|]. cbn. rewrite IH. reflexivity. Qed.

Lemma filter_neq_notin x l : ~ In x l -> filter (fun y => negb (Nat.eqb y x)) l = l.
Proof.
  intros H. apply filter_all_true. intros y Hy. destruct (Nat.eqb_spec y x); [subst; contradiction | reflexivity].
Qed.

Lemma nremove1_filter x l : NoDup l -> In x l ->
  nremove1 x l = Some (filter (fun y => negb (Nat.eqb y x)) l).
Proof.
  induction 1 as [|z l Hz ND IH]; [intros []|]. intros Hin. cbn. destruct (Nat.eqb_spec z x).
  - subst. cbn. f_equal. symmetry. apply filter_neq_notin. exact Hz.
  - destruct Hin as [E|Hin]; [contradiction|]. rewrite (IH Hin). reflexivity.
Qed.

(** list.remove(x) guarded by "x in list" on a duplicate-free list is a filter *)
Lemma nremove1_guard x l : NoDup l ->
  (if nmem x l then nremove1 x l else Some l) = Some (filter (fun y => negb (Nat.eqb y x)) l).
Proof.
  intros ND. destruct (nmem x l) eqn:E.
  - apply nremove1_filter; [exact ND | apply nmem_In; exact E].
  - apply nmem_false in E. rewrite filter_neq_notin by exact E. reflexivity.
Qed.

Lemma NoDup_filter_seq (f : nat -> bool) a b : NoDup (filter f (seq a b)).
Proof. apply NoDup_filter. apply seq_NoDup. Qed.

Lemma find_app {A} (f : A -> bool) a b :
  find f (a ++ b) = match find f a with Some x => Some x | None => find f b end.
Proof. induction a as [|x a IH]; [reflexivity|]. cbn. destruct (f x); [reflexivity | exact IH]. Qed.

Definition somes {A} (l : list (option A)) : list A :=
  flat_map (fun x => match x with Some a => [a] | None => [] end) l.

Lemma somes_cons_some {A} (a : A) l : somes (Some a :: l) = a :: somes l.
Proof. reflexivity. Qed.
Lemma somes_cons_none {A} (l : list (option A)) : somes (None :: l) = somes l.
Proof. reflexivity. Qed.
Lemma in_somes {A} (a : A) l : In a (somes l) <-> In (Some a) l.
Proof.
  unfold somes. rewrite in_flat_map. split.
  - intros [[x|] [H1 H2]]; [destruct H2 as [->|[]]; exact H1 | destruct H2].
  - intros H. exists (Some a). split; [exact H | left; reflexivity].
Qed.
Lemma forallb_is_some_somes {A} (l : list (option A)) : forallb is_some l = true -> map Some (somes l) = l.
Proof.
  induction l as [|[a|] l IH]; cbn; intros H; [reflexivity | | discriminate].
  fold (somes l). rewrite IH by exact H. reflexivity.
Qed.

(* ------------------------------------------------------------------ the index loop on idxL ++ idxR *)
(** one reference of one bond, on the concatenated list: [q] is the position in idxL ++ idxR *)
Definition istep (fully : bool) (st : list nat * list nat * option nat) (q : option nat)
  : option (list nat * list nat * option nat) :=
  let '(X, o, j) := st in
  match q with
  | None => Some st
  | Some q =>
      match nth_error X q with
      | None => None
      | Some cur =>
          match j with
          | Some jj =>
              option_map (fun o' => (set_nth q jj X, o', j))
                         (if nmem cur o && negb (Nat.eqb cur jj) then nremove1 cur o else Some o)
          | None =>
              option_map (fun o' => (X, o', Some cur)) (if fully then nremove1 cur o else Some o)
          end
      end
  end.

Definition cpos_of (dL : nat) (bm : option (bool * nat)) : option nat :=
  match bm with
  | Some (true, k) => Some k
  | Some (false, k) => Some (dL + k)
  | None => None
  end.

Lemma index_step_comb fully xl xr o j bm :
  (forall k, bm = Some (true, k) -> k < length xl) ->
  match index_step fully (xl, xr, o, j) bm with
  | Some (xl', xr', o', j') =>
      length xl' = length xl /\
      istep fully (xl ++ xr, o, j) (cpos_of (length xl) bm) = Some (xl' ++ xr', o', j')
  | None => istep fully (xl ++ xr, o, j) (cpos_of (length xl) bm) = None
  end.
Proof.
  intros Hk. destruct bm as [[[|] k]|]; cbn [index_step istep cpos_of].
  - (* left *)
    specialize (Hk k eq_refl). rewrite nth_error_app1 by exact Hk.
    destruct (nth_error xl k) as [cur|]; [|reflexivity].
    destruct j as [jj|].
    + destruct (if nmem cur o && negb (Nat.eqb cur jj) then nremove1 cur o else Some o) as [o'|]; cbn [option_map]; [|reflexivity].
      split; [apply set_nth_length|]. rewrite set_nth_app_l by exact Hk. reflexivity.
    + destruct (if fully then nremove1 cur o else Some o) as [o'|]; cbn [option_map]; [|reflexivity].
      split; reflexivity.
  - (* right *)
    rewrite nth_error_app2 by lia. replace (length xl + k - length xl) with k by lia.
    destruct (nth_error xr k) as [cur|]; [|reflexivity].
    destruct j as [jj|].
    + destruct (if nmem cur o && negb (Nat.eqb cur jj) then nremove1 cur o else Some o) as [o'|]; cbn [option_map]; [|reflexivity].
      split; [reflexivity|]. rewrite set_nth_app_r by lia. replace (length xl + k - length xl) with k by lia. reflexivity.
    + destruct (if fully then nremove1 cur o else Some o) as [o'|]; cbn [option_map]; [|reflexivity].
      split; reflexivity.
  - split; reflexivity.
Qed.

Lemma index_fold_comb fully bmap : forall xl xr o j,
  (forall k, In (Some (true, k)) bmap -> k < length xl) ->
  match ofold (index_step fully) bmap (xl, xr, o, j) with
  | Some (xl', xr', o', j') =>
      length xl' = length xl /\
      ofold (istep fully) (map (cpos_of (length xl)) bmap) (xl ++ xr, o, j) = Some (xl' ++ xr', o', j')
  | None => ofold (istep fully) (map (cpos_of (length xl)) bmap) (xl ++ xr, o, j) = None
  end.
Proof.
  induction bmap as [|bm bmap IH]; intros xl xr o j Hk; cbn [ofold map].
  - split; reflexivity.
  - pose proof (index_step_comb fully xl xr o j bm) as S1.
    destruct (index_step fully (xl, xr, o, j) bm) as [[[[xl1 xr1] o1] j1]|].
    + destruct S1 as [L1 E1]; [intros k ->; apply Hk; left; reflexivity|]. rewrite E1.
      specialize (IH xl1 xr1 o1 j1). rewrite L1 in IH. apply IH.
      intros k Hin. apply Hk. right. exact Hin.
    + rewrite S1; [reflexivity|]. intros k ->. apply Hk. left. reflexivity.
Qed.

(** the references after the first one: all are set to the shared index j0 *)
Lemma istep_tail fully j0 Q : forall X o, NoDup o ->
  (forall q, In q (somes Q) -> q < length X /\ (nth q X 0 = q \/ (nth q X 0 = j0 /\ ~ In q o))) ->
  exists X', ofold (istep fully) Q (X, o, Some j0)
             = Some (X', filter (fun l => negb (nmem l (somes Q)) || Nat.eqb l j0) o, Some j0)
    /\ length X' = length X
    /\ forall i, nth i X' 0 = if nmem i (somes Q) then j0 else nth i X 0.
Proof.
  induction Q as [|[q|] Q IH]; intros X o ND H.
  - exists X. cbn [ofold somes flat_map nmem existsb negb orb]. rewrite filter_true. auto.
  - rewrite somes_cons_some in *. cbn [ofold istep].
    destruct (H q (or_introl eq_refl)) as [Hq Hv].
    rewrite (nth_error_nth' X 0 Hq).
    set (cur := nth q X 0) in *.
    assert (Eo : (if nmem cur o && negb (Nat.eqb cur j0) then nremove1 cur o else Some o)
                 = Some (filter (fun y => negb (Nat.eqb y cur) || Nat.eqb cur j0) o)).
    { destruct (Nat.eqb_spec cur j0) as [E|E].
      - rewrite andb_false_r. f_equal. symmetry. apply filter_all_true. intros y _. apply orb_true_r.
      - rewrite andb_true_r. rewrite nremove1_guard by exact ND. f_equal. apply filter_ext. intros y. rewrite orb_false_r. reflexivity. }
    rewrite Eo. cbn [option_map].
    set (o1 := filter (fun y => negb (Nat.eqb y cur) || Nat.eqb cur j0) o).
    set (X1 := set_nth q j0 X).
    assert (L1 : length X1 = length X) by apply set_nth_length.
    assert (V1 : forall i, nth i X1 0 = if Nat.eqb i q then j0 else nth i X 0) by (intros i; apply nth_set_nth; exact Hq).
    destruct (IH X1 o1) as [X' [E1 [L' V']]].
    { apply NoDup_filter. exact ND. }
    { intros q' Hq'. destruct (H q' (or_intror Hq')) as [Hl Hd]. rewrite L1. split; [exact Hl|].
      rewrite V1. destruct (Nat.eqb_spec q' q) as [->|Hne].
      - destruct Hv as [Hv|[Hv Hno]]; fold cur in Hv.
        + destruct (Nat.eq_dec q j0) as [E|E]; [left; symmetry; exact E|].
          right. split; [reflexivity|]. unfold o1. rewrite filter_In. intros [Hin Hf].
          rewrite Hv, Nat.eqb_refl in Hf. cbn in Hf. apply Nat.eqb_eq in Hf. contradiction.
        + right. split; [reflexivity|]. unfold o1. rewrite filter_In. tauto.
      - destruct Hd as [Hd|[Hd Hno]]; [left; exact Hd|]. right. split; [exact Hd|].
        unfold o1. rewrite filter_In. tauto. }
    exists X'. split; [|split].
    + rewrite E1. f_equal. f_equal. f_equal. unfold o1. rewrite filter_filter. apply filter_ext_in. intros l Hl.
      cbn [nmem existsb]. fold (nmem l (somes Q)).
      destruct Hv as [Hv|[Hv Hno]]; fold cur in Hv.
      * rewrite Hv. destruct (Nat.eqb_spec l q) as [->|Hne]; cbn.
        -- destruct (Nat.eqb_spec q j0); cbn; [rewrite orb_true_r; reflexivity|]. reflexivity.
        -- reflexivity.
      * rewrite Hv, Nat.eqb_refl, orb_true_r. cbn.
        destruct (Nat.eqb_spec l q) as [->|Hne]; [contradiction|]. reflexivity.
    + rewrite L'. exact L1.
    + intros i. rewrite V', V1. cbn [nmem existsb]. fold (nmem i (somes Q)).
      destruct (Nat.eqb_spec i q); cbn; destruct (nmem i (somes Q)); reflexivity.
  - rewrite somes_cons_none in *. cbn [ofold istep]. apply IH; assumption.
Qed.

(** one bond: the first reference fixes the shared index (and leaves idxout when the bond is
    fully contracted), the others are set to it and their own indices leave idxout *)
Definition keepB (p : list nat * bool) (l : nat) : bool :=
  negb (nmem l (fst p)) || (Nat.eqb l (hd 0 (fst p)) && negb (snd p)).

Lemma istep_bond fully Q : forall X o, NoDup o ->
  (forall q, In q (somes Q) -> q < length X /\ nth q X 0 = q) ->
  (fully = true -> somes Q <> [] -> In (hd 0 (somes Q)) o) ->
  exists X' j', ofold (istep fully) Q (X, o, None) = Some (X', filter (keepB (somes Q, fully)) o, j')
    /\ length X' = length X
    /\ forall i, nth i X' 0 = if nmem i (somes Q) then hd 0 (somes Q) else nth i X 0.
Proof.
  induction Q as [|[q|] Q IH]; intros X o ND H Hf.
  - exists X, None. cbn [ofold somes flat_map]. split; [|split; [reflexivity | intros i; reflexivity]].
    f_equal. f_equal. f_equal. symmetry. apply filter_all_true. intros y _. reflexivity.
  - rewrite somes_cons_some in *. cbn [ofold istep hd].
    destruct (H q (or_introl eq_refl)) as [Hq Hv].
    rewrite (nth_error_nth' X 0 Hq), Hv.
    assert (Eo : (if fully then nremove1 q o else Some o)
                 = Some (filter (fun y => negb (Nat.eqb y q) || negb fully) o)).
    { destruct fully.
      - rewrite nremove1_filter; [|exact ND | apply Hf; [reflexivity | discriminate]]. f_equal.
        apply filter_ext. intros y. rewrite orb_false_r. reflexivity.
      - f_equal. symmetry. apply filter_all_true. intros y _. apply orb_true_r. }
    rewrite Eo. cbn [option_map].
    set (o1 := filter (fun y => negb (Nat.eqb y q) || negb fully) o).
    destruct (istep_tail fully q Q X o1) as [X' [E1 [L' V']]].
    { apply NoDup_filter. exact ND. }
    { intros q' Hq'. destruct (H q' (or_intror Hq')) as [A B]. split; [exact A | left; exact B]. }
    exists X', (Some q). split; [|split].
    + rewrite E1. f_equal. f_equal. f_equal. unfold o1. rewrite filter_filter. apply filter_ext. intros l.
      unfold keepB. cbn [fst snd hd nmem existsb]. fold (nmem l (somes Q)).
      destruct (Nat.eqb_spec l q) as [->|Hne]; destruct (nmem _ (somes Q)); destruct fully; reflexivity.
    + exact L'.
    + intros i. rewrite V'. cbn [nmem existsb]. fold (nmem i (somes Q)).
      destruct (Nat.eqb_spec i q) as [->|Hne]; cbn; [|reflexivity].
      destruct (nmem q (somes Q)); [reflexivity | exact Hv].
  - rewrite somes_cons_none in *. cbn [ofold istep]. apply IH; assumption.
Qed.

(** index_bond on the concatenated list *)
Definition ibond (st : list nat * list nat) (bm : list (option nat) * bool) : option (list nat * list nat) :=
  option_map (fun r => fst r) (ofold (istep (snd bm)) (fst bm) (fst st, snd st, None)).

Lemma index_bond_comb xl xr o bmap :
  (forall k, In (Some (true, k)) bmap -> k < length xl) ->
  match index_bond (xl, xr, o) bmap with
  | Some (xl', xr', o') =>
      length xl' = length xl /\
      ibond (xl ++ xr, o) (map (cpos_of (length xl)) bmap, forallb is_some bmap) = Some (xl' ++ xr', o')
  | None => ibond (xl ++ xr, o) (map (cpos_of (length xl)) bmap, forallb is_some bmap) = None
  end.
Proof.
  intros Hk. unfold index_bond, ibond. cbn [fst snd].
  pose proof (index_fold_comb (forallb is_some bmap) bmap xl xr o None Hk) as S1.
  destruct (ofold (index_step (forallb is_some bmap)) bmap (xl, xr, o, None)) as [[[[xl1 xr1] o1] j1]|]; cbn [option_map fst].
  - destruct S1 as [L1 E1]. rewrite E1. cbn. auto.
  - rewrite S1. reflexivity.
Qed.

Lemma index_bonds_comb bml : forall xl xr o,
  (forall bmap k, In bmap bml -> In (Some (true, k)) bmap -> k < length xl) ->
  match ofold index_bond bml (xl, xr, o) with
  | Some (xl', xr', o') =>
      length xl' = length xl /\
      ofold ibond (map (fun bmap => (map (cpos_of (length xl)) bmap, forallb is_some bmap)) bml) (xl ++ xr, o)
      = Some (xl' ++ xr', o')
  | None => ofold ibond (map (fun bmap => (map (cpos_of (length xl)) bmap, forallb is_some bmap)) bml) (xl ++ xr, o) = None
  end.
Proof.
  induction bml as [|bmap bml IH]; intros xl xr o Hk; cbn [ofold map].
  - split; reflexivity.
  - pose proof (index_bond_comb xl xr o bmap) as S1.
    destruct (index_bond (xl, xr, o) bmap) as [[[xl1 xr1] o1]|].
    + destruct S1 as [L1 E1]; [intros k Hin; apply (Hk bmap k); [left; reflexivity | exact Hin]|]. rewrite E1.
      specialize (IH xl1 xr1 o1). rewrite L1 in IH. apply IH.
      intros bm k H1 H2. apply (Hk bm k); [right; exact H1 | exact H2].
    + rewrite S1; [reflexivity|]. intros k Hin. apply (Hk bmap k); [left; reflexivity | exact Hin].
Qed.

(* ------------------------------------------------------------------ all bonds *)
Definition labX (BL : list (list nat * bool)) (i : nat) : nat :=
  match find (fun p => nmem i (fst p)) BL with Some p => hd 0 (fst p) | None => i end.
Definition keepX (BL : list (list nat * bool)) (l : nat) : bool := forallb (fun p => keepB p l) BL.

Section AllBonds.
  Context {B : Type}.
  Variables (Qo : B -> list (option nat)) (fl : B -> bool) (N : nat) (bl : list B).
  Hypothesis Hrange : forall b q, In b bl -> In q (somes (Qo b)) -> q < N.
  Hypothesis Hdisj : forall i j b b' q, nth_error bl i = Some b -> nth_error bl j = Some b' ->
                       In q (somes (Qo b)) -> In q (somes (Qo b')) -> i = j.

  Definition BLof (l : list B) : list (list nat * bool) := map (fun b => (somes (Qo b), fl b)) l.
  Definition SX (l : list B) : list nat * list nat :=
    (map (labX (BLof l)) (seq 0 N), filter (keepX (BLof l)) (seq 0 N)).

  Lemma find_BLof_none l q : (forall b, In b l -> ~ In q (somes (Qo b))) ->
    find (fun p => nmem q (fst p)) (BLof l) = None.
  Proof.
    induction l as [|b l IH]; intros H; [reflexivity|]. cbn [BLof map find fst].
    replace (nmem q (somes (Qo b))) with false.
    - apply IH. intros b' Hb'. apply H. right. exact Hb'.
    - symmetry. apply nmem_false. apply H. left. reflexivity.
  Qed.

  Lemma ibonds_closed : forall rest done, done ++ rest = bl ->
    ofold ibond (map (fun b => (Qo b, fl b)) rest) (SX done) = Some (SX (done ++ rest)).
  Proof.
    induction rest as [|b rest IH]; intros done E.
    - rewrite app_nil_r. reflexivity.
    - cbn [map ofold]. unfold ibond at 1. cbn [fst snd].
      assert (Hb : nth_error bl (length done) = Some b).
      { rewrite <- E. rewrite nth_error_app2 by lia. rewrite Nat.sub_diag. reflexivity. }
      assert (Hin : In b bl) by (eapply nth_error_In; exact Hb).
      assert (Fresh : forall q, In q (somes (Qo b)) -> forall b', In b' done -> ~ In q (somes (Qo b'))).
      { intros q Hq b' Hb' Hq'. apply In_nth_error in Hb'. destruct Hb' as [i Hi].
        assert (Hi' : nth_error bl i = Some b').
        { rewrite <- E. rewrite nth_error_app1; [exact Hi | apply nth_error_Some; congruence]. }
        assert (i < length done) by (apply nth_error_Some; congruence).
        pose proof (Hdisj _ _ _ _ q Hi' Hb Hq' Hq). lia. }
      destruct (istep_bond (fl b) (Qo b) (fst (SX done)) (snd (SX done))) as [X' [j' [E1 [L' V']]]].
      { apply NoDup_filter_seq. }
      { intros q Hq. unfold SX. cbn [fst]. rewrite map_length, seq_length.
        pose proof (Hrange b q Hin Hq) as Hlt. split; [exact Hlt|].
        rewrite nth_map_seq by exact Hlt. unfold labX. rewrite find_BLof_none; [reflexivity|].
        intros b' Hb'. apply Fresh; assumption. }
      { intros _ Hne. unfold SX. cbn [snd]. apply filter_In.
        assert (Hq : In (hd 0 (somes (Qo b))) (somes (Qo b))).
        { destruct (somes (Qo b)) as [|q0 r]; [congruence | left; reflexivity]. }
        split; [apply in_seq; pose proof (Hrange b _ Hin Hq); lia|].
        unfold keepX. apply forallb_forall. intros p Hp. unfold BLof in Hp. apply in_map_iff in Hp.
        destruct Hp as [b' [<- Hb']]. unfold keepB. cbn [fst snd].
        replace (nmem _ (somes (Qo b'))) with false; [reflexivity|]. symmetry. apply nmem_false.
        apply Fresh; assumption. }
      rewrite E1. cbn [option_map fst].
      assert (E2 : (X', filter (keepB (somes (Qo b), fl b)) (snd (SX done))) = SX (done ++ [b])).
      { unfold SX. cbn [fst snd]. f_equal.
        - apply (nth_ext _ _ 0 0).
          + rewrite L'. unfold SX. cbn [fst]. rewrite !map_length. reflexivity.
          + intros i Hi. rewrite L' in Hi. unfold SX in Hi. cbn [fst] in Hi. rewrite map_length, seq_length in Hi.
            rewrite V'. unfold SX. cbn [fst]. rewrite !nth_map_seq by exact Hi.
            unfold labX, BLof. rewrite map_app. cbn [map]. rewrite find_app.
            fold (BLof done).
            destruct (find (fun p => nmem i (fst p)) (BLof done)) as [p|] eqn:F.
            * apply find_some in F. destruct F as [Hp Hm]. unfold BLof in Hp. apply in_map_iff in Hp.
              destruct Hp as [b' [<- Hb']]. cbn [fst] in Hm. apply nmem_In in Hm.
              replace (nmem i (somes (Qo b))) with false; [reflexivity|]. symmetry. apply nmem_false.
              intros Hq. exact (Fresh i Hq b' Hb' Hm).
            * cbn [find fst]. destruct (nmem i (somes (Qo b))); reflexivity.
        - rewrite filter_filter. apply filter_ext. intros l. unfold keepX, BLof. rewrite map_app, forallb_app.
          cbn [map forallb]. rewrite andb_true_r. reflexivity. }
      rewrite E2. rewrite (IH (done ++ [b])) by (rewrite <- app_assoc; exact E).
      rewrite <- app_assoc. reflexivity.
  Qed.
End AllBonds.

(* ------------------------------------------------------------------ openaxes.remove *)
Lemma leg_remove1_filter a l : NoDup l -> In a l ->
  leg_remove1 a l = Some (filter (fun e => negb (legeqb e a)) l).
Proof.
  induction 1 as [|z l Hz ND IH]; [intros []|]. intros Hin. cbn. destruct (legeqb z a) eqn:E.
  - apply legeqb_eq in E. subst. cbn. f_equal. symmetry. apply filter_all_true. intros y Hy.
    destruct (legeqb y a) eqn:E'; [apply legeqb_eq in E'; subst; contradiction | reflexivity].
  - destruct Hin as [->|Hin]; [rewrite legeqb_refl in E; discriminate|]. rewrite (IH Hin). reflexivity.
Qed.

Lemma ofold_leg_remove rm : forall l, NoDup l -> NoDup rm -> (forall x, In x rm -> In x l) ->
  ofold (fun acc ta => leg_remove1 ta acc) rm l = Some (filter (fun e => negb (leg_mem e rm)) l).
Proof.
  induction rm as [|a rm IH]; intros l ND NR H.
  - cbn. rewrite filter_true. reflexivity.
  - cbn [ofold]. rewrite leg_remove1_filter; [|exact ND | apply H; left; reflexivity].
    inversion NR as [|? ? Ha NR']; subst.
    rewrite IH.
    + rewrite filter_filter. f_equal. apply filter_ext. intros e. cbn [leg_mem existsb]. rewrite negb_orb. reflexivity.
    + apply NoDup_filter. exact ND.
    + exact NR'.
    + intros x Hx. apply filter_In. split; [apply H; right; exact Hx|].
      destruct (legeqb x a) eqn:E; [apply legeqb_eq in E; subst; contradiction | reflexivity].
Qed.
