(** A decidable check on contraction trees (the tree as contract_tree leaves it, together
    with the axes map).  TNTreeCheck.v proves:  check_root n t amap = true  implies that the
    expanded tree value is the defining sum of the network.  No proofs here. *)
From Qib Require Export TN.TNTree Base.Inst.
Local Open Scope Z_scope.

Definition idx_n (x : nat) (l : list nat) : nat := match nindex x l with Some i => i | None => O end.

Definition bondd (n : net) (e : leg) : Z :=
  match dget (fst e) (tensors n) with Some t => nth (snd e) (t_bids t) 0 | None => 0 end.
Definition trackd (t : tree) (e : leg) : nat := match track_of t e with Some k => k | None => O end.

Fixpoint leaves_of (t : tree) : list Z :=
  match t with
  | TLeaf tid _ _ _ => [tid]
  | TNode _ l _ r _ _ _ _ => leaves_of l ++ leaves_of r
  end.

Definition summed_of (xl xr o : list nat) : list nat :=
  filter (fun l => negb (nmem l o)) (nnodup (xl ++ xr ++ [])).

(** (label, bond) of every open leg of the two children *)
Definition lbl_of (n : net) (l : tree) (xl : list nat) (r : tree) (xr : list nat) : list (nat * Z) :=
  map (fun e => (nth (trackd l e) xl O, bondd n e)) (tr_oax l) ++
  map (fun e => (nth (trackd r e) xr O, bondd n e)) (tr_oax r).
Definition beta_of (lbl : list (nat * Z)) (l : nat) : Z :=
  match find (fun p => Nat.eqb (fst p) l) lbl with Some p => snd p | None => 0 end.

Fixpoint closed_of (n : net) (t : tree) : list Z :=
  match t with
  | TLeaf _ _ _ _ => []
  | TNode _ l xl r xr o _ _ =>
      closed_of n l ++ closed_of n r ++ map (beta_of (lbl_of n l xl r xr)) (summed_of xl xr o)
  end.

Definition covered (t : tree) (nd : nat) : bool :=
  forallb (fun p => existsb (fun e => Nat.eqb (trackd t e) p) (tr_oax t)) (seq 0 nd)
  && forallb (fun e => match track_of t e with Some k => Nat.ltb k nd | None => false end) (tr_oax t).

Definition legs_ok (n : net) (t : tree) : bool :=
  forallb (fun e => zmem (fst e) (leaves_of t)
                    && match dget (fst e) (tensors n) with
                       | Some x => Nat.ltb (snd e) (length (t_bids x))
                       | None => false
                       end) (tr_oax t).

Definition check_node (n : net) (l : tree) (xl : list nat) (r : tree) (xr : list nat)
           (o : list nat) (a : list leg) (k : list nat) : bool :=
  let lbl := lbl_of n l xl r xr in
  let sumd := summed_of xl xr o in
  let newly := map (beta_of lbl) sumd in
  let cl := closed_of n l ++ closed_of n r in
  let keepL := filter (fun e => negb (nmem (nth (trackd l e) xl O) sumd)) (tr_oax l) in
  let keepR := filter (fun e => negb (nmem (nth (trackd r e) xr O) sumd)) (tr_oax r) in
  Nat.eqb (length xl) (length (tr_out l)) && Nat.eqb (length xr) (length (tr_out r))
  && covered l (length xl) && covered r (length xr)
  && legs_ok n l && legs_ok n r
  && forallb (fun p => forallb (fun q => negb (Nat.eqb (fst p) (fst q)) || Z.eqb (snd p) (snd q)) lbl) lbl
  && znodupb (cl ++ newly)
  && forallb (fun p => Bool.eqb (nmem (fst p) sumd) (zmem (snd p) newly)) lbl
  && forallb (fun p => negb (zmem (snd p) cl)) lbl
  && list_eqb legeqb a (keepL ++ keepR)
  && list_eqb Nat.eqb k (map (fun e => idx_n (nth (trackd l e) xl O) o) keepL ++
                         map (fun e => idx_n (nth (trackd r e) xr O) o) keepR)
  && znodupb (leaves_of l ++ leaves_of r).

Fixpoint check_tree (n : net) (t : tree) : bool :=
  match t with
  | TLeaf tid o a k =>
      negb (Z.eqb tid VT) &&
      match dget tid (tensors n) with
      | None => false
      | Some x =>
          let nd := length (t_bids x) in
          Nat.eqb (length (t_shape x)) nd && Nat.eqb (length o) nd
          && list_eqb legeqb a (map (fun i => (tid, i)) (seq 0 nd))
          (* idxout is a permutation of the legs and trackaxes its inverse (as built: both the
             identity; after permute_axes: the permutation and its inverse) *)
          && list_eqb Nat.eqb k (inv_perm o)
          && forallb (fun ax => Nat.eqb (nth (nth ax k O) o nd) ax) (seq 0 nd)
      end
  | TNode _ l xl r xr o a k =>
      check_tree n l && check_tree n r && check_node n l xl r xr o a k
  end.

(** the root: its leaves are exactly the real tensors; every bond is closed in the tree or
    open in the network; the axes map sends open axis j to the tracked leg of its bond,
    different bonds to different legs *)
Definition track_bond (n : net) (t : tree) (b : Z) : option nat :=
  option_map (trackd t) (find (fun e => Z.eqb (bondd n e) b) (tr_oax t)).

Definition check_root (n : net) (t : tree) (amap : list nat) : bool :=
  let vb := vbids n in
  let cl := closed_of n t in
  check_tree n t
  && covered t (length (tr_out t))
  && legs_ok n t
  && znodupb (leaves_of t)
  && forallb (fun tid => negb (Z.eqb tid VT)) (leaves_of t)
  && forallb (fun k => Z.eqb k VT || zmem k (leaves_of t)) (dkeys (tensors n))
  && forallb (fun b => xorb (zmem b cl) (zmem b vb)) (dkeys (bonds n))
  && forallb (fun b => zmem b (dkeys (bonds n))) cl
  && forallb (fun e => zmem (bondd n e) vb) (tr_oax t)
  && Nat.eqb (length amap) (length vb)
  (* all open legs of one bond sit on the leg the axes map names *)
  && forallb (fun e => match zindex (bondd n e) vb with
                       | Some j => Nat.eqb (trackd t e) (nth j amap O)
                       | None => false
                       end) (tr_oax t)
  (* every open axis is tracked by a leg of its bond; equal bonds <-> equal positions *)
  && forallb (fun j => existsb (fun e => Z.eqb (bondd n e) (nth j vb 0)) (tr_oax t)) (seq 0 (length vb))
  && forallb (fun j => forallb (fun j' => Bool.eqb (Nat.eqb (nth j amap O) (nth j' amap O))
                                                  (Z.eqb (nth j vb 0) (nth j' vb 0))) (seq 0 (length vb)))
             (seq 0 (length vb)).
