(** The exact incidence invariant WF of symbolic tensor networks and its preservation by
    rename_tensor_priv, rename_bond and transpose (merge: TNMerge.v). *)
From Qib Require Export TN.TNDict.
From Coq Require Import Permutation.
Local Open Scope Z_scope.

(** number of legs of tensor [k] on bond [kb] / number of references of bond [kb] to tensor [k] *)
Definition cntT (n : net) (k kb : Z) : nat :=
  match dget k (tensors n) with Some t => zcount kb (t_bids t) | None => O end.
Definition cntB (n : net) (kb k : Z) : nat :=
  match dget kb (bonds n) with Some b => zcount k (b_tids b) | None => O end.

Record WF0 (n : net) : Prop := mkWF0 {
  wf_ndT : NoDup (dkeys (tensors n));
  wf_ndB : NoDup (dkeys (bonds n));
  wf_T : forall k t, In (k, t) (tensors n) -> t_id t = k /\ length (t_shape t) = length (t_bids t);
  wf_B : forall k b, In (k, b) (bonds n) -> b_id b = k /\ (2 <= length (b_tids b))%nat;
  wf_inc : forall k kb, cntT n k kb = cntB n kb k;
  wf_dim : forall kb, exists d, forall k t ax, In (k, t) (tensors n) ->
             nth_error (t_bids t) ax = Some kb -> nth_error (t_shape t) ax = Some d }.

(** the invariant: exact incidence + the virtual tensor exists *)
Definition WF (n : net) : Prop := WF0 n /\ In VT (dkeys (tensors n)).

(* ------------------------------------------------------------------ consequences *)
Lemma cntT_pos_bond n k kb : WF0 n -> (0 < cntT n k kb)%nat -> In kb (dkeys (bonds n)).
Proof.
  intros W H. rewrite (wf_inc n W) in H. unfold cntB in H.
  destruct (dget kb (bonds n)) eqn:E; [eapply dget_Some_key; eauto | lia].
Qed.
Lemma cntB_pos_tensor n k kb : WF0 n -> (0 < cntB n kb k)%nat -> In k (dkeys (tensors n)).
Proof.
  intros W H. rewrite <- (wf_inc n W) in H. unfold cntT in H.
  destruct (dget k (tensors n)) eqn:E; [eapply dget_Some_key; eauto | lia].
Qed.
Lemma wf_bids_exist n k t bid : WF0 n -> In (k, t) (tensors n) -> In bid (t_bids t) -> In bid (dkeys (bonds n)).
Proof.
  intros W Hin Hb. apply (cntT_pos_bond n k bid W). unfold cntT.
  rewrite (In_dget _ _ _ (wf_ndT n W) Hin). apply zcount_pos. exact Hb.
Qed.
Lemma wf_tids_exist n kb b tid : WF0 n -> In (kb, b) (bonds n) -> In tid (b_tids b) -> In tid (dkeys (tensors n)).
Proof.
  intros W Hin Hb. apply (cntB_pos_tensor n tid kb W). unfold cntB.
  rewrite (In_dget _ _ _ (wf_ndB n W) Hin). apply zcount_pos. exact Hb.
Qed.
Lemma cntT_absent n k kb : ~ In k (dkeys (tensors n)) -> cntT n k kb = O.
Proof. intros H. unfold cntT. apply dget_None in H. rewrite H. reflexivity. Qed.
Lemma cntB_absent n kb k : ~ In kb (dkeys (bonds n)) -> cntB n kb k = O.
Proof. intros H. unfold cntB. apply dget_None in H. rewrite H. reflexivity. Qed.

(* ------------------------------------------------------------------ iterating the loop bodies *)
Definition f_retid (a c : Z) (b : bond) : bond := set_btids b (zsort (zreplace a c (b_tids b))).
Definition f_rebid (a c : Z) (t : tensor) : tensor := set_bids t (zreplace a c (t_bids t)).

Lemma retid_step_upd a c : retid_step a c = upd_step (f_retid a c).
Proof. reflexivity. Qed.
Lemma rebid_step_upd a c : rebid_step a c = upd_step (f_rebid a c).
Proof. reflexivity. Qed.

Lemma iter_retid_id a c m b : b_id (Nat.iter m (f_retid a c) b) = b_id b.
Proof. induction m; [reflexivity|]. rewrite iter_S. exact IHm. Qed.
Lemma iter_retid_len a c m b : length (b_tids (Nat.iter m (f_retid a c) b)) = length (b_tids b).
Proof.
  induction m; [reflexivity|]. rewrite iter_S. unfold f_retid at 1. cbn [set_btids b_tids].
  rewrite zsort_length, zreplace_length. exact IHm.
Qed.
Lemma iter_retid_count a c m b x : a <> c ->
  zcount x (b_tids (Nat.iter m (f_retid a c) b)) =
  match m with O => zcount x (b_tids b) | _ => zcount x (zreplace a c (b_tids b)) end.
Proof.
  intros Hac. revert x. induction m as [|m IH]; intros x; [reflexivity|].
  rewrite iter_S. unfold f_retid at 1. cbn [set_btids b_tids]. rewrite zcount_zsort.
  rewrite zcount_zreplace by assumption. rewrite !IH.
  destruct m.
  - rewrite zcount_zreplace by assumption. reflexivity.
  - rewrite !zcount_zreplace by assumption. rewrite !Z.eqb_refl.
    destruct (Z.eqb_spec a c); [congruence|]. destruct (Z.eqb_spec c a); [congruence|].
    destruct (Z.eqb x c); [lia|]. destruct (Z.eqb x a); reflexivity.
Qed.

Lemma zreplace_idem a c l : a <> c -> zreplace a c (zreplace a c l) = zreplace a c l.
Proof.
  intros H. unfold zreplace. rewrite map_map. apply map_ext. intros x.
  destruct (Z.eqb_spec x a); [|destruct (Z.eqb_spec x a); congruence].
  destruct (Z.eqb_spec c a); congruence.
Qed.
Lemma iter_rebid a c m t : a <> c ->
  Nat.iter m (f_rebid a c) t = match m with O => t | _ => f_rebid a c t end.
Proof.
  intros H. induction m as [|m IH]; [reflexivity|]. rewrite iter_S, IH.
  destruct m; [reflexivity|]. unfold f_rebid, set_bids. cbn [t_bids t_id t_shape t_ref]. rewrite zreplace_idem by assumption. reflexivity.
Qed.

Lemma nth_error_zreplace a c l ax : nth_error (zreplace a c l) ax =
  option_map (fun x => if Z.eqb x a then c else x) (nth_error l ax).
Proof. apply nth_error_map. Qed.

(* ------------------------------------------------------------------ rename_tensor_priv *)
Lemma rename_tensor_spec n a c n' : WF0 n -> rename_tensor_priv n a c = Some n' ->
  exists t, dget a (tensors n) = Some t /\ ~ In c (dkeys (tensors n)) /\
    n' = mkN (dpop a (tensors n) ++ [(c, set_tid t c)]) (upd_all (f_retid a c) (t_bids t) (bonds n)).
Proof.
  intros W H. unfold rename_tensor_priv in H.
  destruct (dget a (tensors n)) as [t|] eqn:Ht; [|discriminate].
  destruct (dhas c (tensors n)) eqn:Hc; [discriminate|]. apply dhas_false in Hc.
  destruct (negb (t_id t =? a)); [discriminate|].
  rewrite retid_step_upd in H. rewrite ofold_upd in H.
  - injection H as <-. exists t. auto.
  - apply (wf_ndB n W).
  - intros k Hk. eapply wf_bids_exist; eauto. apply dget_In. exact Ht.
Qed.

Lemma cntT_rename_tensor n a c t k kb : NoDup (dkeys (tensors n)) -> dget a (tensors n) = Some t ->
  ~ In c (dkeys (tensors n)) ->
  cntT (mkN (dpop a (tensors n) ++ [(c, set_tid t c)]) (upd_all (f_retid a c) (t_bids t) (bonds n))) k kb =
  if Z.eqb k c then cntT n a kb else if Z.eqb k a then O else cntT n k kb.
Proof.
  intros ND Ht Hc. unfold cntT. cbn [tensors]. rewrite dget_app, dget_dpop by assumption.
  assert (a <> c) by (intros ->; apply Hc; eapply dget_Some_key; eauto).
  destruct (Z.eqb_spec k c).
  - subst. destruct (Z.eqb_spec c a); [congruence|].
    apply dget_None in Hc. rewrite Hc. cbn. rewrite Z.eqb_refl, Ht. reflexivity.
  - destruct (Z.eqb_spec k a); cbn.
    + destruct (Z.eqb_spec k c); [congruence | reflexivity].
    + destruct (dget k (tensors n)); [reflexivity|]. destruct (Z.eqb_spec k c); [congruence | reflexivity].
Qed.

Lemma cntB_rename_tensor n a c t k kb : WF0 n -> dget a (tensors n) = Some t ->
  ~ In c (dkeys (tensors n)) ->
  cntB (mkN (dpop a (tensors n) ++ [(c, set_tid t c)]) (upd_all (f_retid a c) (t_bids t) (bonds n))) kb k =
  if Z.eqb k c then cntB n kb a else if Z.eqb k a then O else cntB n kb k.
Proof.
  intros W Ht Hc.
  assert (Hac : a <> c) by (intros ->; apply Hc; eapply dget_Some_key; eauto).
  unfold cntB. cbn [bonds]. rewrite dget_upd_all.
  destruct (dget kb (bonds n)) as [b|] eqn:Hb; cbn [option_map].
  2:{ destruct (Z.eqb k c), (Z.eqb k a); reflexivity. }
  rewrite iter_retid_count by assumption.
  pose proof (wf_inc n W a kb) as Ia. unfold cntT, cntB in Ia. rewrite Ht, Hb in Ia.
  pose proof (wf_inc n W c kb) as Ic. unfold cntT, cntB in Ic. rewrite Hb in Ic.
  apply dget_None in Hc. rewrite Hc in Ic.
  destruct (zcount kb (t_bids t)) eqn:Em.
  - (* bond not touched: a does not occur *)
    symmetry in Ia.
    destruct (Z.eqb_spec k c); [subst; lia|]. destruct (Z.eqb_spec k a); [subst; lia | reflexivity].
  - rewrite zcount_zreplace by assumption.
    destruct (Z.eqb_spec k c); [lia|]. reflexivity.
Qed.

Lemma In_dpop_app {V} (d : dict V) a c v k x : NoDup (dkeys d) ->
  In (k, x) (dpop a d ++ [(c, v)]) <-> (k <> a /\ In (k, x) d) \/ (k = c /\ x = v).
Proof.
  intros ND. rewrite in_app_iff, dpop_filter by assumption. rewrite filter_In. cbn [fst In].
  rewrite negb_true_iff, Z.eqb_neq. split.
  - intros [[A B]|[E|[]]]; [left; auto | injection E as <- <-; right; auto].
  - intros [[A B]|[-> ->]]; [left; auto | right; left; reflexivity].
Qed.

Lemma NoDup_snoc {A} (l : list A) x : NoDup l -> ~ In x l -> NoDup (l ++ [x]).
Proof.
  induction 1 as [|y l Hy ND IH]; cbn; intros Hx.
  - constructor; [intros []|constructor].
  - constructor.
    + rewrite in_app_iff. cbn. intros [E|[E|[]]]; [contradiction | subst; apply Hx; left; reflexivity].
    + apply IH. intros E; apply Hx; right; exact E.
Qed.
Lemma NoDup_dpop_app {V} (d : dict V) a c v : NoDup (dkeys d) -> ~ In c (dkeys d) ->
  NoDup (dkeys (dpop a d ++ [(c, v)])).
Proof.
  intros ND Hc. rewrite dkeys_app, dkeys_dpop by assumption. cbn.
  apply NoDup_snoc.
  - apply NoDup_filter. assumption.
  - rewrite filter_In. tauto.
Qed.

Theorem rename_tensor_WF0 n a c n' : WF0 n -> rename_tensor_priv n a c = Some n' -> WF0 n'.
Proof.
  intros W H. destruct (rename_tensor_spec n a c n' W H) as [t [Ht [Hc ->]]].
  assert (Hac : a <> c) by (intros ->; apply Hc; eapply dget_Some_key; eauto).
  constructor; cbn [tensors bonds].
  - apply NoDup_dpop_app; [apply (wf_ndT n W) | assumption].
  - rewrite dkeys_upd_all. apply (wf_ndB n W).
  - intros k x Hin. apply In_dpop_app in Hin; [|apply (wf_ndT n W)].
    destruct Hin as [[_ Hin]|[-> ->]]; [apply (wf_T n W); assumption|].
    cbn. split; [reflexivity|]. apply (wf_T n W a t). apply dget_In. assumption.
  - intros k b Hin. apply In_upd_all in Hin. destruct Hin as [b0 [Hin ->]].
    rewrite iter_retid_id, iter_retid_len. apply (wf_B n W). assumption.
  - intros k kb. rewrite cntT_rename_tensor, cntB_rename_tensor by (auto; apply (wf_ndT n W)).
    destruct (Z.eqb k c); [apply (wf_inc n W)|]. destruct (Z.eqb k a); [reflexivity | apply (wf_inc n W)].
  - intros kb. destruct (wf_dim n W kb) as [d Hd]. exists d. intros k x ax Hin.
    apply In_dpop_app in Hin; [|apply (wf_ndT n W)].
    destruct Hin as [[_ Hin]|[-> ->]]; [apply (Hd k x ax Hin)|].
    cbn. apply (Hd a t ax). apply dget_In. assumption.
Qed.

(* ------------------------------------------------------------------ rename_bond *)
Lemma rename_bond_spec n a c n' : WF0 n -> rename_bond n a c = Some n' ->
  exists b, dget a (bonds n) = Some b /\ ~ In c (dkeys (bonds n)) /\
    n' = mkN (upd_all (f_rebid a c) (b_tids b) (tensors n)) (dpop a (bonds n) ++ [(c, mkB c (b_tids b))]).
Proof.
  intros W H. unfold rename_bond in H.
  destruct (dget a (bonds n)) as [b|] eqn:Hb; [|discriminate].
  destruct (dhas c (bonds n)) eqn:Hc; [discriminate|]. apply dhas_false in Hc.
  destruct (negb (b_id b =? a)); [discriminate|].
  rewrite rebid_step_upd in H. rewrite ofold_upd in H.
  - injection H as <-. exists b. auto.
  - apply (wf_ndT n W).
  - intros k Hk. eapply wf_tids_exist; eauto. apply dget_In. exact Hb.
Qed.

Lemma legs_absent_bond n k x ax c : WF0 n -> ~ In c (dkeys (bonds n)) -> In (k, x) (tensors n) ->
  nth_error (t_bids x) ax = Some c -> False.
Proof.
  intros W Hc Hin Hn. pose proof (wf_inc n W k c) as I. rewrite (cntB_absent n c k Hc) in I.
  unfold cntT in I. rewrite (In_dget _ _ _ (wf_ndT n W) Hin) in I.
  apply zcount_0 in I. apply I. eapply nth_error_In; eauto.
Qed.

Theorem rename_bond_WF0 n a c n' : WF0 n -> rename_bond n a c = Some n' -> WF0 n'.
Proof.
  intros W H. destruct (rename_bond_spec n a c n' W H) as [b [Hb [Hc ->]]].
  assert (Hac : a <> c) by (intros ->; apply Hc; eapply dget_Some_key; eauto).
  constructor; cbn [tensors bonds].
  - rewrite dkeys_upd_all. apply (wf_ndT n W).
  - apply NoDup_dpop_app; [apply (wf_ndB n W) | assumption].
  - intros k x Hin. apply In_upd_all in Hin. destruct Hin as [x0 [Hin ->]].
    rewrite iter_rebid by assumption. destruct (zcount k (b_tids b)); [apply (wf_T n W); assumption|].
    unfold f_rebid, set_bids. cbn [t_id t_shape t_bids]. rewrite zreplace_length. apply (wf_T n W). assumption.
  - intros k x Hin. apply In_dpop_app in Hin; [|apply (wf_ndB n W)].
    destruct Hin as [[_ Hin]|[-> ->]]; [apply (wf_B n W); assumption|].
    cbn. split; [reflexivity|]. apply (wf_B n W a b). apply dget_In. assumption.
  - intros k kb.
    (* bonds side *)
    assert (EB : cntB (mkN (upd_all (f_rebid a c) (b_tids b) (tensors n)) (dpop a (bonds n) ++ [(c, mkB c (b_tids b))])) kb k
                 = if Z.eqb kb c then cntB n a k else if Z.eqb kb a then O else cntB n kb k).
    { unfold cntB. cbn [bonds]. rewrite dget_app, dget_dpop by apply (wf_ndB n W).
      destruct (Z.eqb_spec kb c).
      - subst. destruct (Z.eqb_spec c a); [congruence|].
        pose proof Hc as Hc'. apply dget_None in Hc'. rewrite Hc'. cbn. rewrite Z.eqb_refl, Hb. reflexivity.
      - destruct (Z.eqb_spec kb a); cbn.
        + destruct (Z.eqb_spec kb c); [congruence | reflexivity].
        + destruct (dget kb (bonds n)); [reflexivity|]. destruct (Z.eqb_spec kb c); [congruence | reflexivity]. }
    rewrite EB. clear EB.
    unfold cntT at 1. cbn [tensors]. rewrite dget_upd_all.
    pose proof (wf_inc n W k a) as Ia. pose proof (wf_inc n W k c) as Ic.
    rewrite (cntB_absent n c k Hc) in Ic. pose proof (wf_inc n W k kb) as Ik.
    unfold cntT in Ia, Ic, Ik.
    destruct (dget k (tensors n)) as [x|] eqn:Hx; cbn [option_map].
    2:{ destruct (Z.eqb kb c); [exact Ia|]. destruct (Z.eqb kb a); [reflexivity | exact Ik]. }
    rewrite iter_rebid by assumption.
    assert (Em : zcount k (b_tids b) = cntB n a k) by (unfold cntB; rewrite Hb; reflexivity).
    destruct (zcount k (b_tids b)) eqn:E0.
    + (* tensor not touched: it has no leg on a *)
      rewrite <- Em in Ia.
      destruct (Z.eqb_spec kb c); [subst; lia|]. destruct (Z.eqb_spec kb a); [subst; lia | exact Ik].
    + unfold f_rebid, set_bids. cbn [t_bids]. rewrite zcount_zreplace by assumption.
      destruct (Z.eqb_spec kb c); [lia|]. destruct (Z.eqb_spec kb a); [reflexivity | exact Ik].
  - intros kb.
    destruct (wf_dim n W (if Z.eqb kb c then a else kb)) as [d Hd]. exists d.
    intros k x ax Hin Hn. apply In_upd_all in Hin. destruct Hin as [x0 [Hin ->]].
    rewrite iter_rebid in * by assumption.
    destruct (zcount k (b_tids b)).
    + destruct (Z.eqb_spec kb c).
      * subst. exfalso. eapply legs_absent_bond; eauto.
      * eapply Hd; eauto.
    + unfold f_rebid, set_bids in *. cbn [t_bids t_shape] in *.
      rewrite nth_error_zreplace in Hn. destruct (nth_error (t_bids x0) ax) as [y|] eqn:Ey; [|discriminate].
      cbn in Hn. injection Hn as Hn. apply (Hd k x0 ax Hin). rewrite Ey. f_equal.
      destruct (Z.eqb_spec y a) as [e|e].
      * rewrite <- Hn, Z.eqb_refl. exact e.
      * rewrite <- Hn. destruct (Z.eqb_spec y c) as [e2|e2]; [|reflexivity].
        exfalso. rewrite e2 in Ey. eapply legs_absent_bond; eauto.
Qed.

(* ------------------------------------------------------------------ transpose *)
Lemma map_nth_seq {A} (l : list A) d : map (fun i => nth i l d) (seq 0 (length l)) = l.
Proof.
  induction l as [|x l IH]; [reflexivity|]. cbn [length seq map nth]. f_equal.
  rewrite <- seq_shift, map_map. exact IH.
Qed.
Lemma perm_pick {A} (l : list A) d p : Permutation p (seq 0 (length l)) ->
  Permutation (map (fun i => nth i l d) p) l.
Proof.
  intros H. eapply Permutation_trans; [apply Permutation_map; exact H|]. rewrite map_nth_seq. reflexivity.
Qed.

Lemma In_dset_in {V} (d : dict V) k v k' x : NoDup (dkeys d) -> In k (dkeys d) ->
  In (k', x) (dset k v d) <-> (k' = k /\ x = v) \/ (k' <> k /\ In (k', x) d).
Proof.
  intros ND Hk. rewrite dset_map by assumption. rewrite in_map_iff. split.
  - intros [[k2 v2] [E Hin]]. cbn [fst] in E. destruct (Z.eqb_spec k2 k).
    + injection E as <- <-. left. auto.
    + injection E as <- <-. right. auto.
  - intros [[-> ->]|[Hne Hin]].
    + apply In_key_dget in Hk. destruct Hk as [v0 Hv0]. exists (k, v0). cbn. rewrite Z.eqb_refl.
      split; [reflexivity | apply dget_In; assumption].
    + exists (k', x). cbn. destruct (Z.eqb_spec k' k); [congruence|]. auto.
Qed.

Definition transposed (t : tensor) (axes : list nat) : tensor :=
  mkT (t_id t) (map (fun ax => nth ax (t_shape t) O) axes) (map (fun ax => nth ax (t_bids t) 0) axes) (t_ref t).

Lemma zlist_eqb_eq a : forall b, zlist_eqb a b = true -> a = b.
Proof.
  induction a as [|x a IH]; intros [|y b] H; cbn in H; try discriminate; [reflexivity|].
  apply andb_true_iff in H. destruct H as [E H]. apply Z.eqb_eq in E. subst. f_equal. apply IH. exact H.
Qed.

(** [axes] is a permutation of all open axes *)
Definition is_perm_of (axes : list nat) (n : net) : Prop :=
  Permutation axes (seq 0 (length (vbids n))).

(** an accepted transposition: the positions used are a permutation of ALL axes of the virtual
    tensor (the code's own test  sorted(axes) == list(range(ndim))) *)
Lemma transpose_spec n axes n' : transpose n axes = Some n' ->
  exists t, dget VT (tensors n) = Some t /\ Permutation (nat_axes n axes) (seq 0 (t_ndim t)) /\
    (forall ax, In ax (nat_axes n axes) -> (ax < length (t_shape t))%nat /\ (ax < length (t_bids t))%nat) /\
    n' = mkN (dset VT (transposed t (nat_axes n axes)) (tensors n)) (bonds n).
Proof.
  unfold transpose, nat_axes. destruct (dget VT (tensors n)) as [t|]; [|discriminate].
  unfold axes_refused. set (axs := norm_axes (t_ndim t) axes).
  destruct (zlist_eqb (zsort axs) _) eqn:E; [|discriminate]. cbn [negb].
  destruct (forallb _ (map Z.to_nat axs)) eqn:F; [|discriminate]. cbn [negb]. intros [= <-].
  apply zlist_eqb_eq in E.
  assert (P : Permutation (map Z.to_nat axs) (seq 0 (t_ndim t))).
  { pose proof (Permutation_map Z.to_nat (zsort_perm axs)) as P. rewrite E, map_map in P.
    rewrite (map_ext _ (fun x => x)) in P by (intros x; apply Nat2Z.id). rewrite map_id in P. exact P. }
  exists t. split; [reflexivity|]. split; [exact P|]. split; [|reflexivity].
  intros ax Hax. split.
  - apply (Permutation_in _ P) in Hax. apply in_seq in Hax. unfold t_ndim in Hax. lia.
  - rewrite forallb_forall in F. apply Nat.ltb_lt. apply F. exact Hax.
Qed.

Lemma transpose_is_perm n axes n' : WF0 n -> transpose n axes = Some n' -> is_perm_of (nat_axes n axes) n.
Proof.
  intros W H. destruct (transpose_spec n axes n' H) as [t [Ht [P _]]].
  unfold is_perm_of, vbids. rewrite Ht.
  pose proof (wf_T n W VT t (dget_In _ _ _ Ht)) as [_ Hlen]. unfold t_ndim in P. rewrite <- Hlen. exact P.
Qed.

Theorem transpose_WF0 n axes n' : WF0 n -> transpose n axes = Some n' -> WF0 n'.
Proof.
  intros W H. pose proof (transpose_is_perm n axes n' W H) as P.
  destruct (transpose_spec n axes n' H) as [t [Ht [_ [Hax ->]]]].
  set (axs := nat_axes n axes) in *.
  unfold is_perm_of, vbids in P. rewrite Ht in P.
  assert (HV : In VT (dkeys (tensors n))) by (eapply dget_Some_key; eauto).
  pose proof (wf_T n W VT t (dget_In _ _ _ Ht)) as [Hid Hlen].
  constructor; cbn [tensors bonds].
  - rewrite dkeys_dset_in by assumption. apply (wf_ndT n W).
  - apply (wf_ndB n W).
  - intros k x Hin. apply In_dset_in in Hin; [|apply (wf_ndT n W)|assumption].
    destruct Hin as [[-> ->]|[_ Hin]]; [|apply (wf_T n W); assumption].
    cbn. rewrite !map_length. auto.
  - apply (wf_B n W).
  - intros k kb. transitivity (cntT n k kb); [|rewrite (wf_inc n W k kb); reflexivity].
    unfold cntT. cbn [tensors]. rewrite dget_dset.
    destruct (Z.eqb_spec k VT); [|reflexivity]. subst. rewrite Ht. cbn [transposed t_bids].
    apply zcount_perm. apply perm_pick. exact P.
  - intros kb. destruct (wf_dim n W kb) as [d Hd]. exists d. intros k x ax' Hin Hn.
    apply In_dset_in in Hin; [|apply (wf_ndT n W)|assumption].
    destruct Hin as [[-> ->]|[_ Hin]]; [|eapply Hd; eauto].
    cbn [transposed t_bids t_shape] in *. rewrite nth_error_map in *.
    destruct (nth_error axs ax') as [ax|] eqn:Ea; [|discriminate]. cbn in *.
    injection Hn as Hn. f_equal.
    destruct (Hax ax (nth_error_In _ _ Ea)) as [A B].
    assert (E : nth_error (t_bids t) ax = Some kb) by (rewrite <- Hn; apply nth_error_nth'; assumption).
    specialize (Hd VT t ax (dget_In _ _ _ Ht) E).
    apply nth_error_nth with (d := O) in Hd. exact Hd.
Qed.

(* ------------------------------------------------------------------ counts are unchanged *)
Lemma upd_all_length {V} (f : V -> V) ks (d : dict V) : length (upd_all f ks d) = length d.
Proof. apply map_length. Qed.
Lemma dpop_app_length {V} (d : dict V) a c v : NoDup (dkeys d) -> In a (dkeys d) ->
  length (dpop a d ++ [(c, v)]) = length d.
Proof.
  intros ND Ha. rewrite app_length. cbn. induction d as [|[k x] d IH]; [destruct Ha|].
  cbn. inversion ND; subst. destruct (Z.eqb_spec a k); [lia|]. cbn.
  destruct Ha as [Ha|Ha]; [cbn in Ha; congruence|]. specialize (IH H2 Ha). lia.
Qed.
