(** The converse of TNConsistent.WF_is_consistent: every network that is_consistent accepts
    satisfies the incidence invariant WF, so "from any consistent starting point" in C07/C08
    really means "from any network the library's own check accepts".

    The only extra hypothesis is [Rep]: what a Python object of these classes cannot violate
    and is_consistent therefore never looks at -
      - a dict holds every key once (association lists could repeat a key),
      - len(shape) = len(bids) for every tensor: enforced by SymbolicTensor.__init__ and kept by
        every method that writes shape/bids (SymbolicTensor.transpose, merge_tensors, merge
        update both with the same index list). *)
From Qib Require Export TN.TNProofs.
Local Open Scope Z_scope.

Definition Rep (n : net) : Prop :=
  NoDup (dkeys (tensors n)) /\ NoDup (dkeys (bonds n)) /\
  forall k t, In (k, t) (tensors n) -> length (t_shape t) = length (t_bids t).

Lemma WF_Rep n : WF n -> Rep n.
Proof.
  intros [W _]. split; [apply (wf_ndT n W)|]. split; [apply (wf_ndB n W)|].
  intros k t H. apply (wf_T n W k t H).
Qed.

(* ------------------------------------------------------------------ find_leg, occurrences *)
Lemma find_leg_nth bid bids : forall ax off, nth_error bids ax = Some bid ->
  find_leg bid bids (zcount bid (firstn ax bids)) off = Some (off + ax)%nat.
Proof.
  induction bids as [|b r IH]; intros [|ax] off H; cbn in H; try discriminate.
  - injection H as ->. cbn [firstn find_leg]. rewrite Z.eqb_refl. cbn. f_equal. lia.
  - cbn [firstn find_leg]. rewrite zcount_cons. rewrite (Z.eqb_sym bid b).
    destruct (Z.eqb b bid); cbn [Nat.add].
    + rewrite (IH ax (S off) H). f_equal. lia.
    + rewrite (IH ax (S off) H). f_equal. lia.
Qed.

Lemma nth_occurrence k l : forall j, (j < zcount k l)%nat ->
  exists i, nth_error l i = Some k /\ zcount k (firstn i l) = j.
Proof.
  induction l as [|y l IH]; intros j H; [cbn in H; lia|].
  rewrite zcount_cons in H. destruct (Z.eqb_spec k y) as [->|Hne].
  - destruct j as [|j].
    + exists O. split; reflexivity.
    + destruct (IH j ltac:(lia)) as [i [A B]]. exists (S i). split; [exact A|].
      cbn [firstn]. rewrite zcount_cons, Z.eqb_refl, B. reflexivity.
  - destruct (IH j ltac:(lia)) as [i [A B]]. exists (S i). split; [exact A|].
    cbn [firstn]. rewrite zcount_cons. destruct (Z.eqb_spec k y); [congruence|]. exact B.
Qed.

Lemma nth_error_combine {A B} (l : list A) (l' : list B) : forall i a b,
  nth_error l i = Some a -> nth_error l' i = Some b -> nth_error (combine l l') i = Some (a, b).
Proof.
  revert l'. induction l as [|x l IH]; intros [|y l'] [|i] a b H1 H2; cbn in *; try discriminate.
  - congruence.
  - apply IH; assumption.
Qed.

(* ------------------------------------------------------------------ get_bond_axes, inverted *)
Lemma bond_axes_aux_inv T bid : forall rest seen axs,
  bond_axes_aux T bid seen rest = Some axs ->
  length axs = length rest /\
  forall i tid ax, nth_error rest i = Some tid -> nth_error axs i = Some ax ->
    exists t, dget tid T = Some t /\ find_leg bid (t_bids t) (zcount tid (seen ++ firstn i rest)) O = Some ax.
Proof.
  induction rest as [|tid rest IH]; intros seen axs H; cbn [bond_axes_aux] in H.
  - injection H as <-. split; [reflexivity|]. intros [|i] ? ? E; discriminate.
  - destruct (dget tid T) as [t|] eqn:Et; [|discriminate].
    destruct (find_leg bid (t_bids t) (zcount tid seen) O) as [ax0|] eqn:Ef; [|discriminate].
    destruct (bond_axes_aux T bid (seen ++ [tid]) rest) as [axs0|] eqn:Er; [|discriminate].
    injection H as <-. destruct (IH _ _ Er) as [L S]. split; [cbn; lia|].
    intros [|i] tid' ax' E1 E2; cbn in E1, E2.
    + injection E1 as <-. injection E2 as <-. exists t. split; [assumption|].
      cbn [firstn]. rewrite app_nil_r. exact Ef.
    + destruct (S i tid' ax' E1 E2) as [t' [Et' F]]. exists t'. split; [assumption|].
      cbn [firstn]. rewrite <- app_assoc in F. exact F.
Qed.

Lemma bond_axes_aux_legs T bid rest seen axs tid :
  bond_axes_aux T bid seen rest = Some axs -> In tid rest ->
  exists t, dget tid T = Some t /\ In bid (t_bids t).
Proof.
  intros H Hin. destruct (bond_axes_aux_inv T bid rest seen axs H) as [L S].
  apply In_nth_error in Hin. destruct Hin as [i Hi].
  destruct (nth_error axs i) as [ax|] eqn:Ea.
  2:{ apply nth_error_None in Ea. assert (i < length rest)%nat by (apply nth_error_Some; congruence). lia. }
  destruct (S i tid ax Hi Ea) as [t [Et F]]. exists t. split; [assumption|].
  apply find_leg_sound in F. destruct F as [_ F]. eapply nth_error_In. exact F.
Qed.

(* ------------------------------------------------------------------ the converse *)
Theorem is_consistent_WF n : Rep n -> is_consistent n = true -> WF n.
Proof.
  intros [NDT [NDB RL]] H. unfold is_consistent in H. rewrite !andb_true_iff in H.
  destruct H as [[HV HT] HB]. apply dhas_In in HV.
  rewrite forallb_forall in HT, HB.
  (* unpack the two per-item checks *)
  assert (TK : forall k t, In (k, t) (tensors n) -> t_id t = k /\
              forall bid, In bid (t_bids t) -> exists b, dget bid (bonds n) = Some b /\
                zcount k (b_tids b) = zcount bid (t_bids t)).
  { intros k t Hin. specialize (HT (k, t) Hin). unfold tensor_ok in HT. rewrite andb_true_iff in HT.
    destruct HT as [A B]. apply Z.eqb_eq in A. split; [congruence|]. intros bid Hb.
    rewrite forallb_forall in B. specialize (B bid Hb).
    destruct (dget bid (bonds n)) as [b|]; [|discriminate]. exists b. split; [reflexivity|].
    apply Nat.eqb_eq in B. congruence. }
  assert (BK : forall kb b, In (kb, b) (bonds n) -> b_id b = kb /\ (2 <= length (b_tids b))%nat /\
              exists axs, bond_axes_aux (tensors n) kb [] (b_tids b) = Some axs /\
                all_eq_nat (map (fun p => match dget (fst p) (tensors n) with
                                           | None => O
                                           | Some t => nth (snd p) (t_shape t) O
                                           end) (combine (b_tids b) axs)) = true).
  { intros kb b Hin. specialize (HB (kb, b) Hin). unfold bond_ok in HB. rewrite !andb_true_iff in HB.
    destruct HB as [[A B] C]. apply Z.eqb_eq in A. apply Nat.leb_le in B. split; [congruence|]. split; [assumption|].
    unfold get_bond_axes in C. rewrite <- A in C. rewrite (In_dget _ _ _ NDB Hin) in C. rewrite <- A in C. rewrite Z.eqb_refl in C.
    destruct (bond_axes_aux (tensors n) kb [] (b_tids b)) as [axs|]; [|discriminate].
    exists axs. split; [reflexivity|]. rewrite !andb_true_iff in C. apply C. }
  assert (INC : forall k kb, cntT n k kb = cntB n kb k).
  { intros k kb. unfold cntT, cntB.
    destruct (dget k (tensors n)) as [t|] eqn:Et.
    - pose proof (dget_In _ _ _ Et) as Hin. destruct (TK k t Hin) as [_ TB].
      destruct (in_dec Z.eq_dec kb (t_bids t)) as [Hb|Hb].
      + destruct (TB kb Hb) as [b [Eb C]]. rewrite Eb. symmetry. exact C.
      + assert (Z0 : zcount kb (t_bids t) = O) by (apply zcount_0; assumption). rewrite Z0.
        destruct (dget kb (bonds n)) as [b|] eqn:Eb; [|reflexivity].
        symmetry. apply zcount_0. intros Hk.
        destruct (BK kb b (dget_In _ _ _ Eb)) as [_ [_ [axs [Ha _]]]].
        destruct (bond_axes_aux_legs _ _ _ _ _ k Ha Hk) as [t' [Et' Hl]].
        rewrite Et in Et'. injection Et' as <-. contradiction.
    - destruct (dget kb (bonds n)) as [b|] eqn:Eb; [|reflexivity].
      symmetry. apply zcount_0. intros Hk.
      destruct (BK kb b (dget_In _ _ _ Eb)) as [_ [_ [axs [Ha _]]]].
      destruct (bond_axes_aux_legs _ _ _ _ _ k Ha Hk) as [t' [Et' _]]. congruence. }
  split; [|exact HV]. constructor.
  - exact NDT.
  - exact NDB.
  - intros k t Hin. split; [apply (TK k t Hin) | apply (RL k t Hin)].
  - intros k b Hin. destruct (BK k b Hin) as [A [B _]]. auto.
  - exact INC.
  - intros kb. destruct (dget kb (bonds n)) as [b|] eqn:Eb.
    + destruct (BK kb b (dget_In _ _ _ Eb)) as [_ [_ [axs [Ha AE]]]].
      set (dimf := fun p : Z * nat => match dget (fst p) (tensors n) with
                                       | None => O
                                       | Some t => nth (snd p) (t_shape t) O
                                       end) in *.
      set (Lst := map dimf (combine (b_tids b) axs)) in *.
      exists (hd O Lst). intros k t ax Hin Hn.
      pose proof (In_dget _ _ _ NDT Hin) as Et.
      (* the leg (k, ax) is one of the references of the bond *)
      pose proof (INC k kb) as I. unfold cntT, cntB in I. rewrite Et, Eb in I.
      assert (Hj : (zcount kb (firstn ax (t_bids t)) < zcount k (b_tids b))%nat).
      { rewrite <- I. rewrite <- (firstn_skipn ax (t_bids t)) at 2. rewrite zcount_app.
        assert (Hs : exists r, skipn ax (t_bids t) = kb :: r).
        { clear - Hn. revert ax Hn. generalize (t_bids t). induction l as [|y l IH]; intros [|ax] Hn; cbn in *; try discriminate.
          - injection Hn as ->. eexists; reflexivity.
          - apply IH. exact Hn. }
        destruct Hs as [r ->]. rewrite zcount_cons, Z.eqb_refl. lia. }
      destruct (nth_occurrence k (b_tids b) _ Hj) as [i [Hi Hc]].
      destruct (bond_axes_aux_inv _ _ _ _ _ Ha) as [Ln Sp].
      destruct (nth_error axs i) as [ax'|] eqn:Ea.
      2:{ apply nth_error_None in Ea. assert (i < length (b_tids b))%nat by (apply nth_error_Some; congruence). lia. }
      destruct (Sp i k ax' Hi Ea) as [t' [Et' F]]. rewrite Et in Et'. injection Et' as <-.
      cbn [app] in F. rewrite Hc in F. rewrite (find_leg_nth kb (t_bids t) ax O Hn) in F.
      injection F as <-. cbn [Nat.add] in Ea.
      assert (Hd : In (dimf (k, ax)) Lst).
      { unfold Lst. apply in_map. eapply nth_error_In. apply nth_error_combine; eassumption. }
      assert (Hv : dimf (k, ax) = hd O Lst).
      { destruct Lst as [|z Lst'] eqn:EL; [destruct Hd|]. cbn [hd].
        eapply all_eq_nat_spec; [exact AE | exact Hd | left; reflexivity]. }
      rewrite <- Hv. unfold dimf. cbn [fst snd]. rewrite Et.
      apply nth_error_nth'. rewrite (RL k t Hin). apply nth_error_Some. congruence.
    + exists O. intros k t ax Hin Hn. exfalso. destruct (TK k t Hin) as [_ TB].
      destruct (TB kb (nth_error_In _ _ Hn)) as [b [Eb' _]]. congruence.
Qed.

(** the library's check and the invariant coincide on Python-representable networks *)
Corollary is_consistent_iff_WF n : Rep n -> (is_consistent n = true <-> WF n).
Proof. intros R. split; [apply is_consistent_WF; assumption | apply WF_is_consistent]. Qed.

(** ... and the decidable form used in the correspondence run is exactly the invariant *)
Lemma NoDup_znodupb l : NoDup l -> znodupb l = true.
Proof. apply znodupb_NoDup. Qed.
