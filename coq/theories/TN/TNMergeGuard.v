(** merge's refusal of joins that would leave a (fused) bond with fewer than two legs
    (TNModel.joins_starve, the code's last ValueError in front of any change) against the
    `assert len(bond.tids) >= 2` of the deletion loop (inside TNModel.merge_changes):
    on a finite family of networks and all join lists up to length 3 the refusal fires exactly
    when the part of merge behind the validation would fail - i.e. it refuses nothing the old
    code handled, and behind it the assertion (and everything else) never fails.
    This is a statement about the listed networks only (enumeration by vm_compute); in general
    the agreement is checked on every merge of a run by checks/C08.py (independent union-find
    classification, `merge:refuses-valid-operation`, `merge:exception:AssertionError`). *)
From Qib Require Export TN.TNMerge TN.TNProofs.
Local Open Scope Z_scope.

(** an accepted merge has passed the leg-count test *)
Lemma merge_is_merge_changes n o joins ordT ordB n' :
  merge n o joins ordT ordB = Some n' ->
  exists norig, num_open_axes n = Some norig /\ merge_changes norig n o joins ordT ordB = Some n'.
Proof.
  unfold merge. intros H.
  destruct (num_open_axes n) as [norig|]; [|discriminate]. exists norig. split; [reflexivity|].
  destruct (match joins with [] => Some O | _ :: _ => num_open_axes o end); [|discriminate].
  destruct (negb (forallb _ joins)); [discriminate|].
  destruct (joins_starve n o joins); [discriminate|exact H].
Qed.

Definition leg_nets : list net :=
  [ (* an identity wire *)
    mkN [(-1, mkT (-1) [2; 2]%nat [0; 0] (-1))] [(0, mkB 0 [-1; -1])];
    (* two identity wires *)
    mkN [(-1, mkT (-1) [2; 2; 2; 2]%nat [3; 3; 4; 4] (-1))] [(3, mkB 3 [-1; -1]); (4, mkB 4 [-1; -1])];
    (* four open legs on one bond *)
    mkN [(-1, mkT (-1) [2; 2; 2; 2]%nat [0; 0; 0; 0] (-1))] [(0, mkB 0 [-1; -1; -1; -1])];
    (* a vector *)
    mkN [(0, mkT 0 [2]%nat [3] 0); (-1, mkT (-1) [2]%nat [3] (-1))] [(3, mkB 3 [-1; 0])];
    (* a matrix *)
    mkN [(0, mkT 0 [2; 2]%nat [0; 1] 0); (-1, mkT (-1) [2; 2]%nat [0; 1] (-1))] [(0, mkB 0 [-1; 0]); (1, mkB 1 [-1; 0])];
    (* a vector on a bond with two open legs *)
    mkN [(0, mkT 0 [2]%nat [0] 0); (-1, mkT (-1) [2; 2]%nat [0; 0] (-1))] [(0, mkB 0 [-1; -1; 0])];
    (* mixed dimensions *)
    mkN [(0, mkT 0 [2; 3; 2]%nat [0; 1; 2] 0); (-1, mkT (-1) [2; 3; 2]%nat [0; 1; 2] (-1))]
        [(0, mkB 0 [-1; 0]); (1, mkB 1 [-1; 0]); (2, mkB 2 [-1; 0])] ].

(** the iteration order of  self.keys() & other.keys()  used for the enumeration (any order is
    an input of the model) *)
Definition shared_keys (k1 k2 : list Z) : list Z := filter (fun k => zmem k k2) k1.

Fixpoint join_lists (pairs : list (nat * nat)) (len : nat) : list (list (nat * nat)) :=
  match len with
  | O => [[]]
  | S l => [] :: flat_map (fun js => map (fun p => p :: js) pairs) (join_lists pairs l)
  end.

Lemma join_lists_complete pairs len : forall joins,
  (length joins <= len)%nat -> (forall j, In j joins -> In j pairs) -> In joins (join_lists pairs len).
Proof.
  induction len as [|len IH]; intros joins L H.
  - destruct joins; [left; reflexivity | cbn in L; lia].
  - destruct joins as [|p js]; [left; reflexivity|]. right.
    apply in_flat_map. exists js. split.
    + apply IH; [cbn in L; lia | intros j Hj; apply H; right; exact Hj].
    + apply (in_map (fun q => q :: js)). apply H. left. reflexivity.
Qed.

(** the range and dimension tests of merge's validation loop *)
Definition joins_validated (n o : net) (joins : list (nat * nat)) : bool :=
  forallb (fun j => Nat.ltb (fst j) (length (vshape n)) && Nat.ltb (snd j) (length (vshape o))
                    && Nat.eqb (nth (fst j) (vshape n) O) (nth (snd j) (vshape o) O)) joins.

Definition merge_changes_fails (n o : net) (joins : list (nat * nat)) : bool :=
  match merge_changes (length (vshape n)) n o joins (shared_keys (dkeys (tensors n)) (dkeys (tensors o)))
                      (shared_keys (dkeys (bonds n)) (dkeys (bonds o))) with
  | None => true
  | Some _ => false
  end.

Definition guard_exact_on (len : nat) (n o : net) : bool :=
  forallb (fun joins => negb (joins_validated n o joins) || Bool.eqb (joins_starve n o joins) (merge_changes_fails n o joins))
          (join_lists (list_prod (seq 0 (length (vshape n))) (seq 0 (length (vshape o)))) len).

Theorem leg_count_refusal_exact_bounded :
  forall n o joins, In n leg_nets -> In o leg_nets -> (length joins <= 3)%nat -> joins_validated n o joins = true ->
    joins_starve n o joins = merge_changes_fails n o joins.
Proof.
  assert (E : forallb (fun n => forallb (guard_exact_on 3 n) leg_nets) leg_nets = true) by (vm_compute; reflexivity).
  intros n o joins Hn Ho L V.
  rewrite forallb_forall in E. specialize (E n Hn). rewrite forallb_forall in E. specialize (E o Ho).
  unfold guard_exact_on in E. rewrite forallb_forall in E.
  assert (Hin : In joins (join_lists (list_prod (seq 0 (length (vshape n))) (seq 0 (length (vshape o)))) 3)).
  { apply join_lists_complete; [exact L|]. intros [a b] Hj.
    unfold joins_validated in V. rewrite forallb_forall in V. specialize (V (a, b) Hj). cbn [fst snd] in V.
    rewrite !andb_true_iff in V. destruct V as [[A B] _]. apply Nat.ltb_lt in A, B.
    apply in_prod; apply in_seq; lia. }
  specialize (E joins Hin). rewrite V in E. cbn [negb orb] in E. apply Bool.eqb_prop in E. exact E.
Qed.

Lemma leg_nets_WF : forall n, In n leg_nets -> WF n.
Proof.
  assert (E : forallb wf_b leg_nets = true) by (vm_compute; reflexivity).
  intros n Hn. rewrite forallb_forall in E. apply wf_b_WF. apply E. exact Hn.
Qed.
