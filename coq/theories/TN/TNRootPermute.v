(** The verified checker is stable under the root permutation of contract_tree: if check_root
    accepts (t, amap) it accepts (permute_self t p, [inv_perm p [a] for a in amap]) for every
    permutation p.  With TNBuilderRoot: what contract_tree RETURNS always passes check_root -
    the run-time validation of C07 can never reject a tree built by the model. *)
From Qib Require Export TN.TNBuilderRoot.
From Coq Require Import Permutation.
Local Open Scope Z_scope.
Local Open Scope nat_scope.

Lemma permute_self_shape t p t' : permute_self t p = Some t' ->
  length p = length (tr_out t) /\ tr_oax t' = tr_oax t /\ leaves_of t' = leaves_of t /\
  tr_out t' = pick O (tr_out t) p /\ tr_trk t' = pick O (inv_perm p) (tr_trk t).
Proof.
  unfold permute_self. destruct (Nat.eqb_spec (length p) (length (tr_out t))) as [E|E]; [|discriminate]. cbn [negb].
  destruct t; intros [= <-]; cbn; auto.
Qed.

Lemma track_of_permute t p t' e : permute_self t p = Some t' ->
  track_of t' e = option_map (fun x => nth x (inv_perm p) O) (track_of t e).
Proof.
  intros H. destruct (permute_self_shape t p t' H) as [_ [Ea [_ [_ Ek]]]]. unfold track_of. rewrite Ea, Ek.
  destruct (leg_index e (tr_oax t)) as [i|]; [|reflexivity]. cbn [obind]. unfold pick. apply nth_error_map.
Qed.

Section RootPermute.
  Variable n : net.

  Lemma leaf_check_perm tid o a k : check_tree n (TLeaf tid o a k) = true ->
    is_perm o /\ k = inv_perm o.
  Proof.
    cbn [check_tree]. rewrite andb_true_iff. intros [_ H]. destruct (dget tid (tensors n)) as [x|]; [|discriminate].
    rewrite !andb_true_iff in H. destruct H as [[[[H1 H2] H3] H4] H5].
    apply Nat.eqb_eq in H2. apply (list_eqb_eq _ (fun a b => proj1 (Nat.eqb_eq a b))) in H4.
    split; [|exact H4]. apply surj_is_perm. intros ax Hax. rewrite forallb_forall in H5.
    assert (Hin : In ax (seq 0 (length (t_bids x)))) by (apply in_seq; lia).
    specialize (H5 ax Hin). apply Nat.eqb_eq in H5.
    destruct (Nat.lt_ge_cases (nth ax k O) (length o)) as [Hj|Hj].
    - rewrite <- H5. apply nth_In. exact Hj.
    - rewrite nth_overflow in H5 by exact Hj. lia.
  Qed.

  Lemma summed_of_pick xl xr o p : is_perm p -> length p = length o ->
    summed_of xl xr (pick O o p) = summed_of xl xr o.
  Proof.
    intros P Lp. unfold summed_of. apply filter_ext. intros l. rewrite (pick_nmem o p P Lp). reflexivity.
  Qed.

  Lemma idx_n_pick o p l : is_perm p -> length p = length o -> NoDup o -> In l o ->
    idx_n l (pick O o p) = nth (idx_n l o) (inv_perm p) O.
  Proof.
    intros P Lp ND Hl. unfold idx_n at 1. rewrite (pick_nindex o p P Lp l ND).
    rewrite (proj2 (idx_n_sound l o Hl)). reflexivity.
  Qed.

  Lemma closed_of_permute t p t' : is_perm p -> permute_self t p = Some t' -> closed_of n t' = closed_of n t.
  Proof.
    intros P H. unfold permute_self in H. destruct (Nat.eqb_spec (length p) (length (tr_out t))) as [E|E]; [|discriminate].
    cbn [negb] in H. destruct t; injection H as <-; [reflexivity|]. cbn [closed_of tr_out] in *.
    rewrite (summed_of_pick _ _ _ p P E). reflexivity.
  Qed.

  Lemma check_tree_permute_self t p t' : check_tree n t = true -> covered t (length (tr_out t)) = true ->
    is_perm p -> permute_self t p = Some t' -> check_tree n t' = true.
  Proof.
    intros C Cov P H. pose proof H as H0. unfold permute_self in H.
    destruct (Nat.eqb_spec (length p) (length (tr_out t))) as [Lp|Lp]; [|discriminate]. cbn [negb] in H.
    destruct t as [tid o a k | i l xl r xr o a k]; injection H as <-; cbn [tr_out] in Lp.
    - destruct (leaf_check_perm tid o a k C) as [Po ->].
      cbn [check_tree] in C |- *. rewrite andb_true_iff in C |- *. destruct C as [C0 C]. split; [exact C0|].
      destruct (dget tid (tensors n)) as [x|]; [|discriminate].
      rewrite !andb_true_iff in C |- *. destruct C as [[[[H1 H2] H3] H4] H5]. apply Nat.eqb_eq in H2.
      assert (P' : is_perm (pick O o p)) by (apply is_perm_pick; assumption).
      assert (L' : length (pick O o p) = length (t_bids x)) by (rewrite pick_length; lia).
      repeat split.
      + exact H1.
      + apply Nat.eqb_eq. exact L'.
      + exact H3.
      + rewrite <- (inv_perm_pick o p Po P Lp). apply list_eqb_refl. exact Nat.eqb_refl.
      + rewrite <- (inv_perm_pick o p Po P Lp). apply forallb_forall. intros ax Hax. apply in_seq in Hax. apply Nat.eqb_eq.
        destruct (inv_perm_r (pick O o p) ax P' ltac:(lia)) as [A1 A2].
        rewrite (nth_indep _ _ O) by exact A1. exact A2.
    - cbn [check_tree] in C |- *. rewrite !andb_true_iff in C |- *. destruct C as [[C1 C2] C3]. split; [split; assumption|].
      pose proof (covered_node_NoDup n i l xl r xr o a k C3 Cov) as ND.
      destruct (node_facts n l r xl xr o a k C3) as [[F1 F2] [F3 [F4 [F5 [F6 [F7 [F8 [F9 [F10 [F11 [F12 F13]]]]]]]]]]].
      unfold check_node in C3 |- *. cbv zeta in C3 |- *. rewrite (summed_of_pick xl xr o p P Lp).
      rewrite !andb_true_iff in C3 |- *.
      destruct C3 as [[[[[[[[[[[[A1 A2] A3] A4] A5] A6] A7] A8] A9] A10] A11] A12] A13].
      repeat split; try assumption.
      rewrite F12 at 1. unfold pick at 1. rewrite map_app, !map_map.
      destruct (covered_spec _ _ F3) as [_ TL]. destruct (covered_spec _ _ F4) as [_ TR].
      assert (EL : forall e, In e (filter (fun e : leg => negb (nmem (nth (trackd l e) xl O) (summed_of xl xr o))) (tr_oax l)) ->
                   nth (idx_n (nth (trackd l e) xl O) o) (inv_perm p) O = idx_n (nth (trackd l e) xl O) (pick O o p)).
      { intros e He. apply filter_In in He. destruct He as [He Hk]. apply negb_true_iff, nmem_false in Hk.
        symmetry. apply idx_n_pick; try assumption.
        destruct (in_dec Nat.eq_dec (nth (trackd l e) xl O) o) as [Hi|Hi]; [exact Hi|]. exfalso. apply Hk.
        apply summed_of_spec. split; [left; apply nth_In; apply TL; exact He | exact Hi]. }
      assert (ER : forall e, In e (filter (fun e : leg => negb (nmem (nth (trackd r e) xr O) (summed_of xl xr o))) (tr_oax r)) ->
                   nth (idx_n (nth (trackd r e) xr O) o) (inv_perm p) O = idx_n (nth (trackd r e) xr O) (pick O o p)).
      { intros e He. apply filter_In in He. destruct He as [He Hk]. apply negb_true_iff, nmem_false in Hk.
        symmetry. apply idx_n_pick; try assumption.
        destruct (in_dec Nat.eq_dec (nth (trackd r e) xr O) o) as [Hi|Hi]; [exact Hi|]. exfalso. apply Hk.
        apply summed_of_spec. split; [right; apply nth_In; apply TR; exact He | exact Hi]. }
      rewrite (map_ext_in _ _ _ EL), (map_ext_in _ _ _ ER). apply list_eqb_refl. exact Nat.eqb_refl.
  Qed.

  Theorem check_root_permute t amap p t' : check_root n t amap = true -> is_perm p ->
    permute_self t p = Some t' -> check_root n t' (pick O (inv_perm p) amap) = true.
  Proof.
    intros C P H. destruct (permute_self_shape t p t' H) as [Lp [Ea [El [Eo Ek]]]].
    pose proof (closed_of_permute t p t' P H) as Ec.
    pose proof (inv_perm_is_perm p P) as Pi.
    unfold check_root in C |- *. cbv zeta in C |- *. rewrite Ea, El, Ec, Eo, pick_length.
    rewrite !andb_true_iff in C |- *.
    destruct C as [[[[[[[[[[[[R1 R2] R3] R4] R5] R6] R7] R8] R9] R10] R11] R12] R13].
    set (nd := length (tr_out t)) in *. set (inv := inv_perm p) in *. set (vb := vbids n) in *.
    assert (TrS : forall e, In e (tr_oax t) -> track_of t e = Some (trackd t e) /\ trackd t e < nd).
    { intros e He. unfold covered in R2. apply andb_true_iff in R2. destruct R2 as [_ R2]. rewrite forallb_forall in R2.
      specialize (R2 e He). unfold trackd. destruct (track_of t e) as [k|]; [|discriminate]. split; [reflexivity | apply Nat.ltb_lt; exact R2]. }
    assert (Tr' : forall e, In e (tr_oax t) -> track_of t' e = Some (nth (trackd t e) inv O) /\ trackd t' e = nth (trackd t e) inv O).
    { intros e He. destruct (TrS e He) as [A _]. pose proof (track_of_permute t p t' e H) as E. rewrite A in E. cbn in E.
      split; [exact E|]. unfold trackd at 1. rewrite E. reflexivity. }
    destruct (covered_spec _ _ R2) as [Cov1 Cov2].
    apply Nat.eqb_eq in R10. rewrite forallb_forall in R11, R12, R13.
    assert (Aj : forall j, j < length vb -> nth j amap O < nd).
    { intros j Hj. specialize (R12 j (proj2 (in_seq _ _ _) (conj (Nat.le_0_l j) Hj))). apply existsb_exists in R12.
      destruct R12 as [e [He Eb]]. apply Z.eqb_eq in Eb. specialize (R11 e He).
      destruct (zindex (bondd n e) vb) as [j0|] eqn:Ez; [|discriminate]. apply Nat.eqb_eq in R11.
      apply zindex_sound in Ez. destruct Ez as [Ez _].
      assert (Hj0 : j0 < length vb) by (apply nth_error_Some; congruence).
      specialize (R13 j (proj2 (in_seq _ _ _) (conj (Nat.le_0_l j) Hj))). rewrite forallb_forall in R13.
      specialize (R13 j0 (proj2 (in_seq _ _ _) (conj (Nat.le_0_l j0) Hj0))). apply eqb_prop in R13.
      assert (E : nth j amap O = nth j0 amap O).
      { apply Nat.eqb_eq. rewrite R13. apply Z.eqb_eq. rewrite <- Eb. symmetry. apply nth_error_nth. exact Ez. }
      rewrite E, <- R11. apply Cov2. exact He. }
    repeat split; try assumption.
    - apply (check_tree_permute_self t p t' R1 R2 P H).
    - (* covered *)
      unfold covered. rewrite Ea. apply andb_true_iff. split; apply forallb_forall.
      + intros q Hq. apply in_seq in Hq.
        assert (Hq' : q < length p) by lia.
        destruct (Cov1 (nth q p O)) as [e [He Et]]; [pose proof (is_perm_nth_lt p q P Hq') as X; unfold nd in *; lia|].
        apply existsb_exists. exists e. split; [exact He|]. apply Nat.eqb_eq.
        rewrite (proj2 (Tr' e He)), Et. apply inv_perm_l; assumption.
      + intros e He. rewrite (proj1 (Tr' e He)). apply Nat.ltb_lt.
        apply (inv_perm_r p _ P). rewrite Lp. apply TrS. exact He.
    - unfold legs_ok in R3 |- *. rewrite Ea, El. exact R3.
    - apply Nat.eqb_eq. rewrite pick_length. exact R10.
    - apply forallb_forall. intros e He. specialize (R11 e He).
      destruct (zindex (bondd n e) vb) as [j|] eqn:Ez; [|discriminate]. apply Nat.eqb_eq in R11.
      apply zindex_sound in Ez. destruct Ez as [Ez _].
      assert (Hj : j < length amap) by (rewrite R10; apply nth_error_Some; congruence).
      apply Nat.eqb_eq. rewrite (proj2 (Tr' e He)), R11. symmetry. apply pick_nth. exact Hj.
    - apply forallb_forall. exact R12.
    - apply forallb_forall. intros j Hj. apply forallb_forall. intros j' Hj'.
      pose proof (R13 j Hj) as Q. rewrite forallb_forall in Q. specialize (Q j' Hj'). apply eqb_prop in Q.
      apply in_seq in Hj, Hj'. rewrite !pick_nth by lia. rewrite <- Q.
      assert (B1 : nth j amap O < length inv) by (unfold inv; rewrite inv_perm_length, Lp; apply Aj; lia).
      assert (B2 : nth j' amap O < length inv) by (unfold inv; rewrite inv_perm_length, Lp; apply Aj; lia).
      destruct (Nat.eqb_spec (nth j amap O) (nth j' amap O)) as [E|E].
      + rewrite E, Nat.eqb_refl. reflexivity.
      + destruct (Nat.eqb_spec (nth (nth j amap O) inv O) (nth (nth j' amap O) inv O)) as [E'|E']; [|reflexivity].
        exfalso. apply E. apply (is_perm_nth_inj inv _ _ Pi B1 B2 E').
  Qed.
End RootPermute.

(** what contract_tree returns passes the checker *)
Theorem contract_tree_always_checked {K : Scalar} {L : ScalarLaws K} (n : net) (data : Z -> list nat -> K) s r :
  WF n -> scaffold_ok n s -> contract_tree n data s = Some r -> check_root n (r_tree r) (r_amap r) = true.
Proof.
  intros W Sc H. destruct (contract_tree_inv n data s r H) as [tr [vt [amap [si [Eb [Ev [Eo [Es [Ep [Ee Ea]]]]]]]]]].
  destruct (built_root_checked n W s tr vt amap si Sc Eb Ev Eo Es) as [B [C [P [Lp Hlt]]]].
  rewrite Ea. rewrite <- (inv_perm_invol (map unwrap si) P) at 1.
  apply (check_root_permute n tr amap (inv_perm (map unwrap si)) (r_tree r) C (inv_perm_is_perm _ P) Ep).
Qed.
