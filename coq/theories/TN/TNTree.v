(** Contraction trees: ports of SymbolicTensorNetwork._build_contraction_tree,
    TensorNetwork.contract_tree (axis tracking, root permutation incl. the transposition of the
    stored tensor of a single-leaf root),
    ContractionTreeNode.permute_axes and perform_tree_contraction.  No proofs here. *)
From Qib Require Export TN.TNValue.
Local Open Scope Z_scope.

Inductive scaffold := SLeaf (tid : Z) | SNode (a b : scaffold).

Definition leg := (Z * nat)%type.
Definition legeqb (a b : leg) : bool := Z.eqb (fst a) (fst b) && Nat.eqb (snd a) (snd b).
Definition leg_mem (a : leg) (l : list leg) : bool := existsb (legeqb a) l.
Fixpoint leg_index (a : leg) (l : list leg) : option nat :=
  match l with
  | [] => None
  | b :: r => if legeqb b a then Some O else option_map S (leg_index a r)
  end.
Fixpoint leg_remove1 (a : leg) (l : list leg) : option (list leg) :=
  match l with
  | [] => None
  | b :: r => if legeqb b a then Some r else option_map (cons b) (leg_remove1 a r)
  end.

Inductive tree :=
| TLeaf (tid : Z) (idxout : list nat) (oax : list leg) (trk : list nat)
| TNode (tid : Z) (l : tree) (idxL : list nat) (r : tree) (idxR : list nat)
        (idxout : list nat) (oax : list leg) (trk : list nat).

Definition tr_tid (t : tree) : Z := match t with TLeaf i _ _ _ => i | TNode i _ _ _ _ _ _ _ => i end.
Definition tr_out (t : tree) : list nat := match t with TLeaf _ o _ _ => o | TNode _ _ _ _ _ o _ _ => o end.
Definition tr_oax (t : tree) : list leg := match t with TLeaf _ _ a _ => a | TNode _ _ _ _ _ _ a _ => a end.
Definition tr_trk (t : tree) : list nat := match t with TLeaf _ _ _ k => k | TNode _ _ _ _ _ _ _ k => k end.

(** position of an open leg of a child on that child's tensor *)
Definition track_of (t : tree) (a : leg) : option nat :=
  obind (leg_index a (tr_oax t)) (fun i => nth_error (tr_trk t) i).

(** bmap entry: Some (true, k) = ("L", k), Some (false, k) = ("R", k) *)
Definition bmap_entry (nL nR : tree) (ta : leg) : option (option (bool * nat)) :=
  if leg_mem ta (tr_oax nL) then option_map (fun k => Some (true, k)) (track_of nL ta)
  else if leg_mem ta (tr_oax nR) then option_map (fun k => Some (false, k)) (track_of nR ta)
  else Some None.

Definition is_some {A} (o : option A) : bool := match o with Some _ => true | None => false end.

(** first loop: collect the bonds attached to the subtrees; drop fully contracted legs *)
Definition collect_step (n : net) (nL nR : tree)
           (st : list Z * list (list (option (bool * nat))) * list leg) (od : leg)
  : option (list Z * list (list (option (bool * nat))) * list leg) :=
  let '(bidlist, bmaplist, openaxes) := st in
  match obind (dget (fst od) (tensors n)) (fun t => nth_error (t_bids t) (snd od)) with
  | None => None
  | Some bid =>
      if zmem bid bidlist then Some st
      else match dget bid (bonds n), get_bond_axes n bid with
           | Some b, Some axs =>
               let legs := combine (b_tids b) axs in
               match omap (bmap_entry nL nR) legs with
               | None => None
               | Some bmap =>
                   let oa := if forallb is_some bmap
                             then ofold (fun acc ta => leg_remove1 ta acc) legs openaxes
                             else Some openaxes in
                   option_map (fun oa' => (bidlist ++ [bid], bmaplist ++ [bmap], oa')) oa
               end
           | _, _ => None
           end
  end.

(** second loop, one reference of one bond *)
Definition index_step (fully : bool) (st : list nat * list nat * list nat * option nat)
           (bm : option (bool * nat)) : option (list nat * list nat * list nat * option nat) :=
  let '(idxL, idxR, idxout, j) := st in
  match bm with
  | None => Some st
  | Some (isL, k) =>
      let idx := if isL then idxL else idxR in
      match nth_error idx k with
      | None => None
      | Some cur =>
          let put v := if isL then (set_nth k v idxL, idxR) else (idxL, set_nth k v idxR) in
          match j with
          | Some jj =>
              let out' := if nmem cur idxout && negb (Nat.eqb cur jj)
                          then nremove1 cur idxout else Some idxout in
              option_map (fun o => (put jj, o, j)) out'
          | None =>
              let out' := if fully then nremove1 cur idxout else Some idxout in
              option_map (fun o => ((idxL, idxR), o, Some cur)) out'
          end
      end
  end.

Definition index_bond (st : list nat * list nat * list nat) (bmap : list (option (bool * nat)))
  : option (list nat * list nat * list nat) :=
  let '(idxL, idxR, idxout) := st in
  option_map (fun r => fst r) (ofold (index_step (forallb is_some bmap)) bmap (idxL, idxR, idxout, None)).

Definition legs_disjoint (a b : list leg) : bool := forallb (fun x => negb (leg_mem x b)) a.

Fixpoint build_tree (n : net) (s : scaffold) (next : Z) : option tree :=
  match s with
  | SLeaf tid =>
      if Z.eqb tid VT then None
      else match dget tid (tensors n) with
           | None => None
           | Some t => let r := seq 0 (t_ndim t) in
                       Some (TLeaf tid r (map (fun i => (tid, i)) r) r)
           end
  | SNode a b =>
      match build_tree n a next with
      | None => None
      | Some nL =>
          let next1 := if Z.leb next (tr_tid nL) then tr_tid nL + 1 else next in
          match build_tree n b next1 with
          | None => None
          | Some nR =>
              let next2 := if Z.leb next1 (tr_tid nR) then tr_tid nR + 1 else next1 in
              if negb (legs_disjoint (tr_oax nL) (tr_oax nR)) then None
              else
                let all := tr_oax nL ++ tr_oax nR in
                match ofold (collect_step n nL nR) all ([], [], all) with
                | None => None
                | Some (_, bmaplist, openaxes) =>
                    let dL := length (tr_out nL) in
                    let dR := length (tr_out nR) in
                    let idxL0 := seq 0 dL in
                    let idxR0 := seq dL dR in
                    match ofold index_bond bmaplist (idxL0, idxR0, idxL0 ++ idxR0) with
                    | None => None
                    | Some (idxL, idxR, idxout) =>
                        match omap (fun ta =>
                                 if leg_mem ta (tr_oax nL)
                                 then obind (track_of nL ta) (fun k => obind (nth_error idxL k) (fun l => nindex l idxout))
                                 else if leg_mem ta (tr_oax nR)
                                 then obind (track_of nR ta) (fun k => obind (nth_error idxR k) (fun l => nindex l idxout))
                                 else None) openaxes with
                        | None => None
                        | Some trk => Some (TNode next2 nL idxL nR idxR idxout openaxes trk)
                        end
                    end
                end
          end
      end
  end.

Definition build_contraction_tree (n : net) (s : scaffold) : option tree :=
  build_tree n s (zmax0 (dkeys (tensors n)) + 1).

(* ------------------------------------------------------------------ permute_axes *)
(** np.argsort of a permutation = its inverse *)
Definition inv_perm (p : list nat) : list nat :=
  map (fun i => match nindex i p with Some k => k | None => O end) (seq 0 (length p)).
Definition pick {A} (d : A) (l : list A) (p : list nat) : list A := map (fun i => nth i l d) p.

(** the node's own fields *)
Definition permute_self (t : tree) (p : list nat) : option tree :=
  if negb (Nat.eqb (length p) (length (tr_out t))) then None
  else
    let inv := inv_perm p in
    match t with
    | TLeaf i o a k => Some (TLeaf i (pick O o p) a (pick O inv k))
    | TNode i l xl r xr o a k => Some (TNode i l xl r xr (pick O o p) a (pick O inv k))
    end.

(** permute_axes on the node reached by [path] (true = left child), including the update
    of the parent's index list *)
Fixpoint permute_axes (t : tree) (path : list bool) (p : list nat) : option tree :=
  match path with
  | [] => permute_self t p
  | d :: rest =>
      match t with
      | TLeaf _ _ _ _ => None
      | TNode i l xl r xr o a k =>
          if d then
            match permute_axes l rest p with
            | None => None
            | Some l' => Some (TNode i l' (match rest with [] => pick O xl p | _ => xl end) r xr o a k)
            end
          else
            match permute_axes r rest p with
            | None => None
            | Some r' => Some (TNode i l xl r' (match rest with [] => pick O xr p | _ => xr end) o a k)
            end
      end
  end.

(* ------------------------------------------------------------------ evaluation *)
Section Eval.
  Context {K : Scalar}.

  (** numpy.transpose(T, p):  shape'[j] = shape[p[j]],  T'[x] = T[y] with y[p[j]] = x[j],
      i.e. y = x picked by the inverse permutation *)
  Definition tv_transpose (v : @tval K) (p : list nat) : @tval K :=
    (pick O (fst v) p, fun x => snd v (pick O x (inv_perm p))).

  (** perform_tree_contraction on the tensor dictionary contract_tree hands over: an inner node
      is one binary einsum; a leaf is its entry of the dictionary, which is the stored tensor
      laid out as the leaf's idxout says.  idxout of a leaf is range(ndim) as built, and
      permute_axes only relabels a leaf (idxout = the permutation, trackaxes = its inverse):
      the caller has to transpose the entry accordingly - tests/test_tensor_network.py does it
      by hand, contract_tree does it for a single-leaf root since the repair
      proposed_fixes/C07-single-leaf-root-transpose.diff
          tensor_dict[tree.tid] = np.transpose(tensor_dict[tree.tid], perm).
      (All other leaves keep idxout = range(ndim) inside contract_tree: the stored tensor.) *)
  Fixpoint tree_eval (n : net) (data : Z -> list nat -> K) (t : tree) : option (@tval K) :=
    match t with
    | TLeaf tid o _ _ => option_map (fun x => tv_transpose (t_shape x, data (t_ref x)) o) (dget tid (tensors n))
    | TNode _ l xl r xr o _ _ =>
        match tree_eval n data l, tree_eval n data r with
        | Some vl, Some vr => Some (einsum_sem [(vl, xl); (vr, xr)] o)
        | _, _ => None
        end
    end.

  (** axis tracking of contract_tree: logical open axis -> leg of the root tensor *)
  Definition track_open (n : net) (root : tree) (bid : Z) : option nat :=
    match dget bid (bonds n), get_bond_axes n bid with
    | Some b, Some axs =>
        match ofold (fun (acc : option nat) (ta : leg) =>
                       if Z.eqb (fst ta) VT then Some acc
                       else match track_of root ta with
                            | None => None                           (* RuntimeError: not found *)
                            | Some k => match acc with
                                        | None => Some (Some k)
                                        | Some k0 => if Nat.eqb k0 k then Some acc else None
                                        end
                            end) (combine (b_tids b) axs) None with
        | Some (Some k) => Some k
        | _ => None                                                  (* cannot track open axis *)
        end
    | _, _ => None
    end.

  Fixpoint sort_indices_loop (amap : list nat) (si : list (option nat)) (c : nat) : list (option nat) * nat :=
    match amap with
    | [] => (si, c)
    | ax :: r => match nth ax si None with
                 | None => sort_indices_loop r (set_nth ax (Some c) si) (S c)
                 | Some _ => sort_indices_loop r si c
                 end
    end.

  Record tree_result := mkR { r_val : @tval K; r_amap : list nat; r_tree : tree }.

  Definition contract_tree (n : net) (data : Z -> list nat -> K) (s : scaffold) : option tree_result :=
    match build_contraction_tree n s, dget VT (tensors n) with
    | Some tr, Some vt =>
        match omap (track_open n tr) (t_bids vt) with
        | None => None
        | Some amap =>
            let nd := length (tr_out tr) in
            let '(si, c) := sort_indices_loop amap (repeat None nd) O in
            if negb (Nat.eqb c nd) then None                         (* assert c == tree.ndim *)
            else
              let sort_idx := map (fun o => match o with Some v => v | None => O end) si in
              match permute_self tr (inv_perm sort_idx) with
              | None => None
              | Some tr' =>
                  match tree_eval n data tr' with
                  | None => None
                  | Some v => Some (mkR v (pick O sort_idx amap) tr')
                  end
              end
        end
    | _, _ => None
    end.
End Eval.
