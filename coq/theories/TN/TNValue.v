(** Values of tensor networks: keyed finite sums, numpy.einsum as its defining sum,
    the defining sum of a network, ports of as_einsum / contract_einsum / to_full_tensor
    (tensor_network.py).  No proofs in this file. *)
From Qib Require Export TN.TNModel Base.Sums.
Local Open Scope Z_scope.

(* ------------------------------------------------------------------ keyed sums *)
Section KSum.
  Context {K : Scalar} {A : Type} (aeqb : A -> A -> bool).
  Local Open Scope K_scope.
  Definition upd (e : A -> nat) (k : A) (v : nat) : A -> nat :=
    fun k' => if aeqb k' k then v else e k'.
  (** sum over all assignments of the keys in [kd] (key, dimension), outermost first *)
  Fixpoint ksum (kd : list (A * nat)) (F : (A -> nat) -> K) (e : A -> nat) : K :=
    match kd with
    | [] => F e
    | (k, d) :: r => lsum (map (fun v => ksum r F (upd e k v)) (seq 0 d))
    end.
End KSum.

Section Values.
  Context {K : Scalar}.
  Local Open Scope K_scope.

  Definition lprod (l : list K) : K := fold_right smul 1 l.
  Definition delta (a b : nat) : K := if Nat.eqb a b then 1 else 0.

  (** a dense tensor: shape and entries by multi-index *)
  Definition tval := (list nat * (list nat -> K))%type.

  (* ---------------------------------------------------------------- numpy.einsum *)
  (** operands: (value, labels); dimension of a label = dimension at its first occurrence *)
  Fixpoint label_dim_in (labels : list nat) (shp : list nat) (l : nat) : option nat :=
    match labels, shp with
    | x :: r, d :: s => if Nat.eqb x l then Some d else label_dim_in r s l
    | _, _ => None
    end.
  Fixpoint label_dim (ops : list (tval * list nat)) (l : nat) : nat :=
    match ops with
    | [] => O
    | (v, labs) :: r => match label_dim_in labs (fst v) l with Some d => d | None => label_dim r l end
    end.
  Fixpoint nnodup (l : list nat) : list nat :=
    match l with
    | [] => []
    | x :: r => x :: filter (fun y => negb (Nat.eqb y x)) (nnodup r)
    end.
  Definition env_of (labels : list nat) (y : list nat) : nat -> nat :=
    fun l => match nindex l labels with Some p => nth p y O | None => O end.

  (** numpy.einsum(op_0, labels_0, ..., out) = its defining sum over the labels that do
      not occur in [out] *)
  Definition einsum_sem (ops : list (tval * list nat)) (out : list nat) : tval :=
    let labs := nnodup (concat (map snd ops)) in
    let summed := filter (fun l => negb (nmem l out)) labs in
    (map (label_dim ops) out,
     fun y => ksum Nat.eqb (map (fun l => (l, label_dim ops l)) summed)
                   (fun e => lprod (map (fun op => snd (fst op) (map e (snd op))) ops))
                   (env_of out y)).

  (* ---------------------------------------------------------------- defining sum *)
  Definition is_real (kt : Z * tensor) : bool := negb (Z.eqb (fst kt) VT).
  Definition real_tensors (n : net) : list tensor := map snd (filter is_real (tensors n)).

  (** dimension of a bond: the first leg found that carries it *)
  Fixpoint leg_dim (bid : Z) (bids : list Z) (shp : list nat) : option nat :=
    match bids, shp with
    | b :: r, d :: s => if Z.eqb b bid then Some d else leg_dim bid r s
    | _, _ => None
    end.
  Fixpoint bond_dim_in (T : list (Z * tensor)) (bid : Z) : nat :=
    match T with
    | [] => O
    | (_, t) :: r => match leg_dim bid (t_bids t) (t_shape t) with Some d => d | None => bond_dim_in r bid end
    end.
  Definition bond_dim (n : net) (bid : Z) : nat := bond_dim_in (tensors n) bid.
  Definition bond_kd (n : net) : list (Z * nat) := map (fun kb => (fst kb, bond_dim n (fst kb))) (bonds n).

  Fixpoint deltas (x : list nat) (vb : list Z) (s : Z -> nat) : K :=
    match x, vb with
    | xk :: xr, b :: br => delta xk (s b) * deltas xr br s
    | _, _ => 1
    end.

  (** T[x] = sum over all bond indices of the product of the tensor entries; the open axis
      k reads the index of its bond *)
  Definition defining_sum (n : net) (data : Z -> list nat -> K) (x : list nat) : K :=
    ksum Z.eqb (bond_kd n)
         (fun s => lprod (map (fun t => data (t_ref t) (map s (t_bids t))) (real_tensors n))
                   * deltas x (vbids n) s)
         (fun _ => O).

  (* ---------------------------------------------------------------- as_einsum *)
  (** sorted(keys, key = max+1 for -1): stable insertion sort by key *)
  Fixpoint kinsert (key : Z -> Z) (x : Z) (l : list Z) : list Z :=
    match l with
    | [] => [x]
    | y :: r => if Z.ltb (key x) (key y) then x :: l else y :: kinsert key x r
    end.
  Definition ksort (key : Z -> Z) (l : list Z) : list Z := fold_left (fun acc x => kinsert key x acc) l [].

  Fixpoint ranges (off : nat) (nd : list nat) : list (list nat) :=
    match nd with
    | [] => []
    | d :: r => seq off d :: ranges (off + d) r
    end.

  Definition get2 (tidx : list (list nat)) (i ax : nat) : nat := nth ax (nth i tidx []) O.
  Definition set2 (tidx : list (list nat)) (i ax v : nat) : list (list nat) :=
    set_nth i (set_nth ax v (nth i tidx [])) tidx.

  (** one bond of the unification loop *)
  Definition unify_step (n : net) (tids : list Z) (tidx : list (list nat)) (kb : Z * bond)
    : option (list (list nat)) :=
    let b := snd kb in
    match omap (fun tid => zindex tid tids) (b_tids b), get_bond_axes n (b_id b) with
    | Some it, Some axs =>
        let legs := combine it axs in
        let vals := map (fun p => get2 tidx (fst p) (snd p)) legs in
        let imin := match vals with [] => O | v :: r => fold_left Nat.min r v end in
        Some (fold_left (fun acc p => set2 acc (fst p) (snd p) imin) legs tidx)
    | _, _ => None
    end.

  (** condensation: idxmap[label] = next free number at first use *)
  Fixpoint condense_row (row : list nat) (st : list (nat * nat) * nat) : list nat * (list (nat * nat) * nat) :=
    match row with
    | [] => ([], st)
    | x :: r =>
        let '(m, c) := st in
        let '(v, st') := match find (fun p => Nat.eqb (fst p) x) m with
                         | Some p => (snd p, st)
                         | None => (c, ((x, c) :: m, S c))
                         end in
        let '(r', st'') := condense_row r st' in
        (v :: r', st'')
    end.
  Fixpoint condense (rows : list (list nat)) (st : list (nat * nat) * nat) : list (list nat) :=
    match rows with
    | [] => []
    | row :: r => let '(row', st') := condense_row row st in row' :: condense r st'
    end.

  Fixpoint first_occ (l seen : list nat) : list nat :=
    match l with
    | [] => []
    | x :: r => if nmem x seen then first_occ r seen else x :: first_occ r (seen ++ [x])
    end.

  Record einsum_args := mkE { e_tids : list Z; e_tidx : list (list nat); e_out : list nat; e_amap : list nat }.

  Definition as_einsum (n : net) : option einsum_args :=
    let keys := dkeys (tensors n) in
    let mx := zmax0 keys in
    let tids := ksort (fun t => if Z.eqb t VT then (mx + 1)%Z else t) keys in
    match Z.eqb (last tids 0%Z) VT with
    | true =>
        match omap (fun tid => option_map t_ndim (dget tid (tensors n))) tids with
        | None => None
        | Some nds =>
            match ofold (unify_step n tids) (bonds n) (ranges O nds) with
            | None => None
            | Some tidx1 =>
                let tidx2 := condense tidx1 ([], O) in
                let out_logical := last tidx2 [] in
                let out := first_occ out_logical [] in
                match omap (fun i => nindex i out) out_logical with
                | None => None
                | Some amap => Some (mkE (removelast tids) (removelast tidx2) out amap)
                end
            end
        end
    | false => None
    end.

  (* ---------------------------------------------------------------- contract_einsum *)
  Definition ones (d : nat) : tval := ([d], fun _ => 1).

  Definition contract_with (E : einsum_args) (n : net) (data : Z -> list nat -> K) : option (tval * list nat) :=
    match shape n with
    | Some shp =>
        match omap (fun tid => dget tid (tensors n)) (e_tids E) with
        | None => None
        | Some ts =>
            let args := combine (map (fun t => (t_shape t, data (t_ref t))) ts) (e_tidx E) in
            (** ones-vectors for output labels that touch no tensor (repaired lookup:
                the logical axis whose position in the output is that of the label) *)
            match omap (fun j => if existsb (nmem j) (e_tidx E) then Some []
                                 else match nindex j (e_out E) with
                                      | None => None
                                      | Some p => match nindex p (e_amap E) with
                                                  | None => None
                                                  | Some k => Some [(ones (nth k shp O), [j])]
                                                  end
                                      end) (e_out E) with
            | None => None
            | Some extra =>
                match args ++ concat extra with
                | [] => None          (* numpy.einsum without operands raises ValueError *)
                | ops => Some (einsum_sem ops (e_out E), e_amap E)
                end
            end
        end
    | None => None
    end.

  Definition contract_einsum (n : net) (data : Z -> list nat -> K) : option (tval * list nat) :=
    match as_einsum n with
    | Some E => contract_with E n data
    | None => None
    end.

  (* ---------------------------------------------------------------- as_einsum, functional form *)
  (** what as_einsum computes on a consistent network: the tensors sorted by id (virtual
      tensor last), every leg labelled by the rank of its bond in the order of first
      occurrence along the flattened leg list (TNEinsum.as_einsum_spec_correct) *)
  Fixpoint zfirst_occ (l seen : list Z) : list Z :=
    match l with
    | [] => []
    | x :: r => if zmem x seen then zfirst_occ r seen else x :: zfirst_occ r (seen ++ [x])
    end.
  Definition sorted_tids (n : net) : list Z :=
    let keys := dkeys (tensors n) in
    ksort (fun t => if Z.eqb t VT then (zmax0 keys + 1)%Z else t) keys.
  Definition bond_order (n : net) : option (list Z) :=
    option_map (fun ts => zfirst_occ (concat (map t_bids ts)) [])
               (omap (fun tid => dget tid (tensors n)) (sorted_tids n)).
  Definition lab_of (bl : list Z) (b : Z) : nat := match zindex b bl with Some i => i | None => O end.
  Definition as_einsum_spec (n : net) : option einsum_args :=
    let tids := sorted_tids n in
    if Z.eqb (last tids 0%Z) VT then
      match omap (fun tid => dget tid (tensors n)) tids, bond_order n with
      | Some ts, Some bl =>
          let tidx := map (fun t => map (lab_of bl) (t_bids t)) ts in
          let out_logical := last tidx [] in
          let out := first_occ out_logical [] in
          match omap (fun i => nindex i out) out_logical with
          | None => None
          | Some amap => Some (mkE (removelast tids) (removelast tidx) out amap)
          end
      | _, _ => None
      end
    else None.

  (* ---------------------------------------------------------------- to_full_tensor *)
  Fixpoint find_pos (ax : nat) (amap : list nat) (j : nat) : option nat :=
    match amap with
    | [] => None
    | a :: r => if Nat.eqb a ax then Some j else find_pos ax r (S j)
    end.
  (** idx[ax] = i[j] for the first j with axes_map[j] = ax; -1 (= last entry) when none *)
  Definition full_idx (shp amap x : list nat) : list nat :=
    map (fun ax => match find_pos ax amap O with
                   | Some j => nth j x O
                   | None => (nth ax shp O - 1)%nat
                   end) (seq 0 (length shp)).
  Definition full_valid (amap x : list nat) : bool :=
    forallb (fun j => match find_pos (nth j amap O) amap O with
                      | Some j' => Nat.eqb (nth j x O) (nth j' x O)
                      | None => true
                      end) (seq 0 (length amap)).
  Definition to_full_tensor (tv : tval) (amap : list nat) : tval :=
    (map (fun i => nth i (fst tv) O) amap,
     fun x => if full_valid amap x then snd tv (full_idx (fst tv) amap x) else 0).
End Values.
