(** The loops of SymbolicTensorNetwork as gen/tnloops.py reads them off the source, statement by statement
    (`lit_*`: the text the translator produces for /repo's symbolic_network.py, kept here as a static copy), and the
    proof that these literal programs ARE the hand model:

        lit_rename_tensor_priv = TNModel.rename_tensor_priv      lit_rename_bond  = TNModel.rename_bond
        lit_merge_tensors      = TNModel.merge_tensors           lit_merge_bonds  = TNModel.merge_bonds
        lit_merge_changes      = TNModel.merge_changes

    for ALL arguments (no well-formedness hypothesis).  coq/props/C08.v closes the tie on every run:
    Run.GenTNLoops.gen_* (regenerated from the source) = lit_* by [reflexivity], hence = the model. *)
From Qib Require Export TN.TNLoopsBase.
Local Open Scope Z_scope.

Definition lit_rename_tensor_priv (self : net) (v_tid_cur : Z) (v_tid_new : Z) : option net :=
let sT := tensors self in let sB := bonds self in
(* if tid_cur not in self.tensors: *)
if (negb (dhas v_tid_cur sT)) then None else
(* if tid_new in self.tensors: *)
if (dhas v_tid_new sT) then None else
(* tensor = self.tensors.pop(tid_cur) *)
match dget v_tid_cur sT with None => None | Some v_tensor =>
let sT := dpop v_tid_cur sT in
(* assert tensor.tid == tid_cur *)
if negb (Z.eqb (t_id v_tensor) v_tid_cur) then None else
(* for bid in tensor.bids: *)
match ofold (fun sB v_bid =>
(* bond = self.bonds[bid] *)
match dget v_bid sB with None => None | Some v_bond =>
(* for i in range(len(bond.tids)): *)
match ofold (fun v_bond v_i =>
(* if bond.tids[i] == tid_cur: *)
match (if (Z.eqb (nth v_i (b_tids v_bond) 0%Z) v_tid_cur) then
(* bond.tids[i] = tid_new *)
let v_bond := set_btids v_bond (set_nth v_i v_tid_new (b_tids v_bond)) in
Some v_bond
 else Some v_bond) with None => None | Some v_bond =>
Some v_bond end) (seq 0 (length (b_tids v_bond))) v_bond with None => None | Some v_bond =>
(* bond.tids.sort() *)
let v_bond := set_btids v_bond (zsort (b_tids v_bond)) in
let sB := dset v_bid v_bond sB in
Some sB end end) (t_bids v_tensor) sB with None => None | Some sB =>
(* tensor.tid = tid_new *)
let v_tensor := set_tid v_tensor v_tid_new in
(* self.tensors[tid_new] = tensor *)
let sT := dset v_tid_new v_tensor sT in
Some (mkN sT sB) end end.

Definition lit_rename_bond (self : net) (v_bid_cur : Z) (v_bid_new : Z) : option net :=
let sT := tensors self in let sB := bonds self in
(* if bid_cur not in self.bonds: *)
if (negb (dhas v_bid_cur sB)) then None else
(* if bid_new in self.bonds: *)
if (dhas v_bid_new sB) then None else
(* bond = self.bonds.pop(bid_cur) *)
match dget v_bid_cur sB with None => None | Some v_bond =>
let sB := dpop v_bid_cur sB in
(* assert bond.bid == bid_cur *)
if negb (Z.eqb (b_id v_bond) v_bid_cur) then None else
(* bond.bid = bid_new *)
let v_bond := set_bid v_bond v_bid_new in
(* self.bonds[bid_new] = bond *)
let sB := dset v_bid_new v_bond sB in
(* for tid in bond.tids: *)
match ofold (fun sT v_tid =>
(* tensor = self.tensors[tid] *)
match dget v_tid sT with None => None | Some v_tensor =>
(* for ax in range(len(tensor.bids)): *)
match ofold (fun v_tensor v_ax =>
(* if tensor.bids[ax] == bid_cur: *)
match (if (Z.eqb (nth v_ax (t_bids v_tensor) 0%Z) v_bid_cur) then
(* tensor.bids[ax] = bid_new *)
let v_tensor := set_bids v_tensor (set_nth v_ax v_bid_new (t_bids v_tensor)) in
Some v_tensor
 else Some v_tensor) with None => None | Some v_tensor =>
Some v_tensor end) (seq 0 (length (t_bids v_tensor))) v_tensor with None => None | Some v_tensor =>
let sT := dset v_tid v_tensor sT in
Some sT end end) (b_tids v_bond) sT with None => None | Some sT =>
Some (mkN sT sB) end end.

Definition lit_merge_tensors (self : net) (v_tid1 : Z) (v_tid2 : Z) : option net :=
let sT := tensors self in let sB := bonds self in
(* if tid1 == tid2: *)
if (Z.eqb v_tid1 v_tid2) then Some (mkN sT sB) else
(* tensor1 = self.tensors[tid1] *)
match dget v_tid1 sT with None => None | Some v_tensor1 =>
(* tensor2 = self.tensors.pop(tid2) *)
match dget v_tid2 sT with None => None | Some v_tensor2 =>
let sT := dpop v_tid2 sT in
(* for bid in tensor2.bids: *)
match ofold (fun sB v_bid =>
(* bond = self.bonds[bid] *)
match dget v_bid sB with None => None | Some v_bond =>
(* for i in range(len(bond.tids)): *)
match ofold (fun v_bond v_i =>
(* if bond.tids[i] == tid2: *)
match (if (Z.eqb (nth v_i (b_tids v_bond) 0%Z) v_tid2) then
(* bond.tids[i] = tid1 *)
let v_bond := set_btids v_bond (set_nth v_i v_tid1 (b_tids v_bond)) in
Some v_bond
 else Some v_bond) with None => None | Some v_bond =>
Some v_bond end) (seq 0 (length (b_tids v_bond))) v_bond with None => None | Some v_bond =>
(* bond.tids.sort() *)
let v_bond := set_btids v_bond (zsort (b_tids v_bond)) in
let sB := dset v_bid v_bond sB in
Some sB end end) (t_bids v_tensor2) sB with None => None | Some sB =>
(* tensor1.shape += tensor2.shape *)
match dget v_tid1 sT with None => None | Some v_tensor1 =>
let v_tensor1 := set_shape v_tensor1 (t_shape v_tensor1 ++ (t_shape v_tensor2)) in
(* tensor1.bids += tensor2.bids *)
let v_tensor1 := set_bids v_tensor1 (t_bids v_tensor1 ++ (t_bids v_tensor2)) in
let sT := dset v_tid1 v_tensor1 sT in
Some (mkN sT sB) end end end end.

Definition lit_merge_bonds (self : net) (v_bid1 : Z) (v_bid2 : Z) : option net :=
let sT := tensors self in let sB := bonds self in
(* if bid1 == bid2: *)
if (Z.eqb v_bid1 v_bid2) then Some (mkN sT sB) else
(* bond1 = self.bonds[bid1] *)
match dget v_bid1 sB with None => None | Some v_bond1 =>
(* bond2 = self.bonds.pop(bid2) *)
match dget v_bid2 sB with None => None | Some v_bond2 =>
let sB := dpop v_bid2 sB in
(* for tid in bond2.tids: *)
match dget v_bid1 sB with None => None | Some v_bond1 =>
match ofold (fun '((sT, v_bond1) : dict tensor * bond) v_tid =>
(* bond1.tids.append(tid) *)
let v_bond1 := set_btids v_bond1 (b_tids v_bond1 ++ [v_tid]) in
(* tensor = self.tensors[tid] *)
match dget v_tid sT with None => None | Some v_tensor =>
(* for ax in range(len(tensor.bids)): *)
match ofold (fun v_tensor v_ax =>
(* if tensor.bids[ax] == bid2: *)
match (if (Z.eqb (nth v_ax (t_bids v_tensor) 0%Z) v_bid2) then
(* tensor.bids[ax] = bid1 *)
let v_tensor := set_bids v_tensor (set_nth v_ax v_bid1 (t_bids v_tensor)) in
Some v_tensor
 else Some v_tensor) with None => None | Some v_tensor =>
Some v_tensor end) (seq 0 (length (t_bids v_tensor))) v_tensor with None => None | Some v_tensor =>
let sT := dset v_tid v_tensor sT in
Some (sT, v_bond1) end end) (b_tids v_bond2) (sT, v_bond1) with None => None | Some (sT, v_bond1) =>
(* bond1.tids.sort() *)
let v_bond1 := set_btids v_bond1 (zsort (b_tids v_bond1)) in
let sB := dset v_bid1 v_bond1 sB in
Some (mkN sT sB) end end end end.

(* the statements of merge behind `num_open_axes_orig = self.num_open_axes` *)
Definition lit_merge_changes (v_num_open_axes_orig : nat) (self other : net) (v_join_axes : list (nat * nat)) (ordT ordB : list Z) : option net :=
let sT := tensors self in let sB := bonds self in let oT := tensors other in let oB := bonds other in
(* other = copy.deepcopy(other) *)
(* shared_tids = self.tensors.keys() & other.tensors.keys() *)
if negb (is_shared_order ordT (dkeys sT) (dkeys oT)) then None else
(* tmp_open_tid = -1 *)
let v_tmp_open_tid := (-1)%Z in
(* next_tid = max(self.tensors.keys() | other.tensors.keys(), default=0) + 1 *)
let v_next_tid := ((zmaxd 0%Z ((dkeys sT) ++ (dkeys oT))) + 1%Z)%Z in
(* for tid in shared_tids: *)
match ofold (fun '((oT, oB, v_tmp_open_tid, v_next_tid) : dict tensor * dict bond * Z * Z) v_tid =>
(* other._rename_tensor(tid, next_tid) *)
match lit_rename_tensor_priv (mkN oT oB) v_tid v_next_tid with None => None | Some r_1 =>
let oT := tensors r_1 in let oB := bonds r_1 in
(* if tid == -1: *)
match (if (Z.eqb v_tid (-1)%Z) then
(* tmp_open_tid = next_tid *)
let v_tmp_open_tid := v_next_tid in
Some v_tmp_open_tid
 else Some v_tmp_open_tid) with None => None | Some v_tmp_open_tid =>
(* next_tid += 1 *)
let v_next_tid := (v_next_tid + 1%Z)%Z in
Some (oT, oB, v_tmp_open_tid, v_next_tid) end end) ordT (oT, oB, v_tmp_open_tid, v_next_tid) with None => None | Some (oT, oB, v_tmp_open_tid, v_next_tid) =>
(* shared_bids = self.bonds.keys() & other.bonds.keys() *)
if negb (is_shared_order ordB (dkeys sB) (dkeys oB)) then None else
(* next_bid = max(self.bonds.keys() | other.bonds.keys(), default=0) + 1 *)
let v_next_bid := ((zmaxd 0%Z ((dkeys sB) ++ (dkeys oB))) + 1%Z)%Z in
(* for bid in shared_bids: *)
match ofold (fun '((oT, oB, v_next_bid) : dict tensor * dict bond * Z) v_bid =>
(* other.rename_bond(bid, next_bid) *)
match lit_rename_bond (mkN oT oB) v_bid v_next_bid with None => None | Some r_2 =>
let oT := tensors r_2 in let oB := bonds r_2 in
(* next_bid += 1 *)
let v_next_bid := (v_next_bid + 1%Z)%Z in
Some (oT, oB, v_next_bid) end) ordB (oT, oB, v_next_bid) with None => None | Some (oT, oB, v_next_bid) =>
(* self.tensors.update(other.tensors) *)
let sT := dupdate sT oT in
(* self.bonds.update(other.bonds) *)
let sB := dupdate sB oB in
(* self.merge_tensors(-1, tmp_open_tid) *)
match lit_merge_tensors (mkN sT sB) (-1)%Z v_tmp_open_tid with None => None | Some r_3 =>
let sT := tensors r_3 in let sB := bonds r_3 in
(* tensor_open_axes = self.tensors[-1] *)
match dget (-1)%Z sT with None => None | Some v_tensor_open_axes =>
(* axes_map = list(range(tensor_open_axes.ndim)) *)
let v_axes_map := (seq 0 (length (t_shape v_tensor_open_axes))) in
(* for joinax in join_axes: *)
match ofold (fun '((sT, sB, v_axes_map) : dict tensor * dict bond * list nat) v_joinax =>
(* self.merge_bonds(tensor_open_axes.bids[joinax[0]], tensor_open_axes.bids[num_open_axes_orig + joinax[1]]) *)
match dget (-1)%Z sT with None => None | Some v_tensor_open_axes =>
match nth_error (t_bids v_tensor_open_axes) (fst v_joinax) with None => None | Some x_4 =>
match nth_error (t_bids v_tensor_open_axes) (v_num_open_axes_orig + (snd v_joinax))%nat with None => None | Some x_5 =>
match lit_merge_bonds (mkN sT sB) x_4 x_5 with None => None | Some r_6 =>
let sT := tensors r_6 in let sB := bonds r_6 in
(* if joinax[0] in axes_map: *)
match (if (nmem (fst v_joinax) v_axes_map) then
(* axes_map.remove(joinax[0]) *)
match nremove1 (fst v_joinax) v_axes_map with None => None | Some v_axes_map =>
Some v_axes_map end
 else Some v_axes_map) with None => None | Some v_axes_map =>
(* if num_open_axes_orig + joinax[1] in axes_map: *)
match (if (nmem (v_num_open_axes_orig + (snd v_joinax))%nat v_axes_map) then
(* axes_map.remove(num_open_axes_orig + joinax[1]) *)
match nremove1 (v_num_open_axes_orig + (snd v_joinax))%nat v_axes_map with None => None | Some v_axes_map =>
Some v_axes_map end
 else Some v_axes_map) with None => None | Some v_axes_map =>
Some (sT, sB, v_axes_map) end end end end end end) v_join_axes (sT, sB, v_axes_map) with None => None | Some (sT, sB, v_axes_map) =>
(* del_axes = [i for i in range(tensor_open_axes.ndim) if i not in axes_map] *)
match dget (-1)%Z sT with None => None | Some v_tensor_open_axes =>
let v_del_axes := (filter (fun i => (negb (nmem i v_axes_map))) (seq 0 (length (t_shape v_tensor_open_axes)))) in
(* for delax in del_axes: *)
match ofold (fun sB v_delax =>
(* bid = tensor_open_axes.bids[delax] *)
match nth_error (t_bids v_tensor_open_axes) v_delax with None => None | Some x_7 =>
let v_bid := x_7 in
(* bond = self.bonds[bid] *)
match dget v_bid sB with None => None | Some v_bond =>
(* if -1 in bond.tids: *)
match (if (zmem (-1)%Z (b_tids v_bond)) then
(* bond.tids.remove(-1) *)
match zremove1 (-1)%Z (b_tids v_bond) with None => None | Some l_8 =>
let v_bond := set_btids v_bond l_8 in
Some v_bond end
 else Some v_bond) with None => None | Some v_bond =>
(* assert len(bond.tids) >= 2 *)
if negb (Nat.leb 2%nat (length (b_tids v_bond))) then None else
let sB := dset v_bid v_bond sB in
Some sB end end end) v_del_axes sB with None => None | Some sB =>
(* tensor_open_axes.shape = tuple((tensor_open_axes.shape[i] for i in axes_map)) *)
let v_tensor_open_axes := set_shape v_tensor_open_axes (map (fun i => (nth i (t_shape v_tensor_open_axes) 0%nat)) v_axes_map) in
(* tensor_open_axes.bids = [tensor_open_axes.bids[i] for i in axes_map] *)
let v_tensor_open_axes := set_bids v_tensor_open_axes (map (fun i => (nth i (t_bids v_tensor_open_axes) 0%Z)) v_axes_map) in
let sT := dset (-1)%Z v_tensor_open_axes sT in
Some (mkN sT sB) end end end end end end end.


(* ------------------------------------------------------------------ the loop bodies *)
Lemma bond_body_is_retid a c (sB : dict bond) (bid : Z) :
  match dget bid sB with None => None | Some v_bond =>
    match ofold (fun v_bond v_i =>
           match (if Z.eqb (nth v_i (b_tids v_bond) 0) a
                  then let v_bond := set_btids v_bond (set_nth v_i c (b_tids v_bond)) in Some v_bond
                  else Some v_bond) with None => None | Some v_bond => Some v_bond end)
          (seq 0 (length (b_tids v_bond))) v_bond with None => None | Some v_bond =>
      let v_bond := set_btids v_bond (zsort (b_tids v_bond)) in
      let sB := dset bid v_bond sB in Some sB end end
  = retid_step a c sB bid.
Proof.
  unfold retid_step. destruct (dget bid sB) as [[id l]|]; [|reflexivity].
  rewrite replace_loop_bond. cbn [b_tids set_btids b_id]. rewrite rstep_fold. reflexivity.
Qed.

Lemma tensor_body_is_rebid a c (sT : dict tensor) (tid : Z) :
  match dget tid sT with None => None | Some v_tensor =>
    match ofold (fun v_tensor v_ax =>
           match (if Z.eqb (nth v_ax (t_bids v_tensor) 0) a
                  then let v_tensor := set_bids v_tensor (set_nth v_ax c (t_bids v_tensor)) in Some v_tensor
                  else Some v_tensor) with None => None | Some v_tensor => Some v_tensor end)
          (seq 0 (length (t_bids v_tensor))) v_tensor with None => None | Some v_tensor =>
      let sT := dset tid v_tensor sT in Some sT end end
  = rebid_step a c sT tid.
Proof.
  unfold rebid_step. destruct (dget tid sT) as [[id sh l rf]|]; [|reflexivity].
  rewrite replace_loop_tensor. cbn [t_bids set_bids t_id t_shape t_ref]. rewrite rstep_fold. reflexivity.
Qed.

(* ------------------------------------------------------------------ _rename_tensor *)
Theorem lit_rename_tensor_priv_is_model n a c : lit_rename_tensor_priv n a c = rename_tensor_priv n a c.
Proof.
  unfold lit_rename_tensor_priv, rename_tensor_priv. destruct n as [T B]. cbn [tensors bonds]. cbv zeta.
  unfold dhas at 1. destruct (dget a T) as [t|] eqn:Ea; [|reflexivity]. cbn [negb].
  destruct (dhas c T) eqn:Hc; [reflexivity|].
  destruct (negb (Z.eqb (t_id t) a)); [reflexivity|].
  rewrite (ofold_ext _ (retid_step a c) _ (bond_body_is_retid a c)).
  destruct (ofold (retid_step a c) (t_bids t) B) as [B'|]; [|reflexivity].
  rewrite dset_dpop_new by exact Hc. reflexivity.
Qed.

(* ------------------------------------------------------------------ rename_bond *)
Theorem lit_rename_bond_is_model n a c : lit_rename_bond n a c = rename_bond n a c.
Proof.
  unfold lit_rename_bond, rename_bond. destruct n as [T B]. cbn [tensors bonds]. cbv zeta.
  unfold dhas at 1. destruct (dget a B) as [b|] eqn:Ea; [|reflexivity]. cbn [negb].
  destruct (dhas c B) eqn:Hc; [reflexivity|].
  destruct (negb (Z.eqb (b_id b) a)); [reflexivity|].
  rewrite (ofold_ext _ (rebid_step a c) _ (tensor_body_is_rebid a c)).
  cbn [set_bid b_tids].
  destruct (ofold (rebid_step a c) (b_tids b) T) as [T'|]; [|reflexivity].
  rewrite dset_dpop_new by exact Hc. reflexivity.
Qed.

(* ------------------------------------------------------------------ merge_tensors *)
Theorem lit_merge_tensors_is_model n t1 t2 : lit_merge_tensors n t1 t2 = merge_tensors n t1 t2.
Proof.
  unfold lit_merge_tensors, merge_tensors. destruct n as [T B]. cbn [tensors bonds]. cbv zeta.
  destruct (Z.eqb_spec t1 t2) as [|N]; [reflexivity|].
  destruct (dget t1 T) as [x1|] eqn:E1; [|reflexivity].
  destruct (dget t2 T) as [x2|] eqn:E2; [|reflexivity].
  rewrite (ofold_ext _ (retid_step t2 t1) _ (bond_body_is_retid t2 t1)).
  destruct (ofold (retid_step t2 t1) (t_bids x2) B) as [B'|]; [|reflexivity].
  rewrite dget_dpop_neq by exact N. rewrite E1. reflexivity.
Qed.

(* ------------------------------------------------------------------ merge_bonds *)
Lemma merge_bonds_loop a c : forall l (T : dict tensor) (b : bond),
  ofold (fun '(sT, v_bond1) v_tid =>
           let v_bond1 := set_btids v_bond1 (b_tids v_bond1 ++ [v_tid]) in
           match dget v_tid sT with None => None | Some v_tensor =>
           match ofold (fun v_tensor v_ax =>
                  match (if Z.eqb (nth v_ax (t_bids v_tensor) 0) a
                         then let v_tensor := set_bids v_tensor (set_nth v_ax c (t_bids v_tensor)) in Some v_tensor
                         else Some v_tensor) with None => None | Some v_tensor => Some v_tensor end)
                 (seq 0 (length (t_bids v_tensor))) v_tensor with None => None | Some v_tensor =>
           let sT := dset v_tid v_tensor sT in Some (sT, v_bond1) end end) l (T, b)
  = match ofold (rebid_step a c) l T with None => None | Some T' => Some (T', set_btids b (b_tids b ++ l)) end.
Proof.
  induction l as [|x l IH]; intros T [id tl].
  - cbn. rewrite app_nil_r. reflexivity.
  - cbn [ofold]. cbv zeta. unfold rebid_step at 1. destruct (dget x T) as [[i sh bl rf]|]; [|reflexivity].
    rewrite replace_loop_tensor. cbn [t_bids set_bids t_id t_shape t_ref]. rewrite rstep_fold.
    cbn [set_btids b_id b_tids]. rewrite IH. cbn [set_btids b_id b_tids].
    destruct (ofold (rebid_step a c) l _); [|reflexivity]. rewrite <- app_assoc. reflexivity.
Qed.

Theorem lit_merge_bonds_is_model n b1 b2 : lit_merge_bonds n b1 b2 = merge_bonds n b1 b2.
Proof.
  unfold lit_merge_bonds, merge_bonds. destruct n as [T B]. cbn [tensors bonds]. cbv zeta.
  destruct (Z.eqb_spec b1 b2) as [|N]; [reflexivity|].
  destruct (dget b1 B) as [x1|] eqn:E1; [|reflexivity].
  destruct (dget b2 B) as [x2|] eqn:E2; [|reflexivity].
  rewrite dget_dpop_neq by exact N. rewrite E1.
  rewrite (merge_bonds_loop b2 b1).
  destruct (ofold (rebid_step b2 b1) (b_tids x2) T) as [T'|]; [|reflexivity].
  reflexivity.
Qed.

(* ------------------------------------------------------------------ merge: the relabelling loops *)
Lemma relabel_tensors_loop : forall ord oT oB tmp next,
  ofold (fun '(oT, oB, v_tmp_open_tid, v_next_tid) v_tid =>
     match lit_rename_tensor_priv (mkN oT oB) v_tid v_next_tid with None => None | Some r_1 =>
     let oT := tensors r_1 in let oB := bonds r_1 in
     match (if (Z.eqb v_tid (-1)%Z) then
              let v_tmp_open_tid := v_next_tid in Some v_tmp_open_tid
            else Some v_tmp_open_tid) with None => None | Some v_tmp_open_tid =>
     let v_next_tid := (v_next_tid + 1%Z)%Z in
     Some (oT, oB, v_tmp_open_tid, v_next_tid) end end) ord (oT, oB, tmp, next)
  = match relabel_tensors (mkN oT oB) ord next tmp with
    | None => None
    | Some (o', tmp') => Some (tensors o', bonds o', tmp', next + Z.of_nat (length ord))
    end.
Proof.
  induction ord as [|x ord IH]; intros oT oB tmp next.
  - cbn. rewrite Z.add_0_r. reflexivity.
  - cbn [ofold relabel_tensors]. rewrite lit_rename_tensor_priv_is_model.
    destruct (rename_tensor_priv (mkN oT oB) x next) as [[T' B']|]; [|reflexivity].
    cbn [tensors bonds]. cbv zeta. change VT with (-1).
    destruct (Z.eqb x (-1)); rewrite IH; destruct (relabel_tensors _ _ _ _) as [[o' tmp']|]; try reflexivity;
      (replace (next + 1 + Z.of_nat (length ord)) with (next + Z.of_nat (length (x :: ord))) by (cbn [length]; lia)); reflexivity.
Qed.

Lemma relabel_bonds_loop : forall ord oT oB next,
  ofold (fun '(oT, oB, v_next_bid) v_bid =>
     match lit_rename_bond (mkN oT oB) v_bid v_next_bid with None => None | Some r_2 =>
     let oT := tensors r_2 in let oB := bonds r_2 in
     let v_next_bid := (v_next_bid + 1%Z)%Z in
     Some (oT, oB, v_next_bid) end) ord (oT, oB, next)
  = match relabel_bonds (mkN oT oB) ord next with
    | None => None
    | Some o' => Some (tensors o', bonds o', next + Z.of_nat (length ord))
    end.
Proof.
  induction ord as [|x ord IH]; intros oT oB next.
  - cbn. rewrite Z.add_0_r. reflexivity.
  - cbn [ofold relabel_bonds]. rewrite lit_rename_bond_is_model.
    destruct (rename_bond (mkN oT oB) x next) as [[T' B']|]; [|reflexivity].
    cbn [tensors bonds]. cbv zeta. rewrite IH. destruct (relabel_bonds _ _ _) as [o'|]; [|reflexivity].
    replace (next + 1 + Z.of_nat (length ord)) with (next + Z.of_nat (length (x :: ord))) by (cbn [length]; lia). reflexivity.
Qed.

(** the relabelling of tensors keeps the bond keys of the copy (the second set intersection reads them) *)
Lemma rename_tensor_priv_bkeys o a c o' : rename_tensor_priv o a c = Some o' -> dkeys (bonds o') = dkeys (bonds o).
Proof.
  unfold rename_tensor_priv. destruct (dget a (tensors o)) as [t|]; [|discriminate].
  destruct (dhas c (tensors o)); [discriminate|]. destruct (negb _); [discriminate|].
  destruct (ofold (retid_step a c) (t_bids t) (bonds o)) as [B|] eqn:E; [|discriminate].
  intros H. injection H as <-. cbn [bonds]. eapply retid_fold_keys; eauto.
Qed.
Lemma relabel_tensors_bkeys : forall ord o next tmp o' tmp',
  relabel_tensors o ord next tmp = Some (o', tmp') -> dkeys (bonds o') = dkeys (bonds o).
Proof.
  induction ord as [|x ord IH]; intros o next tmp o' tmp' H; cbn in H.
  - injection H as <- _. reflexivity.
  - destruct (rename_tensor_priv o x next) as [o1|] eqn:E; [|discriminate].
    apply IH in H. rewrite H. eapply rename_tensor_priv_bkeys; eauto.
Qed.

(* ------------------------------------------------------------------ merge: the join loop *)
Lemma rm_lit x l :
  (if nmem x l then match nremove1 x l with None => None | Some a => Some a end else Some l)
  = Some (match nremove1 x l with Some l' => l' | None => l end).
Proof.
  destruct (nmem x l) eqn:E.
  - destruct (nmem_nremove1 x l E) as [l' ->]. reflexivity.
  - rewrite (nmem_false_nremove1 x l E). reflexivity.
Qed.

Lemma join_loop norig : forall joins sT sB amap,
  ofold (fun '(sT, sB, v_axes_map) v_joinax =>
     match dget (-1)%Z sT with None => None | Some v_tensor_open_axes =>
     match nth_error (t_bids v_tensor_open_axes) (fst v_joinax) with None => None | Some x_4 =>
     match nth_error (t_bids v_tensor_open_axes) (norig + (snd v_joinax))%nat with None => None | Some x_5 =>
     match lit_merge_bonds (mkN sT sB) x_4 x_5 with None => None | Some r_6 =>
     let sT := tensors r_6 in let sB := bonds r_6 in
     match (if (nmem (fst v_joinax) v_axes_map) then
              match nremove1 (fst v_joinax) v_axes_map with None => None | Some v_axes_map => Some v_axes_map end
            else Some v_axes_map) with None => None | Some v_axes_map =>
     match (if (nmem (norig + (snd v_joinax))%nat v_axes_map) then
              match nremove1 (norig + (snd v_joinax))%nat v_axes_map with None => None | Some v_axes_map => Some v_axes_map end
            else Some v_axes_map) with None => None | Some v_axes_map =>
     Some (sT, sB, v_axes_map) end end end end end end) joins (sT, sB, amap)
  = match ofold (join_step norig) joins (mkN sT sB, amap) with
    | None => None
    | Some (n', amap') => Some (tensors n', bonds n', amap')
    end.
Proof.
  induction joins as [|j joins IH]; intros sT sB amap; [reflexivity|].
  cbn [ofold]. unfold join_step at 1. unfold vbids. cbn [tensors]. change VT with (-1).
  destruct (dget (-1) sT) as [t|].
  2:{ destruct (fst j); reflexivity. }
  destruct (nth_error (t_bids t) (fst j)) as [b1|]; [|reflexivity].
  destruct (nth_error (t_bids t) (norig + snd j)) as [b2|]; [|reflexivity].
  rewrite lit_merge_bonds_is_model.
  destruct (merge_bonds (mkN sT sB) b1 b2) as [[T' B']|]; [|reflexivity].
  cbn [tensors bonds]. cbv zeta. rewrite rm_lit. rewrite rm_lit. rewrite IH. reflexivity.
Qed.

(** the join loop keeps the shape of every tensor *)
Lemma merge_bonds_shape n b1 b2 n' k : merge_bonds n b1 b2 = Some n' ->
  option_map t_shape (dget k (tensors n')) = option_map t_shape (dget k (tensors n)).
Proof.
  unfold merge_bonds. destruct (Z.eqb b1 b2); [intros H; injection H as <-; reflexivity|].
  destruct (dget b1 (bonds n)); [|discriminate]. destruct (dget b2 (bonds n)) as [x2|]; [|discriminate].
  destruct (ofold (rebid_step b2 b1) (b_tids x2) (tensors n)) as [T|] eqn:E; [|discriminate].
  intros H. injection H as <-. cbn [tensors]. eapply rebid_fold_shape; eauto.
Qed.
Lemma join_fold_shape norig k : forall joins n amap n' amap',
  ofold (join_step norig) joins (n, amap) = Some (n', amap') ->
  option_map t_shape (dget k (tensors n')) = option_map t_shape (dget k (tensors n)).
Proof.
  induction joins as [|j joins IH]; intros n amap n' amap' H; cbn [ofold] in H.
  - injection H as <- _. reflexivity.
  - destruct (join_step norig (n, amap) j) as [[n1 a1]|] eqn:E; [|discriminate].
    apply IH in H. rewrite H. unfold join_step in E.
    destruct (nth_error (vbids n) (fst j)); [|discriminate]. destruct (nth_error (vbids n) (norig + snd j)); [|discriminate].
    destruct (merge_bonds n z z0) as [n2|] eqn:E2; [|discriminate]. injection E as <- _. eapply merge_bonds_shape; eauto.
Qed.

(* ------------------------------------------------------------------ merge: the deletion loop *)
Lemma del_loop (toa : tensor) (T : dict tensor) : dget VT T = Some toa -> forall dels sB,
  ofold (fun sB v_delax =>
     match nth_error (t_bids toa) v_delax with None => None | Some x_7 =>
     let v_bid := x_7 in
     match dget v_bid sB with None => None | Some v_bond =>
     match (if (zmem (-1)%Z (b_tids v_bond)) then
              match zremove1 (-1)%Z (b_tids v_bond) with None => None | Some l_8 =>
              let v_bond := set_btids v_bond l_8 in Some v_bond end
            else Some v_bond) with None => None | Some v_bond =>
     if negb (Nat.leb 2%nat (length (b_tids v_bond))) then None else
     let sB := dset v_bid v_bond sB in
     Some sB end end end) dels sB
  = match ofold del_step dels (mkN T sB) with None => None | Some n' => Some (bonds n') end.
Proof.
  intros HT. induction dels as [|d dels IH]; intros sB; [reflexivity|].
  cbn [ofold]. unfold del_step at 1. unfold vbids. cbn [tensors bonds]. rewrite HT. change VT with (-1).
  destruct (nth_error (t_bids toa) d) as [bid|]; [|reflexivity]. cbv zeta.
  destruct (dget bid sB) as [[id tl]|]; [|reflexivity]. cbn [b_tids set_btids b_id].
  destruct (zmem (-1) tl) eqn:Em.
  - destruct (zmem_zremove1 (-1) tl Em) as [l' ->]. cbv beta iota zeta. cbn [b_tids set_btids b_id].
    rewrite Nat.leb_antisym, negb_involutive. destruct (Nat.ltb (length l') 2); [reflexivity|]. cbn [tensors bonds]. apply IH.
  - rewrite (zmem_false_zremove1 (-1) tl Em). cbv beta iota zeta. cbn [b_tids set_btids b_id].
    rewrite Nat.leb_antisym, negb_involutive. destruct (Nat.ltb (length tl) 2); [reflexivity|]. cbn [tensors bonds]. apply IH.
Qed.

(* ------------------------------------------------------------------ merge: everything behind the validation *)
Theorem lit_merge_changes_is_model norig n o joins ordT ordB :
  lit_merge_changes norig n o joins ordT ordB = merge_changes norig n o joins ordT ordB.
Proof.
  unfold lit_merge_changes, merge_changes. destruct n as [T B], o as [To Bo]. cbn [tensors bonds]. cbv zeta.
  destruct (negb (is_shared_order ordT (dkeys T) (dkeys To))); [reflexivity|].
  change (zmaxd 0) with zmax0. rewrite relabel_tensors_loop. change (-1) with VT.
  destruct (relabel_tensors (mkN To Bo) ordT (zmax0 (dkeys T ++ dkeys To) + 1) VT) as [[o1 tmp]|] eqn:ER.
  2:{ destruct (negb (is_shared_order ordB (dkeys B) (dkeys Bo))); reflexivity. }
  rewrite (relabel_tensors_bkeys _ _ _ _ _ _ ER). cbn [bonds].
  destruct (negb (is_shared_order ordB (dkeys B) (dkeys Bo))); [reflexivity|].
  destruct o1 as [T1 B1]. cbn [tensors bonds]. rewrite relabel_bonds_loop.
  destruct (relabel_bonds (mkN T1 B1) ordB (zmax0 (dkeys B ++ dkeys Bo) + 1)) as [[T2 B2]|]; [|reflexivity].
  cbn [tensors bonds]. rewrite lit_merge_tensors_is_model.
  destruct (merge_tensors (mkN (dupdate T T2) (dupdate B B2)) VT tmp) as [[T3 B3]|]; [|reflexivity].
  cbn [tensors bonds]. unfold num_open_axes. cbn [tensors].
  destruct (dget VT T3) as [toa|] eqn:EV.
  2:{ cbn [option_map]. destruct joins as [|j joins].
      - cbn. rewrite EV. reflexivity.
      - cbn [ofold]. unfold join_step. unfold vbids. cbn [tensors]. rewrite EV. destruct (fst j); reflexivity. }
  cbn [option_map]. unfold t_ndim. rewrite join_loop.
  destruct (ofold (join_step norig) joins (mkN T3 B3, seq 0 (length (t_shape toa)))) as [[[T4 B4] amap]|] eqn:EJ; [|reflexivity].
  cbn [tensors bonds].
  pose proof (join_fold_shape norig VT _ _ _ _ _ EJ) as HS. cbn [tensors] in HS. rewrite EV in HS.
  destruct (dget VT T4) as [toa4|] eqn:EV4; [|discriminate HS]. cbn [option_map] in HS. injection HS as HS. rewrite <- HS.
  rewrite (del_loop toa4 T4 EV4).
  destruct (ofold del_step (filter (fun i : nat => negb (nmem i amap)) (seq 0 (length (t_shape toa4)))) (mkN T4 B4)) as [n4|] eqn:ED; [|reflexivity].
  rewrite (del_fold_tensors _ _ _ ED). cbn [tensors]. rewrite EV4. reflexivity.
Qed.

(* ------------------------------------------------------------------ merge: the whole method *)
Definition lit_merge (self other : net) (v_join_axes : list (nat * nat)) (ordT ordB : list Z) : option net :=
let sT := tensors self in let sB := bonds self in let oT := tensors other in let oB := bonds other in
(* for joinax in join_axes: *)
match ofold (fun (_ : unit) v_joinax =>
(* if joinax[0] < 0 or joinax[0] >= self.num_open_axes: *)
if (Nat.ltb (fst v_joinax) 0%nat) then None else
match num_open_axes (mkN sT sB) with None => None | Some p_1 =>
if (Nat.leb p_1 (fst v_joinax)) then None else
(* if joinax[1] < 0 or joinax[1] >= other.num_open_axes: *)
if (Nat.ltb (snd v_joinax) 0%nat) then None else
match num_open_axes (mkN oT oB) with None => None | Some p_2 =>
if (Nat.leb p_2 (snd v_joinax)) then None else
(* if self.shape[joinax[0]] != other.shape[joinax[1]]: *)
match shape (mkN sT sB) with None => None | Some p_3 =>
match nth_error p_3 (fst v_joinax) with None => None | Some x_4 =>
match shape (mkN oT oB) with None => None | Some p_5 =>
match nth_error p_5 (snd v_joinax) with None => None | Some x_6 =>
if (negb (Nat.eqb x_4 x_6)) then None else
Some tt end end end end end end) v_join_axes tt with None => None | Some _ =>
(* nets = (self, other) ... if num_legs - len(axes) < 2: raise ValueError   [five statements, pinned] *)
if joins_starve (mkN sT sB) (mkN oT oB) v_join_axes then None else
(* num_open_axes_orig = self.num_open_axes *)
match num_open_axes (mkN sT sB) with None => None | Some p_7 =>
let v_num_open_axes_orig := p_7 in
(* other = copy.deepcopy(other) *)
(* shared_tids = self.tensors.keys() & other.tensors.keys() *)
if negb (is_shared_order ordT (dkeys sT) (dkeys oT)) then None else
(* tmp_open_tid = -1 *)
let v_tmp_open_tid := (-1)%Z in
(* next_tid = max(self.tensors.keys() | other.tensors.keys(), default=0) + 1 *)
let v_next_tid := ((zmaxd 0%Z ((dkeys sT) ++ (dkeys oT))) + 1%Z)%Z in
(* for tid in shared_tids: *)
match ofold (fun '((oT, oB, v_tmp_open_tid, v_next_tid) : dict tensor * dict bond * Z * Z) v_tid =>
(* other._rename_tensor(tid, next_tid) *)
match lit_rename_tensor_priv (mkN oT oB) v_tid v_next_tid with None => None | Some r_8 =>
let oT := tensors r_8 in let oB := bonds r_8 in
(* if tid == -1: *)
match (if (Z.eqb v_tid (-1)%Z) then
(* tmp_open_tid = next_tid *)
let v_tmp_open_tid := v_next_tid in
Some v_tmp_open_tid
 else Some v_tmp_open_tid) with None => None | Some v_tmp_open_tid =>
(* next_tid += 1 *)
let v_next_tid := (v_next_tid + 1%Z)%Z in
Some (oT, oB, v_tmp_open_tid, v_next_tid) end end) ordT (oT, oB, v_tmp_open_tid, v_next_tid) with None => None | Some (oT, oB, v_tmp_open_tid, v_next_tid) =>
(* shared_bids = self.bonds.keys() & other.bonds.keys() *)
if negb (is_shared_order ordB (dkeys sB) (dkeys oB)) then None else
(* next_bid = max(self.bonds.keys() | other.bonds.keys(), default=0) + 1 *)
let v_next_bid := ((zmaxd 0%Z ((dkeys sB) ++ (dkeys oB))) + 1%Z)%Z in
(* for bid in shared_bids: *)
match ofold (fun '((oT, oB, v_next_bid) : dict tensor * dict bond * Z) v_bid =>
(* other.rename_bond(bid, next_bid) *)
match lit_rename_bond (mkN oT oB) v_bid v_next_bid with None => None | Some r_9 =>
let oT := tensors r_9 in let oB := bonds r_9 in
(* next_bid += 1 *)
let v_next_bid := (v_next_bid + 1%Z)%Z in
Some (oT, oB, v_next_bid) end) ordB (oT, oB, v_next_bid) with None => None | Some (oT, oB, v_next_bid) =>
(* self.tensors.update(other.tensors) *)
let sT := dupdate sT oT in
(* self.bonds.update(other.bonds) *)
let sB := dupdate sB oB in
(* self.merge_tensors(-1, tmp_open_tid) *)
match lit_merge_tensors (mkN sT sB) (-1)%Z v_tmp_open_tid with None => None | Some r_10 =>
let sT := tensors r_10 in let sB := bonds r_10 in
(* tensor_open_axes = self.tensors[-1] *)
match dget (-1)%Z sT with None => None | Some v_tensor_open_axes =>
(* axes_map = list(range(tensor_open_axes.ndim)) *)
let v_axes_map := (seq 0 (length (t_shape v_tensor_open_axes))) in
(* for joinax in join_axes: *)
match ofold (fun '((sT, sB, v_axes_map) : dict tensor * dict bond * list nat) v_joinax =>
(* self.merge_bonds(tensor_open_axes.bids[joinax[0]], tensor_open_axes.bids[num_open_axes_orig + joinax[1]]) *)
match dget (-1)%Z sT with None => None | Some v_tensor_open_axes =>
match nth_error (t_bids v_tensor_open_axes) (fst v_joinax) with None => None | Some x_11 =>
match nth_error (t_bids v_tensor_open_axes) (v_num_open_axes_orig + (snd v_joinax))%nat with None => None | Some x_12 =>
match lit_merge_bonds (mkN sT sB) x_11 x_12 with None => None | Some r_13 =>
let sT := tensors r_13 in let sB := bonds r_13 in
(* if joinax[0] in axes_map: *)
match (if (nmem (fst v_joinax) v_axes_map) then
(* axes_map.remove(joinax[0]) *)
match nremove1 (fst v_joinax) v_axes_map with None => None | Some v_axes_map =>
Some v_axes_map end
 else Some v_axes_map) with None => None | Some v_axes_map =>
(* if num_open_axes_orig + joinax[1] in axes_map: *)
match (if (nmem (v_num_open_axes_orig + (snd v_joinax))%nat v_axes_map) then
(* axes_map.remove(num_open_axes_orig + joinax[1]) *)
match nremove1 (v_num_open_axes_orig + (snd v_joinax))%nat v_axes_map with None => None | Some v_axes_map =>
Some v_axes_map end
 else Some v_axes_map) with None => None | Some v_axes_map =>
Some (sT, sB, v_axes_map) end end end end end end) v_join_axes (sT, sB, v_axes_map) with None => None | Some (sT, sB, v_axes_map) =>
(* del_axes = [i for i in range(tensor_open_axes.ndim) if i not in axes_map] *)
match dget (-1)%Z sT with None => None | Some v_tensor_open_axes =>
let v_del_axes := (filter (fun i => (negb (nmem i v_axes_map))) (seq 0 (length (t_shape v_tensor_open_axes)))) in
(* for delax in del_axes: *)
match ofold (fun sB v_delax =>
(* bid = tensor_open_axes.bids[delax] *)
match nth_error (t_bids v_tensor_open_axes) v_delax with None => None | Some x_14 =>
let v_bid := x_14 in
(* bond = self.bonds[bid] *)
match dget v_bid sB with None => None | Some v_bond =>
(* if -1 in bond.tids: *)
match (if (zmem (-1)%Z (b_tids v_bond)) then
(* bond.tids.remove(-1) *)
match zremove1 (-1)%Z (b_tids v_bond) with None => None | Some l_15 =>
let v_bond := set_btids v_bond l_15 in
Some v_bond end
 else Some v_bond) with None => None | Some v_bond =>
(* assert len(bond.tids) >= 2 *)
if negb (Nat.leb 2%nat (length (b_tids v_bond))) then None else
let sB := dset v_bid v_bond sB in
Some sB end end end) v_del_axes sB with None => None | Some sB =>
(* tensor_open_axes.shape = tuple((tensor_open_axes.shape[i] for i in axes_map)) *)
let v_tensor_open_axes := set_shape v_tensor_open_axes (map (fun i => (nth i (t_shape v_tensor_open_axes) 0%nat)) v_axes_map) in
(* tensor_open_axes.bids = [tensor_open_axes.bids[i] for i in axes_map] *)
let v_tensor_open_axes := set_bids v_tensor_open_axes (map (fun i => (nth i (t_bids v_tensor_open_axes) 0%Z)) v_axes_map) in
let sT := dset (-1)%Z v_tensor_open_axes sT in
Some (mkN sT sB) end end end end end end end end end.


(** one round of the validation loop, as generated *)
Definition lit_val_body (n o : net) : unit -> nat * nat -> option unit := fun _ v_joinax =>
  if (Nat.ltb (fst v_joinax) 0%nat) then None else
  match num_open_axes n with None => None | Some p_1 =>
  if (Nat.leb p_1 (fst v_joinax)) then None else
  if (Nat.ltb (snd v_joinax) 0%nat) then None else
  match num_open_axes o with None => None | Some p_2 =>
  if (Nat.leb p_2 (snd v_joinax)) then None else
  match shape n with None => None | Some p_3 =>
  match nth_error p_3 (fst v_joinax) with None => None | Some x_4 =>
  match shape o with None => None | Some p_5 =>
  match nth_error p_5 (snd v_joinax) with None => None | Some x_6 =>
  if (negb (Nat.eqb x_4 x_6)) then None else
  Some tt end end end end end end.

Lemma lit_merge_unfold n o joins ordT ordB :
  lit_merge n o joins ordT ordB =
  match ofold (lit_val_body n o) joins tt with None => None | Some _ =>
  if joins_starve n o joins then None else
  match num_open_axes n with None => None | Some p => lit_merge_changes p n o joins ordT ordB end end.
Proof. destruct n, o. reflexivity. Qed.

Lemma validation_loop_some n o tn to : dget VT (tensors n) = Some tn -> dget VT (tensors o) = Some to -> forall joins,
  ofold (lit_val_body n o) joins tt
  = if forallb (fun j => Nat.ltb (fst j) (t_ndim tn) && Nat.ltb (snd j) (t_ndim to)
                         && Nat.eqb (nth (fst j) (vshape n) O) (nth (snd j) (vshape o) O)) joins then Some tt else None.
Proof.
  intros H1 H2. induction joins as [|j joins IH]; [reflexivity|].
  cbn [ofold forallb]. unfold lit_val_body at 1. unfold num_open_axes, shape, vshape. rewrite H1, H2. cbn [option_map].
  change (Nat.ltb (fst j) 0) with false. change (Nat.ltb (snd j) 0) with false. cbv iota.
  rewrite (Nat.leb_antisym (fst j) (t_ndim tn)), (Nat.leb_antisym (snd j) (t_ndim to)).
  destruct (Nat.ltb_spec (fst j) (t_ndim tn)) as [L1|L1]; [|reflexivity].
  destruct (Nat.ltb_spec (snd j) (t_ndim to)) as [L2|L2]; [|reflexivity].
  cbn [negb andb].
  rewrite (nth_error_nth' (t_shape tn) O L1), (nth_error_nth' (t_shape to) O L2).
  destruct (Nat.eqb (nth (fst j) (t_shape tn) O) (nth (snd j) (t_shape to) O)); [|reflexivity].
  cbn [negb]. rewrite IH. unfold vshape. rewrite H1, H2. reflexivity.
Qed.

Theorem lit_merge_is_model n o joins ordT ordB : lit_merge n o joins ordT ordB = merge n o joins ordT ordB.
Proof.
  rewrite lit_merge_unfold. unfold merge.
  destruct joins as [|j0 joins0].
  - cbn [ofold]. destruct (num_open_axes n) as [norig|]; [|destruct (joins_starve n o []); reflexivity].
    cbn [forallb negb]. destruct (joins_starve n o []); [reflexivity|]. apply lit_merge_changes_is_model.
  - set (joins := j0 :: joins0).
    destruct (dget VT (tensors n)) as [tn|] eqn:E1.
    2:{ unfold joins. cbn [ofold]. unfold lit_val_body at 1. unfold num_open_axes. rewrite E1. reflexivity. }
    destruct (dget VT (tensors o)) as [to|] eqn:E2.
    2:{ unfold joins. cbn [ofold]. unfold lit_val_body at 1. unfold num_open_axes. rewrite E1, E2. cbn [option_map].
        destruct (Nat.leb (t_ndim tn) (fst j0)); reflexivity. }
    rewrite (validation_loop_some n o tn to E1 E2).
    unfold num_open_axes. rewrite E1, E2. cbn [option_map]. unfold joins at 3. cbv iota.
    destruct (forallb _ joins); [|reflexivity]. cbn [negb].
    destruct (joins_starve n o joins); [reflexivity|]. apply lit_merge_changes_is_model.
Qed.

(* ------------------------------------------------------------------ rename_tensor (public), transpose *)
Definition lit_rename_tensor (self : net) (v_tid_cur : Z) (v_tid_new : Z) : option net :=
let sT := tensors self in let sB := bonds self in
(* if tid_cur == -1: *)
if (Z.eqb v_tid_cur (-1)%Z) then None else
(* self._rename_tensor(tid_cur, tid_new) *)
match lit_rename_tensor_priv (mkN sT sB) v_tid_cur v_tid_new with None => None | Some r_1 =>
let sT := tensors r_1 in let sB := bonds r_1 in
Some (mkN sT sB) end.

Definition lit_tensor_transpose (v_self : tensor) (v_axes : list Z) : option tensor :=
(* axes = [ax + self.ndim if ax < 0 else ax for ax in axes] *)
let v_axes := (map (fun ax => (if (Z.ltb ax 0%Z) then (ax + (Z.of_nat (length (t_shape v_self))))%Z else ax)) v_axes) in
(* if sorted(axes) != list(range(self.ndim)): *)
if (negb (zlist_eqb (zsort v_axes) (map Z.of_nat (seq 0 (length (t_shape v_self)))))) then None else
(* self.shape = tuple((self.shape[ax] for ax in axes)) *)
let v_self := set_shape v_self (map (fun ax => (nth (Z.to_nat ax) (t_shape v_self) 0%nat)) v_axes) in
(* self.bids = [self.bids[ax] for ax in axes] *)
let v_self := set_bids v_self (map (fun ax => (nth (Z.to_nat ax) (t_bids v_self) 0%Z)) v_axes) in
Some v_self.

Definition lit_transpose (self : net) (v_axes : list Z) : option net :=
let sT := tensors self in let sB := bonds self in
(* if -1 not in self.tensors: *)
if (negb (dhas (-1)%Z sT)) then None else
(* self.tensors[-1].transpose(axes) *)
match dget (-1)%Z sT with None => None | Some t_1 =>
match lit_tensor_transpose t_1 v_axes with None => None | Some t_2 =>
let sT := dset (-1)%Z t_2 sT in
Some (mkN sT sB) end end.


Theorem lit_rename_tensor_is_model n a c : lit_rename_tensor n a c = rename_tensor n a c.
Proof.
  unfold lit_rename_tensor, rename_tensor. destruct n as [T B]. cbn [tensors bonds]. cbv zeta. change (-1) with VT.
  destruct (Z.eqb a VT); [reflexivity|]. rewrite lit_rename_tensor_priv_is_model.
  destruct (rename_tensor_priv (mkN T B) a c) as [[T' B']|]; reflexivity.
Qed.

(** transpose: the model also refuses (IndexError) when the virtual tensor has fewer bond ids than dimensions, which no
    object of the class has (SymbolicTensor.__init__ checks len(shape) == len(bids)); hence the hypothesis *)
Theorem lit_transpose_is_model n axes :
  (forall t, dget VT (tensors n) = Some t -> length (t_bids t) = length (t_shape t)) ->
  lit_transpose n axes = transpose n axes.
Proof.
  intros Hrep. unfold lit_transpose, transpose. destruct n as [T B]. cbn [tensors bonds] in *. cbv zeta. change (-1) with VT.
  unfold dhas. destruct (dget VT T) as [t|] eqn:Et; [|reflexivity]. cbn [negb]. specialize (Hrep t eq_refl).
  unfold lit_tensor_transpose. cbv zeta.
  change (negb (zlist_eqb (zsort (map (fun ax => if Z.ltb ax 0 then ax + Z.of_nat (length (t_shape t)) else ax) axes))
                          (map Z.of_nat (seq 0 (length (t_shape t))))))
    with (axes_refused (t_ndim t) axes).
  destruct (axes_refused (t_ndim t) axes) eqn:Er; [reflexivity|].
  change (map (fun ax => if Z.ltb ax 0 then ax + Z.of_nat (length (t_shape t)) else ax) axes) with (norm_axes (t_ndim t) axes).
  set (axs := norm_axes (t_ndim t) axes) in *.
  assert (F : forallb (fun ax => Nat.ltb ax (length (t_bids t))) (map Z.to_nat axs) = true).
  { unfold axes_refused in Er. apply negb_false_iff in Er. apply zlist_eqb_eq in Er. fold axs in Er.
    apply forallb_forall. intros ax Hax. apply in_map_iff in Hax. destruct Hax as [z [<- Hz]].
    apply (zsort_In z axs) in Hz. rewrite Er in Hz. apply in_map_iff in Hz. destruct Hz as [i [<- Hi]].
    apply in_seq in Hi. rewrite Nat2Z.id. apply Nat.ltb_lt. unfold t_ndim in Hi. lia. }
  rewrite F. cbn [negb]. cbn [set_shape set_bids t_id t_shape t_bids t_ref]. rewrite !map_map. reflexivity.
Qed.

(* ------------------------------------------------------------------ get_bond_axes *)
Definition lit_get_bond_axes (self : net) (v_bid : Z) : option (list Z) :=
let sT := tensors self in let sB := bonds self in
(* bond = self.bonds[bid] *)
match dget v_bid sB with None => None | Some v_bond =>
(* assert bond.bid == bid *)
if negb (Z.eqb (b_id v_bond) v_bid) then None else
(* axes = len(bond.tids) * [-1] *)
let v_axes := (repeat (-1)%Z (length (b_tids v_bond))) in
(* for i in range(len(bond.tids)): *)
match ofold (fun v_axes v_i =>
(* j = bond.tids[:i].count(bond.tids[i]) *)
let v_j := (Z.of_nat (zcount (nth v_i (b_tids v_bond) 0%Z) (firstn v_i (b_tids v_bond)))) in
(* tensor = self.tensors[bond.tids[i]] *)
match dget (nth v_i (b_tids v_bond) 0%Z) sT with None => None | Some v_tensor =>
(* for ax in range(len(tensor.bids)): *)
let brk_1 := false in
match ofold (fun '((v_axes, brk_1, v_j) : list Z * bool * Z) v_ax =>
if brk_1 then Some (v_axes, brk_1, v_j) else
(* if tensor.bids[ax] == bid: *)
match (if (Z.eqb (nth v_ax (t_bids v_tensor) 0%Z) v_bid) then
(* if j == 0: *)
match (if (Z.eqb v_j 0%Z) then
(* axes[i] = ax *)
if negb (Nat.ltb v_i (length v_axes)) then None else
let v_axes := set_nth v_i (Z.of_nat v_ax) v_axes in
(* break *)
let brk_1 := true in
Some (v_axes, brk_1)
 else Some (v_axes, brk_1)) with None => None | Some (v_axes, brk_1) =>
if brk_1 then Some (v_axes, brk_1, v_j) else
(* j -= 1 *)
let v_j := (v_j - 1%Z)%Z in
Some (v_axes, brk_1, v_j) end
 else Some (v_axes, brk_1, v_j)) with None => None | Some (v_axes, brk_1, v_j) =>
if brk_1 then Some (v_axes, brk_1, v_j) else
Some (v_axes, brk_1, v_j) end) (seq 0 (length (t_bids v_tensor))) (v_axes, brk_1, v_j) with None => None | Some (v_axes, brk_1, v_j) =>
Some v_axes end end) (seq 0 (length (b_tids v_bond))) v_axes with None => None | Some v_axes =>
(* assert all((ax >= 0 for ax in axes)) *)
if negb (forallb (fun ax => (Z.leb 0%Z ax)) v_axes) then None else
Some v_axes end end.


(** one round of the inner loop (over the axes of one tensor), as generated: state (axes, left the loop?, j) *)
Definition gba_step (bids : list Z) (bid : Z) (i : nat) : list Z * bool * Z -> nat -> option (list Z * bool * Z) :=
  fun '((v_axes, brk_1, v_j) : list Z * bool * Z) v_ax =>
  if brk_1 then Some (v_axes, brk_1, v_j) else
  match (if (Z.eqb (nth v_ax bids 0%Z) bid) then
    match (if (Z.eqb v_j 0%Z) then
      if negb (Nat.ltb i (length v_axes)) then None else
      let v_axes := set_nth i (Z.of_nat v_ax) v_axes in
      let brk_1 := true in
      Some (v_axes, brk_1)
     else Some (v_axes, brk_1)) with None => None | Some (v_axes, brk_1) =>
    if brk_1 then Some (v_axes, brk_1, v_j) else
    let v_j := (v_j - 1%Z)%Z in
    Some (v_axes, brk_1, v_j) end
   else Some (v_axes, brk_1, v_j)) with None => None | Some (v_axes, brk_1, v_j) =>
  if brk_1 then Some (v_axes, brk_1, v_j) else
  Some (v_axes, brk_1, v_j) end.

(** one round of the outer loop (over the references of the bond) *)
Definition gba_body (T : dict tensor) (bid : Z) (tids : list Z) : list Z -> nat -> option (list Z) :=
  fun v_axes v_i =>
  let v_j := (Z.of_nat (zcount (nth v_i tids 0%Z) (firstn v_i tids))) in
  match dget (nth v_i tids 0%Z) T with None => None | Some v_tensor =>
  let brk_1 := false in
  match ofold (gba_step (t_bids v_tensor) bid v_i) (seq 0 (length (t_bids v_tensor))) (v_axes, brk_1, v_j)
  with None => None | Some (v_axes, brk_1, v_j) => Some v_axes end end.

Lemma lit_get_bond_axes_unfold n bid :
  lit_get_bond_axes n bid =
  match dget bid (bonds n) with None => None | Some b =>
  if negb (Z.eqb (b_id b) bid) then None else
  match ofold (gba_body (tensors n) bid (b_tids b)) (seq 0 (length (b_tids b))) (repeat (-1) (length (b_tids b)))
  with None => None | Some axes => if negb (forallb (fun ax => Z.leb 0 ax) axes) then None else Some axes end end.
Proof. reflexivity. Qed.

Lemma gba_inner_done bids bid i : forall l axes j, ofold (gba_step bids bid i) l (axes, true, j) = Some (axes, true, j).
Proof. induction l as [|x l IH]; intros axes j; [reflexivity|]. cbn [ofold gba_step]. apply IH. Qed.

Lemma gba_inner bid i : forall suf pre jn axes, (i < length axes)%nat ->
  option_map (fun st => fst (fst st))
    (ofold (gba_step (pre ++ suf) bid i) (seq (length pre) (length suf)) (axes, false, Z.of_nat jn))
  = Some (match find_leg bid suf jn (length pre) with Some ax => set_nth i (Z.of_nat ax) axes | None => axes end).
Proof.
  induction suf as [|b s IH]; intros pre jn axes Hi; [reflexivity|].
  cbn [length seq ofold find_leg]. unfold gba_step at 1. cbv beta iota. rewrite nth_app_here.
  destruct (Z.eqb b bid).
  - destruct jn as [|j'].
    + change (Z.eqb (Z.of_nat 0) 0) with true. cbv iota.
      apply Nat.ltb_lt in Hi. rewrite Hi. cbn [negb]. cbv zeta iota beta. rewrite gba_inner_done. reflexivity.
    + replace (Z.eqb (Z.of_nat (S j')) 0) with false by (symmetry; apply Z.eqb_neq; lia). cbv iota zeta beta.
      replace (Z.of_nat (S j') - 1) with (Z.of_nat j') by lia.
      replace (pre ++ b :: s) with ((pre ++ [b]) ++ s) by (rewrite <- app_assoc; reflexivity).
      replace (S (length pre)) with (length (pre ++ [b])) by (rewrite app_length; cbn; lia).
      apply IH. exact Hi.
  - cbv iota beta.
    replace (pre ++ b :: s) with ((pre ++ [b]) ++ s) by (rewrite <- app_assoc; reflexivity).
    replace (S (length pre)) with (length (pre ++ [b])) by (rewrite app_length; cbn; lia).
    apply IH. exact Hi.
Qed.

(** what the outer loop computes: per reference the axis found, or -1 *)
Fixpoint gba_spec (T : dict tensor) (bid : Z) (seen rest : list Z) : option (list Z) :=
  match rest with
  | [] => Some []
  | tid :: r =>
      match dget tid T with
      | None => None
      | Some t =>
          match gba_spec T bid (seen ++ [tid]) r with
          | None => None
          | Some l => Some ((match find_leg bid (t_bids t) (zcount tid seen) O with Some ax => Z.of_nat ax | None => -1 end) :: l)
          end
      end
  end.

Lemma firstn_app_here {A} (pre : list A) s : firstn (length pre) (pre ++ s) = pre.
Proof. induction pre as [|p pre IH]; cbn; [destruct s; reflexivity | rewrite IH; reflexivity]. Qed.

Lemma gba_outer T bid : forall rest seen pre_axes, length pre_axes = length seen ->
  ofold (gba_body T bid (seen ++ rest)) (seq (length seen) (length rest)) (pre_axes ++ repeat (-1) (length rest))
  = option_map (fun l => pre_axes ++ l) (gba_spec T bid seen rest).
Proof.
  induction rest as [|tid r IH]; intros seen pre_axes Hl.
  - cbn. reflexivity.
  - cbn [length seq ofold gba_spec repeat]. unfold gba_body at 1. cbv zeta. rewrite nth_app_here, firstn_app_here.
    destruct (dget tid T) as [t|]; [|reflexivity].
    pose proof (gba_inner bid (length seen) (t_bids t) [] (zcount tid seen) (pre_axes ++ (-1)%Z :: repeat (-1)%Z (length r))) as HI.
    cbn [app length] in HI.
    destruct (ofold (gba_step (t_bids t) bid (length seen)) (seq 0 (length (t_bids t)))
                    (pre_axes ++ (-1)%Z :: repeat (-1)%Z (length r), false, Z.of_nat (zcount tid seen))) as [[[ax1 b1] j1]|].
    2:{ exfalso. assert (L : (length seen < length (pre_axes ++ (-1)%Z :: repeat (-1)%Z (length r)))%nat)
          by (rewrite app_length; cbn [length]; lia). specialize (HI L). discriminate HI. }
    assert (L : (length seen < length (pre_axes ++ (-1)%Z :: repeat (-1)%Z (length r)))%nat) by (rewrite app_length; cbn [length]; lia).
    specialize (HI L). cbn [option_map fst] in HI. injection HI as HI. subst ax1.
    set (v := match find_leg bid (t_bids t) (zcount tid seen) O with Some ax => Z.of_nat ax | None => -1 end).
    assert (E : (match find_leg bid (t_bids t) (zcount tid seen) O with
                 | Some ax => set_nth (length seen) (Z.of_nat ax) (pre_axes ++ (-1)%Z :: repeat (-1)%Z (length r))
                 | None => pre_axes ++ (-1)%Z :: repeat (-1)%Z (length r) end) = (pre_axes ++ [v]) ++ repeat (-1) (length r)).
    { unfold v. rewrite <- Hl. destruct (find_leg bid (t_bids t) (zcount tid seen) O).
      - rewrite set_nth_app, <- app_assoc. reflexivity.
      - rewrite <- app_assoc. reflexivity. }
    rewrite E.
    replace (seen ++ tid :: r) with ((seen ++ [tid]) ++ r) by (rewrite <- app_assoc; reflexivity).
    replace (S (length seen)) with (length (seen ++ [tid])) by (rewrite app_length; cbn; lia).
    rewrite IH by (rewrite !app_length; cbn; lia).
    destruct (gba_spec T bid (seen ++ [tid]) r) as [l|]; [|reflexivity]. cbn [option_map]. rewrite <- app_assoc. reflexivity.
Qed.

Lemma gba_spec_is_model T bid : forall rest seen,
  match gba_spec T bid seen rest with None => None | Some l => if negb (forallb (fun ax => Z.leb 0 ax) l) then None else Some l end
  = option_map (map Z.of_nat) (bond_axes_aux T bid seen rest).
Proof.
  induction rest as [|tid r IH]; intros seen; [reflexivity|].
  cbn [gba_spec bond_axes_aux]. destruct (dget tid T) as [t|]; [|reflexivity].
  specialize (IH (seen ++ [tid])).
  destruct (gba_spec T bid (seen ++ [tid]) r) as [l|].
  - destruct (find_leg bid (t_bids t) (zcount tid seen) O) as [ax|].
    + cbn [forallb]. replace (Z.leb 0 (Z.of_nat ax)) with true by (symmetry; apply Z.leb_le; lia). cbn [andb].
      destruct (bond_axes_aux T bid (seen ++ [tid]) r) as [axs|]; destruct (negb (forallb (fun ax0 => Z.leb 0 ax0) l)); cbn in IH |- *;
        try discriminate IH; try reflexivity. injection IH as ->. reflexivity.
    + cbn [forallb]. change (Z.leb 0 (-1)) with false. cbn [andb negb]. reflexivity.
  - destruct (find_leg bid (t_bids t) (zcount tid seen) O) as [ax|]; [|reflexivity].
    destruct (bond_axes_aux T bid (seen ++ [tid]) r); [discriminate IH | reflexivity].
Qed.

Theorem lit_get_bond_axes_is_model n bid :
  lit_get_bond_axes n bid = option_map (map Z.of_nat) (get_bond_axes n bid).
Proof.
  rewrite lit_get_bond_axes_unfold. unfold get_bond_axes.
  destruct (dget bid (bonds n)) as [b|]; [|reflexivity].
  destruct (Z.eqb (b_id b) bid); [|reflexivity]. cbn [negb].
  pose proof (gba_outer (tensors n) bid (b_tids b) [] [] eq_refl) as HO. cbn [app length] in HO. rewrite HO.
  rewrite <- gba_spec_is_model.
  destruct (gba_spec (tensors n) bid [] (b_tids b)) as [l|]; reflexivity.
Qed.
