(** C07 (a), bridge: on every network satisfying the invariant, the literal port of
    as_einsum (consecutive indices, per-bond unification to the minimum, condensation by an
    index map) computes the functional form as_einsum_spec. *)
From Qib Require Export TN.TNEinsumSpec.
From Coq Require Import Permutation.
Local Open Scope Z_scope.

(* ------------------------------------------------------------------ rows and their concatenation *)
Fixpoint off (lens : list nat) (i : nat) : nat :=
  match i, lens with
  | O, _ => O
  | S i', l :: r => (l + off r i')%nat
  | S _, [] => O
  end.

Lemma set_nth_length {A} n (v : A) l : length (set_nth n v l) = length l.
Proof. revert n. induction l as [|x l IH]; intros [|n]; cbn; auto. Qed.
Lemma nth_set_nth {A} n m (v d : A) l : (n < length l)%nat ->
  nth m (set_nth n v l) d = if Nat.eqb m n then v else nth m l d.
Proof.
  revert n m. induction l as [|x l IH]; intros [|n] [|m] H; cbn in *; try lia; try reflexivity.
  apply IH. lia.
Qed.
Lemma set_nth_app_r {A} (a b : list A) n v : (length a <= n)%nat ->
  set_nth n v (a ++ b) = a ++ set_nth (n - length a) v b.
Proof.
  revert n. induction a as [|x a IH]; intros n H; cbn in *; [rewrite Nat.sub_0_r; reflexivity|].
  destruct n; [lia|]. cbn. f_equal. apply IH. lia.
Qed.
Lemma set_nth_app_l {A} (a b : list A) n v : (n < length a)%nat ->
  set_nth n v (a ++ b) = set_nth n v a ++ b.
Proof.
  revert n. induction a as [|x a IH]; intros n H; cbn in *; [lia|].
  destruct n; [reflexivity|]. cbn. f_equal. apply IH. lia.
Qed.

Lemma nth_concat {A} (rows : list (list A)) d : forall i ax,
  (i < length rows)%nat -> (ax < length (nth i rows []))%nat ->
  nth (off (map (@length A) rows) i + ax) (concat rows) d = nth ax (nth i rows []) d.
Proof.
  induction rows as [|r rows IH]; intros i ax Hi Hax; cbn in Hi; [lia|].
  destruct i as [|i]; cbn [off nth map concat] in *.
  - rewrite app_nth1 by assumption. reflexivity.
  - rewrite app_nth2 by lia. replace (length r + off (map (@length A) rows) i + ax - length r)%nat
      with (off (map (@length A) rows) i + ax)%nat by lia. apply IH; [lia | assumption].
Qed.

Lemma concat_set2 (rows : list (list nat)) : forall i ax v,
  (i < length rows)%nat -> (ax < length (nth i rows []))%nat ->
  concat (set2 rows i ax v) = set_nth (off (map (@length nat) rows) i + ax) v (concat rows) /\
  map (@length nat) (set2 rows i ax v) = map (@length nat) rows.
Proof.
  induction rows as [|r rows IH]; intros i ax v Hi Hax; cbn in Hi; [lia|].
  destruct i as [|i]; unfold set2; cbn [off nth map concat set_nth] in *.
  - rewrite set_nth_app_l by assumption. rewrite set_nth_length. auto.
  - destruct (IH i ax v ltac:(lia) Hax) as [A B]. unfold set2 in A, B. rewrite A, B. split; [|reflexivity].
    rewrite set_nth_app_r by lia. f_equal. f_equal. lia.
Qed.

Lemma off_decompose (lens : list nat) : forall p, (p < fold_right Nat.add O lens)%nat ->
  exists i ax, (i < length lens)%nat /\ (ax < nth i lens O)%nat /\ p = (off lens i + ax)%nat.
Proof.
  induction lens as [|l lens IH]; intros p H; cbn in H; [lia|].
  destruct (Nat.lt_ge_cases p l) as [Hlt|Hge].
  - exists O, p. cbn. split; [lia|]. split; [assumption | reflexivity].
  - destruct (IH (p - l)%nat ltac:(lia)) as [i [ax [A [B C]]]]. exists (S i), ax. cbn. split; [lia|]. split; [assumption | lia].
Qed.
Lemma concat_length_sum {A} (rows : list (list A)) : length (concat rows) = fold_right Nat.add O (map (@length A) rows).
Proof. induction rows as [|r rows IH]; [reflexivity|]. cbn. rewrite app_length, IH. reflexivity. Qed.
Lemma off_lt_sum (lens : list nat) : forall i ax, (i < length lens)%nat -> (ax < nth i lens O)%nat ->
  (off lens i + ax < fold_right Nat.add O lens)%nat.
Proof.
  induction lens as [|l lens IH]; intros i ax Hi Hax; cbn in Hi; [lia|].
  destruct i as [|i]; cbn in *; [lia|]. specialize (IH i ax ltac:(lia) Hax). lia.
Qed.

(** consecutive ranges concatenate to 0..N-1 *)
Lemma ranges_spec lens : forall o, concat (ranges o lens) = seq o (fold_right Nat.add O lens) /\
  map (@length nat) (ranges o lens) = lens.
Proof.
  induction lens as [|l lens IH]; intros o; cbn [ranges concat map fold_right]; [auto|].
  destruct (IH (o + l)%nat) as [A B]. rewrite A, B, seq_length. split; [|reflexivity].
  rewrite seq_app. reflexivity.
Qed.

(* ------------------------------------------------------------------ condensation *)
Definition idx (x : nat) (l : list nat) : nat := match nindex x l with Some i => i | None => O end.

Lemma nindex_app_l x a b : In x a -> nindex x (a ++ b) = nindex x a.
Proof.
  induction a as [|y a IH]; [intros []|]. intros H. cbn. destruct (Nat.eqb_spec y x); [reflexivity|].
  destruct H as [H|H]; [congruence|]. rewrite IH by assumption. reflexivity.
Qed.
Lemma nindex_app_r x a b : ~ In x a -> nindex x (a ++ b) = option_map (fun i => (length a + i)%nat) (nindex x b).
Proof.
  induction a as [|y a IH]; intros H; cbn.
  - destruct (nindex x b); reflexivity.
  - destruct (Nat.eqb_spec y x); [exfalso; apply H; left; assumption|].
    rewrite IH by (intros E; apply H; right; exact E). destruct (nindex x b); reflexivity.
Qed.

(** state of the index map: the values seen so far, numbered in order *)
Definition StInv (st : list (nat * nat) * nat) (seen : list nat) : Prop :=
  map fst (rev (fst st)) = seen /\ map snd (rev (fst st)) = seq 0 (snd st) /\ NoDup seen.

Lemma StInv_find m c seen x : StInv (m, c) seen ->
  match find (fun p => Nat.eqb (fst p) x) m with
  | Some p => In x seen /\ snd p = idx x seen
  | None => ~ In x seen
  end /\ c = length seen.
Proof.
  intros [A [B ND]]. cbn [fst snd] in *.
  assert (Lc : c = length seen).
  { rewrite <- A, map_length. apply (f_equal (@length nat)) in B. rewrite map_length, seq_length in B. auto. }
  split; [|assumption].
  destruct (find _ m) as [[y k]|] eqn:F.
  - apply find_some in F. destruct F as [Hin E]. cbn in E. apply Nat.eqb_eq in E. subst y.
    apply in_rev in Hin. apply In_nth_error in Hin. destruct Hin as [j Hj].
    assert (Hx : nth_error seen j = Some x) by (rewrite <- A, nth_error_map, Hj; reflexivity).
    assert (Hk : nth_error (seq 0 c) j = Some k) by (rewrite <- B, nth_error_map, Hj; reflexivity).
    split; [eapply nth_error_In; eauto|]. cbn [snd].
    assert (Hjc : (j < c)%nat).
    { assert (nth_error (seq 0 c) j <> None) by congruence. apply nth_error_Some in H. rewrite seq_length in H. exact H. }
    rewrite (nth_error_nth' _ O) in Hk by (rewrite seq_length; assumption). rewrite seq_nth in Hk by assumption.
    injection Hk as <-. unfold idx.
    destruct (nindex_Some x seen (nth_error_In _ _ Hx)) as [q Hq]. rewrite Hq.
    apply nindex_sound in Hq. cbn. symmetry.
    eapply (proj1 (NoDup_nth_error seen) ND); [apply nth_error_Some; congruence | congruence].
  - intros Hin. rewrite <- A in Hin. apply in_map_iff in Hin. destruct Hin as [[y k] [E Hin]]. cbn in E. subst y.
    apply in_rev in Hin. apply (find_none _ _ F) in Hin. cbn in Hin. rewrite Nat.eqb_refl in Hin. discriminate.
Qed.

Lemma condense_row_spec l : forall m c seen, StInv (m, c) seen ->
  fst (condense_row l (m, c)) = map (fun x => idx x (seen ++ first_occ l seen)) l /\
  StInv (snd (condense_row l (m, c))) (seen ++ first_occ l seen).
Proof.
  induction l as [|x r IH]; intros m c seen Inv.
  - cbn. rewrite app_nil_r. auto.
  - cbn [condense_row first_occ].
    destruct (StInv_find m c seen x Inv) as [F Lc].
    destruct (find (fun p => Nat.eqb (fst p) x) m) as [p|] eqn:Ef.
    + destruct F as [Hin Hp]. replace (nmem x seen) with true by (symmetry; apply nmem_In; assumption).
      specialize (IH m c seen Inv). destruct (condense_row r (m, c)) as [r' st'] eqn:Er. cbn [fst snd] in *.
      destruct IH as [I1 I2]. split; [|assumption]. cbn [map]. f_equal; [|assumption].
      rewrite Hp. unfold idx. rewrite nindex_app_l by assumption. reflexivity.
    + replace (nmem x seen) with false by (symmetry; apply nmem_false; assumption).
      assert (Inv' : StInv ((x, c) :: m, S c) (seen ++ [x])).
      { destruct Inv as [A [B ND]]. cbn [fst snd] in *. unfold StInv. cbn [fst snd rev].
        rewrite !map_app, A, B. cbn [map fst snd]. split; [reflexivity|]. split.
        - rewrite seq_S. reflexivity.
        - apply NoDup_snoc; assumption. }
      specialize (IH ((x, c) :: m) (S c) (seen ++ [x]) Inv').
      destruct (condense_row r ((x, c) :: m, S c)) as [r' st'] eqn:Er. cbn [fst snd] in *.
      destruct IH as [I1 I2]. rewrite <- app_assoc in I1, I2. cbn [app] in I1, I2.
      split; [|assumption]. cbn [map]. f_equal; [|assumption].
      unfold idx. rewrite nindex_app_r by assumption. cbn. rewrite Nat.eqb_refl. cbn. lia.
Qed.

Definition cstep (x : nat) (st : list (nat * nat) * nat) : nat * (list (nat * nat) * nat) :=
  match find (fun p => Nat.eqb (fst p) x) (fst st) with
  | Some p => (snd p, st)
  | None => (snd st, ((x, snd st) :: fst st, S (snd st)))
  end.
Lemma condense_row_cons x r st :
  condense_row (x :: r) st =
  (fst (cstep x st) :: fst (condense_row r (snd (cstep x st))), snd (condense_row r (snd (cstep x st)))).
Proof.
  destruct st as [m c]. cbn [condense_row]. unfold cstep. cbn [fst snd].
  destruct (find _ m) as [p|]; cbn [fst snd];
    match goal with |- context [condense_row r ?s] => destruct (condense_row r s) end; reflexivity.
Qed.
Lemma condense_row_nil st : condense_row [] st = ([], st).
Proof. destruct st. reflexivity. Qed.

Lemma condense_row_app a b : forall st,
  condense_row (a ++ b) st =
  (fst (condense_row a st) ++ fst (condense_row b (snd (condense_row a st))),
   snd (condense_row b (snd (condense_row a st)))).
Proof.
  induction a as [|x a IH]; intros st; cbn [app].
  - rewrite condense_row_nil. cbn [fst snd app]. destruct (condense_row b st); reflexivity.
  - rewrite !condense_row_cons, IH. cbn [fst snd app]. reflexivity.
Qed.
Lemma condense_row_length l : forall st, length (fst (condense_row l st)) = length l.
Proof.
  induction l as [|x l IH]; intros st; [rewrite condense_row_nil; reflexivity|].
  rewrite condense_row_cons. cbn [fst length]. rewrite IH. reflexivity.
Qed.

Lemma condense_concat rows : forall st,
  concat (condense rows st) = fst (condense_row (concat rows) st) /\
  map (@length nat) (condense rows st) = map (@length nat) rows.
Proof.
  induction rows as [|r rows IH]; intros st; cbn [condense concat map]; [destruct st; auto|].
  rewrite condense_row_app. cbn [fst].
  pose proof condense_row_length as Lr.
  destruct (condense_row r st) as [r' st'] eqn:Er. cbn [fst snd concat map].
  destruct (IH st') as [A B]. rewrite A, B. split; [reflexivity|]. f_equal.
  pose proof (Lr r st) as E. rewrite Er in E. exact E.
Qed.

(* ------------------------------------------------------------------ first occurrences under an injective map *)
Lemma first_occ_map_inj (f : Z -> nat) l : forall seen,
  (forall a b, In a (l ++ seen) -> In b (l ++ seen) -> f a = f b -> a = b) ->
  first_occ (map f l) (map f seen) = map f (zfirst_occ l seen).
Proof.
  induction l as [|x l IH]; intros seen Hinj; [reflexivity|]. cbn [map first_occ zfirst_occ].
  assert (E : nmem (f x) (map f seen) = zmem x seen).
  { destruct (zmem x seen) eqn:Ez.
    - apply nmem_In. apply in_map. apply zmem_In. assumption.
    - apply nmem_false. apply zmem_false in Ez. intros Hin. apply in_map_iff in Hin. destruct Hin as [y [Ey Hy]].
      apply Ez. replace x with y; [assumption|]. apply Hinj; [right; apply in_or_app; right; assumption | left; reflexivity | assumption]. }
  rewrite E. destruct (zmem x seen).
  - apply IH. intros a b Ha Hb. apply Hinj; right; assumption.
  - cbn [map]. f_equal. replace (map f seen ++ [f x]) with (map f (seen ++ [x])) by (rewrite map_app; reflexivity).
    apply IH. intros a b Ha Hb. apply Hinj.
    + apply in_app_or in Ha. destruct Ha as [Ha|Ha]; [right; apply in_or_app; left; assumption|].
      apply in_app_or in Ha. destruct Ha as [Ha|[<-|[]]]; [right; apply in_or_app; right; assumption | left; reflexivity].
    + apply in_app_or in Hb. destruct Hb as [Hb|Hb]; [right; apply in_or_app; left; assumption|].
      apply in_app_or in Hb. destruct Hb as [Hb|[<-|[]]]; [right; apply in_or_app; right; assumption | left; reflexivity].
Qed.
Lemma nindex_map_inj (f : Z -> nat) l b :
  (forall a, In a l -> f a = f b -> a = b) -> nindex (f b) (map f l) = zindex b l.
Proof.
  induction l as [|y l IH]; intros Hinj; [reflexivity|]. cbn.
  destruct (Z.eqb_spec y b).
  - subst. rewrite Nat.eqb_refl. reflexivity.
  - destruct (Nat.eqb_spec (f y) (f b)) as [E|E]; [exfalso; apply n; apply Hinj; [left; reflexivity | assumption]|].
    rewrite IH by (intros a Ha; apply Hinj; right; assumption). reflexivity.
Qed.

Lemma zindex_nodup l : forall i x, NoDup l -> nth_error l i = Some x -> zindex x l = Some i.
Proof.
  induction l as [|y l IH]; intros [|i] x ND H; cbn in *; try discriminate.
  - injection H as ->. rewrite Z.eqb_refl. reflexivity.
  - inversion ND; subst. destruct (Z.eqb_spec y x); [subst; exfalso; apply H2; eapply nth_error_In; eauto|].
    rewrite (IH i x H3 H). reflexivity.
Qed.

(** the j-th leg on a bond *)
Lemma find_leg_char bid bids : forall j off0 ax, nth_error bids ax = Some bid -> zcount bid (firstn ax bids) = j ->
  find_leg bid bids j off0 = Some (off0 + ax)%nat.
Proof.
  induction bids as [|b r IH]; intros j off0 [|ax] H1 H2; cbn [nth_error firstn find_leg] in *; try discriminate.
  - injection H1 as ->. rewrite Z.eqb_refl. rewrite zcount_nil in H2. subst j. f_equal. lia.
  - rewrite zcount_cons in H2. rewrite Z.eqb_sym in H2. destruct (Z.eqb b bid).
    + destruct j; [lia|]. rewrite (IH j (S off0) ax H1) by lia. f_equal. lia.
    + rewrite (IH j (S off0) ax H1) by lia. f_equal. lia.
Qed.
(** the j-th occurrence of an element *)
Lemma kth_occ x l : forall j, (j < zcount x l)%nat -> exists r, nth_error l r = Some x /\ zcount x (firstn r l) = j.
Proof.
  induction l as [|y l IH]; intros j H; [cbn in H; lia|]. rewrite zcount_cons in H.
  destruct (Z.eqb_spec x y).
  - subst. destruct j.
    + exists O. cbn. auto.
    + destruct (IH j ltac:(lia)) as [r [A B]]. exists (S r). cbn [nth_error firstn]. rewrite zcount_cons, Z.eqb_refl. split; [assumption | lia].
  - destruct (IH j ltac:(lia)) as [r [A B]]. exists (S r). cbn [nth_error firstn]. rewrite zcount_cons.
    destruct (Z.eqb_spec x y); [congruence|]. split; [assumption | lia].
Qed.

Lemma fold_min_spec l v m : In m (v :: l) -> (forall x, In x (v :: l) -> (m <= x)%nat) -> fold_left Nat.min l v = m.
Proof.
  revert v. induction l as [|y l IH]; intros v Hin Hle; cbn.
  - destruct Hin as [->|[]]. reflexivity.
  - apply IH.
    + destruct Hin as [<-|[<-|Hin]].
      * left. pose proof (Hle y (or_intror (or_introl eq_refl))). lia.
      * left. pose proof (Hle v (or_introl eq_refl)). lia.
      * right. assumption.
    + intros x [<-|Hx].
      * pose proof (Hle v (or_introl eq_refl)). pose proof (Hle y (or_intror (or_introl eq_refl))). lia.
      * apply Hle. right. right. assumption.
Qed.

Lemma rows_eq (a b : list (list nat)) : map (@length nat) a = map (@length nat) b -> concat a = concat b -> a = b.
Proof.
  revert b. induction a as [|r a IH]; intros [|r' b] HL HC; cbn in *; try discriminate; [reflexivity|].
  injection HL as L1 L2.
  assert (r = r' /\ concat a = concat b).
  { clear - L1 HC. revert r' L1 HC. induction r as [|x r IH]; intros [|y r'] L1 HC; cbn in *; try discriminate; [auto|].
    injection L1 as L1. injection HC as -> HC. destruct (IH r' L1 HC) as [-> E]. auto. }
  destruct H as [-> E]. f_equal. apply IH; assumption.
Qed.

Lemma fold_set_nth_spec (P : list nat) v : forall f p, (forall q, In q P -> (q < length f)%nat) ->
  nth p (fold_left (fun acc q => set_nth q v acc) P f) O = if nmem p P then v else nth p f O.
Proof.
  induction P as [|q P IH]; intros f p H; cbn [fold_left nmem existsb]; [reflexivity|].
  rewrite IH by (intros q' Hq'; rewrite set_nth_length; apply H; right; assumption).
  fold (nmem p P). destruct (nmem p P); [rewrite orb_true_r; reflexivity|]. rewrite orb_false_r.
  rewrite nth_set_nth by (apply H; left; reflexivity). reflexivity.
Qed.

Lemma fold_set2_concat (legs : list (nat * nat)) v lens : forall rows,
  map (@length nat) rows = lens ->
  (forall p, In p legs -> (fst p < length lens)%nat /\ (snd p < nth (fst p) lens O)%nat) ->
  map (@length nat) (fold_left (fun acc p => set2 acc (fst p) (snd p) v) legs rows) = lens /\
  concat (fold_left (fun acc p => set2 acc (fst p) (snd p) v) legs rows)
  = fold_left (fun acc q => set_nth q v acc) (map (fun p => (off lens (fst p) + snd p)%nat) legs) (concat rows).
Proof.
  induction legs as [|[i ax] legs IH]; intros rows HL H; cbn [fold_left map]; [auto|].
  destruct (H (i, ax) (or_introl eq_refl)) as [Hi Hax]. cbn [fst snd] in *.
  assert (Hi' : (i < length rows)%nat) by (rewrite <- HL, map_length in Hi; exact Hi).
  assert (Hax' : (ax < length (nth i rows []))%nat).
  { rewrite <- HL in Hax. rewrite (nth_indep _ O (length (@nil nat))) in Hax by (rewrite map_length; assumption).
    rewrite map_nth in Hax. exact Hax. }
  destruct (concat_set2 rows i ax v Hi' Hax') as [A B].
  destruct (IH (set2 rows i ax v)) as [C D]; [rewrite B; exact HL | intros p Hp; apply H; right; exact Hp|].
  split; [exact C|]. rewrite D, A, HL. reflexivity.
Qed.

(* ------------------------------------------------------------------ the unification loop *)
Section Unify.
  Variable n : net.
  Hypothesis W : WF n.
  Let W0 : WF0 n := proj1 W.
  Variables (tids : list Z) (tsall : list tensor).
  Hypothesis Pt : Permutation (dkeys (tensors n)) tids.
  Hypothesis Ots : omap (fun tid => dget tid (tensors n)) tids = Some tsall.

  Definition lens : list nat := map (fun t => length (t_bids t)) tsall.
  Definition flat : list Z := concat (map t_bids tsall).
  Definition FO (b : Z) : nat := match zindex b flat with Some p => p | None => O end.

  Lemma NDt : NoDup tids.
  Proof. eapply Permutation_NoDup; [exact Pt | apply (wf_ndT n W0)]. Qed.
  Lemma lens_rows : map (@length Z) (map t_bids tsall) = lens.
  Proof. unfold lens. rewrite map_map. reflexivity. Qed.
  Lemma flat_len : length flat = fold_right Nat.add O lens.
  Proof. unfold flat. rewrite concat_length_sum, lens_rows. reflexivity. Qed.

  Lemma tid_at i tid : nth_error tids i = Some tid ->
    exists t, nth_error tsall i = Some t /\ dget tid (tensors n) = Some t.
  Proof. intros H. destruct (omap_spec _ _ _ Ots) as [_ S]. destruct (S i tid H) as [t [A B]]. eauto. Qed.
  Lemma tsall_len : length tsall = length tids.
  Proof. apply (omap_spec _ _ _ Ots). Qed.

  Lemma flat_at i t ax : nth_error tsall i = Some t -> (ax < length (t_bids t))%nat ->
    (off lens i + ax < length flat)%nat /\ nth (off lens i + ax) flat 0 = nth ax (t_bids t) 0.
  Proof.
    intros Ht Hax. assert (Hi : (i < length tsall)%nat) by (apply nth_error_Some; congruence).
    assert (Er : nth i (map t_bids tsall) [] = t_bids t).
    { apply nth_error_nth. rewrite nth_error_map, Ht. reflexivity. }
    split.
    - rewrite flat_len. apply off_lt_sum; [unfold lens; rewrite map_length; assumption|].
      unfold lens. erewrite nth_error_nth; [exact Hax|]. rewrite nth_error_map, Ht. reflexivity.
    - unfold flat. rewrite <- lens_rows. rewrite nth_concat; [rewrite Er; reflexivity | rewrite map_length; assumption | rewrite Er; assumption].
  Qed.

  Lemma concat_len_eq rows : map (@length nat) rows = lens -> length (concat rows) = length flat /\ True.
  Proof. intros H. split; [|exact I]. rewrite concat_length_sum, H, flat_len. reflexivity. Qed.

  Definition UInv (Sd : list Z) (rows : list (list nat)) : Prop :=
    map (@length nat) rows = lens /\
    forall p, (p < length flat)%nat ->
      nth p (concat rows) O = if zmem (nth p flat 0) Sd then FO (nth p flat 0) else p.

  Lemma unify_step_inv Sd rows kb b : UInv Sd rows -> In (kb, b) (bonds n) -> ~ In kb Sd ->
    exists rows', unify_step n tids rows (kb, b) = Some rows' /\ UInv (kb :: Sd) rows'.
  Proof.
    intros [HL HV] Hin HnS.
    destruct (wf_B n W0 kb b Hin) as [Hid Hlen].
    pose proof (In_dget _ _ _ (wf_ndB n W0) Hin) as Eb.
    unfold unify_step. cbn [snd].
    (* positions of the referenced tensors *)
    assert (Hit : forall tid, In tid (b_tids b) -> exists i, zindex tid tids = Some i /\ nth_error tids i = Some tid).
    { intros tid Ht. assert (In tid tids) by (eapply Permutation_in; [exact Pt | eapply wf_tids_exist; eauto]).
      destruct (zindex_Some tid tids H) as [i Hi]. exists i. split; [assumption | apply zindex_sound; assumption]. }
    set (ix := fun tid => match zindex tid tids with Some i => i | None => O end).
    rewrite (omap_total _ ix).
    2:{ intros tid Ht. destruct (Hit tid Ht) as [i [Hi _]]. unfold ix. rewrite Hi. reflexivity. }
    unfold get_bond_axes. rewrite Hid, Eb, Hid, Z.eqb_refl.
    destruct (bond_axes_aux_spec (tensors n) kb (b_tids b) []) as [axs [E [L Sp]]].
    { intros tid Ht. destruct (In_key_dget tid (tensors n) (wf_tids_exist n kb b tid W0 Hin Ht)) as [t Et].
      exists t. split; [assumption|]. cbn [app].
      pose proof (wf_inc n W0 tid kb) as I. unfold cntT, cntB in I. rewrite Et, Eb in I. lia. }
    rewrite E. eexists. split; [reflexivity|].
    set (legs := combine (map ix (b_tids b)) axs).
    set (P := map (fun p => (off lens (fst p) + snd p)%nat) legs).
    (* each leg: its tensor, its axis *)
    assert (Leg : forall r i ax, nth_error legs r = Some (i, ax) ->
              exists tid t, nth_error (b_tids b) r = Some tid /\ nth_error tids i = Some tid /\
                nth_error tsall i = Some t /\ dget tid (tensors n) = Some t /\
                find_leg kb (t_bids t) (zcount tid (firstn r (b_tids b))) O = Some ax).
    { intros r i ax Hr. unfold legs in Hr.
      assert (A : nth_error (map ix (b_tids b)) r = Some i /\ nth_error axs r = Some ax).
      { clear - Hr. revert axs r Hr. generalize (map ix (b_tids b)). induction l as [|x l IH]; intros [|y axs] [|r] H; cbn in *; try discriminate.
        - injection H as -> ->. auto.
        - apply IH. exact H. }
      destruct A as [A1 A2]. rewrite nth_error_map in A1. destruct (nth_error (b_tids b) r) as [tid|] eqn:Et; [|discriminate].
      cbn in A1. injection A1 as A1. destruct (Hit tid (nth_error_In _ _ Et)) as [i' [Hi' Hn']].
      unfold ix in A1. rewrite Hi' in A1. subst i'.
      destruct (Sp r tid ax Et A2) as [t [Edt F]]. destruct (tid_at i tid Hn') as [t' [Ht' Edt']].
      assert (t' = t) by congruence. subst t'. exists tid, t. cbn [app] in F. auto 6. }
    assert (LegRange : forall p, In p legs -> (fst p < length lens)%nat /\ (snd p < nth (fst p) lens O)%nat).
    { intros [i ax] Hp. apply In_nth_error in Hp. destruct Hp as [r Hr].
      destruct (Leg r i ax Hr) as [tid [t [_ [_ [Ht [_ F]]]]]]. cbn [fst snd].
      apply find_leg_sound in F. destruct F as [_ F]. rewrite Nat.sub_0_r in F.
      unfold lens. rewrite map_length. split; [apply nth_error_Some; congruence|].
      erewrite nth_error_nth; [|rewrite nth_error_map, Ht; reflexivity]. apply nth_error_Some. congruence. }
    (* P1: the positions carry the bond *)
    assert (P1 : forall q, In q P -> (q < length flat)%nat /\ nth q flat 0 = kb).
    { intros q Hq. unfold P in Hq. apply in_map_iff in Hq. destruct Hq as [[i ax] [<- Hp]]. cbn [fst snd].
      apply In_nth_error in Hp. destruct Hp as [r Hr]. destruct (Leg r i ax Hr) as [tid [t [_ [_ [Ht [_ F]]]]]].
      apply find_leg_sound in F. destruct F as [_ F]. rewrite Nat.sub_0_r in F.
      assert (Hax : (ax < length (t_bids t))%nat) by (apply nth_error_Some; congruence).
      destruct (flat_at i t ax Ht Hax) as [A B]. split; [assumption|]. rewrite B. apply nth_error_nth. assumption. }
    (* P2: every position carrying the bond is among them *)
    assert (P2 : forall q, (q < length flat)%nat -> nth q flat 0 = kb -> In q P).
    { intros q Hq Hb. rewrite flat_len in Hq. destruct (off_decompose lens q Hq) as [i [ax [Hi [Hax ->]]]].
      unfold lens in Hi. rewrite map_length in Hi.
      destruct (nth_error tsall i) as [t|] eqn:Ht; [|apply nth_error_None in Ht; lia].
      assert (Hax' : (ax < length (t_bids t))%nat).
      { unfold lens in Hax. erewrite nth_error_nth in Hax; [exact Hax|]. rewrite nth_error_map, Ht. reflexivity. }
      destruct (flat_at i t ax Ht Hax') as [_ Fb]. rewrite Fb in Hb.
      assert (Hleg : nth_error (t_bids t) ax = Some kb) by (rewrite <- Hb; apply nth_error_nth'; assumption).
      destruct (nth_error tids i) as [tid|] eqn:Etid; [|apply nth_error_None in Etid; rewrite <- tsall_len in Etid; lia].
      destruct (tid_at i tid Etid) as [t' [Ht' Edt]]. assert (t' = t) by congruence. subst t'.
      set (j := zcount kb (firstn ax (t_bids t))).
      assert (Hj : (j < zcount tid (b_tids b))%nat).
      { pose proof (wf_inc n W0 tid kb) as I. unfold cntT, cntB in I. rewrite Edt, Eb in I. rewrite <- I.
        rewrite <- (firstn_skipn ax (t_bids t)) at 1. rewrite zcount_app. fold j.
        assert (Hs : skipn ax (t_bids t) = kb :: skipn (S ax) (t_bids t)).
        { clear - Hleg. revert ax Hleg. generalize (t_bids t). induction l as [|x l IH]; intros [|ax] H; cbn in *; try discriminate.
          - injection H as ->. reflexivity.
          - apply IH. exact H. }
        rewrite Hs, zcount_cons, Z.eqb_refl. lia. }
      destruct (kth_occ tid (b_tids b) j Hj) as [r [Hr Hc]].
      assert (Hlr : (r < length legs)%nat).
      { unfold legs. rewrite combine_length, map_length, L, Nat.min_id. apply nth_error_Some. congruence. }
      destruct (nth_error legs r) as [[i' ax']|] eqn:El; [|apply nth_error_None in El; lia].
      destruct (Leg r i' ax' El) as [tid' [t' [A1 [A2 [A3 [A4 F]]]]]].
      assert (tid' = tid) by congruence. subst tid'. assert (t' = t) by congruence. subst t'.
      assert (i' = i).
      { pose proof (zindex_nodup tids i' tid NDt A2). pose proof (zindex_nodup tids i tid NDt Etid). congruence. }
      subst i'. rewrite Hc in F. rewrite (find_leg_char kb (t_bids t) j O ax Hleg eq_refl) in F. injection F as <-.
      unfold P. apply in_map_iff. exists (i, (0 + ax)%nat). split; [reflexivity | eapply nth_error_In; eauto]. }
    (* current values at the positions are the positions *)
    assert (Vals : map (fun p => get2 rows (fst p) (snd p)) legs = P).
    { unfold P. apply map_ext_in. intros [i ax] Hp. cbn [fst snd].
      destruct (LegRange (i, ax) Hp) as [Hi Hax]. cbn [fst snd] in Hi, Hax.
      assert (Hi' : (i < length rows)%nat) by (rewrite <- HL, map_length in Hi; exact Hi).
      assert (Hax' : (ax < length (nth i rows []))%nat).
      { rewrite <- HL in Hax. rewrite (nth_indep _ O (length (@nil nat))) in Hax by (rewrite map_length; assumption).
        rewrite map_nth in Hax. exact Hax. }
      unfold get2. rewrite <- (nth_concat rows O i ax Hi' Hax'). rewrite HL.
      assert (Hq : In (off lens i + ax)%nat P) by (unfold P; apply in_map_iff; exists (i, ax); auto).
      destruct (P1 _ Hq) as [Hlt Hb]. rewrite (HV _ Hlt), Hb.
      replace (zmem kb Sd) with false by (symmetry; apply zmem_false; assumption). reflexivity. }
    (* the minimum is the first occurrence *)
    assert (HFO : (FO kb < length flat)%nat /\ nth (FO kb) flat 0 = kb /\ forall q, In q P -> (FO kb <= q)%nat).
    { assert (Hne : exists q, In q P).
      { unfold P, legs. destruct (b_tids b) as [|t0 r0]; [cbn in Hlen; lia|]. destruct axs as [|a0 ar]; [cbn in L; lia|].
        cbn. eauto. }
      destruct Hne as [q0 Hq0]. destruct (P1 q0 Hq0) as [Hlt0 Hb0].
      assert (Hn0 : nth_error flat q0 = Some kb) by (rewrite <- Hb0; apply nth_error_nth'; assumption).
      destruct (zindex_first kb flat q0 Hn0) as [q [Hq _]]. unfold FO. rewrite Hq.
      pose proof (zindex_sound _ _ _ Hq) as [A _]. split; [apply nth_error_Some; congruence|].
      split; [apply nth_error_nth; assumption|].
      intros q' Hq'. destruct (P1 q' Hq') as [Hlt' Hb'].
      assert (Hn' : nth_error flat q' = Some kb) by (rewrite <- Hb'; apply nth_error_nth'; assumption).
      destruct (zindex_first kb flat q' Hn') as [q2 [Hq2 Hle]]. congruence. }
    destruct HFO as [F1 [F2 F3]].
    assert (Imin : match map (fun p => get2 rows (fst p) (snd p)) legs with [] => O | v :: r => fold_left Nat.min r v end = FO kb).
    { rewrite Vals. pose proof (P2 _ F1 F2) as HinP. destruct P as [|v r]; [destruct HinP|].
      apply fold_min_spec; [assumption | assumption]. }
    rewrite Imin.
    destruct (fold_set2_concat legs (FO kb) lens rows HL LegRange) as [HL' HC'].
    split; [exact HL'|].
    intros p Hp. rewrite HC'. fold P. rewrite fold_set_nth_spec.
    2:{ intros q Hq. destruct (P1 q Hq) as [Hlt _]. rewrite (proj1 (concat_len_eq rows HL)). exact Hlt. }
    cbn [zmem existsb]. fold (zmem (nth p flat 0) Sd).
    destruct (nmem p P) eqn:EP.
    - apply nmem_In in EP. destruct (P1 p EP) as [_ Hb]. rewrite Hb, Z.eqb_refl. cbn. reflexivity.
    - apply nmem_false in EP. destruct (Z.eqb_spec (nth p flat 0) kb) as [Hb|Hb].
      + exfalso. apply EP. apply P2; assumption.
      + cbn. apply HV. assumption.
  Qed.
End Unify.

(* ------------------------------------------------------------------ assembly *)
Lemma omap_option_map {A B C} (f : A -> option B) (g : B -> C) l r : omap f l = Some r ->
  omap (fun x => option_map g (f x)) l = Some (map g r).
Proof.
  revert r. induction l as [|a l IH]; intros r H; cbn in *; [injection H as <-; reflexivity|].
  destruct (f a) as [y|]; [|discriminate]. destruct (omap f l) as [ys|]; [|discriminate]. injection H as <-.
  cbn. rewrite (IH ys eq_refl). reflexivity.
Qed.
Lemma concat_map_map {A B} (f : A -> B) (rows : list (list A)) : concat (map (map f) rows) = map f (concat rows).
Proof. induction rows as [|r rows IH]; [reflexivity|]. cbn. rewrite map_app, IH. reflexivity. Qed.

Theorem as_einsum_is_spec n : WF n -> as_einsum n = as_einsum_spec n.
Proof.
  intros W. pose proof (proj1 W) as W0.
  unfold as_einsum, as_einsum_spec. fold (sorted_tids n). set (tids := sorted_tids n).
  destruct (Z.eqb (last tids 0) VT) eqn:Hlast; [|reflexivity].
  assert (Pt : Permutation (dkeys (tensors n)) tids) by apply ksort_perm.
  destruct (omap (fun tid => dget tid (tensors n)) tids) as [tsall|] eqn:Ots.
  2:{ (* every sorted id is a key *)
      exfalso. assert (G : forall l, (forall k, In k l -> In k (dkeys (tensors n))) ->
                      omap (fun tid => dget tid (tensors n)) l <> None).
      { induction l as [|k l IH]; intros H; cbn; [discriminate|].
        destruct (In_key_dget k (tensors n) (H k (or_introl eq_refl))) as [t ->].
        pose proof (IH (fun k' Hk' => H k' (or_intror Hk'))) as IH'.
        destruct (omap (fun tid => dget tid (tensors n)) l); [discriminate | congruence]. }
      apply (G tids); [|exact Ots]. intros k Hk. eapply Permutation_in; [symmetry; exact Pt | exact Hk]. }
  rewrite (omap_option_map _ t_ndim _ _ Ots).
  unfold bond_order. fold tids. rewrite Ots. cbn [option_map].
  fold (flat tsall). set (bl := zfirst_occ (flat tsall) []).
  (* every member of tsall is a tensor of the network *)
  assert (Hmem : forall t, In t tsall -> exists k, In (k, t) (tensors n)).
  { intros t Ht. destruct (omap_In _ _ _ _ Ots Ht) as [k [_ Hk]]. exists k. apply dget_In. exact Hk. }
  assert (Hnd : map t_ndim tsall = lens tsall).
  { unfold lens. apply map_ext_in. intros t Ht. destruct (Hmem t Ht) as [k Hk]. unfold t_ndim. apply (wf_T n W0 k t Hk). }
  rewrite Hnd.
  (* the unification loop *)
  assert (Loop : forall Bl Sd rows, (forall kb b, In (kb, b) Bl -> In (kb, b) (bonds n)) -> NoDup (dkeys Bl) ->
            (forall kb, In kb (dkeys Bl) -> ~ In kb Sd) -> UInv tsall Sd rows ->
            exists rows', ofold (unify_step n tids) Bl rows = Some rows' /\ UInv tsall (rev (dkeys Bl) ++ Sd) rows').
  { induction Bl as [|[kb b] Bl IH]; intros Sd rows Sub ND Dis Inv.
    - exists rows. cbn. auto.
    - cbn [ofold]. cbn in ND. inversion ND as [|? ? Hk ND']; subst.
      destruct (unify_step_inv n W tids tsall Pt Ots Sd rows kb b Inv (Sub kb b (or_introl eq_refl)))
        as [rows1 [E1 Inv1]]; [apply Dis; left; reflexivity|].
      rewrite E1. destruct (IH (kb :: Sd) rows1) as [rows' [E' Inv']]; try assumption.
      + intros kb' b' H'. apply Sub. right. exact H'.
      + intros kb' Hk' [E|E]; [subst; contradiction | apply (Dis kb'); [right; assumption | assumption]].
      + exists rows'. split; [exact E'|]. cbn [dkeys map rev]. rewrite <- app_assoc. exact Inv'. }
  destruct (ranges_spec (lens tsall) O) as [R1 R2].
  destruct (Loop (bonds n) [] (ranges O (lens tsall))) as [rows1 [E1 [L1 V1]]]; auto.
  { apply (wf_ndB n W0). }
  { split; [exact R2|]. intros p Hp. rewrite R1. cbn [zmem existsb]. rewrite seq_nth; [reflexivity|].
    rewrite <- (flat_len tsall). exact Hp. }
  rewrite E1. rewrite app_nil_r in V1.
  (* all legs lie on existing bonds *)
  assert (Hfl : forall b, In b (flat tsall) -> In b (dkeys (bonds n))).
  { intros b Hb. unfold flat in Hb. apply in_concat in Hb. destruct Hb as [l [Hl Hb]]. apply in_map_iff in Hl.
    destruct Hl as [t [<- Ht]]. destruct (Hmem t Ht) as [k Hk]. eapply wf_bids_exist; eauto. }
  assert (C1 : concat rows1 = map (FO tsall) (flat tsall)).
  { apply nth_error_ext_lemma. intros p. destruct (Nat.lt_ge_cases p (length (flat tsall))) as [Hp|Hp].
    - rewrite (nth_error_nth' _ O) by (rewrite (proj1 (concat_len_eq tsall rows1 L1)); exact Hp).
      rewrite V1 by assumption. rewrite nth_error_map, (nth_error_nth' _ 0%Z) by assumption. cbn.
      replace (zmem _ _) with true; [reflexivity|]. symmetry. apply zmem_In. apply in_rev. rewrite rev_involutive.
      apply Hfl. apply nth_In. assumption.
    - rewrite (proj2 (nth_error_None _ _)) by (rewrite (proj1 (concat_len_eq tsall rows1 L1)); exact Hp).
      symmetry. apply nth_error_None. rewrite map_length. exact Hp. }
  (* condensation *)
  destruct (condense_concat rows1 ([], O)) as [D1 D2].
  destruct (condense_row_spec (concat rows1) [] O []) as [S1 _].
  { unfold StInv. cbn. split; [reflexivity|]. split; [reflexivity | constructor]. }
  cbn [app] in S1.
  assert (FOinj : forall a b, In a (flat tsall) -> In b (flat tsall) -> FO tsall a = FO tsall b -> a = b).
  { intros a b Ha Hb E. unfold FO in E. destruct (zindex_Some a _ Ha) as [p Hp]. destruct (zindex_Some b _ Hb) as [q Hq].
    rewrite Hp, Hq in E. subst q. apply zindex_sound in Hp, Hq. destruct Hp as [Hp _]. destruct Hq as [Hq _]. congruence. }
  assert (Erows : condense rows1 ([], O) = map (fun t => map (lab_of bl) (t_bids t)) tsall).
  { apply rows_eq.
    - rewrite D2, L1. unfold lens. rewrite !map_map. apply map_ext. intros t. rewrite map_length. reflexivity.
    - rewrite D1, S1, C1.
      replace (map (fun t => map (lab_of bl) (t_bids t)) tsall) with (map (map (lab_of bl)) (map t_bids tsall))
        by (rewrite map_map; reflexivity).
      rewrite concat_map_map. fold (flat tsall). rewrite map_map. apply map_ext_in. intros b Hb.
      change (@nil nat) with (map (FO tsall) []).
      rewrite first_occ_map_inj by (intros x y Hx Hy; rewrite app_nil_r in Hx, Hy; apply FOinj; assumption).
      fold bl. unfold idx, lab_of. rewrite nindex_map_inj; [reflexivity|].
      intros a Ha. apply FOinj; [|assumption]. unfold bl in Ha. apply zfirst_occ_spec in Ha. apply Ha. }
  rewrite Erows. reflexivity.
Qed.

(** C07 (a), full: the literal port *)
Theorem contract_einsum_correct {K : Scalar} {L : ScalarLaws K} (n : net) (data : Z -> list nat -> K) v am :
  WF n -> contract_einsum n data = Some (v, am) ->
  exists shp, shape n = Some shp /\ fst (to_full_tensor v am) = shp /\
    forall x, in_range shp x -> snd (to_full_tensor v am) x = defining_sum n data x.
Proof.
  intros W H. unfold contract_einsum in H. rewrite (as_einsum_is_spec n W) in H.
  destruct (as_einsum_spec n) as [E|] eqn:HE; [|discriminate].
  destruct (as_einsum_spec_correct n data W E v am HE H) as [shp [A [_ [B C]]]]. eauto.
Qed.

(* ------------------------------------------------------------------ totality: the virtual tensor is sorted last *)
Section SortLast.
  Variable key : Z -> Z.
  Definition ksorted (l : list Z) : Prop := forall i j a b, (i < j)%nat -> nth_error l i = Some a -> nth_error l j = Some b -> key a <= key b.
  Lemma ksorted_cons x l : ksorted l -> (forall y, In y l -> key x <= key y) -> ksorted (x :: l).
  Proof.
    intros Sl Hx [|i] [|j] a b Hlt Ha Hb; cbn in *; try lia.
    - injection Ha as <-. apply Hx. eapply nth_error_In; eauto.
    - eapply (Sl i j); eauto. lia.
  Qed.
  Lemma ksorted_tail x l : ksorted (x :: l) -> ksorted l /\ forall y, In y l -> key x <= key y.
  Proof.
    intros Sl. split.
    - intros i j a b Hlt Ha Hb. apply (Sl (S i) (S j) a b); [lia | exact Ha | exact Hb].
    - intros y Hy. apply In_nth_error in Hy. destruct Hy as [j Hj]. apply (Sl O (S j) x y); [lia | reflexivity | exact Hj].
  Qed.
  Lemma kinsert_sorted x l : ksorted l -> ksorted (kinsert key x l).
  Proof.
    induction l as [|y l IH]; intros Sl; cbn.
    - intros i j a b Hlt Ha Hb. destruct i as [|i]; destruct j as [|j]; cbn in *; try lia; destruct j; discriminate.
    - destruct (Z.ltb_spec (key x) (key y)).
      + apply ksorted_cons; [assumption|]. intros z [<-|Hz]; [lia|].
        destruct (ksorted_tail _ _ Sl) as [_ T]. specialize (T z Hz). lia.
      + destruct (ksorted_tail _ _ Sl) as [Sl' T]. apply ksorted_cons; [apply IH; assumption|].
        intros z Hz. apply (Permutation_in _ (Permutation_sym (kinsert_perm key x l))) in Hz.
        destruct Hz as [<-|Hz]; [lia | apply T; assumption].
  Qed.
  Lemma ksort_sorted l : ksorted (ksort key l).
  Proof.
    unfold ksort. assert (G : forall acc, ksorted acc -> ksorted (fold_left (fun a x => kinsert key x a) l acc)).
    { induction l as [|x l IH]; intros acc Sa; cbn; [assumption|]. apply IH. apply kinsert_sorted. assumption. }
    apply G. intros i j a b _ Ha. destruct i; discriminate.
  Qed.
  (** the unique element with the strictly largest key is last *)
  Lemma ksorted_last l m : ksorted l -> In m l -> (forall y, In y l -> y <> m -> key y < key m) -> NoDup l -> last l 0 = m.
  Proof.
    intros Sl Hm Hmax ND. destruct l as [|x0 l0]; [destruct Hm|].
    assert (Hne : x0 :: l0 <> []) by discriminate.
    pose proof (app_removelast_last 0 Hne) as E. set (z := last (x0 :: l0) 0) in *.
    destruct (Z.eq_dec z m) as [|Hzm]; [assumption|]. exfalso.
    assert (Hz : In z (x0 :: l0)) by (rewrite E; apply in_or_app; right; left; reflexivity).
    pose proof (Hmax z Hz Hzm) as Hlt.
    rewrite E in Hm. apply in_app_or in Hm. destruct Hm as [Hm|[Hm|[]]]; [|congruence].
    apply In_nth_error in Hm. destruct Hm as [i Hi].
    assert (Hi' : (i < length (removelast (x0 :: l0)))%nat) by (apply nth_error_Some; congruence).
    assert (A : nth_error (x0 :: l0) i = Some m) by (rewrite E, nth_error_app1; assumption).
    assert (B : nth_error (x0 :: l0) (length (removelast (x0 :: l0))) = Some z).
    { rewrite E at 1. rewrite nth_error_app2 by lia. rewrite Nat.sub_diag. reflexivity. }
    pose proof (Sl _ _ _ _ Hi' A B). lia.
  Qed.
End SortLast.

Lemma sorted_tids_last n : WF n -> last (sorted_tids n) 0 = VT.
Proof.
  intros [W0 HV]. unfold sorted_tids. set (keys := dkeys (tensors n)).
  set (key := fun t => if Z.eqb t VT then zmax0 keys + 1 else t).
  apply (ksorted_last key).
  - apply ksort_sorted.
  - eapply Permutation_in; [apply ksort_perm | exact HV].
  - intros y Hy Hne. apply (Permutation_in _ (Permutation_sym (ksort_perm key keys))) in Hy.
    unfold key. rewrite Z.eqb_refl. destruct (Z.eqb_spec y VT); [congruence|].
    pose proof (zmax0_ge keys y Hy). lia.
  - eapply Permutation_NoDup; [apply ksort_perm | apply (wf_ndT n W0)].
Qed.

Lemma omap_dget_keys {V} (d : dict V) l : (forall k, In k l -> In k (dkeys d)) ->
  exists r, omap (fun k => dget k d) l = Some r.
Proof.
  induction l as [|k l IH]; intros H; [exists []; reflexivity|]. cbn.
  destruct (In_key_dget k d (H k (or_introl eq_refl))) as [v ->].
  destruct (IH (fun k' Hk' => H k' (or_intror Hk'))) as [r ->]. eauto.
Qed.

Lemma as_einsum_spec_some n : WF n -> exists E, as_einsum_spec n = Some E.
Proof.
  intros W. unfold as_einsum_spec. rewrite (sorted_tids_last n W), Z.eqb_refl.
  destruct (omap_dget_keys (tensors n) (sorted_tids n)) as [tsall Ots].
  { intros k Hk. eapply Permutation_in; [symmetry; apply ksort_perm | exact Hk]. }
  unfold bond_order. rewrite Ots. cbn [option_map].
  set (ol := last (map _ tsall) []).
  rewrite (omap_total _ (fun i => idx i (first_occ ol []))); [eauto|].
  intros x Hx. unfold idx. destruct (nindex_Some x (first_occ ol [])) as [p ->]; [|reflexivity].
  apply first_occ_spec. split; [assumption | intros []].
Qed.

(** C07 (a), totality: with at least one operand (a tensor or an open axis) contract_einsum answers *)
Theorem contract_einsum_total {K : Scalar} {L : ScalarLaws K} (n : net) (data : Z -> list nat -> K) :
  WF n -> real_tensors n <> [] \/ vbids n <> [] -> exists v am, contract_einsum n data = Some (v, am).
Proof.
  intros W NE. unfold contract_einsum. rewrite (as_einsum_is_spec n W).
  destruct (as_einsum_spec_some n W) as [E HE]. rewrite HE.
  pose proof (as_einsum_spec_total n data W E HE NE) as T.
  destruct (contract_with E n data) as [[v am]|]; [eauto | congruence].
Qed.
