(** Vocabulary and bridge lemmas for the definitions that gen/tn.py regenerates from
    /repo/src/qib/tensor_network/symbolic_network.py on every run (Run.GenTN): the generated
    text uses these names; coq/props/C07.v and C08.v prove the generated closed forms equal to
    (or sufficient for) what the hand model Qib.TN.TNModel / TNValue uses. *)
From Qib Require Export TN.TNProofs TN.TNValue.
Local Open Scope Z_scope.

(** max(l, default=d) *)
Definition zmaxd (d : Z) (l : list Z) : Z :=
  match l with [] => d | x :: r => fold_left Z.max r x end.
Lemma zmaxd_0 l : zmaxd 0 l = zmax0 l.
Proof. reflexivity. Qed.

(** [x for x in l if x not in l[:position of x]]  - every value at its first occurrence *)
Definition keep_first (l : list nat) : list nat := first_occ l [].

(** (tid, ax) in zip(tids[:i], axes[:i]) for some i  <->  the pair list has a repetition *)
Definition pairs_repeat (tids : list Z) (axs : list nat) : bool := negb (no_dup_pairs (combine tids axs)).

(** all(d == dims[0] for d in dims) *)
Lemma forallb_ext_in {A} (f g : A -> bool) l : (forall x, In x l -> f x = g x) -> forallb f l = forallb g l.
Proof.
  induction l as [|a l IH]; intros H; [reflexivity|]. cbn. rewrite (H a (or_introl eq_refl)), IH; [reflexivity|].
  intros x Hx. apply H. right. exact Hx.
Qed.

Lemma all_eq_nat_alt l : all_eq_nat l = forallb (fun d => Nat.eqb d (nth 0 l O)) l.
Proof.
  destruct l as [|x r]; [reflexivity|]. cbn. rewrite Nat.eqb_refl. cbn.
  apply forallb_ext_in. intros d _. apply Nat.eqb_sym.
Qed.
(** decide small boolean (in)equalities between comparison operators on Z and nat *)
Ltac cmp_bool :=
  repeat match goal with
         | |- context [Z.eqb ?a ?b] => destruct (Z.eqb_spec a b)
         | |- context [Z.ltb ?a ?b] => destruct (Z.ltb_spec a b)
         | |- context [Z.leb ?a ?b] => destruct (Z.leb_spec a b)
         | |- context [Z.geb ?a ?b] => rewrite (Z.geb_leb a b)
         | |- context [Z.gtb ?a ?b] => rewrite (Z.gtb_ltb a b)
         | |- context [Nat.eqb ?a ?b] => destruct (Nat.eqb_spec a b)
         | |- context [Nat.ltb ?a ?b] => destruct (Nat.ltb_spec a b)
         | |- context [Nat.leb ?a ?b] => destruct (Nat.leb_spec a b)
         end; cbn; try reflexivity; try lia; try congruence.
