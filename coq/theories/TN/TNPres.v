(** Presentations of network values.  The defining sum of a network only depends on
      - the list of bond keys with their dimensions,
      - the list (bond ids, data reference) of the real tensors,
      - the bond ids of the open axes.
    [psum] is the defining sum of such a presentation; this file proves how it reacts to
    permutations, injective renamings of the bonds, disjoint union (product of the values),
    fusion of two open bonds (a Kronecker delta between the two open axes) and removal of
    open legs (summation over the removed axes).  Used by TNMergeValue.v. *)
From Qib Require Export TN.TNSem.
From Coq Require Import Permutation.
Local Open Scope Z_scope.

Lemma filter_key_single {V} (d : dict V) k v : NoDup (dkeys d) -> In (k, v) d ->
  filter (fun p => Z.eqb (fst p) k) d = [(k, v)].
Proof.
  induction d as [|[k0 v0] d IH]; intros ND Hin; [destruct Hin|]. cbn in ND. inversion ND as [|? ? Hk ND']; subst.
  cbn [filter fst]. destruct Hin as [E|Hin].
  - injection E as -> ->. rewrite Z.eqb_refl. f_equal. apply filter_all_false.
    intros [k1 v1] H1. cbn [fst]. apply Z.eqb_neq. intros ->. apply Hk. apply (in_map fst) in H1. exact H1.
  - destruct (Z.eqb_spec k0 k).
    + subst. exfalso. apply Hk. apply (in_map fst) in Hin. exact Hin.
    + apply IH; assumption.
Qed.

Section Pres.
  Context {K : Scalar} {L : ScalarLaws K}.
  Local Open Scope K_scope.
  Add Ring KringPres : (s_ring K L).

  Notation ksumZ := (ksum (K:=K) Z.eqb).
  Notation ksumN := (ksum (K:=K) Nat.eqb).
  Notation z0 := (fun _ : Z => O).

  (** product of the entries of the real tensors under the bond assignment [s] *)
  Definition rprod (R : list (list Z * Z)) (data : Z -> list nat -> K) (s : Z -> nat) : K :=
    lprod (map (fun p => data (snd p) (map s (fst p))) R).

  Definition psum (kd : list (Z * nat)) (R : list (list Z * Z)) (vb : list Z)
             (data : Z -> list nat -> K) (x : list nat) : K :=
    ksumZ kd (fun s => rprod R data s * deltas x vb s) z0.

  Lemma rprod_ext R data s s' : (forall p b, In p R -> In b (fst p) -> s b = s' b) ->
    rprod R data s = rprod R data s'.
  Proof.
    intros H. unfold rprod. apply lprod_map_ext. intros p Hp. f_equal. apply map_ext_in. intros b Hb.
    eapply H; eauto.
  Qed.
  Lemma rprod_app R1 R2 data s : rprod (R1 ++ R2) data s = rprod R1 data s * rprod R2 data s.
  Proof. unfold rprod. rewrite map_app. apply lprod_app. Qed.
  Lemma rprod_perm R R' data s : Permutation R R' -> rprod R data s = rprod R' data s.
  Proof. intros P. unfold rprod. apply lprod_perm. apply Permutation_map. exact P. Qed.

  Lemma resp_integrand R vb data x : resp (fun s => rprod R data s * deltas x vb s).
  Proof.
    intros e e' H. f_equal; [apply rprod_ext; intros; apply H | apply deltas_ext; intros; apply H].
  Qed.

  Lemma psum_perm kd kd' R R' vb data x : Permutation kd kd' -> NoDup (map fst kd) -> Permutation R R' ->
    psum kd R vb data x = psum kd' R' vb data x.
  Proof.
    intros Pk ND PR. unfold psum.
    rewrite (ksum_perm Z.eqb zeqb_eq kd kd' _ Pk ND (resp_integrand R vb data x)).
    apply (ksum_ext Z.eqb zeqb_eq).
    - eapply Permutation_NoDup; [apply Permutation_map; exact Pk | exact ND].
    - intros s _. f_equal. apply rprod_perm. exact PR.
  Qed.

  (** injective renaming of the bond ids *)
  Lemma psum_rename (rho : Z -> Z) kd R vb data x :
    (forall a b, In a (map fst kd) -> In b (map fst kd) -> rho a = rho b -> a = b) ->
    (forall p b, In p R -> In b (fst p) -> In b (map fst kd)) ->
    (forall b, In b vb -> In b (map fst kd)) ->
    psum (map (fun p => (rho (fst p), snd p)) kd) (map (fun p => (map rho (fst p), snd p)) R) (map rho vb) data x
    = psum kd R vb data x.
  Proof.
    intros Inj HR Hvb. unfold psum.
    set (Rel := fun (s' s : Z -> nat) => forall b, In b (map fst kd) -> s' (rho b) = s b).
    apply (ksum_rel Z.eqb Z.eqb Rel).
    - assert (G : forall l, (forall k, In k (map fst l) -> In k (map fst kd)) ->
                Forall2 (fun p q : Z * nat => snd p = snd q /\
                          forall e1 e2 v, Rel e1 e2 -> Rel (upd Z.eqb e1 (fst p) v) (upd Z.eqb e2 (fst q) v))
                        (map (fun p => (rho (fst p), snd p)) l) l).
      { induction l as [|[k d] l IH]; intros Sub; cbn [map]; constructor.
        - cbn [fst snd]. split; [reflexivity|]. intros e1 e2 v HRel b Hb. unfold upd.
          destruct (Z.eqb_spec b k).
          + subst. rewrite Z.eqb_refl. reflexivity.
          + destruct (Z.eqb_spec (rho b) (rho k)) as [E|E]; [|apply HRel; exact Hb].
            exfalso. apply n. apply Inj; [exact Hb | apply Sub; left; reflexivity | exact E].
        - apply IH. intros k' Hk'. apply Sub. right. exact Hk'. }
      apply G. auto.
    - intros s' s HRel. f_equal.
      + unfold rprod. rewrite map_map. apply lprod_map_ext. intros p Hp. cbn [fst snd]. f_equal.
        rewrite map_map. apply map_ext_in. intros b Hb. apply HRel. eapply HR; eauto.
      + apply deltas_map_rel. clear - HRel Hvb. induction vb as [|b vb' IH]; cbn [map]; constructor.
        * apply HRel. apply Hvb. left. reflexivity.
        * apply IH. intros b' Hb'. apply Hvb. right. exact Hb'.
    - intros b _. reflexivity.
  Qed.

  (* ---------------------------------------------------------------- disjoint union *)
  Lemma deltas_app x1 x2 vb1 vb2 (s : Z -> nat) : length x1 = length vb1 ->
    deltas (K:=K) (x1 ++ x2) (vb1 ++ vb2) s = deltas x1 vb1 s * deltas x2 vb2 s.
  Proof.
    revert vb1. induction x1 as [|a x1 IH]; intros [|b vb1] H; cbn in H; try discriminate.
    - cbn [app deltas]. ring.
    - cbn [app deltas]. rewrite IH by lia. ring.
  Qed.

  Lemma psum_mul kd1 kd2 R1 R2 vb1 vb2 data x1 x2 :
    NoDup (map fst kd1 ++ map fst kd2) ->
    (forall p b, In p R1 -> In b (fst p) -> In b (map fst kd1)) -> (forall b, In b vb1 -> In b (map fst kd1)) ->
    (forall p b, In p R2 -> In b (fst p) -> In b (map fst kd2)) -> (forall b, In b vb2 -> In b (map fst kd2)) ->
    length x1 = length vb1 ->
    psum (kd1 ++ kd2) (R1 ++ R2) (vb1 ++ vb2) data (x1 ++ x2) = psum kd1 R1 vb1 data x1 * psum kd2 R2 vb2 data x2.
  Proof.
    intros ND H1 V1 H2 V2 Lx. unfold psum. rewrite (ksum_mul kd1 kd2).
    - apply (ksum_ext Z.eqb zeqb_eq); [rewrite map_app; exact ND|]. intros s _.
      rewrite rprod_app, deltas_app by assumption. ring.
    - exact ND.
    - intros s s' H. f_equal; [apply rprod_ext; intros; apply H; eapply H1; eauto | apply deltas_ext; intros; apply H; auto].
    - intros s s' H. f_equal; [apply rprod_ext; intros; apply H; eapply H2; eauto | apply deltas_ext; intros; apply H; auto].
  Qed.

  (* ---------------------------------------------------------------- fusion of two open bonds *)
  Lemma delta_sym a b : delta (K:=K) a b = delta b a.
  Proof. unfold delta. rewrite Nat.eqb_sym. reflexivity. Qed.

  Lemma deltas_pair x vb (s : Z -> nat) a c b1 b2 : length x = length vb ->
    nth_error vb a = Some b1 -> nth_error vb c = Some b2 ->
    delta (nth a x O) (nth c x O) * deltas (K:=K) x vb s = deltas x vb s * delta (s b1) (s b2).
  Proof.
    intros Lx Ha Hc.
    assert (Xa : nth_error x a = Some (nth a x O)) by (apply nth_error_nth'; rewrite Lx; apply nth_error_Some; congruence).
    assert (Xc : nth_error x c = Some (nth c x O)) by (apply nth_error_nth'; rewrite Lx; apply nth_error_Some; congruence).
    destruct (Nat.eq_dec (nth a x O) (s b1)) as [Ea|Ea].
    2:{ rewrite (deltas_zero x vb s a b1 _ Ha Xa Ea). ring. }
    destruct (Nat.eq_dec (nth c x O) (s b2)) as [Ec|Ec].
    2:{ rewrite (deltas_zero x vb s c b2 _ Hc Xc Ec). ring. }
    rewrite Ea, Ec. ring.
  Qed.

  Lemma psum_fuse kd R vb data x b1 b2 d a c :
    NoDup (map fst kd) -> In (b1, d) kd -> In (b2, d) kd -> b1 <> b2 ->
    nth_error vb a = Some b1 -> nth_error vb c = Some b2 -> length x = length vb ->
    psum (filter (fun p => negb (Z.eqb (fst p) b2)) kd)
         (map (fun p => (zreplace b2 b1 (fst p), snd p)) R) (zreplace b2 b1 vb) data x
    = delta (nth a x O) (nth c x O) * psum kd R vb data x.
  Proof.
    intros ND H1 H2 Hne Ha Hc Lx. unfold psum.
    set (H := fun s : Z -> nat => rprod R data s * deltas x vb s).
    set (kd' := filter (fun p => negb (Z.eqb (fst p) b2)) kd).
    assert (RH : resp (fun s => H s * delta (s b1) (s b2))).
    { intros e e' He. unfold H. rewrite !He. f_equal. apply (resp_integrand R vb data x). exact He. }
    rewrite <- ksum_scal.
    rewrite (ksum_ext Z.eqb zeqb_eq kd _ (fun s => H s * delta (s b1) (s b2)) z0 ND).
    2:{ intros s _. unfold H.
        transitivity (rprod R data s * (delta (nth a x O) (nth c x O) * deltas x vb s)); [ring|].
        rewrite (deltas_pair x vb s a c b1 b2 Lx Ha Hc). ring. }
    rewrite (ksum_perm Z.eqb zeqb_eq kd (kd' ++ [(b2, d)]) _).
    2:{ eapply Permutation_trans; [apply (filter_partition_perm (fun p : Z * nat => Z.eqb (fst p) b2))|].
        fold kd'. apply Permutation_app_head.
        rewrite (filter_key_single kd b2 d ND H2). reflexivity. }
    2:{ exact ND. }
    2:{ exact RH. }
    rewrite ksum_app.
    assert (ND' : NoDup (map fst kd')).
    { unfold kd'. clear - ND. induction kd as [|[k0 d0] kd IH]; [constructor|]. cbn in ND. inversion ND; subst.
      cbn [filter fst]. destruct (negb (k0 =? b2)%Z); [|apply IH; assumption].
      cbn [map fst]. constructor; [|apply IH; assumption]. intros Hin. apply H1.
      apply in_map_iff in Hin. destruct Hin as [p [E Hp]]. apply filter_In in Hp. apply in_map_iff. exists p. tauto. }
    apply (ksum_ext Z.eqb zeqb_eq); [exact ND'|]. intros s [_ Rg].
    assert (Hr : (s b1 < d)%nat).
    { apply Rg. unfold kd'. apply filter_In. split; [exact H1|]. cbn [fst]. apply negb_true_iff, Z.eqb_neq. exact Hne. }
    cbn [ksum]. rewrite (lsum_map_single _ _ (s b1)).
    - unfold upd at 2 3. rewrite Z.eqb_refl. destruct (Z.eqb_spec b1 b2); [contradiction|].
      rewrite delta_eq, kmul_1_r. unfold H. f_equal.
      + unfold rprod. rewrite map_map. apply lprod_map_ext. intros p _. cbn [fst snd]. f_equal.
        unfold zreplace. rewrite map_map. apply map_ext. intros b. unfold upd. destruct (Z.eqb b b2); reflexivity.
      + symmetry. apply deltas_map_rel. unfold zreplace. clear. induction vb as [|b vb' IH]; cbn [map]; constructor; [|exact IH].
        unfold upd. destruct (Z.eqb b b2); reflexivity.
    - apply seq_NoDup.
    - apply in_seq. lia.
    - intros v _ Hv. unfold upd at 2 3. rewrite Z.eqb_refl. destruct (Z.eqb_spec b1 b2); [contradiction|].
      rewrite delta_neq by congruence. ring.
  Qed.

  Lemma ksum_ext_all kd (F G : (Z -> nat) -> K) : (forall s, F s = G s) -> forall e, ksumZ kd F e = ksumZ kd G e.
  Proof.
    intros H. induction kd as [|[k d] kd IH]; intros e; cbn [ksum]; [apply H|].
    apply lsum_map_ext. intros v _. apply IH.
  Qed.

  (** the two open axes sit on the same bond already *)
  Lemma psum_same_bond kd R vb data x b a c :
    nth_error vb a = Some b -> nth_error vb c = Some b -> length x = length vb ->
    psum kd R vb data x = delta (nth a x O) (nth c x O) * psum kd R vb data x.
  Proof.
    intros Ha Hc Lx. unfold psum. rewrite <- ksum_scal. apply ksum_ext_all. intros s.
    transitivity (rprod R data s * (delta (nth a x O) (nth c x O) * deltas x vb s)); [|ring].
    rewrite (deltas_pair x vb s a c b b Lx Ha Hc), delta_eq. ring.
  Qed.

  (* ---------------------------------------------------------------- removal of open legs *)
  Lemma deltas_map2 {A} (f : A -> nat) (g : A -> Z) (s : Z -> nat) l :
    deltas (K:=K) (map f l) (map g l) s = lprod (map (fun j => delta (f j) (s (g j))) l).
  Proof. induction l as [|j l IH]; [reflexivity|]. cbn [map deltas]. rewrite lprod_cons, IH. reflexivity. Qed.

  Lemma lprod_pull (f : nat -> K) l d : NoDup l -> In d l ->
    lprod (map f l) = f d * lprod (map f (filter (fun j => negb (Nat.eqb j d)) l)).
  Proof.
    induction l as [|j l IH]; intros ND Hin; [destruct Hin|]. inversion ND as [|? ? Hj ND']; subst.
    cbn [map filter]. rewrite lprod_cons. destruct (Nat.eqb_spec j d).
    - subst. cbn [negb]. rewrite filter_all_true; [reflexivity|].
      intros y Hy. apply negb_true_iff, Nat.eqb_neq. intros ->. contradiction.
    - cbn [negb map]. rewrite lprod_cons. destruct Hin as [E|Hin]; [contradiction|].
      rewrite (IH ND' Hin). ring.
  Qed.

  (** summing a product of deltas over the indices of the positions in [del] removes them *)
  Lemma del_sum (g dimf : nat -> nat) l : NoDup l -> forall del e0, NoDup del ->
    (forall d, In d del -> In d l /\ (g d < dimf d)%nat) ->
    ksumN (map (fun d => (d, dimf d)) del) (fun e => lprod (map (fun j => delta (e j) (g j)) l)) e0
    = lprod (map (fun j => delta (e0 j) (g j)) (filter (fun j => negb (nmem j del)) l)).
  Proof.
    intros NDl. induction del as [|d del IH]; intros e0 ND H.
    - cbn [map ksum]. rewrite filter_all_true; [reflexivity | reflexivity].
    - inversion ND as [|? ? Hd ND']; subst. cbn [map ksum].
      destruct (H d (or_introl eq_refl)) as [Hdl Hdr].
      set (l' := filter (fun j => negb (nmem j del)) l).
      assert (Hdl' : In d l') by (apply filter_In; split; [exact Hdl | apply negb_true_iff, nmem_false; exact Hd]).
      assert (NDl' : NoDup l') by (apply NoDup_filter; exact NDl).
      set (P := lprod (map (fun j => delta (K:=K) (e0 j) (g j)) (filter (fun j => negb (Nat.eqb j d)) l'))).
      transitivity (lsum (map (fun v => delta (K:=K) v (g d) * P) (seq 0 (dimf d)))).
      + apply lsum_map_ext. intros v _. rewrite IH; [|assumption | intros d' Hd'; apply H; right; exact Hd'].
        fold l'. rewrite (lprod_pull _ l' d NDl' Hdl'). rewrite upd_same by apply neqb_eq. f_equal.
        unfold P. apply lprod_map_ext. intros j Hj. apply filter_In in Hj. destruct Hj as [_ Hj].
        apply negb_true_iff, Nat.eqb_neq in Hj. rewrite upd_other by (auto; apply neqb_eq). reflexivity.
      + rewrite (lsum_map_single _ _ (g d)).
        * rewrite delta_eq, kmul_1_l. unfold P, l'. rewrite filter_filter. f_equal. f_equal. apply filter_ext.
          intros j. cbn [nmem existsb]. rewrite negb_orb. fold (nmem j del). apply andb_comm.
        * apply seq_NoDup.
        * apply in_seq. lia.
        * intros v _ Hv. rewrite delta_neq by exact Hv. ring.
  Qed.

  Lemma psum_drop kd R vb data (del : list nat) (dimf : nat -> nat) (e0 : nat -> nat) :
    NoDup (map fst kd) -> NoDup del ->
    (forall d, In d del -> (d < length vb)%nat /\ In (nth d vb 0%Z, dimf d) kd) ->
    let keep := filter (fun i => negb (nmem i del)) (seq 0 (length vb)) in
    ksumN (map (fun d => (d, dimf d)) del) (fun e => psum kd R vb data (map e (seq 0 (length vb)))) e0
    = psum kd R (map (fun i => nth i vb 0%Z) keep) data (map e0 keep).
  Proof.
    intros ND NDd Hd keep. unfold psum.
    rewrite (ksum_fubini (map (fun d => (d, dimf d)) del) kd
               (fun e s => rprod R data s * deltas (map e (seq 0 (length vb))) vb s) z0 e0).
    apply (ksum_ext Z.eqb zeqb_eq); [exact ND|]. intros s [_ Rg].
    rewrite (ksum_scal Nat.eqb). f_equal.
    rewrite deltas_map2. unfold keep.
    rewrite <- (del_sum (fun j => s (nth j vb 0%Z)) dimf (seq 0 (length vb)) (seq_NoDup _ _) del e0 NDd).
    - apply (ksum_ext Nat.eqb neqb_eq).
      + rewrite map_map. cbn [fst]. rewrite map_id. exact NDd.
      + intros e _. rewrite <- (map_nth_seq vb 0%Z) at 2. apply deltas_map2.
    - intros d Hdd. destruct (Hd d Hdd) as [A B]. split; [apply in_seq; lia|]. apply (Rg _ _ B).
  Qed.
End Pres.
