(** The incidence invariant implies the library's own consistency check:
    WF n -> is_consistent n = true. *)
From Qib Require Export TN.TNMerge.
Local Open Scope Z_scope.

(* ------------------------------------------------------------------ find_leg *)
Lemma find_leg_some bid bids : forall j off, (j < zcount bid bids)%nat ->
  exists ax, find_leg bid bids j off = Some ax.
Proof.
  induction bids as [|b r IH]; intros j off H; [cbn in H; lia|].
  rewrite zcount_cons in H. cbn [find_leg]. rewrite Z.eqb_sym.
  destruct (Z.eqb bid b).
  - destruct j; [eexists; reflexivity|]. apply IH. lia.
  - apply IH. lia.
Qed.
Lemma find_leg_sound bid bids : forall j off ax, find_leg bid bids j off = Some ax ->
  (off <= ax)%nat /\ nth_error bids (ax - off) = Some bid.
Proof.
  induction bids as [|b r IH]; intros j off ax H; [discriminate|]. cbn [find_leg] in H.
  destruct (Z.eqb_spec b bid).
  - destruct j.
    + injection H as <-. rewrite Nat.sub_diag. subst. auto.
    + destruct (IH _ _ _ H) as [A B]. split; [lia|].
      replace (ax - off)%nat with (S (ax - S off)) by lia. exact B.
  - destruct (IH _ _ _ H) as [A B]. split; [lia|].
    replace (ax - off)%nat with (S (ax - S off)) by lia. exact B.
Qed.
Lemma find_leg_mono bid bids : forall j1 j2 off a1 a2, (j1 < j2)%nat ->
  find_leg bid bids j1 off = Some a1 -> find_leg bid bids j2 off = Some a2 -> (a1 < a2)%nat.
Proof.
  induction bids as [|b r IH]; intros j1 j2 off a1 a2 Hlt H1 H2; [discriminate|]. cbn [find_leg] in H1, H2.
  destruct (Z.eqb b bid).
  - destruct j2; [lia|]. destruct j1.
    + injection H1 as <-. apply find_leg_sound in H2. lia.
    + eapply IH; [|exact H1|exact H2]. lia.
  - eapply IH; eauto.
Qed.

(* ------------------------------------------------------------------ get_bond_axes *)
Lemma bond_axes_aux_spec T bid : forall rest seen,
  (forall tid, In tid rest -> exists t, dget tid T = Some t /\ (zcount tid (seen ++ rest) <= zcount bid (t_bids t))%nat) ->
  exists axs, bond_axes_aux T bid seen rest = Some axs /\ length axs = length rest /\
    forall i tid ax, nth_error rest i = Some tid -> nth_error axs i = Some ax ->
      exists t, dget tid T = Some t /\ find_leg bid (t_bids t) (zcount tid (seen ++ firstn i rest)) O = Some ax.
Proof.
  induction rest as [|tid rest IH]; intros seen H.
  - exists []. split; [reflexivity|]. split; [reflexivity|]. intros [|i] ? ? E; discriminate.
  - cbn [bond_axes_aux]. destruct (H tid (or_introl eq_refl)) as [t [Ht Hc]]. rewrite Ht.
    destruct (find_leg_some bid (t_bids t) (zcount tid seen) O) as [ax Hax].
    { rewrite zcount_app, zcount_cons, Z.eqb_refl in Hc. lia. }
    rewrite Hax.
    destruct (IH (seen ++ [tid])) as [axs [E [L S]]].
    { intros tid' Hin. destruct (H tid' (or_intror Hin)) as [t' [Ht' Hc']]. exists t'. split; [assumption|].
      rewrite <- app_assoc. exact Hc'. }
    rewrite E. exists (ax :: axs). split; [reflexivity|]. split; [cbn; lia|].
    intros [|i] tid' ax' E1 E2; cbn in E1, E2.
    + injection E1 as <-. injection E2 as <-. exists t. split; [assumption|]. cbn [firstn]. rewrite app_nil_r. exact Hax.
    + destruct (S i tid' ax' E1 E2) as [t' [Ht' F]]. exists t'. split; [assumption|].
      cbn [firstn]. rewrite <- app_assoc in F. exact F.
Qed.

Lemma no_dup_pairs_NoDup l : NoDup l -> no_dup_pairs l = true.
Proof.
  induction 1 as [|[a b] l Hx ND IH]; [reflexivity|]. cbn [no_dup_pairs]. rewrite IH, andb_true_r.
  apply negb_true_iff. apply not_true_is_false. intros E. apply existsb_exists in E.
  destruct E as [[a' b'] [Hin E]]. cbn in E. apply andb_true_iff in E. destruct E as [E1 E2].
  apply Z.eqb_eq in E1. apply Nat.eqb_eq in E2. subst. contradiction.
Qed.

Lemma all_eq_nat_const l d : (forall x, In x l -> x = d) -> all_eq_nat l = true.
Proof.
  intros H. destruct l as [|x l]; [reflexivity|]. cbn. apply forallb_forall. intros y Hy.
  apply Nat.eqb_eq. rewrite (H x (or_introl eq_refl)), (H y (or_intror Hy)). reflexivity.
Qed.

Lemma zcount_firstn_lt tid l i i' : (i < i')%nat -> nth_error l i = Some tid ->
  (zcount tid (firstn i l) < zcount tid (firstn i' l))%nat.
Proof.
  revert i i'. induction l as [|x l IH]; intros i i' Hlt Hn; [destruct i; discriminate|].
  destruct i' as [|i']; [lia|]. destruct i as [|i]; cbn [firstn].
  - cbn in Hn. injection Hn as ->. rewrite zcount_cons, Z.eqb_refl. cbn. lia.
  - cbn in Hn. rewrite !zcount_cons. specialize (IH i i' ltac:(lia) Hn). lia.
Qed.

Theorem WF_is_consistent n : WF n -> is_consistent n = true.
Proof.
  intros [W HV]. unfold is_consistent. rewrite !andb_true_iff. split; [split|].
  - apply dhas_In. exact HV.
  - apply forallb_forall. intros [k t] Hin. unfold tensor_ok.
    destruct (wf_T n W k t Hin) as [Hid _]. rewrite andb_true_iff. split; [apply Z.eqb_eq; congruence|].
    apply forallb_forall. intros bid Hb.
    destruct (In_key_dget bid (bonds n) (wf_bids_exist n k t bid W Hin Hb)) as [b Eb]. rewrite Eb.
    apply Nat.eqb_eq. pose proof (wf_inc n W k bid) as I. unfold cntT, cntB in I.
    rewrite (In_dget _ _ _ (wf_ndT n W) Hin), Eb in I. rewrite Hid. symmetry. exact I.
  - apply forallb_forall. intros [kb b] Hin. unfold bond_ok.
    destruct (wf_B n W kb b Hin) as [Hid Hlen].
    pose proof (In_dget _ _ _ (wf_ndB n W) Hin) as Eb.
    rewrite !andb_true_iff. split; [split; [apply Z.eqb_eq; congruence | apply Nat.leb_le; assumption]|].
    unfold get_bond_axes. rewrite Hid, Eb, Hid, Z.eqb_refl.
    destruct (bond_axes_aux_spec (tensors n) kb (b_tids b) []) as [axs [E [L S]]].
    { intros tid Ht. destruct (In_key_dget tid (tensors n) (wf_tids_exist n kb b tid W Hin Ht)) as [t Et].
      exists t. split; [assumption|]. cbn [app].
      pose proof (wf_inc n W tid kb) as I. unfold cntT, cntB in I. rewrite Et, Eb in I. lia. }
    rewrite E.
    assert (Leg : forall tid ax, In (tid, ax) (combine (b_tids b) axs) ->
                  exists t, dget tid (tensors n) = Some t /\ nth_error (t_bids t) ax = Some kb).
    { intros tid ax Hp. apply In_nth_error in Hp. destruct Hp as [i Hi].
      assert (A : nth_error (b_tids b) i = Some tid /\ nth_error axs i = Some ax).
      { clear - Hi. revert axs i Hi. generalize (b_tids b). induction l as [|x l IH]; intros [|y axs] [|i] H; cbn in *; try discriminate.
        - injection H as -> ->. auto.
        - apply IH. exact H. }
      destruct A as [A1 A2]. destruct (S i tid ax A1 A2) as [t [Et F]]. exists t. split; [assumption|].
      apply find_leg_sound in F. rewrite Nat.sub_0_r in F. apply F. }
    rewrite !andb_true_iff. split; [split|].
    + apply no_dup_pairs_NoDup. apply NoDup_nth_error. intros i i' Hi Heq.
      destruct (nth_error (combine (b_tids b) axs) i) as [[tid ax]|] eqn:Ei; [|apply nth_error_None in Ei; lia].
      symmetry in Heq.
      assert (A : forall i tid ax, nth_error (combine (b_tids b) axs) i = Some (tid, ax) ->
                  nth_error (b_tids b) i = Some tid /\ nth_error axs i = Some ax).
      { clear. generalize (b_tids b). intros l. revert axs. induction l as [|x l IH]; intros [|y axs] [|i] tid ax H; cbn in *; try discriminate.
        - injection H as -> ->. auto.
        - apply IH. exact H. }
      destruct (A _ _ _ Ei) as [A1 A2]. destruct (A _ _ _ Heq) as [B1 B2].
      destruct (S i tid ax A1 A2) as [t [Et F]]. destruct (S i' tid ax B1 B2) as [t' [Et' F']].
      assert (t' = t) by congruence. subst t'. cbn [app] in F, F'.
      destruct (Nat.lt_trichotomy i i') as [Hlt|[->|Hgt]]; [|reflexivity|]; exfalso.
      * pose proof (zcount_firstn_lt tid (b_tids b) i i' Hlt A1) as Z1.
        pose proof (find_leg_mono _ _ _ _ _ _ _ Z1 F F'). lia.
      * pose proof (zcount_firstn_lt tid (b_tids b) i' i Hgt B1) as Z1.
        pose proof (find_leg_mono _ _ _ _ _ _ _ Z1 F' F). lia.
    + apply forallb_forall. intros [tid ax] Hp. destruct (Leg tid ax Hp) as [t [Et Hn]]. cbn [fst snd].
      rewrite Et. rewrite andb_true_iff. split.
      * apply Nat.ltb_lt. apply nth_error_Some. congruence.
      * apply Z.eqb_eq. apply nth_error_nth with (d := 0) in Hn. congruence.
    + destruct (wf_dim n W kb) as [d Hd]. apply (all_eq_nat_const _ d). intros x Hx.
      apply in_map_iff in Hx. destruct Hx as [[tid ax] [<- Hp]]. destruct (Leg tid ax Hp) as [t [Et Hn]].
      cbn [fst snd]. rewrite Et. specialize (Hd tid t ax (dget_In _ _ _ Et) Hn).
      apply nth_error_nth with (d := O) in Hd. exact Hd.
Qed.
