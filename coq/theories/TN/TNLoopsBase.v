(** Vocabulary and list / dictionary lemmas for the statement-by-statement translation of the loops of
    SymbolicTensorNetwork (gen/tnloops.py -> Run.GenTNLoops): field setters the generated text uses, and the
    facts that connect a literal Python loop
        for i in range(len(l)):  if l[i] == a: l[i] = c
    with the closed form [zreplace a c l] of the hand model (TNModel).  All lemmas are unconditional (no
    well-formedness hypothesis): the bridge  gen_merge = TNModel.merge  holds for every argument. *)
From Qib Require Export TN.TNGenBase.
Local Open Scope Z_scope.

Definition set_shape (t : tensor) (s : list nat) : tensor := mkT (t_id t) s (t_bids t) (t_ref t).
Definition set_bid (b : bond) (c : Z) : bond := mkB c (b_tids b).

(* ------------------------------------------------------------------ ofold *)
Lemma ofold_ext {A B} (f g : B -> A -> option B) l :
  (forall b x, f b x = g b x) -> forall b, ofold f l b = ofold g l b.
Proof.
  intros H. induction l as [|x l IH]; intros b; [reflexivity|]. cbn. rewrite H.
  destruct (g b x); [apply IH | reflexivity].
Qed.

(* ------------------------------------------------------------------ the replace loop *)
(** one iteration of  `if l[i] == a: l[i] = c` *)
Definition rstep (a c : Z) (l : list Z) (i : nat) : list Z :=
  if Z.eqb (nth i l 0) a then set_nth i c l else l.

Lemma set_nth_app {A} (pre : list A) x v s : set_nth (length pre) v (pre ++ x :: s) = pre ++ v :: s.
Proof. induction pre as [|p pre IH]; cbn; [reflexivity|]. rewrite IH. reflexivity. Qed.

Lemma nth_app_here (pre : list Z) x s : nth (length pre) (pre ++ x :: s) 0 = x.
Proof. induction pre as [|p pre IH]; cbn; [reflexivity | exact IH]. Qed.

Lemma rstep_fold_from a c : forall suf pre,
  fold_left (rstep a c) (seq (length pre) (length suf)) (pre ++ suf) = pre ++ zreplace a c suf.
Proof.
  induction suf as [|x s IH]; intros pre; [reflexivity|].
  cbn [length seq fold_left]. unfold rstep at 2. rewrite nth_app_here, set_nth_app.
  replace (S (length pre)) with (length (pre ++ [if Z.eqb x a then c else x])) by (rewrite app_length; cbn; lia).
  destruct (Z.eqb x a) eqn:E.
  - replace (pre ++ c :: s) with ((pre ++ [c]) ++ s) by (rewrite <- app_assoc; reflexivity).
    rewrite IH. rewrite <- app_assoc. cbn. rewrite E. reflexivity.
  - replace (pre ++ x :: s) with ((pre ++ [x]) ++ s) by (rewrite <- app_assoc; reflexivity).
    rewrite IH. rewrite <- app_assoc. cbn. rewrite E. reflexivity.
Qed.

Lemma rstep_fold a c l : fold_left (rstep a c) (seq 0 (length l)) l = zreplace a c l.
Proof. exact (rstep_fold_from a c l []). Qed.

(** the loop as it is generated: the state is the bond / tensor object *)
Lemma replace_loop_bond a c : forall idx (b : bond),
  ofold (fun vb i =>
           match (if Z.eqb (nth i (b_tids vb) 0) a
                  then let vb := set_btids vb (set_nth i c (b_tids vb)) in Some vb
                  else Some vb) with None => None | Some vb => Some vb end) idx b
  = Some (set_btids b (fold_left (rstep a c) idx (b_tids b))).
Proof.
  induction idx as [|i idx IH]; intros [id l]; [reflexivity|].
  cbn [ofold]. cbn [b_tids set_btids b_id fold_left]. unfold rstep at 2.
  destruct (Z.eqb (nth i l 0) a); cbn zeta; rewrite IH; reflexivity.
Qed.

Lemma replace_loop_tensor a c : forall idx (t : tensor),
  ofold (fun vt i =>
           match (if Z.eqb (nth i (t_bids vt) 0) a
                  then let vt := set_bids vt (set_nth i c (t_bids vt)) in Some vt
                  else Some vt) with None => None | Some vt => Some vt end) idx t
  = Some (set_bids t (fold_left (rstep a c) idx (t_bids t))).
Proof.
  induction idx as [|i idx IH]; intros [id sh l rf]; [reflexivity|].
  cbn [ofold]. cbn [t_bids set_bids t_id t_shape t_ref fold_left]. unfold rstep at 2.
  destruct (Z.eqb (nth i l 0) a); cbn zeta; rewrite IH; reflexivity.
Qed.

(* ------------------------------------------------------------------ dictionaries, without NoDup *)
Section DictMore.
  Context {V : Type}.
  Lemma dget_dpop_neq (k k' : Z) (d : dict V) : k' <> k -> dget k' (dpop k d) = dget k' d.
  Proof.
    intros N. induction d as [|[k2 v2] d IH]; [reflexivity|]. cbn.
    destruct (Z.eqb_spec k k2).
    - subst. destruct (Z.eqb_spec k' k2); [contradiction | reflexivity].
    - cbn. destruct (Z.eqb k' k2); [reflexivity | exact IH].
  Qed.
  Lemma dkeys_dpop_sub (k x : Z) (d : dict V) : In x (dkeys (dpop k d)) -> In x (dkeys d).
  Proof.
    induction d as [|[k2 v2] d IH]; [intros []|]. cbn.
    destruct (Z.eqb k k2); [intros H; right; exact H|]. cbn. intros [H|H]; [left; exact H | right; apply IH; exact H].
  Qed.
  Lemma dset_dpop_new (a c : Z) (v : V) (d : dict V) : dhas c d = false -> dset c v (dpop a d) = dpop a d ++ [(c, v)].
  Proof. intros H. apply dset_new. intros E. apply dkeys_dpop_sub in E. apply dhas_false in H. contradiction. Qed.
  Lemma dkeys_dset_get (k : Z) (v v0 : V) (d : dict V) : dget k d = Some v0 -> dkeys (dset k v d) = dkeys d.
  Proof. intros H. apply dkeys_dset_in. eapply dget_Some_key; eauto. Qed.
End DictMore.

(** the two update loops keep the keys of the dictionary they update *)
Lemma retid_fold_keys a c : forall l B B', ofold (retid_step a c) l B = Some B' -> dkeys B' = dkeys B.
Proof.
  induction l as [|x l IH]; intros B B' H; [cbn in H; injection H as <-; reflexivity|]. cbn [ofold] in H.
  destruct (retid_step a c B x) as [B1|] eqn:E1; [|discriminate]. unfold retid_step in E1.
  destruct (dget x B) as [b|] eqn:E; [|discriminate]. injection E1 as <-. apply IH in H. rewrite H. eapply dkeys_dset_get; eauto.
Qed.
Lemma rebid_fold_keys a c : forall l T T', ofold (rebid_step a c) l T = Some T' -> dkeys T' = dkeys T.
Proof.
  induction l as [|x l IH]; intros T T' H; [cbn in H; injection H as <-; reflexivity|]. cbn [ofold] in H.
  destruct (rebid_step a c T x) as [T1|] eqn:E1; [|discriminate]. unfold rebid_step in E1.
  destruct (dget x T) as [t|] eqn:E; [|discriminate]. injection E1 as <-. apply IH in H. rewrite H. eapply dkeys_dset_get; eauto.
Qed.
(** ... and the shape of every tensor *)
Lemma rebid_fold_shape a c k : forall l T T', ofold (rebid_step a c) l T = Some T' ->
  option_map t_shape (dget k T') = option_map t_shape (dget k T).
Proof.
  induction l as [|x l IH]; intros T T' H; [cbn in H; injection H as <-; reflexivity|]. cbn [ofold] in H.
  destruct (rebid_step a c T x) as [T1|] eqn:E1; [|discriminate]. unfold rebid_step in E1.
  destruct (dget x T) as [t|] eqn:E; [|discriminate]. injection E1 as <-. apply IH in H. rewrite H, dget_dset.
  destruct (Z.eqb_spec k x); [subst; rewrite E; reflexivity | reflexivity].
Qed.

Lemma nmem_nremove1 x l : nmem x l = true -> exists l', nremove1 x l = Some l'.
Proof.
  induction l as [|y l IH]; [discriminate|]. cbn. destruct (Nat.eqb_spec y x) as [->|N]; [eauto|].
  destruct (Nat.eqb_spec x y); [congruence|]. cbn. intros H. destruct (IH H) as [l' ->]. cbn. eauto.
Qed.
Lemma nmem_false_nremove1 x l : nmem x l = false -> nremove1 x l = None.
Proof.
  induction l as [|y l IH]; [reflexivity|]. cbn. destruct (Nat.eqb_spec y x) as [->|N].
  - rewrite Nat.eqb_refl. discriminate.
  - destruct (Nat.eqb_spec x y); [congruence|]. cbn. intros H. rewrite (IH H). reflexivity.
Qed.
Lemma zmem_false_zremove1 x l : zmem x l = false -> zremove1 x l = None.
Proof.
  induction l as [|y l IH]; [reflexivity|]. cbn. destruct (Z.eqb_spec y x) as [->|N].
  - rewrite Z.eqb_refl. discriminate.
  - destruct (Z.eqb_spec x y); [congruence|]. cbn. intros H. rewrite (IH H). reflexivity.
Qed.
Lemma zmem_zremove1 x l : zmem x l = true -> exists l', zremove1 x l = Some l'.
Proof.
  induction l as [|y l IH]; [discriminate|]. cbn. destruct (Z.eqb_spec y x) as [->|N]; [eauto|].
  destruct (Z.eqb_spec x y); [congruence|]. cbn. intros H. destruct (IH H) as [l' ->]. cbn. eauto.
Qed.

Lemma existsb_negb_forallb {A} (f g : A -> bool) l : (forall x, f x = negb (g x)) -> existsb f l = negb (forallb g l).
Proof.
  intros H. induction l as [|x l IH]; [reflexivity|]. cbn. rewrite H, IH. destruct (g x), (forallb g l); reflexivity.
Qed.
