(** Symbolic tensor networks: a direct port of
    /repo/src/qib/tensor_network/symbolic_network.py (SymbolicTensor, SymbolicBond,
    SymbolicTensorNetwork) to Gallina.  Python dicts are association lists that keep the
    insertion order (generate_bonds, as_einsum and merge iterate them); exceptions
    (ValueError / KeyError / AssertionError / RuntimeError) are [None].
    The model is the code WITH the repairs (see /verif/notes/C08.md, C07.md):
      - merge: each deleted open axis is handled once (del_axes = axes not kept in axes_map),
      - is_consistent: the number of legs of a tensor on a bond must equal the number of
        references of the bond to the tensor,
      - contract_einsum (TNValue.v): dimension of a ones-vector looked up by position,
      - transpose: negative axes count from the last axis; refused unless the axes are a
        permutation of all axes  (proposed_fixes/C08-transpose-requires-permutation.diff),
      - merge: refused when joined open axes have different dimensions
        (proposed_fixes/C08-merge-checks-join-dimensions.diff),
      - rename_tensor: the public method refuses the virtual tensor -1; merge relabels its
        private copy through _rename_tensor  (proposed_fixes/C08-rename-tensor-refuses-virtual.diff).
      - merge: refused (before anything is changed) when the joins would leave a (fused) bond with
        fewer than two legs  (proposed_fixes/C08-merge-refuses-joins-that-starve-a-bond.diff);
        the `assert len(bond.tids) >= 2` of the deletion loop stays in the model as it stays in the code.
    No proofs in this file. *)
From Qib Require Export Base.Scalar.
Local Open Scope Z_scope.

(* ------------------------------------------------------------------ dictionaries *)
Section Dict.
  Context {V : Type}.
  Definition dict := list (Z * V).
  Fixpoint dget (k : Z) (d : dict) : option V :=
    match d with
    | [] => None
    | (k', v) :: r => if Z.eqb k k' then Some v else dget k r
    end.
  Definition dhas (k : Z) (d : dict) : bool :=
    match dget k d with Some _ => true | None => false end.
  (** d.pop(k) *)
  Fixpoint dpop (k : Z) (d : dict) : dict :=
    match d with
    | [] => []
    | (k', v) :: r => if Z.eqb k k' then r else (k', v) :: dpop k r
    end.
  (** d[k] = v : in place when the key exists, appended otherwise *)
  Fixpoint dset (k : Z) (v : V) (d : dict) : dict :=
    match d with
    | [] => [(k, v)]
    | (k', v') :: r => if Z.eqb k k' then (k, v) :: r else (k', v') :: dset k v r
    end.
  Definition dkeys (d : dict) : list Z := map fst d.
  Definition dvals (d : dict) : list V := map snd d.
  (** d.update(d2) *)
  Definition dupdate (d d2 : dict) : dict := fold_left (fun acc kv => dset (fst kv) (snd kv) acc) d2 d.
End Dict.
Arguments dict : clear implicits.

(* ------------------------------------------------------------------ small list helpers *)
Definition zmem (x : Z) (l : list Z) : bool := existsb (Z.eqb x) l.
Definition nmem (x : nat) (l : list nat) : bool := existsb (Nat.eqb x) l.
Definition zcount (x : Z) (l : list Z) : nat := length (filter (Z.eqb x) l).

Fixpoint zinsert (x : Z) (l : list Z) : list Z :=
  match l with
  | [] => [x]
  | y :: r => if Z.leb x y then x :: l else y :: zinsert x r
  end.
(** sorted(l) / l.sort() *)
Definition zsort (l : list Z) : list Z := fold_right zinsert [] l.

Definition zreplace (a c : Z) (l : list Z) : list Z := map (fun x => if Z.eqb x a then c else x) l.

(** l.remove(x): first occurrence; [None] = ValueError *)
Fixpoint zremove1 (x : Z) (l : list Z) : option (list Z) :=
  match l with
  | [] => None
  | y :: r => if Z.eqb y x then Some r else option_map (cons y) (zremove1 x r)
  end.
Fixpoint nremove1 (x : nat) (l : list nat) : option (list nat) :=
  match l with
  | [] => None
  | y :: r => if Nat.eqb y x then Some r else option_map (cons y) (nremove1 x r)
  end.

(** max(keys, default=0) *)
Definition zmax0 (l : list Z) : Z :=
  match l with [] => 0 | x :: r => fold_left Z.max r x end.

Fixpoint nindex (x : nat) (l : list nat) : option nat :=
  match l with
  | [] => None
  | y :: r => if Nat.eqb y x then Some O else option_map S (nindex x r)
  end.
Fixpoint zindex (x : Z) (l : list Z) : option nat :=
  match l with
  | [] => None
  | y :: r => if Z.eqb y x then Some O else option_map S (zindex x r)
  end.

Fixpoint nnodupb (l : list nat) : bool :=
  match l with [] => true | x :: r => negb (nmem x r) && nnodupb r end.
Fixpoint znodupb (l : list Z) : bool :=
  match l with [] => true | x :: r => negb (zmem x r) && znodupb r end.

Fixpoint set_nth {A} (n : nat) (v : A) (l : list A) : list A :=
  match l, n with
  | [], _ => []
  | _ :: r, O => v :: r
  | x :: r, S n' => x :: set_nth n' v r
  end.

Definition obind {A B} (o : option A) (f : A -> option B) : option B :=
  match o with Some a => f a | None => None end.
Fixpoint omap {A B} (f : A -> option B) (l : list A) : option (list B) :=
  match l with
  | [] => Some []
  | x :: r => match f x, omap f r with Some y, Some ys => Some (y :: ys) | _, _ => None end
  end.
Fixpoint ofold {A B} (f : B -> A -> option B) (l : list A) (b : B) : option B :=
  match l with
  | [] => Some b
  | x :: r => match f b x with Some b' => ofold f r b' | None => None end
  end.

(* ------------------------------------------------------------------ the network *)
Record tensor := mkT { t_id : Z; t_shape : list nat; t_bids : list Z; t_ref : Z }.
Record bond := mkB { b_id : Z; b_tids : list Z }.
Record net := mkN { tensors : dict tensor; bonds : dict bond }.

Definition VT : Z := -1.   (** id of the virtual tensor carrying the open axes *)

Definition t_ndim (t : tensor) : nat := length (t_shape t).
Definition set_tid (t : tensor) (c : Z) : tensor := mkT c (t_shape t) (t_bids t) (t_ref t).
Definition set_bids (t : tensor) (b : list Z) : tensor := mkT (t_id t) (t_shape t) b (t_ref t).
Definition set_btids (b : bond) (l : list Z) : bond := mkB (b_id b) l.

(** num_tensors / num_bonds / num_open_axes / shape  ([None] = RuntimeError) *)
Definition num_tensors (n : net) : option nat :=
  if dhas VT (tensors n) then Some (length (tensors n) - 1)%nat else None.
Definition num_bonds (n : net) : nat := length (bonds n).
Definition num_open_axes (n : net) : option nat := option_map t_ndim (dget VT (tensors n)).
Definition shape (n : net) : option (list nat) := option_map t_shape (dget VT (tensors n)).

(** SymbolicTensor.transpose / SymbolicTensorNetwork.transpose (explicit axes; axes=None is
    the reversed range).  A negative entry counts from the last axis
        axes = [ax + self.ndim if ax < 0 else ax for ax in axes]
    and the call is refused (ValueError = [None]) unless
        sorted(axes) == list(range(self.ndim)). *)
Fixpoint zlist_eqb (a b : list Z) : bool :=
  match a, b with
  | [], [] => true
  | x :: a', y :: b' => Z.eqb x y && zlist_eqb a' b'
  | _, _ => false
  end.
Definition norm_axes (ndim : nat) (axes : list Z) : list Z :=
  map (fun ax => if Z.ltb ax 0 then ax + Z.of_nat ndim else ax) axes.
Definition axes_refused (ndim : nat) (axes : list Z) : bool :=
  negb (zlist_eqb (zsort (norm_axes ndim axes)) (map Z.of_nat (seq 0 ndim))).
(** the axes the accepted call uses, as positions *)
Definition nat_axes (n : net) (axes : list Z) : list nat :=
  match dget VT (tensors n) with
  | Some t => map Z.to_nat (norm_axes (t_ndim t) axes)
  | None => []
  end.
Definition transpose (n : net) (axes : list Z) : option net :=
  match dget VT (tensors n) with
  | None => None
  | Some t =>
      if axes_refused (t_ndim t) axes then None
      else
        let axs := map Z.to_nat (norm_axes (t_ndim t) axes) in
        (* self.bids[ax]: IndexError when bids is shorter than shape (no object of the class) *)
        if negb (forallb (fun ax => Nat.ltb ax (length (t_bids t))) axs) then None
        else Some (mkN (dset VT (mkT (t_id t) (map (fun ax => nth ax (t_shape t) O) axs)
                                          (map (fun ax => nth ax (t_bids t) 0) axs) (t_ref t)) (tensors n))
                       (bonds n))
  end.

(** the loop  "for bid in bids: bond = bonds[bid]; replace a by c in bond.tids; sort" *)
Definition retid_step (a c : Z) (B : dict bond) (bid : Z) : option (dict bond) :=
  match dget bid B with
  | None => None
  | Some b => Some (dset bid (set_btids b (zsort (zreplace a c (b_tids b)))) B)
  end.

(** _rename_tensor: the private worker (merge relabels the shared ids of its copy, the
    virtual tensor included, through it) *)
Definition rename_tensor_priv (n : net) (a c : Z) : option net :=
  match dget a (tensors n) with
  | None => None
  | Some t =>
      if dhas c (tensors n) then None
      else if negb (Z.eqb (t_id t) a) then None      (* assert tensor.tid == tid_cur *)
      else match ofold (retid_step a c) (t_bids t) (bonds n) with
           | None => None
           | Some B => Some (mkN (dpop a (tensors n) ++ [(c, set_tid t c)]) B)
           end
  end.

(** rename_tensor: the public method refuses the virtual tensor of the open axes *)
Definition rename_tensor (n : net) (a c : Z) : option net :=
  if Z.eqb a VT then None else rename_tensor_priv n a c.

(** the loop "for tid in tids: tensor = tensors[tid]; replace bid a by c in tensor.bids" *)
Definition rebid_step (a c : Z) (T : dict tensor) (tid : Z) : option (dict tensor) :=
  match dget tid T with
  | None => None
  | Some t => Some (dset tid (set_bids t (zreplace a c (t_bids t))) T)
  end.

Definition rename_bond (n : net) (a c : Z) : option net :=
  match dget a (bonds n) with
  | None => None
  | Some b =>
      if dhas c (bonds n) then None
      else if negb (Z.eqb (b_id b) a) then None
      else match ofold (rebid_step a c) (b_tids b) (tensors n) with
           | None => None
           | Some T => Some (mkN T (dpop a (bonds n) ++ [(c, mkB c (b_tids b))]))
           end
  end.

(** merge_tensors(tid1, tid2): tid1 inherits the legs of tid2 *)
Definition merge_tensors (n : net) (t1 t2 : Z) : option net :=
  if Z.eqb t1 t2 then Some n
  else match dget t1 (tensors n), dget t2 (tensors n) with
       | Some x1, Some x2 =>
           match ofold (retid_step t2 t1) (t_bids x2) (bonds n) with
           | None => None
           | Some B =>
               Some (mkN (dset t1 (mkT (t_id x1) (t_shape x1 ++ t_shape x2) (t_bids x1 ++ t_bids x2) (t_ref x1))
                               (dpop t2 (tensors n))) B)
           end
       | _, _ => None
       end.

(** merge_bonds(bid1, bid2): bid1 inherits the references of bid2 *)
Definition merge_bonds (n : net) (b1 b2 : Z) : option net :=
  if Z.eqb b1 b2 then Some n
  else match dget b1 (bonds n), dget b2 (bonds n) with
       | Some x1, Some x2 =>
           match ofold (rebid_step b2 b1) (b_tids x2) (tensors n) with
           | None => None
           | Some T =>
               Some (mkN T (dset b1 (set_btids x1 (zsort (b_tids x1 ++ b_tids x2))) (dpop b2 (bonds n))))
           end
       | _, _ => None
       end.

(** j-th (from 0) axis of [bids] carrying [bid], searching from axis [ax] *)
Fixpoint find_leg (bid : Z) (bids : list Z) (j ax : nat) : option nat :=
  match bids with
  | [] => None
  | b :: r => if Z.eqb b bid then match j with O => Some ax | S j' => find_leg bid r j' (S ax) end
              else find_leg bid r j (S ax)
  end.

(** get_bond_axes: for the i-th reference of the bond the axis of that tensor *)
Fixpoint bond_axes_aux (T : dict tensor) (bid : Z) (seen rest : list Z) : option (list nat) :=
  match rest with
  | [] => Some []
  | tid :: r =>
      match dget tid T with
      | None => None
      | Some t =>
          match find_leg bid (t_bids t) (zcount tid seen) O, bond_axes_aux T bid (seen ++ [tid]) r with
          | Some ax, Some axs => Some (ax :: axs)
          | _, _ => None
          end
      end
  end.
Definition get_bond_axes (n : net) (bid : Z) : option (list nat) :=
  match dget bid (bonds n) with
  | None => None
  | Some b => if Z.eqb (b_id b) bid then bond_axes_aux (tensors n) bid [] (b_tids b) else None
  end.

(* ------------------------------------------------------------------ merge *)
(** relabel the ids shared with the first network: fresh ids next, next+1, ... in the
    iteration order [ord] of the Python set  self.keys() & other.keys()  *)
Fixpoint relabel_tensors (o : net) (ord : list Z) (next : Z) (tmp : Z) : option (net * Z) :=
  match ord with
  | [] => Some (o, tmp)
  | tid :: r =>
      match rename_tensor_priv o tid next with
      | None => None
      | Some o' => relabel_tensors o' r (next + 1) (if Z.eqb tid VT then next else tmp)
      end
  end.
Fixpoint relabel_bonds (o : net) (ord : list Z) (next : Z) : option net :=
  match ord with
  | [] => Some o
  | bid :: r =>
      match rename_bond o bid next with
      | None => None
      | Some o' => relabel_bonds o' r (next + 1)
      end
  end.

(** [ord] must enumerate exactly the shared keys (any order) *)
Definition is_shared_order (ord k1 k2 : list Z) : bool :=
  znodupb ord && forallb (fun k => zmem k k1 && zmem k k2) ord
  && forallb (fun k => negb (zmem k k2) || zmem k ord) k1.

Definition vbids (n : net) : list Z :=
  match dget VT (tensors n) with Some t => t_bids t | None => [] end.

Definition vshape (n : net) : list nat :=
  match dget VT (tensors n) with Some t => t_shape t | None => [] end.

(** one join: merge the two bonds, drop the two axes from the list of kept axes *)
Definition join_step (norig : nat) (st : net * list nat) (j : nat * nat) : option (net * list nat) :=
  let '(n, amap) := st in
  let vb := vbids n in
  match nth_error vb (fst j), nth_error vb (norig + snd j) with
  | Some b1, Some b2 =>
      match merge_bonds n b1 b2 with
      | None => None
      | Some n' =>
          let rm x l := match nremove1 x l with Some l' => l' | None => l end in
          Some (n', rm (norig + snd j)%nat (rm (fst j) amap))
      end
  | _, _ => None
  end.

(** remove one reference to the virtual tensor from the bond of a deleted open axis *)
Definition del_step (n : net) (delax : nat) : option net :=
  match nth_error (vbids n) delax with
  | None => None
  | Some bid =>
      match dget bid (bonds n) with
      | None => None
      | Some b =>
          let tids := match zremove1 VT (b_tids b) with Some l => l | None => b_tids b end in
          if Nat.ltb (length tids) 2 then None      (* assert len(bond.tids) >= 2 *)
          else Some (mkN (tensors n) (dset bid (set_btids b tids) (bonds n)))
      end
  end.

(** the last refusal of merge's validation part: every (fused) bond must retain at least two legs
    after the joined open axes are removed
        nets = (self, other)
        open_bids = {(i, joinax[i]): (i, nets[i].tensors[-1].bids[joinax[i]]) for joinax in join_axes for i in (0, 1)}
        fused_bids = dict(open_bids)
        for joinax in join_axes:
            bid0, bid1 = fused_bids[0, joinax[0]], fused_bids[1, joinax[1]]
            fused_bids = {ax: (bid0 if bid == bid1 else bid) for ax, bid in fused_bids.items()}
        for fbid in set(fused_bids.values()):
            axes = [ax for ax in fused_bids if fused_bids[ax] == fbid]
            num_legs = sum(len(nets[i].bonds[bid].tids) for i, bid in set(open_bids[ax] for ax in axes))
            if num_legs - len(axes) < 2: raise ValueError
    The two dictionaries are association lists over the same keys (network, open axis) in the same
    (insertion) order; their values are bonds labelled by their network (network, bond id). *)
Definition akey := (nat * nat)%type.
Definition bkey := (nat * Z)%type.
Definition akey_eqb (a b : akey) : bool := Nat.eqb (fst a) (fst b) && Nat.eqb (snd a) (snd b).
Definition bkey_eqb (a b : bkey) : bool := Nat.eqb (fst a) (fst b) && Z.eqb (snd a) (snd b).
Fixpoint aget (k : akey) (d : list (akey * bkey)) : option bkey :=
  match d with
  | [] => None
  | (k', v) :: r => if akey_eqb k k' then Some v else aget k r
  end.
Fixpoint aset (k : akey) (v : bkey) (d : list (akey * bkey)) : list (akey * bkey) :=
  match d with
  | [] => [(k, v)]
  | (k', v') :: r => if akey_eqb k k' then (k, v) :: r else (k', v') :: aset k v r
  end.
Definition open_bids (n o : net) (joins : list (nat * nat)) : list (akey * bkey) :=
  fold_left (fun d j => aset (1%nat, snd j) (1%nat, nth (snd j) (vbids o) 0)
                             (aset (0%nat, fst j) (0%nat, nth (fst j) (vbids n) 0) d)) joins [].
Definition fuse_step (fb : list (akey * bkey)) (j : nat * nat) : list (akey * bkey) :=
  match aget (0%nat, fst j) fb, aget (1%nat, snd j) fb with
  | Some b0, Some b1 => map (fun p => (fst p, if bkey_eqb (snd p) b1 then b0 else snd p)) fb
  | _, _ => fb      (* KeyError: not reachable, open_bids has put both keys in *)
  end.
(** set(...) of labelled bonds (the order does not matter below) *)
Fixpoint bdedup (l : list bkey) : list bkey :=
  match l with
  | [] => []
  | x :: r => if existsb (bkey_eqb x) r then bdedup r else x :: bdedup r
  end.
(** len(nets[i].bonds[bid].tids)   ([None] = KeyError) *)
Definition bond_legs (n o : net) (k : bkey) : option nat :=
  option_map (fun b => length (b_tids b)) (dget (snd k) (bonds (match fst k with O => n | _ => o end))).
Definition class_starves (n o : net) (ob fb : list (akey * bkey)) (r : bkey) : bool :=
  let members := bdedup (map (fun pq => snd (fst pq)) (filter (fun pq => bkey_eqb (snd (snd pq)) r) (combine ob fb))) in
  let naxes := length (filter (fun p => bkey_eqb (snd p) r) fb) in
  match omap (bond_legs n o) members with
  | None => true      (* KeyError in front of any change: refused as well *)
  | Some ls => Nat.ltb (fold_right Nat.add O ls - naxes) 2
  end.
Definition joins_starve (n o : net) (joins : list (nat * nat)) : bool :=
  let ob := open_bids n o joins in
  let fb := fold_left fuse_step joins ob in
  existsb (class_starves n o ob fb) (bdedup (map snd fb)).

(** the part of merge behind the validation (everything that changes state): relabelling of the
    private copy, union, fusing of the virtual tensors, joining, the deletion loop with its
    `assert len(bond.tids) >= 2`, selection of the kept open axes *)
Definition merge_changes (norig : nat) (n o : net) (joins : list (nat * nat)) (ordT ordB : list Z) : option net :=
  if negb (is_shared_order ordT (dkeys (tensors n)) (dkeys (tensors o))) then None
  else if negb (is_shared_order ordB (dkeys (bonds n)) (dkeys (bonds o))) then None
  else
    let next_tid := zmax0 (dkeys (tensors n) ++ dkeys (tensors o)) + 1 in
    match relabel_tensors o ordT next_tid VT with
    | None => None
    | Some (o1, tmp) =>
        let next_bid := zmax0 (dkeys (bonds n) ++ dkeys (bonds o1)) + 1 in
        match relabel_bonds o1 ordB next_bid with
        | None => None
        | Some o2 =>
            let n1 := mkN (dupdate (tensors n) (tensors o2)) (dupdate (bonds n) (bonds o2)) in
            match merge_tensors n1 VT tmp with
            | None => None
            | Some n2 =>
                let ndim := match num_open_axes n2 with Some k => k | None => O end in
                match ofold (join_step norig) joins (n2, seq 0 ndim) with
                | None => None
                | Some (n3, amap) =>
                    let del_axes := filter (fun i => negb (nmem i amap)) (seq 0 ndim) in
                    match ofold del_step del_axes n3 with
                    | None => None
                    | Some n4 =>
                        match dget VT (tensors n4) with
                        | None => None
                        | Some t =>
                            Some (mkN (dset VT (mkT (t_id t) (map (fun i => nth i (t_shape t) O) amap)
                                                          (map (fun i => nth i (t_bids t) 0) amap) (t_ref t))
                                            (tensors n4)) (bonds n4))
                        end
                    end
                end
            end
        end
    end.

Definition merge (n o : net) (joins : list (nat * nat)) (ordT ordB : list Z) : option net :=
  match num_open_axes n with
  | None => None      (* RuntimeError: no virtual tensor *)
  | Some norig =>
      match (match joins with [] => Some O | _ => num_open_axes o end) with
      | None => None
      | Some nother =>
          if negb (forallb (fun j => Nat.ltb (fst j) norig && Nat.ltb (snd j) nother
                                     && Nat.eqb (nth (fst j) (vshape n) O) (nth (snd j) (vshape o) O)) joins) then None
          else if joins_starve n o joins then None
          else merge_changes norig n o joins ordT ordB
      end
  end.

(* ------------------------------------------------------------------ is_consistent *)
Definition all_eq_nat (l : list nat) : bool :=
  match l with
  | [] => true
  | x :: r => forallb (Nat.eqb x) r
  end.

Definition tensor_ok (n : net) (kt : Z * tensor) : bool :=
  let '(k, t) := kt in
  Z.eqb k (t_id t) &&
  forallb (fun bid => match dget bid (bonds n) with
                      | None => false
                      | Some b => Nat.eqb (zcount (t_id t) (b_tids b)) (zcount bid (t_bids t))
                      end) (t_bids t).

Fixpoint no_dup_pairs (l : list (Z * nat)) : bool :=
  match l with
  | [] => true
  | (a, b) :: r => negb (existsb (fun p => Z.eqb (fst p) a && Nat.eqb (snd p) b) r) && no_dup_pairs r
  end.

Definition bond_ok (n : net) (kb : Z * bond) : bool :=
  let '(k, b) := kb in
  Z.eqb k (b_id b) && Nat.leb 2 (length (b_tids b)) &&
  match get_bond_axes n (b_id b) with
  | None => false        (* KeyError / AssertionError inside get_bond_axes *)
  | Some axs =>
      no_dup_pairs (combine (b_tids b) axs) &&
      forallb (fun p => match dget (fst p) (tensors n) with
                        | None => false
                        | Some t => Nat.ltb (snd p) (length (t_bids t)) && Z.eqb (nth (snd p) (t_bids t) 0) (b_id b)
                        end) (combine (b_tids b) axs) &&
      all_eq_nat (map (fun p => match dget (fst p) (tensors n) with
                                | None => O
                                | Some t => nth (snd p) (t_shape t) O
                                end) (combine (b_tids b) axs))
  end.

Definition is_consistent (n : net) : bool :=
  dhas VT (tensors n) && forallb (tensor_ok n) (tensors n) && forallb (bond_ok n) (bonds n).

(* ------------------------------------------------------------------ the exact incidence invariant, as a boolean
   (TNProofs.wf_b_WF: wf_b n = true -> WF n) *)
Definition legs_dims (bid : Z) (t : tensor) : list nat :=
  map snd (filter (fun p => Z.eqb (fst p) bid) (combine (t_bids t) (t_shape t))).

Definition wf_b (n : net) : bool :=
  znodupb (dkeys (tensors n)) && znodupb (dkeys (bonds n)) && dhas VT (tensors n)
  && forallb (fun kt => Z.eqb (t_id (snd kt)) (fst kt)
                        && Nat.eqb (length (t_shape (snd kt))) (length (t_bids (snd kt)))
                        && forallb (fun bid => dhas bid (bonds n)) (t_bids (snd kt))) (tensors n)
  && forallb (fun kb => Z.eqb (b_id (snd kb)) (fst kb) && Nat.leb 2 (length (b_tids (snd kb)))
                        && forallb (fun tid => dhas tid (tensors n)) (b_tids (snd kb))) (bonds n)
  && forallb (fun kt => forallb (fun kb => Nat.eqb (zcount (fst kb) (t_bids (snd kt)))
                                                   (zcount (fst kt) (b_tids (snd kb)))) (bonds n)) (tensors n)
  && forallb (fun kb => all_eq_nat (concat (map (fun kt => legs_dims (fst kb) (snd kt)) (tensors n)))) (bonds n).

