(** Soundness of the tree checker: check_root n t amap = true implies that the tree's
    contraction, expanded by the axes map, is the defining sum of the network. *)
From Qib Require Export TN.TNFusion TN.TNTreeCheckDef.
From Coq Require Import Permutation.
Local Open Scope Z_scope.

(* ------------------------------------------------------------------ boolean equalities *)
Lemma list_eqb_eq {A} (eqb : A -> A -> bool) (H : forall a b, eqb a b = true -> a = b) l1 l2 :
  list_eqb eqb l1 l2 = true -> l1 = l2.
Proof.
  revert l2. induction l1 as [|a l1 IH]; intros [|b l2] E; cbn in E; try discriminate; [reflexivity|].
  apply andb_true_iff in E. destruct E as [E1 E2]. rewrite (H a b E1), (IH l2 E2). reflexivity.
Qed.
Lemma legeqb_eq a b : legeqb a b = true -> a = b.
Proof.
  destruct a as [a1 a2], b as [b1 b2]. unfold legeqb. cbn. rewrite andb_true_iff, Z.eqb_eq, Nat.eqb_eq.
  intros [-> ->]. reflexivity.
Qed.
Lemma legeqb_refl a : legeqb a a = true.
Proof. destruct a. unfold legeqb. cbn. rewrite Z.eqb_refl, Nat.eqb_refl. reflexivity. Qed.
Lemma legeqb_iff a b : legeqb a b = true <-> a = b.
Proof. split; [apply legeqb_eq | intros ->; apply legeqb_refl]. Qed.
Lemma leg_mem_In a l : leg_mem a l = true <-> In a l.
Proof.
  unfold leg_mem. rewrite existsb_exists. split.
  - intros [b [Hb E]]. apply legeqb_eq in E. subst. assumption.
  - intros H. exists a. split; [assumption | apply legeqb_refl].
Qed.

Lemma leg_index_Some a l : In a l -> exists i, leg_index a l = Some i /\ nth_error l i = Some a.
Proof.
  induction l as [|b l IH]; [intros []|]. intros H. cbn. destruct (legeqb b a) eqn:E.
  - apply legeqb_eq in E. subst. exists O. auto.
  - destruct H as [->|H]; [rewrite legeqb_refl in E; discriminate|]. destruct (IH H) as [i [A B]]. rewrite A.
    exists (S i). auto.
Qed.
Lemma leg_index_app_l a l1 l2 : In a l1 -> leg_index a (l1 ++ l2) = leg_index a l1.
Proof.
  induction l1 as [|b l1 IH]; [intros []|]. intros H. cbn. destruct (legeqb b a) eqn:E; [reflexivity|].
  destruct H as [->|H]; [rewrite legeqb_refl in E; discriminate|]. rewrite IH by assumption. reflexivity.
Qed.
Lemma leg_index_app_r a l1 l2 : ~ In a l1 ->
  leg_index a (l1 ++ l2) = option_map (fun i => (length l1 + i)%nat) (leg_index a l2).
Proof.
  induction l1 as [|b l1 IH]; intros H; cbn.
  - destruct (leg_index a l2); reflexivity.
  - destruct (legeqb b a) eqn:E; [apply legeqb_eq in E; subst; exfalso; apply H; left; reflexivity|].
    rewrite IH by (intros Hin; apply H; right; exact Hin). destruct (leg_index a l2); reflexivity.
Qed.

(** tracking through a list of legs with positions given by a function *)
Lemma track_map_lookup (g : leg -> nat) (l : list leg) a : In a l ->
  obind (leg_index a l) (fun i => nth_error (map g l) i) = Some (g a).
Proof.
  intros H. destruct (leg_index_Some a l H) as [i [A B]]. rewrite A. cbn. rewrite nth_error_map, B. reflexivity.
Qed.
Lemma track_app_l (g1 g2 : leg -> nat) l1 l2 a : In a l1 ->
  obind (leg_index a (l1 ++ l2)) (fun i => nth_error (map g1 l1 ++ map g2 l2) i) = Some (g1 a).
Proof.
  intros H. rewrite leg_index_app_l by assumption. destruct (leg_index_Some a l1 H) as [i [A B]]. rewrite A. cbn.
  rewrite nth_error_app1 by (rewrite map_length; apply nth_error_Some; congruence).
  rewrite nth_error_map, B. reflexivity.
Qed.
Lemma track_app_r (g1 g2 : leg -> nat) l1 l2 a : ~ In a l1 -> In a l2 ->
  obind (leg_index a (l1 ++ l2)) (fun i => nth_error (map g1 l1 ++ map g2 l2) i) = Some (g2 a).
Proof.
  intros H1 H2. rewrite leg_index_app_r by assumption. destruct (leg_index_Some a l2 H2) as [i [A B]]. rewrite A. cbn.
  rewrite nth_error_app2 by (rewrite map_length; lia). rewrite map_length.
  replace (length l1 + i - length l1)%nat with i by lia. rewrite nth_error_map, B. reflexivity.
Qed.

Section TreeSound.
  Context {K : Scalar} {L : ScalarLaws K}.
  Local Open Scope K_scope.
  Add Ring KringTS : (s_ring K L).
  Notation ksumZ := (ksum (K:=K) Z.eqb).
  Notation e0 := (fun _ : Z => O).

  Variables (n : net) (data : Z -> list nat -> K).
  Hypothesis W : WF n.
  Let W0 : WF0 n := proj1 W.
  Notation dimB := (bond_dim n).

  Definition tgetn (tid : Z) : tensor :=
    match dget tid (tensors n) with Some t => t | None => mkT 0 [] [] 0 end.

  (** what a leg of a leaf reads: the index of its bond when the bond is closed inside the
      node, the index of the leg of the node tensor it is tracked to otherwise *)
  Definition rd (N : tree) (s : Z -> nat) (y : list nat) (e : leg) : nat :=
    if zmem (bondd n e) (closed_of n N) then s (bondd n e) else nth (trackd N e) y O.
  Definition leaf_term (N : tree) (s : Z -> nat) (y : list nat) (tid : Z) : K :=
    let t := tgetn tid in data (t_ref t) (map (fun ax => rd N s y (tid, ax)) (seq 0 (length (t_bids t)))).
  Definition term (N : tree) (s : Z -> nat) (y : list nat) : K :=
    lprod (map (leaf_term N s y) (leaves_of N)).

  Record good (N : tree) (v : @tval K) : Prop := mkGood {
    g_inv : forall y, length y = length (tr_out N) ->
              snd v y = ksumZ (kdB dimB (closed_of n N)) (fun s => term N s y) e0;
    g_len : length (fst v) = length (tr_out N);
    g_shp : forall e, In e (tr_oax N) -> nth (trackd N e) (fst v) O = dimB (bondd n e);
    g_str : forall tid ax, In tid (leaves_of N) -> (ax < length (t_bids (tgetn tid)))%nat ->
              zmem (bondd n (tid, ax)) (closed_of n N) = true \/ In (tid, ax) (tr_oax N);
    g_lv : forall tid, In tid (leaves_of N) -> In tid (dkeys (tensors n)) /\ tid <> VT }.

  Lemma term_local N y : localZ (closed_of n N) (fun s => term N s y).
  Proof.
    intros s s' H. unfold term. apply lprod_map_ext. intros tid _. unfold leaf_term. cbv zeta. f_equal.
    apply map_ext. intros ax. unfold rd. destruct (zmem (bondd n (tid, ax)) (closed_of n N)) eqn:E; [|reflexivity].
    apply H. apply zmem_In. exact E.
  Qed.

  Lemma leg_index_seq tid nd ax : (ax < nd)%nat ->
    leg_index (tid, ax) (map (fun i => (tid, i)) (seq 0 nd)) = Some ax.
  Proof.
    intros H. assert (G : forall off m, (off <= ax < off + m)%nat ->
                leg_index (tid, ax) (map (fun i => (tid, i)) (seq off m)) = Some (ax - off)%nat).
    { intros off m. revert off. induction m as [|m IH]; intros off Hr; [lia|]. cbn.
      unfold legeqb at 1. cbn. rewrite Z.eqb_refl. cbn. destruct (Nat.eqb_spec off ax).
      - subst. rewrite Nat.sub_diag. reflexivity.
      - rewrite IH by lia. cbn. f_equal. lia. }
    rewrite G by lia. f_equal. lia.
  Qed.

  Lemma check_leaf_sound tid o a k : check_tree n (TLeaf tid o a k) = true ->
    exists v, tree_eval n data (TLeaf tid o a k) = Some v /\ good (TLeaf tid o a k) v.
  Proof.
    cbn [check_tree]. rewrite andb_true_iff, negb_true_iff, Z.eqb_neq. intros [Hne H].
    destruct (dget tid (tensors n)) as [t|] eqn:Et; [|discriminate].
    rewrite !andb_true_iff in H. destruct H as [[[[H1 H2] H3] H4] H5].
    apply Nat.eqb_eq in H1, H2. apply (list_eqb_eq _ legeqb_eq) in H3.
    apply (list_eqb_eq _ (fun a b => proj1 (Nat.eqb_eq a b))) in H4. subst a.
    set (nd := length (t_bids t)) in *.
    assert (Lk : length k = nd) by (rewrite H4; unfold inv_perm; rewrite map_length, seq_length; exact H2).
    assert (Hok : forall ax, (ax < nd)%nat -> nth (nth ax k O) o nd = ax).
    { intros ax Hax. rewrite forallb_forall in H5. apply Nat.eqb_eq. apply H5. apply in_seq. lia. }
    exists (tv_transpose (t_shape t, data (t_ref t)) o). cbn [tree_eval]. rewrite Et. split; [reflexivity|].
    assert (Tg : tgetn tid = t) by (unfold tgetn; rewrite Et; reflexivity).
    assert (Tr : forall ax, (ax < nd)%nat -> trackd (TLeaf tid o (map (fun i => (tid, i)) (seq 0 nd)) k) (tid, ax) = nth ax k O).
    { intros ax Hax. unfold trackd, track_of. cbn [tr_oax tr_trk]. rewrite leg_index_seq by assumption. cbn.
      rewrite (nth_error_nth' _ O) by (rewrite Lk; assumption). reflexivity. }
    constructor; unfold tv_transpose; cbn [fst snd tr_out tr_oax leaves_of closed_of].
    - intros y Hy. cbn [kdB map ksum]. unfold term. cbn [leaves_of map lprod fold_right].
      unfold leaf_term. rewrite Tg. cbv zeta. fold nd. rewrite <- H4.
      replace (map (fun ax => rd _ e0 y (tid, ax)) (seq 0 nd)) with (pick O y k); [rewrite kmul_1_r; reflexivity|].
      unfold pick. rewrite <- (map_nth_seq k O) at 1. rewrite map_map, Lk. apply map_ext_in. intros ax Hax. apply in_seq in Hax.
      unfold rd. cbn [closed_of zmem existsb]. rewrite Tr by lia. reflexivity.
    - unfold pick. rewrite map_length. reflexivity.
    - intros e He. apply in_map_iff in He. destruct He as [ax [<- Hax]]. apply in_seq in Hax.
      rewrite Tr by lia. unfold bondd. cbn [fst snd]. rewrite Et.
      assert (Hb : nth_error (t_bids t) ax = Some (nth ax (t_bids t) 0%Z)) by (apply nth_error_nth'; lia).
      pose proof (bond_dim_spec n tid t ax _ W0 (dget_In _ _ _ Et) Hb) as S. apply nth_error_nth with (d := O) in S.
      rewrite <- S. set (j := nth ax k O).
      assert (Hj : (j < length o)%nat).
      { destruct (Nat.lt_ge_cases j (length o)) as [A|A]; [exact A|].
        pose proof (Hok ax (proj2 Hax)) as E. fold j in E. rewrite nth_overflow in E by exact A. lia. }
      unfold pick. rewrite (nth_indep _ O (nth nd (t_shape t) O)) by (rewrite map_length; exact Hj).
      rewrite (map_nth (fun i => nth i (t_shape t) O) o nd j). unfold j. rewrite Hok by lia. reflexivity.
    - intros tid' ax [<-|[]] Hax. right. rewrite Tg in Hax. apply in_map_iff. exists ax. split; [reflexivity | apply in_seq; lia].
    - intros tid' [<-|[]]. split; [eapply dget_Some_key; eauto | assumption].
  Qed.

  (* ---------------------------------------------------------------- unpacking the node check *)
  Lemma covered_spec t nd : covered t nd = true ->
    (forall p, (p < nd)%nat -> exists e, In e (tr_oax t) /\ trackd t e = p) /\
    (forall e, In e (tr_oax t) -> (trackd t e < nd)%nat).
  Proof.
    unfold covered. rewrite andb_true_iff. intros [A B]. rewrite forallb_forall in A, B. split.
    - intros p Hp. specialize (A p (proj2 (in_seq _ _ _) (conj (Nat.le_0_l p) Hp))).
      apply existsb_exists in A. destruct A as [e [He E]]. apply Nat.eqb_eq in E. eauto.
    - intros e He. specialize (B e He). unfold trackd. destruct (track_of t e); [apply Nat.ltb_lt; exact B | discriminate].
  Qed.
  Lemma legs_ok_spec t : legs_ok n t = true ->
    forall e, In e (tr_oax t) -> In (fst e) (leaves_of t) /\ (snd e < length (t_bids (tgetn (fst e))))%nat.
  Proof.
    unfold legs_ok. rewrite forallb_forall. intros H e He. specialize (H e He). apply andb_true_iff in H.
    destruct H as [A B]. split; [apply zmem_In; exact A|]. unfold tgetn.
    destruct (dget (fst e) (tensors n)); [apply Nat.ltb_lt; exact B | discriminate].
  Qed.

  Section Node.
    Variables (i : Z) (Lt Rt : tree) (xl xr o : list nat) (a : list leg) (k : list nat).
    Variables (vL vR : @tval K).
    Hypothesis GL : good Lt vL.
    Hypothesis GR : good Rt vR.
    Hypothesis HC : check_node n Lt xl Rt xr o a k = true.
    Notation N := (TNode i Lt xl Rt xr o a k).
    Notation lbl := (lbl_of n Lt xl Rt xr).
    Notation sumd := (summed_of xl xr o).
    Notation beta := (beta_of (lbl_of n Lt xl Rt xr)).
    Notation newly := (map (beta_of (lbl_of n Lt xl Rt xr)) (summed_of xl xr o)).
    Notation cl := (closed_of n Lt ++ closed_of n Rt).
    Notation labL := (fun e : leg => nth (trackd Lt e) xl O).
    Notation labR := (fun e : leg => nth (trackd Rt e) xr O).
    Notation keepL := (filter (fun e : leg => negb (nmem (nth (trackd Lt e) xl O) (summed_of xl xr o))) (tr_oax Lt)).
    Notation keepR := (filter (fun e : leg => negb (nmem (nth (trackd Rt e) xr O) (summed_of xl xr o))) (tr_oax Rt)).

    Lemma node_facts :
      (length xl = length (tr_out Lt) /\ length xr = length (tr_out Rt)) /\
      covered Lt (length xl) = true /\ covered Rt (length xr) = true /\
      legs_ok n Lt = true /\ legs_ok n Rt = true /\
      (forall p q, In p lbl -> In q lbl -> fst p = fst q -> snd p = snd q) /\
      NoDup (cl ++ newly) /\
      (forall p, In p lbl -> (In (fst p) sumd <-> In (snd p) newly)) /\
      (forall p, In p lbl -> ~ In (snd p) cl) /\
      a = keepL ++ keepR /\
      k = map (fun e => idx_n (labL e) o) keepL ++ map (fun e => idx_n (labR e) o) keepR /\
      NoDup (leaves_of Lt ++ leaves_of Rt).
    Proof.
      unfold check_node in HC. cbv zeta in HC. rewrite !andb_true_iff in HC.
      destruct HC as [[[[[[[[[[[[A1 A2] A3] A4] A5] A6] A7] A8] A9] A10] A11] A12] A13].
      apply Nat.eqb_eq in A1, A2. apply znodupb_NoDup in A8, A13.
      apply (list_eqb_eq _ legeqb_eq) in A11. apply (list_eqb_eq _ (fun x y => proj1 (Nat.eqb_eq x y))) in A12.
      rewrite forallb_forall in A7, A9, A10.
      split; [split; assumption|]. split; [assumption|]. split; [assumption|]. split; [assumption|]. split; [assumption|].
      split.
      { intros p q Hp Hq E. specialize (A7 p Hp). rewrite forallb_forall in A7. specialize (A7 q Hq).
        apply orb_true_iff in A7. destruct A7 as [A7|A7].
        - apply negb_true_iff, Nat.eqb_neq in A7. contradiction.
        - apply Z.eqb_eq. exact A7. }
      split; [assumption|]. split.
      { intros p Hp. specialize (A9 p Hp). apply eqb_prop in A9. split; intros Hx.
        - apply zmem_In. rewrite <- A9. apply nmem_In. exact Hx.
        - apply nmem_In. rewrite A9. apply zmem_In. exact Hx. }
      split.
      { intros p Hp Hin. specialize (A10 p Hp). apply negb_true_iff, zmem_false in A10. contradiction. }
      split; [assumption|]. split; assumption.
    Qed.
  End Node.

  Lemma trackd_node i l xl r xr o a k e :
    trackd (TNode i l xl r xr o a k) e =
    match obind (leg_index e a) (fun j => nth_error k j) with Some v => v | None => O end.
  Proof. reflexivity. Qed.

  Lemma summed_of_spec xl xr o l : In l (summed_of xl xr o) <-> (In l xl \/ In l xr) /\ ~ In l o.
  Proof.
    unfold summed_of. rewrite filter_In, (proj2 (nnodup_spec _)), negb_true_iff, nmem_false, !in_app_iff. cbn. tauto.
  Qed.

  Section NodeSound.
    Variables (i : Z) (Lt Rt : tree) (xl xr o : list nat).
    Variables (shL shR : list nat) (A B : list nat -> K).
    Hypothesis GL : good Lt (shL, A).
    Hypothesis GR : good Rt (shR, B).
    Notation lbl := (lbl_of n Lt xl Rt xr).
    Notation sumd := (summed_of xl xr o).
    Notation beta := (beta_of (lbl_of n Lt xl Rt xr)).
    Notation newly := (map (beta_of (lbl_of n Lt xl Rt xr)) (summed_of xl xr o)).
    Notation cl := (closed_of n Lt ++ closed_of n Rt).
    Notation labL := (fun e : leg => nth (trackd Lt e) xl O).
    Notation labR := (fun e : leg => nth (trackd Rt e) xr O).
    Notation keepL := (filter (fun e : leg => negb (nmem (nth (trackd Lt e) xl O) (summed_of xl xr o))) (tr_oax Lt)).
    Notation keepR := (filter (fun e : leg => negb (nmem (nth (trackd Rt e) xr O) (summed_of xl xr o))) (tr_oax Rt)).
    Notation aN := (keepL ++ keepR).
    Notation kN := (map (fun e : leg => idx_n (nth (trackd Lt e) xl O) o) keepL ++
                    map (fun e : leg => idx_n (nth (trackd Rt e) xr O) o) keepR).
    Notation N := (TNode i Lt xl Rt xr o aN kN).

    Hypothesis F_len1 : length xl = length (tr_out Lt).
    Hypothesis F_len2 : length xr = length (tr_out Rt).
    Hypothesis F_covL : forall p, (p < length xl)%nat -> exists e, In e (tr_oax Lt) /\ trackd Lt e = p.
    Hypothesis F_trkL : forall e, In e (tr_oax Lt) -> (trackd Lt e < length xl)%nat.
    Hypothesis F_covR : forall p, (p < length xr)%nat -> exists e, In e (tr_oax Rt) /\ trackd Rt e = p.
    Hypothesis F_trkR : forall e, In e (tr_oax Rt) -> (trackd Rt e < length xr)%nat.
    Hypothesis F_legsL : forall e, In e (tr_oax Lt) -> In (fst e) (leaves_of Lt).
    Hypothesis F_legsR : forall e, In e (tr_oax Rt) -> In (fst e) (leaves_of Rt).
    Hypothesis F_fun : forall p q, In p lbl -> In q lbl -> fst p = fst q -> snd p = snd q.
    Hypothesis F_nd : NoDup (cl ++ newly).
    Hypothesis F_sum : forall p, In p lbl -> (In (fst p) sumd <-> In (snd p) newly).
    Hypothesis F_open : forall p, In p lbl -> ~ In (snd p) cl.
    Hypothesis F_lv : NoDup (leaves_of Lt ++ leaves_of Rt).

    Lemma lbl_inL e : In e (tr_oax Lt) -> In (labL e, bondd n e) lbl.
    Proof. intros H. unfold lbl_of. apply in_or_app. left. apply in_map_iff. exists e. auto. Qed.
    Lemma lbl_inR e : In e (tr_oax Rt) -> In (labR e, bondd n e) lbl.
    Proof. intros H. unfold lbl_of. apply in_or_app. right. apply in_map_iff. exists e. auto. Qed.
    Lemma labL_in e : In e (tr_oax Lt) -> In (labL e) xl.
    Proof. intros H. apply nth_In. apply F_trkL. exact H. Qed.
    Lemma labR_in e : In e (tr_oax Rt) -> In (labR e) xr.
    Proof. intros H. apply nth_In. apply F_trkR. exact H. Qed.

    Lemma beta_lbl p : In p lbl -> beta (fst p) = snd p.
    Proof.
      intros Hp. unfold beta_of. destruct (find (fun q => Nat.eqb (fst q) (fst p)) lbl) as [q|] eqn:F.
      - apply find_some in F. destruct F as [Hq E]. apply Nat.eqb_eq in E. apply F_fun; assumption.
      - apply (find_none _ _ F) in Hp. rewrite Nat.eqb_refl in Hp. discriminate.
    Qed.

    Notation fops2 := (fops shL shR A B xl xr).

    Lemma dim_lbl p : In p lbl -> label_dim fops2 (fst p) = dimB (snd p).
    Proof.
      intros Hp. unfold fops. cbn [label_dim fst snd].
      assert (LenL : length shL = length xl) by (rewrite F_len1; exact (g_len _ _ GL)).
      assert (LenR : length shR = length xr) by (rewrite F_len2; exact (g_len _ _ GR)).
      destruct (label_dim_in xl shL (fst p)) as [d|] eqn:EL.
      - destruct (label_dim_in_sound _ _ _ _ EL) as [ax [A1 [A2 _]]].
        assert (Hax : (ax < length xl)%nat) by (apply nth_error_Some; congruence).
        destruct (F_covL ax Hax) as [e [He Ht]].
        assert (Hl : labL e = fst p) by (cbv beta; rewrite Ht; apply nth_error_nth; exact A1).
        pose proof (F_fun _ _ (lbl_inL e He) Hp Hl) as Eb. cbn [snd] in Eb.
        pose proof (g_shp _ _ GL e He) as Sh. cbn [fst] in Sh. rewrite Ht in Sh.
        apply nth_error_nth with (d := O) in A2. congruence.
      - assert (HnL : ~ In (fst p) xl).
        { intros Hin. destruct (label_dim_in_some xl shL (fst p) LenL Hin) as [d E]. congruence. }
        unfold lbl_of in Hp. apply in_app_or in Hp. destruct Hp as [Hp|Hp].
        + apply in_map_iff in Hp. destruct Hp as [e [<- He]]. exfalso. apply HnL. cbn [fst]. apply labL_in. exact He.
        + apply in_map_iff in Hp. destruct Hp as [e0 [<- He0]]. cbn [fst snd].
          destruct (label_dim_in_some xr shR (labR e0) LenR (labR_in e0 He0)) as [d ER]. cbv beta in ER. rewrite ER.
          destruct (label_dim_in_sound _ _ _ _ ER) as [ax [A1 [A2 _]]].
          assert (Hax : (ax < length xr)%nat) by (apply nth_error_Some; congruence).
          destruct (F_covR ax Hax) as [e [He Ht]].
          assert (Hl : labR e = labR e0) by (cbv beta; rewrite Ht; apply nth_error_nth; exact A1).
          pose proof (F_fun _ _ (lbl_inR e He) (lbl_inR e0 He0) Hl) as Eb. cbn [snd] in Eb.
          pose proof (g_shp _ _ GR e He) as Sh. cbn [fst] in Sh. rewrite Ht in Sh.
          apply nth_error_nth with (d := O) in A2. congruence.
    Qed.

    (* ---------------------------------------------------------------- tracking in the new node *)
    Lemma keepL_in e : In e keepL <-> In e (tr_oax Lt) /\ ~ In (labL e) sumd.
    Proof. rewrite filter_In, negb_true_iff, nmem_false. tauto. Qed.
    Lemma keepR_in e : In e keepR <-> In e (tr_oax Rt) /\ ~ In (labR e) sumd.
    Proof. rewrite filter_In, negb_true_iff, nmem_false. tauto. Qed.

    Lemma sides_disjoint e : In e (tr_oax Lt) -> In e (tr_oax Rt) -> False.
    Proof.
      intros H1 H2. destruct (NoDup_app_inv _ _ F_lv) as [_ [_ D]]. apply (D (fst e)); [apply F_legsL | apply F_legsR]; assumption.
    Qed.

    Lemma trackN_L e : In e keepL -> trackd N e = idx_n (labL e) o.
    Proof.
      intros H. rewrite trackd_node.
      rewrite (track_app_l (fun e : leg => idx_n (nth (trackd Lt e) xl O) o) (fun e : leg => idx_n (nth (trackd Rt e) xr O) o) keepL keepR e H). reflexivity.
    Qed.
    Lemma trackN_R e : In e keepR -> trackd N e = idx_n (labR e) o.
    Proof.
      intros H. rewrite trackd_node.
      rewrite (track_app_r (fun e : leg => idx_n (nth (trackd Lt e) xl O) o) (fun e : leg => idx_n (nth (trackd Rt e) xr O) o) keepL keepR e); [reflexivity| |exact H].
      intros HL. apply keepL_in in HL. apply keepR_in in H. eapply sides_disjoint; [apply HL | apply H].
    Qed.

    Lemma closedN : closed_of n N = cl ++ newly.
    Proof. cbn [closed_of]. rewrite app_assoc. reflexivity. Qed.

    (** a leg of a leaf of the left child reads the same value before and after the fusion *)
    Lemma rd_L s y tid ax : In tid (leaves_of Lt) -> (ax < length (t_bids (tgetn tid)))%nat ->
      rd Lt s (map (rdl o beta s y) xl) (tid, ax) = rd N s y (tid, ax).
    Proof.
      intros Ht Hax. unfold rd. rewrite closedN. set (b := bondd n (tid, ax)).
      destruct (zmem b (closed_of n Lt)) eqn:EcL.
      - replace (zmem b (cl ++ newly)) with true; [reflexivity|]. symmetry. apply zmem_In. apply zmem_In in EcL.
        apply in_or_app. left. apply in_or_app. left. exact EcL.
      - destruct (g_str _ _ GL tid ax Ht Hax) as [E|He]; [fold b in E; congruence|].
        pose proof (lbl_inL _ He) as Hp. fold b in Hp.
        pose proof (F_open _ Hp) as Hno. cbn [snd] in Hno.
        rewrite (nth_indep _ O (rdl o beta s y O)) by (rewrite map_length; apply F_trkL; exact He).
        rewrite map_nth. unfold rdl. set (l := nth (trackd Lt (tid, ax)) xl O) in *.
        destruct (nmem l o) eqn:Eo.
        + apply nmem_In in Eo.
          assert (Hns : ~ In l sumd) by (rewrite summed_of_spec; tauto).
          assert (Hnn : ~ In b newly) by (intros Hb; apply Hns; apply (proj2 (F_sum _ Hp)); exact Hb).
          replace (zmem b (cl ++ newly)) with false.
          2:{ symmetry. apply zmem_false. intros Hin. apply in_app_or in Hin. tauto. }
          rewrite trackN_L by (apply keepL_in; split; assumption). reflexivity.
        + apply nmem_false in Eo.
          assert (Hs : In l sumd) by (apply summed_of_spec; split; [left; apply labL_in; exact He | exact Eo]).
          pose proof (proj1 (F_sum _ Hp) Hs) as Hb. cbn [snd] in Hb.
          replace (zmem b (cl ++ newly)) with true by (symmetry; apply zmem_In; apply in_or_app; right; exact Hb).
          f_equal. apply (beta_lbl _ Hp).
    Qed.
    Lemma rd_R s y tid ax : In tid (leaves_of Rt) -> (ax < length (t_bids (tgetn tid)))%nat ->
      rd Rt s (map (rdl o beta s y) xr) (tid, ax) = rd N s y (tid, ax).
    Proof.
      intros Ht Hax. unfold rd. rewrite closedN. set (b := bondd n (tid, ax)).
      destruct (zmem b (closed_of n Rt)) eqn:EcR.
      - replace (zmem b (cl ++ newly)) with true; [reflexivity|]. symmetry. apply zmem_In. apply zmem_In in EcR.
        apply in_or_app. left. apply in_or_app. right. exact EcR.
      - destruct (g_str _ _ GR tid ax Ht Hax) as [E|He]; [fold b in E; congruence|].
        pose proof (lbl_inR _ He) as Hp. fold b in Hp.
        pose proof (F_open _ Hp) as Hno. cbn [snd] in Hno.
        rewrite (nth_indep _ O (rdl o beta s y O)) by (rewrite map_length; apply F_trkR; exact He).
        rewrite map_nth. unfold rdl. set (l := nth (trackd Rt (tid, ax)) xr O) in *.
        destruct (nmem l o) eqn:Eo.
        + apply nmem_In in Eo.
          assert (Hns : ~ In l sumd) by (rewrite summed_of_spec; tauto).
          assert (Hnn : ~ In b newly) by (intros Hb; apply Hns; apply (proj2 (F_sum _ Hp)); exact Hb).
          replace (zmem b (cl ++ newly)) with false.
          2:{ symmetry. apply zmem_false. intros Hin. apply in_app_or in Hin. tauto. }
          rewrite trackN_R by (apply keepR_in; split; assumption). reflexivity.
        + apply nmem_false in Eo.
          assert (Hs : In l sumd) by (apply summed_of_spec; split; [right; apply labR_in; exact He | exact Eo]).
          pose proof (proj1 (F_sum _ Hp) Hs) as Hb. cbn [snd] in Hb.
          replace (zmem b (cl ++ newly)) with true by (symmetry; apply zmem_In; apply in_or_app; right; exact Hb).
          f_equal. apply (beta_lbl _ Hp).
    Qed.

    Lemma nth_idx_map {X} (f : nat -> X) l x d : In x l -> nth (idx_n x l) (map f l) d = f x.
    Proof.
      intros H. unfold idx_n. destruct (nindex_Some x l H) as [p Hp]. rewrite Hp. apply nindex_sound in Hp.
      apply nth_error_nth. rewrite nth_error_map, Hp. reflexivity.
    Qed.

    Lemma lbl_of_label l : In l xl \/ In l xr -> exists p, In p lbl /\ fst p = l.
    Proof.
      intros [H|H]; apply In_nth_error in H; destruct H as [ax Hax].
      - assert (Hlt : (ax < length xl)%nat) by (apply nth_error_Some; congruence).
        destruct (F_covL ax Hlt) as [e [He Ht]]. exists (labL e, bondd n e). split; [apply lbl_inL; exact He|].
        cbn [fst]. rewrite Ht. apply nth_error_nth. exact Hax.
      - assert (Hlt : (ax < length xr)%nat) by (apply nth_error_Some; congruence).
        destruct (F_covR ax Hlt) as [e [He Ht]]. exists (labR e, bondd n e). split; [apply lbl_inR; exact He|].
        cbn [fst]. rewrite Ht. apply nth_error_nth. exact Hax.
    Qed.

    Theorem node_good : good N (einsum_sem fops2 o).
    Proof.
      constructor.
      - (* the value *)
        intros y Hy. cbn [tr_out] in Hy.
        rewrite (fusion shL shR A B xl xr o (kdB dimB (closed_of n Lt)) (kdB dimB (closed_of n Rt))
                        (fun s yL => term Lt s yL) (fun s yR => term Rt s yR)) with (beta := beta) (dimB := dimB).
        + rewrite closedN. unfold kdB. rewrite <- !map_app.
          change (fsummed shL shR A B xl xr o) with sumd.
          apply (ksum_ext Z.eqb zeqb_eq).
          * rewrite map_map. cbn [fst]. rewrite map_id. exact F_nd.
          * intros s _. unfold term at 3. cbn [leaves_of]. rewrite map_app, lprod_app. f_equal.
            -- unfold term. apply lprod_map_ext. intros tid Ht. unfold leaf_term. cbv zeta. f_equal.
               apply map_ext_in. intros ax Hax. apply in_seq in Hax. apply rd_L; [exact Ht | lia].
            -- unfold term. apply lprod_map_ext. intros tid Ht. unfold leaf_term. cbv zeta. f_equal.
               apply map_ext_in. intros ax Hax. apply in_seq in Hax. apply rd_R; [exact Ht | lia].
        + intros yL HyL. apply (g_inv _ _ GL). rewrite HyL. exact F_len1.
        + intros yR HyR. apply (g_inv _ _ GR). rewrite HyR. exact F_len2.
        + intros yL. rewrite kdB_keys. apply term_local.
        + intros yR. rewrite kdB_keys. apply term_local.
        + rewrite !kdB_keys. change (fsummed shL shR A B xl xr o) with sumd. exact F_nd.
        + intros l Hl. change (fsummed shL shR A B xl xr o) with sumd in Hl.
          apply summed_of_spec in Hl. destruct Hl as [Hin _]. destruct (lbl_of_label l Hin) as [p [Hp <-]].
          rewrite (beta_lbl p Hp). apply dim_lbl. exact Hp.
      - cbn [einsum_sem fst tr_out]. apply map_length.
      - (* shapes *)
        intros e He. cbn [tr_oax] in He. cbn [einsum_sem fst]. apply in_app_or in He. destruct He as [He|He].
        + rewrite (trackN_L e He). apply keepL_in in He. destruct He as [He Hns].
          assert (Ho : In (labL e) o).
          { destruct (in_dec Nat.eq_dec (labL e) o) as [Hi|Hi]; [exact Hi|]. exfalso. apply Hns. apply summed_of_spec.
            split; [left; apply labL_in; exact He | exact Hi]. }
          rewrite nth_idx_map by exact Ho. apply (dim_lbl _ (lbl_inL e He)).
        + rewrite (trackN_R e He). apply keepR_in in He. destruct He as [He Hns].
          assert (Ho : In (labR e) o).
          { destruct (in_dec Nat.eq_dec (labR e) o) as [Hi|Hi]; [exact Hi|]. exfalso. apply Hns. apply summed_of_spec.
            split; [right; apply labR_in; exact He | exact Hi]. }
          rewrite nth_idx_map by exact Ho. apply (dim_lbl _ (lbl_inR e He)).
      - (* every leg is closed or open *)
        intros tid ax Ht Hax. cbn [leaves_of] in Ht. rewrite closedN. cbn [tr_oax].
        apply in_app_or in Ht. destruct Ht as [Ht|Ht].
        + destruct (g_str _ _ GL tid ax Ht Hax) as [E|He].
          * left. apply zmem_In. apply zmem_In in E. apply in_or_app. left. apply in_or_app. left. exact E.
          * destruct (in_dec Nat.eq_dec (labL (tid, ax)) sumd) as [Hs|Hs].
            -- left. apply zmem_In. apply in_or_app. right. apply (proj1 (F_sum _ (lbl_inL _ He)) Hs).
            -- right. apply in_or_app. left. apply keepL_in. auto.
        + destruct (g_str _ _ GR tid ax Ht Hax) as [E|He].
          * left. apply zmem_In. apply zmem_In in E. apply in_or_app. left. apply in_or_app. right. exact E.
          * destruct (in_dec Nat.eq_dec (labR (tid, ax)) sumd) as [Hs|Hs].
            -- left. apply zmem_In. apply in_or_app. right. apply (proj1 (F_sum _ (lbl_inR _ He)) Hs).
            -- right. apply in_or_app. right. apply keepR_in. auto.
      - intros tid Ht. cbn [leaves_of] in Ht. apply in_app_or in Ht.
        destruct Ht as [Ht|Ht]; [apply (g_lv _ _ GL) | apply (g_lv _ _ GR)]; exact Ht.
    Qed.
  End NodeSound.

  Theorem check_tree_sound t : check_tree n t = true ->
    exists v, tree_eval n data t = Some v /\ good t v.
  Proof.
    induction t as [tid o a k | i Lt IHl xl Rt IHr xr o a k]; intros H.
    - apply check_leaf_sound. exact H.
    - cbn [check_tree] in H. rewrite !andb_true_iff in H. destruct H as [[H1 H2] H3].
      destruct (IHl H1) as [[shL A] [EL GL]]. destruct (IHr H2) as [[shR B] [ER GR]].
      destruct (node_facts Lt Rt xl xr o a k H3) as [[F1 F2] [F3 [F4 [F5 [F6 [F7 [F8 [F9 [F10 [F11 [F12 F13]]]]]]]]]]].
      destruct (covered_spec _ _ F3) as [CL1 CL2]. destruct (covered_spec _ _ F4) as [CR1 CR2].
      pose proof (legs_ok_spec _ F5) as LL. pose proof (legs_ok_spec _ F6) as LR.
      exists (einsum_sem (fops shL shR A B xl xr) o). split.
      + cbn [tree_eval]. rewrite EL, ER. reflexivity.
      + subst a k.
        apply (node_good i Lt Rt xl xr o shL shR A B GL GR F1 F2 CL1 CL2 CR1 CR2
                 (fun e He => proj1 (LL e He)) (fun e He => proj1 (LR e He)) F7 F8 F9 F10 F13).
  Qed.

  (* ---------------------------------------------------------------- the root *)
  Lemma closed_nodup t : check_tree n t = true -> NoDup (closed_of n t).
  Proof.
    destruct t as [tid o a k | i Lt xl Rt xr o a k]; intros H; [constructor|].
    cbn [check_tree] in H. rewrite !andb_true_iff in H. destruct H as [_ H3].
    destruct (node_facts Lt Rt xl xr o a k H3) as [_ [_ [_ [_ [_ [_ [F8 _]]]]]]].
    cbn [closed_of]. rewrite app_assoc. exact F8.
  Qed.

  Lemma valid_equiv_gen (f : Z -> nat) vb amap x : amap = map f vb ->
    (forall b b', In b vb -> In b' vb -> f b = f b' -> b = b') -> length x = length vb ->
    deltas (K:=K) x vb (xv vb x) = if full_valid amap x then 1 else 0.
  Proof.
    intros Ea Inj Lx. rewrite deltas_bool by assumption. unfold full_valid.
    replace (length amap) with (length vb) by (rewrite Ea, map_length; reflexivity).
    erewrite forallb_ext_in; [reflexivity|]. intros j Hj. apply in_seq in Hj. cbn in Hj.
    destruct (nth_error vb j) as [b|] eqn:Eb; [|apply nth_error_None in Eb; lia].
    assert (Hb : In b vb) by (eapply nth_error_In; eauto).
    rewrite (nth_error_nth _ _ 0%Z Eb).
    replace (nth j amap O) with (f b).
    2:{ rewrite Ea. symmetry. apply nth_error_nth with (d := O). rewrite nth_error_map, Eb. reflexivity. }
    rewrite Ea, find_pos_map by (intros b' Hb' E; apply Inj; assumption).
    unfold xv. destruct (zindex_Some b vb Hb) as [k ->]. reflexivity.
  Qed.

  Lemma map_seq_nth {X} (F : nat -> X) (G : Z -> X) (bids : list Z) :
    (forall ax, (ax < length bids)%nat -> F ax = G (nth ax bids 0%Z)) -> map F (seq 0 (length bids)) = map G bids.
  Proof.
    intros H. rewrite <- (map_nth_seq bids 0%Z) at 2. rewrite map_map. apply map_ext_in.
    intros ax Hax. apply in_seq in Hax. apply H. lia.
  Qed.

  Theorem check_root_sound t amap v :
    check_root n t amap = true -> tree_eval n data t = Some v ->
    exists shp, shape n = Some shp /\ fst (to_full_tensor v amap) = shp /\
      forall x, in_range shp x -> snd (to_full_tensor v amap) x = defining_sum n data x.
  Proof.
    intros HR HE. unfold check_root in HR. cbv zeta in HR. rewrite !andb_true_iff in HR.
    destruct HR as [[[[[[[[[[[[R1 R2] R3] R4] R5] R6] R7] R8] R9] R10] R11] R12] R13].
    destruct (check_tree_sound t R1) as [v' [HE' G]]. rewrite HE in HE'. injection HE' as <-.
    destruct (covered_spec _ _ R2) as [Cov1 Cov2].
    pose proof (closed_nodup t R1) as NDcl.
    apply znodupb_NoDup in R4. rewrite forallb_forall in R6, R7, R8, R9, R11, R12, R13.
    apply Nat.eqb_eq in R10.
    destruct (In_key_dget VT (tensors n) (proj2 W)) as [vt Hvt].
    assert (Evb : vbids n = t_bids vt) by (unfold vbids; rewrite Hvt; reflexivity).
    rewrite Evb in *. set (vb := t_bids vt) in *.
    assert (vt_in : In (VT, vt) (tensors n)) by (apply dget_In; exact Hvt).
    assert (vtlen : length (t_shape vt) = length vb) by apply (wf_T n W0 VT vt vt_in).
    assert (vbsub : forall b, In b vb -> In b (dkeys (bonds n))).
    { intros b Hb. eapply wf_bids_exist; [exact W0 | exact vt_in | exact Hb]. }
    (* position of an open bond on the root tensor *)
    set (fp := fun b => match zindex b vb with Some j => nth j amap O | None => O end).
    assert (Inj13 : forall j j', (j < length vb)%nat -> (j' < length vb)%nat ->
                      (nth j amap O = nth j' amap O <-> nth j vb 0%Z = nth j' vb 0%Z)).
    { intros j j' Hj Hj'. specialize (R13 j (proj2 (in_seq _ _ _) (conj (Nat.le_0_l j) Hj))).
      rewrite forallb_forall in R13. specialize (R13 j' (proj2 (in_seq _ _ _) (conj (Nat.le_0_l j') Hj'))).
      apply eqb_prop in R13. rewrite <- Nat.eqb_eq, <- Z.eqb_eq, R13. tauto. }
    assert (Eam : amap = map fp vb).
    { apply nth_error_ext_lemma. intros j. rewrite nth_error_map. destruct (nth_error vb j) as [b|] eqn:Eb; cbn.
      - assert (Hj : (j < length vb)%nat) by (apply nth_error_Some; congruence).
        rewrite (nth_error_nth' _ O) by lia. f_equal. unfold fp.
        destruct (zindex_first b vb j Eb) as [q [Hq Hle]]. rewrite Hq. apply zindex_sound in Hq. destruct Hq as [Hq _].
        apply Inj13; [assumption | apply nth_error_Some; congruence|].
        rewrite (nth_error_nth _ _ 0%Z Eb), (nth_error_nth _ _ 0%Z Hq). reflexivity.
      - apply nth_error_None. apply nth_error_None in Eb. lia. }
    assert (fp_inj : forall b b', In b vb -> In b' vb -> fp b = fp b' -> b = b').
    { intros b b' Hb Hb' E. unfold fp in E. destruct (zindex_Some b vb Hb) as [j Hj]. destruct (zindex_Some b' vb Hb') as [j' Hj'].
      rewrite Hj, Hj' in E. apply zindex_sound in Hj, Hj'. destruct Hj as [Hj _]. destruct Hj' as [Hj' _].
      apply Inj13 in E; [|apply nth_error_Some; congruence | apply nth_error_Some; congruence].
      rewrite (nth_error_nth _ _ 0%Z Hj), (nth_error_nth _ _ 0%Z Hj') in E. exact E. }
    assert (Trk : forall e, In e (tr_oax t) -> In (bondd n e) vb /\ trackd t e = fp (bondd n e)).
    { intros e He. specialize (R9 e He). apply zmem_In in R9. split; [exact R9|].
      specialize (R11 e He). unfold fp. destruct (zindex (bondd n e) vb); [apply Nat.eqb_eq; exact R11 | discriminate]. }
    exists (t_shape vt). split; [unfold shape; rewrite Hvt; reflexivity|]. split.
    - (* shape *)
      cbn [to_full_tensor fst]. apply nth_error_ext_lemma. intros j. rewrite nth_error_map, Eam, nth_error_map.
      destruct (nth_error vb j) as [b|] eqn:Eb; cbn [option_map].
      + assert (Hj : (j < length vb)%nat) by (apply nth_error_Some; congruence).
        specialize (R12 j (proj2 (in_seq _ _ _) (conj (Nat.le_0_l j) Hj))). apply existsb_exists in R12.
        destruct R12 as [e [He Ee]]. apply Z.eqb_eq in Ee. rewrite (nth_error_nth _ _ 0%Z Eb) in Ee.
        destruct (Trk e He) as [_ Te]. rewrite Ee in Te. rewrite <- Te, (g_shp _ _ G e He), Ee.
        symmetry. apply (bond_dim_spec n VT vt j b W0 vt_in Eb).
      + symmetry. apply nth_error_None. rewrite vtlen. apply nth_error_None. exact Eb.
    - (* value *)
      intros x [Lx Rx]. rewrite vtlen in Lx.
      unfold defining_sum. rewrite Evb, (bond_kd_kdB n).
      change (fun s => lprod (map (fun T => data (t_ref T) (map s (t_bids T))) (real_tensors n)) * deltas x vb s)
        with (fun s => Gs n data s * deltas x vb s).
      rewrite (open_elim (dkeys (bonds n)) dimB vb x (wf_ndB n W0) vbsub Lx).
      2:{ intros j b Hj. apply Rx. apply (bond_dim_spec n VT vt j b W0 vt_in Hj). }
      2:{ apply resp_Gs. }
      rewrite (valid_equiv_gen fp vb amap x Eam fp_inj Lx).
      cbn [to_full_tensor snd]. destruct (full_valid amap x); [rewrite kmul_1_l | rewrite kmul_0_l; reflexivity].
      set (y := full_idx (fst v) amap x).
      assert (Ly : length y = length (tr_out t)).
      { unfold y, full_idx. rewrite map_length, seq_length. apply (g_len _ _ G). }
      rewrite (g_inv _ _ G y Ly).
      (* the closed bonds are exactly the bonds without an open leg *)
      assert (Pcl : Permutation (closed_of n t) (CB (dkeys (bonds n)) vb)).
      { apply NoDup_Permutation; [exact NDcl | apply NoDup_filter, (wf_ndB n W0)|].
        intros b. unfold CB. rewrite filter_In, negb_true_iff, zmem_false. split.
        - intros Hb. assert (HbK : In b (dkeys (bonds n))) by (apply zmem_In, R8; exact Hb).
          split; [exact HbK|]. specialize (R7 b HbK). intros Hv.
          replace (zmem b (closed_of n t)) with true in R7 by (symmetry; apply zmem_In; exact Hb).
          replace (zmem b vb) with true in R7 by (symmetry; apply zmem_In; exact Hv). discriminate.
        - intros [HbK Hnv]. specialize (R7 b HbK).
          replace (zmem b vb) with false in R7 by (symmetry; apply zmem_false; exact Hnv).
          destruct (zmem b (closed_of n t)) eqn:E; [apply zmem_In; exact E | discriminate]. }
      rewrite (ksum_perm Z.eqb zeqb_eq _ (kdB dimB (CB (dkeys (bonds n)) vb))).
      2:{ unfold kdB. apply Permutation_map. exact Pcl. }
      2:{ rewrite kdB_keys. exact NDcl. }
      2:{ intros e e' He. apply (term_local t y). intros; apply He. }
      apply (ksum_ext Z.eqb zeqb_eq); [rewrite kdB_keys; apply NoDup_filter, (wf_ndB n W0)|]. intros s _.
      (* the leaves are the real tensors *)
      assert (Plv : Permutation (map tgetn (leaves_of t)) (real_tensors n)).
      { unfold real_tensors.
        assert (Er : map snd (filter is_real (tensors n)) = map tgetn (dkeys (filter is_real (tensors n)))).
        { unfold dkeys. rewrite map_map. apply map_ext_in. intros [k0 t0] Hin. cbn. apply filter_In in Hin.
          destruct Hin as [Hin _]. unfold tgetn. rewrite (In_dget _ _ _ (wf_ndT n W0) Hin). reflexivity. }
        rewrite Er. apply Permutation_map.
        assert (Ek : dkeys (filter is_real (tensors n)) = filter (fun k0 => negb (Z.eqb k0 VT)) (dkeys (tensors n))).
        { unfold dkeys. clear. induction (tensors n) as [|[k0 t0] T IH]; [reflexivity|]. cbn. unfold is_real at 1. cbn.
          destruct (negb (k0 =? VT)%Z); cbn; rewrite IH; reflexivity. }
        rewrite Ek. apply NoDup_Permutation; [exact R4 | apply NoDup_filter, (wf_ndT n W0)|].
        intros tid. rewrite filter_In, negb_true_iff, Z.eqb_neq. split.
        - intros Ht. apply (g_lv _ _ G tid Ht).
        - intros [Hk Hne]. specialize (R6 tid Hk). apply orb_true_iff in R6. destruct R6 as [E|E].
          + apply Z.eqb_eq in E. contradiction.
          + apply zmem_In. exact E. }
      unfold Gs. rewrite <- (lprod_perm _ _ (Permutation_map _ Plv)). rewrite map_map.
      unfold term. apply lprod_map_ext. intros tid Ht. unfold leaf_term. cbv zeta. f_equal.
      apply map_seq_nth. intros ax Hax.
      assert (Eb : bondd n (tid, ax) = nth ax (t_bids (tgetn tid)) 0%Z).
      { unfold bondd, tgetn. cbn [fst snd]. destruct (g_lv _ _ G tid Ht) as [Hk _].
        destruct (In_key_dget tid (tensors n) Hk) as [T ->]. reflexivity. }
      unfold rd. rewrite Eb. set (b := nth ax (t_bids (tgetn tid)) 0%Z) in *.
      destruct (zmem b (closed_of n t)) eqn:Ec.
      + apply zmem_In in Ec. rewrite (over_out Z.eqb zeqb_eq); [reflexivity|]. rewrite kdB_keys. unfold OB.
        rewrite filter_In. intros [_ Hv]. apply zmem_In in Hv.
        apply (Permutation_in _ Pcl) in Ec. unfold CB in Ec. apply filter_In in Ec. destruct Ec as [_ Ec].
        apply negb_true_iff, zmem_false in Ec. contradiction.
      + destruct (g_str _ _ G tid ax Ht Hax) as [E|He]; [rewrite Eb in E; congruence|].
        destruct (Trk _ He) as [Hbv Te]. rewrite Eb in Hbv, Te.
        rewrite (over_in Z.eqb zeqb_eq) by (rewrite kdB_keys; unfold OB; apply filter_In; split; [apply vbsub; exact Hbv | apply zmem_In; exact Hbv]).
        rewrite Te. unfold y, full_idx.
        assert (Hlt : (fp b < length (fst v))%nat).
        { rewrite <- Te. rewrite (g_len _ _ G). apply Cov2. exact He. }
        rewrite nth_map_seq by exact Hlt. rewrite Eam, find_pos_map by (intros b' Hb' E; apply fp_inj; assumption).
        unfold xv. destruct (zindex_Some b vb Hbv) as [j ->]. reflexivity.
  Qed.
End TreeSound.

(** contract_tree: what it returns is the evaluation of the tree it returns *)
Lemma contract_tree_eval {K : Scalar} (n : net) (data : Z -> list nat -> K) s r :
  contract_tree n data s = Some r -> tree_eval n data (r_tree r) = Some (r_val r).
Proof.
  unfold contract_tree. destruct (build_contraction_tree n s) as [tr|]; [|discriminate].
  destruct (dget VT (tensors n)) as [vt|]; [|discriminate].
  destruct (omap _ (t_bids vt)) as [amap|]; [|discriminate].
  destruct (sort_indices_loop amap _ O) as [si c]. destruct (negb _); [discriminate|].
  destruct (permute_self tr _) as [tr'|]; [|discriminate].
  destruct (tree_eval n data tr') as [v|] eqn:E; [|discriminate]. intros [= <-]. cbn. exact E.
Qed.

(** tree contraction, validated: whenever the checker accepts what contract_tree built, the
    expanded result is the defining sum with the logical shape of the network *)
Theorem contract_tree_checked {K : Scalar} {L : ScalarLaws K} (n : net) (data : Z -> list nat -> K) s r :
  WF n -> contract_tree n data s = Some r -> check_root n (r_tree r) (r_amap r) = true ->
  exists shp, shape n = Some shp /\ fst (to_full_tensor (r_val r) (r_amap r)) = shp /\
    forall x, in_range shp x -> snd (to_full_tensor (r_val r) (r_amap r)) x = defining_sum n data x.
Proof.
  intros W H C. apply (check_root_sound n data W (r_tree r) (r_amap r) (r_val r) C).
  eapply contract_tree_eval; eauto.
Qed.
