(** C07 (a), continued: the functional form of as_einsum (as_einsum_spec) meets the hypotheses
    of TNEinsum.contract_with_correct on every network satisfying the invariant. *)
From Qib Require Export TN.TNEinsum.
From Coq Require Import Permutation.
Local Open Scope Z_scope.

Lemma kinsert_perm key x l : Permutation (x :: l) (kinsert key x l).
Proof.
  induction l as [|y l IH]; cbn; [reflexivity|]. destruct (Z.ltb (key x) (key y)); [reflexivity|].
  rewrite perm_swap. constructor. exact IH.
Qed.
Lemma ksort_perm key l : Permutation l (ksort key l).
Proof.
  unfold ksort. assert (G : forall acc, Permutation (l ++ acc) (fold_left (fun a x => kinsert key x a) l acc)).
  { induction l as [|x l IH]; intros acc; cbn; [reflexivity|].
    rewrite <- IH. rewrite <- kinsert_perm. apply Permutation_middle. }
  specialize (G []). rewrite app_nil_r in G. exact G.
Qed.

Lemma zfirst_occ_spec l : forall seen,
  NoDup (zfirst_occ l seen) /\ (forall x, In x (zfirst_occ l seen) <-> In x l /\ ~ In x seen).
Proof.
  induction l as [|x l IH]; intros seen; cbn [zfirst_occ].
  - split; [constructor | intros y; cbn; tauto].
  - destruct (zmem x seen) eqn:E.
    + apply zmem_In in E. destruct (IH seen) as [A B]. split; [assumption|]. intros y. rewrite B. cbn.
      split; [tauto|]. intros [[<-|H] H2]; [contradiction | tauto].
    + apply zmem_false in E. destruct (IH (seen ++ [x])) as [A B]. split.
      * constructor; [|assumption]. rewrite B, in_app_iff. cbn. tauto.
      * intros y. cbn. rewrite B, in_app_iff. cbn. split.
        -- intros [<-|[H1 H2]]; [tauto | split; [tauto | intros H; apply H2; left; exact H]].
        -- intros [[<-|H1] H2]; [left; reflexivity|]. destruct (Z.eq_dec x y); [left; assumption|].
           right. split; [assumption|]. intros [H|[H|[]]]; [contradiction | congruence].
Qed.

Lemma lab_of_inj bl b b' : In b bl -> In b' bl -> lab_of bl b = lab_of bl b' -> b = b'.
Proof.
  intros Hb Hb' E. unfold lab_of in E. destruct (zindex_Some b bl Hb) as [p Hp]. destruct (zindex_Some b' bl Hb') as [q Hq].
  rewrite Hp, Hq in E. subst q. apply zindex_sound in Hp, Hq. destruct Hp as [Hp _]. destruct Hq as [Hq _]. congruence.
Qed.

Lemma omap_app {A B} (f : A -> option B) l1 l2 r : omap f (l1 ++ l2) = Some r ->
  exists r1 r2, omap f l1 = Some r1 /\ omap f l2 = Some r2 /\ r = r1 ++ r2.
Proof.
  revert r. induction l1 as [|a l1 IH]; intros r H; cbn in *.
  - exists [], r. auto.
  - destruct (f a) as [y|]; [|discriminate]. destruct (omap f (l1 ++ l2)) as [ys|] eqn:E; [|discriminate].
    injection H as <-. destruct (IH ys eq_refl) as [r1 [r2 [H1 [H2 ->]]]]. rewrite H1. exists (y :: r1), r2. auto.
Qed.
Lemma omap_In {A B} (f : A -> option B) l r y : omap f l = Some r -> In y r -> exists x, In x l /\ f x = Some y.
Proof.
  revert r. induction l as [|a l IH]; intros r H Hy; cbn in H.
  - injection H as <-. destruct Hy.
  - destruct (f a) as [y'|] eqn:Ea; [|discriminate]. destruct (omap f l) as [ys|] eqn:El; [|discriminate].
    injection H as <-. destruct Hy as [<-|Hy]; [exists a; split; [left; reflexivity | assumption]|].
    destruct (IH ys eq_refl Hy) as [x [Hx Hf]]. exists x. split; [right; assumption | assumption].
Qed.
Lemma omap_map_total {A B} (f : A -> option B) (g : A -> B) l r : omap f l = Some r ->
  (forall x y, f x = Some y -> g x = y) -> r = map g l.
Proof.
  revert r. induction l as [|a l IH]; intros r H Hg; cbn in H; [injection H as <-; reflexivity|].
  destruct (f a) as [y|] eqn:Ea; [|discriminate]. destruct (omap f l) as [ys|] eqn:El; [|discriminate].
  injection H as <-. cbn. rewrite (Hg a y Ea). f_equal. apply IH; auto.
Qed.

Lemma removelast_map {A B} (f : A -> B) l : removelast (map f l) = map f (removelast l).
Proof.
  induction l as [|a l IH]; [reflexivity|]. cbn [map removelast]. destruct l as [|b l]; [reflexivity|].
  cbn [map] in *. rewrite IH. reflexivity.
Qed.
Lemma last_map {A B} (f : A -> B) l d : l <> [] -> last (map f l) (f d) = f (last l d).
Proof.
  induction l as [|a l IH]; [contradiction|]. intros _. cbn [map last]. destruct l as [|b l]; [reflexivity|].
  cbn [map] in *. apply IH. discriminate.
Qed.

Lemma perm_filter {A} (f : A -> bool) l l' : Permutation l l' -> Permutation (filter f l) (filter f l').
Proof.
  induction 1 as [|x l l' P IH|x y l|l l' l'' P1 IH1 P2 IH2]; cbn.
  - constructor.
  - destruct (f x); [constructor|]; assumption.
  - destruct (f y), (f x); first [apply perm_swap | apply Permutation_refl].
  - eapply Permutation_trans; eauto.
Qed.

Section Spec.
  Context {K : Scalar} {L : ScalarLaws K}.
  Variables (n : net) (data : Z -> list nat -> K).
  Hypothesis W : WF n.
  Let W0 : WF0 n := proj1 W.

  Definition tget (k : Z) : tensor := match dget k (tensors n) with Some t => t | None => mkT 0 [] [] 0 end.

  (** the functional form is an injective labelling in the sense of TNEinsum.ContractWith *)
  Lemma spec_hyps E : as_einsum_spec n = Some E ->
    exists (lab : Z -> nat) (ts : list tensor) (vt : tensor),
      (forall b b', In b (dkeys (bonds n)) -> In b' (dkeys (bonds n)) -> lab b = lab b' -> b = b') /\
      Permutation ts (real_tensors n) /\ dget VT (tensors n) = Some vt /\
      omap (fun tid => dget tid (tensors n)) (e_tids E) = Some ts /\
      e_tidx E = map (fun t => map lab (t_bids t)) ts /\
      e_out E = first_occ (map lab (t_bids vt)) [] /\
      omap (fun i => nindex i (e_out E)) (map lab (t_bids vt)) = Some (e_amap E).
  Proof.
    intros HE. unfold as_einsum_spec in HE.
    set (tids := sorted_tids n) in *.
    destruct (Z.eqb_spec (last tids 0) VT) as [Hlast|]; [|discriminate].
    destruct (omap (fun tid => dget tid (tensors n)) tids) as [tsall|] eqn:Ots; [|discriminate].
    unfold bond_order in HE. fold tids in HE. rewrite Ots in HE. cbn [option_map] in HE.
    set (bl := zfirst_occ (concat (map t_bids tsall)) []) in *.
    set (lab := lab_of bl) in *.
    destruct (omap _ (last (map (fun t => map lab (t_bids t)) tsall) [])) as [amap|] eqn:Oam; [|discriminate].
    injection HE as <-.
    (* the sorted ids: a permutation of the keys, the virtual tensor last *)
    assert (Pt : Permutation (dkeys (tensors n)) tids) by (apply ksort_perm).
    assert (NDt : NoDup tids) by (eapply Permutation_NoDup; [exact Pt | apply (wf_ndT n W0)]).
    assert (Hne : tids <> []).
    { intros E0. pose proof (proj2 W) as HV. rewrite E0 in Pt. apply Permutation_sym, Permutation_nil in Pt.
      rewrite Pt in HV. destruct HV. }
    pose proof (app_removelast_last 0 Hne) as Esplit. rewrite Hlast in Esplit.
    set (rtids := removelast tids) in *.
    assert (HVr : ~ In VT rtids).
    { rewrite Esplit in NDt. apply NoDup_remove_2 in NDt. rewrite app_nil_r in NDt. exact NDt. }
    rewrite Esplit in Ots. destruct (omap_app _ _ _ _ Ots) as [ts [tv [Ots1 [Ots2 ->]]]].
    cbn in Ots2. destruct (dget VT (tensors n)) as [vt|] eqn:Hvt; [|discriminate]. injection Ots2 as <-.
    (* structure of the index lists *)
    rewrite map_app in Oam. cbn [map] in Oam. rewrite last_last in Oam.
    assert (Etidx : removelast (map (fun t => map lab (t_bids t)) (ts ++ [vt])) = map (fun t => map lab (t_bids t)) ts).
    { rewrite map_app. cbn [map]. apply removelast_last. }
    assert (Eout : last (map (fun t => map lab (t_bids t)) (ts ++ [vt])) [] = map lab (t_bids vt)).
    { rewrite map_app. cbn [map]. apply last_last. }
    (* all bonds occur in the flattened leg list *)
    assert (Hbl : forall b, In b (dkeys (bonds n)) -> In b bl).
    { intros b Hb. unfold bl. apply zfirst_occ_spec. split; [|intros []].
      destruct (In_key_dget b (bonds n) Hb) as [bo Hbo].
      destruct (wf_B n W0 b bo (dget_In _ _ _ Hbo)) as [_ Hlen].
      destruct (b_tids bo) as [|tid rest] eqn:Et; [cbn in Hlen; lia|].
      assert (Htid : In tid (b_tids bo)) by (rewrite Et; left; reflexivity).
      pose proof (wf_tids_exist n b bo tid W0 (dget_In _ _ _ Hbo) Htid) as Hk.
      destruct (In_key_dget tid (tensors n) Hk) as [t Ht].
      assert (Hleg : In b (t_bids t)).
      { apply zcount_pos. pose proof (wf_inc n W0 tid b) as I. unfold cntT, cntB in I. rewrite Ht, Hbo in I.
        rewrite I. apply zcount_pos. assumption. }
      apply in_concat. exists (t_bids t). split; [|assumption]. apply in_map.
      assert (Hin : In tid (rtids ++ [VT])) by (rewrite <- Esplit; eapply Permutation_in; eauto).
      destruct (omap_spec _ _ _ Ots) as [_ Sp].
      apply In_nth_error in Hin. destruct Hin as [j Hj]. destruct (Sp j tid Hj) as [y [Ey Hy]].
      rewrite Ht in Ey. injection Ey as <-. eapply nth_error_In; eauto. }
    assert (lab_inj : forall b b', In b (dkeys (bonds n)) -> In b' (dkeys (bonds n)) -> lab b = lab b' -> b = b').
    { intros b b' Hb Hb' E. apply (lab_of_inj bl); auto. }
    (* the real tensors, in sorted order *)
    assert (Ets : ts = map tget rtids).
    { apply (omap_map_total _ _ _ _ Ots1). intros k t Hk. unfold tget. rewrite Hk. reflexivity. }
    assert (Pts : Permutation ts (real_tensors n)).
    { rewrite Ets. unfold real_tensors.
      assert (Er : map snd (filter is_real (tensors n)) = map tget (dkeys (filter is_real (tensors n)))).
      { unfold dkeys. rewrite map_map. apply map_ext_in. intros [k t] Hin. cbn. apply filter_In in Hin.
        destruct Hin as [Hin _]. unfold tget. rewrite (In_dget _ _ _ (wf_ndT n W0) Hin). reflexivity. }
      rewrite Er. apply Permutation_map.
      assert (Ek : dkeys (filter is_real (tensors n)) = filter (fun k => negb (Z.eqb k VT)) (dkeys (tensors n))).
      { unfold dkeys. clear. induction (tensors n) as [|[k t] T IH]; [reflexivity|]. cbn. unfold is_real at 1. cbn.
        destruct (negb (k =? VT)); cbn; rewrite IH; reflexivity. }
      rewrite Ek.
      assert (Ef : rtids = filter (fun k => negb (Z.eqb k VT)) (rtids ++ [VT])).
      { rewrite filter_app. replace (filter (fun k => negb (Z.eqb k VT)) [VT]) with (@nil Z) by reflexivity.
        rewrite app_nil_r. symmetry. apply filter_all_true.
        intros k Hk. apply negb_true_iff, Z.eqb_neq. intros ->. contradiction. }
      rewrite Ef at 1. rewrite <- Esplit. symmetry. apply perm_filter. exact Pt. }
    exists lab, ts, vt. cbn [e_tids e_tidx e_out e_amap]. rewrite Eout.
    split; [exact lab_inj|]. split; [exact Pts|]. split; [first [exact Hvt | reflexivity]|]. split; [exact Ots1|].
    split; [exact Etidx|]. split; [reflexivity | exact Oam].
  Qed.

  Theorem as_einsum_spec_correct E v am :
    as_einsum_spec n = Some E -> contract_with E n data = Some (v, am) ->
    exists shp, shape n = Some shp /\ am = e_amap E /\ fst (to_full_tensor v am) = shp /\
      forall x, in_range shp x -> snd (to_full_tensor v am) x = defining_sum n data x.
  Proof.
    intros HE HC. destruct (spec_hyps E HE) as [lab [ts [vt [LI [Pts [Hvt [H1 [H2 [H3 H4]]]]]]]]].
    destruct (contract_with_correct n data W lab LI ts vt E Pts Hvt H1 H2 H3 H4 v am HC) as [A [B C]].
    exists (t_shape vt). unfold shape. rewrite Hvt. cbn. auto.
  Qed.

  Theorem as_einsum_spec_total E : as_einsum_spec n = Some E ->
    real_tensors n <> [] \/ vbids n <> [] -> contract_with E n data <> None.
  Proof.
    intros HE NE. destruct (spec_hyps E HE) as [lab [ts [vt [LI [Pts [Hvt [H1 [H2 [H3 H4]]]]]]]]].
    apply (contract_with_total n data lab ts vt E Pts Hvt H1 H2 H3 H4).
    destruct NE as [N|N]; [left | right].
    - intros ->. apply N. apply Permutation_nil. exact Pts.
    - unfold vbids in N. rewrite Hvt in N. exact N.
  Qed.
End Spec.
