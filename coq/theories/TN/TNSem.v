(** C08 semantics: renames leave the defining sum unchanged, a transposition permutes it like
    numpy.transpose. *)
From Qib Require Export TN.TNTreeCheck.
From Coq Require Import Permutation.
Local Open Scope Z_scope.

Lemma bond_has_leg n b : WF0 n -> In b (dkeys (bonds n)) ->
  exists k t ax, In (k, t) (tensors n) /\ nth_error (t_bids t) ax = Some b.
Proof.
  intros W Hb. destruct (In_key_dget b (bonds n) Hb) as [bo Hbo].
  destruct (wf_B n W b bo (dget_In _ _ _ Hbo)) as [_ Hlen].
  destruct (b_tids bo) as [|tid rest] eqn:Et; [cbn in Hlen; lia|].
  assert (Htid : In tid (b_tids bo)) by (rewrite Et; left; reflexivity).
  pose proof (wf_tids_exist n b bo tid W (dget_In _ _ _ Hbo) Htid) as Hk.
  destruct (In_key_dget tid (tensors n) Hk) as [t Ht].
  assert (Hleg : In b (t_bids t)).
  { apply zcount_pos. pose proof (wf_inc n W tid b) as I. unfold cntT, cntB in I. rewrite Ht, Hbo in I.
    rewrite I. apply zcount_pos. assumption. }
  apply In_nth_error in Hleg. destruct Hleg as [ax Hax]. exists tid, t, ax. split; [apply dget_In; exact Ht | exact Hax].
Qed.

Lemma filter_all_false {A} (f : A -> bool) l : (forall x, In x l -> f x = false) -> filter f l = [].
Proof.
  induction l as [|x l IH]; intros H; [reflexivity|]. cbn. rewrite (H x (or_introl eq_refl)). apply IH.
  intros y Hy. apply H. right. exact Hy.
Qed.
Lemma dget_map_val {V W} (g : Z * V -> W) (d : dict V) k :
  dget k (map (fun kv => (fst kv, g kv)) d) = match dget k d with Some v => Some (g (k, v)) | None => None end.
Proof.
  induction d as [|[k0 v0] d IH]; [reflexivity|]. cbn. destruct (Z.eqb_spec k k0); [subst; reflexivity | exact IH].
Qed.

Lemma real_tensors_map (g : tensor -> tensor) T B :
  real_tensors (mkN (map (fun kx => (fst kx, g (snd kx))) T) B) = map g (real_tensors (mkN T B)).
Proof.
  unfold real_tensors. cbn [tensors]. induction T as [|[k t] T IH]; [reflexivity|]. cbn [map filter fst snd].
  replace (is_real (k, g t)) with (is_real (k, t)) by reflexivity.
  destruct (is_real (k, t)); cbn [map snd]; [f_equal|]; exact IH.
Qed.

Section RenameTensorSem.
  Context {K : Scalar} {L : ScalarLaws K}.
  Local Open Scope K_scope.

  Theorem rename_tensor_value n a c n' (data : Z -> list nat -> K) x :
    WF n -> rename_tensor n a c = Some n' -> defining_sum n' data x = defining_sum n data x.
  Proof.
    intros W H. pose proof (sstep_WF n (SRenT a c) n' W I H) as W'.
    destruct (rename_tensor_pub n a c n' H) as [Ha Hp]. clear H. rename Hp into H.
    destruct W as [W0 HV]. destruct W' as [W0' HV'].
    destruct (rename_tensor_spec n a c n' W0 H) as [t [Ht [Hc En']]].
    assert (Hac : a <> c) by (intros ->; apply Hc; eapply dget_Some_key; eauto).
    assert (HcV : c <> VT) by (intros ->; contradiction).
    (* keys and dimensions of the bonds *)
    assert (Ekd : bond_kd n' = bond_kd n).
    { unfold bond_kd. rewrite En' at 1. cbn [bonds]. unfold upd_all. rewrite map_map. cbn [fst].
      apply map_ext_in. intros [kb b] Hin. cbn [fst]. f_equal.
      destruct (bond_has_leg n kb W0 (in_map fst _ _ Hin)) as [k0 [t0 [ax [Hk0 Hax]]]].
      pose proof (bond_dim_spec n k0 t0 ax kb W0 Hk0 Hax) as S1.
      assert (Hk' : exists k1 t1, In (k1, t1) (tensors n') /\ t_bids t1 = t_bids t0 /\ t_shape t1 = t_shape t0).
      { rewrite En'. cbn [tensors]. destruct (Z.eq_dec k0 a) as [->|Hne].
        - exists c, (set_tid t c). assert (t0 = t) by (apply In_dget in Hk0; [congruence | apply (wf_ndT n W0)]). subst t0.
          split; [apply in_or_app; right; left; reflexivity | auto].
        - exists k0, t0. split; [|auto]. apply in_or_app. left. rewrite dpop_filter by apply (wf_ndT n W0).
          apply filter_In. split; [exact Hk0|]. apply negb_true_iff, Z.eqb_neq. exact Hne. }
      destruct Hk' as [k1 [t1 [Hk1 [Eb Es]]]]. rewrite <- Eb in Hax.
      pose proof (bond_dim_spec n' k1 t1 ax kb W0' Hk1 Hax) as S2. rewrite Es in S2. congruence. }
    assert (Evb : vbids n' = vbids n).
    { unfold vbids. rewrite En'. cbn [tensors]. rewrite dget_app, dget_dpop by apply (wf_ndT n W0).
      destruct (Z.eqb_spec VT a); [congruence|]. destruct (In_key_dget VT (tensors n) HV) as [vt ->]. reflexivity. }
    unfold defining_sum. rewrite Ekd, Evb.
    apply (ksum_ext Z.eqb zeqb_eq).
    { rewrite bond_kd_kdB, kdB_keys. apply (wf_ndB n W0). }
    intros s _. f_equal.
    (* the real tensors: the renamed one moved to the end *)
    assert (P : Permutation (map (fun T => (t_bids T, t_ref T)) (real_tensors n'))
                            (map (fun T => (t_bids T, t_ref T)) (real_tensors n))).
    { unfold real_tensors. rewrite En'. cbn [tensors]. rewrite filter_app, map_app, map_app. cbn [filter].
      unfold is_real at 2. cbn [fst]. destruct (Z.eqb_spec c VT); [contradiction|]. cbn [negb map snd set_tid t_bids t_ref].
      rewrite dpop_filter by apply (wf_ndT n W0). rewrite filter_filter.
      (* split the original list at the key a *)
      pose proof (wf_ndT n W0) as ND. clear - ND Ht Ha.
      induction (tensors n) as [|[k0 t0] T IH]; [discriminate|]. cbn in Ht. inversion ND; subst.
      destruct (Z.eqb_spec a k0).
      - injection Ht as ->. subst k0. cbn [filter fst]. rewrite Z.eqb_refl. cbn [negb andb].
        unfold is_real at 2. cbn [fst]. destruct (Z.eqb_spec a VT); [contradiction|]. cbn [negb map snd].
        rewrite (filter_ext_in _ is_real).
        + symmetry. apply Permutation_cons_append.
        + intros [k1 t1] Hin. cbn [fst]. destruct (Z.eqb_spec k1 a); [|cbn; reflexivity].
          subst. exfalso. apply H1. apply (in_map fst) in Hin. exact Hin.
      - cbn [filter fst]. destruct (Z.eqb_spec k0 a); [congruence|]. cbn [negb andb].
        destruct (is_real (k0, t0)); cbn [map snd app].
        + apply perm_skip. apply IH; assumption.
        + apply IH; assumption. }
    transitivity (lprod (map (fun p : list Z * Z => data (snd p) (map s (fst p)))
                             (map (fun T => (t_bids T, t_ref T)) (real_tensors n')))).
    { rewrite map_map. reflexivity. }
    rewrite (lprod_perm _ _ (Permutation_map _ P)). rewrite map_map. reflexivity.
  Qed.
End RenameTensorSem.

(** numpy.transpose(V, axes)[x] = V[y] with y[axes[k]] = x[k] *)
Definition untranspose (axes x : list nat) : list nat :=
  map (fun j => nth (idx_n j axes) x O) (seq 0 (length axes)).

Section TransposeSem.
  Context {K : Scalar} {L : ScalarLaws K}.
  Local Open Scope K_scope.
  Add Ring KringTr : (s_ring K L).

  Lemma deltas_lprod x vb (s : Z -> nat) : length x = length vb ->
    deltas (K:=K) x vb s = lprod (map (fun j => delta (nth j x O) (s (nth j vb 0%Z))) (seq 0 (length vb))).
  Proof.
    revert vb. induction x as [|x0 x IH]; intros [|b0 vb] H; cbn in H; try discriminate; [reflexivity|].
    cbn [deltas length seq map]. rewrite lprod_cons. cbn [nth]. f_equal.
    rewrite <- seq_shift, map_map. cbn [nth]. apply IH. lia.
  Qed.

  Lemma real_tensors_dset n v : NoDup (dkeys (tensors n)) -> In VT (dkeys (tensors n)) ->
    real_tensors (mkN (dset VT v (tensors n)) (bonds n)) = real_tensors n.
  Proof.
    intros ND HV. unfold real_tensors. cbn [tensors]. rewrite dset_map by assumption. f_equal.
    clear. induction (tensors n) as [|[k0 t0] T IH]; [reflexivity|]. cbn [map filter fst].
    destruct (Z.eqb_spec k0 VT).
    - subst. unfold is_real at 1 3. cbn [fst]. rewrite Z.eqb_refl. cbn [negb]. exact IH.
    - assert (Er : is_real (k0, t0) = true) by (unfold is_real; cbn; apply negb_true_iff, Z.eqb_neq; assumption).
      rewrite !Er. f_equal. exact IH.
  Qed.

  (** V'[x] = V[y] with y[axes[k]] = x[k], for the axes as the accepted call uses them
      ([nat_axes]: negative entries counted from the last axis) *)
  Theorem transpose_value n axes n' (data : Z -> list nat -> K) x :
    WF n -> transpose n axes = Some n' -> length x = length axes ->
    defining_sum n' data x = defining_sum n data (untranspose (nat_axes n axes) x).
  Proof.
    intros W H Lx. pose proof (sstep_WF n (STrans axes) n' W I H) as W'.
    pose proof (transpose_is_perm n axes n' (proj1 W) H) as P.
    destruct W as [W0 HV]. destruct W' as [W0' HV'].
    destruct (transpose_spec n axes n' H) as [t [Ht [Pt [Hax En']]]].
    assert (NDax : NoDup (nat_axes n axes)) by (apply (Permutation_NoDup (Permutation_sym Pt)), seq_NoDup).
    assert (Lx' : length x = length (nat_axes n axes)).
    { rewrite Lx. unfold nat_axes. rewrite Ht. unfold norm_axes. rewrite !map_length. reflexivity. }
    clear Lx Pt. rename Lx' into Lx. set (axs := nat_axes n axes) in *.
    unfold is_perm_of, vbids in P. rewrite Ht in P.
    pose proof (wf_T n W0 VT t (dget_In _ _ _ Ht)) as [_ Hlen].
    assert (Lax : length axs = length (t_bids t)) by (rewrite (Permutation_length P), seq_length; reflexivity).
    assert (Ekd : bond_kd n' = bond_kd n).
    { unfold bond_kd. rewrite En' at 1. cbn [bonds]. apply map_ext_in. intros [kb b] Hin. cbn [fst]. f_equal.
      destruct (bond_has_leg n kb W0 (in_map fst _ _ Hin)) as [k0 [t0 [ax [Hk0 Hleg]]]].
      pose proof (bond_dim_spec n k0 t0 ax kb W0 Hk0 Hleg) as S1.
      assert (Hk' : exists k1 t1 ax1, In (k1, t1) (tensors n') /\ nth_error (t_bids t1) ax1 = Some kb /\
                      nth_error (t_shape t1) ax1 = nth_error (t_shape t0) ax).
      { rewrite En'. cbn [tensors]. destruct (Z.eq_dec k0 VT) as [->|Hne].
        - assert (t0 = t) by (apply In_dget in Hk0; [congruence | apply (wf_ndT n W0)]). subst t0.
          assert (Hin' : In ax axs).
          { eapply Permutation_in; [symmetry; exact P|]. apply in_seq. split; [lia|]. cbn. apply nth_error_Some. congruence. }
          apply In_nth_error in Hin'. destruct Hin' as [ax1 Hax1].
          exists VT, (transposed t axs), ax1. split; [|split].
          + apply In_dset_in; [apply (wf_ndT n W0) | exact HV | left; auto].
          + cbn [transposed t_bids]. rewrite nth_error_map, Hax1. cbn. f_equal. apply nth_error_nth. exact Hleg.
          + cbn [transposed t_shape]. rewrite nth_error_map, Hax1. cbn. symmetry. apply nth_error_nth'.
            rewrite Hlen. apply nth_error_Some. congruence.
        - exists k0, t0, ax. split; [|auto]. apply In_dset_in; [apply (wf_ndT n W0) | exact HV | right; auto]. }
      destruct Hk' as [k1 [t1 [ax1 [Hk1 [Eb Es]]]]].
      pose proof (bond_dim_spec n' k1 t1 ax1 kb W0' Hk1 Eb) as S2. congruence. }
    assert (Evb : vbids n' = map (fun ax => nth ax (t_bids t) 0%Z) axs).
    { unfold vbids. rewrite En'. cbn [tensors]. rewrite dget_dset, Z.eqb_refl. reflexivity. }
    assert (Evb0 : vbids n = t_bids t) by (unfold vbids; rewrite Ht; reflexivity).
    assert (Ert : real_tensors n' = real_tensors n) by (rewrite En'; apply real_tensors_dset; [apply (wf_ndT n W0) | exact HV]).
    unfold defining_sum. rewrite Ekd, Evb, Evb0, Ert.
    apply (ksum_ext Z.eqb zeqb_eq).
    { rewrite bond_kd_kdB, kdB_keys. apply (wf_ndB n W0). }
    intros s _. f_equal.
    set (vb := t_bids t) in *. set (m := length vb) in *.
    rewrite deltas_lprod by (rewrite map_length; exact Lx). rewrite map_length.
    rewrite deltas_lprod by (unfold untranspose; rewrite map_length, seq_length; exact Lax).
    fold m. rewrite Lax. fold m.
    (* reindex the second product along the permutation *)
    set (g := fun j => delta (K:=K) (nth j (untranspose axs x) O) (s (nth j vb 0%Z))).
    transitivity (lprod (map g axs)).
    - assert (Eg : map g axs = map (fun k => g (nth k axs O)) (seq 0 (length axs))).
      { rewrite <- (map_map (fun k => nth k axs O) g). rewrite map_nth_seq. reflexivity. }
      rewrite Eg, Lax. fold m. apply lprod_map_ext. intros k Hk. apply in_seq in Hk.
      unfold g. f_equal.
      + unfold untranspose. rewrite nth_map_seq by (rewrite Lax; apply Hax; apply nth_In; lia).
        f_equal. unfold idx_n.
        assert (Hn : nth_error axs k = Some (nth k axs O)) by (apply nth_error_nth'; lia).
        destruct (nindex_Some (nth k axs O) axs (nth_error_In _ _ Hn)) as [q Hq]. rewrite Hq.
        apply nindex_sound in Hq.
        apply (proj1 (NoDup_nth_error axs) NDax k q); [lia | congruence].
      + f_equal. apply nth_error_nth. rewrite nth_error_map. rewrite (nth_error_nth' axs O) by lia. reflexivity.
    - apply lprod_perm. apply Permutation_map. exact P.
  Qed.
End TransposeSem.

Section RenameBondSem.
  Context {K : Scalar} {L : ScalarLaws K}.
  Local Open Scope K_scope.
  Add Ring KringRB : (s_ring K L).

  Lemma deltas_map_rel x vb vb' (s s' : Z -> nat) : Forall2 (fun b b' => s b = s' b') vb vb' ->
    deltas (K:=K) x vb s = deltas x vb' s'.
  Proof.
    intros F. revert x. induction F as [|b b' vb vb' Hb F IH]; intros [|x0 x]; cbn [deltas]; try reflexivity.
    rewrite Hb, IH. reflexivity.
  Qed.

  Theorem rename_bond_value n a c n' (data : Z -> list nat -> K) x :
    WF n -> rename_bond n a c = Some n' -> defining_sum n' data x = defining_sum n data x.
  Proof.
    intros W H. pose proof (sstep_WF n (SRenB a c) n' W I H) as W'.
    destruct W as [W0 HV]. destruct W' as [W0' HV'].
    destruct (rename_bond_spec n a c n' W0 H) as [b [Hb [Hc En']]].
    assert (Hac : a <> c) by (intros ->; apply Hc; eapply dget_Some_key; eauto).
    assert (Ha : In a (dkeys (bonds n))) by (eapply dget_Some_key; eauto).
    set (rho := fun kb : Z => if Z.eqb kb a then c else kb).
    (* every tensor keeps its shape and data, its bond ids are renamed *)
    assert (ET : tensors n' = map (fun kx => (fst kx, set_bids (snd kx) (zreplace a c (t_bids (snd kx))))) (tensors n)).
    { rewrite En'. cbn [tensors]. unfold upd_all. apply map_ext_in. intros [k0 x0] Hin. cbn [fst snd]. f_equal.
      rewrite iter_rebid by assumption. destruct (zcount k0 (b_tids b)) eqn:Ec; [|reflexivity].
      assert (Hna : ~ In a (t_bids x0)).
      { apply zcount_0. pose proof (wf_inc n W0 k0 a) as Inc. unfold cntT, cntB in Inc.
        rewrite (In_dget _ _ _ (wf_ndT n W0) Hin), Hb in Inc. lia. }
      rewrite (zreplace_notin a c _ Hna). destruct x0; reflexivity. }
    assert (Hbk : forall k0 x0 bid, In (k0, x0) (tensors n) -> In bid (t_bids x0) -> In bid (dkeys (bonds n)) /\ bid <> c).
    { intros k0 x0 bid Hin Hbid. pose proof (wf_bids_exist n k0 x0 bid W0 Hin Hbid) as Hk. split; [exact Hk|].
      intros ->. contradiction. }
    (* dimensions *)
    assert (Edim : forall kb, In kb (dkeys (bonds n)) -> bond_dim n' (rho kb) = bond_dim n kb).
    { intros kb Hkb. destruct (bond_has_leg n kb W0 Hkb) as [k0 [t0 [ax [Hk0 Hleg]]]].
      pose proof (bond_dim_spec n k0 t0 ax kb W0 Hk0 Hleg) as S1.
      assert (Hk1 : In (k0, set_bids t0 (zreplace a c (t_bids t0))) (tensors n')).
      { rewrite ET. apply in_map_iff. exists (k0, t0). auto. }
      assert (Hleg1 : nth_error (t_bids (set_bids t0 (zreplace a c (t_bids t0)))) ax = Some (rho kb)).
      { cbn [set_bids t_bids]. rewrite nth_error_zreplace, Hleg. reflexivity. }
      pose proof (bond_dim_spec n' k0 _ ax (rho kb) W0' Hk1 Hleg1) as S2. cbn [set_bids t_shape] in S2. congruence. }
    (* the bonds of n, with a moved to the end *)
    set (rest := filter (fun kb => negb (Z.eqb kb a)) (dkeys (bonds n))).
    assert (Pk : Permutation (dkeys (bonds n)) (rest ++ [a])).
    { eapply Permutation_trans; [apply (filter_partition_perm (fun kb => Z.eqb kb a))|]. apply Permutation_app_head.
      assert (E : filter (fun kb => Z.eqb kb a) (dkeys (bonds n)) = [a]).
      { pose proof (wf_ndB n W0) as ND. clear - ND Ha. induction (dkeys (bonds n)) as [|y l IH]; [destruct Ha|].
        inversion ND; subst. cbn. destruct (Z.eqb_spec y a).
        - subst. f_equal. apply filter_all_false. intros z Hz. apply Z.eqb_neq. intros ->. contradiction.
        - destruct Ha as [Ha|Ha]; [congruence|]. apply IH; assumption. }
      rewrite E. reflexivity. }
    assert (Ek' : dkeys (bonds n') = rest ++ [c]).
    { rewrite En'. cbn [bonds]. rewrite dkeys_app, dkeys_dpop by apply (wf_ndB n W0). reflexivity. }
    assert (Evb : vbids n' = zreplace a c (vbids n)).
    { unfold vbids. rewrite ET. rewrite (dget_map_val _ _ VT). destruct (dget VT (tensors n)); reflexivity. }
    assert (Ert : real_tensors n' = map (fun T => set_bids T (zreplace a c (t_bids T))) (real_tensors n)).
    { destruct n' as [T' B']. cbn [tensors] in ET. subst T'.
      rewrite (real_tensors_map (fun T => set_bids T (zreplace a c (t_bids T))) (tensors n) B'). reflexivity. }
    unfold defining_sum.
    rewrite (bond_kd_kdB n'), Ek', (bond_kd_kdB n).
    rewrite (ksum_perm Z.eqb zeqb_eq (kdB (bond_dim n) (dkeys (bonds n))) (kdB (bond_dim n) (rest ++ [a]))).
    2:{ unfold kdB. apply Permutation_map. exact Pk. }
    2:{ rewrite kdB_keys. apply (wf_ndB n W0). }
    2:{ intros e e' He. f_equal; [apply lprod_map_ext; intros T _; f_equal; apply map_ext; intros; apply He | apply deltas_ext; intros; apply He]. }
    symmetry.
    set (Rel := fun (s s' : Z -> nat) => (forall kb, kb <> a -> kb <> c -> s' kb = s kb) /\ s' c = s a).
    apply (ksum_rel Z.eqb Z.eqb Rel).
    - unfold kdB. rewrite !map_app. apply Forall2_app.
      + apply Forall2_map_same. intros kb Hkb. unfold rest in Hkb. apply filter_In in Hkb. destruct Hkb as [HkK Hne].
        apply negb_true_iff, Z.eqb_neq in Hne. cbn [fst snd]. split.
        * rewrite <- (Edim kb HkK). unfold rho. destruct (Z.eqb_spec kb a); [contradiction | reflexivity].
        * intros s s' v [R1 R2]. assert (kb <> c) by (intros ->; contradiction). split.
          -- intros kb' N1 N2. unfold upd. destruct (Z.eqb kb' kb); [reflexivity | apply R1; assumption].
          -- unfold upd. destruct (Z.eqb_spec c kb); [congruence|]. destruct (Z.eqb_spec a kb); [congruence|]. exact R2.
      + constructor; [|constructor]. cbn [fst snd]. split.
        * rewrite <- (Edim a Ha). unfold rho. rewrite Z.eqb_refl. reflexivity.
        * intros s s' v [R1 R2]. split.
          -- intros kb' N1 N2. unfold upd. destruct (Z.eqb_spec kb' a); [contradiction|]. destruct (Z.eqb_spec kb' c); [contradiction|].
             apply R1; assumption.
          -- unfold upd. rewrite !Z.eqb_refl. reflexivity.
    - intros s s' [R1 R2].
      assert (Pt : forall bid, In bid (dkeys (bonds n)) -> s bid = s' (rho bid)).
      { intros bid Hbid. unfold rho. destruct (Z.eqb_spec bid a); [subst; symmetry; exact R2|].
        symmetry. apply R1; [assumption | intros ->; contradiction]. }
      rewrite Ert, Evb. f_equal.
      + rewrite map_map. unfold real_tensors. apply lprod_map_ext. intros T HT. cbn [set_bids t_ref t_bids].
        f_equal. unfold zreplace. rewrite map_map. apply map_ext_in. intros bid Hbid. apply Pt.
        apply in_map_iff in HT. destruct HT as [[k0 t0] [E HT]]. cbn in E. subst t0. apply filter_In in HT.
        destruct HT as [HT _]. apply (Hbk k0 T bid HT Hbid).
      + apply deltas_map_rel. unfold zreplace.
        assert (Hvb : forall bid, In bid (vbids n) -> In bid (dkeys (bonds n))).
        { intros bid Hbid. unfold vbids in Hbid. destruct (dget VT (tensors n)) as [vt|] eqn:Evt; [|destruct Hbid].
          apply (Hbk VT vt bid (dget_In _ _ _ Evt) Hbid). }
        clear - Pt Hvb. induction (vbids n) as [|b0 vb IH]; [constructor|]. cbn [map]. constructor.
        * apply (Pt b0). apply Hvb. left. reflexivity.
        * apply IH. intros bid Hbid. apply Hvb. right. exact Hbid.
    - split; [intros; reflexivity | reflexivity].
  Qed.
End RenameBondSem.
