(** placeholder, filled below *)
From Qib Require Export TN.TNCheck.
