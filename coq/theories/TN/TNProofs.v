(** C08 core: decidable form of the invariant, preservation along arbitrary operation
    sequences, counts. *)
From Qib Require Export TN.TNConsistent.
From Coq Require Import Permutation.
Local Open Scope Z_scope.

(* ------------------------------------------------------------------ the invariant as a boolean *)
Lemma legs_dims_In bid bids : forall (shp : list nat) ax d, nth_error bids ax = Some bid -> nth_error shp ax = Some d ->
  In d (map snd (filter (fun p => Z.eqb (fst p) bid) (combine bids shp))).
Proof.
  induction bids as [|b r IH]; intros [|s shp] [|ax] d H1 H2; cbn in *; try discriminate.
  - injection H1 as ->. injection H2 as ->. rewrite Z.eqb_refl. left. reflexivity.
  - destruct (Z.eqb b bid); [right|]; eapply IH; eauto.
Qed.

Lemma all_eq_nat_spec l x y : all_eq_nat l = true -> In x l -> In y l -> x = y.
Proof.
  destruct l as [|z l]; [intros _ []|]. cbn. intros H Hx Hy. rewrite forallb_forall in H.
  assert (A : forall w, In w (z :: l) -> w = z).
  { intros w [->|Hw]; [reflexivity|]. symmetry. apply Nat.eqb_eq. apply H. exact Hw. }
  rewrite (A x Hx), (A y Hy). reflexivity.
Qed.

Theorem wf_b_WF n : wf_b n = true -> WF n.
Proof.
  unfold wf_b. rewrite !andb_true_iff. intros [[[[[[A1 A2] A3] A4] A5] A6] A7].
  apply znodupb_NoDup in A1, A2. apply dhas_In in A3.
  rewrite forallb_forall in A4, A5, A6, A7.
  split; [|assumption]. constructor; try assumption.
  - intros k t Hin. specialize (A4 (k, t) Hin). cbn [fst snd] in A4. rewrite !andb_true_iff in A4.
    destruct A4 as [[B1 B2] _]. apply Z.eqb_eq in B1. apply Nat.eqb_eq in B2. auto.
  - intros k b Hin. specialize (A5 (k, b) Hin). cbn [fst snd] in A5. rewrite !andb_true_iff in A5.
    destruct A5 as [[B1 B2] _]. apply Z.eqb_eq in B1. apply Nat.leb_le in B2. auto.
  - intros k kb. unfold cntT, cntB.
    destruct (dget k (tensors n)) as [t|] eqn:Et; destruct (dget kb (bonds n)) as [b|] eqn:Eb.
    + specialize (A6 (k, t) (dget_In _ _ _ Et)). rewrite forallb_forall in A6.
      specialize (A6 (kb, b) (dget_In _ _ _ Eb)). apply Nat.eqb_eq in A6. exact A6.
    + apply zcount_0. intros Hin. specialize (A4 (k, t) (dget_In _ _ _ Et)). cbn [fst snd] in A4.
      rewrite !andb_true_iff in A4. destruct A4 as [_ B3]. rewrite forallb_forall in B3.
      specialize (B3 kb Hin). apply dhas_In in B3. apply dget_None in Eb. contradiction.
    + symmetry. apply zcount_0. intros Hin. specialize (A5 (kb, b) (dget_In _ _ _ Eb)). cbn [fst snd] in A5.
      rewrite !andb_true_iff in A5. destruct A5 as [_ B3]. rewrite forallb_forall in B3.
      specialize (B3 k Hin). apply dhas_In in B3. apply dget_None in Et. contradiction.
    + reflexivity.
  - intros kb. destruct (dget kb (bonds n)) as [b|] eqn:Eb.
    + specialize (A7 (kb, b) (dget_In _ _ _ Eb)). cbn [fst] in A7.
      set (L := concat (map (fun kt => legs_dims kb (snd kt)) (tensors n))) in *.
      exists (hd O L). intros k t ax Hin Hn.
      specialize (A4 (k, t) Hin). cbn [fst snd] in A4. rewrite !andb_true_iff in A4.
      destruct A4 as [[_ B2] _]. apply Nat.eqb_eq in B2.
      destruct (nth_error (t_shape t) ax) as [d|] eqn:Ed.
      2:{ apply nth_error_None in Ed. assert (ax < length (t_bids t))%nat by (apply nth_error_Some; congruence). lia. }
      f_equal.
      assert (Hd : In d L).
      { unfold L. apply in_concat. exists (legs_dims kb t). split.
        - apply in_map_iff. exists (k, t). auto.
        - unfold legs_dims. eapply legs_dims_In; eauto. }
      destruct L as [|z L']; [destruct Hd|]. cbn [hd].
      eapply all_eq_nat_spec; [exact A7 | exact Hd | left; reflexivity].
    + exists O. intros k t ax Hin Hn. exfalso.
      specialize (A4 (k, t) Hin). cbn [fst snd] in A4. rewrite !andb_true_iff in A4. destruct A4 as [_ B3].
      rewrite forallb_forall in B3. specialize (B3 kb (nth_error_In _ _ Hn)). apply dhas_In in B3.
      apply dget_None in Eb. contradiction.
Qed.

(* ------------------------------------------------------------------ operation sequences *)
(** the public rename_tensor = the private worker on everything but the virtual tensor *)
Lemma rename_tensor_pub n a c n' : rename_tensor n a c = Some n' -> a <> VT /\ rename_tensor_priv n a c = Some n'.
Proof.
  unfold rename_tensor. destruct (Z.eqb_spec a VT); [discriminate|]. auto.
Qed.

Inductive sop :=
| SRenT (a c : Z)
| SRenB (a c : Z)
| STrans (axes : list Z)
| SMerge (o : net) (joins : list (nat * nat)) (ordT ordB : list Z).

Definition sstep (n : net) (o : sop) : option net :=
  match o with
  | SRenT a c => rename_tensor n a c
  | SRenB a c => rename_bond n a c
  | STrans axes => transpose n axes
  | SMerge o joins ordT ordB => merge n o joins ordT ordB
  end.
(** a refused operation (ValueError) leaves the network as it is *)
Definition apply_op (n : net) (o : sop) : net := match sstep n o with Some n' => n' | None => n end.

(** the only thing the caller has to respect: the second operand of a merge is itself a
    consistent network.  Everything else is validated by the code (renaming the virtual
    tensor, axes that are not a permutation of all open axes, joins of unequal dimension or out
    of range are refused). *)
Definition op_ok (o : sop) : Prop :=
  match o with
  | SMerge o _ _ _ => WF o
  | _ => True
  end.
Definition operands_consistent (ops : list sop) : Prop := forall o, In o ops -> op_ok o.

Theorem sstep_WF n o n' : WF n -> op_ok o -> sstep n o = Some n' -> WF n'.
Proof.
  intros [W HV] G H. destruct o as [a c|a c|axes|o joins ordT ordB]; cbn [sstep op_ok] in *.
  - destruct (rename_tensor_pub n a c n' H) as [Ha Hp].
    split; [eapply rename_tensor_WF0; eauto|].
    destruct (rename_tensor_keys n a c n' W Hp) as [_ [_ [K _]]]. rewrite K. apply in_or_app. left.
    apply filter_In. split; [assumption|]. apply negb_true_iff, Z.eqb_neq. congruence.
  - split; [eapply rename_bond_WF0; eauto|].
    destruct (rename_bond_keys n a c n' W H) as [_ [_ [_ K]]]. rewrite K. assumption.
  - split; [eapply transpose_WF0; eauto|].
    destruct (transpose_spec n axes n' H) as [t [Ht [_ [_ ->]]]]. cbn [tensors].
    rewrite dkeys_dset_in; assumption.
  - apply (merge_WF n o joins ordT ordB n'); [split; assumption | exact G | exact H].
Qed.

Theorem apply_op_WF n o : WF n -> op_ok o -> WF (apply_op n o).
Proof.
  intros W G. unfold apply_op. destruct (sstep n o) eqn:E; [eapply sstep_WF; eauto | assumption].
Qed.

(** from any consistent start, along any sequence *)
Theorem sequence_WF ops : forall n, WF n -> operands_consistent ops -> WF (fold_left apply_op ops n).
Proof.
  induction ops as [|o ops IH]; intros n W G; [assumption|]. cbn [fold_left].
  apply IH; [apply apply_op_WF; [assumption | apply G; left; reflexivity] | intros o' Ho'; apply G; right; exact Ho'].
Qed.

Corollary sequence_consistent ops n :
  WF n -> operands_consistent ops -> is_consistent (fold_left apply_op ops n) = true.
Proof. intros W G. apply WF_is_consistent. apply sequence_WF; assumption. Qed.

(** every prefix of the sequence is consistent as well *)
Corollary sequence_consistent_prefix ops n k :
  WF n -> operands_consistent ops -> is_consistent (fold_left apply_op (firstn k ops) n) = true.
Proof.
  intros W G. apply sequence_consistent; [assumption|].
  intros o Ho. apply G. rewrite <- (firstn_skipn k ops). apply in_or_app. left. exact Ho.
Qed.
