(** Keyed finite sums [ksum] (TNValue): extensionality, permutation of the summation order,
    sums with a single non-zero term, change of keys; products over lists. *)
From Qib Require Export TN.TNValue.
From Coq Require Import Permutation.

Section KSumLemmas.
  Context {K : Scalar} {L : ScalarLaws K}.
  Context {A : Type} (aeqb : A -> A -> bool) (aeqb_eq : forall a b, aeqb a b = true <-> a = b).
  Local Open Scope K_scope.
  Add Ring KringSum : (s_ring K L).

  Notation env := (A -> nat).
  Notation upd := (upd aeqb).
  Notation ksum := (ksum aeqb).

  Lemma aeqb_refl a : aeqb a a = true. Proof. apply aeqb_eq. reflexivity. Qed.
  Lemma aeqb_neq a b : a <> b -> aeqb a b = false.
  Proof. intros H. destruct (aeqb a b) eqn:E; [apply aeqb_eq in E; contradiction | reflexivity]. Qed.
  Lemma aeq_dec (a b : A) : {a = b} + {a <> b}.
  Proof.
    destruct (aeqb a b) eqn:E; [left; apply aeqb_eq; exact E|].
    right. intros H. apply aeqb_eq in H. congruence.
  Qed.
  Lemma upd_same e k v : upd e k v k = v. Proof. unfold TNValue.upd. rewrite aeqb_refl. reflexivity. Qed.
  Lemma upd_other e k v k' : k' <> k -> upd e k v k' = e k'.
  Proof. intros H. unfold TNValue.upd. rewrite aeqb_neq by assumption. reflexivity. Qed.

  Definition resp (F : env -> K) : Prop := forall e e', (forall k, e k = e' k) -> F e = F e'.

  (** the environments the sum ranges over: e0 outside the keys, in range on the keys *)
  Definition reach (kd : list (A * nat)) (e0 e : env) : Prop :=
    (forall k, ~ In k (map fst kd) -> e k = e0 k) /\ (forall k d, In (k, d) kd -> (e k < d)%nat).

  Lemma ksum_ext kd : forall (F G : env -> K) e0, NoDup (map fst kd) ->
    (forall e, reach kd e0 e -> F e = G e) -> ksum kd F e0 = ksum kd G e0.
  Proof.
    induction kd as [|[k d] kd IH]; intros F G e0 ND H; cbn [TNValue.ksum].
    - apply H. split; [reflexivity | intros ? ? []].
    - cbn in ND. inversion ND as [|? ? Hk ND']; subst.
      apply lsum_map_ext. intros v Hv. apply in_seq in Hv. apply IH; [assumption|].
      intros e [R1 R2]. apply H. split.
      + intros k' Hk'. cbn in Hk'. rewrite R1 by (intros E; apply Hk'; right; exact E).
        apply upd_other. intros ->. apply Hk'. left. reflexivity.
      + intros k' d' [E|Hin]; [|eapply R2; eauto]. injection E as <- <-.
        rewrite R1 by assumption. rewrite upd_same. lia.
  Qed.

  Lemma ksum_zero kd : forall e0, ksum kd (fun _ => 0) e0 = (0 : K).
  Proof.
    induction kd as [|[k d] kd IH]; intros e0; cbn [TNValue.ksum]; [reflexivity|].
    apply lsum_map_zero. intros v _. apply IH.
  Qed.

  Lemma ksum_scal kd (c : K) : forall (F : env -> K) e0, ksum kd (fun e => c * F e) e0 = c * ksum kd F e0.
  Proof.
    induction kd as [|[k d] kd IH]; intros F e0; cbn [TNValue.ksum]; [reflexivity|].
    rewrite <- lsum_map_scal. apply lsum_map_ext. intros v _. apply IH.
  Qed.

  Lemma ksum_app kd1 kd2 (F : env -> K) : forall e0, ksum (kd1 ++ kd2) F e0 = ksum kd1 (fun e => ksum kd2 F e) e0.
  Proof.
    induction kd1 as [|[k d] kd1 IH]; intros e0; cbn [TNValue.ksum app]; [reflexivity|].
    apply lsum_map_ext. intros v _. apply IH.
  Qed.

  (** pointwise equal environments give equal sums *)
  Lemma ksum_env_ext kd (F : env -> K) : resp F -> forall e e', (forall k, e k = e' k) -> ksum kd F e = ksum kd F e'.
  Proof.
    intros RF. induction kd as [|[k d] kd IH]; intros e e' H; cbn [TNValue.ksum]; [apply RF; exact H|].
    apply lsum_map_ext. intros v _. apply IH. intros k'. unfold TNValue.upd. rewrite H. reflexivity.
  Qed.
  Lemma resp_ksum kd (F : env -> K) : resp F -> resp (ksum kd F).
  Proof. intros RF e e' H. apply ksum_env_ext; assumption. Qed.

  Lemma ksum_perm kd kd' (F : env -> K) : Permutation kd kd' -> NoDup (map fst kd) -> resp F ->
    forall e0, ksum kd F e0 = ksum kd' F e0.
  Proof.
    intros P. induction P as [| [k d] l l' P IH | [k1 d1] [k2 d2] l | l l' l'' P1 IH1 P2 IH2]; intros ND RF e0.
    - reflexivity.
    - cbn [TNValue.ksum]. cbn in ND. inversion ND; subst. apply lsum_map_ext. intros v _. apply IH; assumption.
    - cbn [TNValue.ksum]. cbn in ND. inversion ND as [|? ? H1 ND1]; subst.
      assert (k2 <> k1) by (intros ->; apply H1; left; reflexivity).
      rewrite lsum_map_swap. apply lsum_map_ext. intros v1 _. apply lsum_map_ext. intros v2 _.
      apply ksum_env_ext; [assumption|]. intros k. unfold TNValue.upd.
      destruct (aeqb k k1) eqn:E1, (aeqb k k2) eqn:E2; try reflexivity.
      apply aeqb_eq in E1, E2. congruence.
    - rewrite IH1 by assumption. apply IH2; [|assumption].
      eapply Permutation_NoDup; [apply Permutation_map; exact P1 | assumption].
  Qed.

  (** override e0 by estar on the keys of kd *)
  Definition over (kd : list (A * nat)) (estar e0 : env) : env :=
    fun k => if existsb (fun p => aeqb k (fst p)) kd then estar k else e0 k.
  Lemma over_in kd estar e0 k : In k (map fst kd) -> over kd estar e0 k = estar k.
  Proof.
    intros H. unfold over. replace (existsb _ kd) with true; [reflexivity|]. symmetry.
    apply existsb_exists. apply in_map_iff in H. destruct H as [p [E Hp]]. exists p. split; [assumption|].
    apply aeqb_eq. congruence.
  Qed.
  Lemma over_out kd estar e0 k : ~ In k (map fst kd) -> over kd estar e0 k = e0 k.
  Proof.
    intros H. unfold over. replace (existsb _ kd) with false; [reflexivity|]. symmetry.
    apply not_true_is_false. intros E. apply existsb_exists in E. destruct E as [p [Hp E]].
    apply aeqb_eq in E. apply H. apply in_map_iff. exists p. split; [congruence | assumption].
  Qed.

  (** a sum with at most one non-zero term *)
  Lemma ksum_single kd estar : forall (F : env -> K) e0, NoDup (map fst kd) -> resp F ->
    (forall k d, In (k, d) kd -> (estar k < d)%nat) ->
    (forall e, reach kd e0 e -> (exists k, In k (map fst kd) /\ e k <> estar k) -> F e = 0) ->
    ksum kd F e0 = F (over kd estar e0).
  Proof.
    induction kd as [|[k d] kd IH]; intros F e0 ND RF Hr Hz; cbn [TNValue.ksum].
    - apply RF. intros k. reflexivity.
    - cbn in ND. inversion ND as [|? ? Hk ND']; subst.
      rewrite (lsum_map_single _ _ (estar k)).
      + rewrite IH; try assumption.
        * apply RF. intros k'. destruct (aeq_dec k' k) as [->|Hne].
          -- rewrite over_out by assumption. rewrite upd_same. symmetry. apply over_in. left. reflexivity.
          -- destruct (in_dec aeq_dec k' (map fst kd)) as [Hin|Hnin].
             ++ rewrite !over_in; [reflexivity | right; assumption | assumption].
             ++ rewrite !over_out; [apply upd_other; assumption | intros [E|E]; [cbn in E; congruence | contradiction] | assumption].
        * intros k' d' Hin. apply (Hr k' d'). right. assumption.
        * intros e [R1 R2] [k' [Hk' Hne]]. apply Hz.
          -- split.
             ++ intros k'' Hk''. cbn in Hk''. rewrite R1 by (intros E; apply Hk''; right; exact E).
                apply upd_other. intros ->. apply Hk''. left. reflexivity.
             ++ intros k'' d'' [E|Hin]; [|eapply R2; eauto]. injection E as <- <-.
                rewrite R1 by assumption. rewrite upd_same. apply (Hr k d). left. reflexivity.
          -- exists k'. split; [right; assumption | assumption].
      + apply seq_NoDup.
      + apply in_seq. specialize (Hr k d (or_introl eq_refl)). lia.
      + intros v Hv Hne. apply in_seq in Hv.
        rewrite (ksum_ext kd F (fun _ => 0)); [apply ksum_zero | assumption|].
        intros e [R1 R2]. apply Hz.
        * split.
          -- intros k'' Hk''. cbn in Hk''. rewrite R1 by (intros E; apply Hk''; right; exact E).
             apply upd_other. intros ->. apply Hk''. left. reflexivity.
          -- intros k'' d'' [E|Hin]; [|eapply R2; eauto]. injection E as <- <-.
             rewrite R1 by assumption. rewrite upd_same. lia.
        * exists k. split; [left; reflexivity|]. rewrite R1 by assumption. rewrite upd_same. exact Hne.
  Qed.
End KSumLemmas.

(** change of keys: sums over aligned key lists with related environments *)
Section KSumRel.
  Context {K : Scalar} {A B : Type} (aeqb : A -> A -> bool) (beqb : B -> B -> bool).
  Lemma ksum_rel (R : (A -> nat) -> (B -> nat) -> Prop) kd1 kd2 (F1 : (A -> nat) -> K) (F2 : (B -> nat) -> K) :
    Forall2 (fun p q => snd p = snd q /\
                        forall e1 e2 v, R e1 e2 -> R (upd aeqb e1 (fst p) v) (upd beqb e2 (fst q) v)) kd1 kd2 ->
    (forall e1 e2, R e1 e2 -> F1 e1 = F2 e2) ->
    forall e1 e2, R e1 e2 -> ksum aeqb kd1 F1 e1 = ksum beqb kd2 F2 e2.
  Proof.
    intros FA HF. induction FA as [|[k1 d1] [k2 d2] l1 l2 [Hd Hu] FA IH]; intros e1 e2 HR; cbn [ksum].
    - apply HF. exact HR.
    - cbn in Hd. subst d2. apply lsum_map_ext. intros v _. apply IH. apply Hu. exact HR.
  Qed.
End KSumRel.

(* ------------------------------------------------------------------ products *)
Section Prod.
  Context {K : Scalar} {L : ScalarLaws K}.
  Local Open Scope K_scope.
  Add Ring KringProd : (s_ring K L).

  Lemma kmul_1_r (a : K) : a * 1 = a. Proof. ring. Qed.
  Lemma kmul_1_l (a : K) : 1 * a = a. Proof. ring. Qed.
  Lemma kmul_0_l (a : K) : 0 * a = 0. Proof. ring. Qed.
  Lemma lprod_nil : lprod (K:=K) [] = 1. Proof. reflexivity. Qed.
  Lemma lprod_cons (x : K) l : lprod (x :: l) = x * lprod l. Proof. reflexivity. Qed.
  Lemma lprod_app (a b : list K) : lprod (a ++ b) = lprod a * lprod b.
  Proof. induction a as [|x a IH]; cbn [app]; rewrite ?lprod_cons, ?lprod_nil; [ring|]. rewrite IH. ring. Qed.
  Lemma lprod_perm (a b : list K) : Permutation a b -> lprod a = lprod b.
  Proof.
    induction 1; rewrite ?lprod_cons; try reflexivity; try congruence.
    ring.
  Qed.
  Lemma lprod_ones (l : list K) : (forall x, In x l -> x = 1) -> lprod l = 1.
  Proof.
    induction l as [|x l IH]; intros H; [reflexivity|]. rewrite lprod_cons, (H x (or_introl eq_refl)), IH; [ring|].
    intros y Hy. apply H. right. exact Hy.
  Qed.
  Lemma lprod_map_ext {A} (f g : A -> K) l : (forall x, In x l -> f x = g x) -> lprod (map f l) = lprod (map g l).
  Proof.
    induction l as [|x l IH]; intros H; [reflexivity|]. cbn [map]. rewrite !lprod_cons, (H x (or_introl eq_refl)), IH; [reflexivity|].
    intros y Hy. apply H. right. exact Hy.
  Qed.
  Lemma lprod_zero (l : list K) : In 0 l -> lprod l = 0.
  Proof.
    induction l as [|x l IH]; [intros []|]. intros [->|H]; rewrite lprod_cons; [ring|]. rewrite IH by assumption. ring.
  Qed.
End Prod.
