(** The root of the contraction tree: contract_tree's axes map (track_open), the sort_indices
    loop and the root permutation.  With TNBuilder (the builder establishes the invariant BI for
    every scaffold) and TNPermute (transposing the root and moving the axes map accordingly does
    not change the expanded tensor): tree contraction along ANY admissible scaffold returns the
    defining sum - without a run-time check. *)
From Qib Require Export TN.TNBuilder TN.TNPermute.
From Coq Require Import Permutation.
Local Open Scope Z_scope.

(* ------------------------------------------------------------------ track_open *)
Definition track_step (root : tree) (acc : option nat) (ta : leg) : option (option nat) :=
  if Z.eqb (fst ta) VT then Some acc
  else match track_of root ta with
       | None => None
       | Some k => match acc with
                   | None => Some (Some k)
                   | Some k0 => if Nat.eqb k0 k then Some acc else None
                   end
       end.

Lemma track_open_unfold n root bid :
  track_open n root bid =
  match dget bid (bonds n), get_bond_axes n bid with
  | Some b, Some axs =>
      match ofold (track_step root) (combine (b_tids b) axs) None with
      | Some (Some k) => Some k
      | _ => None
      end
  | _, _ => None
  end.
Proof. reflexivity. Qed.

Lemma track_fold_inv root legs : forall acc r, ofold (track_step root) legs acc = Some r ->
  (forall k0, acc = Some k0 -> r = Some k0) /\
  (forall e, In e legs -> fst e <> VT -> exists k, track_of root e = Some k /\ r = Some k) /\
  (acc = None -> (forall e, In e legs -> fst e = VT) -> r = None).
Proof.
  induction legs as [|e legs IH]; intros acc r H; cbn [ofold] in H.
  - injection H as <-. split; [auto|]. split; [intros e []|]. auto.
  - destruct (track_step root acc e) as [acc'|] eqn:Es; [|discriminate]. unfold track_step in Es.
    destruct (Z.eqb_spec (fst e) VT) as [Ev|Ev].
    + injection Es as <-. destruct (IH _ _ H) as [A [B C]]. split; [exact A|]. split.
      * intros e' [<-|He'] Hne; [contradiction | apply B; assumption].
      * intros Ha Hall. apply C; [exact Ha|]. intros e' He'. apply Hall. right. exact He'.
    + destruct (track_of root e) as [k|] eqn:Et; [|discriminate].
      destruct acc as [k0|].
      * destruct (Nat.eqb_spec k0 k) as [->|]; [|discriminate]. injection Es as <-.
        destruct (IH _ _ H) as [A [B C]]. split; [exact A|]. split.
        -- intros e' [<-|He'] Hne; [exists k; split; [exact Et | apply A; reflexivity] | apply B; assumption].
        -- discriminate.
      * injection Es as <-. destruct (IH _ _ H) as [A [B C]]. split; [discriminate|]. split.
        -- intros e' [<-|He'] Hne; [exists k; split; [exact Et | apply A; reflexivity] | apply B; assumption].
        -- intros _ Hall. exfalso. apply Ev. apply Hall. left. reflexivity.
Qed.

Lemma track_fold_total root k legs : forall acc,
  (forall e, In e legs -> fst e <> VT -> track_of root e = Some k) -> (acc = None \/ acc = Some k) ->
  ofold (track_step root) legs acc = Some (if existsb (fun e => negb (Z.eqb (fst e) VT)) legs then Some k else acc).
Proof.
  induction legs as [|e legs IH]; intros acc H Ha; [reflexivity|]. cbn [ofold existsb].
  assert (Es : track_step root acc e = Some (if negb (Z.eqb (fst e) VT) then Some k else acc)).
  { unfold track_step. destruct (Z.eqb_spec (fst e) VT) as [Ev|Ev]; cbn [negb]; [reflexivity|].
    rewrite (H e (or_introl eq_refl) Ev). destruct Ha as [->| ->]; [reflexivity|]. rewrite Nat.eqb_refl. reflexivity. }
  rewrite Es. rewrite IH.
  - destruct (negb (Z.eqb (fst e) VT)); cbn [orb]; [|reflexivity]. destruct (existsb _ legs); reflexivity.
  - intros e' He'. apply H. right. exact He'.
  - destruct (negb (Z.eqb (fst e) VT)); [right; reflexivity | exact Ha].
Qed.

Section Root.
  Variable n : net.
  Hypothesis W : WF n.
  Let W0 : WF0 n := proj1 W.

  (** what track_open answers: every real leg of the bond is tracked to position k, and there is one *)
  Definition TO (t : tree) (b : Z) (k : nat) : Prop :=
    (forall e, In e (blegs n b) -> fst e <> VT -> track_of t e = Some k) /\
    (exists e, In e (blegs n b) /\ fst e <> VT).

  Lemma track_open_TO t b k : track_open n t b = Some k -> TO t b k.
  Proof.
    rewrite track_open_unfold. unfold TO, blegs.
    destruct (dget b (bonds n)) as [bd|]; [|discriminate]. destruct (get_bond_axes n b) as [axs|]; [|discriminate].
    destruct (ofold (track_step t) (combine (b_tids bd) axs) None) as [[k'|]|] eqn:E; try discriminate.
    intros [= ->]. destruct (track_fold_inv t _ _ _ E) as [_ [B C]]. split.
    - intros e He Hne. destruct (B e He Hne) as [k' [A1 A2]]. congruence.
    - destruct (existsb (fun e => negb (Z.eqb (fst e) VT)) (combine (b_tids bd) axs)) eqn:Ex.
      + apply existsb_exists in Ex. destruct Ex as [e [He Hn]]. exists e. split; [exact He|].
        apply negb_true_iff in Hn. apply Z.eqb_neq. exact Hn.
      + exfalso. assert (Some k = None) as Hc; [|discriminate]. apply C; [reflexivity|]. intros e He.
        destruct (Z.eqb_spec (fst e) VT) as [Ev|Ev]; [exact Ev|]. exfalso.
        assert (existsb (fun e => negb (Z.eqb (fst e) VT)) (combine (b_tids bd) axs) = true); [|congruence].
        apply existsb_exists. exists e. split; [exact He|]. apply negb_true_iff. apply Z.eqb_neq. exact Ev.
  Qed.
  Lemma TO_track_open t b k : In b (dkeys (bonds n)) -> TO t b k -> track_open n t b = Some k.
  Proof.
    intros Hb [A [e [He Hne]]]. rewrite track_open_unfold. unfold blegs in *.
    destruct (blegs_spec n W b Hb) as [bd [axs [E1 [E2 _]]]]. rewrite E1, E2 in *.
    rewrite (track_fold_total t k) by (auto).
    replace (existsb _ _) with true; [reflexivity|]. symmetry. apply existsb_exists. exists e. split; [exact He|].
    apply negb_true_iff. apply Z.eqb_neq. exact Hne.
  Qed.
  Lemma TO_fun t b k k' : TO t b k -> TO t b k' -> k = k'.
  Proof. intros [A [e [He Hne]]] [A' _]. specialize (A e He Hne). specialize (A' e He Hne). congruence. Qed.

  (* ---------------------------------------------------------------- the root passes check_root *)
  Theorem root_check t amap : BI n t ->
    (forall k, In k (dkeys (tensors n)) -> k = VT \/ In k (leaves_of t)) ->
    length amap = length (vbids n) ->
    (forall j b, nth_error (vbids n) j = Some b -> exists k, nth_error amap j = Some k /\ TO t b k) ->
    (forall p, (p < length (tr_out t))%nat -> In p amap) ->
    check_root n t amap = true.
  Proof.
    intros B Cover Lam HA Pos.
    set (vb := vbids n) in *.
    assert (vbsub : forall b, In b vb -> In b (dkeys (bonds n))).
    { intros b Hb. unfold vb, vbids in Hb. destruct (dget VT (tensors n)) as [vt|] eqn:Ev; [|destruct Hb].
      eapply wf_bids_exist; [exact W0 | apply dget_In; exact Ev | exact Hb]. }
    (* (A) the position of an open axis carries an open leg of its bond *)
    assert (FA : forall j b k, nth_error vb j = Some b -> nth_error amap j = Some k ->
                   exists e, In e (tr_oax t) /\ bondd n e = b /\ trackd t e = k).
    { intros j b k Hb Hk. destruct (HA j b Hb) as [k' [Hk' [A1 [e [He Hne]]]]]. assert (k' = k) by congruence. subst k'.
      destruct (track_of_In t e k (A1 e He Hne)) as [Ho Ht]. exists e. split; [exact Ho|]. split; [|exact Ht].
      apply (blegs_bond n W b e (vbsub b (nth_error_In _ _ Hb)) He). }
    (* (B) open legs sit on open bonds, at the position the axes map names *)
    assert (FB : forall e, In e (tr_oax t) -> In (bondd n e) vb /\
                   forall j, nth_error vb j = Some (bondd n e) -> nth_error amap j = Some (trackd t e)).
    { intros e He. pose proof (Pos _ (bi_trk _ _ B e He)) as Hp. apply In_nth_error in Hp. destruct Hp as [j Hj].
      destruct (nth_error vb j) as [b'|] eqn:Eb.
      2:{ apply nth_error_None in Eb. assert (j < length amap)%nat by (apply nth_error_Some; congruence). lia. }
      destruct (FA j b' _ Eb Hj) as [e' [He' [Eb' Et']]].
      assert (Ebb : bondd n e = b') by (rewrite <- Eb'; apply (bi_pos _ _ B e e' He He'); congruence).
      split; [rewrite Ebb; eapply nth_error_In; exact Eb|].
      intros j' Hj'. destruct (HA j' _ Hj') as [k [Hk [A1 _]]]. rewrite Hk. f_equal.
      destruct (bi_legs _ _ B e He) as [Hl Hv]. destruct (vleg_bond n W e Hv) as [_ [_ Hle]].
      assert (Hne : fst e <> VT) by (apply (bi_lv _ _ B _ Hl)).
      specialize (A1 e Hle Hne). apply track_of_In in A1. symmetry. apply A1. }
    (* (C) open bonds are not closed *)
    assert (FC : forall b, In b vb -> ~ In b (closed_of n t)).
    { intros b Hb Hc. destruct (bi_cl _ _ B b Hc) as [Hk A]. apply (blegs_VT n W b Hk) in Hb. destruct Hb as [e [He Ev]].
      specialize (A e He). rewrite Ev in A. apply (bi_lv _ _ B) in A. destruct A as [_ A]. apply A. reflexivity. }
    (* (D) the other bonds are closed *)
    assert (FD : forall b, In b (dkeys (bonds n)) -> ~ In b vb -> In b (closed_of n t)).
    { intros b Hk Hnv. pose proof (blegs_nonempty n W b Hk) as Hne. destruct (blegs n b) as [|e r] eqn:El; [congruence|].
      assert (He : In e (blegs n b)) by (rewrite El; left; reflexivity).
      assert (Hv : fst e <> VT) by (intros Ev; apply Hnv; apply (blegs_VT n W b Hk); exists e; auto).
      destruct (blegs_bond n W b e Hk He) as [Hvl Eb].
      destruct (Cover _ (blegs_tid n W b e Hk He)) as [Ev|Hl]; [contradiction|].
      destruct (bi_str _ _ B e Hl Hvl) as [Hc|Ho]; [rewrite <- Eb; exact Hc|].
      exfalso. apply Hnv. rewrite <- Eb. apply (FB e Ho). }
    unfold check_root. cbv zeta. fold vb. rewrite !andb_true_iff. repeat split.
    - apply (bi_chk _ _ B).
    - apply (covered_intro n). exact B.
    - apply legs_ok_intro. exact B.
    - apply NoDup_znodupb. apply (bi_lvnd _ _ B).
    - apply forallb_forall. intros tid Ht. apply negb_true_iff. apply Z.eqb_neq. apply (bi_lv _ _ B tid Ht).
    - apply forallb_forall. intros k Hk. destruct (Cover k Hk) as [->|Hl]; [rewrite Z.eqb_refl; reflexivity|].
      rewrite (proj2 (zmem_In _ _) Hl). apply orb_true_r.
    - apply forallb_forall. intros b Hb. destruct (zmem b vb) eqn:Ev.
      + apply zmem_In in Ev. rewrite (proj2 (zmem_false _ _) (FC b Ev)). reflexivity.
      + apply zmem_false in Ev. rewrite (proj2 (zmem_In _ _) (FD b Hb Ev)). reflexivity.
    - apply forallb_forall. intros b Hb. apply zmem_In. apply (bi_cl _ _ B b Hb).
    - apply forallb_forall. intros e He. apply zmem_In. apply (FB e He).
    - apply Nat.eqb_eq. exact Lam.
    - apply forallb_forall. intros e He. destruct (FB e He) as [Hin Hj].
      destruct (zindex_Some _ _ Hin) as [j Ej]. rewrite Ej. apply zindex_sound in Ej. destruct Ej as [Ej _].
      apply Nat.eqb_eq. symmetry. apply nth_error_nth. apply Hj. exact Ej.
    - apply forallb_forall. intros j Hj. apply in_seq in Hj.
      destruct (nth_error vb j) as [b|] eqn:Eb; [|apply nth_error_None in Eb; lia].
      destruct (HA j b Eb) as [k [Hk _]]. destruct (FA j b k Eb Hk) as [e [He [Ee _]]].
      apply existsb_exists. exists e. split; [exact He|]. apply Z.eqb_eq. rewrite Ee. symmetry. apply nth_error_nth. exact Eb.
    - apply forallb_forall. intros j Hj. apply forallb_forall. intros j' Hj'. apply in_seq in Hj, Hj'.
      destruct (nth_error vb j) as [b|] eqn:Eb; [|apply nth_error_None in Eb; lia].
      destruct (nth_error vb j') as [b'|] eqn:Eb'; [|apply nth_error_None in Eb'; lia].
      destruct (HA j b Eb) as [k [Hk T]]. destruct (HA j' b' Eb') as [k' [Hk' T']].
      rewrite (nth_error_nth _ _ O Hk), (nth_error_nth _ _ O Hk'), (nth_error_nth _ _ 0 Eb), (nth_error_nth _ _ 0 Eb').
      destruct (Nat.eqb_spec k k') as [E|E], (Z.eqb_spec b b') as [E'|E']; try reflexivity; exfalso.
      + apply E'. destruct (FA j b k Eb Hk) as [e [He [Ee Et]]]. destruct (FA j' b' k' Eb' Hk') as [e' [He' [Ee' Et']]].
        rewrite <- Ee, <- Ee'. apply (bi_pos _ _ B e e' He He'). congruence.
      + apply E. subst b'. exact (TO_fun t b k k' T T').
  Qed.
End Root.

(* ------------------------------------------------------------------ the sort_indices loop *)
Definition unwrap (o : option nat) : nat := match o with Some v => v | None => O end.
Fixpoint countS (l : list (option nat)) : nat :=
  match l with [] => O | Some _ :: r => S (countS r) | None :: r => countS r end.

Lemma countS_le l : (countS l <= length l)%nat.
Proof. induction l as [|[v|] l IH]; cbn; lia. Qed.
Lemma countS_full l : countS l = length l -> forall p, (p < length l)%nat -> exists v, nth p l None = Some v.
Proof.
  induction l as [|[v|] l IH]; cbn; intros H p Hp; [lia| |pose proof (countS_le l); lia].
  destruct p as [|p]; [exists v; reflexivity|]. apply IH; lia.
Qed.
Lemma countS_all l : (forall p, (p < length l)%nat -> exists v, nth p l None = Some v) -> countS l = length l.
Proof.
  induction l as [|x l IH]; intros H; [reflexivity|]. destruct (H O ltac:(cbn; lia)) as [v Hv]. cbn in Hv. subst x. cbn.
  f_equal. apply IH. intros p Hp. apply (H (S p)). cbn. lia.
Qed.
Lemma countS_set_nth l : forall ax v, (ax < length l)%nat -> nth ax l None = None ->
  countS (set_nth ax (Some v) l) = S (countS l).
Proof.
  induction l as [|x l IH]; intros [|ax] v H E; cbn in *; try lia.
  - subst x. reflexivity.
  - destruct x; rewrite IH by (lia || assumption); reflexivity.
Qed.
Lemma countS_repeat m : countS (repeat None m) = O.
Proof. induction m; cbn; auto. Qed.

(** the invariant of the loop: [seen] = the part of the axes map already processed *)
Record SI (nd : nat) (seen : list nat) (si : list (option nat)) (c : nat) : Prop := mkSI {
  si_len : length si = nd;
  si_cnt : countS si = c;
  si_val : forall p v, nth p si None = Some v -> (v < c)%nat /\ In p seen;
  si_inj : forall p p' v, nth p si None = Some v -> nth p' si None = Some v -> p = p';
  si_seen : forall p, In p seen -> exists v, nth p si None = Some v }.

Lemma sort_loop_inv nd : forall rest seen si c, (forall a, In a rest -> (a < nd)%nat) -> SI nd seen si c ->
  forall si' c', sort_indices_loop rest si c = (si', c') -> SI nd (seen ++ rest) si' c'.
Proof.
  induction rest as [|ax rest IH]; intros seen si c Hr I si' c' H; cbn [sort_indices_loop] in H.
  - injection H as <- <-. rewrite app_nil_r. exact I.
  - assert (Hax : (ax < nd)%nat) by (apply Hr; left; reflexivity).
    replace (seen ++ ax :: rest) with ((seen ++ [ax]) ++ rest) by (rewrite <- app_assoc; reflexivity).
    destruct (nth ax si None) as [v0|] eqn:E.
    + apply (IH (seen ++ [ax]) si c); [intros a Ha; apply Hr; right; exact Ha | | exact H].
      destruct I as [I1 I2 I3 I4 I5]. constructor; try assumption.
      * intros p v Hv. destruct (I3 p v Hv) as [A B]. split; [exact A | apply in_or_app; left; exact B].
      * intros p Hp. apply in_app_or in Hp. destruct Hp as [Hp|[<-|[]]]; [apply I5; exact Hp | exists v0; exact E].
    + apply (IH (seen ++ [ax]) (set_nth ax (Some c) si) (S c)); [intros a Ha; apply Hr; right; exact Ha | | exact H].
      destruct I as [I1 I2 I3 I4 I5].
      assert (Hl : (ax < length si)%nat) by lia.
      assert (V : forall p, nth p (set_nth ax (Some c) si) None = if Nat.eqb p ax then Some c else nth p si None)
        by (intros p; apply nth_set_nth; exact Hl).
      constructor.
      * rewrite set_nth_length. exact I1.
      * rewrite countS_set_nth by assumption. rewrite I2. reflexivity.
      * intros p v Hv. rewrite V in Hv. destruct (Nat.eqb_spec p ax) as [->|Hne].
        -- injection Hv as <-. split; [lia | apply in_or_app; right; left; reflexivity].
        -- destruct (I3 p v Hv) as [A B]. split; [lia | apply in_or_app; left; exact B].
      * intros p p' v Hv Hv'. rewrite V in Hv, Hv'.
        destruct (Nat.eqb_spec p ax) as [->|Hne], (Nat.eqb_spec p' ax) as [->|Hne']; try reflexivity.
        -- injection Hv as <-. destruct (I3 p' c Hv'). lia.
        -- injection Hv' as <-. destruct (I3 p c Hv). lia.
        -- apply (I4 p p' v Hv Hv').
      * intros p Hp. rewrite V. destruct (Nat.eqb_spec p ax) as [->|Hne]; [exists c; reflexivity|].
        apply in_app_or in Hp. destruct Hp as [Hp|[<-|[]]]; [apply I5; exact Hp | contradiction].
Qed.

Lemma sort_loop_SI nd amap si c : (forall a, In a amap -> (a < nd)%nat) ->
  sort_indices_loop amap (repeat None nd) O = (si, c) -> SI nd amap si c.
Proof.
  intros Ha H. apply (sort_loop_inv nd amap [] (repeat None nd) O Ha); [|exact H].
  constructor.
  - apply repeat_length.
  - apply countS_repeat.
  - intros p v Hv. rewrite nth_repeat in Hv. discriminate.
  - intros p p' v Hv. rewrite nth_repeat in Hv. discriminate.
  - intros p [].
Qed.

(** the assertion c == tree.ndim holds: sort_indices is a permutation and every leg of the root
    is named by the axes map *)
Lemma sort_loop_spec nd amap si : (forall a, In a amap -> (a < nd)%nat) ->
  sort_indices_loop amap (repeat None nd) O = (si, nd) ->
  is_perm (map unwrap si) /\ length (map unwrap si) = nd /\ forall p, (p < nd)%nat -> In p amap.
Proof.
  intros Ha H. destruct (sort_loop_SI nd amap si nd Ha H) as [I1 I2 I3 I4 I5].
  assert (Full : forall p, (p < nd)%nat -> exists v, nth p si None = Some v).
  { intros p Hp. apply countS_full; lia. }
  assert (Nu : forall p, (p < nd)%nat -> nth p si None = Some (nth p (map unwrap si) O)).
  { intros p Hp. destruct (Full p Hp) as [v Hv]. rewrite Hv. f_equal.
    rewrite (nth_indep _ O (unwrap None)) by (rewrite map_length; lia). rewrite map_nth, Hv. reflexivity. }
  split; [|split].
  - apply is_perm_intro.
    + apply (proj2 (NoDup_nth _ O)). rewrite map_length, I1. intros i j Hi Hj E.
      apply (I4 i j (nth i (map unwrap si) O)); [apply Nu; exact Hi | rewrite E; apply Nu; exact Hj].
    + intros x Hx. rewrite map_length, I1. apply (In_nth _ _ O) in Hx. destruct Hx as [p [Hp <-]].
      rewrite map_length, I1 in Hp. apply (I3 p). apply Nu. exact Hp.
  - rewrite map_length. exact I1.
  - intros p Hp. destruct (Full p Hp) as [v Hv]. apply (I3 p v Hv).
Qed.
Lemma sort_loop_total nd amap : (forall a, In a amap -> (a < nd)%nat) -> (forall p, (p < nd)%nat -> In p amap) ->
  exists si, sort_indices_loop amap (repeat None nd) O = (si, nd).
Proof.
  intros Ha Hp. destruct (sort_indices_loop amap (repeat None nd) O) as [si c] eqn:E.
  destruct (sort_loop_SI nd amap si c Ha E) as [I1 I2 I3 I4 I5]. exists si. f_equal. rewrite <- I2, <- I1.
  apply countS_all. intros p Hlt. apply I5. apply Hp. lia.
Qed.

(* ------------------------------------------------------------------ contract_tree *)
(** an admissible scaffold: a binary bracketing of exactly the real tensors of the network *)
Definition scaffold_ok (n : net) (s : scaffold) : Prop :=
  NoDup (sleaves s) /\ forall k, In k (sleaves s) <-> In k (dkeys (tensors n)) /\ k <> VT.

Section ContractTree.
  Context {K : Scalar} {L : ScalarLaws K}.
  Variables (n : net) (data : Z -> list nat -> K).
  Hypothesis W : WF n.

  (** what contract_tree has computed when it answers *)
  Lemma contract_tree_inv s r : contract_tree n data s = Some r ->
    exists tr vt amap si,
      build_contraction_tree n s = Some tr /\ dget VT (tensors n) = Some vt /\
      omap (track_open n tr) (t_bids vt) = Some amap /\
      sort_indices_loop amap (repeat None (length (tr_out tr))) O = (si, length (tr_out tr)) /\
      permute_self tr (inv_perm (map unwrap si)) = Some (r_tree r) /\
      tree_eval n data (r_tree r) = Some (r_val r) /\ r_amap r = pick O (map unwrap si) amap.
  Proof.
    unfold contract_tree. destruct (build_contraction_tree n s) as [tr|]; [|discriminate].
    destruct (dget VT (tensors n)) as [vt|]; [|discriminate].
    destruct (omap _ (t_bids vt)) as [amap|] eqn:Eo; [|discriminate].
    destruct (sort_indices_loop amap _ O) as [si c] eqn:Es.
    destruct (Nat.eqb_spec c (length (tr_out tr))) as [->|]; [|discriminate]. cbn [negb].
    change (map (fun o => match o with Some v => v | None => O end) si) with (map unwrap si).
    destruct (permute_self tr _) as [tr'|] eqn:Ep; [|discriminate].
    destruct (tree_eval n data tr') as [v|] eqn:Ev; [|discriminate]. intros [= <-]. cbn [r_tree r_val r_amap].
    exists tr, vt, amap, si. repeat (split; [first [reflexivity | assumption]|]). reflexivity.
  Qed.

  (** the unpermuted root passes the checker *)
  Lemma built_root_checked s tr vt amap si : scaffold_ok n s ->
    build_contraction_tree n s = Some tr -> dget VT (tensors n) = Some vt ->
    omap (track_open n tr) (t_bids vt) = Some amap ->
    sort_indices_loop amap (repeat None (length (tr_out tr))) O = (si, length (tr_out tr)) ->
    BI n tr /\ check_root n tr amap = true /\ is_perm (map unwrap si) /\ length (map unwrap si) = length (tr_out tr) /\
    (forall a, In a amap -> (a < length (tr_out tr))%nat).
  Proof.
    intros [ND Sc] Eb Ev Eo Es.
    destruct (build_tree_ok n W s (zmax0 (dkeys (tensors n)) + 1) ND (fun x H => proj1 (Sc x) H)) as [t [Et [B Lt]]].
    unfold build_contraction_tree in Eb. rewrite Et in Eb. injection Eb as ->.
    assert (Evb : vbids n = t_bids vt) by (unfold vbids; rewrite Ev; reflexivity).
    destruct (omap_spec _ _ _ Eo) as [Lam HA].
    assert (HA' : forall j b, nth_error (vbids n) j = Some b -> exists k, nth_error amap j = Some k /\ TO n tr b k).
    { intros j b Hb. rewrite Evb in Hb. destruct (HA j b Hb) as [k [A1 A2]]. exists k. split; [exact A2|].
      apply track_open_TO. exact A1. }
    assert (Hlt : forall a, In a amap -> (a < length (tr_out tr))%nat).
    { intros a Ha. apply In_nth_error in Ha. destruct Ha as [j Hj].
      destruct (nth_error (vbids n) j) as [b|] eqn:Eb.
      2:{ apply nth_error_None in Eb. assert (j < length amap)%nat by (apply nth_error_Some; congruence). rewrite Evb in Eb. lia. }
      destruct (HA' j b Eb) as [k [Hk [A1 [e [He Hne]]]]]. assert (k = a) by congruence. subst k.
      destruct (track_of_In tr e a (A1 e He Hne)) as [Ho <-]. apply (bi_trk _ _ B e Ho). }
    destruct (sort_loop_spec _ amap si Hlt Es) as [P [Lp Pos]].
    split; [exact B|]. split; [|auto].
    apply (root_check n W tr amap B).
    - intros k Hk. destruct (Z.eq_dec k VT) as [->|Hne]; [left; reflexivity|]. right. rewrite Lt. apply Sc. auto.
    - rewrite Evb. exact Lam.
    - exact HA'.
    - exact Pos.
  Qed.

  (** GOAL 1: tree contraction along any admissible scaffold is the defining sum *)
  Theorem contract_tree_correct s r : scaffold_ok n s -> contract_tree n data s = Some r ->
    exists shp, shape n = Some shp /\ fst (to_full_tensor (r_val r) (r_amap r)) = shp /\
      forall x, in_range shp x -> snd (to_full_tensor (r_val r) (r_amap r)) x = defining_sum n data x.
  Proof.
    intros Sc H. destruct (contract_tree_inv s r H) as [tr [vt [amap [si [Eb [Ev [Eo [Es [Ep [Ee Ea]]]]]]]]]].
    destruct (built_root_checked s tr vt amap si Sc Eb Ev Eo Es) as [B [C [P [Lp Hlt]]]].
    destruct (check_tree_sound n data W tr (bi_chk _ _ B)) as [v0 [E0 _]].
    destruct (check_root_sound n data W tr amap v0 C E0) as [shp [S1 [S2 S3]]].
    destruct (permute_root_full n data tr (map unwrap si) (r_tree r) v0 amap
                (check_root_tree_ok n data W tr amap C) P) as [v' [Ev' [T1 T2]]].
    { intros a Ha. rewrite Lp. apply Hlt. exact Ha. }
    { exact Ep. }
    { exact E0. }
    assert (v' = r_val r) by congruence. subst v'. rewrite Ea.
    exists shp. split; [exact S1|]. split; [rewrite T1; exact S2|]. intros x Hx. rewrite T2. apply S3. exact Hx.
  Qed.
End ContractTree.

(* ------------------------------------------------------------------ contract_tree answers *)
(** no open axis on a bond without a real tensor (the code raises "cannot track open axis" otherwise) *)
Definition open_ok (n : net) : Prop :=
  forall b, In b (vbids n) -> exists e, In e (blegs n b) /\ fst e <> VT.
(** a single-tensor scaffold: no two legs of the tensor on one bond (self-trace / two legs on one
    open bond: the recorded known findings) *)
Definition root_ok (n : net) (s : scaffold) : Prop :=
  match s with
  | SLeaf tid => forall t, dget tid (tensors n) = Some t -> NoDup (t_bids t)
  | SNode _ _ => True
  end.

Section Total.
  Context {K : Scalar} {L : ScalarLaws K}.
  Variables (n : net) (data : Z -> list nat -> K).
  Hypothesis W : WF n.
  Let W0 : WF0 n := proj1 W.

  Lemma blegs_two b : In b (dkeys (bonds n)) -> forall e, exists e', In e' (blegs n b) /\ e' <> e.
  Proof.
    intros Hb e. destruct (blegs_spec n W b Hb) as [bd [axs [E1 [E2 [Ln [ND _]]]]]].
    destruct (wf_B n W0 b bd (dget_In _ _ _ E1)) as [_ Hlen]. unfold blegs. rewrite E1, E2.
    destruct (b_tids bd) as [|x1 [|x2 r]]; cbn in Hlen; try lia.
    destruct axs as [|a1 [|a2 axs]]; cbn in Ln; try lia. cbn [combine] in *.
    inversion ND as [|? ? H1 _]; subst.
    destruct (legeqb (x1, a1) e) eqn:E.
    - apply legeqb_eq in E. subst e. exists (x2, a2). split; [right; left; reflexivity|].
      intros Eq. apply H1. rewrite <- Eq. left. reflexivity.
    - exists (x1, a1). split; [left; reflexivity|]. intros Eq. subst e. rewrite legeqb_refl in E. discriminate.
  Qed.

  Lemma scaffold_cases s next tr : build_tree n s next = Some tr -> (exists tid, s = SLeaf tid) \/ is_node tr.
  Proof. destruct s as [tid|a b]; intros H; [left; eauto | right; eapply build_tree_is_node; exact H]. Qed.

  Section Rooted.
    Variables (s : scaffold) (tr : tree).
    Hypothesis Sc : scaffold_ok n s.
    Hypothesis Ro : root_ok n s.
    Hypothesis Eb : build_contraction_tree n s = Some tr.
    Hypothesis B : BI n tr.
    Hypothesis Lt : leaves_of tr = sleaves s.

    Lemma leaf_root_leg tid e e' : s = SLeaf tid -> In e (tr_oax tr) -> In e' (tr_oax tr) -> bondd n e = bondd n e' -> e = e'.
    Proof.
      intros -> He He' E. destruct (bi_legs _ _ B e He) as [Hl [t [Et Hs]]]. destruct (bi_legs _ _ B e' He') as [Hl' [t' [Et' Hs']]].
      rewrite Lt in Hl, Hl'. cbn in Hl, Hl'. destruct Hl as [Hl|[]]. destruct Hl' as [Hl'|[]].
      unfold bondd in E. rewrite Et, Et' in E. rewrite <- Hl in Et. rewrite <- Hl' in Et'. assert (t' = t) by congruence. subst t'.
      pose proof (Ro t Et) as ND. rewrite (NoDup_nth _ 0) in ND. specialize (ND _ _ Hs Hs' E).
      destruct e, e'. cbn in *. congruence.
    Qed.

    Lemma root_uniq e e' : In e (tr_oax tr) -> In e' (tr_oax tr) -> bondd n e = bondd n e' -> trackd tr e = trackd tr e'.
    Proof.
      intros He He' E. destruct (scaffold_cases _ _ _ Eb) as [[tid Es]|Hn].
      - rewrite (leaf_root_leg tid e e' Es He He' E). reflexivity.
      - apply (bi_bond _ _ B); assumption.
    Qed.

    Lemma root_ext e : In e (tr_oax tr) -> In (bondd n e) (vbids n).
    Proof.
      intros He. destruct (bi_legs _ _ B e He) as [Hl Hv]. destruct (vleg_bond n W e Hv) as [_ [Hk Hle]].
      assert (Out : forall e', In e' (blegs n (bondd n e)) -> ~ In (fst e') (leaves_of tr) -> In (bondd n e) (vbids n)).
      { intros e' He' Hn. apply (blegs_VT n W _ Hk). exists e'. split; [exact He'|].
        destruct (Z.eq_dec (fst e') VT) as [Ev|Ev]; [exact Ev|]. exfalso. apply Hn. rewrite Lt. apply Sc.
        split; [apply (blegs_tid n W _ e' Hk He') | exact Ev]. }
      destruct (scaffold_cases _ _ _ Eb) as [[tid Es]|Hnode].
      - destruct (blegs_two _ Hk e) as [e' [He' Hne]]. apply (Out e' He'). intros Hl'.
        destruct (blegs_bond n W _ e' Hk He') as [Hv' Eb'].
        destruct (bi_str _ _ B e' Hl' Hv') as [Hc|Ho].
        + rewrite Eb' in Hc. exact (bi_open _ _ B e He Hc).
        + apply Hne. apply (leaf_root_leg tid e' e Es Ho He Eb').
      - destruct (bi_ext _ _ B Hnode e He) as [e' [He' Hn]]. exact (Out e' He' Hn).
    Qed.

    (** the position track_open finds for an open bond *)
    Definition gpos (b : Z) : nat :=
      match find (fun e => negb (Z.eqb (fst e) VT)) (blegs n b) with Some e => trackd tr e | None => O end.

    Lemma real_leg_open b e : In b (vbids n) -> In e (blegs n b) -> fst e <> VT -> In e (tr_oax tr) /\ bondd n e = b.
    Proof.
      intros Hb He Hne.
      assert (Hk : In b (dkeys (bonds n))).
      { unfold vbids in Hb. destruct (dget VT (tensors n)) as [vt|] eqn:Ev; [|destruct Hb].
        eapply wf_bids_exist; [exact W0 | apply dget_In; exact Ev | exact Hb]. }
      destruct (blegs_bond n W b e Hk He) as [Hv Ebd]. split; [|exact Ebd].
      assert (Hl : In (fst e) (leaves_of tr)) by (rewrite Lt; apply Sc; split; [apply (blegs_tid n W b e Hk He) | exact Hne]).
      destruct (bi_str _ _ B e Hl Hv) as [Hc|Ho]; [|exact Ho]. exfalso.
      rewrite Ebd in Hc. destruct (bi_cl _ _ B b Hc) as [_ A]. apply (blegs_VT n W b Hk) in Hb. destruct Hb as [e0 [He0 Ev0]].
      specialize (A e0 He0). rewrite Ev0 in A. apply (bi_lv _ _ B) in A. destruct A as [_ A]. apply A. reflexivity.
    Qed.

    Hypothesis Op : open_ok n.

    Lemma TO_gpos b : In b (vbids n) -> TO n tr b (gpos b).
    Proof.
      intros Hb. destruct (Op b Hb) as [e0 [He0 Hne0]].
      unfold gpos. destruct (find (fun e => negb (Z.eqb (fst e) VT)) (blegs n b)) as [e1|] eqn:F.
      - apply find_some in F. destruct F as [He1 Hn1]. apply negb_true_iff, Z.eqb_neq in Hn1.
        destruct (real_leg_open b e1 Hb He1 Hn1) as [Ho1 Eb1].
        split; [|exists e0; auto]. intros e He Hne. destruct (real_leg_open b e Hb He Hne) as [Ho Ebd].
        rewrite (track_of_Some tr e (bi_len _ _ B) Ho). f_equal. apply root_uniq; [exact Ho | exact Ho1 | congruence].
      - apply (find_none _ _ F) in He0. apply negb_false_iff, Z.eqb_eq in He0. contradiction.
    Qed.

    Theorem contract_tree_answers : exists r, contract_tree n data s = Some r.
    Proof.
      destruct (In_key_dget VT (tensors n) (proj2 W)) as [vt Ev].
      assert (Evb : vbids n = t_bids vt) by (unfold vbids; rewrite Ev; reflexivity).
      set (amap := map gpos (t_bids vt)).
      assert (Eo : omap (track_open n tr) (t_bids vt) = Some amap).
      { apply omap_total. intros b Hb. rewrite <- Evb in Hb. apply (TO_track_open n W).
        - unfold vbids in Hb. rewrite Ev in Hb. eapply wf_bids_exist; [exact W0 | apply dget_In; exact Ev | exact Hb].
        - apply TO_gpos. exact Hb. }
      assert (Hlt : forall a, In a amap -> (a < length (tr_out tr))%nat).
      { intros a Ha. unfold amap in Ha. apply in_map_iff in Ha. destruct Ha as [b [<- Hb]]. rewrite <- Evb in Hb.
        destruct (TO_gpos b Hb) as [A [e [He Hne]]]. destruct (track_of_In tr e _ (A e He Hne)) as [Ho <-]. apply (bi_trk _ _ B e Ho). }
      assert (Pos : forall p, (p < length (tr_out tr))%nat -> In p amap).
      { intros p Hp. destruct (bi_cov _ _ B p Hp) as [e [He Ht]]. pose proof (root_ext e He) as Hb.
        unfold amap. apply in_map_iff. exists (bondd n e). split; [|rewrite <- Evb; exact Hb].
        destruct (TO_gpos _ Hb) as [A _]. destruct (bi_legs _ _ B e He) as [Hl Hv].
        specialize (A e (proj2 (proj2 (vleg_bond n W e Hv))) (proj2 (bi_lv _ _ B _ Hl))).
        apply track_of_In in A. destruct A as [_ A]. congruence. }
      destruct (sort_loop_total _ amap Hlt Pos) as [si Es].
      destruct (sort_loop_spec _ amap si Hlt Es) as [P [Lp _]].
      assert (Tok : tree_ok n data tr) by (apply (check_tree_tree_ok n data W tr (bi_chk _ _ B) (bi_out _ _ B))).
      assert (Ep : exists tr', permute_self tr (inv_perm (map unwrap si)) = Some tr').
      { unfold permute_self. rewrite inv_perm_length, Lp, Nat.eqb_refl. cbn [negb]. destruct tr; eexists; reflexivity. }
      destruct Ep as [tr' Ep].
      destruct (tree_ok_eval n data tr' (permute_self_tree_ok n data tr _ tr' Tok (inv_perm_is_perm _ P) Ep)) as [v Ev'].
      exists (mkR v (pick O (map unwrap si) amap) tr').
      unfold contract_tree. rewrite Eb, Ev, Eo, Es, Nat.eqb_refl. cbn [negb].
      change (map (fun o => match o with Some v => v | None => O end) si) with (map unwrap si).
      rewrite Ep, Ev'. reflexivity.
    Qed.
  End Rooted.

  (** totality: on a consistent network contract_tree answers for every admissible scaffold *)
  Theorem contract_tree_total s : scaffold_ok n s -> open_ok n -> root_ok n s ->
    exists r, contract_tree n data s = Some r.
  Proof.
    intros Sc Op Ro. destruct Sc as [ND Sc'].
    destruct (build_tree_ok n W s (zmax0 (dkeys (tensors n)) + 1) ND (fun x H => proj1 (Sc' x) H)) as [tr [Et [B Lt]]].
    apply (contract_tree_answers s tr (conj ND Sc') Ro Et B Lt Op).
  Qed.
End Total.
