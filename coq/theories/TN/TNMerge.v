(** merge preserves the incidence invariant: relabelling with fresh ids, union, fusion of the
    virtual tensors, fusion of the joined bonds, removal of the joined open legs. *)
From Qib Require Export TN.TNWF.
From Coq Require Import Permutation.
Local Open Scope Z_scope.

(* ------------------------------------------------------------------ max(keys)+1 is fresh *)
Lemma fold_max_ge l x : x <= fold_left Z.max l x.
Proof. revert x. induction l as [|y l IH]; intros x; cbn; [lia|]. specialize (IH (Z.max x y)). lia. Qed.
Lemma fold_max_In l x y : In y l -> y <= fold_left Z.max l x.
Proof.
  revert x. induction l as [|z l IH]; intros x H; [destruct H|]. cbn. destruct H as [->|H].
  - pose proof (fold_max_ge l (Z.max x y)). lia.
  - apply IH. exact H.
Qed.
Lemma zmax0_ge l y : In y l -> y <= zmax0 l.
Proof.
  destruct l as [|x l]; [intros []|]. intros [->|H]; cbn.
  - apply fold_max_ge.
  - apply fold_max_In. exact H.
Qed.
(** the fresh-id lemma: every id >= max(keys)+1 is outside the key set, whatever the signs *)
Lemma zmax0_fresh l y : zmax0 l + 1 <= y -> ~ In y l.
Proof. intros H Hin. apply zmax0_ge in Hin. lia. Qed.

(* ------------------------------------------------------------------ keys after a rename *)
Lemma rename_tensor_keys n a c n' : WF0 n -> rename_tensor_priv n a c = Some n' ->
  In a (dkeys (tensors n)) /\ ~ In c (dkeys (tensors n)) /\
  dkeys (tensors n') = filter (fun x => negb (Z.eqb x a)) (dkeys (tensors n)) ++ [c] /\
  dkeys (bonds n') = dkeys (bonds n).
Proof.
  intros W H. destruct (rename_tensor_spec n a c n' W H) as [t [Ht [Hc ->]]]. cbn [tensors bonds].
  split; [eapply dget_Some_key; eauto|]. split; [assumption|].
  rewrite dkeys_app, dkeys_dpop, dkeys_upd_all by apply (wf_ndT n W). auto.
Qed.
Lemma rename_bond_keys n a c n' : WF0 n -> rename_bond n a c = Some n' ->
  In a (dkeys (bonds n)) /\ ~ In c (dkeys (bonds n)) /\
  dkeys (bonds n') = filter (fun x => negb (Z.eqb x a)) (dkeys (bonds n)) ++ [c] /\
  dkeys (tensors n') = dkeys (tensors n).
Proof.
  intros W H. destruct (rename_bond_spec n a c n' W H) as [b [Hb [Hc ->]]]. cbn [tensors bonds].
  split; [eapply dget_Some_key; eauto|]. split; [assumption|].
  rewrite dkeys_app, dkeys_dpop, dkeys_upd_all by apply (wf_ndB n W). auto.
Qed.

(** relabelling the shared ids [ord] with next, next+1, ...: still well-formed *)
Lemma relabel_tensors_WF0 o ord next tmp o1 tmp1 :
  WF0 o -> relabel_tensors o ord next tmp = Some (o1, tmp1) ->
  WF0 o1 /\ dkeys (bonds o1) = dkeys (bonds o).
Proof.
  revert o next tmp. induction ord as [|a ord IH]; intros o next tmp W H.
  - cbn in H. injection H as <- <-. auto.
  - cbn [relabel_tensors] in H. destruct (rename_tensor_priv o a next) as [o'|] eqn:R; [|discriminate].
    pose proof (rename_tensor_WF0 o a next o' W R) as W'.
    destruct (rename_tensor_keys o a next o' W R) as [_ [_ [_ Kb]]].
    destruct (IH o' _ _ W' H) as [W1 Kb1]. split; [assumption | congruence].
Qed.

(** its keys are unshared old keys or fresh ones *)
Lemma relabel_tensors_keys o ord next tmp o1 tmp1 k :
  WF0 o -> relabel_tensors o ord next tmp = Some (o1, tmp1) ->
  In k (dkeys (tensors o1)) -> (In k (dkeys (tensors o)) /\ ~ In k ord) \/ next <= k.
Proof.
  revert o next tmp. induction ord as [|a ord IH]; intros o next tmp W H Hk.
  - cbn in H. injection H as <- <-. left. split; [assumption | intros []].
  - cbn [relabel_tensors] in H. destruct (rename_tensor_priv o a next) as [o'|] eqn:R; [|discriminate].
    pose proof (rename_tensor_WF0 o a next o' W R) as W'.
    destruct (rename_tensor_keys o a next o' W R) as [_ [_ [Kt _]]].
    destruct (IH o' _ _ W' H Hk) as [[Hk' Hno]|Hr]; [|right; lia].
    rewrite Kt in Hk'. apply in_app_or in Hk'. destruct Hk' as [Hk'|[<-|[]]]; [|right; lia].
    apply filter_In in Hk'. destruct Hk' as [Hk' Hne]. apply negb_true_iff, Z.eqb_neq in Hne.
    left. split; [assumption|]. intros [E|E]; [congruence | contradiction].
Qed.

(** a key that is not relabelled survives *)
Lemma relabel_tensors_keep o ord next tmp o1 tmp1 x :
  WF0 o -> relabel_tensors o ord next tmp = Some (o1, tmp1) ->
  In x (dkeys (tensors o)) -> ~ In x ord -> In x (dkeys (tensors o1)).
Proof.
  revert o next tmp. induction ord as [|a ord IH]; intros o next tmp W H Hx Hno.
  - cbn in H. injection H as <- _. assumption.
  - cbn [relabel_tensors] in H. destruct (rename_tensor_priv o a next) as [o'|] eqn:R; [|discriminate].
    eapply IH; [eapply rename_tensor_WF0; eauto | exact H | | intros E; apply Hno; right; exact E].
    destruct (rename_tensor_keys o a next o' W R) as [_ [_ [Kt _]]]. rewrite Kt.
    apply in_or_app. left. apply filter_In. split; [assumption|].
    apply negb_true_iff, Z.eqb_neq. intros ->. apply Hno. left. reflexivity.
Qed.

Lemma relabel_tensors_tmp_keep o ord next tmp o1 tmp1 :
  relabel_tensors o ord next tmp = Some (o1, tmp1) -> ~ In VT ord -> tmp1 = tmp.
Proof.
  revert o next tmp. induction ord as [|a ord IH]; intros o next tmp H Hno.
  - cbn in H. injection H as _ <-. reflexivity.
  - cbn [relabel_tensors] in H. destruct (rename_tensor_priv o a next) as [o'|]; [|discriminate].
    rewrite (IH _ _ _ H (fun E => Hno (or_intror E))).
    destruct (Z.eqb_spec a VT); [exfalso; apply Hno; left; assumption | reflexivity].
Qed.

(** the fresh id given to the other network's virtual tensor *)
Lemma relabel_tensors_tmp o ord next tmp o1 tmp1 :
  WF0 o -> relabel_tensors o ord next tmp = Some (o1, tmp1) ->
  (forall k, In k ord -> k < next) -> In VT ord ->
  next <= tmp1 /\ In tmp1 (dkeys (tensors o1)).
Proof.
  revert o next tmp. induction ord as [|a ord IH]; intros o next tmp W H Hlt HV; [destruct HV|].
  cbn [relabel_tensors] in H. destruct (rename_tensor_priv o a next) as [o'|] eqn:R; [|discriminate].
  pose proof (rename_tensor_WF0 o a next o' W R) as W'.
  destruct (rename_tensor_keys o a next o' W R) as [_ [_ [Kt _]]].
  destruct (in_dec Z.eq_dec VT ord) as [Hin|Hnin].
  - destruct (IH o' _ _ W' H) as [A B]; [intros k Hk; specialize (Hlt k (or_intror Hk)); lia | assumption|].
    split; [lia | assumption].
  - rewrite (relabel_tensors_tmp_keep _ _ _ _ _ _ H Hnin).
    destruct HV as [->|HV]; [|contradiction]. rewrite Z.eqb_refl. split; [lia|].
    eapply relabel_tensors_keep; [exact W' | exact H | |].
    + rewrite Kt. apply in_or_app. right. left. reflexivity.
    + intros E. specialize (Hlt next (or_intror E)). lia.
Qed.

Lemma relabel_bonds_WF0 o ord next o1 :
  WF0 o -> relabel_bonds o ord next = Some o1 ->
  WF0 o1 /\ dkeys (tensors o1) = dkeys (tensors o).
Proof.
  revert o next. induction ord as [|a ord IH]; intros o next W H.
  - cbn in H. injection H as <-. auto.
  - cbn [relabel_bonds] in H. destruct (rename_bond o a next) as [o'|] eqn:R; [|discriminate].
    pose proof (rename_bond_WF0 o a next o' W R) as W'.
    destruct (rename_bond_keys o a next o' W R) as [_ [_ [_ Kb]]].
    destruct (IH o' _ W' H) as [W1 Kb1]. split; [assumption | congruence].
Qed.
Lemma relabel_bonds_keys o ord next o1 k :
  WF0 o -> relabel_bonds o ord next = Some o1 ->
  In k (dkeys (bonds o1)) -> (In k (dkeys (bonds o)) /\ ~ In k ord) \/ next <= k.
Proof.
  revert o next. induction ord as [|a ord IH]; intros o next W H Hk.
  - cbn in H. injection H as <-. left. split; [assumption | intros []].
  - cbn [relabel_bonds] in H. destruct (rename_bond o a next) as [o'|] eqn:R; [|discriminate].
    pose proof (rename_bond_WF0 o a next o' W R) as W'.
    destruct (rename_bond_keys o a next o' W R) as [_ [_ [Kt _]]].
    destruct (IH o' _ W' H Hk) as [[Hk' Hno]|Hr]; [|right; lia].
    rewrite Kt in Hk'. apply in_app_or in Hk'. destruct Hk' as [Hk'|[<-|[]]]; [|right; lia].
    apply filter_In in Hk'. destruct Hk' as [Hk' Hne]. apply negb_true_iff, Z.eqb_neq in Hne.
    left. split; [assumption|]. intros [E|E]; [congruence | contradiction].
Qed.

(** [is_shared_order ord k1 k2]: ord enumerates exactly the common keys *)
Lemma is_shared_order_spec ord k1 k2 : is_shared_order ord k1 k2 = true ->
  NoDup ord /\ (forall k, In k ord -> In k k1 /\ In k k2) /\ (forall k, In k k1 -> In k k2 -> In k ord).
Proof.
  unfold is_shared_order. rewrite !andb_true_iff. intros [[A B] C].
  split; [apply znodupb_NoDup; assumption|]. split.
  - intros k Hk. rewrite forallb_forall in B. specialize (B k Hk). apply andb_true_iff in B.
    destruct B as [B1 B2]. split; apply zmem_In; assumption.
  - intros k H1 H2. rewrite forallb_forall in C. specialize (C k H1). apply orb_true_iff in C.
    destruct C as [C|C]; [apply negb_true_iff, zmem_false in C; contradiction | apply zmem_In; assumption].
Qed.

(** fresh-id theorem: after the relabelling the two key sets are disjoint *)
Lemma relabel_tensors_disjoint n o ordT o1 tmp1 k :
  WF0 o -> is_shared_order ordT (dkeys (tensors n)) (dkeys (tensors o)) = true ->
  relabel_tensors o ordT (zmax0 (dkeys (tensors n) ++ dkeys (tensors o)) + 1) VT = Some (o1, tmp1) ->
  In k (dkeys (tensors o1)) -> ~ In k (dkeys (tensors n)).
Proof.
  intros W S H Hk Hn. destruct (is_shared_order_spec _ _ _ S) as [_ [_ S3]].
  destruct (relabel_tensors_keys _ _ _ _ _ _ k W H Hk) as [[Ho Hno]|Hf].
  - apply Hno. apply S3; assumption.
  - assert (Hin : In k (dkeys (tensors n) ++ dkeys (tensors o))) by (apply in_or_app; left; assumption).
    apply zmax0_ge in Hin. lia.
Qed.
Lemma relabel_bonds_disjoint n o ordB o1 k :
  WF0 o -> is_shared_order ordB (dkeys (bonds n)) (dkeys (bonds o)) = true ->
  relabel_bonds o ordB (zmax0 (dkeys (bonds n) ++ dkeys (bonds o)) + 1) = Some o1 ->
  In k (dkeys (bonds o1)) -> ~ In k (dkeys (bonds n)).
Proof.
  intros W S H Hk Hn. destruct (is_shared_order_spec _ _ _ S) as [_ [_ S3]].
  destruct (relabel_bonds_keys _ _ _ _ k W H Hk) as [[Ho Hno]|Hf].
  - apply Hno. apply S3; assumption.
  - assert (Hin : In k (dkeys (bonds n) ++ dkeys (bonds o))) by (apply in_or_app; left; assumption).
    apply zmax0_ge in Hin. lia.
Qed.

(* ------------------------------------------------------------------ union of disjoint networks *)
Lemma NoDup_app_intro {A} (a b : list A) : NoDup a -> NoDup b -> (forall x, In x b -> ~ In x a) -> NoDup (a ++ b).
Proof.
  induction 1 as [|x a Hx ND IH]; cbn; intros Hb Hd; [assumption|]. constructor.
  - rewrite in_app_iff. intros [E|E]; [contradiction | apply (Hd x E); left; reflexivity].
  - apply IH; [assumption|]. intros y Hy E. apply (Hd y Hy). right. exact E.
Qed.

Lemma union_WF0 n o : WF0 n -> WF0 o ->
  (forall k, In k (dkeys (tensors o)) -> ~ In k (dkeys (tensors n))) ->
  (forall k, In k (dkeys (bonds o)) -> ~ In k (dkeys (bonds n))) ->
  WF0 (mkN (tensors n ++ tensors o) (bonds n ++ bonds o)).
Proof.
  intros Wn Wo DT DB.
  assert (CT : forall k kb, cntT (mkN (tensors n ++ tensors o) (bonds n ++ bonds o)) k kb = (cntT n k kb + cntT o k kb)%nat).
  { intros k kb. unfold cntT. cbn [tensors]. rewrite dget_app.
    destruct (dget k (tensors n)) eqn:E1.
    - destruct (dget k (tensors o)) eqn:E2; [|lia]. exfalso.
      apply (DT k); eapply dget_Some_key; eauto.
    - reflexivity. }
  assert (CB : forall kb k, cntB (mkN (tensors n ++ tensors o) (bonds n ++ bonds o)) kb k = (cntB n kb k + cntB o kb k)%nat).
  { intros kb k. unfold cntB. cbn [bonds]. rewrite dget_app.
    destruct (dget kb (bonds n)) eqn:E1.
    - destruct (dget kb (bonds o)) eqn:E2; [|lia]. exfalso.
      apply (DB kb); eapply dget_Some_key; eauto.
    - reflexivity. }
  constructor; cbn [tensors bonds].
  - rewrite dkeys_app. apply NoDup_app_intro; [apply (wf_ndT n Wn) | apply (wf_ndT o Wo) | assumption].
  - rewrite dkeys_app. apply NoDup_app_intro; [apply (wf_ndB n Wn) | apply (wf_ndB o Wo) | assumption].
  - intros k t Hin. apply in_app_or in Hin. destruct Hin; [apply (wf_T n Wn) | apply (wf_T o Wo)]; assumption.
  - intros k b Hin. apply in_app_or in Hin. destruct Hin; [apply (wf_B n Wn) | apply (wf_B o Wo)]; assumption.
  - intros k kb. rewrite CT, CB, (wf_inc n Wn), (wf_inc o Wo). reflexivity.
  - intros kb. destruct (in_dec Z.eq_dec kb (dkeys (bonds n))) as [Hn|Hn].
    + destruct (wf_dim n Wn kb) as [d Hd]. exists d. intros k t ax Hin Hl.
      apply in_app_or in Hin. destruct Hin as [Hin|Hin]; [eapply Hd; eauto|].
      exfalso. eapply (legs_absent_bond o); eauto. intros E. apply (DB kb E Hn).
    + destruct (wf_dim o Wo kb) as [d Hd]. exists d. intros k t ax Hin Hl.
      apply in_app_or in Hin. destruct Hin as [Hin|Hin]; [|eapply Hd; eauto].
      exfalso. eapply (legs_absent_bond n); eauto.
Qed.

(* ------------------------------------------------------------------ merge_tensors *)
Definition fused_tensor (x1 x2 : tensor) : tensor :=
  mkT (t_id x1) (t_shape x1 ++ t_shape x2) (t_bids x1 ++ t_bids x2) (t_ref x1).

Lemma merge_tensors_spec n t1 t2 n' : WF0 n -> t1 <> t2 -> merge_tensors n t1 t2 = Some n' ->
  exists x1 x2, dget t1 (tensors n) = Some x1 /\ dget t2 (tensors n) = Some x2 /\
    n' = mkN (dset t1 (fused_tensor x1 x2) (dpop t2 (tensors n))) (upd_all (f_retid t2 t1) (t_bids x2) (bonds n)).
Proof.
  intros W Hne H. unfold merge_tensors in H. destruct (Z.eqb_spec t1 t2); [congruence|].
  destruct (dget t1 (tensors n)) as [x1|] eqn:E1; [|discriminate].
  destruct (dget t2 (tensors n)) as [x2|] eqn:E2; [|discriminate].
  rewrite retid_step_upd, ofold_upd in H.
  - injection H as <-. exists x1, x2. auto.
  - apply (wf_ndB n W).
  - intros k Hk. eapply wf_bids_exist; eauto. apply dget_In. exact E2.
Qed.

Lemma In_dset_dpop {V} (d : dict V) t1 t2 v k x : NoDup (dkeys d) -> In t1 (dkeys d) -> t1 <> t2 ->
  In (k, x) (dset t1 v (dpop t2 d)) <-> (k = t1 /\ x = v) \/ (k <> t1 /\ k <> t2 /\ In (k, x) d).
Proof.
  intros ND H1 Hne.
  assert (ND' : NoDup (dkeys (dpop t2 d))) by (rewrite dkeys_dpop by assumption; apply NoDup_filter; assumption).
  assert (H1' : In t1 (dkeys (dpop t2 d))).
  { rewrite dkeys_dpop by assumption. apply filter_In. split; [assumption|]. apply negb_true_iff, Z.eqb_neq. assumption. }
  rewrite In_dset_in by assumption. rewrite dpop_filter by assumption. rewrite filter_In. cbn [fst].
  rewrite negb_true_iff, Z.eqb_neq. tauto.
Qed.

Theorem merge_tensors_WF0 n t1 t2 n' : WF0 n -> merge_tensors n t1 t2 = Some n' -> WF0 n'.
Proof.
  intros W H. destruct (Z.eq_dec t1 t2) as [->|Hne].
  { unfold merge_tensors in H. rewrite Z.eqb_refl in H. injection H as <-. assumption. }
  destruct (merge_tensors_spec n t1 t2 n' W Hne H) as [x1 [x2 [E1 [E2 ->]]]].
  assert (H1 : In t1 (dkeys (tensors n))) by (eapply dget_Some_key; eauto).
  assert (Hne' : t2 <> t1) by congruence.
  pose proof (wf_T n W t1 x1 (dget_In _ _ _ E1)) as [Hid1 Hl1].
  pose proof (wf_T n W t2 x2 (dget_In _ _ _ E2)) as [Hid2 Hl2].
  constructor; cbn [tensors bonds].
  - rewrite dkeys_dset_in.
    + rewrite dkeys_dpop by apply (wf_ndT n W). apply NoDup_filter. apply (wf_ndT n W).
    + rewrite dkeys_dpop by apply (wf_ndT n W). apply filter_In. split; [assumption|].
      apply negb_true_iff, Z.eqb_neq. assumption.
  - rewrite dkeys_upd_all. apply (wf_ndB n W).
  - intros k x Hin. apply In_dset_dpop in Hin; [|apply (wf_ndT n W)|assumption|assumption].
    destruct Hin as [[-> ->]|[_ [_ Hin]]]; [|apply (wf_T n W); assumption].
    cbn. rewrite !app_length. split; [assumption | lia].
  - intros k b Hin. apply In_upd_all in Hin. destruct Hin as [b0 [Hin ->]].
    rewrite iter_retid_id, iter_retid_len. apply (wf_B n W). assumption.
  - intros k kb.
    assert (ET : cntT (mkN (dset t1 (fused_tensor x1 x2) (dpop t2 (tensors n))) (upd_all (f_retid t2 t1) (t_bids x2) (bonds n))) k kb
                 = if Z.eqb k t1 then (cntT n t1 kb + cntT n t2 kb)%nat else if Z.eqb k t2 then O else cntT n k kb).
    { unfold cntT. cbn [tensors]. rewrite dget_dset, dget_dpop by apply (wf_ndT n W). rewrite E1, E2.
      destruct (Z.eqb_spec k t1); [cbn; apply zcount_app|]. destruct (Z.eqb_spec k t2); reflexivity. }
    rewrite ET. clear ET.
    unfold cntB at 1. cbn [bonds]. rewrite dget_upd_all.
    pose proof (wf_inc n W t1 kb) as I1. pose proof (wf_inc n W t2 kb) as I2. pose proof (wf_inc n W k kb) as Ik.
    unfold cntB in I1, I2, Ik.
    destruct (dget kb (bonds n)) as [b|] eqn:Hb; cbn [option_map].
    2:{ rewrite I1, I2, Ik. destruct (Z.eqb k t1), (Z.eqb k t2); reflexivity. }
    rewrite iter_retid_count by assumption.
    assert (Em : zcount kb (t_bids x2) = cntT n t2 kb) by (unfold cntT; rewrite E2; reflexivity).
    destruct (zcount kb (t_bids x2)) eqn:E0.
    + destruct (Z.eqb_spec k t1); [subst; lia|]. destruct (Z.eqb_spec k t2); [subst; lia | exact Ik].
    + rewrite zcount_zreplace by assumption.
      destruct (Z.eqb_spec k t1); [lia|]. destruct (Z.eqb_spec k t2); [reflexivity | exact Ik].
  - intros kb. destruct (wf_dim n W kb) as [d Hd]. exists d. intros k x ax Hin Hl.
    apply In_dset_dpop in Hin; [|apply (wf_ndT n W)|assumption|assumption].
    destruct Hin as [[-> ->]|[_ [_ Hin]]]; [|eapply Hd; eauto].
    cbn [fused_tensor t_bids t_shape] in *.
    destruct (Nat.lt_ge_cases ax (length (t_bids x1))) as [Hlt|Hge].
    + rewrite nth_error_app1 in * by lia. eapply Hd; [apply dget_In; exact E1 | exact Hl].
    + rewrite nth_error_app2 in * by lia. rewrite Hl1. eapply Hd; [apply dget_In; exact E2 | exact Hl].
Qed.

(* ------------------------------------------------------------------ merge_bonds *)
Lemma merge_bonds_spec n b1 b2 n' : WF0 n -> b1 <> b2 -> merge_bonds n b1 b2 = Some n' ->
  exists x1 x2, dget b1 (bonds n) = Some x1 /\ dget b2 (bonds n) = Some x2 /\
    n' = mkN (upd_all (f_rebid b2 b1) (b_tids x2) (tensors n))
             (dset b1 (set_btids x1 (zsort (b_tids x1 ++ b_tids x2))) (dpop b2 (bonds n))).
Proof.
  intros W Hne H. unfold merge_bonds in H. destruct (Z.eqb_spec b1 b2); [congruence|].
  destruct (dget b1 (bonds n)) as [x1|] eqn:E1; [|discriminate].
  destruct (dget b2 (bonds n)) as [x2|] eqn:E2; [|discriminate].
  rewrite rebid_step_upd, ofold_upd in H.
  - injection H as <-. exists x1, x2. auto.
  - apply (wf_ndT n W).
  - intros k Hk. eapply wf_tids_exist; eauto. apply dget_In. exact E2.
Qed.

(** the two bonds have legs of the same dimension on some tensor *)
Definition dims_agree (n : net) (b1 b2 : Z) : Prop :=
  exists k t ax1 ax2 d, In (k, t) (tensors n) /\
    nth_error (t_bids t) ax1 = Some b1 /\ nth_error (t_bids t) ax2 = Some b2 /\
    nth_error (t_shape t) ax1 = Some d /\ nth_error (t_shape t) ax2 = Some d.

Theorem merge_bonds_WF0 n b1 b2 n' : WF0 n -> dims_agree n b1 b2 -> merge_bonds n b1 b2 = Some n' -> WF0 n'.
Proof.
  intros W DA H. destruct (Z.eq_dec b1 b2) as [->|Hne].
  { unfold merge_bonds in H. rewrite Z.eqb_refl in H. injection H as <-. assumption. }
  destruct (merge_bonds_spec n b1 b2 n' W Hne H) as [x1 [x2 [E1 [E2 ->]]]].
  assert (H1 : In b1 (dkeys (bonds n))) by (eapply dget_Some_key; eauto).
  assert (Hne' : b2 <> b1) by congruence.
  pose proof (wf_B n W b1 x1 (dget_In _ _ _ E1)) as [Hid1 Hl1].
  pose proof (wf_B n W b2 x2 (dget_In _ _ _ E2)) as [Hid2 Hl2].
  constructor; cbn [tensors bonds].
  - rewrite dkeys_upd_all. apply (wf_ndT n W).
  - rewrite dkeys_dset_in.
    + rewrite dkeys_dpop by apply (wf_ndB n W). apply NoDup_filter. apply (wf_ndB n W).
    + rewrite dkeys_dpop by apply (wf_ndB n W). apply filter_In. split; [assumption|].
      apply negb_true_iff, Z.eqb_neq. assumption.
  - intros k x Hin. apply In_upd_all in Hin. destruct Hin as [x0 [Hin ->]].
    rewrite iter_rebid by assumption. destruct (zcount k (b_tids x2)); [apply (wf_T n W); assumption|].
    unfold f_rebid, set_bids. cbn [t_id t_shape t_bids]. rewrite zreplace_length. apply (wf_T n W). assumption.
  - intros k b Hin. apply In_dset_dpop in Hin; [|apply (wf_ndB n W)|assumption|assumption].
    destruct Hin as [[-> ->]|[_ [_ Hin]]]; [|apply (wf_B n W); assumption].
    cbn. rewrite zsort_length, app_length. split; [assumption | lia].
  - intros k kb.
    assert (EB : cntB (mkN (upd_all (f_rebid b2 b1) (b_tids x2) (tensors n))
                           (dset b1 (set_btids x1 (zsort (b_tids x1 ++ b_tids x2))) (dpop b2 (bonds n)))) kb k
                 = if Z.eqb kb b1 then (cntB n b1 k + cntB n b2 k)%nat else if Z.eqb kb b2 then O else cntB n kb k).
    { unfold cntB. cbn [bonds]. rewrite dget_dset, dget_dpop by apply (wf_ndB n W). rewrite E1, E2.
      destruct (Z.eqb_spec kb b1); [cbn [set_btids b_tids]; rewrite zcount_zsort; apply zcount_app|]. destruct (Z.eqb_spec kb b2); reflexivity. }
    rewrite EB. clear EB.
    unfold cntT at 1. cbn [tensors]. rewrite dget_upd_all.
    pose proof (wf_inc n W k b1) as I1. pose proof (wf_inc n W k b2) as I2. pose proof (wf_inc n W k kb) as Ik.
    unfold cntT in I1, I2, Ik.
    destruct (dget k (tensors n)) as [x|] eqn:Hx; cbn [option_map].
    2:{ rewrite <- I1, <- I2, <- Ik. destruct (Z.eqb kb b1), (Z.eqb kb b2); reflexivity. }
    rewrite iter_rebid by assumption.
    assert (Em : zcount k (b_tids x2) = cntB n b2 k) by (unfold cntB; rewrite E2; reflexivity).
    destruct (zcount k (b_tids x2)) eqn:E0.
    + destruct (Z.eqb_spec kb b1); [subst; lia|]. destruct (Z.eqb_spec kb b2); [subst; lia | exact Ik].
    + unfold f_rebid, set_bids. cbn [t_bids]. rewrite zcount_zreplace by assumption.
      destruct (Z.eqb_spec kb b1); [lia|]. destruct (Z.eqb_spec kb b2); [reflexivity | exact Ik].
  - intros kb.
    destruct (wf_dim n W b1) as [d1 Hd1]. destruct (wf_dim n W b2) as [d2 Hd2].
    assert (d1 = d2).
    { destruct DA as [k [t [ax1 [ax2 [d [Hin [A1 [A2 [S1 S2]]]]]]]]].
      pose proof (Hd1 k t ax1 Hin A1). pose proof (Hd2 k t ax2 Hin A2). congruence. }
    subst d2. destruct (wf_dim n W kb) as [d Hd].
    exists (if Z.eqb kb b1 then d1 else d).
    intros k x ax Hin Hl. apply In_upd_all in Hin. destruct Hin as [x0 [Hin ->]].
    rewrite iter_rebid in * by assumption.
    destruct (zcount k (b_tids x2)).
    + destruct (Z.eqb_spec kb b1); [subst; eapply Hd1; eauto | eapply Hd; eauto].
    + unfold f_rebid, set_bids in *. cbn [t_bids t_shape] in *.
      rewrite nth_error_zreplace in Hl. destruct (nth_error (t_bids x0) ax) as [y|] eqn:Ey; [|discriminate].
      cbn in Hl. injection Hl as Hl.
      destruct (Z.eqb_spec y b2) as [e|e].
      * rewrite <- Hl, Z.eqb_refl. eapply Hd2; eauto. rewrite Ey, e. reflexivity.
      * rewrite <- Hl. destruct (Z.eqb_spec y b1) as [e2|e2].
        -- eapply Hd1; eauto. rewrite Ey, e2. reflexivity.
        -- eapply Hd; eauto. rewrite Ey, Hl. reflexivity.
Qed.

(* ------------------------------------------------------------------ tracking the virtual tensor *)
Definition tshape (n : net) (k : Z) : option (list nat) := option_map t_shape (dget k (tensors n)).

Lemma tshape_rename_tensor n a c n' k : WF0 n -> rename_tensor_priv n a c = Some n' ->
  tshape n' k = if Z.eqb k c then tshape n a else if Z.eqb k a then None else tshape n k.
Proof.
  intros W H. destruct (rename_tensor_spec n a c n' W H) as [t [Ht [Hc ->]]].
  assert (Hac : a <> c) by (intros ->; apply Hc; eapply dget_Some_key; eauto).
  unfold tshape. cbn [tensors]. rewrite dget_app, dget_dpop by apply (wf_ndT n W).
  destruct (Z.eqb_spec k c).
  - subst. destruct (Z.eqb_spec c a); [congruence|]. apply dget_None in Hc. rewrite Hc. cbn.
    rewrite Z.eqb_refl, Ht. reflexivity.
  - destruct (Z.eqb_spec k a); cbn.
    + destruct (Z.eqb_spec k c); [congruence | reflexivity].
    + destruct (dget k (tensors n)); [reflexivity|]. cbn. destruct (Z.eqb_spec k c); [congruence | reflexivity].
Qed.
Lemma tshape_rename_bond n a c n' k : WF0 n -> rename_bond n a c = Some n' -> tshape n' k = tshape n k.
Proof.
  intros W H. destruct (rename_bond_spec n a c n' W H) as [b [Hb [Hc ->]]].
  assert (Hac : a <> c) by (intros ->; apply Hc; eapply dget_Some_key; eauto).
  unfold tshape. cbn [tensors]. rewrite dget_upd_all. destruct (dget k (tensors n)); [|reflexivity].
  cbn. rewrite iter_rebid by assumption. destruct (zcount k (b_tids b)); reflexivity.
Qed.
Lemma tshape_relabel_keep o ord next tmp o1 tmp1 x :
  WF0 o -> relabel_tensors o ord next tmp = Some (o1, tmp1) ->
  ~ In x ord -> (forall k, In k ord -> k < next) -> x < next -> tshape o1 x = tshape o x.
Proof.
  revert o next tmp. induction ord as [|a ord IH]; intros o next tmp W H Hno Hlt Hx.
  - cbn in H. injection H as <- _. reflexivity.
  - cbn [relabel_tensors] in H. destruct (rename_tensor_priv o a next) as [o'|] eqn:R; [|discriminate].
    rewrite (IH o' _ _ (rename_tensor_WF0 _ _ _ _ W R) H); try lia.
    + rewrite (tshape_rename_tensor _ _ _ _ x W R).
      destruct (Z.eqb_spec x next); [lia|]. destruct (Z.eqb_spec x a); [|reflexivity].
      exfalso. apply Hno. left. congruence.
    + intros E. apply Hno. right. exact E.
    + intros k Hk. specialize (Hlt k (or_intror Hk)). lia.
Qed.
Lemma tshape_relabel_fresh o ord next tmp o1 tmp1 x :
  WF0 o -> relabel_tensors o ord next tmp = Some (o1, tmp1) ->
  (forall k, In k ord -> k < next) -> ~ In x ord -> tshape o1 x = tshape o x \/ next <= x.
Proof.
  intros W H Hlt Hno. destruct (Z.lt_ge_cases x next) as [A|A]; [left | right; assumption].
  eapply tshape_relabel_keep; eauto.
Qed.

Lemma tshape_relabel_tmp o ord next tmp o1 tmp1 :
  WF0 o -> relabel_tensors o ord next tmp = Some (o1, tmp1) ->
  NoDup ord -> (forall k, In k ord -> k < next) -> In VT ord ->
  tshape o1 tmp1 = tshape o VT.
Proof.
  revert o next tmp. induction ord as [|a ord IH]; intros o next tmp W H ND Hlt HV; [destruct HV|].
  cbn [relabel_tensors] in H. destruct (rename_tensor_priv o a next) as [o'|] eqn:R; [|discriminate].
  pose proof (rename_tensor_WF0 _ _ _ _ W R) as W'. inversion ND; subst.
  assert (Hlt' : forall k, In k ord -> k < next + 1) by (intros k Hk; specialize (Hlt k (or_intror Hk)); lia).
  destruct HV as [->|HV].
  - (* the virtual tensor is renamed now; later steps leave it alone *)
    rewrite Z.eqb_refl in H.
    rewrite (relabel_tensors_tmp_keep _ _ _ _ _ _ H) by assumption.
    rewrite (tshape_relabel_keep _ _ _ _ _ _ next W' H); try lia.
    + rewrite (tshape_rename_tensor _ _ _ _ next W R), Z.eqb_refl. reflexivity.
    + intros E. specialize (Hlt next (or_intror E)). lia.
    + assumption.
  - rewrite (IH o' _ _ W' H) by assumption.
    rewrite (tshape_rename_tensor _ _ _ _ VT W R).
    assert (VT < next) by (apply Hlt; right; assumption).
    destruct (Z.eqb_spec VT next); [lia|]. destruct (Z.eqb_spec VT a); [|reflexivity].
    subst. contradiction.
Qed.
Lemma tshape_relabel_bonds o ord next o1 k :
  WF0 o -> relabel_bonds o ord next = Some o1 -> tshape o1 k = tshape o k.
Proof.
  revert o next. induction ord as [|a ord IH]; intros o next W H.
  - cbn in H. injection H as <-. reflexivity.
  - cbn [relabel_bonds] in H. destruct (rename_bond o a next) as [o'|] eqn:R; [|discriminate].
    rewrite (IH o' _ (rename_bond_WF0 _ _ _ _ W R) H). eapply tshape_rename_bond; eauto.
Qed.

Lemma tshape_merge_bonds n b1 b2 n' k : WF0 n -> merge_bonds n b1 b2 = Some n' -> tshape n' k = tshape n k.
Proof.
  intros W H. destruct (Z.eq_dec b1 b2) as [->|Hne].
  { unfold merge_bonds in H. rewrite Z.eqb_refl in H. injection H as <-. reflexivity. }
  destruct (merge_bonds_spec n b1 b2 n' W Hne H) as [x1 [x2 [E1 [E2 ->]]]].
  unfold tshape. cbn [tensors]. rewrite dget_upd_all. destruct (dget k (tensors n)); [|reflexivity].
  cbn. rewrite iter_rebid by congruence. destruct (zcount k (b_tids x2)); reflexivity.
Qed.

(* ------------------------------------------------------------------ the join loop *)
Lemma nremove1_sub x l l' y : nremove1 x l = Some l' -> In y l' -> In y l.
Proof.
  revert l'. induction l as [|z l IH]; intros l' H Hy; cbn in H; [discriminate|].
  destruct (Nat.eqb z x); [injection H as <-; right; assumption|].
  destruct (nremove1 x l) as [r|]; [|discriminate]. injection H as <-.
  destruct Hy as [->|Hy]; [left; reflexivity | right; eapply IH; eauto].
Qed.
Lemma nremove1_nodup x l l' : nremove1 x l = Some l' -> NoDup l -> NoDup l'.
Proof.
  revert l'. induction l as [|z l IH]; intros l' H ND; cbn in H; [discriminate|]. inversion ND; subst.
  destruct (Nat.eqb z x); [injection H as <-; assumption|].
  destruct (nremove1 x l) as [r|] eqn:E; [|discriminate]. injection H as <-.
  constructor; [|eapply IH; eauto]. intros Hz. apply H2. eapply nremove1_sub; eauto.
Qed.

Definition rm1 (x : nat) (l : list nat) : list nat := match nremove1 x l with Some l' => l' | None => l end.
Lemma rm1_sub x l y : In y (rm1 x l) -> In y l.
Proof. unfold rm1. destruct (nremove1 x l) eqn:E; [eapply nremove1_sub; eauto | auto]. Qed.
Lemma rm1_nodup x l : NoDup l -> NoDup (rm1 x l).
Proof. unfold rm1. destruct (nremove1 x l) eqn:E; [eapply nremove1_nodup; eauto | auto]. Qed.

Lemma vbids_tshape_len n S : WF0 n -> tshape n VT = Some S -> length (vbids n) = length S.
Proof.
  unfold tshape, vbids. intros W H. destruct (dget VT (tensors n)) as [t|] eqn:E; [|discriminate].
  injection H as <-. symmetry. apply (wf_T n W VT t). apply dget_In. assumption.
Qed.

Lemma join_step_inv norig n amap j n' amap' S :
  WF0 n -> tshape n VT = Some S ->
  (exists d, nth_error S (fst j) = Some d /\ nth_error S (norig + snd j) = Some d) ->
  join_step norig (n, amap) j = Some (n', amap') ->
  WF0 n' /\ tshape n' VT = Some S /\ (forall y, In y amap' -> In y amap) /\ (NoDup amap -> NoDup amap').
Proof.
  intros W HS [d [D1 D2]] H. unfold join_step in H.
  destruct (nth_error (vbids n) (fst j)) as [b1|] eqn:N1; [|discriminate].
  destruct (nth_error (vbids n) (norig + snd j)) as [b2|] eqn:N2; [|discriminate].
  destruct (merge_bonds n b1 b2) as [n1|] eqn:M; [|discriminate]. injection H as <- <-.
  assert (DA : dims_agree n b1 b2).
  { unfold tshape in HS. unfold vbids in N1, N2. destruct (dget VT (tensors n)) as [t|] eqn:E; [|discriminate].
    injection HS as HS. exists VT, t, (fst j), (norig + snd j)%nat, d. rewrite HS.
    split; [apply dget_In; assumption | auto]. }
  split; [eapply merge_bonds_WF0; eauto|]. split; [rewrite (tshape_merge_bonds _ _ _ _ VT W M); assumption|].
  fold (rm1 (fst j) amap). fold (rm1 (norig + snd j) (rm1 (fst j) amap)). split.
  - intros y Hy. eapply rm1_sub, rm1_sub. exact Hy.
  - intros ND. apply rm1_nodup, rm1_nodup. exact ND.
Qed.

Lemma join_fold_inv norig joins S : forall n amap n' amap',
  WF0 n -> tshape n VT = Some S ->
  (forall j, In j joins -> exists d, nth_error S (fst j) = Some d /\ nth_error S (norig + snd j) = Some d) ->
  ofold (join_step norig) joins (n, amap) = Some (n', amap') ->
  WF0 n' /\ tshape n' VT = Some S /\ (forall y, In y amap' -> In y amap) /\ (NoDup amap -> NoDup amap').
Proof.
  induction joins as [|j joins IH]; intros n amap n' amap' W HS HJ H.
  - cbn in H. injection H as <- <-. auto.
  - cbn [ofold] in H. destruct (join_step norig (n, amap) j) as [[n1 amap1]|] eqn:J; [|discriminate].
    destruct (join_step_inv _ _ _ _ _ _ S W HS (HJ j (or_introl eq_refl)) J) as [W1 [S1 [A1 B1]]].
    destruct (IH n1 amap1 n' amap' W1 S1 (fun j' Hj' => HJ j' (or_intror Hj')) H) as [W2 [S2 [A2 B2]]].
    split; [assumption|]. split; [assumption|]. split; [intros y Hy; apply A1, A2, Hy | intros ND; apply B2, B1, ND].
Qed.

(* ------------------------------------------------------------------ removal of the joined open legs *)
Definition on_bond (Bv : list Z) (kb : Z) (d : nat) : bool :=
  match nth_error Bv d with Some b => Z.eqb b kb | None => false end.
Definition rcount (Bv : list Z) (D : list nat) (kb : Z) : nat := length (filter (on_bond Bv kb) D).

Lemma rcount_cons Bv d D kb : rcount Bv (d :: D) kb = ((if on_bond Bv kb d then 1 else 0) + rcount Bv D kb)%nat.
Proof. unfold rcount. cbn. destruct (on_bond Bv kb d); reflexivity. Qed.

Lemma zcount_pick Bv D kb : (forall d, In d D -> (d < length Bv)%nat) ->
  zcount kb (map (fun i => nth i Bv 0) D) = rcount Bv D kb.
Proof.
  induction D as [|d D IH]; intros H; [reflexivity|].
  cbn [map]. rewrite zcount_cons, rcount_cons, IH by (intros; apply H; right; assumption). f_equal.
  unfold on_bond. rewrite (nth_error_nth' Bv 0) by (apply H; left; reflexivity).
  rewrite Z.eqb_sym. reflexivity.
Qed.

Lemma split_perm amap ndim : NoDup amap -> (forall i, In i amap -> (i < ndim)%nat) ->
  Permutation (amap ++ filter (fun i => negb (nmem i amap)) (seq 0 ndim)) (seq 0 ndim).
Proof.
  intros ND Hlt. apply NoDup_Permutation.
  - apply NoDup_app_intro; [assumption | apply NoDup_filter, seq_NoDup|].
    intros x Hx. apply filter_In in Hx. destruct Hx as [_ Hx]. apply negb_true_iff, nmem_false in Hx. exact Hx.
  - apply seq_NoDup.
  - intros x. rewrite in_app_iff, filter_In, in_seq, negb_true_iff, nmem_false. split.
    + intros [H|[H _]]; [specialize (Hlt x H); lia | lia].
    + intros H. destruct (in_dec Nat.eq_dec x amap); [left; assumption | right; split; [lia | assumption]].
Qed.

Lemma zcount_split Bv amap kb : NoDup amap -> (forall i, In i amap -> (i < length Bv)%nat) ->
  zcount kb Bv = (zcount kb (map (fun i => nth i Bv 0%Z) amap)
                  + rcount Bv (filter (fun i => negb (nmem i amap)) (seq 0 (length Bv))) kb)%nat.
Proof.
  intros ND Hlt. rewrite <- zcount_pick.
  - rewrite <- zcount_app, <- map_app. apply zcount_perm. symmetry. apply perm_pick.
    apply split_perm; assumption.
  - intros d Hd. apply filter_In in Hd. destruct Hd as [Hd _]. apply in_seq in Hd. lia.
Qed.

Lemma del_step_spec n d n' : del_step n d = Some n' ->
  exists bid b, nth_error (vbids n) d = Some bid /\ dget bid (bonds n) = Some b /\
    let tids := match zremove1 VT (b_tids b) with Some l => l | None => b_tids b end in
    (2 <= length tids)%nat /\ n' = mkN (tensors n) (dset bid (set_btids b tids) (bonds n)).
Proof.
  unfold del_step. destruct (nth_error (vbids n) d) as [bid|]; [|discriminate].
  destruct (dget bid (bonds n)) as [b|] eqn:E; [|discriminate].
  destruct (Nat.ltb_spec (length (match zremove1 VT (b_tids b) with Some l => l | None => b_tids b end)) 2); [discriminate|].
  intros [= <-]. exists bid, b. cbv zeta. auto.
Qed.

Lemma del_fold D : forall n n4,
  NoDup (dkeys (bonds n)) ->
  (forall kb, (rcount (vbids n) D kb <= cntB n kb VT)%nat) ->
  (forall kb b, In (kb, b) (bonds n) -> b_id b = kb /\ (2 <= length (b_tids b))%nat) ->
  ofold del_step D n = Some n4 ->
  tensors n4 = tensors n /\ dkeys (bonds n4) = dkeys (bonds n) /\
  (forall kb k, cntB n4 kb k = if Z.eqb k VT then (cntB n kb VT - rcount (vbids n) D kb)%nat else cntB n kb k) /\
  (forall kb b, In (kb, b) (bonds n4) -> b_id b = kb /\ (2 <= length (b_tids b))%nat).
Proof.
  induction D as [|d D IH]; intros n n4 ND Hr HB H.
  - cbn in H. injection H as <-. split; [reflexivity|]. split; [reflexivity|]. split; [|assumption].
    intros kb k. unfold rcount. cbn. destruct (Z.eqb_spec k VT); [subst; lia | reflexivity].
  - cbn [ofold] in H. destruct (del_step n d) as [n1|] eqn:S; [|discriminate].
    destruct (del_step_spec n d n1 S) as [bid [b [Nd [Eb [Hlen ->]]]]].
    set (tids := match zremove1 VT (b_tids b) with Some l => l | None => b_tids b end) in *.
    set (n1 := mkN (tensors n) (dset bid (set_btids b tids) (bonds n))) in *.
    assert (Hbid : In bid (dkeys (bonds n))) by (eapply dget_Some_key; eauto).
    assert (Vb : vbids n1 = vbids n) by reflexivity.
    (* VT is present in the bond: at least this deletion is counted *)
    assert (Hpos : (1 <= zcount VT (b_tids b))%nat).
    { specialize (Hr bid). rewrite rcount_cons in Hr. unfold on_bond in Hr. rewrite Nd, Z.eqb_refl in Hr.
      unfold cntB in Hr. rewrite Eb in Hr. lia. }
    destruct (zremove1_some VT (b_tids b)) as [l Hl]; [apply zcount_pos; lia|].
    assert (Et : tids = l) by (unfold tids; rewrite Hl; reflexivity).
    assert (C1 : forall kb k, cntB n1 kb k = if Z.eqb kb bid then (if Z.eqb k VT then cntB n bid VT - 1 else cntB n bid k)%nat else cntB n kb k).
    { intros kb k. unfold cntB. cbn [n1 bonds]. rewrite dget_dset.
      destruct (Z.eqb_spec kb bid); [|reflexivity]. subst kb. rewrite Eb. cbn [set_btids b_tids].
      rewrite Et. rewrite (zremove1_count VT k _ _ Hl), (zremove1_count VT VT _ _ Hl), Z.eqb_refl.
      destruct (Z.eqb k VT) eqn:Ek; [apply Z.eqb_eq in Ek; subst; lia | lia]. }
    assert (ND1 : NoDup (dkeys (bonds n1))) by (cbn [n1 bonds]; rewrite dkeys_dset_in by assumption; assumption).
    assert (HB1 : forall kb b0, In (kb, b0) (bonds n1) -> b_id b0 = kb /\ (2 <= length (b_tids b0))%nat).
    { intros kb b0 Hin. cbn [n1 bonds] in Hin. apply In_dset_in in Hin; [|assumption|assumption].
      destruct Hin as [[-> ->]|[_ Hin]]; [|apply HB; assumption].
      cbn. split; [apply (HB bid b); apply dget_In; assumption | assumption]. }
    assert (Hr1 : forall kb, (rcount (vbids n1) D kb <= cntB n1 kb VT)%nat).
    { intros kb. rewrite Vb, C1, Z.eqb_refl. specialize (Hr kb). rewrite rcount_cons in Hr.
      unfold on_bond in Hr. rewrite Nd in Hr.
      destruct (Z.eqb_spec kb bid).
      - subst. rewrite Z.eqb_refl in Hr. lia.
      - destruct (Z.eqb_spec bid kb); [congruence|]. lia. }
    destruct (IH n1 n4 ND1 Hr1 HB1 H) as [T4 [K4 [C4 B4]]].
    split; [rewrite T4; reflexivity|]. split; [rewrite K4; cbn [n1 bonds]; apply dkeys_dset_in; assumption|].
    split; [|assumption].
    intros kb k. rewrite C4, Vb, !C1, Z.eqb_refl, rcount_cons. unfold on_bond. rewrite Nd.
    specialize (Hr kb). rewrite rcount_cons in Hr. unfold on_bond in Hr. rewrite Nd in Hr.
    destruct (Z.eqb_spec k VT).
    + destruct (Z.eqb_spec kb bid).
      * subst. rewrite Z.eqb_refl in *. lia.
      * destruct (Z.eqb_spec bid kb); [congruence|]. lia.
    + destruct (Z.eqb_spec kb bid); [subst; reflexivity | reflexivity].
Qed.

Definition sliced (t : tensor) (amap : list nat) : tensor :=
  mkT (t_id t) (map (fun i => nth i (t_shape t) O) amap) (map (fun i => nth i (t_bids t) 0) amap) (t_ref t).

Lemma finish_WF0 n3 t3 amap n4 :
  WF0 n3 -> dget VT (tensors n3) = Some t3 -> NoDup amap ->
  (forall i, In i amap -> (i < length (t_bids t3))%nat) ->
  ofold del_step (filter (fun i => negb (nmem i amap)) (seq 0 (length (t_bids t3)))) n3 = Some n4 ->
  WF0 (mkN (dset VT (sliced t3 amap) (tensors n4)) (bonds n4)).
Proof.
  intros W Ht ND Hlt H.
  set (D := filter (fun i => negb (nmem i amap)) (seq 0 (length (t_bids t3)))) in *.
  assert (Vb : vbids n3 = t_bids t3) by (unfold vbids; rewrite Ht; reflexivity).
  pose proof (zcount_split (t_bids t3) amap) as Split.
  assert (Hr : forall kb, (rcount (vbids n3) D kb <= cntB n3 kb VT)%nat).
  { intros kb. rewrite <- (wf_inc n3 W VT kb). unfold cntT. rewrite Ht, Vb.
    rewrite (Split kb ND Hlt). fold D. lia. }
  destruct (del_fold D n3 n4 (wf_ndB n3 W) Hr (wf_B n3 W) H) as [T4 [K4 [C4 B4]]].
  assert (HV : In VT (dkeys (tensors n3))) by (eapply dget_Some_key; eauto).
  pose proof (wf_T n3 W VT t3 (dget_In _ _ _ Ht)) as [Hid Hlen].
  rewrite T4.
  constructor; cbn [tensors bonds].
  - rewrite dkeys_dset_in by assumption. apply (wf_ndT n3 W).
  - rewrite K4. apply (wf_ndB n3 W).
  - intros k x Hin. apply In_dset_in in Hin; [|apply (wf_ndT n3 W)|assumption].
    destruct Hin as [[-> ->]|[_ Hin]]; [|apply (wf_T n3 W); assumption].
    cbn. rewrite !map_length. auto.
  - assumption.
  - intros k kb.
    transitivity (if Z.eqb k VT then zcount kb (map (fun i => nth i (t_bids t3) 0) amap) else cntT n3 k kb).
    { unfold cntT. cbn [tensors]. rewrite dget_dset. destruct (Z.eqb_spec k VT); reflexivity. }
    transitivity (cntB n4 kb k); [|reflexivity]. rewrite C4, Vb.
    destruct (Z.eqb_spec k VT); [|apply (wf_inc n3 W)].
    rewrite <- (wf_inc n3 W VT kb). unfold cntT. rewrite Ht. rewrite (Split kb ND Hlt). fold D. lia.
  - intros kb. destruct (wf_dim n3 W kb) as [d Hd]. exists d. intros k x ax' Hin Hn.
    apply In_dset_in in Hin; [|apply (wf_ndT n3 W)|assumption].
    destruct Hin as [[-> ->]|[_ Hin]]; [|eapply Hd; eauto].
    cbn [sliced t_bids t_shape] in *. rewrite nth_error_map in *.
    destruct (nth_error amap ax') as [ax|] eqn:Ea; [|discriminate]. cbn in *.
    injection Hn as Hn. f_equal.
    pose proof (Hlt ax (nth_error_In _ _ Ea)) as A.
    assert (E : nth_error (t_bids t3) ax = Some kb) by (rewrite <- Hn; apply nth_error_nth'; assumption).
    specialize (Hd VT t3 ax (dget_In _ _ _ Ht) E).
    apply nth_error_nth with (d := O) in Hd. exact Hd.
Qed.

Lemma del_fold_tensors D : forall n n4, ofold del_step D n = Some n4 -> tensors n4 = tensors n.
Proof.
  induction D as [|d D IH]; intros n n4 H; cbn [ofold] in H; [injection H as <-; reflexivity|].
  destruct (del_step n d) as [n1|] eqn:S; [|discriminate].
  destruct (del_step_spec n d n1 S) as [bid [b [_ [_ [_ ->]]]]]. rewrite (IH _ _ H). reflexivity.
Qed.

(* ------------------------------------------------------------------ merge *)
(** the joined open axes have equal dimensions (merge checks this: merge_joins_dim_ok below) *)
Definition joins_dim_ok (n o : net) (joins : list (nat * nat)) : Prop :=
  forall Sn So, shape n = Some Sn -> shape o = Some So ->
  forall j, In j joins -> exists d, nth_error Sn (fst j) = Some d /\ nth_error So (snd j) = Some d.

(** the stages of an accepted merge *)
Inductive merge_stages (n o : net) (joins : list (nat * nat)) (n' : net) : Prop := mkStages
  (ms_vtn : tensor)
  (ms_vto : tensor)
  (ms_o2 : net)
  (ms_tmp : Z)
  (ms_x2 : tensor)
  (ms_n2 : net)
  (ms_n3 : net)
  (ms_amap : list nat)
  (ms_n4 : net)
  (ms_t3 : tensor)
  (ms_Hvtn : dget VT (tensors n) = Some ms_vtn)
  (ms_Hvto : dget VT (tensors o) = Some ms_vto)
  (ms_Wo2 : WF0 ms_o2)
  (ms_lenT : length (tensors ms_o2) = length (tensors o))
  (ms_lenB : length (bonds ms_o2) = length (bonds o))
  (ms_DT : forall k, In k (dkeys (tensors ms_o2)) -> ~ In k (dkeys (tensors n)))
  (ms_DB : forall k, In k (dkeys (bonds ms_o2)) -> ~ In k (dkeys (bonds n)))
  (ms_tmpV : VT <> ms_tmp)
  (ms_Hx2 : dget ms_tmp (tensors ms_o2) = Some ms_x2)
  (ms_Sx2 : t_shape ms_x2 = t_shape ms_vto)
  (ms_En2 : ms_n2 = mkN (dset VT (fused_tensor ms_vtn ms_x2) (dpop ms_tmp (tensors n ++ tensors ms_o2))) (upd_all (f_retid ms_tmp VT) (t_bids ms_x2) (bonds n ++ bonds ms_o2)))
  (ms_W2 : WF0 ms_n2)
  (ms_JF : ofold (join_step (length (t_shape ms_vtn))) joins (ms_n2, seq 0 (length (t_shape ms_vtn ++ t_shape ms_vto))) = Some (ms_n3, ms_amap))
  (ms_Ht3 : dget VT (tensors ms_n3) = Some ms_t3)
  (ms_DF : ofold del_step (filter (fun i => negb (nmem i ms_amap)) (seq 0 (length (t_shape ms_vtn ++ t_shape ms_vto)))) ms_n3 = Some ms_n4)
  (ms_T4 : tensors ms_n4 = tensors ms_n3)
  (ms_En : n' = mkN (dset VT (sliced ms_t3 ms_amap) (tensors ms_n4)) (bonds ms_n4))
  (ms_inrange : forall j, In j joins -> (fst j < length (t_shape ms_vtn))%nat).


Lemma rename_tensor_len n a c n' : WF0 n -> rename_tensor_priv n a c = Some n' ->
  length (tensors n') = length (tensors n) /\ length (bonds n') = length (bonds n).
Proof.
  intros W H. destruct (rename_tensor_spec n a c n' W H) as [t [Ht [Hc ->]]]. cbn [tensors bonds].
  rewrite upd_all_length. split; [|reflexivity]. apply dpop_app_length; [apply (wf_ndT n W) | eapply dget_Some_key; eauto].
Qed.
Lemma rename_bond_len n a c n' : WF0 n -> rename_bond n a c = Some n' ->
  length (tensors n') = length (tensors n) /\ length (bonds n') = length (bonds n).
Proof.
  intros W H. destruct (rename_bond_spec n a c n' W H) as [b [Hb [Hc ->]]]. cbn [tensors bonds].
  rewrite upd_all_length. split; [reflexivity|]. apply dpop_app_length; [apply (wf_ndB n W) | eapply dget_Some_key; eauto].
Qed.
Lemma relabel_tensors_len o ord next tmp o1 tmp1 : WF0 o -> relabel_tensors o ord next tmp = Some (o1, tmp1) ->
  length (tensors o1) = length (tensors o) /\ length (bonds o1) = length (bonds o).
Proof.
  revert o next tmp. induction ord as [|a ord IH]; intros o next tmp W H.
  - cbn in H. injection H as <- _. auto.
  - cbn [relabel_tensors] in H. destruct (rename_tensor_priv o a next) as [o'|] eqn:R; [|discriminate].
    destruct (rename_tensor_len _ _ _ _ W R) as [A B].
    destruct (IH o' _ _ (rename_tensor_WF0 _ _ _ _ W R) H) as [A' B']. split; congruence.
Qed.
Lemma relabel_bonds_len o ord next o1 : WF0 o -> relabel_bonds o ord next = Some o1 ->
  length (tensors o1) = length (tensors o) /\ length (bonds o1) = length (bonds o).
Proof.
  revert o next. induction ord as [|a ord IH]; intros o next W H.
  - cbn in H. injection H as <-. auto.
  - cbn [relabel_bonds] in H. destruct (rename_bond o a next) as [o'|] eqn:R; [|discriminate].
    destruct (rename_bond_len _ _ _ _ W R) as [A B].
    destruct (IH o' _ (rename_bond_WF0 _ _ _ _ W R) H) as [A' B']. split; congruence.
Qed.

Theorem merge_stages_intro n o joins ordT ordB n' :
  WF n -> WF o -> merge n o joins ordT ordB = Some n' -> merge_stages n o joins n'.
Proof.
  intros [Wn Vn] [Wo Vo] H. unfold merge in H.
  destruct (In_key_dget _ _ Vn) as [vtn Hvtn]. destruct (In_key_dget _ _ Vo) as [vto Hvto].
  unfold num_open_axes at 1 in H. rewrite Hvtn in H. cbn [option_map] in H.
  destruct (match joins with [] => Some O | _ :: _ => num_open_axes o end) as [nother|]; [|discriminate].
  destruct (forallb _ joins) eqn:FJ; [|discriminate]. cbn [negb] in H.
  destruct (joins_starve n o joins) eqn:JS; [discriminate|].
  unfold merge_changes in H.
  destruct (is_shared_order ordT _ _) eqn:ST; [|discriminate]. cbn [negb] in H.
  destruct (is_shared_order ordB _ _) eqn:SB; [|discriminate]. cbn [negb] in H.
  destruct (relabel_tensors o ordT _ VT) as [[o1 tmp]|] eqn:RT; [|discriminate].
  destruct (relabel_bonds o1 ordB _) as [o2|] eqn:RB; [|discriminate].
  destruct (merge_tensors _ VT tmp) as [n2|] eqn:MT; [|discriminate].
  destruct (ofold (join_step (t_ndim vtn)) joins _) as [[n3 amap]|] eqn:JF; [|discriminate].
  destruct (ofold del_step _ n3) as [n4|] eqn:DF; [|discriminate].
  destruct (dget VT (tensors n4)) as [t4|] eqn:Ht4; [|discriminate]. injection H as <-.
  (* relabelling *)
  destruct (relabel_tensors_WF0 _ _ _ _ _ _ Wo RT) as [Wo1 Kb1].
  destruct (is_shared_order_spec _ _ _ ST) as [NDT [ST2 ST3]].
  assert (HVord : In VT ordT) by (apply ST3; assumption).
  set (next := zmax0 (dkeys (tensors n) ++ dkeys (tensors o)) + 1) in *.
  assert (Hlt : forall k, In k ordT -> k < next).
  { intros k Hk. destruct (ST2 k Hk) as [A _].
    assert (Hin : In k (dkeys (tensors n) ++ dkeys (tensors o))) by (apply in_or_app; left; assumption).
    apply zmax0_ge in Hin. unfold next. lia. }
  destruct (relabel_tensors_tmp _ _ _ _ _ _ Wo RT Hlt HVord) as [Htmp1 Htmp2].
  assert (HtmpV : VT <> tmp) by (specialize (Hlt VT HVord); lia).
  pose proof (tshape_relabel_tmp _ _ _ _ _ _ Wo RT NDT Hlt HVord) as Sh1.
  destruct (relabel_bonds_WF0 _ _ _ _ Wo1 RB) as [Wo2 Kt2].
  assert (DT : forall k, In k (dkeys (tensors o2)) -> ~ In k (dkeys (tensors n))).
  { intros k Hk. rewrite Kt2 in Hk. exact (relabel_tensors_disjoint n o ordT o1 tmp k Wo ST RT Hk). }
  assert (DB : forall k, In k (dkeys (bonds o2)) -> ~ In k (dkeys (bonds n))).
  { intros k Hk. refine (relabel_bonds_disjoint n o1 ordB o2 k Wo1 _ RB Hk). rewrite Kb1. exact SB. }
  rewrite (dupdate_disjoint (tensors n) (tensors o2)) in MT by (auto; apply (wf_ndT o2 Wo2)).
  rewrite (dupdate_disjoint (bonds n) (bonds o2)) in MT by (auto; apply (wf_ndB o2 Wo2)).
  pose proof (union_WF0 n o2 Wn Wo2 DT DB) as W1.
  pose proof (merge_tensors_WF0 _ _ _ _ W1 MT) as W2.
  (* the fused virtual tensor *)
  destruct (merge_tensors_spec _ _ _ _ W1 HtmpV MT) as [x1 [x2 [E1 [E2 En2]]]]. cbn [tensors bonds] in E1, E2, En2.
  rewrite dget_app, Hvtn in E1. injection E1 as <-.
  rewrite dget_app in E2.
  assert (Hnt : dget tmp (tensors n) = None).
  { apply dget_None. apply DT. rewrite Kt2. assumption. }
  rewrite Hnt in E2.
  assert (Sx2 : t_shape x2 = t_shape vto).
  { pose proof (tshape_relabel_bonds _ _ _ _ tmp Wo1 RB) as A. rewrite Sh1 in A. unfold tshape in A.
    rewrite E2, Hvto in A. cbn in A. congruence. }
  set (S := t_shape vtn ++ t_shape vto).
  assert (S2 : tshape n2 VT = Some S).
  { rewrite En2. unfold tshape. cbn [tensors]. rewrite dget_dset, Z.eqb_refl. cbn. rewrite Sx2. reflexivity. }
  assert (Nd : num_open_axes n2 = Some (length S)).
  { unfold num_open_axes. unfold tshape in S2. destruct (dget VT (tensors n2)); [|discriminate].
    cbn in S2 |- *. injection S2 as S2. unfold t_ndim. rewrite S2. reflexivity. }
  rewrite Nd in JF, DF.
  pose proof (del_fold_tensors _ _ _ DF) as T4.
  destruct (relabel_tensors_len _ _ _ _ _ _ Wo RT) as [LT1 LB1].
  destruct (relabel_bonds_len _ _ _ _ Wo1 RB) as [LT2 LB2].
  refine (mkStages n o joins _ vtn vto o2 tmp x2 n2 n3 amap n4 t4 Hvtn Hvto Wo2 _ _ DT DB HtmpV E2 Sx2 En2 W2 _ _ _ T4 _ _).
  - congruence.
  - congruence.
  - exact JF.
  - rewrite <- T4. exact Ht4.
  - exact DF.
  - reflexivity.
  - intros j Hj. rewrite forallb_forall in FJ. specialize (FJ j Hj). rewrite !andb_true_iff in FJ.
    destruct FJ as [[A _] _]. apply Nat.ltb_lt in A. exact A.
Qed.

(** an accepted merge has compared the dimensions of the joined axes (the code's own test
    self.shape[joinax[0]] != other.shape[joinax[1]] -> ValueError) *)
Lemma merge_joins_dim_ok n o joins ordT ordB n' :
  merge n o joins ordT ordB = Some n' -> joins_dim_ok n o joins.
Proof.
  unfold merge, joins_dim_ok. intros H Sn So HSn HSo j Hj.
  unfold shape in HSn, HSo. unfold num_open_axes in H.
  destruct (dget VT (tensors n)) as [vtn|] eqn:Hn; [|discriminate]. cbn in HSn. injection HSn as <-.
  destruct (dget VT (tensors o)) as [vto|] eqn:Ho; [|discriminate]. cbn in HSo. injection HSo as <-.
  cbn [option_map] in H.
  destruct joins as [|j0 joins]; [destruct Hj|].
  destruct (forallb _ (j0 :: joins)) eqn:FJ; [|discriminate].
  rewrite forallb_forall in FJ. specialize (FJ j Hj). rewrite !andb_true_iff in FJ. destruct FJ as [[A B] C].
  apply Nat.ltb_lt in A, B. apply Nat.eqb_eq in C. unfold vshape in C. rewrite Hn, Ho in C.
  unfold t_ndim in A, B.
  exists (nth (fst j) (t_shape vtn) O). split; [apply nth_error_nth'; exact A | rewrite C; apply nth_error_nth'; exact B].
Qed.

(** ... and has found that every (fused) bond keeps at least two legs (the code's last test in
    front of any change: ValueError "would leave a bond with less than two legs") *)
Lemma merge_not_starved n o joins ordT ordB n' :
  merge n o joins ordT ordB = Some n' -> joins_starve n o joins = false.
Proof.
  unfold merge. intros H.
  destruct (num_open_axes n); [|discriminate].
  destruct (match joins with [] => Some O | _ :: _ => num_open_axes o end); [|discriminate].
  destruct (negb (forallb _ joins)); [discriminate|].
  destruct (joins_starve n o joins); [discriminate|reflexivity].
Qed.

Theorem merge_WF n o joins ordT ordB n' :
  WF n -> WF o -> merge n o joins ordT ordB = Some n' -> WF n'.
Proof.
  intros Wn Wo H. pose proof (merge_joins_dim_ok n o joins ordT ordB n' H) as JD. destruct (merge_stages_intro n o joins ordT ordB n' Wn Wo H)
    as [vtn vto o2 tmp x2 n2 n3 amap n4 t3 Hvtn Hvto Wo2 _ _ DT DB HtmpV E2 Sx2 En2 W2 JF Ht3 DF T4 En Hr].
  set (S := t_shape vtn ++ t_shape vto) in *.
  assert (S2 : tshape n2 VT = Some S).
  { rewrite En2. unfold tshape. cbn [tensors]. rewrite dget_dset, Z.eqb_refl. cbn. rewrite Sx2. reflexivity. }
  assert (HJ : forall j, In j joins ->
             exists d, nth_error S (fst j) = Some d /\ nth_error S (length (t_shape vtn) + snd j) = Some d).
  { intros j Hj. destruct (JD (t_shape vtn) (t_shape vto)) with (j := j) as [d [A B]];
      [unfold shape; rewrite Hvtn; reflexivity | unfold shape; rewrite Hvto; reflexivity | assumption |].
    exists d. unfold S. split.
    - rewrite nth_error_app1; [assumption|]. apply nth_error_Some. congruence.
    - rewrite nth_error_app2 by lia. rewrite <- B. f_equal. lia. }
  destruct (join_fold_inv _ _ S _ _ _ _ W2 S2 HJ JF) as [W3 [S3 [Asub And]]].
  pose proof S3 as S3'. unfold tshape in S3'. rewrite Ht3 in S3'. cbn in S3'. injection S3' as S3'.
  pose proof (wf_T n3 W3 VT t3 (dget_In _ _ _ Ht3)) as [_ Hlen3].
  assert (Ln : length (t_bids t3) = length S) by congruence.
  rewrite <- Ln in DF. subst n'.
  split.
  - apply (finish_WF0 n3 t3 amap n4 W3 Ht3).
    + apply And. apply seq_NoDup.
    + intros i Hi. apply Asub in Hi. apply in_seq in Hi. lia.
    + exact DF.
  - cbn [tensors]. rewrite dkeys_dset_in; rewrite T4; eapply dget_Some_key; eauto.
Qed.
