(** C05 - All views of a circuit agree: matrix, tensor network, both simulators.
    Property theorems only.  [Run.GenCirc] is regenerated on every run (gen/embed.py) from
    /repo/src/qib/circuit/circuit.py (the four builder calls, the as_matrix loop, the
    constructor), /repo/src/qib/simulator/statevector_simulator.py (the run loop) and from every
    Gate.__copy__ in gates.py (deep or shallow in the gate-valued fields tgate / tgates).
    The translator fails closed unless the builder calls, the as_matrix loop and the
    statevector loop have exactly the shape modelled in Qib.Embed.CircModel.

    (d) "the circuit's tensor network contracts to the circuit matrix" and (e) "the tensor-network
    simulator returns column 0" are NOT proved here: the network model belongs to C06-C08.
    Full statements (missing):
      (d) forall c, expand (contract_einsum (circuit_net c)) = cmat nw c, with 2*nw open axes
          ordered outputs-then-inputs;
      (e) forall c, expand (contract_einsum (merge (circuit_net c) |0..0>)) = column0 (cmat nw c).
    They are covered by the correspondence/oracle run only (checks/C05.py). *)
From Qib Require Import Embed.CircProofs Embed.HeapProofs Base.Inst.
From Run Require Import GenCirc.

(** (a) the circuit matrix is the product of the embedded gate matrices in application order:
    empty product = 1, appending a gate multiplies from the left; the code's loop (first gate
    special-cased, RuntimeError on no gates) computes it; concatenation = product *)
Theorem C05_circuit_matrix_is_ordered_product :
  forall (K : Scalar) (L : ScalarLaws K) nw,
    gen_as_matrix_left_mult = true /\
    meq nw (cmat nw ([] : circuit K)) mid /\
    (forall (c : circuit K) g, meq nw (cmat nw (c ++ [g])) (mmul nw (E nw g) (cmat nw c))) /\
    (forall (c : circuit K) M, circuit_matrix nw c = Some M -> meq nw M (cmat nw c)) /\
    (forall c : circuit K, c <> [] -> exists M, circuit_matrix nw c = Some M) /\
    (forall (c1 c2 : circuit K) M1 M2 M,
       circuit_matrix nw c1 = Some M1 -> circuit_matrix nw c2 = Some M2 ->
       circuit_matrix nw (c1 ++ c2) = Some M -> meq nw M (mmul nw M2 M1)).
Proof.
  intros K L nw. split; [reflexivity|]. split; [apply cmat_nil|]. split; [|split; [|split]].
  - intros c g. apply (builder_matrix nw c (BAppendGate g)).
  - apply circuit_matrix_cmat.
  - apply circuit_matrix_some.
  - apply circuit_matrix_app.
Qed.
Print Assumptions C05_circuit_matrix_is_ordered_product.

(** (a') append_gate / append_circuit / prepend_gate / prepend_circuit compose accordingly *)
Theorem C05_builder_calls_compose :
  forall (K : Scalar) (L : ScalarLaws K) nw (c : circuit K) (b : builder K),
    gen_builders_copy = true /\
    meq nw (cmat nw (apply_builder c b))
        match b with
        | BAppendGate g => mmul nw (E nw g) (cmat nw c)
        | BAppendCircuit o => mmul nw (cmat nw o) (cmat nw c)
        | BPrependGate g => mmul nw (cmat nw c) (E nw g)
        | BPrependCircuit o => mmul nw (cmat nw c) (cmat nw o)
        end.
Proof. intros. split; [reflexivity|apply builder_matrix]. Qed.
Print Assumptions C05_builder_calls_compose.

(** (b) the statevector simulator returns the first column of the circuit matrix (the image of
    |0...0>); it has unit norm when every gate is a unitary on distinct wires of the register *)
Theorem C05_statevector_is_first_column :
  forall (K : Scalar) (L : ScalarLaws K) nw (c : circuit K),
    gen_statevector_loop = true /\
    (forall r, length r = nw -> run_statevector nw c r = cmat nw c r (zeros nw)) /\
    (Forall (gate_ok nw) c -> unitary nw (cmat nw c) /\ norm2 nw (run_statevector nw c) = s1).
Proof.
  intros K L nw c. split; [reflexivity|]. split.
  - apply run_statevector_column0.
  - intros H. split; [apply cmat_unitary; exact H|apply run_statevector_unit_norm; exact H].
Qed.
Print Assumptions C05_statevector_is_first_column.

(** (c, converse) a single __copy__ that is shallow in a gate-valued field breaks capture by value:
    construct target t, construct g with field t, append g, mutate t *)
Theorem C05_shallow_copy_breaks_by_value :
  forall (deep : nat -> bool) cls0, deep cls0 = false ->
    exists es, map (map erase) (circuits (run deep es)) <> snd (vrun deep init [] es).
Proof. intros deep cls0 H. eexists. apply (shallow_copy_refuted deep cls0 H). Qed.
Print Assumptions C05_shallow_copy_breaks_by_value.

(** every __copy__ found in gates.py is deep in its gate-valued fields *)
Lemma gen_copy_all_deep : forall cls, gen_copy_deep cls = true.
Proof.
  intros cls. unfold gen_copy_deep.
  do 64 (try (destruct cls as [|cls]; [reflexivity|])). reflexivity.
Qed.

(** (c) HISTORIES: for every sequence of gate constructions, builder calls on any number of
    circuits (append_gate, prepend_gate, append_circuit, prepend_circuit) and mutations of the
    caller's gate objects (attribute assignment / mutators on the object or on targets reached
    through target_gate()/target_gates(), assignment of gate-valued fields), every circuit
    denotes the gates as they were when added, and no object of a circuit is reachable from a
    caller handle.  In-place mutation of numpy arrays / operators / qubit objects handed to a gate,
    and mutation through circuit.gates, are outside the event alphabet. *)
Theorem C05_histories_capture_by_value :
  forall es : list event,
    map (map erase) (circuits (run gen_copy_deep es)) = snd (vrun gen_copy_deep init [] es) /\
    (forall c i, In c (circuits (run gen_copy_deep es)) -> In i (ids_l c) ->
                 ~ In i (ids_l (handles (run gen_copy_deep es)))).
Proof.
  intros es. split.
  - apply histories_by_value. exact gen_copy_all_deep.
  - apply histories_separated. exact gen_copy_all_deep.
Qed.
Print Assumptions C05_histories_capture_by_value.

(** non-vacuity: H-free exact instance: X on wire 2, then CNOT (control wire 0 negated, target
    wire 2) on a 3-wire register; product order, first column, unit norm *)
Example C05_instance :
  let X : list (list ZI) := [[(0,0);(1,0)]; [(1,0);(0,0)]]%Z in
  let C0X : list (list ZI) := [[(0,0);(1,0);(0,0);(0,0)]; [(1,0);(0,0);(0,0);(0,0)];
                               [(0,0);(0,0);(1,0);(0,0)]; [(0,0);(0,0);(0,0);(1,0)]]%Z in
  let g1 : cgate ZI := {| g_mat := mxl (K:=ZI) X; g_wires := [2%nat] |} in
  let g2 : cgate ZI := {| g_mat := mxl (K:=ZI) C0X; g_wires := [0%nat; 2%nat] |} in
  let c : circuit ZI := [g1; g2] in
  dense 3 (cmat 3 c) = dense 3 (mmul 3 (E 3 g2) (E 3 g1))
  /\ map (run_statevector 3 c) (all_bits 3) = map (column0 3 (cmat 3 c)) (all_bits 3)
  /\ norm2 3 (run_statevector 3 c) = (1, 0)%Z
  /\ run_statevector 3 c [false; false; false] = (1, 0)%Z.
Proof. vm_compute. repeat split. Qed.
