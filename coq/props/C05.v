(** C05 - All views of a circuit agree: matrix, tensor network, both simulators.
    Property theorems only.  [Run.GenCirc] is regenerated on every run (gen/embed.py) from
    /repo/src/qib/circuit/circuit.py (the four builder calls, the as_matrix loop, the
    constructor), /repo/src/qib/simulator/statevector_simulator.py (the run loop) and from every
    Gate.__copy__ in gates.py (deep or shallow in the gate-valued fields tgate / tgates).
    The translator fails closed unless the builder calls, the as_matrix loop and the
    statevector loop have exactly the shape modelled in Qib.Embed.CircModel.

    (d) "the circuit's tensor network contracts to the circuit matrix" and (e) "the tensor-network
    simulator returns column 0" are NOT proved here: the network model belongs to C06-C08.
    Full statements (missing):
      (d) forall c, expand (contract_einsum (circuit_net c)) = cmat nw c, with 2*nw open axes
          ordered outputs-then-inputs;
      (e) forall c, expand (contract_einsum (merge (circuit_net c) |0..0>)) = column0 (cmat nw c).
    They are covered by the correspondence/oracle run only (checks/C05.py). *)
From Qib Require Import Embed.CircProofs Embed.CircCtrl Embed.HeapProofs Embed.HeapObs Embed.IdentProofs Base.Inst.
From Run Require Import GenCirc.

(** (a) the circuit matrix is the product of the embedded gate matrices in application order:
    empty product = 1, appending a gate multiplies from the left; the code's loop (first gate
    special-cased, RuntimeError on no gates) computes it; concatenation = product *)
Theorem C05_circuit_matrix_is_ordered_product :
  forall (K : Scalar) (L : ScalarLaws K) nw,
    gen_as_matrix_left_mult = true /\
    meq nw (cmat nw ([] : circuit K)) mid /\
    (forall (c : circuit K) g, meq nw (cmat nw (c ++ [g])) (mmul nw (E nw g) (cmat nw c))) /\
    (forall (c : circuit K) M, circuit_matrix nw c = Some M -> meq nw M (cmat nw c)) /\
    (forall c : circuit K, c <> [] -> exists M, circuit_matrix nw c = Some M) /\
    (forall (c1 c2 : circuit K) M1 M2 M,
       circuit_matrix nw c1 = Some M1 -> circuit_matrix nw c2 = Some M2 ->
       circuit_matrix nw (c1 ++ c2) = Some M -> meq nw M (mmul nw M2 M1)).
Proof.
  intros K L nw. split; [reflexivity|]. split; [apply cmat_nil|]. split; [|split; [|split]].
  - intros c g. apply (builder_matrix nw c (BAppendGate g)).
  - apply circuit_matrix_cmat.
  - apply circuit_matrix_some.
  - apply circuit_matrix_app.
Qed.
Print Assumptions C05_circuit_matrix_is_ordered_product.

(** (a') append_gate / append_circuit / prepend_gate / prepend_circuit compose accordingly *)
Theorem C05_builder_calls_compose :
  forall (K : Scalar) (L : ScalarLaws K) nw (c : circuit K) (b : builder K),
    gen_builders_copy = true /\
    meq nw (cmat nw (apply_builder c b))
        match b with
        | BAppendGate g => mmul nw (E nw g) (cmat nw c)
        | BAppendCircuit o => mmul nw (cmat nw o) (cmat nw c)
        | BPrependGate g => mmul nw (cmat nw c) (E nw g)
        | BPrependCircuit o => mmul nw (cmat nw c) (cmat nw o)
        end.
Proof. intros. split; [reflexivity|apply builder_matrix]. Qed.
Print Assumptions C05_builder_calls_compose.

(** (b) the statevector simulator returns the first column of the circuit matrix (the image of
    |0...0>); it has unit norm when every gate is a unitary on distinct wires of the register *)
Theorem C05_statevector_is_first_column :
  forall (K : Scalar) (L : ScalarLaws K) nw (c : circuit K),
    gen_statevector_loop = true /\
    (forall r, length r = nw -> run_statevector nw c r = cmat nw c r (zeros nw)) /\
    (Forall (gate_ok nw) c -> unitary nw (cmat nw c) /\ norm2 nw (run_statevector nw c) = s1).
Proof.
  intros K L nw c. split; [reflexivity|]. split.
  - apply run_statevector_column0.
  - intros H. split; [apply cmat_unitary; exact H|apply run_statevector_unit_norm; exact H].
Qed.
Print Assumptions C05_statevector_is_first_column.

(** (b') circuits whose element list also holds control instructions (barrier, measurement, delay): both loops
    skip them (the translator pins `if isinstance(g, ControlInstruction): continue` in as_matrix AND in the statevector
    loop - the latter since the repair 34f716a), so both are the loops above on the gates alone and the statevector is
    still column 0 of the matrix, for every element list *)
Theorem C05_control_instructions_are_skipped_by_both_views :
  forall (K : Scalar) (L : ScalarLaws K) nw (c : list (celem (K:=K))),
    gen_as_matrix_left_mult = true /\ gen_statevector_loop = true /\
    cmat_e nw c = cmat nw (gates_of c) /\
    run_statevector_e nw c = run_statevector nw (gates_of c) /\
    (forall r, length r = nw -> run_statevector_e nw c r = cmat_e nw c r (zeros nw)).
Proof.
  intros K L nw c. split; [reflexivity|]. split; [reflexivity|]. split; [apply cmat_e_gates|].
  split; [apply run_statevector_e_gates|]. intros r H. apply run_statevector_e_column0. exact H.
Qed.
Print Assumptions C05_control_instructions_are_skipped_by_both_views.

(** (c, converse) a single __copy__ that is shallow in a gate-valued field breaks capture by value:
    construct target t, construct g with field t, append g, mutate t *)
Theorem C05_shallow_copy_breaks_by_value :
  forall (deep : nat -> bool) ctor cls0, deep cls0 = false ->
    exists es l vl, nth_error (circuits (run deep ctor es)) 0 = Some l /\
                    nth_error (snd (vrun deep ctor init [] es)) 0 = Some (true, vl) /\ map erase l <> vl.
Proof. intros deep ctor cls0 H. eexists. apply (shallow_copy_refuted deep ctor cls0 H). Qed.
Print Assumptions C05_shallow_copy_breaks_by_value.

(** every __copy__ found in gates.py is deep in its gate-valued fields *)
Lemma gen_copy_all_deep : forall cls, gen_copy_deep cls = true.
Proof.
  intros cls. unfold gen_copy_deep.
  do 64 (try (destruct cls as [|cls]; [reflexivity|])). reflexivity.
Qed.

(** (c) HISTORIES: for every sequence of gate constructions, circuit constructions (empty, or by the list
    constructor Circuit([g1, ...]) from the caller's objects), builder calls on any number of circuits
    (append_gate, prepend_gate, append_circuit, prepend_circuit - the given circuit may itself be
    list-constructed), mutations of the caller's gate objects (attribute assignment / mutators on the
    object or on targets reached through target_gate()/target_gates(), assignment of gate-valued fields) and
    mutations through a circuit's own gate list (c.gates[i], or a target reached from it):
    every circuit that the ghost flags "by value" - all but those made by a non-copying list constructor -
    denotes the gates as they were when added (and as mutated through ITS OWN gate list); its objects are
    pairwise distinct, unreachable from any caller handle and not shared with any other circuit.
    The list constructor as the code has it now ([gen_ctor_copies]) decides the flag of the circuits it makes;
    C05_list_constructor_by_reference_refuted below is the known finding Circuit.__init__:gates-captured-by-reference.
    In-place mutation of numpy arrays / operators / qubit objects handed to a gate is outside the event alphabet. *)
Theorem C05_histories_capture_by_value :
  forall (es : list event) c l vl,
    nth_error (circuits (run gen_copy_deep gen_ctor_copies es)) c = Some l ->
    nth_error (snd (vrun gen_copy_deep gen_ctor_copies init [] es)) c = Some (true, vl) ->
    map erase l = vl /\
    NoDup (ids_l l) /\
    (forall x, In x (ids_l l) -> ~ In x (ids_l (handles (run gen_copy_deep gen_ctor_copies es)))) /\
    (forall x c' l', In x (ids_l l) -> c' <> c ->
       nth_error (circuits (run gen_copy_deep gen_ctor_copies es)) c' = Some l' -> ~ In x (ids_l l')).
Proof.
  intros es c l vl Hc Hg. split.
  - apply (histories_by_value gen_copy_deep gen_ctor_copies gen_copy_all_deep es c l vl Hc Hg).
  - apply (histories_separated gen_copy_deep gen_ctor_copies gen_copy_all_deep es c l vl Hc Hg).
Qed.
Print Assumptions C05_histories_capture_by_value.

(** (c, as stated before the list constructor entered the alphabet) histories without list-constructed circuits:
    ALL circuits denote the by-value reference *)
Theorem C05_histories_without_list_constructor :
  forall es : list event, Forall not_list_ctor es ->
    map (map erase) (circuits (run gen_copy_deep gen_ctor_copies es))
    = map snd (snd (vrun gen_copy_deep gen_ctor_copies init [] es)).
Proof. intros es H. apply (histories_by_value_all gen_copy_deep gen_ctor_copies gen_copy_all_deep es). right. exact H. Qed.
Print Assumptions C05_histories_without_list_constructor.

(** the list constructor of /repo keeps the caller's objects: x = Gate(); c = Circuit([x]); mutate x changes c
    (known finding; the circuit is flagged "not by value" in the ghost and excluded above) *)
Theorem C05_list_constructor_by_reference_refuted :
  gen_ctor_copies = false /\
  forall cls0, exists es l,
    nth_error (circuits (run gen_copy_deep gen_ctor_copies es)) 0 = Some l /\
    nth_error (snd (vrun gen_copy_deep gen_ctor_copies init [] es)) 0 = Some (false, [GVal cls0 [] []]) /\
    map erase l <> [GVal cls0 [] []].
Proof. split; [reflexivity|]. intros cls0. eexists. apply (ctor_by_reference_refuted gen_copy_deep cls0). Qed.
Print Assumptions C05_list_constructor_by_reference_refuted.

(** (c') OBSERVATIONS INTERLEAVED WITH THE HISTORY: queries of a circuit's gate list (what as_matrix, the simulators
    and the tensor network are computed from) may occur anywhere between the events above, and the caller may
    overwrite results it was handed ([Scribble]).  The code recomputes every view ([trace]); for ANY implementation
    that caches the view, keyed on the query, with a cache reset at least by every event other than gate
    construction / mutation of caller objects, and that hands out copies: what the caller holds at the end is what
    recomputation gives - every query returned the by-value reference of that moment ([hview_ghost]), results
    handed out earlier are snapshots, and writing into them affects nothing. *)
Theorem C05_observations_interleaved_by_value :
  forall (inval : event -> bool) (es : list (oev event nat (option (list gval)))),
    (forall e, changes_circuits e = true -> inval e = true) ->
    mobs _ _ _ (mrun _ _ _ _ (hstep gen_copy_deep gen_ctor_copies) hview hqeqb inval false hinit es)
    = map Some (trace _ _ _ _ (hstep gen_copy_deep gen_ctor_copies) hview hinit [] es).
Proof. intros inval es H. apply (circuit_observations_by_value gen_copy_deep gen_ctor_copies gen_copy_all_deep inval es H). Qed.
Print Assumptions C05_observations_interleaved_by_value.

(** ... and the query answers of the reference are the ghost values *)
Theorem C05_query_returns_by_value_reference :
  forall (es : list event) c,
    let sg := fold_left (hstep gen_copy_deep gen_ctor_copies) es hinit in
    hview sg c = match nth_error (snd sg) c with Some (true, vl) => Some vl | _ => None end.
Proof.
  intros es c sg. apply hview_ghost. unfold sg.
  assert (G : forall es sg0, HInv sg0 -> HInv (fold_left (hstep gen_copy_deep gen_ctor_copies) es sg0)).
  { clear. induction es as [|e es IH]; intros sg0 H; [exact H|]. cbn. apply IH. apply HInv_step; [exact gen_copy_all_deep|exact H]. }
  apply G. apply init_inv.
Qed.
Print Assumptions C05_query_returns_by_value_reference.

(** conversely a cache that ONE builder call does not reset is observable: as_matrix; prepend_circuit; as_matrix *)
Theorem C05_cache_not_reset_by_a_builder_call_refuted :
  forall (inval : event -> bool) alias, inval (EPrependCircuit 0 1) = false ->
    exists s0 es,
      mobs _ _ _ (mrun _ _ _ _ (hstep gen_copy_deep gen_ctor_copies) hview hqeqb inval alias s0 es)
      <> map Some (trace _ _ _ _ (hstep gen_copy_deep gen_ctor_copies) hview s0 [] es).
Proof.
  intros inval alias H. eexists. eexists.
  apply (circuit_cache_not_reset_by_prepend_circuit_refuted gen_copy_deep gen_ctor_copies inval alias H).
Qed.
Print Assumptions C05_cache_not_reset_by_a_builder_call_refuted.

(** (b') WHAT identifies a gate inside one run.  The statevector loop recomputes the register matrix of every gate
    (translator: run is the five-statement loop).  A per-run memo of these matrices keyed on [keyeq] is invisible
    exactly when equal keys imply equal register matrices; a key that forgets the ORDER of the wires (gate class,
    matrix and the SET of particles) is refuted by  X(0); CNOT(0,1); CNOT(1,0) - the register matrix of a gate
    depends on the order of its wires.  The same holds for any memo of a view keyed on less than the query
    ([memo_coarse_key_refuted]).  checks/C05.py runs, for every kind of gate, families of gates that differ in ONE
    coordinate (order of the particles, one particle, its field, a parameter, the control state, the class, the class
    of the target, the memory layout of the matrix) through all four views. *)
Theorem C05_gate_memo_needs_a_faithful_key :
  (forall (K : Scalar) (L : ScalarLaws K) (keyeq : cgate K -> cgate K -> bool) nw (c : circuit K),
     (forall g h, keyeq g h = true -> meq nw (E nw h) (E nw g)) ->
     forall r, length r = nw -> run_statevector_memo keyeq nw c r = run_statevector nw c r) /\
  (exists c : circuit ZI,
     map (run_statevector_memo keyeq_matrix_and_wire_set 2 c) (all_bits 2) <> map (run_statevector 2 c) (all_bits 2)) /\
  (exists (G : BMx ZI), (forall w, In w [0; 1]%nat <-> In w [1; 0]%nat) /\
     dense 2 (embed (K:=ZI) 2 [0; 1]%nat G) <> dense 2 (embed (K:=ZI) 2 [1; 0]%nat G)) /\
  (forall (S E Q V : Type) (step : S -> E -> S) (view : S -> Q -> V) qeqb inval alias s q1 q2,
     qeqb q2 q1 = true -> view s q2 <> view s q1 ->
     mobs _ _ _ (mrun S E Q V step view qeqb inval alias s [Query q1; Query q2])
     <> map Some (trace S E Q V step view s [] [Query q1; Query q2])).
Proof.
  split; [|split; [|split]].
  - intros K L keyeq nw c H r Hr. apply (statevector_memo_faithful_key keyeq nw c H r Hr).
  - pose proof statevector_memo_keyed_on_wire_set_refuted as H. cbv zeta in H. destruct H as [H _].
    eexists. exact H.
  - pose proof embed_depends_on_wire_order as H. cbv zeta in H. eexists. exact H.
  - intros. apply memo_coarse_key_refuted; assumption.
Qed.
Print Assumptions C05_gate_memo_needs_a_faithful_key.

(** non-vacuity: H-free exact instance: X on wire 2, then CNOT (control wire 0 negated, target
    wire 2) on a 3-wire register; product order, first column, unit norm *)
Example C05_instance :
  let X : list (list ZI) := [[(0,0);(1,0)]; [(1,0);(0,0)]]%Z in
  let C0X : list (list ZI) := [[(0,0);(1,0);(0,0);(0,0)]; [(1,0);(0,0);(0,0);(0,0)];
                               [(0,0);(0,0);(1,0);(0,0)]; [(0,0);(0,0);(0,0);(1,0)]]%Z in
  let g1 : cgate ZI := {| g_mat := mxl (K:=ZI) X; g_wires := [2%nat] |} in
  let g2 : cgate ZI := {| g_mat := mxl (K:=ZI) C0X; g_wires := [0%nat; 2%nat] |} in
  let c : circuit ZI := [g1; g2] in
  dense 3 (cmat 3 c) = dense 3 (mmul 3 (E 3 g2) (E 3 g1))
  /\ map (run_statevector 3 c) (all_bits 3) = map (column0 3 (cmat 3 c)) (all_bits 3)
  /\ norm2 3 (run_statevector 3 c) = (1, 0)%Z
  /\ run_statevector 3 c [false; false; false] = (1, 0)%Z.
Proof. vm_compute. repeat split. Qed.
