(** C01 / C03 / C16, link between the two halves: ANY gate tree whose leaves are instances of
    the elementary classes (with the closed forms, inverse() forms and is_hermitian constants
    regenerated from gates.py THIS run: Run.GenGates.gen_db, at all real parameters) and whose
    inner nodes are controlled / multiplexed / block-encoding / time-evolution / prepare /
    general gates, nested to any depth, is unitary of size 2^num_wires; its inverse() reports
    the adjoint; its is_hermitian() answer is sound.

    Before this file the composite theorems (C01c/C03c/C16c) were about ABSTRACT leaves
    ("Leaf nw U Ui h ps" with the hypotheses unitary U, Ui = U^dagger, h -> hermitian U) and the
    elementary theorems (C01/C03/C16) were separate statements; that the elementary gates
    satisfy the leaf hypotheses was only a correspondence of texts.  Here the composite
    induction is instantiated with the elementary generated templates:
        [eleaf_wf] : every elementary gate instance is a well-formed leaf,
    so "any gate tree over the elementary classes is unitary" is ONE theorem.

    Compiled by checks/C01.py after Prop_C01, Prop_C03, Prop_C16 (same build directory). *)
From Coq Require Import Reals Lra.
From Coquelicot Require Import Complex.
From Qib Require Import Gates.ElemReal Gates.CompProofs.
From Run Require Import GenGates Prop_C01 Prop_C03 Prop_C16.

Local Existing Instance CS_laws.

(** a left inverse of a unitary is its adjoint *)
Lemma left_inverse_is_adjoint n (U V : BMx CS) :
  unitary n U -> meq n (mmul n V U) mid -> meq n V (madj U).
Proof.
  intros [U1 _] H.
  eapply meq_trans; [apply meq_sym; apply mmul_id_r|].
  eapply meq_trans; [apply mmul_meq; [apply meq_refl|apply meq_sym; exact U1]|].
  eapply meq_trans; [apply meq_sym; apply mmul_assoc|].
  eapply meq_trans; [apply mmul_meq; [exact H|apply meq_refl]|]. apply mmul_id_l.
Qed.

(** ---- an instance of an elementary class: class, integer parameter (PhaseFactorGate's
         nwires), real parameters, and the outcomes g, g' of the `== 0` guards of the gate and
         of the gate inverse() constructs (determined by the parameters through [guard_ok]) *)
Record einst := { e_cls : gcls; e_n : nat; e_params : list R; e_g : bool; e_g' : bool }.

Definition einst_ok (e : einst) : Prop :=
  e_cls e <> cGeneralGate
  /\ length (e_params e) = db_nparams gen_db (e_cls e)
  /\ guard_ok gen_db (e_cls e) (e_params e) (e_g e)
  /\ guard_ok gen_db (inv_cls (e_cls e) (db_inv gen_db (e_cls e)))
              (inv_params gen_db (e_cls e) (e_params e)) (e_g' e).

(** the leaf of a gate tree this instance is: what as_matrix(), inverse().as_matrix(),
    is_hermitian() and num_wires report according to the regenerated database *)
Definition eleaf (e : einst) (ps : list nat) : cgate CS :=
  Leaf (db_nw gen_db (e_cls e) (e_n e))
       (matrix_R gen_db (e_cls e) (e_n e) (e_params e) (e_g e))
       (inv_matrix_R gen_db (e_cls e) (e_n e) (e_params e) (e_g e) (e_g' e))
       (db_herm gen_db (e_cls e)) ps.

(** the three leaf hypotheses from the three elementary theorems of a class *)
Lemma leaf_from_parts nw (U Ui : BMx CS) (h : bool) :
  unitary nw U -> meq nw (mmul nw Ui U) mid -> (h = true -> hermitian nw U) ->
  unitary nw U /\ meq nw Ui (madj U) /\ (h = true -> hermitian nw U).
Proof.
  intros HU HI HH. split; [exact HU|]. split; [|exact HH].
  apply left_inverse_is_adjoint; assumption.
Qed.

Ltac no_guard G := cbv [guard_ok gen_db db_guard] in G; gen_unfold_in G.
Ltac flag_false := let H := fresh in intros H; exfalso; revert H; cbv [gen_db db_herm]; gen_unfold; discriminate.

Section Leaves.
  Variable is_expm : nat -> BMx CS -> BMx CS -> Prop.

  Theorem eleaf_wf : forall (e : einst) (ps : list nat), einst_ok e -> wf is_expm (eleaf e ps).
  Proof.
    intros [c n params g g'] ps (Hc & Hlen & G & G'). cbn [e_cls e_n e_params e_g e_g'] in *.
    unfold eleaf. cbn [e_cls e_n e_params e_g e_g' wf].
    destruct c; try (exfalso; apply Hc; reflexivity); clear Hc;
      cbv [gen_db db_nparams] in Hlen; gen_unfold_in Hlen;
      repeat (destruct params as [|? params]; try discriminate Hlen); clear Hlen.
    - (* IdentityGate *)
      assert (g = false) as -> by (no_guard G; exact G).
      apply leaf_from_parts; [apply C01_IdentityGate_unitary_R|apply (C03_IdentityGate_inverse_R false g'); assumption|].
      intros _. apply (proj1 C16_claimed_hermitian_R). reflexivity.
    - (* PauliXGate *)
      assert (g = false) as -> by (no_guard G; exact G).
      apply leaf_from_parts; [apply C01_PauliXGate_unitary_R|apply (C03_PauliXGate_inverse_R false g'); assumption|].
      intros _. apply (proj1 (proj2 C16_claimed_hermitian_R)). reflexivity.
    - (* PauliYGate *)
      assert (g = false) as -> by (no_guard G; exact G).
      apply leaf_from_parts; [apply C01_PauliYGate_unitary_R|apply (C03_PauliYGate_inverse_R false g'); assumption|].
      intros _. apply (proj1 (proj2 (proj2 C16_claimed_hermitian_R))). reflexivity.
    - (* PauliZGate *)
      assert (g = false) as -> by (no_guard G; exact G).
      apply leaf_from_parts; [apply C01_PauliZGate_unitary_R|apply (C03_PauliZGate_inverse_R false g'); assumption|].
      intros _. apply (proj1 (proj2 (proj2 (proj2 C16_claimed_hermitian_R)))). reflexivity.
    - (* HadamardGate *)
      assert (g = false) as -> by (no_guard G; exact G).
      apply leaf_from_parts; [apply C01_HadamardGate_unitary_R|apply (C03_HadamardGate_inverse_R false g'); assumption|].
      intros _. apply (proj2 (proj2 (proj2 (proj2 C16_claimed_hermitian_R)))). reflexivity.
    - (* SxGate *)
      assert (g = false) as -> by (no_guard G; exact G).
      apply leaf_from_parts; [apply C01_SxGate_unitary_R|apply (C03_SxGate_inverse_R false g'); assumption|flag_false].
    - (* RxGate *)
      assert (g = false) as -> by (no_guard G; exact G).
      apply leaf_from_parts; [apply C01_RxGate_unitary_R|apply (C03_RxGate_inverse_R _ false g'); assumption|flag_false].
    - (* RyGate *)
      assert (g = false) as -> by (no_guard G; exact G).
      apply leaf_from_parts; [apply C01_RyGate_unitary_R|apply (C03_RyGate_inverse_R _ false g'); assumption|flag_false].
    - (* RzGate *)
      assert (g = false) as -> by (no_guard G; exact G).
      apply leaf_from_parts; [apply C01_RzGate_unitary_R|apply (C03_RzGate_inverse_R _ false g'); assumption|flag_false].
    - (* RotationGate: both branches of the zero-vector guard *)
      apply leaf_from_parts; [apply C01_RotationGate_unitary_R; exact G|apply (C03_RotationGate_inverse_R _ _ _ g g'); assumption|flag_false].
    - (* SGate *)
      assert (g = false) as -> by (no_guard G; exact G).
      apply leaf_from_parts; [apply C01_SGate_unitary_R|apply (C03_SGate_inverse_R false g'); assumption|flag_false].
    - (* SAdjGate *)
      assert (g = false) as -> by (no_guard G; exact G).
      apply leaf_from_parts; [apply C01_SAdjGate_unitary_R|apply (C03_SAdjGate_inverse_R false g'); assumption|flag_false].
    - (* TGate *)
      assert (g = false) as -> by (no_guard G; exact G).
      apply leaf_from_parts; [apply C01_TGate_unitary_R|apply (C03_TGate_inverse_R false g'); assumption|flag_false].
    - (* TAdjGate *)
      assert (g = false) as -> by (no_guard G; exact G).
      apply leaf_from_parts; [apply C01_TAdjGate_unitary_R|apply (C03_TAdjGate_inverse_R false g'); assumption|flag_false].
    - (* PhaseFactorGate: any number of wires *)
      assert (g = false) as -> by (no_guard G; exact G).
      apply leaf_from_parts; [apply C01_PhaseFactorGate_unitary_R|apply (C03_PhaseFactorGate_inverse_R n _ false g'); assumption|flag_false].
    - (* RxxGate *)
      assert (g = false) as -> by (no_guard G; exact G).
      apply leaf_from_parts; [apply C01_RxxGate_unitary_R|apply (C03_RxxGate_inverse_R _ false g'); assumption|flag_false].
    - (* RyyGate *)
      assert (g = false) as -> by (no_guard G; exact G).
      apply leaf_from_parts; [apply C01_RyyGate_unitary_R|apply (C03_RyyGate_inverse_R _ false g'); assumption|flag_false].
    - (* RzzGate *)
      assert (g = false) as -> by (no_guard G; exact G).
      apply leaf_from_parts; [apply C01_RzzGate_unitary_R|apply (C03_RzzGate_inverse_R _ false g'); assumption|flag_false].
    - (* ISwapGate *)
      assert (g = false) as -> by (no_guard G; exact G).
      apply leaf_from_parts; [apply C01_ISwapGate_unitary_R|apply (C03_ISwapGate_inverse_R false g'); assumption|flag_false].
  Qed.

  (** ---- gate trees over the elementary classes ------------------------------------------ *)
  (** leaves: elementary gate instances; controlled / multiplexed nodes: the constructor's
      invariants (2^ncontrols targets of equal wire count); block-encoding / time-evolution /
      prepare / general nodes: the modelled specifications of sqrtm / expm / qr / the
      constructor test, exactly as in [wf] of Qib.Gates.CompModel *)
  Inductive elem_tree : cgate CS -> Prop :=
  | et_leaf e ps : einst_ok e -> elem_tree (eleaf e ps)
  | et_ctrl pat cq g : elem_tree g -> elem_tree (Ctrl pat cq g)
  | et_mux nc cq gs : length gs = 2 ^ nc ->
      Forall (fun x => elem_tree x /\ num_wires x = mux_nt gs) gs -> elem_tree (Mux nc cq gs)
  | et_benc m n H Sq aux hp : wf is_expm (BEnc m n H Sq aux hp) -> elem_tree (BEnc m n H Sq aux hp)
  | et_tevo n H t E Ei hp : wf is_expm (TEvo n H t E Ei hp) -> elem_tree (TEvo n H t E Ei hp)
  | et_prep n Q0 flip tr qs : wf is_expm (Prep n Q0 flip tr qs) -> elem_tree (Prep n Q0 flip tr qs)
  | et_gen n M h ps : wf is_expm (Gen n M h ps) -> elem_tree (Gen n M h ps).

  Theorem elem_tree_wf : forall g, elem_tree g -> wf is_expm g.
  Proof.
    induction g using cgate_ind'; intros T.
    - inversion T as [e ps0 He| | | | | |]; subst. exact (eleaf_wf e ps He).
    - inversion T; subst. cbn [wf]. apply IHg. assumption.
    - inversion T as [| |nc0 cq0 gs0 Hl HF| | | |]; subst.
      apply (proj2 (wf_mux is_expm nc cq gs)). split; [exact Hl|].
      rewrite Forall_forall in *. intros x Hx. destruct (HF x Hx) as [Tx Ex]. split; [|exact Ex].
      apply H; assumption.
    - inversion T; assumption.
    - inversion T; assumption.
    - inversion T; assumption.
    - inversion T; assumption.
  Qed.
End Leaves.

(** ---- the three properties for any gate tree over the elementary classes -------------------- *)
(** is_expm n A E reads "E = scipy.linalg.expm(A)"; the hypotheses about it are the background
    facts named in C01c / C03c (exp of anti-Hermitian is unitary; exp(A^dagger) = exp(A)^dagger) *)
Theorem C01t_any_gate_tree_over_elementary_classes_is_unitary :
  forall (is_expm : nat -> BMx CS -> BMx CS -> Prop),
    (forall n A E, is_expm n A E -> antiherm n A -> unitary n E) ->
    forall g : cgate CS, elem_tree is_expm g ->
      unitary (num_wires g) (matrix g) /\ shape g = 2 ^ num_wires g.
Proof.
  intros is_expm Hexp g T. pose proof (elem_tree_wf is_expm g T) as W. split.
  - apply (matrix_unitary is_expm Hexp g W).
  - apply (shape_wires is_expm g W).
Qed.
Print Assumptions C01t_any_gate_tree_over_elementary_classes_is_unitary.

Theorem C01t_any_gate_tree_inverse_inverts :
  forall (is_expm : nat -> BMx CS -> BMx CS -> Prop),
    (forall n A E, is_expm n A E -> antiherm n A -> unitary n E) ->
    (forall n A E A' E', is_expm n A E -> is_expm n A' E' -> meq n A' (madj A) -> meq n E' (madj E)) ->
    forall g : cgate CS, elem_tree is_expm g ->
      let n := num_wires g in
      meq n (matrix (inverse g)) (madj (matrix g))
      /\ meq n (mmul n (matrix (inverse g)) (matrix g)) mid
      /\ meq n (mmul n (matrix g) (matrix (inverse g))) mid
      /\ particles (inverse g) = particles g.
Proof.
  intros is_expm H1 H2 g T n. pose proof (elem_tree_wf is_expm g T) as W.
  split; [apply (inverse_adjoint is_expm H2 g W)|].
  destruct (inverse_inverts is_expm H1 H2 g W) as [A B].
  split; [exact A|]. split; [exact B|]. apply inverse_particles.
Qed.
Print Assumptions C01t_any_gate_tree_inverse_inverts.

Theorem C01t_any_gate_tree_hermitian_flag_sound :
  forall (is_expm : nat -> BMx CS -> BMx CS -> Prop) (g : cgate CS),
    elem_tree is_expm g -> is_herm g = true -> hermitian (num_wires g) (matrix g).
Proof.
  intros is_expm g T Hf. apply (is_herm_sound is_expm g (elem_tree_wf is_expm g T) Hf).
Qed.
Print Assumptions C01t_any_gate_tree_hermitian_flag_sound.

(** non-vacuity: Toffoli-like tree with real-parameter leaves: control pattern [1;0] on a
    multiplexer of { Ry(theta), controlled general rotation by the vector v (zero vector allowed) } *)
Example C01t_instance : forall (theta v0 v1 v2 : R) (g g' : bool),
  guard_ok gen_db cRotationGate [v0; v1; v2] g ->
  guard_ok gen_db cRotationGate (inv_params gen_db cRotationGate [v0; v1; v2]) g' ->
  let triv_expm := fun n (A E : BMx CS) => meq n E mid in
  let ry := eleaf {| e_cls := cRyGate; e_n := 0; e_params := [theta]; e_g := false; e_g' := false |} [4]%nat in
  let rot := eleaf {| e_cls := cRotationGate; e_n := 0; e_params := [v0; v1; v2]; e_g := g; e_g' := g' |} [4]%nat in
  let t := Ctrl [true; false] [0; 1]%nat (Mux 1 [2]%nat [Ctrl [false] [3]%nat ry; Ctrl [true] [3]%nat rot]) in
  num_wires t = 5%nat /\ unitary 5 (matrix t).
Proof.
  intros theta v0 v1 v2 g g' G G' triv_expm ry rot t. split; [reflexivity|].
  assert (Hexp : forall n A E, triv_expm n A E -> antiherm n A -> unitary n E).
  { intros n A E H _. eapply unitary_meq; [apply meq_sym; exact H|apply unitary_mid]. }
  apply (C01t_any_gate_tree_over_elementary_classes_is_unitary triv_expm Hexp t).
  apply et_ctrl. apply et_mux; [reflexivity|].
  constructor; [|constructor; [|constructor]]; (split; [|reflexivity]); apply et_ctrl.
  - apply et_leaf. repeat split; cbn; try discriminate.
  - apply et_leaf. split; [discriminate|]. split; [reflexivity|]. split; [exact G|exact G'].
Qed.
