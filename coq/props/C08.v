(** C08 - network surgery keeps the network consistent and means what it says.
    Property theorems only (proofs: Qib.TN.TNWF, TNMerge, TNConsistent, TNProofs, TNCounts,
    TNSem; value of a merge: TNPres, TNMergeValue).  ALL clauses of the property have a theorem:
    invariant (2,3), counts (4), fresh ids (5), values of rename/transpose (6) and of merge (7:
    contraction over the joined axes for ALL accepted merges - colliding ids, shared data
    references, shared open bonds, joins that reuse an axis - plus the numpy.tensordot form for
    joins that use each axis once).  The model (Qib.TN.TNModel) is a hand port of symbolic_network.py WITH the repairs
    (merge: every deleted open axis once; is_consistent: exact leg count; transpose: permutation
    test; merge: dimension test; rename_tensor: refuses the virtual tensor; merge: refuses joins
    that would leave a bond with fewer than two legs before it changes anything) and is tied to /repo
    by the exact correspondence run of checks/C08.py on every run. *)
From Qib Require Import TN.TNSem TN.TNMergeValue TN.TNConsistentConv TN.TNGenBase TN.TNMergeGuard TN.TNLoops Base.Inst.
From Run Require Import GenTN GenTNLoops.
Local Open Scope Z_scope.

(** 1. the invariant implies the library's own check *)
Theorem C08_invariant_implies_is_consistent : forall n, WF n -> is_consistent n = true.
Proof. exact WF_is_consistent. Qed.
Print Assumptions C08_invariant_implies_is_consistent.

(** 1'. ... and conversely: every network the library's own check accepts satisfies the invariant,
    so "from any consistent starting point" below means exactly "from any network for which
    is_consistent() returns True".  [Rep] is what a Python object of these classes cannot
    violate and is_consistent therefore never inspects: a dict holds each key once, and
    len(shape) = len(bids) for every tensor (enforced by SymbolicTensor.__init__ and kept by
    every method that writes shape/bids). *)
Theorem C08_is_consistent_implies_invariant : forall n, Rep n -> is_consistent n = true -> WF n.
Proof. exact is_consistent_WF. Qed.
Print Assumptions C08_is_consistent_implies_invariant.

Theorem C08_invariant_is_exactly_is_consistent : forall n, WF n <-> (Rep n /\ is_consistent n = true).
Proof.
  intros n. split.
  - intros W. split; [apply WF_Rep; exact W | apply WF_is_consistent; exact W].
  - intros [R C]. apply is_consistent_WF; assumption.
Qed.
Print Assumptions C08_invariant_is_exactly_is_consistent.

(** 2. EVERY accepted operation preserves the invariant - no side condition on the arguments beyond
    what the code itself checks (the second operand of a merge is a network of its own and has to
    be consistent too).  The code refuses (ValueError): renaming the virtual tensor -1, axes that
    are not a permutation of all open axes (negative entries count from the last axis), joins out
    of range or between axes of unequal dimension, joins that would leave a (fused) bond with fewer
    than two legs.  The iteration order of the Python sets of
    shared ids (ordT, ordB) is arbitrary. *)
Theorem C08_rename_tensor_keeps_invariant :
  forall n a c n', WF n -> rename_tensor n a c = Some n' -> WF n'.
Proof. intros n a c n' W H. exact (sstep_WF n (SRenT a c) n' W I H). Qed.
Print Assumptions C08_rename_tensor_keeps_invariant.

Theorem C08_rename_bond_keeps_invariant :
  forall n a c n', WF n -> rename_bond n a c = Some n' -> WF n'.
Proof. intros n a c n' W H. exact (sstep_WF n (SRenB a c) n' W I H). Qed.
Print Assumptions C08_rename_bond_keeps_invariant.

Theorem C08_transpose_keeps_invariant :
  forall n axes n', WF n -> transpose n axes = Some n' -> WF n'.
Proof. intros n axes n' W H. exact (sstep_WF n (STrans axes) n' W I H). Qed.
Print Assumptions C08_transpose_keeps_invariant.

Theorem C08_merge_keeps_invariant :
  forall n o joins ordT ordB n', WF n -> WF o -> merge n o joins ordT ordB = Some n' -> WF n'.
Proof. exact merge_WF. Qed.
Print Assumptions C08_merge_keeps_invariant.

(** 2'. what acceptance means: the virtual tensor is never renamed; an accepted transposition uses
    a permutation of ALL open axes; an accepted merge joins axes of equal dimension and has found
    at least two remaining legs on every (fused) bond *)
Theorem C08_accepted_means_validated :
  (forall n c, rename_tensor n VT c = None) /\
  (forall n axes n', WF n -> transpose n axes = Some n' ->
     Permutation.Permutation (nat_axes n axes) (seq 0 (length (vbids n)))) /\
  (forall n o joins ordT ordB n', merge n o joins ordT ordB = Some n' ->
     forall Sn So j, shape n = Some Sn -> shape o = Some So -> In j joins ->
       exists d, nth_error Sn (fst j) = Some d /\ nth_error So (snd j) = Some d) /\
  (forall n o joins ordT ordB n', merge n o joins ordT ordB = Some n' -> joins_starve n o joins = false).
Proof.
  split; [|split; [|split]].
  - intros n c. unfold rename_tensor. rewrite Z.eqb_refl. reflexivity.
  - intros n axes n' W H. exact (transpose_is_perm n axes n' (proj1 W) H).
  - intros n o joins ordT ordB n' H Sn So j HSn HSo Hj.
    exact (merge_joins_dim_ok n o joins ordT ordB n' H Sn So HSn HSo j Hj).
  - exact merge_not_starved.
Qed.
Print Assumptions C08_accepted_means_validated.

(** 3. from any consistent starting point, along ANY sequence of operations with consistent merge
    operands (refused operations leave the network unchanged), the network and every
    intermediate network pass is_consistent *)
Theorem C08_any_sequence_stays_consistent :
  forall ops n k, WF n -> operands_consistent ops ->
    WF (fold_left apply_op ops n) /\ is_consistent (fold_left apply_op (firstn k ops) n) = true.
Proof.
  intros ops n k W G. split; [apply sequence_WF; assumption | apply sequence_consistent_prefix; assumption].
Qed.
Print Assumptions C08_any_sequence_stays_consistent.

(** 3'. the same, started from the library's own check instead of the invariant *)
Theorem C08_any_sequence_stays_consistent_from_is_consistent :
  forall ops n k, Rep n -> is_consistent n = true -> operands_consistent ops ->
    is_consistent (fold_left apply_op ops n) = true /\ is_consistent (fold_left apply_op (firstn k ops) n) = true.
Proof.
  intros ops n k R C G. pose proof (is_consistent_WF n R C) as W. split.
  - apply WF_is_consistent. apply sequence_WF; assumption.
  - apply sequence_consistent_prefix; assumption.
Qed.
Print Assumptions C08_any_sequence_stays_consistent_from_is_consistent.

(** [operands_consistent] only speaks about the second operands of the merges of the sequence *)
Theorem C08_operands_consistent_meaning :
  forall ops, operands_consistent ops <-> (forall o joins ordT ordB, In (SMerge o joins ordT ordB) ops -> WF o).
Proof.
  intros ops. split.
  - intros H o joins ordT ordB Hin. exact (H _ Hin).
  - intros H o Hin. destruct o; cbn; auto. eapply H; eauto.
Qed.
Print Assumptions C08_operands_consistent_meaning.

(** 3''. the calls that used to be accepted and left an inconsistent network (defects of qib,
    repaired by proposed_fixes/C08-rename-tensor-refuses-virtual.diff, C08-transpose-requires-
    permutation.diff, C08-merge-checks-join-dimensions.diff) are refused now; a transposition by
    negative axes that form a permutation is still accepted *)
Definition guard_net : net :=
  mkN [(0%Z, mkT 0%Z [2; 3; 2]%nat [0; 1; 2]%Z 0%Z); ((-1)%Z, mkT (-1)%Z [2; 3; 2]%nat [0; 1; 2]%Z (-1)%Z)]
      [(0, mkB 0 [-1; 0]); (1, mkB 1 [-1; 0]); (2, mkB 2 [-1; 0])]%Z.

Theorem C08_formerly_accepted_calls_are_refused :
  WF guard_net /\
  rename_tensor guard_net VT 5 = None /\
  transpose guard_net [2] = None /\ transpose guard_net [-1; 0; 2] = None /\
  merge guard_net guard_net [(0, 1)]%nat [0; -1] [0; 1; 2] = None /\
  (exists n', transpose guard_net [-1; 0; -2] = Some n' /\ is_consistent n' = true /\ shape n' = Some [2; 2; 3]%nat).
Proof.
  split; [apply wf_b_WF; vm_compute; reflexivity|].
  repeat (split; [vm_compute; reflexivity|]).
  eexists. split; [vm_compute; reflexivity|]. split; vm_compute; reflexivity.
Qed.
Print Assumptions C08_formerly_accepted_calls_are_refused.

(** ... and the new tests are not superfluous: the private worker _rename_tensor (which merge uses
    on its own copy) applied to the virtual tensor, and the axis selection of transpose applied to
    distinct axes that are not all axes, leave networks that fail is_consistent *)
Theorem C08_refusals_are_necessary :
  (exists n c n', WF n /\ rename_tensor_priv n VT c = Some n' /\ is_consistent n' = false) /\
  (exists n t axes, WF n /\ dget VT (tensors n) = Some t /\ NoDup axes /\ (forall ax, In ax axes -> (ax < t_ndim t)%nat) /\
     is_consistent (mkN (dset VT (transposed t axes) (tensors n)) (bonds n)) = false).
Proof.
  split.
  - exists guard_net, 5%Z. eexists. split; [apply wf_b_WF; vm_compute; reflexivity|].
    split; [vm_compute; reflexivity | vm_compute; reflexivity].
  - exists guard_net. eexists. exists [2%nat]. split; [apply wf_b_WF; vm_compute; reflexivity|].
    split; [vm_compute; reflexivity|]. split; [repeat constructor; intros []|].
    split; [intros ax [<-|[]]; vm_compute; lia | vm_compute; reflexivity].
Qed.
Print Assumptions C08_refusals_are_necessary.

(** 3'''. joins that would leave a (fused) bond with fewer than two legs - both ends of an identity
    wire joined with both ends of another one: a free loop, the scalar factor 2, which no network
    of this class represents - used to trip `assert len(bond.tids) >= 2` AFTER the operands were
    half-merged (defect of qib, repaired by proposed_fixes/C08-merge-refuses-joins-that-starve-a-
    bond.diff): now refused in front of any change ([joins_starve]); the assertion it anticipates
    is still there ([merge_changes] alone fails on this input); joining ONE end is accepted and
    gives a wire again *)
Definition wire_net : net := mkN [(-1, mkT (-1) [2; 2]%nat [0; 0] (-1))]%Z [(0, mkB 0 [-1; -1])]%Z.

Theorem C08_joins_that_starve_a_bond_are_refused :
  WF wire_net /\
  joins_starve wire_net wire_net [(0, 0); (1, 1)]%nat = true /\
  merge wire_net wire_net [(0, 0); (1, 1)]%nat [-1] [0] = None /\
  merge_changes 2 wire_net wire_net [(0, 0); (1, 1)]%nat [-1] [0] = None /\
  (exists n', merge wire_net wire_net [(0, 0)]%nat [-1] [0] = Some n' /\ is_consistent n' = true /\ shape n' = Some [2; 2]%nat).
Proof.
  split; [apply wf_b_WF; vm_compute; reflexivity|].
  repeat (split; [vm_compute; reflexivity|]).
  eexists. split; [vm_compute; reflexivity|]. split; vm_compute; reflexivity.
Qed.
Print Assumptions C08_joins_that_starve_a_bond_are_refused.

(** ... and the refusal is EXACTLY the failure of the part of merge behind the validation (whose only
    way to fail on consistent operands is that assertion): it refuses nothing the unrepaired code
    handled, and behind it nothing fails any more.  BOUNDED: the seven networks of
    [TNMergeGuard.leg_nets] (identity wires, four open legs on one bond, vector, matrix, a vector
    on a bond with two open legs, mixed dimensions; both operands range over all of them) and all
    validated join lists of length <= 3, enumerated by vm_compute.  In general this agreement is
    NOT proved; checks/C08.py classifies every merge of a run independently (union-find over the
    operands) and reports `merge:refuses-valid-operation` / `merge:accepts-invalid-operation` /
    `merge:exception:AssertionError`. *)
Theorem C08_leg_count_refusal_is_exactly_the_assertion_bounded :
  forall n o joins, In n leg_nets -> In o leg_nets -> (length joins <= 3)%nat -> joins_validated n o joins = true ->
    WF n /\ WF o /\
    (joins_starve n o joins = true <->
     merge_changes (length (vshape n)) n o joins (shared_keys (dkeys (tensors n)) (dkeys (tensors o)))
                   (shared_keys (dkeys (bonds n)) (dkeys (bonds o))) = None).
Proof.
  intros n o joins Hn Ho L V. split; [apply leg_nets_WF; exact Hn|]. split; [apply leg_nets_WF; exact Ho|].
  rewrite (leg_count_refusal_exact_bounded n o joins Hn Ho L V). unfold merge_changes_fails.
  destruct (merge_changes _ n o joins _ _); split; congruence.
Qed.
Print Assumptions C08_leg_count_refusal_is_exactly_the_assertion_bounded.

(** 4. counts: unchanged by renames and transpositions; after a merge the tensors add up, the
    bonds add up minus the fused ones (at most one per join), and for joins that use every open
    axis at most once the open axes add up minus two per join *)
Theorem C08_counts_rename_transpose :
  forall n n', WF n ->
    (forall a c, rename_tensor n a c = Some n' -> counts_eq n n') /\
    (forall a c, rename_bond n a c = Some n' -> counts_eq n n') /\
    (forall axes, transpose n axes = Some n' -> counts_eq n n').
Proof.
  intros n n' W. unfold counts_eq. split; [|split].
  - intros a c H. destruct (rename_tensor_counts n a c n' W H) as [A [B C]]. auto.
  - intros a c H. destruct (rename_bond_counts n a c n' W H) as [A [B C]]. auto.
  - intros axes H. destruct (transpose_counts n axes n' W H) as [A [B C]]. auto.
Qed.
Print Assumptions C08_counts_rename_transpose.

Theorem C08_counts_merge :
  forall n o joins ordT ordB n', WF n -> WF o ->
    merge n o joins ordT ordB = Some n' ->
    forall nt1 nt2 no1 no2, num_tensors n = Some nt1 -> num_tensors o = Some nt2 ->
      num_open_axes n = Some no1 -> num_open_axes o = Some no2 ->
    num_tensors n' = Some (nt1 + nt2)%nat /\
    (num_bonds n' <= num_bonds n + num_bonds o <= num_bonds n' + length joins)%nat /\
    (NoDup (map fst joins) -> NoDup (map snd joins) ->
     num_open_axes n' = Some (no1 + no2 - 2 * length joins)%nat).
Proof. exact merge_counts. Qed.
Print Assumptions C08_counts_merge.

(** 5. fresh ids: max(keys)+1 and above never collides, whatever the signs of the ids; after
    the relabelling inside merge the key sets of the two networks are disjoint *)
Theorem C08_fresh_ids :
  (forall l y, (zmax0 l + 1 <= y)%Z -> ~ In y l) /\
  (forall n o ordT o1 tmp k, WF0 o ->
     is_shared_order ordT (dkeys (tensors n)) (dkeys (tensors o)) = true ->
     relabel_tensors o ordT (zmax0 (dkeys (tensors n) ++ dkeys (tensors o)) + 1) VT = Some (o1, tmp) ->
     In k (dkeys (tensors o1)) -> ~ In k (dkeys (tensors n))) /\
  (forall n o ordB o1 k, WF0 o ->
     is_shared_order ordB (dkeys (bonds n)) (dkeys (bonds o)) = true ->
     relabel_bonds o ordB (zmax0 (dkeys (bonds n) ++ dkeys (bonds o)) + 1) = Some o1 ->
     In k (dkeys (bonds o1)) -> ~ In k (dkeys (bonds n))).
Proof.
  split; [exact zmax0_fresh|]. split; [exact relabel_tensors_disjoint | exact relabel_bonds_disjoint].
Qed.
Print Assumptions C08_fresh_ids.

(** 6. semantics.  The value of a network is its defining sum
        T[x] = sum over all bond indices of  prod_t data_t[indices of t's bonds] * prod_k [x_k = index of open axis k's bond]
    (C07 proves that contract_einsum computes it).  Renames leave it unchanged, for every
    commutative ring of scalars and all tensor data. *)
Theorem C08_rename_tensor_keeps_value :
  forall (K : Scalar) (L : ScalarLaws K) n a c n' (data : Z -> list nat -> K) x,
    WF n -> rename_tensor n a c = Some n' -> defining_sum n' data x = defining_sum n data x.
Proof. intros. eapply rename_tensor_value; eauto. Qed.
Print Assumptions C08_rename_tensor_keeps_value.

Theorem C08_rename_bond_keeps_value :
  forall (K : Scalar) (L : ScalarLaws K) n a c n' (data : Z -> list nat -> K) x,
    WF n -> rename_bond n a c = Some n' -> defining_sum n' data x = defining_sum n data x.
Proof. intros. eapply rename_bond_value; eauto. Qed.
Print Assumptions C08_rename_bond_keeps_value.

(** transposing permutes the value like numpy.transpose:  V'[x] = V[y]  with  y[axes[k]] = x[k]
    ([nat_axes]: the axes with negative entries counted from the last axis, as numpy does) *)
Theorem C08_transpose_permutes_value :
  forall (K : Scalar) (L : ScalarLaws K) n axes n' (data : Z -> list nat -> K) x,
    WF n -> transpose n axes = Some n' -> length x = length axes ->
    defining_sum n' data x = defining_sum n data (untranspose (nat_axes n axes) x).
Proof. intros. eapply transpose_value; eauto. Qed.
Print Assumptions C08_transpose_permutes_value.

(** 7. merge = contraction over the joined axes, for EVERY accepted merge of two consistent
    networks (any id collisions, shared data references, open bonds with several open legs, joins
    that reuse an axis, any iteration order of the sets of shared ids).
    Let no1/no2 be the numbers of open axes of n/o and number the open axes of o after those of n
    (axis b of o = position no1+b).  [joined_axes] are the positions that occur in some join,
    [kept_axes] the others, both ascending.  Then
      (i)  the open axes of the result are the kept ones: those of n in order, then those of o;
      (ii) the value of the result at the multi-index y of the kept axes is
              sum over one index e(p) < dim(p) for every joined position p  of
                 prod_{(a,b) in joins} [e(a) = e(no1+b)]  *  value_n(e on 0..no1-1)  *  value_o(e on no1..no1+no2-1)
           where e reads y on the kept positions.
    The Kronecker deltas identify the two axes of each join, so a position used by several joins
    is identified with all its partners (one free summed index per connected group): this IS the
    contraction of the two values over the joined axes; for joins that use each axis at most
    once it is numpy.tensordot (7'). *)
Theorem C08_merge_is_contraction :
  forall (K : Scalar) (L : ScalarLaws K) n o joins ordT ordB n' (data : Z -> list nat -> K) y,
    WF n -> WF o -> merge n o joins ordT ordB = Some n' ->
    let no1 := length (vshape n) in
    let no2 := length (vshape o) in
    let Sh := (vshape n ++ vshape o)%list in
    let del := joined_axes no1 joins (no1 + no2) in
    let keep := kept_axes no1 joins (no1 + no2) in
    vshape n' = map (fun i => nth i Sh O) keep /\
    (length y = length keep ->
     defining_sum n' data y
     = ksum Nat.eqb (map (fun d => (d, nth d Sh O)) del)
         (fun e => smul (lprod (map (fun j => delta (e (fst j)) (e (no1 + snd j)%nat)) joins))
                        (smul (defining_sum n data (map e (seq 0 no1))) (defining_sum o data (map e (seq no1 no2)))))
         (env_of keep y)).
Proof. intros K L n o joins ordT ordB n' data y. exact (merge_value n o joins ordT ordB n' data y). Qed.
Print Assumptions C08_merge_is_contraction.

(** 7'. joins that use every open axis at most once (Circuit.as_tensornet, the simulators):
    numpy.tensordot.  One summed index j(r) per join r = (a_r, b_r); the first operand is read at
    j(r) on axis a_r and at y on its kept axes, the second at j(r) on axis b_r and at the rest of
    y on its kept axes ([dot_idx1], [dot_idx2]). *)
Theorem C08_merge_is_contraction_injective_joins :
  forall (K : Scalar) (L : ScalarLaws K) n o joins ordT ordB n' (data : Z -> list nat -> K) y,
    WF n -> WF o -> merge n o joins ordT ordB = Some n' ->
    NoDup (map fst joins) -> NoDup (map snd joins) ->
    let no1 := length (vshape n) in
    let no2 := length (vshape o) in
    let keep := kept_axes no1 joins (no1 + no2) in
    length y = length keep ->
    defining_sum n' data y
    = ksum Nat.eqb (map (fun r => (r, nth (nth r (map fst joins) O) (vshape n) O)) (seq 0 (length joins)))
        (fun j => smul (defining_sum n data (dot_idx1 no1 joins (env_of keep y) j))
                       (defining_sum o data (dot_idx2 no1 no2 joins (env_of keep y) j)))
        (fun _ => O).
Proof. intros K L n o joins ordT ordB n' data y. exact (merge_value_injective_joins n o joins ordT ordB n' data y). Qed.
Print Assumptions C08_merge_is_contraction_injective_joins.

(** 7''. the data dictionaries (TensorNetwork.merge): the dictionary of the result is the union of
    the two - a clash with different entries is refused -, so it agrees with the first on the
    references of the first network's tensors and with the second on those of the second
    ([data_agree]); the value of the result under the union is the contraction of the value of n
    under ITS dictionary with the value of o under ITS dictionary *)
Theorem C08_merge_is_contraction_with_data_union :
  forall (K : Scalar) (L : ScalarLaws K) n o joins ordT ordB n' (d1 d2 d' : Z -> list nat -> K) y,
    WF n -> WF o -> merge n o joins ordT ordB = Some n' -> data_agree n d' d1 -> data_agree o d' d2 ->
    let no1 := length (vshape n) in
    let no2 := length (vshape o) in
    let Sh := (vshape n ++ vshape o)%list in
    let del := joined_axes no1 joins (no1 + no2) in
    let keep := kept_axes no1 joins (no1 + no2) in
    length y = length keep ->
    defining_sum n' d' y
    = ksum Nat.eqb (map (fun d => (d, nth d Sh O)) del)
        (fun e => smul (lprod (map (fun j => delta (e (fst j)) (e (no1 + snd j)%nat)) joins))
                       (smul (defining_sum n d1 (map e (seq 0 no1))) (defining_sum o d2 (map e (seq no1 no2)))))
        (env_of keep y).
Proof. intros K L n o joins ordT ordB n' d1 d2 d' y. exact (merge_value_data n o joins ordT ordB n' d1 d2 d' y). Qed.
Print Assumptions C08_merge_is_contraction_with_data_union.

(* ================================================================== the source, regenerated *)
(** [Run.GenTN] is regenerated on every run by gen/tn.py from
    /repo/src/qib/tensor_network/symbolic_network.py (fail-closed ast translation of the closed-form
    parts: merge's fresh-id arithmetic, join validation, del_axes, kept-axes selection; the
    preconditions of rename_tensor (public guard, delegation) / _rename_tensor / rename_bond /
    SymbolicBond; transpose's normalisation of negative axes, permutation test and selection;
    merge's dimension test, the final test of merge's leg-count refusal (the statements in front
    of it are pinned by gen/tn.py: MERGE_LEGS_GUARD = TNModel.joins_starve); every `return False`
    condition of is_consistent, its loop skeleton being pinned).  The theorems below are about
    these regenerated definitions: what they are FOR (freshness) and that they are what the hand
    model Qib.TN.TNModel uses - so a change of one of these expressions in /repo breaks a theorem
    here (and the oracles of checks/C08.py then look for a failing input). *)
Theorem C08_source_fresh_ids :
  (forall T To y, (gen_merge_next_tid T To <= y)%Z -> ~ In y (dkeys T) /\ ~ In y (dkeys To)) /\
  (forall B Bo y, (gen_merge_next_bid B Bo <= y)%Z -> ~ In y (dkeys B) /\ ~ In y (dkeys Bo)) /\
  (forall next, (next < gen_merge_tid_step next)%Z /\ (next < gen_merge_bid_step next)%Z).
Proof.
  split; [|split].
  - intros T To y H. unfold gen_merge_next_tid in H. repeat rewrite zmaxd_0 in H. split; intros Hin.
    + pose proof (zmax0_ge (dkeys T ++ dkeys To) y (in_or_app _ _ _ (or_introl Hin))).
      pose proof (zmax0_ge (dkeys T) y Hin). lia.
    + pose proof (zmax0_ge (dkeys T ++ dkeys To) y (in_or_app _ _ _ (or_intror Hin))).
      pose proof (zmax0_ge (dkeys To) y Hin). lia.
  - intros B Bo y H. unfold gen_merge_next_bid in H. repeat rewrite zmaxd_0 in H. split; intros Hin.
    + pose proof (zmax0_ge (dkeys B ++ dkeys Bo) y (in_or_app _ _ _ (or_introl Hin))).
      pose proof (zmax0_ge (dkeys B) y Hin). lia.
    + pose proof (zmax0_ge (dkeys B ++ dkeys Bo) y (in_or_app _ _ _ (or_intror Hin))).
      pose proof (zmax0_ge (dkeys Bo) y Hin). lia.
  - intros next. unfold gen_merge_tid_step, gen_merge_bid_step. lia.
Qed.
Print Assumptions C08_source_fresh_ids.

Theorem C08_source_merge_is_model :
  (forall n o, gen_merge_next_tid (tensors n) (tensors o) = zmax0 (dkeys (tensors n) ++ dkeys (tensors o)) + 1) /\
  (forall n o, gen_merge_next_bid (bonds n) (bonds o) = zmax0 (dkeys (bonds n) ++ dkeys (bonds o)) + 1) /\
  gen_merge_tmp_init = VT /\
  (forall next, gen_merge_tid_step next = next + 1 /\ gen_merge_bid_step next = next + 1) /\
  (forall tid, gen_merge_is_virtual tid = Z.eqb tid VT) /\
  (forall (j : nat * nat) n1 n2 s1 s2, gen_merge_join_refused (Z.of_nat (fst j)) (Z.of_nat (snd j)) n1 n2 s1 s2
                                 = negb (Nat.ltb (fst j) n1 && Nat.ltb (snd j) n2
                                         && Nat.eqb (nth (fst j) s1 O) (nth (snd j) s2 O))) /\
  (forall j0 j1 n1 n2 s1 s2, (j0 < 0 \/ j1 < 0) -> gen_merge_join_refused j0 j1 n1 n2 s1 s2 = true) /\
  (forall ndim amap, gen_merge_del_axes ndim amap = filter (fun i => negb (nmem i amap)) (seq 0 ndim)) /\
  (forall tids, gen_merge_bond_still_ok tids = negb (Nat.ltb (length tids) 2)) /\
  (forall l amap, gen_merge_keep_shape l amap = map (fun i => nth i l O) amap) /\
  (forall l amap, gen_merge_keep_bids l amap = map (fun i => nth i l 0) amap) /\
  (* the leg-count refusal: the model's test (TNModel.class_starves), and the same threshold as the assertion *)
  (forall legs naxes : nat, gen_merge_class_refused (Z.of_nat legs) (Z.of_nat naxes) = Nat.ltb (legs - naxes) 2) /\
  (forall tids, gen_merge_class_refused (Z.of_nat (length tids)) 0 = negb (gen_merge_bond_still_ok tids)).
Proof.
  refine (conj _ (conj _ (conj _ (conj _ (conj _ (conj _ (conj _ (conj _ (conj _ (conj _ (conj _ (conj _ _)))))))))))).
  - intros. unfold gen_merge_next_tid. repeat rewrite zmaxd_0. lia.
  - intros. unfold gen_merge_next_bid. repeat rewrite zmaxd_0. lia.
  - reflexivity.
  - intros next. unfold gen_merge_tid_step, gen_merge_bid_step. lia.
  - intros tid. unfold gen_merge_is_virtual, VT. cmp_bool.
  - intros j n1 n2 s1 s2. unfold gen_merge_join_refused. rewrite !Nat2Z.id. cmp_bool.
  - intros j0 j1 n1 n2 s1 s2 H. unfold gen_merge_join_refused.
    destruct (Z.ltb_spec j0 0); [reflexivity|]. destruct (Z.ltb_spec j1 0); [|lia].
    cbn. rewrite orb_true_r. reflexivity.
  - intros. reflexivity.
  - intros tids. unfold gen_merge_bond_still_ok. cmp_bool.
  - intros. reflexivity.
  - intros. reflexivity.
  - intros legs naxes. unfold gen_merge_class_refused. cmp_bool.
  - intros tids. unfold gen_merge_class_refused, gen_merge_bond_still_ok. cmp_bool.
Qed.
Print Assumptions C08_source_merge_is_model.

Theorem C08_source_rename_transpose_bond_are_model :
  (forall n a c, gen_rename_tensor_refused a c = true -> rename_tensor n a c = None) /\
  (forall n a c, gen_rename_tensor_refused a c = false -> rename_tensor n a c = rename_tensor_priv n a c) /\
  (forall n a c, gen_rename_tensor_priv_refused a c (tensors n) = true -> rename_tensor_priv n a c = None) /\
  (forall n a c, WF n -> gen_rename_tensor_priv_refused a c (tensors n) = false -> exists n', rename_tensor_priv n a c = Some n') /\
  (forall n a c, gen_rename_bond_refused a c (bonds n) = true -> rename_bond n a c = None) /\
  (forall n a c, WF n -> gen_rename_bond_refused a c (bonds n) = false -> exists n', rename_bond n a c = Some n') /\
  (forall ndim axes, gen_transpose_norm ndim axes = norm_axes ndim axes) /\
  (forall ndim axes, gen_transpose_refused ndim axes = axes_refused ndim axes) /\
  (forall n axes t, dget VT (tensors n) = Some t -> gen_transpose_refused (t_ndim t) axes = true -> transpose n axes = None) /\
  (forall n axes t n', dget VT (tensors n) = Some t -> transpose n axes = Some n' ->
     dget VT (tensors n') = Some (mkT (t_id t) (gen_transpose_shape (t_shape t) (gen_transpose_norm (t_ndim t) axes))
                                      (gen_transpose_bids (t_bids t) (gen_transpose_norm (t_ndim t) axes)) (t_ref t))) /\
  (forall tids, gen_bond_refused tids = negb (Nat.leb 2 (length tids))) /\
  (forall tids, gen_bond_tids tids = zsort tids).
Proof.
  refine (conj _ (conj _ (conj _ (conj _ (conj _ (conj _ (conj _ (conj _ (conj _ (conj _ (conj _ _))))))))))).
  - intros n a c H. unfold gen_rename_tensor_refused in H. unfold rename_tensor, VT. rewrite H. reflexivity.
  - intros n a c H. unfold gen_rename_tensor_refused in H. unfold rename_tensor, VT. rewrite H. reflexivity.
  - intros n a c H. unfold gen_rename_tensor_priv_refused in H. unfold rename_tensor_priv, dhas in *.
    destruct (dget a (tensors n)); [|reflexivity]. destruct (dget c (tensors n)); [reflexivity | discriminate].
  - intros n a c [W _] H. unfold gen_rename_tensor_priv_refused in H. unfold rename_tensor_priv.
    destruct (dget a (tensors n)) as [t|] eqn:Ea; [|unfold dhas in H; rewrite Ea in H; discriminate].
    destruct (dhas c (tensors n)) eqn:Ec; [unfold dhas in H; rewrite Ea in H; discriminate|].
    destruct (wf_T n W a t (dget_In _ _ _ Ea)) as [-> _]. rewrite Z.eqb_refl. cbn [negb].
    rewrite retid_step_upd, ofold_upd; [eexists; reflexivity | apply (wf_ndB n W) |].
    intros k Hk. eapply wf_bids_exist; eauto. apply dget_In. exact Ea.
  - intros n a c H. unfold gen_rename_bond_refused in H. unfold rename_bond, dhas in *.
    destruct (dget a (bonds n)); [|reflexivity]. destruct (dget c (bonds n)); [reflexivity | discriminate].
  - intros n a c [W _] H. unfold gen_rename_bond_refused in H. unfold rename_bond.
    destruct (dget a (bonds n)) as [b|] eqn:Ea; [|unfold dhas in H; rewrite Ea in H; discriminate].
    destruct (dhas c (bonds n)) eqn:Ec; [unfold dhas in H; rewrite Ea in H; discriminate|].
    destruct (wf_B n W a b (dget_In _ _ _ Ea)) as [-> _]. rewrite Z.eqb_refl. cbn [negb].
    rewrite rebid_step_upd, ofold_upd; [eexists; reflexivity | apply (wf_ndT n W) |].
    intros k Hk. eapply wf_tids_exist; eauto. apply dget_In. exact Ea.
  - intros. reflexivity.
  - intros. reflexivity.
  - intros n axes t Ht H. unfold transpose. rewrite Ht.
    change (gen_transpose_refused (t_ndim t) axes) with (axes_refused (t_ndim t) axes) in H.
    rewrite H. reflexivity.
  - intros n axes t n' Ht H. unfold transpose in H. rewrite Ht in H.
    destruct (axes_refused (t_ndim t) axes); [discriminate|].
    destruct (negb (forallb _ _)); [discriminate|]. injection H as <-. cbn [tensors].
    rewrite dget_dset, Z.eqb_refl. unfold gen_transpose_shape, gen_transpose_bids.
    change (gen_transpose_norm (t_ndim t) axes) with (norm_axes (t_ndim t) axes). rewrite !map_map. reflexivity.
  - intros tids. unfold gen_bond_refused. cmp_bool.
  - intros tids. reflexivity.
Qed.
Print Assumptions C08_source_rename_transpose_bond_are_model.


(** is_consistent, read off the source: the loop skeleton is pinned by the translator, every
    `... return False` condition is the regenerated gen_ic_fail_k *)
Definition source_is_consistent (n : net) : bool :=
  negb (gen_ic_fail_0 (tensors n))
  && forallb (fun kt : Z * tensor =>
        negb (gen_ic_fail_1 (fst kt) (snd kt))
        && forallb (fun bid => negb (gen_ic_fail_2 bid (bonds n))
                               && match dget bid (bonds n) with
                                  | Some b => negb (gen_ic_fail_3 (snd kt) b bid)
                                  | None => false
                                  end) (t_bids (snd kt)))
       (tensors n)
  && forallb (fun kb : Z * bond =>
        let b := snd kb in
        negb (gen_ic_fail_4 (fst kb) b) && negb (gen_ic_fail_5 b)
        && match get_bond_axes n (b_id b) with
           | None => false
           | Some axs =>
               let legs := combine (b_tids b) axs in
               negb (gen_ic_fail_6 (b_tids b) axs)
               && forallb (fun p : Z * nat =>
                     negb (gen_ic_fail_7 (fst p) (tensors n))
                     && match dget (fst p) (tensors n) with
                        | Some t => negb (gen_ic_fail_8 t (snd p)) && negb (gen_ic_fail_9 t (snd p) b)
                        | None => false
                        end) legs
               && (let dims := map (fun p : Z * nat => match dget (fst p) (tensors n) with
                                                       | Some t => nth (snd p) (t_shape t) O
                                                       | None => O
                                                       end) legs in
                   match dims with [] => true | _ => negb (gen_ic_fail_10 dims) end)
           end)
       (bonds n).

Theorem C08_source_is_consistent_is_model : forall n, source_is_consistent n = is_consistent n.
Proof.
  intros n. unfold source_is_consistent, is_consistent.
  f_equal; [f_equal|].
  - unfold gen_ic_fail_0. rewrite ?negb_involutive. reflexivity.
  - apply forallb_ext_in. intros [k t] _. cbn [fst snd]. unfold tensor_ok.
    f_equal.
    + unfold gen_ic_fail_1. rewrite ?negb_involutive. reflexivity.
    + apply forallb_ext_in. intros bid _. unfold gen_ic_fail_2, gen_ic_fail_3, dhas.
      destruct (dget bid (bonds n)); cbn; rewrite ?negb_involutive; reflexivity.
  - apply forallb_ext_in. intros [k b] _. cbn [fst snd]. cbv zeta. unfold bond_ok.
    f_equal; [f_equal|].
    + unfold gen_ic_fail_4. rewrite ?negb_involutive. reflexivity.
    + unfold gen_ic_fail_5. cmp_bool.
    + destruct (get_bond_axes n (b_id b)) as [axs|]; [|reflexivity].
      f_equal; [f_equal|].
      * unfold gen_ic_fail_6, pairs_repeat. rewrite ?negb_involutive. reflexivity.
      * apply forallb_ext_in. intros [tid ax] _. cbn [fst snd]. unfold gen_ic_fail_7, gen_ic_fail_8, gen_ic_fail_9, dhas.
        destruct (dget tid (tensors n)) as [t|]; [|reflexivity]. cbn [negb andb]. rewrite ?negb_involutive.
        f_equal. cmp_bool.
      * set (dims := map _ (combine (b_tids b) axs)). unfold gen_ic_fail_10. rewrite ?negb_involutive.
        rewrite all_eq_nat_alt. destruct dims; reflexivity.
Qed.
Print Assumptions C08_source_is_consistent_is_model.

(** the decidable form of the invariant used by the correspondence run *)
Theorem C08_wf_b_sound : forall n, wf_b n = true -> WF n.
Proof. exact wf_b_WF. Qed.
Print Assumptions C08_wf_b_sound.

(** the hypotheses are satisfiable: a network with a hyper-bond, a multi-edge and a shared
    open bond; merging it with itself over a reused axis is accepted and stays consistent *)
Definition ex_net : net :=
  mkN [(3%Z, mkT 3%Z [2; 3; 3]%nat [0; 1; 1]%Z 0%Z); (-1, mkT (-1) [2; 2; 3]%nat [0; 0; 5]%Z (-1))%Z;
       ((-4)%Z, mkT (-4)%Z [3; 2]%nat [5; 0]%Z 1%Z)]
      [(0, mkB 0 [-4; -1; -1; 3]); (1, mkB 1 [3; 3]); (5, mkB 5 [-4; -1])]%Z.
Example C08_example :
  wf_b ex_net = true /\
  exists n', merge ex_net ex_net [(0, 0); (0, 1)]%nat [3; -1; -4]%Z [0; 1; 5]%Z = Some n' /\
             wf_b n' = true /\ is_consistent n' = true /\
             num_tensors n' = Some 4%nat /\ num_bonds n' = 5%nat /\ num_open_axes n' = Some 3%nat.
Proof. split; [vm_compute; reflexivity|]. eexists. split; [vm_compute; reflexivity|]. vm_compute. repeat split. Qed.

(** theorem 7 on a concrete instance: ex_net merged with itself, axis 0 of the first joined with
    axes 0 AND 1 of the second (which share an open bond with each other); both sides of the
    equation evaluated over the Gaussian integers at every multi-index of the three kept axes *)
Definition ex_data : Z -> list nat -> ZI :=
  fun r idx => (Z.of_nat (1 + length idx + 2 * nth 0 idx O + 3 * nth 1 idx O), r).
Example C08_example_merge_value :
  match merge ex_net ex_net [(0, 0); (0, 1)]%nat [3; -1; -4]%Z [0; 1; 5]%Z with
  | None => False
  | Some n' =>
      let Sh := [2; 2; 3; 2; 2; 3]%nat in
      let rhs y := ksum (K:=ZI) Nat.eqb (map (fun d => (d, nth d Sh O)) (joined_axes 3 [(0, 0); (0, 1)]%nat 6))
                     (fun e => smul (lprod (map (fun j => delta (e (fst j)) (e (3 + snd j)%nat)) [(0, 0); (0, 1)]%nat))
                                    (smul (defining_sum ex_net ex_data (map e (seq 0 3))) (defining_sum ex_net ex_data (map e (seq 3 3)))))
                     (env_of (kept_axes 3 [(0, 0); (0, 1)]%nat 6) y) in
      forallb (fun y => zi_eqb (defining_sum n' ex_data y) (rhs y))
              (flat_map (fun a => flat_map (fun b => map (fun c => [a; b; c]) (seq 0 3)) (seq 0 3)) (seq 0 2)) = true /\
      zi_eqb (defining_sum n' ex_data [0; 0; 0]%nat) (0%Z, 0%Z) = false
  end.
Proof. vm_compute. split; reflexivity. Qed.

(** THE LOOPS, read off the source statement by statement (gen/tnloops.py -> Run.GenTNLoops, regenerated on every run;
    fail-closed `ast` walk over assignments, for-loops over lists / ranges / the join list / the shared-key sets, if / raise /
    assert / early return, in-place list updates through object references, calls of the sibling methods):
    the five regenerated state transformers ARE the hand model, for ALL arguments (no well-formedness hypothesis).  Hence every
    theorem of this file about TNModel.merge / rename_tensor / rename_bond (invariant, counts, values, merge = contraction) is a
    theorem about the method bodies as they read now.  How: gen_* = TNLoops.lit_* (the text the translator produces for the
    current source, kept as a static copy) by [reflexivity]; lit_* = model proved in TN/TNLoops.v (loop lemmas: the literal
    `for i in range(len(l)): if l[i] == a: l[i] = c` is zreplace; dictionaries without NoDup; the join loop keeps shapes; ...).
    A source edit that changes the generated term beyond convertibility breaks this theorem (fail closed; also for harmless
    edits such as re-ordering two independent statements).
    Inputs of the model, as before: the iteration orders ordT / ordB of the two Python sets `keys() & keys()`.
    gen_merge is the WHOLE method: the validation loop (three guards per join; `self.num_open_axes`, `other.shape[...]` read
    as the code reads them, RuntimeError / IndexError = None), then - the only part not translated - the five statements of the
    leg-count refusal, PINNED by ast equality (gen/tn.py MERGE_LEGS_GUARD) and standing for TNModel.joins_starve, then every
    statement from `num_open_axes_orig = self.num_open_axes` to `return self` (= gen_merge_changes). *)
Theorem C08_source_merge_loops_are_model :
  (forall n a c, gen_rename_tensor_priv n a c = rename_tensor_priv n a c) /\
  (forall n a c, gen_rename_bond n a c = rename_bond n a c) /\
  (forall n t1 t2, gen_merge_tensors n t1 t2 = merge_tensors n t1 t2) /\
  (forall n b1 b2, gen_merge_bonds n b1 b2 = merge_bonds n b1 b2) /\
  (forall norig n o joins ordT ordB, gen_merge_changes norig n o joins ordT ordB = merge_changes norig n o joins ordT ordB) /\
  (forall n o joins ordT ordB, gen_merge n o joins ordT ordB = merge n o joins ordT ordB).
Proof.
  assert (H5 : forall norig n o joins ordT ordB, gen_merge_changes norig n o joins ordT ordB = merge_changes norig n o joins ordT ordB).
  { intros. transitivity (lit_merge_changes norig n o joins ordT ordB); [reflexivity | apply lit_merge_changes_is_model]. }
  refine (conj _ (conj _ (conj _ (conj _ (conj H5 _))))).
  - intros. transitivity (lit_rename_tensor_priv n a c); [reflexivity | apply lit_rename_tensor_priv_is_model].
  - intros. transitivity (lit_rename_bond n a c); [reflexivity | apply lit_rename_bond_is_model].
  - intros. transitivity (lit_merge_tensors n t1 t2); [reflexivity | apply lit_merge_tensors_is_model].
  - intros. transitivity (lit_merge_bonds n b1 b2); [reflexivity | apply lit_merge_bonds_is_model].
  - intros. transitivity (lit_merge n o joins ordT ordB); [reflexivity | apply lit_merge_is_model].
Qed.
Print Assumptions C08_source_merge_loops_are_model.

(** the public rename_tensor and transpose (SymbolicTensorNetwork.transpose + SymbolicTensor.transpose), statement by statement.
    transpose: the model also answers None (IndexError) when the virtual tensor has fewer bond ids than dimensions - no object of
    the class (SymbolicTensor.__init__ refuses it; part of `Rep` / WF) - hence the hypothesis; the default `axes=None` is pinned. *)
Theorem C08_source_rename_transpose_loops_are_model :
  (forall n a c, gen_rename_tensor n a c = rename_tensor n a c) /\
  (forall n axes, (forall t, dget VT (tensors n) = Some t -> length (t_bids t) = length (t_shape t)) ->
                  gen_transpose n axes = transpose n axes) /\
  (forall n axes, WF n -> gen_transpose n axes = transpose n axes).
Proof.
  assert (H2 : forall n axes, (forall t, dget VT (tensors n) = Some t -> length (t_bids t) = length (t_shape t)) ->
                              gen_transpose n axes = transpose n axes).
  { intros n axes H. transitivity (lit_transpose n axes); [reflexivity | apply lit_transpose_is_model; exact H]. }
  refine (conj _ (conj H2 _)).
  - intros. transitivity (lit_rename_tensor n a c); [reflexivity | apply lit_rename_tensor_is_model].
  - intros n axes [W _]. apply H2. intros t Ht. symmetry. exact (proj2 (wf_T n W VT t (dget_In _ _ _ Ht))).
Qed.
Print Assumptions C08_source_rename_transpose_loops_are_model.

(** the surgery theorems, restated about the regenerated programs (corollaries of the bridge) *)
Theorem C08_source_merge_keeps_invariant :
  forall n o joins ordT ordB n', WF n -> WF o -> gen_merge n o joins ordT ordB = Some n' -> WF n' /\ is_consistent n' = true.
Proof.
  intros n o joins ordT ordB n' Wn Wo H.
  rewrite (proj2 (proj2 (proj2 (proj2 (proj2 C08_source_merge_loops_are_model))))) in H.
  pose proof (merge_WF n o joins ordT ordB n' Wn Wo H) as W. split; [exact W | apply WF_is_consistent; exact W].
Qed.
Print Assumptions C08_source_merge_keeps_invariant.
