(** C08 - network surgery keeps the network consistent and means what it says.
    Property theorems only (proofs: Qib.TN.TNWF, TNMerge, TNConsistent, TNProofs, TNCounts,
    TNSem).  The model (Qib.TN.TNModel) is a hand port of symbolic_network.py WITH the proposed
    repairs (merge: every deleted open axis once; is_consistent: exact leg count) and is tied
    to /repo by the exact correspondence run of checks/C08.py on every run. *)
From Qib Require Import TN.TNSem TN.TNConsistentConv Base.Inst.

(** 1. the invariant implies the library's own check *)
Theorem C08_invariant_implies_is_consistent : forall n, WF n -> is_consistent n = true.
Proof. exact WF_is_consistent. Qed.
Print Assumptions C08_invariant_implies_is_consistent.

(** 1'. ... and conversely: every network the library's own check accepts satisfies the invariant,
    so "from any consistent starting point" below means exactly "from any network for which
    is_consistent() returns True".  [Rep] is what a Python object of these classes cannot
    violate and is_consistent therefore never inspects: a dict holds each key once, and
    len(shape) = len(bids) for every tensor (enforced by SymbolicTensor.__init__ and kept by
    every method that writes shape/bids). *)
Theorem C08_is_consistent_implies_invariant : forall n, Rep n -> is_consistent n = true -> WF n.
Proof. exact is_consistent_WF. Qed.
Print Assumptions C08_is_consistent_implies_invariant.

Theorem C08_invariant_is_exactly_is_consistent : forall n, WF n <-> (Rep n /\ is_consistent n = true).
Proof.
  intros n. split.
  - intros W. split; [apply WF_Rep; exact W | apply WF_is_consistent; exact W].
  - intros [R C]. apply is_consistent_WF; assumption.
Qed.
Print Assumptions C08_invariant_is_exactly_is_consistent.

(** 2. every accepted operation preserves the invariant.  Guards (none is validated by the
    code): the virtual tensor -1 is not renamed; the transposition is a permutation of all
    open axes; the second operand is consistent and joined axes have equal dimensions.
    The iteration order of the Python sets of shared ids (ordT, ordB) is arbitrary. *)
Theorem C08_rename_tensor_keeps_invariant :
  forall n a c n', WF n -> a <> VT -> rename_tensor n a c = Some n' -> WF n'.
Proof. intros n a c n' W Ha H. exact (sstep_WF n (SRenT a c) n' W Ha H). Qed.
Print Assumptions C08_rename_tensor_keeps_invariant.

Theorem C08_rename_bond_keeps_invariant :
  forall n a c n', WF n -> rename_bond n a c = Some n' -> WF n'.
Proof. intros n a c n' W H. exact (sstep_WF n (SRenB a c) n' W I H). Qed.
Print Assumptions C08_rename_bond_keeps_invariant.

Theorem C08_transpose_keeps_invariant :
  forall n axes n', WF n -> is_perm_of axes n -> transpose n axes = Some n' -> WF n'.
Proof. intros n axes n' W P H. exact (sstep_WF n (STrans axes) n' W P H). Qed.
Print Assumptions C08_transpose_keeps_invariant.

Theorem C08_merge_keeps_invariant :
  forall n o joins ordT ordB n', WF n -> WF o -> joins_dim_ok n o joins ->
    merge n o joins ordT ordB = Some n' -> WF n'.
Proof. exact merge_WF. Qed.
Print Assumptions C08_merge_keeps_invariant.

(** 3. from any consistent starting point, along any sequence (refused operations leave the
    network unchanged), the network and every intermediate network pass is_consistent *)
Theorem C08_any_sequence_stays_consistent :
  forall ops n k, WF n -> guarded n ops ->
    WF (fold_left apply_op ops n) /\ is_consistent (fold_left apply_op (firstn k ops) n) = true.
Proof.
  intros ops n k W G. split; [apply sequence_WF; assumption | apply sequence_consistent_prefix; assumption].
Qed.
Print Assumptions C08_any_sequence_stays_consistent.

(** 3'. the same, started from the library's own check instead of the invariant *)
Theorem C08_any_sequence_stays_consistent_from_is_consistent :
  forall ops n k, Rep n -> is_consistent n = true -> guarded n ops ->
    is_consistent (fold_left apply_op ops n) = true /\ is_consistent (fold_left apply_op (firstn k ops) n) = true.
Proof.
  intros ops n k R C G. pose proof (is_consistent_WF n R C) as W. split.
  - apply WF_is_consistent. apply sequence_WF; assumption.
  - apply sequence_consistent_prefix; assumption.
Qed.
Print Assumptions C08_any_sequence_stays_consistent_from_is_consistent.

(** 3''. the three guards are NECESSARY: the code accepts each of these calls on a consistent
    network and leaves a network that fails its own check (KNOWN FINDINGS of this property;
    checks/C08.py runs these inputs on the implementation on every run):
      - rename_tensor(-1, c) renames the virtual tensor away,
      - transpose(axes) only checks that the axes are distinct, not that they are all axes,
      - merge does not compare the dimensions of the joined axes. *)
Definition guard_net : net :=
  mkN [(0%Z, mkT 0%Z [2; 3; 2]%nat [0; 1; 2]%Z 0%Z); ((-1)%Z, mkT (-1)%Z [2; 3; 2]%nat [0; 1; 2]%Z (-1)%Z)]
      [(0, mkB 0 [-1; 0]); (1, mkB 1 [-1; 0]); (2, mkB 2 [-1; 0])]%Z.

Theorem C08_rename_of_virtual_tensor_refuted :
  exists n c n', WF n /\ rename_tensor n VT c = Some n' /\ is_consistent n' = false.
Proof.
  exists guard_net, 5%Z. eexists. split; [apply wf_b_WF; vm_compute; reflexivity|].
  split; [vm_compute; reflexivity | vm_compute; reflexivity].
Qed.
Print Assumptions C08_rename_of_virtual_tensor_refuted.

Theorem C08_partial_transpose_refuted :
  exists n axes n', WF n /\ transpose n axes = Some n' /\ is_consistent n' = false.
Proof.
  exists guard_net, [2%nat]. eexists. split; [apply wf_b_WF; vm_compute; reflexivity|].
  split; [vm_compute; reflexivity | vm_compute; reflexivity].
Qed.
Print Assumptions C08_partial_transpose_refuted.

Theorem C08_merge_of_unequal_dimensions_refuted :
  exists n o joins ordT ordB n', WF n /\ WF o /\ merge n o joins ordT ordB = Some n' /\ is_consistent n' = false.
Proof.
  exists guard_net, guard_net, [(0, 1)]%nat, [0; -1]%Z, [0; 1; 2]%Z. eexists.
  split; [apply wf_b_WF; vm_compute; reflexivity|]. split; [apply wf_b_WF; vm_compute; reflexivity|].
  split; [vm_compute; reflexivity | vm_compute; reflexivity].
Qed.
Print Assumptions C08_merge_of_unequal_dimensions_refuted.

(** 4. counts: unchanged by renames and transpositions; after a merge the tensors add up, the
    bonds add up minus the fused ones (at most one per join), and for joins that use every open
    axis at most once the open axes add up minus two per join *)
Theorem C08_counts_rename_transpose :
  forall n n', WF n ->
    (forall a c, a <> VT -> rename_tensor n a c = Some n' -> counts_eq n n') /\
    (forall a c, rename_bond n a c = Some n' -> counts_eq n n') /\
    (forall axes, is_perm_of axes n -> transpose n axes = Some n' -> counts_eq n n').
Proof.
  intros n n' W. unfold counts_eq. split; [|split].
  - intros a c Ha H. destruct (rename_tensor_counts n a c n' W Ha H) as [A [B C]]. auto.
  - intros a c H. destruct (rename_bond_counts n a c n' W H) as [A [B C]]. auto.
  - intros axes P H. destruct (transpose_counts n axes n' W P H) as [A [B C]]. auto.
Qed.
Print Assumptions C08_counts_rename_transpose.

Theorem C08_counts_merge :
  forall n o joins ordT ordB n', WF n -> WF o -> joins_dim_ok n o joins ->
    merge n o joins ordT ordB = Some n' ->
    forall nt1 nt2 no1 no2, num_tensors n = Some nt1 -> num_tensors o = Some nt2 ->
      num_open_axes n = Some no1 -> num_open_axes o = Some no2 ->
    num_tensors n' = Some (nt1 + nt2)%nat /\
    (num_bonds n' <= num_bonds n + num_bonds o <= num_bonds n' + length joins)%nat /\
    (NoDup (map fst joins) -> NoDup (map snd joins) -> (forall j, In j joins -> (snd j < no2)%nat) ->
     num_open_axes n' = Some (no1 + no2 - 2 * length joins)%nat).
Proof. exact merge_counts. Qed.
Print Assumptions C08_counts_merge.

(** 5. fresh ids: max(keys)+1 and above never collides, whatever the signs of the ids; after
    the relabelling inside merge the key sets of the two networks are disjoint *)
Theorem C08_fresh_ids :
  (forall l y, (zmax0 l + 1 <= y)%Z -> ~ In y l) /\
  (forall n o ordT o1 tmp k, WF0 o ->
     is_shared_order ordT (dkeys (tensors n)) (dkeys (tensors o)) = true ->
     relabel_tensors o ordT (zmax0 (dkeys (tensors n) ++ dkeys (tensors o)) + 1) VT = Some (o1, tmp) ->
     In k (dkeys (tensors o1)) -> ~ In k (dkeys (tensors n))) /\
  (forall n o ordB o1 k, WF0 o ->
     is_shared_order ordB (dkeys (bonds n)) (dkeys (bonds o)) = true ->
     relabel_bonds o ordB (zmax0 (dkeys (bonds n) ++ dkeys (bonds o)) + 1) = Some o1 ->
     In k (dkeys (bonds o1)) -> ~ In k (dkeys (bonds n))).
Proof.
  split; [exact zmax0_fresh|]. split; [exact relabel_tensors_disjoint | exact relabel_bonds_disjoint].
Qed.
Print Assumptions C08_fresh_ids.

(** 6. semantics.  The value of a network is its defining sum
        T[x] = sum over all bond indices of  prod_t data_t[indices of t's bonds] * prod_k [x_k = index of open axis k's bond]
    (C07 proves that contract_einsum computes it).  Renames leave it unchanged, for every
    commutative ring of scalars and all tensor data. *)
Theorem C08_rename_tensor_keeps_value :
  forall (K : Scalar) (L : ScalarLaws K) n a c n' (data : Z -> list nat -> K) x,
    WF n -> a <> VT -> rename_tensor n a c = Some n' -> defining_sum n' data x = defining_sum n data x.
Proof. intros. eapply rename_tensor_value; eauto. Qed.
Print Assumptions C08_rename_tensor_keeps_value.

Theorem C08_rename_bond_keeps_value :
  forall (K : Scalar) (L : ScalarLaws K) n a c n' (data : Z -> list nat -> K) x,
    WF n -> rename_bond n a c = Some n' -> defining_sum n' data x = defining_sum n data x.
Proof. intros. eapply rename_bond_value; eauto. Qed.
Print Assumptions C08_rename_bond_keeps_value.

(** transposing permutes the value like numpy.transpose:  V'[x] = V[y]  with  y[axes[k]] = x[k] *)
Theorem C08_transpose_permutes_value :
  forall (K : Scalar) (L : ScalarLaws K) n axes n' (data : Z -> list nat -> K) x,
    WF n -> is_perm_of axes n -> transpose n axes = Some n' -> length x = length axes ->
    defining_sum n' data x = defining_sum n data (untranspose axes x).
Proof. intros. eapply transpose_value; eauto. Qed.
Print Assumptions C08_transpose_permutes_value.

(* 7. merge = contraction over the joined axes  (NOT proved; full statement, for joins that use
   every open axis at most once, joins = [(a_1,b_1);...;(a_m,b_m)]):
     forall n o joins ordT ordB n' data x, WF n -> WF o -> joins_dim_ok n o joins ->
       merge n o joins ordT ordB = Some n' -> length x = (no1 - m) + (no2 - m) ->
       defining_sum n' data x =
         sum over j_1..j_m (j_r < dimension of axis a_r) of
           defining_sum n data (x1 x j) * defining_sum o data (x2 x j)
     where x1 puts j_r at position a_r and the first no1-m entries of x at the other positions
     (in order), x2 puts j_r at position b_r and the remaining entries of x at the others.
   For joins that reuse an axis all joined axes of one connected group carry one summed index.
   What IS proved about merge: the invariant, the counts, the fresh ids (theorems 2,4,5).
   The value semantics of merge is checked on every merge of the correspondence run against an
   independent numpy reference (checks/C08.py: ref_merge_value) and, exactly, against this
   model's defining_sum of the merged network. *)

(** the decidable form of the invariant used by the correspondence run *)
Theorem C08_wf_b_sound : forall n, wf_b n = true -> WF n.
Proof. exact wf_b_WF. Qed.
Print Assumptions C08_wf_b_sound.

(** the hypotheses are satisfiable: a network with a hyper-bond, a multi-edge and a shared
    open bond; merging it with itself over a reused axis is accepted and stays consistent *)
Definition ex_net : net :=
  mkN [(3%Z, mkT 3%Z [2; 3; 3]%nat [0; 1; 1]%Z 0%Z); (-1, mkT (-1) [2; 2; 3]%nat [0; 0; 5]%Z (-1))%Z;
       ((-4)%Z, mkT (-4)%Z [3; 2]%nat [5; 0]%Z 1%Z)]
      [(0, mkB 0 [-4; -1; -1; 3]); (1, mkB 1 [3; 3]); (5, mkB 5 [-4; -1])]%Z.
Example C08_example :
  wf_b ex_net = true /\
  exists n', merge ex_net ex_net [(0, 0); (0, 1)]%nat [3; -1; -4]%Z [0; 1; 5]%Z = Some n' /\
             wf_b n' = true /\ is_consistent n' = true /\
             num_tensors n' = Some 4%nat /\ num_bonds n' = 5%nat /\ num_open_axes n' = Some 3%nat.
Proof. split; [vm_compute; reflexivity|]. eexists. split; [vm_compute; reflexivity|]. vm_compute. repeat split. Qed.
