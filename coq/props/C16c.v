(** C16 (composite gates) - Hermiticity claims of composite gates are sound: a controlled
    gate delegates to its target, a multiplexer to all its targets, a block encoding answers
    by method, time evolution and preparation gates say False, the general gate tests
    np.allclose(M, M^dagger).  Property theorems only; [Run.GenGatesComp] is regenerated from
    the source on every run. *)
From Qib Require Import Gates.CompProofs Base.Inst.
From Run Require Import GenGatesComp.

Section C16c.
  Context {K : Scalar} {L : ScalarLaws K}.
  Local Open Scope K_scope.
  Add Ring KringC16c : (s_ring K L).

  (** ---- bridge: the model's clauses are the generated expressions ---------------------- *)
  Lemma gen_ctrl_step_model a b c d : gen_ctrl_step a b c d = ctrl_step a b c d.
  Proof.
    unfold gen_ctrl_step, ctrl_step.
    first [ reflexivity
          | destruct (Z.eqb b 1); [|reflexivity]; f_equal; f_equal; lia ].
  Qed.

  (** ControlledGate.as_matrix as the code computes it *)
  Definition code_ctrl_index (pat : list bool) : nat :=
    Z.to_nat (ctrl_loop gen_ctrl_step gen_ctrl_init (length pat) pat).
  Definition code_ctrl_mat (pat : list bool) (U : BMx K) : BMx K :=
    gen_ctrl_mat (length pat) (onehot (code_ctrl_index pat)) U.

  Lemma code_ctrl_index_model pat : code_ctrl_index pat = ctrl_index pat.
  Proof.
    unfold code_ctrl_index, ctrl_index.
    replace (ctrl_loop gen_ctrl_step gen_ctrl_init (length pat) pat)
      with (ctrl_loop ctrl_step 0%Z (length pat) pat); [reflexivity|].
    symmetry. change gen_ctrl_init with 0%Z. apply ctrl_loop_ext. exact gen_ctrl_step_model.
  Qed.

  Lemma code_ctrl_mat_model pat (U : BMx K) r c : code_ctrl_mat pat U r c = ctrl_mat pat U r c.
  Proof.
    unfold code_ctrl_mat, ctrl_mat, ctrl_mat_at, gen_ctrl_mat. rewrite code_ctrl_index_model.
    first [ reflexivity | unfold madd, kron, mdiag, vcompl, onehot, mid; ring ].
  Qed.

  Lemma gen_mux_mat_model nc (ms : list (BMx K)) r c : gen_mux_mat nc ms r c = block_diag nc ms r c.
  Proof. reflexivity. Qed.

  Lemma gen_benc_mat_model m (H Sq : BMx K) r c : gen_benc_mat m H Sq r c = benc_mat m H Sq r c.
  Proof.
    destruct m; unfold gen_benc_mat, benc_mat;
      first [ reflexivity
            | destruct r as [|rb r], c as [|cb c]; cbn [block2]; try reflexivity;
              destruct rb, cb; unfold mscal, mopp; ring ].
  Qed.

  Lemma gen_tevo_arg_model t (H : BMx K) r c : gen_tevo_arg t H r c = tevo_arg t H r c.
  Proof. unfold gen_tevo_arg, tevo_arg, mscal. first [ reflexivity | ring ]. Qed.

  Lemma gen_qucc_arg_model (T : BMx K) r c : gen_qucc_arg T r c = qucc_arg T r c.
  Proof. unfold gen_qucc_arg, qucc_arg, msub, madj. first [ reflexivity | ring ]. Qed.

  Lemma gen_prep_mat_model (Q0 : BMx K) flip tr r c : gen_prep_mat Q0 flip tr r c = prep_mat Q0 flip tr r c.
  Proof. unfold gen_prep_mat, prep_mat. destruct flip, tr; reflexivity. Qed.

  Lemma meq_of_pointwise n (A B : BMx K) : (forall r c, A r c = B r c) -> meq n A B.
  Proof. intros H r c _ _. apply H. Qed.

  (** is_hermitian() as the code computes it *)
  Fixpoint code_is_herm (g : cgate K) : bool :=
    match g with
    | Leaf _ _ _ h _ => h
    | Ctrl pat _ g' => gen_ctrl_is_hermitian (code_is_herm g') (Z.of_nat (length pat))
    | Mux nc _ gs => gen_mux_is_hermitian (map code_is_herm gs) (Z.of_nat nc)
    | BEnc m _ _ _ _ _ => gen_benc_is_hermitian m
    | TEvo _ _ _ _ _ _ => gen_tevo_is_hermitian
    | Prep _ _ _ _ _ => gen_prep_is_hermitian
    | Gen _ _ h _ => h
    end.

  Lemma code_is_herm_model : forall g, code_is_herm g = is_herm g.
  Proof.
    induction g using cgate_ind'; cbn [code_is_herm is_herm].
    - reflexivity.
    - unfold gen_ctrl_is_hermitian. exact IHg.
    - unfold gen_mux_is_hermitian.
      induction H as [|x l Hx HF IH]; [reflexivity|]. cbn [map forallb]. rewrite Hx, IH. reflexivity.
    - destruct m; reflexivity.
    - reflexivity.
    - reflexivity.
    - reflexivity.
  Qed.
End C16c.

(** 0. the delegation bodies are what the model says *)
Theorem C16c_flag_forms_are_code :
  forall (K : Scalar) (g : cgate K), code_is_herm g = is_herm g.
Proof. intros. apply code_is_herm_model. Qed.
Print Assumptions C16c_flag_forms_are_code.

(** 1. controlled gate: Hermitian target => Hermitian controlled gate (any pattern/size) *)
Theorem C16c_controlled_delegation_sound :
  forall (K : Scalar) (L : ScalarLaws K) pat nt (U : BMx K) (th : bool),
    (th = true -> hermitian nt U) ->
    gen_ctrl_is_hermitian th (Z.of_nat (length pat)) = true ->
    hermitian (length pat + nt) (code_ctrl_mat pat U).
Proof.
  intros K L pat nt U th Hth Hf. unfold gen_ctrl_is_hermitian in Hf.
  eapply hermitian_meq; [apply meq_of_pointwise; intros; symmetry; apply code_ctrl_mat_model|].
  apply ctrl_mat_hermitian. apply Hth. exact Hf.
Qed.
Print Assumptions C16c_controlled_delegation_sound.

(** 2. multiplexer: all targets Hermitian => Hermitian *)
Theorem C16c_multiplexed_delegation_sound :
  forall (K : Scalar) (L : ScalarLaws K) nc nt (ms : list (BMx K)) (ths : list bool),
    length ms = 2 ^ nc ->
    Forall2 (fun M th => th = true -> hermitian nt M) ms ths ->
    gen_mux_is_hermitian ths (Z.of_nat nc) = true ->
    hermitian (nc + nt) (gen_mux_mat nc ms).
Proof.
  intros K L nc nt ms ths Hl HF Hf. unfold gen_mux_is_hermitian in Hf.
  apply block_diag_hermitian; [exact Hl|]. clear Hl.
  induction HF as [|M th ms ths HM HF IH]; constructor.
  - apply HM. cbn [forallb] in Hf. apply andb_true_iff in Hf. apply Hf.
  - apply IH. cbn [forallb] in Hf. apply andb_true_iff in Hf. apply Hf.
Qed.
Print Assumptions C16c_multiplexed_delegation_sound.

(** 3. block encoding: whenever the method says Hermitian (R), the layout is *)
Theorem C16c_block_encoding_by_method_sound :
  forall (K : Scalar) (L : ScalarLaws K) m n (H Sq : BMx K),
    hermitian n H -> hermitian n Sq -> gen_benc_is_hermitian m = true ->
    hermitian (Datatypes.S n) (gen_benc_mat m H Sq).
Proof.
  intros K L m n H Sq HH HS Hf.
  eapply hermitian_meq; [apply meq_of_pointwise; intros; symmetry; apply gen_benc_mat_model|].
  apply benc_mat_hermitian; first [assumption | destruct m; exact Hf].
Qed.
Print Assumptions C16c_block_encoding_by_method_sound.

(** 4. MAIN: for gate trees of any depth, is_hermitian() = True implies a Hermitian matrix *)
Theorem C16c_composite_flag_sound_any_depth :
  forall (K : Scalar) (L : ScalarLaws K) (is_expm : nat -> BMx K -> BMx K -> Prop) (g : cgate K),
    wf is_expm g -> code_is_herm g = true -> hermitian (num_wires g) (matrix g).
Proof. intros K L is_expm g W Hf. rewrite code_is_herm_model in Hf. apply (is_herm_sound is_expm g W Hf). Qed.
Print Assumptions C16c_composite_flag_sound_any_depth.

(** 5. GeneralGate: is_hermitian() is exactly "every entry of M is close to that of M^dagger"
       (iff, up to the closeness test of np.allclose) *)
Theorem C16c_general_is_hermitian_iff :
  forall (K : Scalar) (L : ScalarLaws K) (close : K -> K -> bool) n (M : BMx K),
    (allclose close n (fst (gen_general_hermitian_test M)) (snd (gen_general_hermitian_test M)) = true
     <-> forall r c, length r = n -> length c = n -> close (M r c) (sconj (M c r)) = true)
    /\ ((forall a b, close a b = true <-> a = b) ->
        (allclose close n (fst (gen_general_hermitian_test M)) (snd (gen_general_hermitian_test M)) = true
         <-> hermitian n M)).
Proof.
  intros K L close n M. split.
  - apply (general_is_hermitian_iff close n M).
  - intros Hc. rewrite (general_is_hermitian_iff close n M : _ <-> _). unfold hermitian, meq. split.
    + intros H r c Hr Hc0. symmetry. apply Hc. apply H; assumption.
    + intros H r c Hr Hc0. apply Hc. symmetry. apply H; assumption.
Qed.
Print Assumptions C16c_general_is_hermitian_iff.

(** non-vacuity: controlled-controlled-Z via a multiplexer claims and is Hermitian; with S
    instead of Z the claim is False *)
Example C16c_instance :
  let Z := mxl (K:=ZI) [[(1,0);(0,0)];[(0,0);(-1,0)]]%Z in
  let I2 := mxl (K:=ZI) [[(1,0);(0,0)];[(0,0);(1,0)]]%Z in
  let S := mxl (K:=ZI) [[(1,0);(0,0)];[(0,0);(0,1)]]%Z in
  let Sd := mxl (K:=ZI) [[(1,0);(0,0)];[(0,0);(0,-1)]]%Z in
  let g := Ctrl [true] [] (Mux 1 [] [Leaf 1 I2 I2 true []; Leaf 1 Z Z true []]) in
  let g' := Ctrl [true] [] (Mux 1 [] [Leaf 1 I2 I2 true []; Leaf 1 S Sd false []]) in
  code_is_herm g = true /\ dense 3 (madj (matrix g)) = dense 3 (matrix g) /\
  code_is_herm g' = false /\ dense 3 (madj (matrix g')) <> dense 3 (matrix g').
Proof. vm_compute. repeat split. discriminate. Qed.
