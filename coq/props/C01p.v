(** C01 (Pauli part) - "whenever an operator claims to be unitary, its matrix is":
    PauliString.is_unitary() is constantly True, WeightedPauliString.is_unitary() is
    |weight| = 1 (both read from the source by gen/pauli.py). *)
From Qib Require Import Pauli.PauliProofs3 Base.Inst.
From Run Require Import GenPauli.

Theorem C01_pauli_string_is_unitary :
  forall (K : Scalar) (L : ScalarLaws K) n p,
    gen_pstring_is_unitary = true -> wfp n p -> unitary (K:=K) n (pmatrix p).
Proof. intros K L n p _. apply pmatrix_unitary. Qed.
Print Assumptions C01_pauli_string_is_unitary.

Theorem C01_weighted_pauli_string_is_unitary :
  forall (K : Scalar) (L : ScalarLaws K) n p (w : K),
    gen_wstring_unitary_is_abs_weight_eq_1 = true ->
    wfp n p -> smul w (sconj w) = s1 -> unitary (K:=K) n (wmatrix (p, w)).
Proof. intros K L n p w _. apply wmatrix_unitary. Qed.
Print Assumptions C01_weighted_pauli_string_is_unitary.

(** PauliOperator.is_unitary() is the stub `raise NotImplementedError` (asserted by gen/pauli.py,
    fail closed): a Pauli operator never claims to be unitary, so the clause holds of it vacuously.
    If the method is ever implemented this obligation breaks and checks/pauli_flags.py evaluates
    the claims on concrete operators (complex relative phases, anti-commuting mixtures). *)
Theorem C01_pauli_operator_never_claims_unitary : gen_operator_is_unitary_never_claims = true.
Proof. reflexivity. Qed.
Print Assumptions C01_pauli_operator_never_claims_unitary.

Example C01_pauli_instance :
  wfp 2 {| pz := [true; false]; px := [true; true]; pq := 3 |} /\
  smul (s:=ZI) (0, 1)%Z (sconj (s:=ZI) (0, 1)%Z) = s1.
Proof. vm_compute. repeat split. Qed.
