(** C04 - Embedding a gate into a register acts on exactly its wires.
    Property theorems only.  [Run.GenEmbed] is regenerated from /repo/src/qib/operator/gates.py
    (_distribute_to_wires, every as_circuit_matrix) and /repo/src/qib/util/util.py
    (map_particle_to_wire, permute_gate_wires) on every run (gen/embed.py), so the statements
    below are about the loop bounds, bit tests, increments, reversal formulas, asserts, offsets
    and transposition axes the code contains now.  scipy's csr_matrix (dense -> CSR; triples ->
    matrix with duplicates summed) and numpy's reshape/transpose are modelled
    (Qib.Embed.EmbedModel) and tied by the correspondence run. *)
From Qib Require Import Embed.WireProofs Embed.CsrProofs Embed.HeapObs Embed.IdentProofs Base.Inst.
From Run Require Import GenEmbed.
Local Open Scope Z_scope.

(** the regenerated function is the hand port the library theorems are about *)
Lemma gen_distribute_is_model {V} (d : V) nwires iwire g :
  gen_distribute d nwires iwire g = distribute d nwires iwire g.
Proof. reflexivity. Qed.

Lemma gen_mp2w_is_model fields p :
  mp2w_skel gen_mp2w_hit gen_mp2w_skip gen_mp2w_miss fields (fst p) (snd p) gen_mp2w_init = mp2w fields p.
Proof. reflexivity. Qed.

Lemma gen_permute_is_model {K : Scalar} (u : BMx K) perm :
  permute_skel gen_permute_axes u perm = permute_gate_wires u perm.
Proof. reflexivity. Qed.

(** Gate.as_circuit_matrix as the code composes it from the regenerated pieces *)
Definition code_as_circuit_matrix {V} (d : V) (fields prtcl : list (Z * Z)) (g : csr V) : acm_result V :=
  let iwire := map (fun p => mp2w_skel gen_mp2w_hit gen_mp2w_skip gen_mp2w_miss fields (fst p) (snd p) gen_mp2w_init) prtcl in
  if existsb (fun iw => iw <? 0) iwire then AcmNotFound
  else match gen_distribute d (fold_right Z.add 0 (map snd fields)) iwire g with
       | Some t => AcmOk t
       | None => AcmAssert
       end.
Lemma code_acm_is_model {V} (d : V) fields prtcl g :
  code_as_circuit_matrix d fields prtcl g = as_circuit_matrix d fields prtcl g.
Proof. reflexivity. Qed.

(** 1. the register-level triples are the gate on its wires, identity elsewhere: for every
    register size, every list of distinct wires in any order, every CSR gate matrix.
    first listed wire = most significant gate bit, wire 0 = most significant register bit. *)
Theorem C04_distribute_is_embedding :
  forall (K : Scalar) (L : ScalarLaws K) nw ws (g : csr K) T,
    wires_ok nw ws -> csr_cols_ok (length ws) g ->
    gen_distribute s0 (Z.of_nat nw) (zw ws) g = Some T ->
    forall r c, length r = nw -> length c = nw ->
      triples_entry T r c
      = smul (csr_entry g (gather ws r) (gather ws c))
             (if beq (gather (compl nw ws) r) (gather (compl nw ws) c) then s1 else s0).
Proof. intros K L nw ws g T W C H r c Hr Hc. rewrite gen_distribute_is_model in H. exact (distribute_entry nw ws g T W C H r c Hr Hc). Qed.
Print Assumptions C04_distribute_is_embedding.

(** 2. no two triples share (row, col): csr_matrix's summing of duplicates never fires *)
Theorem C04_distribute_no_duplicate_coordinates :
  forall (K : Scalar) (L : ScalarLaws K) nw ws (g : csr K) T,
    wires_ok nw ws -> csr_cols_ok (length ws) g -> csr_rows_nodup (length ws) g ->
    gen_distribute s0 (Z.of_nat nw) (zw ws) g = Some T -> NoDup (keys T).
Proof. intros K L nw ws g T W C R H. rewrite gen_distribute_is_model in H. exact (distribute_keys_nodup nw ws g T W C R H). Qed.
Print Assumptions C04_distribute_no_duplicate_coordinates.

(** 3. the function returns (all asserts pass) for distinct in-range wires and a canonical CSR of
    the right size, and raises AssertionError for repeated / out-of-range wires *)
Theorem C04_distribute_accepts_exactly_distinct_wires :
  forall V (d : V),
    (forall nw ws g, wires_ok nw ws -> csr_canonical (length ws) g ->
       exists T, gen_distribute d (Z.of_nat nw) (zw ws) g = Some T) /\
    (forall nwires iwire g, 0 <= nwires ->
       ~ (NoDup iwire /\ forall w, In w iwire -> 0 <= w < nwires) -> gen_distribute d nwires iwire g = None).
Proof.
  intros V d. split.
  - intros nw ws g W C. rewrite gen_distribute_is_model. apply distribute_total; assumption.
  - intros nwires iwire g Hn H. rewrite gen_distribute_is_model. apply distribute_refuses; assumption.
Qed.
Print Assumptions C04_distribute_accepts_exactly_distinct_wires.

(** 4. map_particle_to_wire: sum of the sizes of the fields listed earlier + lattice index;
    -1 exactly when the field is not listed; injective; inside the register *)
Theorem C04_particle_to_wire :
  let code_mp2w := fun fields p =>
    mp2w_skel gen_mp2w_hit gen_mp2w_skip gen_mp2w_miss fields (fst p) (snd p) gen_mp2w_init in
  (forall pre f n post idx, ~ In f (map fst pre) ->
     code_mp2w (pre ++ (f, n) :: post) (f, idx) = fsum pre + idx) /\
  (forall fields p, fields_ok fields -> 0 <= snd p -> (forall n, In (fst p, n) fields -> snd p < n) ->
     (code_mp2w fields p = -1 <-> ~ In (fst p) (map fst fields))) /\
  (forall fields p p', fields_ok fields -> particle_ok fields p -> particle_ok fields p' ->
     code_mp2w fields p = code_mp2w fields p' -> p = p') /\
  (forall fields p, fields_ok fields -> particle_ok fields p -> 0 <= code_mp2w fields p < fsum fields).
Proof.
  cbv zeta. repeat split.
  - intros. rewrite gen_mp2w_is_model. apply mp2w_found. assumption.
  - rewrite gen_mp2w_is_model. apply mp2w_absent_iff; assumption.
  - rewrite gen_mp2w_is_model. apply mp2w_absent_iff; assumption.
  - intros fields p p' F P P'. rewrite !gen_mp2w_is_model. apply mp2w_inj; assumption.
  - rewrite gen_mp2w_is_model. apply mp2w_range; assumption.
  - rewrite gen_mp2w_is_model. apply mp2w_range; assumption.
Qed.
Print Assumptions C04_particle_to_wire.

(** 5. Gate.as_circuit_matrix(fields) for a gate bound to distinct particles of listed fields:
    its own matrix on the wires of its particles (first listed particle most significant, wires
    numbered field by field in the order of the field list), identity on every other wire *)
Theorem C04_as_circuit_matrix :
  forall (K : Scalar) (L : ScalarLaws K) fields prtcl (g : csr K) T,
    fields_ok fields -> NoDup prtcl -> Forall (particle_ok fields) prtcl ->
    csr_cols_ok (length prtcl) g ->
    code_as_circuit_matrix s0 fields prtcl g = AcmOk T ->
    let nw := Z.to_nat (fsum fields) in
    forall r c, length r = nw -> length c = nw ->
      triples_entry T r c = embed nw (wires_of fields prtcl) (csr_entry g) r c.
Proof. intros K L fields prtcl g T F N A C H. rewrite code_acm_is_model in H. exact (as_circuit_matrix_entry fields prtcl g T F N A C H). Qed.
Print Assumptions C04_as_circuit_matrix.

(** 5'. the same, about the gate's OWN dense matrix G (what the property text says): scipy's
    csr_matrix(G) (modelled: non-zero entries row-major, indptr = running counts; [nz v = false] only for
    v = 0) is accepted by the funnel - no RuntimeError, no AssertionError - and the register-level matrix
    is [mxl G] itself on the wires of the particles (first listed particle = most significant gate index,
    wires numbered field by field in the order of the field list), identity on every other wire.
    Covers every 2^m x 2^m matrix (dense, non-symmetric, non-unitary), every list of distinct particles in any
    order and adjacency, every list of distinct fields of any sizes. *)
Theorem C04_as_circuit_matrix_own_matrix :
  forall (K : Scalar) (L : ScalarLaws K) (nz : K -> bool), (forall v, nz v = false -> v = s0) ->
  forall fields prtcl (G : list (list K)),
    fields_ok fields -> NoDup prtcl -> Forall (particle_ok fields) prtcl ->
    length G = (2 ^ length prtcl)%nat -> Forall (fun row => length row = (2 ^ length prtcl)%nat) G ->
    let nw := Z.to_nat (fsum fields) in
    exists T, code_as_circuit_matrix s0 fields prtcl (csr_of_dense nz G) = AcmOk T /\
      forall r c, length r = nw -> length c = nw ->
        triples_entry T r c = embed nw (wires_of fields prtcl) (mxl G) r c.
Proof.
  intros K L nz Hnz fields prtcl G F N A HG HR. cbv zeta.
  destruct (as_circuit_matrix_of_dense nz Hnz fields prtcl G F N A HG HR) as [T [HT HE]].
  exists T. split; [rewrite code_acm_is_model; exact HT|exact HE].
Qed.
Print Assumptions C04_as_circuit_matrix_own_matrix.

(** 6. permute_gate_wires u perm = P u P^dagger for the unitary permutation matrix P of perm *)
Theorem C04_permute_gate_wires_is_conjugation :
  forall (K : Scalar) (L : ScalarLaws K) n (u : BMx K) perm, is_perm n perm ->
    let P := pmat (gather (invperm perm)) in
    meq n (permute_skel gen_permute_axes u perm) (mmul n (mmul n P u) (madj P)) /\ unitary n P /\
    (forall r c, length r = n -> length c = n ->
       permute_skel gen_permute_axes u perm r c = u (gather (invperm perm) r) (gather (invperm perm) c)).
Proof.
  intros K L n u perm P. cbv zeta. rewrite gen_permute_is_model.
  destruct (permute_gate_wires_pmat n u perm P) as [A B]. split; [exact A|split; [exact B|]].
  intros r c Hr Hc. apply (permute_gate_wires_conj n u perm P r c Hr Hc).
Qed.
Print Assumptions C04_permute_gate_wires_is_conjugation.

(** 7. the embedding is that wire permutation applied to G (x) 1 *)
Theorem C04_embed_is_permuted_kron :
  forall (K : Scalar) (L : ScalarLaws K) nw ws (G : BMx K), wires_ok nw ws ->
    meq nw (embed nw ws G)
           (permute_skel gen_permute_axes (kron (length ws) G mid) (invperm (wire_order nw ws))).
Proof. intros K L nw ws G W. rewrite gen_permute_is_model. apply embed_is_permute. exact W. Qed.
Print Assumptions C04_embed_is_permuted_kron.

(** 8. corollaries used by C03/C05: embed is multiplicative, commutes with the adjoint, maps 1
    to 1 and unitaries to unitaries *)
Theorem C04_embed_homomorphism :
  forall (K : Scalar) (L : ScalarLaws K) nw ws, wires_ok nw ws ->
    (forall G H : BMx K, meq nw (mmul nw (embed nw ws G) (embed nw ws H)) (embed nw ws (mmul (length ws) G H))) /\
    (forall G : BMx K, meq nw (madj (embed nw ws G)) (embed nw ws (madj G))) /\
    meq nw (embed nw ws (mid (K:=K))) mid /\
    (forall U : BMx K, unitary (length ws) U -> unitary nw (embed nw ws U)).
Proof.
  intros K L nw ws W. repeat split.
  - intros G H. apply embed_mmul. exact W.
  - intros G. apply embed_madj.
  - apply embed_mid. exact W.
  - apply embed_unitary; assumption.
  - apply embed_unitary; assumption.
Qed.
Print Assumptions C04_embed_homomorphism.

(** 9. HISTORIES ON ONE GATE OBJECT.  The statements above make the register-level matrix a function of
    (fields, particles(), as_matrix()) evaluated at the time of the call: every as_circuit_matrix in gates.py is
    "guards; wires of particles(); _distribute_to_wires" with no assignment (checked by the translator:
    [gen_acm_funnel_classes] classes), i.e. the recomputing semantics [trace] of Qib.Embed.ObsModel, for the view
    D (value of the gate object) fields.  Queries may be interleaved with re-binding / re-parametrising the object
    or any object reached through target_gate()/target_gates()[i] ([GSet]), with assignments of gate-valued
    fields ([GSetKid]) and with the caller overwriting a matrix it was handed ([Scribble]).
    For ANY memoising implementation of the same interface whose cache is reset by every such mutation and which
    hands out copies, the caller ends up with exactly the matrices recomputation gives: each query returned the
    matrix of the gate's CURRENT value, matrices handed out earlier were not changed by later calls. *)
Theorem C04_register_matrix_follows_current_state :
  forall (Q V : Type) (qeqb : Q -> Q -> bool), (forall a b, qeqb a b = true -> a = b) ->
  forall (D : gval -> Q -> V) (g : gobj) (es : list (oev gmut Q V)),
    mobs _ _ _ (mrun _ _ _ _ gstep (gview Q V D) qeqb (fun _ => true) false g es)
    = map Some (trace _ _ _ _ gstep (gview Q V D) g [] es).
Proof. intros Q V qeqb Hq D g es. apply gate_observations_current_value. exact Hq. Qed.
Print Assumptions C04_register_matrix_follows_current_state.

(** 9'. conversely: a cache that some view-changing mutation does not reset (e.g. one reset by set_control() but not
    by target_gate().on(...)) returns the matrix of the OLD state on  query; mutate; query  with the same field list;
    and a cache whose cell is handed out itself returns the caller's scribble on  query; scribble; query.
    These two histories, for every mutation of the alphabet, are what checks/C04.py runs on the implementation. *)
Theorem C04_stale_or_aliased_register_matrix_refuted :
  forall (Q V : Type) (qeqb : Q -> Q -> bool) (D : gval -> Q -> V) (inval : gmut -> bool) (g : gobj) (q : Q),
    qeqb q q = true ->
    (forall alias e, inval e = false -> D (erase (gstep g e)) q <> D (erase g) q ->
       mobs _ _ _ (mrun _ _ _ _ gstep (gview Q V D) qeqb inval alias g [Query q; Ev e; Query q])
       <> map Some (trace _ _ _ _ gstep (gview Q V D) g [] [Query q; Ev e; Query q])) /\
    (forall v, v <> D (erase g) q ->
       mobs _ _ _ (mrun _ _ _ _ gstep (gview Q V D) qeqb inval true g [Query q; Scribble 0 v; Query q])
       <> map Some (trace _ _ _ _ gstep (gview Q V D) g [] [Query q; Scribble 0 v; Query q])).
Proof.
  intros Q V qeqb D inval g q Hq. split.
  - intros alias e Hi Hd. apply (gate_cache_not_reset_refuted Q V qeqb D inval alias g e q Hq Hi Hd).
  - intros v Hv. apply (gate_cache_alias_refuted Q V qeqb D inval g q v Hq Hv).
Qed.
Print Assumptions C04_stale_or_aliased_register_matrix_refuted.

(** 10. WHAT identifies a field.  The code tests [p.field == f]; class Field defines no __eq__ (checked by the
    translator: gen/embed.py check_field_identity), so this is object identity - the distinct field ids of the model,
    also for two Field objects on one lattice object, and a field listed twice is found at its first occurrence
    (theorem 4, first clause: only the fields listed EARLIER must differ).  Were fields compared through some
    [key] (a logical equality on particle type / lattice / local dimension), the same loop would give the same wires
    exactly as long as no listed field shares its key with the particle's field; with two distinct fields on one
    lattice it resolves the particle of the second to a wire of the first. *)
Theorem C04_fields_are_compared_by_identity :
  let code_mp2w := fun fields p =>
    mp2w_skel gen_mp2w_hit gen_mp2w_skip gen_mp2w_miss fields (fst p) (snd p) gen_mp2w_init in
  (forall key fields p, (forall f, In f (map fst fields) -> key f = key (fst p) -> f = fst p) ->
     code_mp2w (rekey key fields) (key (fst p), snd p) = code_mp2w fields p) /\
  (exists key fields p, fields_ok fields /\ particle_ok fields p /\
     code_mp2w (rekey key fields) (key (fst p), snd p) <> code_mp2w fields p /\
     particle_ok fields (0, code_mp2w (rekey key fields) (key (fst p), snd p))).
Proof.
  cbv zeta. split.
  - intros key fields p H. rewrite !gen_mp2w_is_model. apply (mp2w_by_separating key fields p H).
  - destruct mp2w_coarse_equality_refuted as [key [fields [p [F [P [_ [N W]]]]]]].
    unfold mp2w_by in N, W. exists key, fields, p. rewrite !gen_mp2w_is_model.
    split; [exact F|split; [exact P|split; [exact N|exact W]]].
Qed.
Print Assumptions C04_fields_are_compared_by_identity.

(** 11. memory layout of the argument of permute_gate_wires.  Theorem 6 is about numpy's default (order='C') reshape,
    which reads the logical row-major index order whatever the memory layout ([np_mat_to_tensor]; the translator
    requires the reshape calls without an order argument).  Reading a Fortran-contiguous argument (u.T, u.conj().T,
    np.asfortranarray(u)) in memory order instead - what order='A' does - is a different function: for the exchange
    of two wires it returns the argument itself. *)
Theorem C04_permute_reading_memory_order_refuted :
  (forall (K : Scalar) (u : BMx K) r c, length r = 2%nat -> length c = 2%nat ->
     permute_gate_wires_F u [1%nat; 0%nat] r c = u r c) /\
  (exists (u : BMx ZI) perm, is_perm 2 perm /\
     dense 2 (permute_gate_wires_F u perm) <> dense 2 (permute_skel gen_permute_axes u perm) /\
     dense 2 (permute_skel gen_permute_axes u perm)
     = dense 2 (fun r c => u (gather (invperm perm) r) (gather (invperm perm) c))).
Proof.
  split.
  - intros K u r c Hr Hc. apply permute_fortran_swap_is_identity; assumption.
  - destruct permute_fortran_refuted as [u [perm [P [N E]]]]. exists u, perm.
    rewrite gen_permute_is_model. split; [exact P|split; [exact N|exact E]].
Qed.
Print Assumptions C04_permute_reading_memory_order_refuted.

(** non-vacuity of 9/9': a controlled gate object (id 0) with target object (id 1); moving the target (GSet [0])
    changes the value the matrix is a function of, and does not change it when the path leads nowhere *)
Example C04_instance_history :
  let g := GObj 0 7 [1; 5]%Z [GObj 1 2 [6]%Z []] in
  erase (gstep g (GSet [0%nat] [9]%Z)) = GVal 7 [1; 5]%Z [GVal 2 [9]%Z []] /\
  erase (gstep g (GSet [] [0; 5]%Z)) = GVal 7 [0; 5]%Z [GVal 2 [6]%Z []] /\
  gstep g (GSet [3%nat] [9]%Z) = g.
Proof. repeat split. Qed.

(** non-vacuity: a dense non-symmetric 2-wire gate on wires (3, 1) of a 4-wire register, through
    the regenerated function, agrees entrywise with the specification *)
Example C04_instance :
  let G : list (list ZI) := [[(1,0);(2,1);(0,-1);(3,0)]; [(0,2);(1,1);(5,0);(0,0)];
                             [(7,0);(0,0);(1,-3);(2,2)]; [(0,1);(4,0);(0,0);(1,0)]] in
  let g := csr_of_dense (fun v : ZI => negb (zi_eqb v (0,0))) G in
  wires_ok 4 [3%nat; 1%nat] /\ csr_canonical 2 g /\
  match gen_distribute (V:=ZI) (0,0) 4 [3; 1] g with
  | Some T => length T = 52%nat /\
              dense 4 (triples_entry (K:=ZI) T) = dense 4 (embed (K:=ZI) 4 [3%nat; 1%nat] (mxl (K:=ZI) G))
  | None => False
  end.
Proof.
  cbv zeta. split; [|split].
  - split; [repeat constructor; cbn; intuition lia|]. intros w [<-|[<-|[]]]; lia.
  - split; vm_compute; reflexivity.
  - vm_compute. split; reflexivity.
Qed.

(** non-vacuity of 5': fields listed as [(id 1, 2 sites); (id 0, 3 sites)], a dense non-symmetric 2-wire gate on
    particles (field 0, index 1) and (field 1, index 1): wires (3, 1) of the 5-wire register *)
Example C04_instance_fields :
  let G : list (list ZI) := [[(1,0);(2,1);(0,-1);(3,0)]; [(0,2);(1,1);(5,0);(0,0)];
                             [(7,0);(0,0);(1,-3);(2,2)]; [(0,1);(4,0);(0,0);(1,0)]] in
  let fields := [(1, 2); (0, 3)] in
  let prtcl := [(0, 1); (1, 1)] in
  wires_of fields prtcl = [3%nat; 1%nat] /\
  match code_as_circuit_matrix (V:=ZI) (0,0) fields prtcl (csr_of_dense (fun v : ZI => negb (zi_eqb v (0,0))) G) with
  | AcmOk T => dense 5 (triples_entry (K:=ZI) T) = dense 5 (embed (K:=ZI) 5 [3%nat; 1%nat] (mxl (K:=ZI) G))
  | _ => False
  end.
Proof. cbv zeta. split; vm_compute; reflexivity. Qed.
