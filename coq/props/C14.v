(** C14 - lattices: index/coordinate maps are inverse; adjacency = nearest neighbours.

    [Run.GenLattice] is regenerated from /repo/src/qib/lattice/*.py on every run (gen/lattice.py).
    Part 1 proves that every regenerated function equals the corresponding function of the
    hand-written model (Qib.Lattice.LatModel); the adjacency constructions themselves are the
    hand-written model, tied to the code by the exhaustive correspondence run.
    Part 2 states the property theorems about the regenerated functions. *)
From Qib Require Import Lattice.LatModel Lattice.LatBase Lattice.LatInt Lattice.LatMisc Lattice.LatOfc Lattice.LatTri Lattice.LatBrick Lattice.LatBrickAdj.
From Run Require Import GenLattice.
Local Open Scope Z_scope.

(** * Part 1: the code's formulas are the model's formulas *)
Ltac zb := repeat match goal with
  | H : (_ =? _) = true |- _ => apply Z.eqb_eq in H
  | H : (_ =? _) = false |- _ => apply Z.eqb_neq in H
  | H : (_ <? _) = true |- _ => apply Z.ltb_lt in H
  | H : (_ <? _) = false |- _ => apply Z.ltb_ge in H
  | H : (_ <=? _) = true |- _ => apply Z.leb_le in H
  | H : (_ <=? _) = false |- _ => apply Z.leb_gt in H end.
Ltac atoms := repeat (match goal with
  | |- context [?a =? ?b] => destruct (a =? b) eqn:?
  | |- context [?a <? ?b] => destruct (a <? b) eqn:?
  | |- context [?a <=? ?b] => destruct (a <=? b) eqn:?
  end; cbn [andb orb negb]).
Ltac leaf := first [reflexivity | lia | (exfalso; zb; lia) | (progress f_equal; leaf)].
Ltac bridge := intros; cbv beta zeta; cbn [andb orb negb]; atoms; leaf.

Lemma br_shape_square up s0 s1 : gen_brick_shape_square up s0 s1 = brick_sq up s0 s1.
Proof. unfold gen_brick_shape_square, brick_sq. destruct up; bridge. Qed.

Lemma br_nsites up del s0 s1 : gen_brick_nsites up del s0 s1 = brick_nsites up del s0 s1.
Proof. unfold gen_brick_nsites, brick_nsites, brick_extra. destruct up, del; bridge. Qed.

Lemma br_i2c up del s0 s1 i : gen_brick_index_to_coord up del s0 s1 i = brick_index_to_coord up del s0 s1 i.
Proof.
  unfold gen_brick_index_to_coord, brick_index_to_coord, brick_shift_i.
  rewrite br_shape_square, br_nsites. destruct (brick_sq up s0 s1) as [q0 q1].
  destruct up, del; bridge.
Qed.

Lemma br_c2i up del s0 s1 c0 c1 : gen_brick_coord_to_index up del s0 s1 c0 c1 = brick_coord_to_index up del s0 s1 c0 c1.
Proof.
  unfold gen_brick_coord_to_index, brick_coord_to_index.
  rewrite br_shape_square. destruct (brick_sq up s0 s1) as [q0 q1].
  destruct up, del; bridge.
Qed.

(* equal up to arithmetic: descend through equal heads, close leaves with lia *)
Ltac deq := first [ reflexivity | lia |
  match goal with
  | |- ?f ?a = ?f ?b => apply (f_equal f); deq
  | |- ?f ?a ?b = ?f ?c ?d => apply (f_equal2 f); deq
  end ].

Ltac Zify.zify_post_hook ::= Z.to_euclidean_division_equations.
Lemma br_dsq_psc up s0 s1 :
  gen_brick_dsq_psc up s0 s1 = (Z.of_nat (brick_dsquare up), brick_psc up s0 s1).
Proof.
  unfold gen_brick_dsq_psc, brick_dsquare, brick_psc.
  destruct up; cbv zeta; (apply f_equal2; [first [reflexivity | cbn; lia] | first [reflexivity | bridge]]).
Qed.
Ltac Zify.zify_post_hook ::= idtac.

Lemma br_keep_link psc q1 s i : gen_brick_keep_link psc q1 s i = brick_keep_link psc q1 s i.
Proof. unfold gen_brick_keep_link, brick_keep_link. destruct psc; bridge. Qed.

Lemma br_delpos up s0 s1 : gen_brick_delete_positions up s0 s1 = brick_delete_positions up s0 s1.
Proof.
  unfold gen_brick_delete_positions, brick_delete_positions. rewrite br_shape_square.
  destruct (brick_sq up s0 s1) as [q0 q1]. destruct up; bridge.
Qed.

Lemma br_dispos up s0 s1 : gen_brick_disconnect_positions up s0 s1 = brick_disconnect_positions up s0 s1.
Proof.
  unfold gen_brick_disconnect_positions, brick_disconnect_positions. rewrite br_shape_square.
  destruct (brick_sq up s0 s1) as [q0 q1]. destruct up; bridge.
Qed.

(* box classes *)
Lemma br_int_ns sh : gen_int_nsites sh = zprod sh. Proof. reflexivity. Qed.
Lemma br_int_i2c sh i : gen_int_index_to_coord sh i = box_index_to_coord sh i. Proof. reflexivity. Qed.
Lemma br_int_c2i sh c : gen_int_coord_to_index sh c = box_coord_to_index sh c. Proof. reflexivity. Qed.
Lemma br_tri_ns sh : gen_tri_nsites sh = zprod sh. Proof. reflexivity. Qed.
Lemma br_tri_i2c sh i : gen_tri_index_to_coord sh i = box_index_to_coord sh i. Proof. reflexivity. Qed.
Lemma br_tri_c2i sh c : gen_tri_coord_to_index sh c = box_coord_to_index sh c. Proof. reflexivity. Qed.
Lemma br_full_ns sh : gen_full_nsites sh = zprod sh. Proof. reflexivity. Qed.
Lemma br_full_i2c sh i : gen_full_index_to_coord sh i = box_index_to_coord sh i. Proof. reflexivity. Qed.
Lemma br_full_c2i sh c : gen_full_coord_to_index sh c = box_coord_to_index sh c. Proof. reflexivity. Qed.
Lemma br_custom_ns sh : gen_custom_nsites sh = zprod sh. Proof. reflexivity. Qed.
Lemma br_custom_i2c sh i : gen_custom_index_to_coord sh i = box_index_to_coord sh i. Proof. reflexivity. Qed.
Lemma br_custom_c2i sh c : gen_custom_coord_to_index sh c = box_coord_to_index sh c. Proof. reflexivity. Qed.

(* odd-face-centred *)
Lemma br_ofc_ctor s0 s1 p0 p1 : gen_ofc_ctor_ok s0 s1 p0 p1 = ofc_ctor_ok s0 s1 p0 p1. Proof. reflexivity. Qed.
Lemma br_ofc_ns s0 s1 : gen_ofc_nsites s0 s1 = ofc_nsites s0 s1. Proof. reflexivity. Qed.
Lemma br_ofc_i2c s0 s1 i : gen_ofc_index_to_coord s0 s1 i = ofc_index_to_coord s0 s1 i.
Proof.
  unfold gen_ofc_index_to_coord, ofc_index_to_coord, ofc_face_y, ofc_face_x. cbv zeta.
  destruct (i <? s0 * s1); [reflexivity|]. change (2 =? 2) with true. cbv iota.
  deq.
Qed.
Lemma br_ofc_f2i s0 s1 x y : gen_ofc_face_to_index s0 s1 x y = ofc_face_to_index s0 s1 x y.
Proof. reflexivity. Qed.
Lemma br_ofc_edge s0 s1 ix iy jx jy : gen_ofc_edge_to_face s0 s1 ix iy jx jy = ofc_edge_to_face s0 s1 ix iy jx jy.
Proof. unfold gen_ofc_edge_to_face, ofc_edge_to_face. bridge. Qed.
Lemma br_ofc_skip x y : gen_ofc_skip x y = ((x + y) mod 2 =? 1). Proof. reflexivity. Qed.
Lemma br_ofc_corners s1 x y : gen_ofc_corners s1 x y = ofc_corners s1 x y. Proof. reflexivity. Qed.

(* hexagonal *)
Ltac Zify.zify_post_hook ::= Z.to_euclidean_division_equations.
Lemma br_hex_ns s0 s1 : gen_hex_nsites s0 s1 = hex_nsites s0 s1. Proof. reflexivity. Qed.
Lemma br_hex_pos up r c : gen_hex_pos up r c = hex_pos up r c.
Proof. unfold gen_hex_pos, hex_pos, hex_long. destruct up; bridge. Qed.
Lemma br_hex_unpos_up a b : gen_hex_unpos_up a b = option_map (fun c => (a, c)) (hex_unlong a b).
Proof. unfold gen_hex_unpos_up, hex_unlong. bridge. Qed.
Lemma br_hex_unpos_left a b : gen_hex_unpos_left a b = option_map (fun r => (r, b)) (hex_unlong b a).
Proof. unfold gen_hex_unpos_left, hex_unlong. bridge. Qed.

(** * Part 2: the property *)

(** ** box-shaped classes: IntegerLattice, TriangularLattice, FullyConnectedLattice, CustomizedLattice
    (their nsites / index_to_coord / coord_to_index are regenerated separately and coincide) *)
Definition box_class (ns : list Z -> Z) (i2c : list Z -> Z -> option coord) (c2i : list Z -> coord -> option Z) : Prop :=
  forall sh, pos_shape sh ->
    (forall i, 0 <= i < ns sh ->
       exists c, i2c sh i = Some c /\ valid sh c /\ c2i sh c = Some i) /\
    (forall i j c, i2c sh i = Some c -> i2c sh j = Some c -> i = j) /\
    (forall c, valid sh c -> exists i, c2i sh c = Some i /\ 0 <= i < ns sh /\ i2c sh i = Some c).

Lemma box_class_model : box_class zprod box_index_to_coord box_coord_to_index.
Proof.
  intros sh P. split; [|split].
  - intros i H. apply box_roundtrip; assumption.
  - intros i j c. apply box_coord_injective; assumption.
  - intros c V. apply box_coord_roundtrip; assumption.
Qed.

(** index -> coordinate -> index is the identity, coordinates are injective (and onto the box),
    for every number of axes and all positive extents *)
Theorem C14_box_index_maps_inverse :
  box_class gen_int_nsites gen_int_index_to_coord gen_int_coord_to_index /\
  box_class gen_tri_nsites gen_tri_index_to_coord gen_tri_coord_to_index /\
  box_class gen_full_nsites gen_full_index_to_coord gen_full_coord_to_index /\
  box_class gen_custom_nsites gen_custom_index_to_coord gen_custom_coord_to_index.
Proof. split; [|split; [|split]]; exact box_class_model. Qed.
Print Assumptions C14_box_index_maps_inverse.

(** ** IntegerLattice: the ones of the adjacency matrix are exactly the unit steps along one axis,
    wrapping iff the axis is periodic, between distinct sites; all n, all extents, all boundary flags *)
Theorem C14_integer_adjacency_is_nearest_neighbours :
  forall sh pbc i j c c', pos_shape sh ->
    0 <= i -> 0 <= j -> gen_int_index_to_coord sh i = Some c -> gen_int_index_to_coord sh j = Some c' ->
    (In (i, j) (int_pairs sh pbc) <-> nn_int sh pbc c c').
Proof.
  intros sh pbc i j c c' P Hi Hj Ei Ej. rewrite br_int_i2c in Ei, Ej.
  unfold box_index_to_coord, np_unravel in Ei, Ej.
  destruct (i <? zprod sh) eqn:E1; [|discriminate]. destruct (j <? zprod sh) eqn:E2; [|discriminate].
  replace (0 <=? i) with true in Ei by lia. replace (0 <=? j) with true in Ej by lia.
  cbn [andb] in Ei, Ej. injection Ei as <-. injection Ej as <-.
  apply int_adjacency_iff; try assumption; lia.
Qed.
Print Assumptions C14_integer_adjacency_is_nearest_neighbours.

(** nsites x nsites, symmetric, zero diagonal (0/1 holds by construction: the matrix is a set of pairs) *)
Theorem C14_integer_adjacency_matrix_shape :
  forall sh pbc,
    (forall i j, In (i, j) (int_pairs sh pbc) -> 0 <= i < gen_int_nsites sh /\ 0 <= j < gen_int_nsites sh) /\
    (forall i j, In (i, j) (int_pairs sh pbc) -> In (j, i) (int_pairs sh pbc)) /\
    (forall i, ~ In (i, i) (int_pairs sh pbc)).
Proof.
  intros sh pbc. split; [|split].
  - intros i j H. apply (int_pairs_in_range true sh pbc). exact H.
  - apply int_adjacency_symmetric.
  - apply int_adjacency_irreflexive.
Qed.
Print Assumptions C14_integer_adjacency_matrix_shape.

(** ** FullyConnectedLattice: all pairs of distinct sites *)
Theorem C14_fully_connected_adjacency :
  forall sh i j, In (i, j) (full_pairs (gen_full_nsites sh)) <->
                 0 <= i < gen_full_nsites sh /\ 0 <= j < gen_full_nsites sh /\ i <> j.
Proof. intros. apply full_pairs_iff. Qed.
Print Assumptions C14_fully_connected_adjacency.

(** ** LayeredLattice over any base lattice with an nsites x nsites adjacency matrix:
    base adjacency within a layer, same-site links between any two different layers *)
Theorem C14_layered_adjacency :
  forall nl bn base, 0 < bn -> (forall i j, In (i, j) base -> 0 <= i < bn /\ 0 <= j < bn) ->
    let N := gen_layer_nsites nl bn in
    (forall I J, 0 <= I < N -> 0 <= J < N ->
       (In (I, J) (layered_pairs nl bn base) <->
        (I / bn = J / bn /\ In (I mod bn, J mod bn) base) \/ (I / bn <> J / bn /\ I mod bn = J mod bn))) /\
    (forall I J, In (I, J) (layered_pairs nl bn base) -> 0 <= I < N /\ 0 <= J < N) /\
    ((forall i j, In (i, j) base -> In (j, i) base) ->
       forall I J, In (I, J) (layered_pairs nl bn base) -> In (J, I) (layered_pairs nl bn base)) /\
    ((forall i, ~ In (i, i) base) -> forall I, ~ In (I, I) (layered_pairs nl bn base)).
Proof.
  intros nl bn base Hbn R. cbv zeta. unfold gen_layer_nsites. split; [|split; [|split]].
  - intros I J HI HJ. apply layered_adjacency_iff; assumption.
  - intros I J H. eapply layered_in_range; eauto.
  - apply layered_symmetric; assumption.
  - intros Irr I. apply layered_irreflexive; assumption.
Qed.
Print Assumptions C14_layered_adjacency.

(** layered index maps: (layer, base coordinate) <-> layer * bn + base index *)
Theorem C14_layered_index_maps_inverse :
  forall nl bn (bi2c : Z -> option coord) (bc2i : coord -> option (option Z)),
    0 < bn ->
    (forall k, 0 <= k < bn -> exists c, bi2c k = Some c /\ bc2i c = Some (Some k)) ->
    forall i, 0 <= i < gen_layer_nsites nl bn ->
      exists c, gen_layer_index_to_coord nl bn bi2c i = Some c /\
                gen_layer_coord_to_index nl bn bc2i c = Some (Some i).
Proof.
  intros nl bn bi2c bc2i Hbn RT i Hi. unfold gen_layer_nsites in Hi.
  assert (B : 0 <= i mod bn < bn) by (apply Z.mod_pos_bound; lia).
  destruct (RT _ B) as [c [E1 E2]]. exists (i / bn :: c).
  unfold gen_layer_index_to_coord, gen_layer_coord_to_index, gen_layer_nsites.
  replace (i <? nl * bn) with true by lia. rewrite E1. cbn [option_map]. split; [reflexivity|].
  assert (Q : i / bn < nl) by (apply Z.div_lt_upper_bound; lia).
  replace (i / bn <? nl) with true by lia. rewrite E2.
  pose proof (Z.div_mod i bn). do 2 f_equal. lia.
Qed.
Print Assumptions C14_layered_index_maps_inverse.

(** ** CustomizedLattice: an accepted matrix is n x n, symmetric, has a zero diagonal, and the
    adjacency is its non-zero pattern *)
Theorem C14_customized_adjacency :
  forall sh m ps, custom_ctor sh m = Some ps ->
    (forall i j, In (i, j) ps <->
       0 <= i < gen_custom_nsites sh /\ 0 <= j < gen_custom_nsites sh /\ mat_get m (Z.to_nat i) (Z.to_nat j) <> 0) /\
    (forall i j, In (i, j) ps -> In (j, i) ps) /\
    (forall i, ~ In (i, i) ps).
Proof.
  intros sh m ps A. split; [|split].
  - intros i j. apply (custom_iff sh m ps A).
  - apply (custom_symmetric sh m ps A).
  - apply (custom_irreflexive sh m ps A).
Qed.
Print Assumptions C14_customized_adjacency.

(** ** TriangularLattice (<= 2 axes; with the proposed repair): axis links plus the (1,1) chord,
    every axis wrapping iff it is periodic *)
Theorem C14_triangular_adjacency_is_nearest_neighbours :
  forall sh pbc i j c c', (length sh <= 2)%nat -> length pbc = length sh -> pos_shape sh ->
    0 <= i -> 0 <= j -> gen_tri_index_to_coord sh i = Some c -> gen_tri_index_to_coord sh j = Some c' ->
    (In (i, j) (tri_pairs sh pbc) <-> nn_tri sh pbc c c').
Proof.
  intros sh pbc i j c c' L Lp P Hi Hj Ei Ej. rewrite br_tri_i2c in Ei, Ej.
  unfold box_index_to_coord, np_unravel in Ei, Ej.
  destruct (i <? zprod sh) eqn:E1; [|discriminate]. destruct (j <? zprod sh) eqn:E2; [|discriminate].
  replace (0 <=? i) with true in Ei by lia. replace (0 <=? j) with true in Ej by lia.
  cbn [andb] in Ei, Ej. injection Ei as <-. injection Ej as <-.
  apply tri_adjacency_iff; try assumption; lia.
Qed.
Print Assumptions C14_triangular_adjacency_is_nearest_neighbours.

Theorem C14_triangular_adjacency_matrix_shape :
  forall sh pbc, (length sh <= 2)%nat -> length pbc = length sh -> pos_shape sh ->
    (forall i j, In (i, j) (tri_pairs sh pbc) -> 0 <= i < gen_tri_nsites sh /\ 0 <= j < gen_tri_nsites sh) /\
    (forall i j, In (i, j) (tri_pairs sh pbc) -> In (j, i) (tri_pairs sh pbc)) /\
    (forall i, ~ In (i, i) (tri_pairs sh pbc)).
Proof.
  intros sh pbc L Lp P. split; [|split].
  - intros i j H. exact (tri_pairs_in_range sh pbc i j L Lp H).
  - intros i j. apply tri_adjacency_symmetric; assumption.
  - intros i. apply tri_adjacency_irreflexive; assumption.
Qed.
Print Assumptions C14_triangular_adjacency_matrix_shape.

(** ** OddFaceCenteredLattice.  Coordinates are DOUBLED: vertex (x,y) -> [2x;2y], centre (x+.5,y+.5) -> [2x+1;2y+1].
    [code_ofc_coord_to_index] is the dtype dispatch of coord_to_index over the regenerated branches. *)
Definition code_ofc_coord_to_index (s0 s1 : Z) (c2 : coord) : option Z :=
  if forallb Z.even c2 then gen_ofc_vertex_to_index s0 s1 (map (fun v => v / 2) c2)
  else match c2 with
       | [a; b] => if Z.odd a && Z.odd b then gen_ofc_face_to_index s0 s1 ((a - 1) / 2) ((b - 1) / 2) else None
       | _ => None
       end.
Lemma br_ofc_c2i s0 s1 c : code_ofc_coord_to_index s0 s1 c = ofc_coord_to_index s0 s1 c.
Proof. reflexivity. Qed.

(** the face loop as assembled from the regenerated skip test and corner list *)
Definition code_ofc_face_step (s1 : Z) (st : Z * list ipair) (f : coord) : Z * list ipair :=
  let x := nth 0 f 0 in let y := nth 1 f 0 in
  if gen_ofc_skip x y then st
  else (fst st + 1, snd st ++ flat_map (fun j => [(fst st, j); (j, fst st)]) (gen_ofc_corners s1 x y)).
Lemma br_ofc_face_step s1 st f : code_ofc_face_step s1 st f = ofc_face_step s1 st f.
Proof. reflexivity. Qed.

Theorem C14_oddface_index_maps_inverse :
  forall s0 s1, 1 <= s0 -> 1 <= s1 ->
    (forall i, 0 <= i < gen_ofc_nsites s0 s1 ->
       exists c, gen_ofc_index_to_coord s0 s1 i = Some c /\ code_ofc_coord_to_index s0 s1 c = Some i) /\
    (forall i j c, 0 <= i < gen_ofc_nsites s0 s1 -> 0 <= j < gen_ofc_nsites s0 s1 ->
       gen_ofc_index_to_coord s0 s1 i = Some c -> gen_ofc_index_to_coord s0 s1 j = Some c -> i = j).
Proof.
  intros s0 s1 H0 H1. split.
  - intros i Hi. rewrite br_ofc_ns in Hi. destruct (ofc_roundtrip s0 s1 i H0 H1 Hi) as [c [E1 E2]].
    exists c. rewrite br_ofc_i2c, br_ofc_c2i. auto.
  - intros i j c Hi Hj. rewrite br_ofc_ns in Hi, Hj. rewrite !br_ofc_i2c. apply ofc_coord_injective; assumption.
Qed.
Print Assumptions C14_oddface_index_maps_inverse.

(** ones = unit steps between vertices (wrapping on periodic axes) + each face centre with its four corners *)
Theorem C14_oddface_adjacency_is_nearest_neighbours :
  forall s0 s1 p0 p1 i j c c', 1 <= s0 -> 1 <= s1 -> gen_ofc_ctor_ok s0 s1 p0 p1 = true ->
    0 <= i < gen_ofc_nsites s0 s1 -> 0 <= j < gen_ofc_nsites s0 s1 ->
    gen_ofc_index_to_coord s0 s1 i = Some c -> gen_ofc_index_to_coord s0 s1 j = Some c' ->
    (In (i, j) (ofc_pairs s0 s1 p0 p1) <-> nn_ofc s0 s1 p0 p1 c c').
Proof.
  intros s0 s1 p0 p1 i j c c' H0 H1 C Hi Hj Ei Ej.
  rewrite br_ofc_ctor in C. rewrite br_ofc_ns in Hi, Hj. rewrite br_ofc_i2c in Ei, Ej.
  apply ofc_adjacency_iff; assumption.
Qed.
Print Assumptions C14_oddface_adjacency_is_nearest_neighbours.

Theorem C14_oddface_adjacency_matrix_shape :
  forall s0 s1 p0 p1, 1 <= s0 -> 1 <= s1 -> gen_ofc_ctor_ok s0 s1 p0 p1 = true ->
    (forall i j, In (i, j) (ofc_pairs s0 s1 p0 p1) -> 0 <= i < gen_ofc_nsites s0 s1 /\ 0 <= j < gen_ofc_nsites s0 s1) /\
    (forall i j, In (i, j) (ofc_pairs s0 s1 p0 p1) -> In (j, i) (ofc_pairs s0 s1 p0 p1)) /\
    (forall i, ~ In (i, i) (ofc_pairs s0 s1 p0 p1)).
Proof.
  intros s0 s1 p0 p1 H0 H1 C. rewrite br_ofc_ctor in C. split; [|split].
  - intros i j. rewrite br_ofc_ns. apply ofc_pairs_in_range; assumption.
  - intros i j. apply ofc_adjacency_symmetric; assumption.
  - intros i. apply ofc_adjacency_irreflexive; assumption.
Qed.
Print Assumptions C14_oddface_adjacency_matrix_shape.

(** edge_to_odd_face_index returns the index of the odd face whose corners contain both end points, -1 if none *)
Theorem C14_oddface_edge_to_face :
  forall s0 s1 ix iy jx jy, 1 <= s0 -> 1 <= s1 ->
    0 <= ix < s0 -> 0 <= iy < s1 -> 0 <= jx < s0 -> 0 <= jy < s1 ->
    (ix = jx /\ Z.abs (iy - jy) = 1) \/ (iy = jy /\ Z.abs (ix - jx) = 1) ->
    exists r, gen_ofc_edge_to_face s0 s1 ix iy jx jy = Some r /\
      ((r = -1 /\ forall x y, 0 <= x < s0 - 1 -> 0 <= y < s1 - 1 -> (x + y) mod 2 = 0 ->
                    ~ ((ix = x \/ ix = x + 1) /\ (iy = y \/ iy = y + 1) /\ (jx = x \/ jx = x + 1) /\ (jy = y \/ jy = y + 1))) \/
       (exists x y, 0 <= x < s0 - 1 /\ 0 <= y < s1 - 1 /\ (x + y) mod 2 = 0 /\
                    gen_ofc_face_to_index s0 s1 x y = Some r /\
                    (ix = x \/ ix = x + 1) /\ (iy = y \/ iy = y + 1) /\ (jx = x \/ jx = x + 1) /\ (jy = y \/ jy = y + 1))).
Proof.
  intros. rewrite br_ofc_edge. apply ofc_edge_to_face_spec; assumption.
Qed.
Print Assumptions C14_oddface_edge_to_face.

(** ** BrickLattice / HexagonalLattice, both conventions ([up] = COLS_SHIFTED_UP), delete on/off.
    [code_brick_adj] is the adjacency construction assembled from the regenerated pieces
    (shape_square, d_square, parity_shift_condition, link filter, removed / zeroed positions). *)
Definition code_brick_sq_pairs (up : bool) (s0 s1 : Z) : list ipair :=
  let '(q0, q1) := gen_brick_shape_square up s0 s1 in
  let '(dsq, psc) := gen_brick_dsq_psc up s0 s1 in
  flat_map (fun d =>
    flat_map (fun s =>
      let ps := axis_pairs [q0; q1] false d s in
      if Z.of_nat d =? dsq then ps else filter (fun p => gen_brick_keep_link psc q1 s (fst p)) ps) shifts)
    (seq 0 2).
Definition code_brick_adj (up del : bool) (s0 s1 : Z) : amat :=
  let '(q0, q1) := gen_brick_shape_square up s0 s1 in
  let a := (q0 * q1, code_brick_sq_pairs up s0 s1) in
  if del then fold_left (fun a p => np_delete_rc p a) (gen_brick_delete_positions up s0 s1) a
  else fold_left (fun a p => np_zero_rc p a) (gen_brick_disconnect_positions up s0 s1) a.

Lemma br_brick_sq_pairs up s0 s1 : code_brick_sq_pairs up s0 s1 = brick_sq_pairs up s0 s1.
Proof.
  unfold code_brick_sq_pairs, brick_sq_pairs. rewrite br_shape_square, br_dsq_psc.
  destruct (brick_sq up s0 s1) as [q0 q1].
  apply flat_map_ext. intros d. apply flat_map_ext. intros s.
  replace (Z.of_nat d =? Z.of_nat (brick_dsquare up)) with (Nat.eqb d (brick_dsquare up)).
  - destruct (Nat.eqb d (brick_dsquare up)); [reflexivity|]. apply filter_ext. intros p. apply br_keep_link.
  - destruct (Nat.eqb d (brick_dsquare up)) eqn:E; symmetry.
    + apply Nat.eqb_eq in E. apply Z.eqb_eq. lia.
    + apply Nat.eqb_neq in E. apply Z.eqb_neq. lia.
Qed.

Lemma br_brick_adj up del s0 s1 : code_brick_adj up del s0 s1 = brick_adj up del s0 s1.
Proof.
  unfold code_brick_adj, brick_adj, brick_delete_extra, brick_disconnect_extra.
  rewrite br_shape_square, br_brick_sq_pairs, br_delpos, br_dispos. reflexivity.
Qed.

(** hexagonal index maps assembled from the regenerated pieces; a position is [k; 2y] (COLS_SHIFTED_UP,
    x = k sqrt3/2) resp. [2x; k] (ROWS_SHIFTED_LEFT, y = k sqrt3/2) *)
Definition code_hex_index_to_coord (up : bool) (s0 s1 i : Z) : option coord :=
  match gen_brick_index_to_coord up true s0 s1 i with
  | Some [r; c] => Some (gen_hex_pos up r c)
  | _ => None
  end.
Definition code_hex_coord_to_index (up : bool) (s0 s1 a b : Z) : option (option Z) :=
  match (if up then gen_hex_unpos_up a b else gen_hex_unpos_left a b) with
  | Some (r, c) => gen_brick_coord_to_index up true s0 s1 r c
  | None => None
  end.
Lemma br_hex_i2c up s0 s1 i : code_hex_index_to_coord up s0 s1 i = hex_index_to_coord up s0 s1 i.
Proof.
  unfold code_hex_index_to_coord, hex_index_to_coord. rewrite br_i2c.
  destruct (brick_index_to_coord up true s0 s1 i) as [[|r [|c [|? ?]]]|]; try reflexivity. rewrite br_hex_pos. reflexivity.
Qed.
Lemma br_hex_c2i up s0 s1 a b : code_hex_coord_to_index up s0 s1 a b = hex_coord_to_index up s0 s1 a b.
Proof.
  unfold code_hex_coord_to_index, hex_coord_to_index. destruct up.
  - rewrite br_hex_unpos_up. destruct (hex_unlong a b); cbn [option_map]; [apply br_c2i|reflexivity].
  - rewrite br_hex_unpos_left. destruct (hex_unlong b a); cbn [option_map]; [apply br_c2i|reflexivity].
Qed.

Theorem C14_brick_index_maps_inverse :
  forall up del s0 s1, 1 <= s0 -> 1 <= s1 ->
    (forall i, 0 <= i < gen_brick_nsites up del s0 s1 ->
       exists r c, gen_brick_index_to_coord up del s0 s1 i = Some [r; c] /\
                   gen_brick_coord_to_index up del s0 s1 r c = Some (Some i)) /\
    (forall i j p, 0 <= i < gen_brick_nsites up del s0 s1 -> 0 <= j < gen_brick_nsites up del s0 s1 ->
       gen_brick_index_to_coord up del s0 s1 i = Some p -> gen_brick_index_to_coord up del s0 s1 j = Some p -> i = j).
Proof.
  intros up del s0 s1 H0 H1. split.
  - intros i Hi. rewrite br_nsites in Hi. destruct (brick_roundtrip up del s0 s1 i H0 H1 Hi) as [r [c [E1 [E2 _]]]].
    exists r, c. rewrite br_i2c, br_c2i. auto.
  - intros i j p Hi Hj. rewrite br_nsites in Hi, Hj. rewrite !br_i2c. apply brick_coord_injective; assumption.
Qed.
Print Assumptions C14_brick_index_maps_inverse.

Theorem C14_hexagonal_index_maps_inverse :
  forall up s0 s1, 1 <= s0 -> 1 <= s1 ->
    (forall i, 0 <= i < gen_hex_nsites s0 s1 ->
       exists a b, code_hex_index_to_coord up s0 s1 i = Some [a; b] /\
                   code_hex_coord_to_index up s0 s1 a b = Some (Some i)) /\
    (forall i j p, 0 <= i < gen_hex_nsites s0 s1 -> 0 <= j < gen_hex_nsites s0 s1 ->
       code_hex_index_to_coord up s0 s1 i = Some p -> code_hex_index_to_coord up s0 s1 j = Some p -> i = j).
Proof.
  intros up s0 s1 H0 H1. split.
  - intros i Hi. rewrite br_hex_ns in Hi. destruct (hex_roundtrip up s0 s1 i H0 H1 Hi) as [a [b [E1 E2]]].
    exists a, b. rewrite br_hex_i2c, br_hex_c2i. auto.
  - intros i j p Hi Hj. rewrite br_hex_ns in Hi, Hj. rewrite !br_hex_i2c. apply hex_coord_injective; assumption.
Qed.
Print Assumptions C14_hexagonal_index_maps_inverse.

(** HexagonalLattice (its matrix is that of BrickLattice(delete=True), checked by the translator):
    ones exactly at Euclidean distance 1; hex_dist4 = 4 * squared distance *)
Theorem C14_hexagonal_adjacency_is_unit_distance :
  forall up s0 s1 i j p p', 1 <= s0 -> 1 <= s1 ->
    0 <= i < gen_hex_nsites s0 s1 -> 0 <= j < gen_hex_nsites s0 s1 ->
    code_hex_index_to_coord up s0 s1 i = Some p -> code_hex_index_to_coord up s0 s1 j = Some p' ->
    (In (i, j) (snd (code_brick_adj up true s0 s1)) <-> hex_dist4 up p p' = 4).
Proof.
  intros up s0 s1 i j p p' H0 H1 Hi Hj Ei Ej. rewrite br_hex_ns in Hi, Hj. rewrite br_hex_i2c in Ei, Ej.
  rewrite br_brick_adj. apply hex_adjacency_iff; assumption.
Qed.
Print Assumptions C14_hexagonal_adjacency_is_unit_distance.

(** BrickLattice: the same graph on the square-grid coordinates -- two grid points are linked iff their
    hexagonal positions are at distance 1 and neither is a surplus point (a point for which the
    deleting variant has no index); with delete=True no site is surplus *)
Theorem C14_brick_adjacency_is_the_hexagonal_graph :
  forall up del s0 s1 i j r c r' c', 1 <= s0 -> 1 <= s1 ->
    0 <= i < gen_brick_nsites up del s0 s1 -> 0 <= j < gen_brick_nsites up del s0 s1 ->
    gen_brick_index_to_coord up del s0 s1 i = Some [r; c] -> gen_brick_index_to_coord up del s0 s1 j = Some [r'; c'] ->
    (In (i, j) (snd (code_brick_adj up del s0 s1)) <->
     hex_dist4 up (gen_hex_pos up r c) (gen_hex_pos up r' c') = 4 /\
     gen_brick_coord_to_index up true s0 s1 r c <> Some None /\
     gen_brick_coord_to_index up true s0 s1 r' c' <> Some None).
Proof.
  intros up del s0 s1 i j r c r' c' H0 H1 Hi Hj Ei Ej. rewrite br_nsites in Hi, Hj. rewrite br_i2c in Ei, Ej.
  rewrite br_brick_adj, !br_hex_pos, !br_c2i, <- sq_nn_unit_distance.
  apply brick_adjacency_iff; assumption.
Qed.
Print Assumptions C14_brick_adjacency_is_the_hexagonal_graph.

Theorem C14_brick_adjacency_matrix_shape :
  forall up del s0 s1, 1 <= s0 -> 1 <= s1 ->
    fst (code_brick_adj up del s0 s1) = gen_brick_nsites up del s0 s1 /\
    gen_brick_nsites up true s0 s1 = gen_hex_nsites s0 s1 /\
    (forall i j, In (i, j) (snd (code_brick_adj up del s0 s1)) ->
       0 <= i < gen_brick_nsites up del s0 s1 /\ 0 <= j < gen_brick_nsites up del s0 s1) /\
    (forall i j, In (i, j) (snd (code_brick_adj up del s0 s1)) -> In (j, i) (snd (code_brick_adj up del s0 s1))) /\
    (forall i, ~ In (i, i) (snd (code_brick_adj up del s0 s1))).
Proof.
  intros up del s0 s1 H0 H1. rewrite br_brick_adj, !br_nsites, br_hex_ns. split; [|split; [|split; [|split]]].
  - apply brick_adj_size; assumption.
  - reflexivity.
  - intros i j. apply brick_adj_range; assumption.
  - intros i j. apply brick_adjacency_symmetric; assumption.
  - intros i. apply brick_adjacency_irreflexive; assumption.
Qed.
Print Assumptions C14_brick_adjacency_matrix_shape.

(** the defects the proposed repairs remove, on the code as found (model with [guard = false]) *)
Theorem C14_unrepaired_code_refuted :
  In (0, 0) (int_pairs_g false [1; 3] [true; true]) /\
  In (0, 8) (tri_pairs_g false [3; 3] [true; false]) /\ ~ nn_tri [3; 3] [true; false] [0; 0] [2; 2].
Proof.
  split; [exact int_unrepaired_selfloop|]. split; [exact (proj1 tri_unrepaired_wraps_open_axis)|].
  intros H. apply (tri_pairs_nn [3; 3] [true; false] [0; 0] [2; 2]) in H;
    [|cbn; lia|reflexivity|repeat constructor; lia|repeat constructor; lia].
  exact (proj2 tri_unrepaired_wraps_open_axis H).
Qed.
Print Assumptions C14_unrepaired_code_refuted.

(** the hypotheses are satisfiable on a non-trivial instance: a 2 x 3 x 2 lattice, middle axis periodic *)
Example C14_instance :
  pos_shape [2; 3; 2] /\
  gen_int_index_to_coord [2; 3; 2] 4 = Some [0; 2; 0] /\ gen_int_index_to_coord [2; 3; 2] 0 = Some [0; 0; 0] /\
  In (4, 0) (int_pairs [2; 3; 2] [false; true; false]) /\ ~ In (4, 1) (int_pairs [2; 3; 2] [false; true; false]).
Proof.
  split; [repeat constructor; lia|]. split; [reflexivity|]. split; [reflexivity|].
  split; [vm_compute; tauto|]. vm_compute. intuition discriminate.
Qed.

(** more non-trivial instances: a 2 x 3 hexagonal patch (22 sites), a 3 x 4 face-centred lattice with
    axis 1 periodic (15 sites), a 3 x 4 triangular lattice with axis 0 periodic *)
Example C14_instance_hexagonal :
  gen_hex_nsites 2 3 = 22 /\
  code_hex_index_to_coord true 2 3 0 = Some [0; 1] /\ code_hex_index_to_coord true 2 3 1 = Some [0; 3] /\
  hex_dist4 true [0; 1] [0; 3] = 4 /\ In (0, 1) (snd (code_brick_adj true true 2 3)) /\
  ~ In (0, 5) (snd (code_brick_adj true true 2 3)).
Proof. repeat split; try reflexivity; vm_compute; intuition discriminate. Qed.

Example C14_instance_oddface :
  gen_ofc_ctor_ok 3 4 false true = true /\ gen_ofc_nsites 3 4 = 15 /\
  gen_ofc_index_to_coord 3 4 12 = Some [1; 1] /\ gen_ofc_index_to_coord 3 4 5 = Some [2; 2] /\
  In (12, 5) (ofc_pairs 3 4 false true) /\ nn_ofc 3 4 false true [1; 1] [2; 2].
Proof.
  repeat split; try reflexivity; try (vm_compute; tauto).
  right. exists 0, 0, 1, 1. split; [right; reflexivity|]. split; [right; reflexivity|]. left. split; reflexivity.
Qed.

Example C14_instance_triangular :
  In (0, 8) (tri_pairs [3; 4] [true; false]) /\ nn_tri [3; 4] [true; false] [0; 0] [2; 0] /\
  ~ In (0, 11) (tri_pairs [3; 4] [true; false]).
Proof.
  split; [vm_compute; tauto|]. split; [|vm_compute; intuition discriminate].
  left. split; [discriminate|]. exists 0%nat. split; [cbn; lia|]. split.
  - right. right. split; [reflexivity|]. right. cbn. lia.
  - intros [|[|k]] Hk; try reflexivity. congruence.
Qed.
