(** C18 - only executable circuits are accepted, and the Qobj says what the circuit is.
    Property theorems only.  [Run.GenQobj] is regenerated from /repo on every run by gen/backend.py:
    the shots condition, *which instructions the final qubit-range check looks at* ([gen_scope]),
    the range condition, check_params, whether ControlledGate.as_qasm looks at ctrl_state
    ([gen_ctrl_std_checked]), and the two processor configuration records (obtained by running
    configuration()).  The validation loop, the per-instruction as_qasm views, the Qobj header
    assembly and the key conversion are the hand-written model Qib.Backend.QobjModel, tied to the code
    by the correspondence run of checks/C18.py.

    The theorem marked (*fix*) holds for the code with the range-check repair (commit 35ca011,
    proposed_fixes/C18-range-check-all-instructions.diff); against a source whose final check reads the
    loop variable ([gen_scope] = ScopeLast) its proof does not compile and the check reports the
    concrete failing inputs of the [_refuted] lemmas below.  The ctrl_state repair is NOT applied
    (known finding): the statement that depends on it carries the guard explicitly and the guard
    disappears when [gen_ctrl_std_checked] = true. *)
From Qib Require Import Backend.QobjModel Backend.QobjProofs.
From Coq Require Import Sorting.Sorted.
From Run Require Import GenQobj.
Local Open Scope Z_scope.

Ltac zb :=
  intros; cbv beta iota delta [gen_shots_refused gen_range_refused gen_params_ok gen_vt
                               vt_shots_refused vt_range_refused vt_params_ok];
  try reflexivity;
  apply Bool.eq_iff_eq_true;
  rewrite ?orb_true_iff, ?andb_true_iff, ?negb_true_iff, ?Z.leb_le, ?Z.ltb_lt, ?Z.eqb_eq, ?Z.leb_gt, ?Z.ltb_ge; lia.

Lemma gen_vt_ok : vt_ok gen_vt.
Proof. split; zb. Qed.

(** 1a. what holds for either version of the final check (proved without looking at [gen_scope]) *)
Theorem C18_accept_instructions_valid_partial :
  forall cfg shots gs, validate gen_vt cfg shots gs = Accept ->
    shots <= c_max_shots cfg /\
    (exists ins, qasm_all gen_vt gs = inl ins /\ Forall (valid_qasm cfg) ins).
Proof.
  intros cfg shots gs H. destruct (vt_scope gen_vt) eqn:S.
  - destruct (validate_accept_sound_last gen_vt gen_vt_ok cfg shots gs S H) as [A [B _]]. auto.
  - destruct (validate_accept_sound gen_vt gen_vt_ok cfg shots gs S H) as [A [B _]]. auto.
Qed.
Print Assumptions C18_accept_instructions_valid_partial.

(** the defect the repair removes, exhibited on the simulator's configuration: with a final check
    that only looks at the last instruction, a measurement of qubit 5 is accepted on the 3-qubit
    device, and an empty circuit crashes with UnboundLocalError *)
Definition unrepaired_vt : vtables :=
  {| vt_shots_refused := gen_shots_refused; vt_scope := ScopeLast; vt_empty_guard := false;
     vt_range_refused := gen_range_refused; vt_params_ok := gen_params_ok; vt_ctrl_std_checked := false |}.

Theorem C18_last_instruction_only_refuted :
  exists gs, validate unrepaired_vt gen_cfg_qsim 1024 gs = Accept /\
             ~ Forall (in_range gen_cfg_qsim) (all_particles gs).
Proof.
  exists [Measure [(0, 5)] []; Plain KX (0, 0)]. split; [vm_compute; reflexivity|].
  intros H. inversion H as [|? ? H1 _]; subst. unfold in_range in H1. cbn in H1. lia.
Qed.
Print Assumptions C18_last_instruction_only_refuted.

Theorem C18_empty_circuit_crash_refuted :
  validate unrepaired_vt gen_cfg_qsim 1024 [] = CUnbound.
Proof. vm_compute. reflexivity. Qed.
Print Assumptions C18_empty_circuit_crash_refuted.

(** 2. refusal precedes any request: the submission request is issued only for an accepted experiment
    (submit_experiment builds and validates the experiment object before _send_request) *)
Theorem C18_refused_before_any_request :
  forall cfg shots gs, validate gen_vt cfg shots gs <> Accept -> submit_requests gen_vt cfg shots gs = 0%nat.
Proof. intros cfg shots gs. apply refused_sends_nothing. Qed.
Print Assumptions C18_refused_before_any_request.

(** 3. the instruction list is the circuit: one entry per instruction, in order, each carrying that
    instruction's own qubit indices (controls first, then the target's), own parameters, own memory
    slots and duration *)
Theorem C18_instructions_are_the_circuit :
  forall gs ins, qasm_all gen_vt gs = inl ins ->
    length ins = length gs /\
    Forall2 (fun g q => as_qasm gen_vt g = QOk q /\
                        q_qubits q = map qidx (particles g) /\ q_params q = own_params g /\
                        q_memory q = (match g with Measure qs cl => Some (measure_clbits qs cl) | _ => None end) /\
                        q_duration q = (match g with Delay d _ => Some d | _ => None end)) gs ins.
Proof.
  intros gs ins H. split; [eapply qasm_all_length; exact H|].
  apply qasm_all_spec in H. induction H; constructor; auto.
  split; [assumption|]. apply (as_qasm_own gen_vt). assumption.
Qed.
Print Assumptions C18_instructions_are_the_circuit.

(** 3b. the name says what the gate is: a serialised library instruction carries the OpenQASM name of
    the operation it is ([kind_of]: which standard gate / controlled gate / control instruction), and
    that name determines the operation.  Guard (the KNOWN FINDING below): every controlled gate has
    the all-ones control state - automatic when ControlledGate.as_qasm itself refuses other control
    states ([gen_ctrl_std_checked] = true).  User-defined gates ([Raw]) report whatever they like. *)
Theorem C18_name_says_what_the_gate_is :
  forall g g' q q',
    as_qasm gen_vt g = QOk q -> as_qasm gen_vt g' = QOk q' ->
    is_raw g = false -> is_raw g' = false ->
    (gen_ctrl_std_checked = true \/ (all_std g = true /\ all_std g' = true)) ->
    (exists k, kind_of g = Some k /\ q_name q = name_of_kind k) /\
    (q_name q = q_name q' -> kind_of g = kind_of g').
Proof.
  intros g g' q q' E E' R R' G.
  assert (S : all_std g = true /\ all_std g' = true).
  { destruct G as [C|S]; [|exact S]. split; eapply (checked_all_std gen_vt); try eassumption; exact C. }
  destruct S as [S S']. split; [apply (as_qasm_name gen_vt); assumption|].
  intros N. apply (same_name_same_operation gen_vt g g' q q'); assumption.
Qed.
Print Assumptions C18_name_says_what_the_gate_is.

Theorem C18_nonstandard_control_refuted :
  exists q, as_qasm unrepaired_vt (Ctrl [(0, 0)] false (Plain KZ (0, 1))) = QOk q /\ q_name q = n_cz.
Proof. eexists. split; reflexivity. Qed.
Print Assumptions C18_nonstandard_control_refuted.

(** 4. header: the four qubit counts equal the number of qubit labels, the four memory counts equal
    the number of classical labels, labels are sorted, cover every index an instruction uses and
    contain nothing else; shots / init_qubits / do_emulation are copied *)
Theorem C18_qobj_counts_and_labels :
  forall opts gs o, build_qobj gen_vt opts gs = Some o ->
  Forall (fun n => n = Z.of_nat (length (o_qubit_labels o))) (o_nq o) /\ length (o_nq o) = 4%nat /\
  Forall (fun n => n = Z.of_nat (length (o_clbit_labels o))) (o_ms o) /\ length (o_ms o) = 4%nat /\
  Sorted Z.le (o_qubit_labels o) /\ Sorted Z.le (o_clbit_labels o) /\ NoDup (o_clbit_labels o) /\
  Forall2 (fun g q => as_qasm gen_vt g = QOk q) gs (o_instructions o) /\
  (forall q i, In q (o_instructions o) -> In i (q_qubits q) -> In i (o_qubit_labels o)) /\
  (forall q ms c, In q (o_instructions o) -> q_memory q = Some ms -> In c ms -> In c (o_clbit_labels o)) /\
  (forall i, In i (o_qubit_labels o) -> exists q, In q (o_instructions o) /\ In i (q_qubits q)) /\
  (forall c, In c (o_clbit_labels o) -> exists q ms, In q (o_instructions o) /\ q_memory q = Some ms /\ In c ms) /\
  o_shots o = op_shots opts /\ o_init_qubits o = op_init_qubits opts /\ o_do_emulation o = op_do_emulation opts.
Proof. intros opts gs o. apply build_qobj_consistent. Qed.
Print Assumptions C18_qobj_counts_and_labels.

Theorem C18_qubit_labels_distinct :
  forall gs, (forall p p', In p (all_particles gs) -> In p' (all_particles gs) -> fst p = fst p') ->
    NoDup (circuit_qubit_indices gs).
Proof. exact qubit_labels_NoDup. Qed.
Print Assumptions C18_qubit_labels_distinct.

(** 5. binary count keys: the key is the minimal binary numeral of the hexadecimal key's value
    preceded by zeros up to width n; it denotes the same number; keys of distinct numbers stay
    distinct; and then the whole dictionary is converted key by key with every count untouched *)
Theorem C18_binary_keys :
  forall n ds, Forall (fun d => 0 <= d < 16) ds ->
    binval (to_binary n ds) = hexval ds /\
    to_binary n ds = repeat false (n - length (bin_digits (hexval ds))) ++ bin_digits (hexval ds) /\
    length (to_binary n ds) = Nat.max n (length (bin_digits (hexval ds))) /\
    (hexval ds = 0 -> bin_digits (hexval ds) = [false]) /\
    (0 < hexval ds -> exists l, bin_digits (hexval ds) = true :: l).
Proof. exact to_binary_correct. Qed.
Print Assumptions C18_binary_keys.

Theorem C18_binary_keys_injective :
  forall n ds ds', Forall (fun d => 0 <= d < 16) ds -> Forall (fun d => 0 <= d < 16) ds' ->
    to_binary n ds = to_binary n ds' -> hexval ds = hexval ds'.
Proof. exact to_binary_injective. Qed.
Print Assumptions C18_binary_keys_injective.

Theorem C18_counts_unchanged :
  forall n kvs, Forall (fun kv => Forall (fun d => 0 <= d < 16) (fst kv)) kvs ->
    NoDup (map (fun kv => hexval (fst kv)) kvs) ->
    counts_binary n kvs = map (fun kv => (to_binary n (fst kv), snd kv)) kvs.
Proof. exact counts_binary_exact. Qed.
Print Assumptions C18_counts_unchanged.

(** ---- the two statements that need the repaired source come last, so that everything above is
    checked against the unrepaired source as well ---- *)

(** 1 (*fix*). An experiment is accepted only if shots are within the limit, every instruction is a
    measurement or a basis gate on a configured qubit tuple, respecting the coupling map, with the
    configured number of parameters, and every addressed qubit index is inside the processor
    (0 <= index < n_qubits, at most n_qubits distinct qubits) - for every configuration record. *)
Theorem C18_accept_only_executable :
  forall cfg shots gs, validate gen_vt cfg shots gs = Accept ->
    shots <= c_max_shots cfg /\
    (exists ins, qasm_all gen_vt gs = inl ins /\ Forall (valid_qasm cfg) ins) /\
    Forall (in_range cfg) (all_particles gs) /\
    Z.of_nat (length (circuit_particle_set gs)) <= c_nqubits cfg.
Proof. intros cfg shots gs. apply (validate_accept_sound gen_vt gen_vt_ok); reflexivity. Qed.
Print Assumptions C18_accept_only_executable.

(** KNOWN FINDING (not repaired: tests/test_gates.py pins as_qasm()['name'] == 'cx' for a
    |0>-controlled X): a gate controlled on another state than |1...1> is serialised under the
    name of the standard controlled gate - see C18_nonstandard_control_refuted above. The
    statement "an instruction says what the gate is" (C18_name_says_what_the_gate_is) therefore
    carries the guard "every controlled gate has the all-ones control state". *)

(** non-vacuity: the test-suite's circuit is accepted on the simulator; a circuit with a defect in
    the middle is refused; "within the limit" is an upper bound (non-positive shots are accepted by
    the code: recorded, see notes/C18.md) *)
Example C18_instance :
  let q i : qb := (0, i) in
  let bell := [Plain KH (q 0); Plain KH (q 1); Ctrl [q 0] true (Plain KZ (q 1)); Measure [q 0; q 1; q 2] []] in
  validate gen_vt gen_cfg_qsim 1024 bell = Accept /\
  validate gen_vt gen_cfg_qsim 8197 bell = RShots /\
  validate gen_vt gen_cfg_qsim 1024 [Plain KH (q 0); Measure [q 5] []; Plain KX (q 1)] = RRange /\
  validate gen_vt gen_cfg_qc 1024 [Plain KX (q 0); Ctrl [q 0] true (Plain KZ (q 1)); Measure [q 0] []] = RBasis /\
  validate gen_vt gen_cfg_qsim (-5) bell = Accept /\
  option_map o_nq (build_qobj gen_vt {| op_shots := 1024; op_init_qubits := true; op_do_emulation := false; op_optional := [] |} bell)
    = Some [3; 3; 3; 3] /\
  to_binary 3 [0; 3] = [false; true; true].
Proof. vm_compute. repeat split. Qed.
