(** C19 - Qubitization circuits equal their defining phase-shift / alternating products.
    Property theorems only.  [Run.GenQubitization] is regenerated on every run by
    gen/qubitization.py from
      /repo/src/qib/algorithms/qubitization/projector_controlled_phase_shift.py  (as_circuit)
      /repo/src/qib/algorithms/qubitization/eigenvalue_transformation.py   (as_matrix, as_circuit)
    so the statements are about the loop bounds, index expressions and angle expressions the
    code contains now.  Gate semantics (Rz / controlled-Rz / multi-controlled X / global phase
    as monomial operators on bit strings) is the hand-written model Qib.Qubitization.QubitModel,
    tied to the code by the correspondence run.

    Reading of the scalars: K is any commutative *-ring with i; u is any element with
    u u^* = 1.  For K = C and an angle theta take u = exp(i theta / 2^(n-1)) (c-phase method)
    resp. u = exp(i theta) (auxiliary method); a gate angle c*theta with rational c then
    has the entries u^(+-c 2^(n-1)/2).  "for any angle" = "for every such u".
    The ..._any_phase_function theorems state the same without u: ph q stands for exp(i q theta),
    any *-homomorphism (Q,+) -> unit-modulus elements of K ([character]); the ..._complex theorems
    instantiate them at K = C (Coquelicot) with ph q = (cos (q theta), sin (q theta)) for every real
    theta (this is where the standard library's real-number axioms appear). *)
From Qib Require Import Qubitization.EvtProofs Base.Inst.
From Qib Require Qubitization.QubitReal.   (* complex numbers; names used qualified *)
From Run Require Import GenQubitization.
Local Open Scope Z_scope.

(* ------------------------------------------------------------------ bridges to the generated definitions *)
Ltac conjs := repeat match goal with |- _ /\ _ => split end.
Ltac qnz := conjs; try (apply q2_nz; lia).
Ltac qclosed :=
  intros;
  cbv [gen_cphase gen_aux cp_max_den cp_first_coef cp_first_tgt cp_lo cp_hi cp_loop_coef
       cp_loop_tgt cp_loop_nctrl cp_glob_coef ax_rz_coef ax_order];
  first [ reflexivity | lia
        | (unfold q2; change (inject_Z (-2)) with (inject_Z (Z.opp 2)); unfold Z.sub;
           rewrite ?inject_Z_plus, ?inject_Z_mult, ?inject_Z_opp; field; qnz) ].

Lemma gen_cphase_ok : cphase_src_ok gen_cphase.
Proof. unfold cphase_src_ok. conjs; qclosed. Qed.

Lemma gen_aux_ok : aux_src_ok gen_aux.
Proof.
  split; cbv [gen_aux ax_rz_coef ax_order]; [|reflexivity].
  rewrite ?inject_Z_plus, ?inject_Z_mult. change (inject_Z 2) with 2%Q. ring.
Qed.

(* ------------------------------------------------------------------ phase shift, c-phase method *)
(** 1. For every number n >= 1 of encoding qubits and every basis state b: the circuit leaves
    b unchanged and the phases of its gates (rational multiples of theta read from the source)
    add up to +theta on 0...0 and to -theta on every other state. *)
Theorem C19_cphase_phases_sum_to_shift :
  forall (n : nat) (b : list bool), (1 <= n)%nat -> length b = n ->
    run_bits (cphase_circuit gen_cphase n) b = b /\
    (run_phq (cphase_circuit gen_cphase n) b == if forallb negb b then 1 else -1)%Q.
Proof. intros. rewrite (cphase_circuit_ok _ n gen_cphase_ok) by assumption. apply cphase_phase_sum; assumption. Qed.
Print Assumptions C19_cphase_phases_sum_to_shift.

(** 2. Matrix level: the product of the gate matrices is exp(i theta (2|0..0><0..0| - 1)). *)
Theorem C19_cphase_matrix_is_phase_shift :
  forall (K : Scalar) (L : ScalarLaws K) (u : K), smul u (sconj u) = s1 ->
  forall n : nat, (1 <= n)%nat ->
    meq n (circuit_mx n (upow_q (Z.of_nat n - 1) u) (cphase_circuit gen_cphase n))
          (shift_spec (upow u (2 ^ (Z.of_nat n - 1)))).
Proof. intros K L u Hu n Hn. rewrite (cphase_circuit_ok _ n gen_cphase_ok Hn). apply cphase_matrix; assumption. Qed.
Print Assumptions C19_cphase_matrix_is_phase_shift.

(** 2a. The same for ANY phase function ph (ph q = exp(i q theta)): Rz(c theta) has the entries
    ph(-c/2), ph(c/2) (half angles), PhaseFactorGate(c theta) is ph(c), a controlled gate acts
    only where its control bits match; the product of these gate matrices is
    exp(i theta (2|0..0><0..0| - 1)) = diag(ph 1, conj (ph 1), ..., conj (ph 1)). *)
Theorem C19_cphase_matrix_is_phase_shift_any_phase_function :
  forall (K : Scalar) (L : ScalarLaws K) (ph : Q -> K), character ph ->
  forall n : nat, (1 <= n)%nat ->
    meq n (circuit_mx n ph (cphase_circuit gen_cphase n)) (shift_spec (ph 1%Q)).
Proof. intros K L ph H n Hn. rewrite (cphase_circuit_ok _ n gen_cphase_ok Hn). apply cphase_matrix_char; assumption. Qed.
Print Assumptions C19_cphase_matrix_is_phase_shift_any_phase_function.

(** 2b. Over the complex numbers, for every real angle theta. *)
Theorem C19_cphase_matrix_is_phase_shift_complex :
  forall (theta : Rdefinitions.R) (n : nat), (1 <= n)%nat ->
    meq (K:=QubitReal.CK) n (circuit_mx n (QubitReal.expq theta) (cphase_circuit gen_cphase n))
        (shift_spec (QubitReal.expi theta)).
Proof.
  intros theta n Hn. rewrite <- QubitReal.expq_1.
  apply (C19_cphase_matrix_is_phase_shift_any_phase_function QubitReal.CK QubitReal.CK_laws).
  - apply QubitReal.expq_character.
  - exact Hn.
Qed.
Print Assumptions C19_cphase_matrix_is_phase_shift_complex.

(* ------------------------------------------------------------------ phase shift, auxiliary method *)
(** 3. MCX Rz(2 theta) MCX on (auxiliary = wire 0, encoding register = wires 1..n):
    |0,b> is mapped to phase * |0,b> with the same phases; the auxiliary qubit returns to |0>. *)
Theorem C19_aux_phases_and_auxiliary_restored :
  forall (n : nat) (b : list bool), length b = n ->
    run_bits (aux_circuit gen_aux n) (false :: b) = false :: b /\
    (run_phq (aux_circuit gen_aux n) (false :: b) == if forallb negb b then 1 else -1)%Q.
Proof. intros. rewrite (aux_circuit_ok _ n gen_aux_ok). apply aux_phase_sum; assumption. Qed.
Print Assumptions C19_aux_phases_and_auxiliary_restored.

(** 4. Matrix level: on the auxiliary-|0> block the circuit is the phase shift, and nothing
    leaks to auxiliary |1>. *)
Theorem C19_aux_matrix_block_is_phase_shift :
  forall (K : Scalar) (L : ScalarLaws K) (u : K), smul u (sconj u) = s1 ->
  forall n : nat,
    blk0 n (circuit_mx (Datatypes.S n) (upow_q 0 u) (aux_circuit gen_aux n)) (shift_spec u).
Proof. intros K L u Hu n. rewrite (aux_circuit_ok _ n gen_aux_ok). apply aux_blk0; assumption. Qed.
Print Assumptions C19_aux_matrix_block_is_phase_shift.

(** 4a / 4b. The same for any phase function, and over C for every real angle. *)
Theorem C19_aux_matrix_block_is_phase_shift_any_phase_function :
  forall (K : Scalar) (L : ScalarLaws K) (ph : Q -> K), character ph ->
  forall n : nat,
    blk0 n (circuit_mx (Datatypes.S n) ph (aux_circuit gen_aux n)) (shift_spec (ph 1%Q)).
Proof. intros K L ph H n. rewrite (aux_circuit_ok _ n gen_aux_ok). apply aux_blk0_char; assumption. Qed.
Print Assumptions C19_aux_matrix_block_is_phase_shift_any_phase_function.

Theorem C19_aux_matrix_block_is_phase_shift_complex :
  forall (theta : Rdefinitions.R) (n : nat),
    blk0 (K:=QubitReal.CK) n (circuit_mx (Datatypes.S n) (QubitReal.expq theta) (aux_circuit gen_aux n))
         (shift_spec (QubitReal.expi theta)).
Proof.
  intros theta n. rewrite <- QubitReal.expq_1.
  apply (C19_aux_matrix_block_is_phase_shift_any_phase_function QubitReal.CK QubitReal.CK_laws).
  apply QubitReal.expq_character.
Qed.
Print Assumptions C19_aux_matrix_block_is_phase_shift_complex.

(* ------------------------------------------------------------------ phase shift, as_matrix *)
Lemma gen_pmat_ok : pmat_src_ok gen_pmat.
Proof. split; vm_compute; reflexivity. Qed.

(** 4c. ProjectorControlledPhaseShift.as_matrix, expm(1j theta (a |0..0><0..0| + b 1)) with a, b read
    from the source (diagonal of exponentials), is the defining phase shift; hence the c-phase
    circuit has exactly the matrix as_matrix returns, and the auxiliary circuit has it on the
    auxiliary-|0> block.  Any number of encoding qubits, any phase function. *)
Theorem C19_phase_shift_as_matrix_is_phase_shift :
  forall (K : Scalar) (L : ScalarLaws K) (ph : Q -> K), character ph ->
  forall n : nat, meq n (pmat_mx ph gen_pmat) (shift_spec (ph 1%Q)).
Proof. intros K L ph H n. apply pmat_is_shift; [exact H|exact gen_pmat_ok]. Qed.
Print Assumptions C19_phase_shift_as_matrix_is_phase_shift.

Theorem C19_phase_shift_circuits_equal_as_matrix :
  forall (K : Scalar) (L : ScalarLaws K) (ph : Q -> K), character ph ->
  forall n : nat,
    ((1 <= n)%nat -> meq n (circuit_mx n ph (cphase_circuit gen_cphase n)) (pmat_mx ph gen_pmat)) /\
    blk0 n (circuit_mx (Datatypes.S n) ph (aux_circuit gen_aux n)) (pmat_mx ph gen_pmat).
Proof.
  intros K L ph H n. split.
  - intros Hn. eapply meq_trans; [apply C19_cphase_matrix_is_phase_shift_any_phase_function; assumption|].
    apply meq_sym. apply C19_phase_shift_as_matrix_is_phase_shift; assumption.
  - eapply blk0_meq; [apply C19_aux_matrix_block_is_phase_shift_any_phase_function; assumption|].
    apply meq_sym. apply C19_phase_shift_as_matrix_is_phase_shift; assumption.
Qed.
Print Assumptions C19_phase_shift_circuits_equal_as_matrix.

(* ------------------------------------------------------------------ eigenvalue transformation *)
(** 0. (does not depend on the regenerated definitions) The loop bound before the repair, range(start, dim): every odd length >= 3 loses its
    last pair (length 3 uses one angle and applies the encoding once). *)
Theorem C19_evt_unrepaired_refuted :
  exists len : Z, 1 <= len /\ evt_ops evt_src_unrepaired len <> alt_word len /\
                  angles (evt_ops evt_src_unrepaired len) = [0] /\
                  length (encodings (evt_ops evt_src_unrepaired len)) = 1%nat.
Proof. exists 3. split; [lia|]. split; [vm_compute; discriminate|]. split; reflexivity. Qed.
Print Assumptions C19_evt_unrepaired_refuted.

Theorem C19_evt_unrepaired_drops_last_pair :
  forall d : nat,
    evt_ops evt_src_unrepaired (2 * Z.of_nat (Datatypes.S d) + 1) = alt_word (2 * Z.of_nat d + 1).
Proof. exact unrepaired_odd. Qed.
Print Assumptions C19_evt_unrepaired_drops_last_pair.

(* bridges to the regenerated loop bounds / index expressions *)
Ltac Zify.zify_post_hook ::= Z.to_euclidean_division_equations.

Lemma pair_body_eq a b st i : a = 2 * i - st -> b = 2 * i + 1 - st ->
  [LP a; LU true; LP b; LU false] = pair_body st i.
Proof. intros -> ->. reflexivity. Qed.

Ltac evt_unfold g :=
  cbv [g ev_even ev_dim_even ev_start_even ev_prefix_even ev_dim_odd ev_start_odd ev_prefix_odd
       ev_lo ev_hi ev_body].

Ltac evt_ok g :=
  unfold evt_src_ok; conjs; evt_unfold g;
  [ (* the parity test, however it is written with ==, !=, % and `not` *)
    intros len H; rewrite even_mod2;
    repeat match goal with |- context [Z.eqb ?a ?b] => destruct (Z.eqb_spec a b) end;
    cbn [negb andb orb]; first [reflexivity | exfalso; lia]
  | intros len H E; apply Z.even_spec in E; destruct E as [k ->]; lia
  | reflexivity | reflexivity
  | intros len H E; rewrite <- Z.negb_odd in E; apply Bool.negb_false_iff in E;
    apply Z.odd_spec in E; destruct E as [k ->]; lia
  | reflexivity | reflexivity
  | intros; lia | intros; lia
  | intros; apply pair_body_eq; lia ].

(** holds for the repaired loop bound range(start, dim + start); with range(start, dim)
    the ninth obligation (ev_hi) is false and this lemma does not compile *)
Lemma gen_evt_mat_ok : evt_src_ok gen_evt_mat.
Proof. evt_ok gen_evt_mat. Qed.
Lemma gen_evt_circ_ok : evt_src_ok gen_evt_circ.
Proof. evt_ok gen_evt_circ. Qed.

(** 5. For every number of angles the factors as_matrix multiplies are exactly
    P(th_0) U^-+ P(th_1) U^+- ... P(th_(len-1)) U  (alternating, last factor U). *)
Theorem C19_evt_matrix_word_is_alternating :
  forall len : Z, 1 <= len -> evt_mat_word gen_evt_mat len = alt_word len.
Proof. intros. apply evt_ops_alt; [apply gen_evt_mat_ok|lia]. Qed.
Print Assumptions C19_evt_matrix_word_is_alternating.

(** 6. as_circuit prepends the same factors: read as a matrix product its gate list is the
    same word. *)
Theorem C19_evt_circuit_word_is_alternating :
  forall len : Z, 1 <= len -> gates_word (evt_circ_gates gen_evt_circ len) = alt_word len.
Proof. intros. rewrite circ_gates_word. apply evt_ops_alt; [apply gen_evt_circ_ok|lia]. Qed.
Print Assumptions C19_evt_circuit_word_is_alternating.

(** 7. Every angle is used exactly once (in order) and the encoding is applied exactly
    len(angles) times, alternating between U^-1 and U and ending with U. *)
Theorem C19_evt_every_angle_once_encoding_len_times :
  forall len : Z, 1 <= len ->
    angles (evt_mat_word gen_evt_mat len) = zrange 0 len /\
    encodings (evt_mat_word gen_evt_mat len) = map (fun k => Z.odd (len - 1 - k)) (zrange 0 len) /\
    length (encodings (evt_mat_word gen_evt_mat len)) = Z.to_nat len.
Proof.
  intros len H. rewrite C19_evt_matrix_word_is_alternating by assumption.
  split; [apply angles_alt|]. split; [apply encodings_alt|apply encodings_count].
Qed.
Print Assumptions C19_evt_every_angle_once_encoding_len_times.

(** 8. Hence the matrix is the defining alternating product, whatever the matrices of the
    phase shifts and of the block encoding are, *)
Theorem C19_evt_matrix_is_alternating_product :
  forall (K : Scalar) (n : nat) (P : Z -> BMx K) (U Ui : BMx K) (len : Z), 1 <= len ->
    word_mx n P U Ui (evt_mat_word gen_evt_mat len) = word_mx n P U Ui (alt_word len).
Proof. intros. rewrite C19_evt_matrix_word_is_alternating by assumption. reflexivity. Qed.
Print Assumptions C19_evt_matrix_is_alternating_product.

(** 9. and the circuit (wire 0 = auxiliary qubit of the phase shift, if any) has that matrix
    on the auxiliary-|0> block, provided every gate group has its matrix on that block
    (theorem 4 + blk0_kron_r for the phase shifts, blk0_kron_id for the block encoding).
    Without auxiliary qubit (c-phase) the two products are equal outright. *)
Theorem C19_evt_circuit_block_is_alternating_product :
  forall (K : Scalar) (L : ScalarLaws K) (m : nat) (Pc Pm : Z -> BMx K) (Uc Uic Um Uim : BMx K),
    (forall k, blk0 m (Pc k) (Pm k)) -> blk0 m Uc Um -> blk0 m Uic Uim ->
  forall len : Z, 1 <= len ->
    blk0 m (word_mx (Datatypes.S m) Pc Uc Uic (gates_word (evt_circ_gates gen_evt_circ len)))
           (word_mx m Pm Um Uim (alt_word len)).
Proof.
  intros K L m Pc Pm Uc Uic Um Uim HP HU HUi len H.
  rewrite C19_evt_circuit_word_is_alternating by assumption. apply word_blk0; assumption.
Qed.
Print Assumptions C19_evt_circuit_block_is_alternating_product.

Theorem C19_evt_circuit_cphase_is_alternating_product :
  forall (K : Scalar) (L : ScalarLaws K) (n : nat) (Pc Pm : Z -> BMx K) (Uc Uic Um Uim : BMx K),
    (forall k, meq n (Pc k) (Pm k)) -> meq n Uc Um -> meq n Uic Uim ->
  forall len : Z, 1 <= len ->
    meq n (word_mx n Pc Uc Uic (gates_word (evt_circ_gates gen_evt_circ len)))
          (word_mx n Pm Um Uim (alt_word len)).
Proof.
  intros K L n Pc Pm Uc Uic Um Uim HP HU HUi len H.
  rewrite C19_evt_circuit_word_is_alternating by assumption. apply word_mx_meq; assumption.
Qed.
Print Assumptions C19_evt_circuit_cphase_is_alternating_product.

(** 10. CLOSED FORM of clause "its circuit has that same matrix on the auxiliary-|0> block"
    (no hypotheses about the gate groups).  n encoding qubits, w system wires, U / Ui ANY
    matrices on the n + w wires of the block encoding (hence all three encoding methods and any
    encoded Hamiltonian), one phase function per angle.  Auxiliary method, wire 0 = auxiliary
    qubit: the circuit assembled by as_circuit - every phase-shift group is the gate product
    MCX Rz MCX read from the source (x) identity on the system, every block-encoding gate is
    identity on the auxiliary qubit (x) U^{+-} - has on the auxiliary-|0> block the matrix
    as_matrix multiplies together (defining phase shifts kron identity, U, Ui along the word
    of as_matrix), nothing leaks to auxiliary |1>, and that matrix is the alternating product. *)
Theorem C19_evt_circuit_auxiliary_closed_form :
  forall (K : Scalar) (L : ScalarLaws K) (phs : Z -> Q -> K), (forall k, character (phs k)) ->
  forall (n w : nat) (U Ui : BMx K) (len : Z), 1 <= len ->
    blk0 (n + w)
      (word_mx (Datatypes.S (n + w))
         (fun k => kron (Datatypes.S n) (circuit_mx (Datatypes.S n) (phs k) (aux_circuit gen_aux n)) mid)
         (kron 1 mid U) (kron 1 mid Ui) (gates_word (evt_circ_gates gen_evt_circ len)))
      (word_mx (n + w) (fun k => kron n (shift_spec (phs k 1%Q)) mid) U Ui (evt_mat_word gen_evt_mat len))
    /\ evt_mat_word gen_evt_mat len = alt_word len.
Proof.
  intros K L phs H n w U Ui len Hlen.
  rewrite C19_evt_circuit_word_is_alternating, C19_evt_matrix_word_is_alternating by assumption.
  split; [|reflexivity]. rewrite (aux_circuit_ok _ n gen_aux_ok). apply evt_aux_circuit_blk0. exact H.
Qed.
Print Assumptions C19_evt_circuit_auxiliary_closed_form.

(** 11. c-phase method (no auxiliary qubit): circuit matrix = as_matrix product outright. *)
Theorem C19_evt_circuit_cphase_closed_form :
  forall (K : Scalar) (L : ScalarLaws K) (phs : Z -> Q -> K), (forall k, character (phs k)) ->
  forall (n w : nat) (U Ui : BMx K) (len : Z), (1 <= n)%nat -> 1 <= len ->
    meq (n + w)
      (word_mx (n + w) (fun k => kron n (circuit_mx n (phs k) (cphase_circuit gen_cphase n)) mid)
               U Ui (gates_word (evt_circ_gates gen_evt_circ len)))
      (word_mx (n + w) (fun k => kron n (shift_spec (phs k 1%Q)) mid) U Ui (evt_mat_word gen_evt_mat len))
    /\ evt_mat_word gen_evt_mat len = alt_word len.
Proof.
  intros K L phs H n w U Ui len Hn Hlen.
  rewrite C19_evt_circuit_word_is_alternating, C19_evt_matrix_word_is_alternating by assumption.
  split; [|reflexivity]. rewrite (cphase_circuit_ok _ n gen_cphase_ok Hn). apply evt_cphase_circuit_meq; assumption.
Qed.
Print Assumptions C19_evt_circuit_cphase_closed_form.

(** 12. Both over C: any real angle sequence th. *)
Theorem C19_evt_circuit_closed_form_complex :
  forall (th : Z -> Rdefinitions.R) (n w : nat) (U Ui : BMx QubitReal.CK) (len : Z), 1 <= len ->
    blk0 (K:=QubitReal.CK) (n + w)
      (word_mx (Datatypes.S (n + w))
         (fun k => kron (Datatypes.S n) (circuit_mx (Datatypes.S n) (QubitReal.expq (th k)) (aux_circuit gen_aux n)) mid)
         (kron 1 mid U) (kron 1 mid Ui) (gates_word (evt_circ_gates gen_evt_circ len)))
      (word_mx (n + w) (fun k => kron n (shift_spec (QubitReal.expi (th k))) mid) U Ui (alt_word len))
    /\ ((1 <= n)%nat ->
        meq (K:=QubitReal.CK) (n + w)
          (word_mx (n + w) (fun k => kron n (circuit_mx n (QubitReal.expq (th k)) (cphase_circuit gen_cphase n)) mid)
                   U Ui (gates_word (evt_circ_gates gen_evt_circ len)))
          (word_mx (n + w) (fun k => kron n (shift_spec (QubitReal.expi (th k))) mid) U Ui (alt_word len))).
Proof.
  intros th n w U Ui len Hlen.
  assert (Hc : forall k, character (K:=QubitReal.CK) ((fun k => QubitReal.expq (th k)) k))
    by (intros k; apply QubitReal.expq_character).
  assert (E : (fun k => kron n (shift_spec (QubitReal.expi (th k))) (mid (K:=QubitReal.CK)))
            = (fun k => kron n (shift_spec (QubitReal.expq (th k) 1%Q)) mid)).
  { apply FunctionalExtensionality.functional_extensionality. intros k. rewrite QubitReal.expq_1. reflexivity. }
  rewrite E. split.
  - destruct (C19_evt_circuit_auxiliary_closed_form QubitReal.CK QubitReal.CK_laws _ Hc n w U Ui len Hlen) as [H1 H2].
    rewrite H2 in H1. exact H1.
  - intros Hn.
    destruct (C19_evt_circuit_cphase_closed_form QubitReal.CK QubitReal.CK_laws _ Hc n w U Ui len Hn Hlen) as [H1 H2].
    rewrite H2 in H1. exact H1.
Qed.
Print Assumptions C19_evt_circuit_closed_form_complex.

(** non-vacuity: a unit-modulus u that is not a root of unity of small order, 3 encoding
    qubits, over the Gaussian rationals; both methods; a 5-angle word *)
Example C19_instance :
  let u : QI := ((3 # 5)%Q, (4 # 5)%Q) in
  smul u (sconj u) = s1 /\
  dense 3 (circuit_mx 3 (upow_q 2 u) (cphase_circuit gen_cphase 3)) = dense 3 (shift_spec (upow u 4)) /\
  map (fun c => circuit_mx 4 (upow_q 0 u) (aux_circuit gen_aux 3) (false :: c) (false :: c)) (all_bits 3)
  = map (fun c => shift_spec u c c) (all_bits 3) /\
  evt_mat_word gen_evt_mat 5 = [LP 0; LU false; LP 1; LU true; LP 2; LU false; LP 3; LU true; LP 4; LU false].
Proof. vm_compute. repeat split. Qed.
