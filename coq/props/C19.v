(** C19 - Qubitization circuits equal their defining phase-shift / alternating products.
    Property theorems only.  [Run.GenQubitization] is regenerated on every run by
    gen/qubitization.py from
      /repo/src/qib/algorithms/qubitization/projector_controlled_phase_shift.py  (as_circuit)
      /repo/src/qib/algorithms/qubitization/eigenvalue_transformation.py   (as_matrix, as_circuit)
    so the statements are about the loop bounds, index expressions and angle expressions the
    code contains now.  Gate semantics (Rz / controlled-Rz / multi-controlled X / global phase
    as monomial operators on bit strings) is the hand-written model Qib.Qubitization.QubitModel,
    tied to the code by the correspondence run.

    Reading of the scalars: K is any commutative *-ring with i; u is any element with
    u u^* = 1.  For K = C and an angle theta take u = exp(i theta / 2^(n-1)) (c-phase method)
    resp. u = exp(i theta) (auxiliary method); a gate angle c*theta with rational c then
    has the entries u^(+-c 2^(n-1)/2).  "for any angle" = "for every such u".
    The ..._any_phase_function theorems state the same without u: ph q stands for exp(i q theta),
    any *-homomorphism (Q,+) -> unit-modulus elements of K ([character]); the ..._complex theorems
    instantiate them at K = C (Coquelicot) with ph q = (cos (q theta), sin (q theta)) for every real
    theta (this is where the standard library's real-number axioms appear). *)
From Qib Require Import Qubitization.EvtProofs Qubitization.HistProofs Base.Inst.
From Qib Require Qubitization.QubitReal.   (* complex numbers; names used qualified *)
From Run Require Import GenQubitization GenQubitHist.
Local Open Scope Z_scope.

(* ------------------------------------------------------------------ bridges to the generated definitions *)
Ltac conjs := repeat match goal with |- _ /\ _ => split end.
Ltac qnz := conjs; try (apply q2_nz; lia).
Ltac qclosed :=
  intros;
  cbv [gen_cphase gen_aux cp_max_den cp_first_coef cp_first_tgt cp_lo cp_hi cp_loop_coef
       cp_loop_tgt cp_loop_nctrl cp_glob_coef ax_rz_coef ax_order];
  first [ reflexivity | lia
        | (unfold q2; change (inject_Z (-2)) with (inject_Z (Z.opp 2)); unfold Z.sub;
           rewrite ?inject_Z_plus, ?inject_Z_mult, ?inject_Z_opp; field; qnz) ].

Lemma gen_cphase_ok : cphase_src_ok gen_cphase.
Proof. unfold cphase_src_ok. conjs; qclosed. Qed.

Lemma gen_aux_ok : aux_src_ok gen_aux.
Proof.
  split; cbv [gen_aux ax_rz_coef ax_order]; [|reflexivity].
  rewrite ?inject_Z_plus, ?inject_Z_mult. change (inject_Z 2) with 2%Q. ring.
Qed.

(* ------------------------------------------------------------------ phase shift, c-phase method *)
(** 1. For every number n >= 1 of encoding qubits and every basis state b: the circuit leaves
    b unchanged and the phases of its gates (rational multiples of theta read from the source)
    add up to +theta on 0...0 and to -theta on every other state. *)
Theorem C19_cphase_phases_sum_to_shift :
  forall (n : nat) (b : list bool), (1 <= n)%nat -> length b = n ->
    run_bits (cphase_circuit gen_cphase n) b = b /\
    (run_phq (cphase_circuit gen_cphase n) b == if forallb negb b then 1 else -1)%Q.
Proof. intros. rewrite (cphase_circuit_ok _ n gen_cphase_ok) by assumption. apply cphase_phase_sum; assumption. Qed.
Print Assumptions C19_cphase_phases_sum_to_shift.

(** 2. Matrix level: the product of the gate matrices is exp(i theta (2|0..0><0..0| - 1)). *)
Theorem C19_cphase_matrix_is_phase_shift :
  forall (K : Scalar) (L : ScalarLaws K) (u : K), smul u (sconj u) = s1 ->
  forall n : nat, (1 <= n)%nat ->
    meq n (circuit_mx n (upow_q (Z.of_nat n - 1) u) (cphase_circuit gen_cphase n))
          (shift_spec (upow u (2 ^ (Z.of_nat n - 1)))).
Proof. intros K L u Hu n Hn. rewrite (cphase_circuit_ok _ n gen_cphase_ok Hn). apply cphase_matrix; assumption. Qed.
Print Assumptions C19_cphase_matrix_is_phase_shift.

(** 2a. The same for ANY phase function ph (ph q = exp(i q theta)): Rz(c theta) has the entries
    ph(-c/2), ph(c/2) (half angles), PhaseFactorGate(c theta) is ph(c), a controlled gate acts
    only where its control bits match; the product of these gate matrices is
    exp(i theta (2|0..0><0..0| - 1)) = diag(ph 1, conj (ph 1), ..., conj (ph 1)). *)
Theorem C19_cphase_matrix_is_phase_shift_any_phase_function :
  forall (K : Scalar) (L : ScalarLaws K) (ph : Q -> K), character ph ->
  forall n : nat, (1 <= n)%nat ->
    meq n (circuit_mx n ph (cphase_circuit gen_cphase n)) (shift_spec (ph 1%Q)).
Proof. intros K L ph H n Hn. rewrite (cphase_circuit_ok _ n gen_cphase_ok Hn). apply cphase_matrix_char; assumption. Qed.
Print Assumptions C19_cphase_matrix_is_phase_shift_any_phase_function.

(** 2b. Over the complex numbers, for every real angle theta. *)
Theorem C19_cphase_matrix_is_phase_shift_complex :
  forall (theta : Rdefinitions.R) (n : nat), (1 <= n)%nat ->
    meq (K:=QubitReal.CK) n (circuit_mx n (QubitReal.expq theta) (cphase_circuit gen_cphase n))
        (shift_spec (QubitReal.expi theta)).
Proof.
  intros theta n Hn. rewrite <- QubitReal.expq_1.
  apply (C19_cphase_matrix_is_phase_shift_any_phase_function QubitReal.CK QubitReal.CK_laws).
  - apply QubitReal.expq_character.
  - exact Hn.
Qed.
Print Assumptions C19_cphase_matrix_is_phase_shift_complex.

(* ------------------------------------------------------------------ phase shift, auxiliary method *)
(** 3. MCX Rz(2 theta) MCX on (auxiliary = wire 0, encoding register = wires 1..n):
    |0,b> is mapped to phase * |0,b> with the same phases; the auxiliary qubit returns to |0>. *)
Theorem C19_aux_phases_and_auxiliary_restored :
  forall (n : nat) (b : list bool), length b = n ->
    run_bits (aux_circuit gen_aux n) (false :: b) = false :: b /\
    (run_phq (aux_circuit gen_aux n) (false :: b) == if forallb negb b then 1 else -1)%Q.
Proof. intros. rewrite (aux_circuit_ok _ n gen_aux_ok). apply aux_phase_sum; assumption. Qed.
Print Assumptions C19_aux_phases_and_auxiliary_restored.

(** 4. Matrix level: on the auxiliary-|0> block the circuit is the phase shift, and nothing
    leaks to auxiliary |1>. *)
Theorem C19_aux_matrix_block_is_phase_shift :
  forall (K : Scalar) (L : ScalarLaws K) (u : K), smul u (sconj u) = s1 ->
  forall n : nat,
    blk0 n (circuit_mx (Datatypes.S n) (upow_q 0 u) (aux_circuit gen_aux n)) (shift_spec u).
Proof. intros K L u Hu n. rewrite (aux_circuit_ok _ n gen_aux_ok). apply aux_blk0; assumption. Qed.
Print Assumptions C19_aux_matrix_block_is_phase_shift.

(** 4a / 4b. The same for any phase function, and over C for every real angle. *)
Theorem C19_aux_matrix_block_is_phase_shift_any_phase_function :
  forall (K : Scalar) (L : ScalarLaws K) (ph : Q -> K), character ph ->
  forall n : nat,
    blk0 n (circuit_mx (Datatypes.S n) ph (aux_circuit gen_aux n)) (shift_spec (ph 1%Q)).
Proof. intros K L ph H n. rewrite (aux_circuit_ok _ n gen_aux_ok). apply aux_blk0_char; assumption. Qed.
Print Assumptions C19_aux_matrix_block_is_phase_shift_any_phase_function.

Theorem C19_aux_matrix_block_is_phase_shift_complex :
  forall (theta : Rdefinitions.R) (n : nat),
    blk0 (K:=QubitReal.CK) n (circuit_mx (Datatypes.S n) (QubitReal.expq theta) (aux_circuit gen_aux n))
         (shift_spec (QubitReal.expi theta)).
Proof.
  intros theta n. rewrite <- QubitReal.expq_1.
  apply (C19_aux_matrix_block_is_phase_shift_any_phase_function QubitReal.CK QubitReal.CK_laws).
  apply QubitReal.expq_character.
Qed.
Print Assumptions C19_aux_matrix_block_is_phase_shift_complex.

(* ------------------------------------------------------------------ phase shift, as_matrix *)
Lemma gen_pmat_ok : pmat_src_ok gen_pmat.
Proof. split; vm_compute; reflexivity. Qed.

(** 4c. ProjectorControlledPhaseShift.as_matrix, expm(1j theta (a |0..0><0..0| + b 1)) with a, b read
    from the source (diagonal of exponentials), is the defining phase shift; hence the c-phase
    circuit has exactly the matrix as_matrix returns, and the auxiliary circuit has it on the
    auxiliary-|0> block.  Any number of encoding qubits, any phase function. *)
Theorem C19_phase_shift_as_matrix_is_phase_shift :
  forall (K : Scalar) (L : ScalarLaws K) (ph : Q -> K), character ph ->
  forall n : nat, meq n (pmat_mx ph gen_pmat) (shift_spec (ph 1%Q)).
Proof. intros K L ph H n. apply pmat_is_shift; [exact H|exact gen_pmat_ok]. Qed.
Print Assumptions C19_phase_shift_as_matrix_is_phase_shift.

Theorem C19_phase_shift_circuits_equal_as_matrix :
  forall (K : Scalar) (L : ScalarLaws K) (ph : Q -> K), character ph ->
  forall n : nat,
    ((1 <= n)%nat -> meq n (circuit_mx n ph (cphase_circuit gen_cphase n)) (pmat_mx ph gen_pmat)) /\
    blk0 n (circuit_mx (Datatypes.S n) ph (aux_circuit gen_aux n)) (pmat_mx ph gen_pmat).
Proof.
  intros K L ph H n. split.
  - intros Hn. eapply meq_trans; [apply C19_cphase_matrix_is_phase_shift_any_phase_function; assumption|].
    apply meq_sym. apply C19_phase_shift_as_matrix_is_phase_shift; assumption.
  - eapply blk0_meq; [apply C19_aux_matrix_block_is_phase_shift_any_phase_function; assumption|].
    apply meq_sym. apply C19_phase_shift_as_matrix_is_phase_shift; assumption.
Qed.
Print Assumptions C19_phase_shift_circuits_equal_as_matrix.

(* ------------------------------------------------------------------ eigenvalue transformation *)
(** 0. (does not depend on the regenerated definitions) The loop bound before the repair, range(start, dim): every odd length >= 3 loses its
    last pair (length 3 uses one angle and applies the encoding once). *)
Theorem C19_evt_unrepaired_refuted :
  exists len : Z, 1 <= len /\ evt_ops evt_src_unrepaired len <> alt_word len /\
                  angles (evt_ops evt_src_unrepaired len) = [0] /\
                  length (encodings (evt_ops evt_src_unrepaired len)) = 1%nat.
Proof. exists 3. split; [lia|]. split; [vm_compute; discriminate|]. split; reflexivity. Qed.
Print Assumptions C19_evt_unrepaired_refuted.

Theorem C19_evt_unrepaired_drops_last_pair :
  forall d : nat,
    evt_ops evt_src_unrepaired (2 * Z.of_nat (Datatypes.S d) + 1) = alt_word (2 * Z.of_nat d + 1).
Proof. exact unrepaired_odd. Qed.
Print Assumptions C19_evt_unrepaired_drops_last_pair.

(* bridges to the regenerated loop bounds / index expressions *)
Ltac Zify.zify_post_hook ::= Z.to_euclidean_division_equations.

Lemma pair_body_eq a b st i : a = 2 * i - st -> b = 2 * i + 1 - st ->
  [LP a; LU true; LP b; LU false] = pair_body st i.
Proof. intros -> ->. reflexivity. Qed.

Ltac evt_unfold g :=
  cbv [g ev_even ev_dim_even ev_start_even ev_prefix_even ev_dim_odd ev_start_odd ev_prefix_odd
       ev_lo ev_hi ev_body].

Ltac evt_ok g :=
  unfold evt_src_ok; conjs; evt_unfold g;
  [ (* the parity test, however it is written with ==, !=, % and `not` *)
    intros len H; rewrite even_mod2;
    repeat match goal with |- context [Z.eqb ?a ?b] => destruct (Z.eqb_spec a b) end;
    cbn [negb andb orb]; first [reflexivity | exfalso; lia]
  | intros len H E; apply Z.even_spec in E; destruct E as [k ->]; lia
  | reflexivity | reflexivity
  | intros len H E; rewrite <- Z.negb_odd in E; apply Bool.negb_false_iff in E;
    apply Z.odd_spec in E; destruct E as [k ->]; lia
  | reflexivity | reflexivity
  | intros; lia | intros; lia
  | intros; apply pair_body_eq; lia ].

(** holds for the repaired loop bound range(start, dim + start); with range(start, dim)
    the ninth obligation (ev_hi) is false and this lemma does not compile *)
Lemma gen_evt_mat_ok : evt_src_ok gen_evt_mat.
Proof. evt_ok gen_evt_mat. Qed.
Lemma gen_evt_circ_ok : evt_src_ok gen_evt_circ.
Proof. evt_ok gen_evt_circ. Qed.

(** 5. For every number of angles the factors as_matrix multiplies are exactly
    P(th_0) U^-+ P(th_1) U^+- ... P(th_(len-1)) U  (alternating, last factor U). *)
Theorem C19_evt_matrix_word_is_alternating :
  forall len : Z, 1 <= len -> evt_mat_word gen_evt_mat len = alt_word len.
Proof. intros. apply evt_ops_alt; [apply gen_evt_mat_ok|lia]. Qed.
Print Assumptions C19_evt_matrix_word_is_alternating.

(** 6. as_circuit prepends the same factors: read as a matrix product its gate list is the
    same word. *)
Theorem C19_evt_circuit_word_is_alternating :
  forall len : Z, 1 <= len -> gates_word (evt_circ_gates gen_evt_circ len) = alt_word len.
Proof. intros. rewrite circ_gates_word. apply evt_ops_alt; [apply gen_evt_circ_ok|lia]. Qed.
Print Assumptions C19_evt_circuit_word_is_alternating.

(** 7. Every angle is used exactly once (in order) and the encoding is applied exactly
    len(angles) times, alternating between U^-1 and U and ending with U. *)
Theorem C19_evt_every_angle_once_encoding_len_times :
  forall len : Z, 1 <= len ->
    angles (evt_mat_word gen_evt_mat len) = zrange 0 len /\
    encodings (evt_mat_word gen_evt_mat len) = map (fun k => Z.odd (len - 1 - k)) (zrange 0 len) /\
    length (encodings (evt_mat_word gen_evt_mat len)) = Z.to_nat len.
Proof.
  intros len H. rewrite C19_evt_matrix_word_is_alternating by assumption.
  split; [apply angles_alt|]. split; [apply encodings_alt|apply encodings_count].
Qed.
Print Assumptions C19_evt_every_angle_once_encoding_len_times.

(** 8. Hence the matrix is the defining alternating product, whatever the matrices of the
    phase shifts and of the block encoding are, *)
Theorem C19_evt_matrix_is_alternating_product :
  forall (K : Scalar) (n : nat) (P : Z -> BMx K) (U Ui : BMx K) (len : Z), 1 <= len ->
    word_mx n P U Ui (evt_mat_word gen_evt_mat len) = word_mx n P U Ui (alt_word len).
Proof. intros. rewrite C19_evt_matrix_word_is_alternating by assumption. reflexivity. Qed.
Print Assumptions C19_evt_matrix_is_alternating_product.

(** 9. and the circuit (wire 0 = auxiliary qubit of the phase shift, if any) has that matrix
    on the auxiliary-|0> block, provided every gate group has its matrix on that block
    (theorem 4 + blk0_kron_r for the phase shifts, blk0_kron_id for the block encoding).
    Without auxiliary qubit (c-phase) the two products are equal outright. *)
Theorem C19_evt_circuit_block_is_alternating_product :
  forall (K : Scalar) (L : ScalarLaws K) (m : nat) (Pc Pm : Z -> BMx K) (Uc Uic Um Uim : BMx K),
    (forall k, blk0 m (Pc k) (Pm k)) -> blk0 m Uc Um -> blk0 m Uic Uim ->
  forall len : Z, 1 <= len ->
    blk0 m (word_mx (Datatypes.S m) Pc Uc Uic (gates_word (evt_circ_gates gen_evt_circ len)))
           (word_mx m Pm Um Uim (alt_word len)).
Proof.
  intros K L m Pc Pm Uc Uic Um Uim HP HU HUi len H.
  rewrite C19_evt_circuit_word_is_alternating by assumption. apply word_blk0; assumption.
Qed.
Print Assumptions C19_evt_circuit_block_is_alternating_product.

Theorem C19_evt_circuit_cphase_is_alternating_product :
  forall (K : Scalar) (L : ScalarLaws K) (n : nat) (Pc Pm : Z -> BMx K) (Uc Uic Um Uim : BMx K),
    (forall k, meq n (Pc k) (Pm k)) -> meq n Uc Um -> meq n Uic Uim ->
  forall len : Z, 1 <= len ->
    meq n (word_mx n Pc Uc Uic (gates_word (evt_circ_gates gen_evt_circ len)))
          (word_mx n Pm Um Uim (alt_word len)).
Proof.
  intros K L n Pc Pm Uc Uic Um Uim HP HU HUi len H.
  rewrite C19_evt_circuit_word_is_alternating by assumption. apply word_mx_meq; assumption.
Qed.
Print Assumptions C19_evt_circuit_cphase_is_alternating_product.

(** 10. CLOSED FORM of clause "its circuit has that same matrix on the auxiliary-|0> block"
    (no hypotheses about the gate groups).  n encoding qubits, w system wires, U / Ui ANY
    matrices on the n + w wires of the block encoding (hence all three encoding methods and any
    encoded Hamiltonian), one phase function per angle.  Auxiliary method, wire 0 = auxiliary
    qubit: the circuit assembled by as_circuit - every phase-shift group is the gate product
    MCX Rz MCX read from the source (x) identity on the system, every block-encoding gate is
    identity on the auxiliary qubit (x) U^{+-} - has on the auxiliary-|0> block the matrix
    as_matrix multiplies together (defining phase shifts kron identity, U, Ui along the word
    of as_matrix), nothing leaks to auxiliary |1>, and that matrix is the alternating product. *)
Theorem C19_evt_circuit_auxiliary_closed_form :
  forall (K : Scalar) (L : ScalarLaws K) (phs : Z -> Q -> K), (forall k, character (phs k)) ->
  forall (n w : nat) (U Ui : BMx K) (len : Z), 1 <= len ->
    blk0 (n + w)
      (word_mx (Datatypes.S (n + w))
         (fun k => kron (Datatypes.S n) (circuit_mx (Datatypes.S n) (phs k) (aux_circuit gen_aux n)) mid)
         (kron 1 mid U) (kron 1 mid Ui) (gates_word (evt_circ_gates gen_evt_circ len)))
      (word_mx (n + w) (fun k => kron n (shift_spec (phs k 1%Q)) mid) U Ui (evt_mat_word gen_evt_mat len))
    /\ evt_mat_word gen_evt_mat len = alt_word len.
Proof.
  intros K L phs H n w U Ui len Hlen.
  rewrite C19_evt_circuit_word_is_alternating, C19_evt_matrix_word_is_alternating by assumption.
  split; [|reflexivity]. rewrite (aux_circuit_ok _ n gen_aux_ok). apply evt_aux_circuit_blk0. exact H.
Qed.
Print Assumptions C19_evt_circuit_auxiliary_closed_form.

(** 11. c-phase method (no auxiliary qubit): circuit matrix = as_matrix product outright. *)
Theorem C19_evt_circuit_cphase_closed_form :
  forall (K : Scalar) (L : ScalarLaws K) (phs : Z -> Q -> K), (forall k, character (phs k)) ->
  forall (n w : nat) (U Ui : BMx K) (len : Z), (1 <= n)%nat -> 1 <= len ->
    meq (n + w)
      (word_mx (n + w) (fun k => kron n (circuit_mx n (phs k) (cphase_circuit gen_cphase n)) mid)
               U Ui (gates_word (evt_circ_gates gen_evt_circ len)))
      (word_mx (n + w) (fun k => kron n (shift_spec (phs k 1%Q)) mid) U Ui (evt_mat_word gen_evt_mat len))
    /\ evt_mat_word gen_evt_mat len = alt_word len.
Proof.
  intros K L phs H n w U Ui len Hn Hlen.
  rewrite C19_evt_circuit_word_is_alternating, C19_evt_matrix_word_is_alternating by assumption.
  split; [|reflexivity]. rewrite (cphase_circuit_ok _ n gen_cphase_ok Hn). apply evt_cphase_circuit_meq; assumption.
Qed.
Print Assumptions C19_evt_circuit_cphase_closed_form.

(** 12. Both over C: any real angle sequence th. *)
Theorem C19_evt_circuit_closed_form_complex :
  forall (th : Z -> Rdefinitions.R) (n w : nat) (U Ui : BMx QubitReal.CK) (len : Z), 1 <= len ->
    blk0 (K:=QubitReal.CK) (n + w)
      (word_mx (Datatypes.S (n + w))
         (fun k => kron (Datatypes.S n) (circuit_mx (Datatypes.S n) (QubitReal.expq (th k)) (aux_circuit gen_aux n)) mid)
         (kron 1 mid U) (kron 1 mid Ui) (gates_word (evt_circ_gates gen_evt_circ len)))
      (word_mx (n + w) (fun k => kron n (shift_spec (QubitReal.expi (th k))) mid) U Ui (alt_word len))
    /\ ((1 <= n)%nat ->
        meq (K:=QubitReal.CK) (n + w)
          (word_mx (n + w) (fun k => kron n (circuit_mx n (QubitReal.expq (th k)) (cphase_circuit gen_cphase n)) mid)
                   U Ui (gates_word (evt_circ_gates gen_evt_circ len)))
          (word_mx (n + w) (fun k => kron n (shift_spec (QubitReal.expi (th k))) mid) U Ui (alt_word len))).
Proof.
  intros th n w U Ui len Hlen.
  assert (Hc : forall k, character (K:=QubitReal.CK) ((fun k => QubitReal.expq (th k)) k))
    by (intros k; apply QubitReal.expq_character).
  assert (E : (fun k => kron n (shift_spec (QubitReal.expi (th k))) (mid (K:=QubitReal.CK)))
            = (fun k => kron n (shift_spec (QubitReal.expq (th k) 1%Q)) mid)).
  { apply FunctionalExtensionality.functional_extensionality. intros k. rewrite QubitReal.expq_1. reflexivity. }
  rewrite E. split.
  - destruct (C19_evt_circuit_auxiliary_closed_form QubitReal.CK QubitReal.CK_laws _ Hc n w U Ui len Hlen) as [H1 H2].
    rewrite H2 in H1. exact H1.
  - intros Hn.
    destruct (C19_evt_circuit_cphase_closed_form QubitReal.CK QubitReal.CK_laws _ Hc n w U Ui len Hn Hlen) as [H1 H2].
    rewrite H2 in H1. exact H1.
Qed.
Print Assumptions C19_evt_circuit_closed_form_complex.

(** non-vacuity: a unit-modulus u that is not a root of unity of small order, 3 encoding
    qubits, over the Gaussian rationals; both methods; a 5-angle word *)
Example C19_instance :
  let u : QI := ((3 # 5)%Q, (4 # 5)%Q) in
  smul u (sconj u) = s1 /\
  dense 3 (circuit_mx 3 (upow_q 2 u) (cphase_circuit gen_cphase 3)) = dense 3 (shift_spec (upow u 4)) /\
  map (fun c => circuit_mx 4 (upow_q 0 u) (aux_circuit gen_aux 3) (false :: c) (false :: c)) (all_bits 3)
  = map (fun c => shift_spec u c c) (all_bits 3) /\
  evt_mat_word gen_evt_mat 5 = [LP 0; LU false; LP 1; LU true; LP 2; LU false; LP 3; LU true; LP 4; LU false].
Proof. vm_compute. repeat split. Qed.

(* ================================================================== histories / object lifetimes *)
(** The statements above are about ONE getter call.  The ones below are about an object that is
    used over time: any sequence of setter calls (set_theta, set_encoding_qubits,
    set_auxiliary_qubits, set_method; set_theta_seq, ... for the eigenvalue transformation) and
    getter calls (as_circuit, as_matrix).  [Run.GenQubitHist] is regenerated from the source:
    the bodies of the setters ([gen_pcps_setters], [gen_evt_setters]) and whether the getters store
    anything into the object or hand out an object they keep ([gen_pcps_getters],
    [gen_evt_getters] : GFresh / GReuse).
    Python hands out references: the model has a heap of value cells, a getter returns an address,
    and what the caller holds at the END of a history is the content of these cells at the end
    ([observed]).  [handed] is the reference semantics: the value of each getter call for the
    parameters current at that call. *)
Lemma gen_pcps_setters_ok : pcps_setters_ok gen_pcps_setters.
Proof. intros s [t e a m]. destruct s as [q|ws|ws|b]; try destruct m; try destruct b; reflexivity. Qed.
Lemma gen_evt_setters_ok : evt_setters_ok gen_pcps_setters gen_evt_setters.
Proof. intros s st. destruct s; reflexivity. Qed.

Notation pcps_set := (pset gen_pcps_setters).
Notation pcps_view := (pview gen_cphase gen_aux).
Notation evt_set := (eset gen_pcps_setters gen_evt_setters).
Notation evt_view := (eview gen_cphase gen_aux gen_evt_mat gen_evt_circ).
Notation evt_geff := (egeff gen_pcps_setters gen_evt_mat gen_evt_circ).

(** 13. ProjectorControlledPhaseShift, ANY history: at the end the caller holds, in every circuit /
    matrix it was ever handed, exactly what the getter returned at that call (the value for the
    parameters current THEN); appending further calls (setters or getters) to a history leaves
    what was handed out before unchanged.  Compiles only if the getters store nothing into the
    object and return an object built in the call. *)
Theorem C19_history_phase_shift_objects_keep_their_value :
  forall (st0 : pstate) (cs cs' : list (call psetter pgetter)),
    let I := kind_impl pcps_set pcps_view pgeff gen_pcps_getters in
    let w0 := kind_start pcps_set pcps_view pgeff gen_pcps_getters st0 in
    observed (irun I cs w0) = map Some (handed pcps_set pcps_view pgeff st0 cs) /\
    observed (irun I (cs ++ cs') w0)
    = observed (irun I cs w0) ++ map Some (handed pcps_set pcps_view pgeff (final pcps_set pgeff st0 cs) cs').
Proof.
  intros st0 cs cs' I w0. split;
    [apply kind_fresh_observed|apply kind_fresh_earlier_unaffected]; reflexivity.
Qed.
Print Assumptions C19_history_phase_shift_objects_keep_their_value.

(** 13a. (does not depend on the regenerated definitions) a getter that keeps the circuit it built,
    overwrites its angle on the next call and hands out the same object again is expressible in
    this model and is refuted by the history  as_circuit; set_theta; as_circuit. *)
Theorem C19_history_caching_getter_refuted :
  exists (st0 : pstate) (cs : list (call psetter pgetter)),
    let I := kind_impl (pset ideal_pcps_setters) (pview ideal_cphase ideal_aux) pgeff GReuse in
    observed (irun I cs (kind_start (pset ideal_pcps_setters) (pview ideal_cphase ideal_aux) pgeff GReuse st0))
    <> map Some (handed (pset ideal_pcps_setters) (pview ideal_cphase ideal_aux) pgeff st0 cs).
Proof.
  exists {| ps_theta := (1 # 2)%Q; ps_enc := [1; 2]%nat; ps_aux := [0]%nat; ps_auxm := true |},
         [CGet PGCircuit; CSet (SetTheta (3 # 4)%Q); CGet PGCircuit].
  vm_compute. discriminate.
Qed.
Print Assumptions C19_history_caching_getter_refuted.

Lemma pcanon_abs_gen_cphase st : ps_auxm st = false -> (1 <= length (ps_enc st))%nat ->
  pcanon_abs gen_cphase gen_aux st = pcanon_abs ideal_cphase ideal_aux st.
Proof. intros Hm Hn. unfold pcanon_abs, pcanon. rewrite Hm, (cphase_circuit_ok _ _ gen_cphase_ok Hn). reflexivity. Qed.
Lemma pcanon_abs_gen_aux st : ps_auxm st = true ->
  pcanon_abs gen_cphase gen_aux st = pcanon_abs ideal_cphase ideal_aux st.
Proof. intros Hm. unfold pcanon_abs, pcanon. rewrite Hm, (aux_circuit_ok _ _ gen_aux_ok). reflexivity. Qed.

(** 14. ... and that value is right: in ANY history, at every getter call the angle / the encoding
    qubits are what the most recent set_theta / set_encoding_qubits said (initial values
    otherwise), the circuit handed out is the circuit of THESE parameters (gates of the source
    with absolute angles coefficient * theta, moved to the bound qubits), and on its canonical
    wires it is exp(i theta (2|0..0><0..0| - 1)) for THAT theta (ph q = exp(i q): any
    *-homomorphism (Q,+) -> unit-modulus elements; auxiliary method: on the auxiliary-|0> block,
    auxiliary qubit returned to |0>). *)
Theorem C19_history_phase_shift_circuit_of_every_call :
  forall (K : Scalar) (L : ScalarLaws K) (ph : Q -> K), character ph ->
  forall (st0 : pstate) (cs : list (call psetter pgetter)),
    map (fun gp => ps_theta (snd gp)) (handed_states pcps_set pgeff st0 cs) = theta_trace (ps_theta st0) cs /\
    map (fun gp => ps_enc (snd gp)) (handed_states pcps_set pgeff st0 cs) = enc_trace (ps_enc st0) cs /\
    forall g st, In (g, st) (handed_states pcps_set pgeff st0 cs) ->
      pcps_view PGCircuit st = PVCircuit (map (relabel_gate (pwire st)) (pcanon_abs gen_cphase gen_aux st)) /\
      pcps_view PGMatrix st = PVMatrix (ps_theta st) (length (ps_enc st)) /\
      (ps_auxm st = false -> (1 <= length (ps_enc st))%nat ->
         meq (length (ps_enc st)) (circuit_mx (length (ps_enc st)) ph (pcanon_abs gen_cphase gen_aux st))
             (shift_spec (ph (ps_theta st)))) /\
      (ps_auxm st = true ->
         blk0 (length (ps_enc st)) (circuit_mx (Datatypes.S (length (ps_enc st))) ph (pcanon_abs gen_cphase gen_aux st))
              (shift_spec (ph (ps_theta st)))).
Proof.
  intros K L ph H st0 cs.
  split; [apply pcps_theta_trace, gen_pcps_setters_ok|].
  split; [apply pcps_enc_trace, gen_pcps_setters_ok|].
  intros g st _. split; [reflexivity|]. split; [reflexivity|]. split.
  - intros Hm Hn. rewrite pcanon_abs_gen_cphase by assumption. apply pcanon_abs_cphase; assumption.
  - intros Hm. rewrite pcanon_abs_gen_aux by assumption. apply pcanon_abs_aux; assumption.
Qed.
Print Assumptions C19_history_phase_shift_circuit_of_every_call.

(** 14a. over the complex numbers: ph q = exp(i q) *)
Theorem C19_history_phase_shift_circuit_of_every_call_complex :
  forall (st0 : pstate) (cs : list (call psetter pgetter)) g st,
    In (g, st) (handed_states pcps_set pgeff st0 cs) ->
      (ps_auxm st = false -> (1 <= length (ps_enc st))%nat ->
         meq (K:=QubitReal.CK) (length (ps_enc st))
             (circuit_mx (length (ps_enc st)) (QubitReal.expq Rdefinitions.R1) (pcanon_abs gen_cphase gen_aux st))
             (shift_spec (QubitReal.expq Rdefinitions.R1 (ps_theta st)))) /\
      (ps_auxm st = true ->
         blk0 (K:=QubitReal.CK) (length (ps_enc st))
              (circuit_mx (Datatypes.S (length (ps_enc st))) (QubitReal.expq Rdefinitions.R1) (pcanon_abs gen_cphase gen_aux st))
              (shift_spec (QubitReal.expq Rdefinitions.R1 (ps_theta st)))).
Proof.
  intros st0 cs g st Hin.
  destruct (C19_history_phase_shift_circuit_of_every_call QubitReal.CK QubitReal.CK_laws _
              (QubitReal.expq_character Rdefinitions.R1) st0 cs) as (_ & _ & Hall).
  destruct (Hall g st Hin) as (_ & _ & H1 & H2). split; assumption.
Qed.
Print Assumptions C19_history_phase_shift_circuit_of_every_call_complex.

(** 15. EigenvalueTransformation, ANY history of set_theta_seq / set_encoding_qubits /
    set_auxiliary_qubits / set_method / (the user's) processing.set_theta and as_matrix /
    as_circuit / processing.as_circuit calls: same heap statement.  The getters of this class DO
    change the shared phase-shift object (they leave its angle at the last angle used); this is
    part of the model ([egeff]). *)
Theorem C19_history_evt_objects_keep_their_value :
  forall (st0 : estate) (cs cs' : list (call esetter egetter)),
    let I := kind_impl evt_set evt_view evt_geff gen_evt_getters in
    let w0 := kind_start evt_set evt_view evt_geff gen_evt_getters st0 in
    observed (irun I cs w0) = map Some (handed evt_set evt_view evt_geff st0 cs) /\
    observed (irun I (cs ++ cs') w0)
    = observed (irun I cs w0) ++ map Some (handed evt_set evt_view evt_geff (final evt_set evt_geff st0 cs) cs').
Proof.
  intros st0 cs cs' I w0. split;
    [apply kind_fresh_observed|apply kind_fresh_earlier_unaffected]; reflexivity.
Qed.
Print Assumptions C19_history_evt_objects_keep_their_value.

(** 16. ... and in ANY history, at every getter call: the angle sequence is what the most recent
    set_theta_seq said (the getters' own set_theta calls and the user's do not disturb it);
    as_matrix is the product along the ALTERNATING word of that sequence, with the angle VALUES
    current at the call, whatever the matrices of the phase shift (as a function of the angle)
    and of the block encoding are; and neither as_matrix nor as_circuit depends on the angle the
    shared phase-shift object happens to hold. *)
Theorem C19_history_evt_matrix_of_every_call :
  forall (st0 : estate) (cs : list (call esetter egetter)),
    map (fun x => es_seq (snd x)) (handed_states evt_set evt_geff st0 cs) = seq_trace (es_seq st0) cs /\
    forall g st, In (g, st) (handed_states evt_set evt_geff st0 cs) -> (1 <= length (es_seq st))%nat ->
      let len := Z.of_nat (length (es_seq st)) in
      evt_view EGMatrix st = EVMatrix (vword (es_seq st) (alt_word len)) (length (ps_enc (es_proc st))) /\
      (forall (K : Scalar) (n : nat) (P : Q -> BMx K) (U Ui : BMx K),
          vword_mx n P U Ui (vword (es_seq st) (evt_mat_word gen_evt_mat len))
          = word_mx n (fun k => P (angle_at (es_seq st) k)) U Ui (alt_word len)) /\
      (forall t g', g' <> EGProcCircuit ->
          evt_view g' (upd_proc (upd_theta t (es_proc st)) st) = evt_view g' st).
Proof.
  intros st0 cs. split; [apply evt_seq_trace, gen_evt_setters_ok|].
  intros g st _ Hl len. split; [|split].
  - cbn [eview]. unfold len. rewrite (vword_alt _ _ gen_evt_mat_ok Hl). reflexivity.
  - intros K n P U Ui. rewrite vword_mx_word. unfold len.
    rewrite C19_evt_matrix_word_is_alternating by lia. reflexivity.
  - intros t g' Hg. apply eview_independent_of_processing_theta. exact Hg.
Qed.
Print Assumptions C19_history_evt_matrix_of_every_call.

(** non-vacuity: a history with every setter, evaluated *)
Example C19_history_instance :
  let st0 := {| ps_theta := (1 # 2)%Q; ps_enc := [1; 2]%nat; ps_aux := [0]%nat; ps_auxm := true |} in
  let cs := [CGet PGCircuit; CSet (SetTheta (3 # 4)%Q); CGet PGCircuit; CSet (SetEnc [2; 0]%nat); CSet (SetAux [1]%nat);
             CGet PGCircuit; CSet (SetMethod false); CGet PGCircuit; CGet PGMatrix] in
  theta_trace (ps_theta st0) cs = [(1 # 2); (3 # 4); (3 # 4); (3 # 4); (3 # 4)]%Q /\
  nth_error (handed pcps_set pcps_view pgeff st0 cs) 2
  = Some (PVCircuit [GMCX [(2, false); (0, false)]%nat 1; GRz (3 # 2) 1; GMCX [(2, false); (0, false)]%nat 1]) /\
  nth_error (handed pcps_set pcps_view pgeff st0 cs) 3
  = Some (PVCircuit [GRz (- (3 # 4)) 2; GCRz [(2%nat, false)] (- (3 # 2)) 0; GPhase (- (3 # 8)) [2; 0]%nat]).
Proof. vm_compute. repeat split. Qed.
