(** C16 (Pauli part) - Hermiticity claims of Pauli strings (exact, both directions: see
    C09_is_hermitian_iff), weighted strings and Pauli operators are sound.
    WeightedPauliString.is_hermitian() is `([1,-1j,-1,1j][q] * weight).imag == 0`, i.e. the
    product phase*weight is self-conjugate; the table is regenerated from the source. *)
From Qib Require Import Pauli.PauliProofs3 Base.Inst.
From Run Require Import GenPauli.

Theorem C16_pauli_string_flag_exact :
  forall (K : Scalar) (L : ScalarLaws K), sadd (s1 (s:=K)) s1 <> s0 ->
  forall n p, wfp n p -> (gen_is_hermitian (pq p) = true <-> hermitian (K:=K) n (pmatrix p)).
Proof.
  intros K L Two n p W. change (gen_is_hermitian (pq p)) with (pherm p). split.
  - apply pherm_sound.
  - apply (pherm_complete n p Two W).
Qed.
Print Assumptions C16_pauli_string_flag_exact.

Theorem C16_weighted_pauli_string_flag_sound :
  forall (K : Scalar) (L : ScalarLaws K) n p (w : K),
    gen_weighted_herm_table = [(1, 0); (0, -1); (-1, 0); (0, 1)]%Z /\
    (sconj (smul (mipz (pq p)) w) = smul (mipz (pq p)) w -> hermitian (K:=K) n (wmatrix (p, w))).
Proof. intros K L n p w. split; [reflexivity|apply wmatrix_hermitian]. Qed.
Print Assumptions C16_weighted_pauli_string_flag_sound.

(** ... and complete: a weighted string with a Hermitian matrix has a self-conjugate
    phase*weight (in binary64: `.imag == 0` holds exactly when phase*weight is exactly
    representable as a real number - the proviso in the property text).  The entry
    (px, 0...0) of a string's matrix is a unit, so the scalar can be read off it. *)
Theorem C16_weighted_pauli_string_flag_complete :
  forall (K : Scalar) (L : ScalarLaws K) n p (w : K),
    wfp n p -> hermitian (K:=K) n (wmatrix (p, w)) ->
    sconj (smul (mipz (pq p)) w) = smul (mipz (pq p)) w.
Proof.
  intros K L n p w [Hz Hx] Hh.
  pose proof (s_ring K L) as RT.
  assert (HX : length (px p) = n) by exact Hx.
  specialize (Hh (px p) (zeros (length (px p))) HX ltac:(rewrite zeros_length; exact HX)).
  unfold madj, wmatrix in Hh. cbn [fst snd] in Hh. rewrite !pmatrix_kron in Hh.
  rewrite !(conj_mul K L), letters_mat_herm in Hh. rewrite letters_zx in Hh.
  assert (U := zx_mat_unit (K:=K) (pz p) (px p) ltac:(congruence)).
  assert (Ud := mipz_unit (K:=K) (dotz (pz p) (px p))).
  set (M := zx_mat (pz p) (px p) (px p) (zeros (length (px p)))) in *.
  set (d := mipz (dotz (pz p) (px p)) : K) in *. set (d' := mipz (- dotz (pz p) (px p)) : K) in *.
  set (a := mipz (pq p) : K) in *.
  rewrite (conj_mul K L).
  assert (E1 : smul (smul (sconj a) (sconj w)) (smul (smul d M) (smul d' M))
               = smul (smul a w) (smul (smul d M) (smul d' M))).
  { transitivity (smul (smul (sconj w) (smul (sconj a) (smul d M))) (smul d' M)).
    - destruct RT. rewrite (Rmul_comm (sconj a) (sconj w)), <- !Rmul_assoc. reflexivity.
    - rewrite Hh. destruct RT. rewrite (Rmul_comm a w), <- !Rmul_assoc. reflexivity. }
  assert (E2 : smul (smul d M) (smul d' M) = s1).
  { transitivity (smul (smul d d') (smul M M)).
    - destruct RT. rewrite <- !Rmul_assoc. f_equal. rewrite !Rmul_assoc. f_equal. apply Rmul_comm.
    - rewrite Ud, U. destruct RT. apply Rmul_1_l. }
  rewrite E2 in E1. destruct RT.
  rewrite (Rmul_comm _ s1), (Rmul_comm _ s1), !Rmul_1_l in E1. exact E1.
Qed.
Print Assumptions C16_weighted_pauli_string_flag_complete.

Theorem C16_pauli_operator_flag_sound :
  forall (K : Scalar) (L : ScalarLaws K) n (op : list (wstr (K:=K))),
    gen_operator_hermitian_is_all_strings = true ->
    Forall (fun pw => sconj (smul (mipz (pq (fst pw))) (snd pw)) = smul (mipz (pq (fst pw))) (snd pw)) op ->
    hermitian (K:=K) n (opmatrix op).
Proof. intros K L n op _. apply opmatrix_hermitian. Qed.
Print Assumptions C16_pauli_operator_flag_sound.
