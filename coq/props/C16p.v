(** C16 (Pauli part) - Hermiticity claims of Pauli strings (exact, both directions: see
    C09_is_hermitian_iff), weighted strings and Pauli operators are sound.
    WeightedPauliString.is_hermitian() is `([1,-1j,-1,1j][q] * weight).imag == 0`, i.e. the
    product phase*weight is self-conjugate; the table is regenerated from the source. *)
From Qib Require Import Pauli.PauliProofs3 Base.Inst.
From Run Require Import GenPauli.

Theorem C16_pauli_string_flag_exact :
  forall (K : Scalar) (L : ScalarLaws K), sadd (s1 (s:=K)) s1 <> s0 ->
  forall n p, wfp n p -> (gen_is_hermitian (pq p) = true <-> hermitian (K:=K) n (pmatrix p)).
Proof.
  intros K L Two n p W. change (gen_is_hermitian (pq p)) with (pherm p). split.
  - apply pherm_sound.
  - apply (pherm_complete n p Two W).
Qed.
Print Assumptions C16_pauli_string_flag_exact.

Theorem C16_weighted_pauli_string_flag_sound :
  forall (K : Scalar) (L : ScalarLaws K) n p (w : K),
    gen_weighted_herm_table = [(1, 0); (0, -1); (-1, 0); (0, 1)]%Z /\
    (sconj (smul (mipz (pq p)) w) = smul (mipz (pq p)) w -> hermitian (K:=K) n (wmatrix (p, w))).
Proof. intros K L n p w. split; [reflexivity|apply wmatrix_hermitian]. Qed.
Print Assumptions C16_weighted_pauli_string_flag_sound.

Theorem C16_pauli_operator_flag_sound :
  forall (K : Scalar) (L : ScalarLaws K) n (op : list (wstr (K:=K))),
    gen_operator_hermitian_is_all_strings = true ->
    Forall (fun pw => sconj (smul (mipz (pq (fst pw))) (snd pw)) = smul (mipz (pq (fst pw))) (snd pw)) op ->
    hermitian (K:=K) n (opmatrix op).
Proof. intros K L n op _. apply opmatrix_hermitian. Qed.
Print Assumptions C16_pauli_operator_flag_sound.
