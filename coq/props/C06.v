(** C06 - a gate's tensor network is its matrix, one axis pair per wire.
    Property theorems only.  [Run.GenGateNet] is regenerated from
    /repo/src/qib/operator/gates.py and /repo/src/qib/tensor_network/tensor_network.py on every
    run (gen/gatenet.py): the BUILD PROGRAMS of the wrap / controlled / multiplexer /
    phase-factor / prepare networks, the cross-tensor entries, the Pauli-X and |0> literals and
    the table "which gate class hands what to TensorNetwork.wrap".  The statements below are
    about these generated programs; the symbolic-network notions (WF, is_consistent,
    num_open_axes, shape, bond dimension, defining_sum = the value after expanding shared
    axes) are those of the generic model Qib.TN; tensor DATA and numpy's reshape/stack are
    hand-modelled (Qib.GateNet.GateNetModel) and tied by the correspondence run. *)
From Qib Require Import GateNet.GateNetProofs TN.TNEinsumPort Base.Inst.
From Qib Require Gates.CompModel.
From Run Require Import GenGateNet.
Local Open Scope Z_scope.

(* ------------------------------------------------------------------ the generated programs are the model *)
Lemma gen_wrap_is_model shp : gen_wrap_build shp = wrap_build shp.
Proof. reflexivity. Qed.
Lemma gen_ctrl_is_model nc nt cs : gen_ctrl_build nc nt cs = ctrl_build nc nt cs.
Proof. reflexivity. Qed.
Lemma gen_mux_is_model nc nt : gen_mux_build nc nt = mux_build nc nt.
Proof. reflexivity. Qed.
Lemma gen_phase_is_model n : gen_phase_build n = phase_build n.
Proof. reflexivity. Qed.
Lemma gen_prep_is_model n tr : gen_prep_build n tr = prep_build n tr.
Proof. reflexivity. Qed.
Lemma gen_literals_are_model :
  gen_cross_pos_entries = cross_pos_entries /\ gen_cross_neg_entries = cross_neg_entries
  /\ gen_paulix_rows = paulix_rows /\ gen_ket0_entries = ket0_entries.
Proof. repeat split; reflexivity. Qed.
Lemma gen_flatten_is_model nc cs nc' cs' g :
  flatten nc cs (NCtrl nc' cs' g) = flatten (fst (gen_flatten_step nc cs nc' cs')) (snd (gen_flatten_step nc cs nc' cs')) g.
Proof. reflexivity. Qed.

(** data dictionaries built from the generated literals *)
Definition gen_ctrl_data {K : Scalar} (nt : nat) (U : BMx K) : Z -> list nat -> K :=
  fun ref =>
    if Z.eqb ref REF_main then ctg_data nt U
    else if Z.eqb ref REF_neg then entries_data gen_cross_neg_entries
    else if Z.eqb ref REF_pos then entries_data gen_cross_pos_entries
    else if Z.eqb ref REF_PauliX then rows_data gen_paulix_rows
    else fun _ => s0.
Definition gen_prep_data {K : Scalar} (x : bits -> K) : Z -> list nat -> K :=
  fun ref idx =>
    if Z.eqb ref REF_main then x (map bn idx)
    else if Z.eqb ref REF_ket0 then vec_data gen_ket0_entries idx
    else s0.

Section RingHelpers.
  Context {K : Scalar} {L : ScalarLaws K}.
  Add Ring KringC06 : (s_ring K L).
  Lemma kmul_ite (a : K) (b : bool) : smul a (if b then s1 else s0) = if b then a else s0.
  Proof. destruct b; ring. Qed.
  Lemma kmul_ite_l (a : K) (b : bool) : smul (if b then s1 else s0) a = if b then a else s0.
  Proof. destruct b; ring. Qed.
End RingHelpers.

(** the full index of a gate tensor: output bits of all wires, then input bits *)
Definition gidx (r c : bits) : list nat := map nb (r ++ c).

(* ================================================================== link to the implementation's contraction *)
(** 0. The theorems below state values as [defining_sum] of the generated network.  What the
    library computes is  to_full_tensor applied to net.contract_einsum() ; C07 (a)
    (TN.TNEinsumPort.contract_einsum_correct / contract_einsum_total, the literal port of
    as_einsum / contract_einsum / to_full_tensor) proves that this IS the defining sum on every
    network satisfying the invariant.  Composed here for every well-built gate network on
    w >= 1 wires: contract_einsum answers, the expansion has 2w axes of dimension 2, and its
    entry at (outputs r, inputs c) is the defining sum used in theorems 1-12. *)
Lemma gidx_in_range w r c : length r = w -> length c = w -> in_range (repeat 2%nat (2 * w)) (gidx r c).
Proof.
  intros Hr Hc. split.
  - unfold gidx. rewrite map_length, app_length, repeat_length. lia.
  - intros k d Hk. apply nth_error_In in Hk. apply repeat_spec in Hk. subst d.
    unfold gidx. destruct (Nat.lt_ge_cases k (length (r ++ c))) as [Hlt|Hge].
    + rewrite (nth_indep _ O (nb false)) by (rewrite map_length; exact Hlt). rewrite map_nth.
      destruct (nth k (r ++ c) false); cbn; lia.
    + rewrite nth_overflow by (rewrite map_length; exact Hge). lia.
Qed.

Theorem C06_contract_einsum_expands_to_the_defining_sum :
  forall (K : Scalar) (L : ScalarLaws K) (st : bst) (w nbonds : nat) (data : Z -> list nat -> K),
    gate_net_ok st w nbonds -> (1 <= w)%nat ->
    exists v am, contract_einsum (net_of st) data = Some (v, am)
      /\ fst (to_full_tensor v am) = repeat 2%nat (2 * w)
      /\ forall r c, length r = w -> length c = w ->
           snd (to_full_tensor v am) (gidx r c) = defining_sum (net_of st) data (gidx r c).
Proof.
  intros K L st w nbonds data G Hw. destruct G as [_ W _ Hax Hsh _ _].
  assert (NE : real_tensors (net_of st) <> [] \/ vbids (net_of st) <> []).
  { right. unfold num_open_axes in Hax. unfold vbids.
    destruct (dget VT (tensors (net_of st))) as [vt|] eqn:Ev; [|discriminate].
    cbn [option_map] in Hax. injection Hax as Hax. unfold t_ndim in Hax.
    destruct (wf_T _ (proj1 W) VT vt (dget_In _ _ _ Ev)) as [_ Hl].
    intros E. rewrite E in Hl. cbn in Hl. lia. }
  destruct (contract_einsum_total (net_of st) data W NE) as [v [am H]].
  exists v, am. split; [exact H|].
  destruct (contract_einsum_correct (net_of st) data v am W H) as [shp [S1 [S2 S3]]].
  rewrite Hsh in S1. injection S1 as <-. split; [exact S2|].
  intros r c Hr Hc. apply S3. apply gidx_in_range; assumption.
Qed.
Print Assumptions C06_contract_einsum_expands_to_the_defining_sum.

(* ================================================================== wrap *)
(** 1. wrap(a) is consistent, has the shape of a and contracts to a  (any shape) *)
Theorem C06_wrap_is_consistent_and_contracts_to_the_tensor :
  forall (K : Scalar) (L : ScalarLaws K) (shp : list nat) (a : list nat -> K),
    let st := gen_wrap_build shp in
    s_ok st = true /\ WF (net_of st) /\ is_consistent (net_of st) = true
    /\ num_open_axes (net_of st) = Some (length shp) /\ TNModel.shape (net_of st) = Some shp
    /\ forall x, length x = length shp -> (forall i, (i < length shp)%nat -> (nth i x O < nth i shp O)%nat) ->
                 defining_sum (net_of st) (wrap_data a) x = a x.
Proof.
  intros K L shp a. cbv zeta. rewrite gen_wrap_is_model.
  destruct (wrap_structure shp) as [H1 [H2 [H3 [H4 [H5 _]]]]].
  refine (conj H1 (conj H2 (conj H3 (conj H4 (conj H5 _))))).
  intros x Hx Hlt. apply (wrap_value shp a x Hx Hlt).
Qed.
Print Assumptions C06_wrap_is_consistent_and_contracts_to_the_tensor.

(** 2. a gate that wraps its matrix reshaped to 2n axes of dimension 2 (GeneralGate, and every
    one-wire gate, whose 2x2 matrix needs no reshape): two open axes per wire, outputs first,
    and the value is the matrix *)
Theorem C06_wrapped_matrix_has_two_axes_per_wire :
  forall (K : Scalar) (L : ScalarLaws K) (n : nat) (M : BMx K),
    let st := gen_wrap_build (repeat 2%nat (2 * n)) in
    s_ok st = true /\ is_consistent (net_of st) = true
    /\ num_open_axes (net_of st) = Some (2 * n)%nat /\ TNModel.shape (net_of st) = Some (repeat 2%nat (2 * n))
    /\ forall r c, length r = n -> length c = n ->
         defining_sum (net_of st) (wrap_data (reshape_mx n M)) (gidx r c) = M r c.
Proof.
  intros K L n M. cbv zeta. rewrite gen_wrap_is_model.
  destruct (wrap_structure (repeat 2%nat (2 * n))) as [H1 [H2 [H3 [H4 [H5 _]]]]].
  rewrite repeat_length in H4. refine (conj H1 (conj H3 (conj H4 (conj H5 _)))).
  intros r c Hr Hc. unfold gidx. rewrite wrap_value.
  - apply reshape_val. exact Hr.
  - rewrite map_length, app_length, repeat_length. lia.
  - rewrite repeat_length. intros i Hi.
    rewrite (nth_indep (repeat 2%nat (2 * n)) O 2%nat) by (rewrite repeat_length; exact Hi). rewrite nth_repeat.
    rewrite (nth_indep _ O (nb false)) by (rewrite map_length, app_length; lia). rewrite map_nth.
    destruct (nth i (r ++ c) false); cbn; lia.
Qed.
Print Assumptions C06_wrapped_matrix_has_two_axes_per_wire.

(* ================================================================== controlled gates *)
(** 3. L1: for ALL numbers of controls >= 1, ALL control patterns, ALL numbers of targets the
    build program raises no exception and yields a network that satisfies the exact incidence
    invariant WF (hence the library's is_consistent), has exactly 2*(ncontrols+ntargets) open
    axes, all of dimension 2, every bond of dimension 2, bonds 0..N-1 *)
Theorem C06_controlled_network_structure :
  forall (m nt : nat) (p0 : bool) (pt : list bool), length pt = m ->
    gate_net_ok (gen_ctrl_build (Z.of_nat (S m)) (Z.of_nat nt) (map b2z (p0 :: pt)))
                (S m + nt) (S (2 * nt + (if p0 then 0 else 2) + 3 * m)).
Proof. intros m nt p0 pt H. rewrite gen_ctrl_is_model. exact (ctrl_structure m nt p0 pt H). Qed.
Print Assumptions C06_controlled_network_structure.

(** 4. the guard: without a control qubit the build program raises (ctrl_state[0]) *)
Theorem C06_controlled_network_needs_a_control :
  forall nt : Z, s_ok (gen_ctrl_build 0 nt []) = false.
Proof. intros nt. rewrite gen_ctrl_is_model. apply ctrl_needs_a_control. Qed.
Print Assumptions C06_controlled_network_needs_a_control.

(** 5. L2: the network contracts -- generic defining sum over ALL bonds, shared open control
    axes expanded -- to the controlled gate's matrix (CompModel.ctrl_mat = the model of
    ControlledGate.as_matrix), index order: outputs of controls, outputs of targets, inputs of
    controls, inputs of targets; for all sizes and patterns and every target matrix *)
Theorem C06_controlled_network_is_the_matrix :
  forall (K : Scalar) (L : ScalarLaws K) (m nt : nat) (p0 : bool) (pt : list bool) (U : BMx K)
         (oc ic ot it : bits),
    length pt = m -> length oc = S m -> length ic = S m -> length ot = nt -> length it = nt ->
    defining_sum (net_of (gen_ctrl_build (Z.of_nat (S m)) (Z.of_nat nt) (map b2z (p0 :: pt))))
                 (gen_ctrl_data nt U) (gidx (oc ++ ot) (ic ++ it))
    = CompModel.ctrl_mat (p0 :: pt) U (oc ++ ot) (ic ++ it).
Proof.
  intros K L m nt p0 pt U oc ic ot it Hpt Hoc Hic Hot Hit.
  destruct oc as [|xo0 xos]; [discriminate|]. destruct ic as [|xi0 xis]; [discriminate|].
  rewrite gen_ctrl_is_model. unfold gidx. rewrite <- app_assoc.
  change (gen_ctrl_data nt U) with (ctrl_data nt U).
  apply (ctrl_net_is_matrix m nt p0 pt U xo0 xi0 xos xis ot it); cbn [length] in *; lia.
Qed.
Print Assumptions C06_controlled_network_is_the_matrix.

(** 5-impl. hence: what the implementation's contract_einsum returns for a controlled gate,
    expanded by to_full_tensor, is the gate's matrix (composition of 0, 3 and 5) *)
Theorem C06_controlled_contract_einsum_is_the_matrix :
  forall (K : Scalar) (L : ScalarLaws K) (m nt : nat) (p0 : bool) (pt : list bool) (U : BMx K),
    length pt = m ->
    exists v am,
      contract_einsum (net_of (gen_ctrl_build (Z.of_nat (S m)) (Z.of_nat nt) (map b2z (p0 :: pt))))
                      (gen_ctrl_data nt U) = Some (v, am)
      /\ fst (to_full_tensor v am) = repeat 2%nat (2 * (S m + nt))
      /\ forall oc ic ot it : bits,
           length oc = S m -> length ic = S m -> length ot = nt -> length it = nt ->
           snd (to_full_tensor v am) (gidx (oc ++ ot) (ic ++ it))
           = CompModel.ctrl_mat (p0 :: pt) U (oc ++ ot) (ic ++ it).
Proof.
  intros K L m nt p0 pt U Hpt.
  destruct (C06_contract_einsum_expands_to_the_defining_sum K L _ _ _ (gen_ctrl_data nt U)
              (C06_controlled_network_structure m nt p0 pt Hpt) ltac:(lia)) as [v [am [H1 [H2 H3]]]].
  exists v, am. split; [exact H1|]. split; [exact H2|].
  intros oc ic ot it Hoc Hic Hot Hit.
  rewrite H3 by (rewrite app_length; lia).
  apply C06_controlled_network_is_the_matrix; assumption.
Qed.
Print Assumptions C06_controlled_contract_einsum_is_the_matrix.

(** 5'. the same value as entries: identity unless the controls read the pattern *)
Theorem C06_controlled_network_entries :
  forall (K : Scalar) (L : ScalarLaws K) (m nt : nat) (p0 : bool) (pt : list bool) (U : BMx K)
         (oc ic ot it : bits),
    length pt = m -> length oc = S m -> length ic = S m -> length ot = nt -> length it = nt ->
    defining_sum (net_of (gen_ctrl_build (Z.of_nat (S m)) (Z.of_nat nt) (map b2z (p0 :: pt))))
                 (gen_ctrl_data nt U) (gidx (oc ++ ot) (ic ++ it))
    = if beq oc ic then (if beq oc (p0 :: pt) then U ot it else mid ot it) else s0.
Proof.
  intros K L m nt p0 pt U oc ic ot it Hpt Hoc Hic Hot Hit.
  rewrite (C06_controlled_network_is_the_matrix K L m nt p0 pt U oc ic ot it) by assumption.
  apply (ctrl_mat_split (p0 :: pt) nt U oc ic ot it); cbn [length]; lia.
Qed.
Print Assumptions C06_controlled_network_entries.

(** 6. nested controlled gates: the network is that of ONE controlled gate with the
    concatenated pattern, and that gate has the matrix of the nest *)
Theorem C06_nested_controlled_gate_is_flattened :
  forall (nc : Z) (cs : list Z) (g : cnest), nest_wf (NCtrl nc cs g) ->
    cnest_build (NCtrl nc cs g)
    = gen_ctrl_build (nest_ncontrols (NCtrl nc cs g)) (nest_targets g) (nest_pattern (NCtrl nc cs g)).
Proof. intros. rewrite gen_ctrl_is_model. apply nested_is_flattened. assumption. Qed.
Print Assumptions C06_nested_controlled_gate_is_flattened.

Theorem C06_nested_controlled_matrix :
  forall (K : Scalar) (L : ScalarLaws K) (p1 p2 : list bool) (nt : nat) (U : BMx K),
    meq (length (p1 ++ p2) + nt) (CompModel.ctrl_mat (p1 ++ p2) U) (CompModel.ctrl_mat p1 (CompModel.ctrl_mat p2 U)).
Proof. intros. apply ctrl_mat_app. Qed.
Print Assumptions C06_nested_controlled_matrix.

(* ================================================================== multiplexer *)
(** 7. L1 for all widths *)
Theorem C06_multiplexer_network_structure :
  forall nc nt : nat, gate_net_ok (gen_mux_build (Z.of_nat nc) (Z.of_nat nt)) (nc + nt) (2 * nt + nc).
Proof. intros. rewrite gen_mux_is_model. exact (mux_structure nc nt). Qed.
Print Assumptions C06_multiplexer_network_structure.

(** 8. L2: block diagonal, the block selected by the (shared) control axes *)
Theorem C06_multiplexer_network_is_the_matrix :
  forall (K : Scalar) (L : ScalarLaws K) (nc nt : nat) (Us : list (BMx K)) (oc ot ic it : bits),
    length oc = nc -> length ic = nc -> length ot = nt -> length it = nt ->
    defining_sum (net_of (gen_mux_build (Z.of_nat nc) (Z.of_nat nt))) (mux_data nc nt Us)
                 (gidx (oc ++ ot) (ic ++ it))
    = CompModel.block_diag nc Us (oc ++ ot) (ic ++ it).
Proof.
  intros. rewrite gen_mux_is_model. unfold gidx. rewrite <- app_assoc. apply mux_net_is_matrix; assumption.
Qed.
Print Assumptions C06_multiplexer_network_is_the_matrix.

(* ================================================================== phase factor *)
(** 9. L1 and L2 for all widths: w^n times the identity for the per-wire factor w *)
Theorem C06_phase_network_structure :
  forall n : nat, gate_net_ok (gen_phase_build (Z.of_nat n)) n (2 * n).
Proof. intros. rewrite gen_phase_is_model. exact (phase_structure n). Qed.
Print Assumptions C06_phase_network_structure.

Theorem C06_phase_network_is_phase_times_identity :
  forall (K : Scalar) (L : ScalarLaws K) (n : nat) (w : K) (r c : bits), length r = n -> length c = n ->
    defining_sum (net_of (gen_phase_build (Z.of_nat n))) (phase_data w) (gidx r c)
    = smul (kpow w n) (mid r c).
Proof.
  intros K L n w r c Hr Hc. rewrite gen_phase_is_model. unfold gidx. rewrite phase_value by assumption.
  unfold mid. rewrite kmul_ite. reflexivity.
Qed.
Print Assumptions C06_phase_network_is_phase_times_identity.

(* ================================================================== prepare (the documented exception) *)
(** 10. L1 for all widths and both orientations *)
Theorem C06_prepare_network_structure :
  forall (n : nat) (tr : bool), gate_net_ok (gen_prep_build (Z.of_nat n) tr) n (2 * n).
Proof. intros. rewrite gen_prep_is_model. exact (prep_structure n tr). Qed.
Print Assumptions C06_prepare_network_structure.

(** 11. L2: the network is the rank-one map |x><0...0| (transposed: |0...0><x|) *)
Theorem C06_prepare_network_is_rank_one :
  forall (K : Scalar) (L : ScalarLaws K) (n : nat) (tr : bool) (x : bits -> K) (r c : bits),
    length r = n -> length c = n ->
    defining_sum (net_of (gen_prep_build (Z.of_nat n) tr)) (gen_prep_data x) (gidx r c)
    = if tr then smul (if allfalse r then s1 else s0) (x c) else smul (x r) (if allfalse c then s1 else s0).
Proof.
  intros K L n tr x r c Hr Hc. rewrite gen_prep_is_model. unfold gidx.
  change (gen_prep_data x) with (prep_data x). apply prep_value; assumption.
Qed.
Print Assumptions C06_prepare_network_is_rank_one.

(** 12. ... and agrees with a gate matrix G whose column 0 (row 0 if transposed) is x on the
    all-zero input *)
Theorem C06_prepare_network_agrees_on_zero_input :
  forall (K : Scalar) (L : ScalarLaws K) (n : nat) (tr : bool) (x : bits -> K) (G : BMx K) (b : bits),
    length b = n ->
    (forall z, length z = n -> allfalse z = true -> if tr then G z b = x b else G b z = x b) ->
    forall z, length z = n -> allfalse z = true ->
      (if tr then defining_sum (net_of (gen_prep_build (Z.of_nat n) tr)) (gen_prep_data x) (gidx z b) = G z b
       else defining_sum (net_of (gen_prep_build (Z.of_nat n) tr)) (gen_prep_data x) (gidx b z) = G b z).
Proof.
  intros K L n tr x G b Hb HG z Hz Hz0. specialize (HG z Hz Hz0).
  destruct tr.
  - rewrite (C06_prepare_network_is_rank_one K L n true x z b Hz Hb). cbv beta iota.
    rewrite kmul_ite_l, Hz0, HG. reflexivity.
  - rewrite (C06_prepare_network_is_rank_one K L n false x b z Hb Hz). cbv beta iota.
    rewrite kmul_ite, Hz0, HG. reflexivity.
Qed.
Print Assumptions C06_prepare_network_agrees_on_zero_input.

(* ================================================================== the other gate classes *)
Definition RAW : nat := 0.
Definition is_known_two_qubit_wrap (name : list nat) : bool :=
  existsb (list_eqb Nat.eqb name)
          [[82; 120; 120; 71; 97; 116; 101];      (* RxxGate *)
           [82; 121; 121; 71; 97; 116; 101];      (* RyyGate *)
           [82; 122; 122; 71; 97; 116; 101];      (* RzzGate *)
           [73; 83; 119; 97; 112; 71; 97; 116; 101]]%nat.   (* ISwapGate *)

(** 13. every gate class that hands its matrix to wrap WITHOUT reshaping it acts on one wire
    (its 2x2 matrix already has one output and one input axis, theorem 2 with n = 1) --
    except the four known classes (KNOWN FINDING, see 13') *)
Theorem C06_unreshaped_wrap_only_for_one_wire_gates_partial :
  forall name nw kind, In (name, nw, kind) gen_wrap_table -> kind = RAW ->
    is_known_two_qubit_wrap name = false -> nw = Some 1%nat.
Proof.
  assert (H : forallb (fun e : list nat * option nat * nat =>
                         let '(name, nw, kind) := e in
                         negb (Nat.eqb kind RAW) || is_known_two_qubit_wrap name
                         || match nw with Some 1%nat => true | _ => false end) gen_wrap_table = true)
    by (vm_compute; reflexivity).
  intros name nw kind Hin Hk Hn. rewrite forallb_forall in H. specialize (H _ Hin). cbv beta iota in H.
  subst kind. rewrite Hn in H. cbn in H. destruct nw as [[|[|?]]|]; try discriminate. reflexivity.
Qed.
Print Assumptions C06_unreshaped_wrap_only_for_one_wire_gates_partial.

(** 13'. the full statement "two open axes per wire for EVERY gate class" is refuted by the
    code as it is: a two-wire gate class wraps its 4x4 matrix unreshaped (2 open axes of
    dimension 4) *)
Theorem C06_two_axes_per_wire_refuted :
  exists name, In (name, Some 2%nat, RAW) gen_wrap_table
               /\ num_open_axes (net_of (gen_wrap_build [4%nat; 4%nat])) = Some 2%nat.
Proof. exists [82; 120; 120; 71; 97; 116; 101]%nat. split; [vm_compute; tauto | reflexivity]. Qed.
Print Assumptions C06_two_axes_per_wire_refuted.

(* ================================================================== the hypotheses are satisfiable *)
Example C06_example_toffoli_like :
  defining_sum (K:=ZI) (net_of (gen_ctrl_build 2 1 [1; 0]))
               (gen_ctrl_data (K:=ZI) 1 (mxl (K:=ZI) [[(0, 0); (1, 0)]; [(1, 0); (0, 0)]]))
               (gidx [true; false; false] [true; false; true]) = (1, 0)
  /\ gate_net_ok (gen_ctrl_build 2 1 [1; 0]) 3 6.
Proof.
  split; [vm_compute; reflexivity|].
  exact (C06_controlled_network_structure 1 1 true [false] eq_refl).
Qed.
