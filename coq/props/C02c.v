(** C02 (composite gates) - gate matrices equal their mathematical definitions:
    a controlled gate applies its target exactly on the control pattern (most significant
    control first) and the identity elsewhere; a multiplexer applies the k-th target when
    the controls read k; the top-left block of a block encoding is the encoded operator;
    the first column (row when transposed) of a preparation gate is sign(v) sqrt|v|;
    time evolution hands -i t H to expm.  Property theorems only; [Run.GenGatesComp] is
    regenerated from the source on every run (see C01c.v). *)
From Qib Require Import Gates.CompProofs Base.Inst.
From Run Require Import GenGatesComp.

Section C02c.
  Context {K : Scalar} {L : ScalarLaws K}.
  Local Open Scope K_scope.
  Add Ring KringC02c : (s_ring K L).

  (** ---- bridge: the model's clauses are the generated expressions ---------------------- *)
  Lemma gen_ctrl_step_model a b c d : gen_ctrl_step a b c d = ctrl_step a b c d.
  Proof.
    unfold gen_ctrl_step, ctrl_step.
    first [ reflexivity
          | destruct (Z.eqb b 1); [|reflexivity]; f_equal; f_equal; lia ].
  Qed.

  (** ControlledGate.as_matrix as the code computes it *)
  Definition code_ctrl_index (pat : list bool) : nat :=
    Z.to_nat (ctrl_loop gen_ctrl_step gen_ctrl_init (length pat) pat).
  Definition code_ctrl_mat (pat : list bool) (U : BMx K) : BMx K :=
    gen_ctrl_mat (length pat) (onehot (code_ctrl_index pat)) U.

  Lemma code_ctrl_index_model pat : code_ctrl_index pat = ctrl_index pat.
  Proof.
    unfold code_ctrl_index, ctrl_index.
    replace (ctrl_loop gen_ctrl_step gen_ctrl_init (length pat) pat)
      with (ctrl_loop ctrl_step 0%Z (length pat) pat); [reflexivity|].
    symmetry. change gen_ctrl_init with 0%Z. apply ctrl_loop_ext. exact gen_ctrl_step_model.
  Qed.

  Lemma code_ctrl_mat_model pat (U : BMx K) r c : code_ctrl_mat pat U r c = ctrl_mat pat U r c.
  Proof.
    unfold code_ctrl_mat, ctrl_mat, ctrl_mat_at, gen_ctrl_mat. rewrite code_ctrl_index_model.
    first [ reflexivity | unfold madd, kron, mdiag, vcompl, onehot, mid; ring ].
  Qed.

  Lemma gen_mux_mat_model nc (ms : list (BMx K)) r c : gen_mux_mat nc ms r c = block_diag nc ms r c.
  Proof. reflexivity. Qed.

  Lemma gen_benc_mat_model m (H Sq : BMx K) r c : gen_benc_mat m H Sq r c = benc_mat m H Sq r c.
  Proof.
    destruct m; unfold gen_benc_mat, benc_mat;
      first [ reflexivity
            | destruct r as [|rb r], c as [|cb c]; cbn [block2]; try reflexivity;
              destruct rb, cb; unfold mscal, mopp; ring ].
  Qed.

  Lemma gen_tevo_arg_model t (H : BMx K) r c : gen_tevo_arg t H r c = tevo_arg t H r c.
  Proof. unfold gen_tevo_arg, tevo_arg, mscal. first [ reflexivity | ring ]. Qed.

  Lemma gen_qucc_arg_model (T : BMx K) r c : gen_qucc_arg T r c = qucc_arg T r c.
  Proof. unfold gen_qucc_arg, qucc_arg, msub, madj. first [ reflexivity | ring ]. Qed.

  Lemma gen_prep_mat_model (Q0 : BMx K) flip tr r c : gen_prep_mat Q0 flip tr r c = prep_mat Q0 flip tr r c.
  Proof. unfold gen_prep_mat, prep_mat. destruct flip, tr; reflexivity. Qed.

  Lemma meq_of_pointwise n (A B : BMx K) : (forall r c, A r c = B r c) -> meq n A B.
  Proof. intros H r c _ _. apply H. Qed.
End C02c.

(** 1. the control index the loop computes is the pattern read most significant control first *)
Theorem C02c_control_index_is_pattern_msb_first :
  forall pat : list bool, code_ctrl_index pat = b2n pat.
Proof. intros. rewrite code_ctrl_index_model. apply ctrl_index_b2n. Qed.
Print Assumptions C02c_control_index_is_pattern_msb_first.

(** 2. controlled gate, every number of controls and targets, every pattern:
       entry (r,c) is U(r_t, c_t) when the control bits of r AND of c equal the pattern
       (control j = wire j, wire 0 most significant), and delta(r,c) otherwise *)
Theorem C02c_controlled_gate_entries :
  forall (K : Scalar) (L : ScalarLaws K) pat nt (U : BMx K) r c,
    length r = (length pat + nt)%nat -> length c = (length pat + nt)%nat ->
    code_ctrl_mat pat U r c =
      if beq (firstn (length pat) r) pat && beq (firstn (length pat) c) pat
      then U (skipn (length pat) r) (skipn (length pat) c)
      else mid r c.
Proof. intros. rewrite code_ctrl_mat_model. apply (ctrl_mat_entries pat nt); assumption. Qed.
Print Assumptions C02c_controlled_gate_entries.

(** 3. multiplexer = block diagonal: the k-th target acts when the controls read k *)
Theorem C02c_multiplexed_gate_entries :
  forall (K : Scalar) nc (ms : list (BMx K)) r c,
    gen_mux_mat nc ms r c =
      if beq (firstn nc r) (firstn nc c)
      then nth (b2n (firstn nc r)) ms mzero (skipn nc r) (skipn nc c)
      else s0.
Proof. intros. reflexivity. Qed.
Print Assumptions C02c_multiplexed_gate_entries.

(** 4. the same inside gate trees of any depth (targets are composite gates themselves) *)
Theorem C02c_tree_controlled_entries :
  forall (K : Scalar) (L : ScalarLaws K) pat cq (g : cgate K) r c,
    length r = num_wires (Ctrl pat cq g) -> length c = num_wires (Ctrl pat cq g) ->
    matrix (Ctrl pat cq g) r c =
      if beq (firstn (length pat) r) pat && beq (firstn (length pat) c) pat
      then matrix g (skipn (length pat) r) (skipn (length pat) c)
      else mid r c.
Proof. intros. apply matrix_ctrl_entries; assumption. Qed.
Print Assumptions C02c_tree_controlled_entries.

Theorem C02c_tree_multiplexed_entries :
  forall (K : Scalar) nc cq (gs : list (cgate K)) r c,
    length gs = 2 ^ nc -> length r = num_wires (Mux nc cq gs) ->
    matrix (Mux nc cq gs) r c =
      if beq (firstn nc r) (firstn nc c)
      then matrix (nth (b2n (firstn nc r)) gs (Gen 0 mzero false [])) (skipn nc r) (skipn nc c)
      else s0.
Proof. intros. apply matrix_mux_entries; assumption. Qed.
Print Assumptions C02c_tree_multiplexed_entries.

(** 5. block encoding: the encoded operator is the top-left block, for each method *)
Theorem C02c_block_encoding_top_left :
  forall (K : Scalar) (L : ScalarLaws K) m (H Sq : BMx K) r c,
    gen_benc_mat m H Sq (false :: r) (false :: c) = H r c.
Proof. intros. rewrite gen_benc_mat_model. apply benc_mat_top_left. Qed.
Print Assumptions C02c_block_encoding_top_left.

(** 6. preparation gate: when np.linalg.qr returned +-x as first column and the sign test
       fired accordingly, the first column (first row when transposed) is x = sign(v) sqrt|v| *)
Theorem C02c_prepare_first_column :
  forall (K : Scalar) (L : ScalarLaws K) (Q0 : BMx K) (sg sqrtabs : list bool -> K) (flip tr : bool) z,
    is_zero_idx z = true ->
    (forall r, Q0 r z = if flip then sopp (gen_prep_x sg sqrtabs r) else gen_prep_x sg sqrtabs r) ->
    forall r, (if tr then gen_prep_mat Q0 flip tr z r else gen_prep_mat Q0 flip tr r z)
              = smul (sg r) (sqrtabs r).
Proof.
  intros K L Q0 sg sq flip tr z Hz Hq r.
  transitivity (gen_prep_x sg sq r); [|reflexivity].
  destruct tr; rewrite gen_prep_mat_model.
  - apply (prep_mat_first_column Q0 (gen_prep_x sg sq) flip true z Hz Hq r).
  - apply (prep_mat_first_column Q0 (gen_prep_x sg sq) flip false z Hz Hq r).
Qed.
Print Assumptions C02c_prepare_first_column.

(** 7. time evolution: what is handed to expm is literally (-i t) H *)
Theorem C02c_time_evolution_argument :
  forall (K : Scalar) (L : ScalarLaws K) t (H : BMx K) r c,
    gen_tevo_arg t H r c = smul (smul (sopp sI) t) (H r c).
Proof. intros. rewrite gen_tevo_arg_model. reflexivity. Qed.
Print Assumptions C02c_time_evolution_argument.

(** non-vacuity / sanity on a concrete asymmetric pattern: control state [1,0] on X puts the
    X block at rows/columns 4,5 (binary 10x), everything else is the identity *)
Example C02c_instance :
  let X := mxl (K:=ZI) [[(0,0);(1,0)];[(1,0);(0,0)]]%Z in
  code_ctrl_index [true; false] = 2%nat /\
  dense 3 (code_ctrl_mat [true; false] X) =
  dense 3 (mxl (K:=ZI)
   [[(1,0);(0,0);(0,0);(0,0);(0,0);(0,0);(0,0);(0,0)];
    [(0,0);(1,0);(0,0);(0,0);(0,0);(0,0);(0,0);(0,0)];
    [(0,0);(0,0);(1,0);(0,0);(0,0);(0,0);(0,0);(0,0)];
    [(0,0);(0,0);(0,0);(1,0);(0,0);(0,0);(0,0);(0,0)];
    [(0,0);(0,0);(0,0);(0,0);(0,0);(1,0);(0,0);(0,0)];
    [(0,0);(0,0);(0,0);(0,0);(1,0);(0,0);(0,0);(0,0)];
    [(0,0);(0,0);(0,0);(0,0);(0,0);(0,0);(1,0);(0,0)];
    [(0,0);(0,0);(0,0);(0,0);(0,0);(0,0);(0,0);(1,0)]]%Z).
Proof. vm_compute. split; reflexivity. Qed.
