(** C05, clauses (d) and (e): the circuit's tensor network contracts to the circuit matrix; the
    tensor-network simulator returns its first column (= what the statevector simulator returns).
    Property theorems only; proofs: Qib.Embed.CircNet on top of Qib.TN.TNMergeValue (merge =
    contraction, C08), Qib.TN.TNSem (transpose, C08), Qib.TN.TNEinsumPort (contract_einsum = defining
    sum, C07) and Qib.Embed.CircProofs (circuit matrix, statevector simulator, clauses (a),(b)).

    Model (Qib.Embed.CircNet, hand port of circuit.py l.105-143 and tensor_network_simulator.py; tied
    to /repo by the exact correspondence cases of gen/circnet.py: the model's networks equal, entry for
    entry and in dictionary order, the symbolic networks the implementation builds):
      id_net nw                 the identity-wire network (virtual tensor with bids 2*range(nw), generate_bonds)
      gate_step nw net g        net.merge(gate_net, zip(iwire, range(k, 2k))); perm; net.transpose(argsort(perm))
      circuit_net nw gs         the loop over the gates
      init_net nw ref, simulator_net   the |0> leaves and net.merge(init_net, [(nw+i, i)])
    A gate enters as its own network, its wires and the hypothesis [net_is_matrix]: the gate's network
    is consistent, has two open axes of dimension 2 per wire (outputs, then inputs) and its defining sum
    is the gate's matrix - which C06 proves for wrapped matrices, controlled gates, multiplexers and
    phase factors (instances below) and which is FALSE for PrepareGate (known finding of C05/C06).
    All gate networks and the |0> leaves are evaluated under one data dictionary [data] (the union
    TensorNetwork.merge builds; a clash with different entries is refused by the code).
    Wires are qubits (dimension 2).  The theorems hold for every iteration order of the Python sets of
    shared ids inside merge (inputs of the model) and every commutative ring of scalars.
    Not proved: that as_tensornet never raises on such circuits (the theorems are about accepted runs;
    the correspondence run shows acceptance on every generated circuit). *)
From Qib Require Import Embed.CircNet GateNet.GateNetProofs TN.TNEinsumPort Base.Inst.
From Qib Require Gates.CompModel.

(** 0. the network before the first gate: nw identity wires = the identity matrix *)
Theorem C05n_identity_wires_are_the_identity :
  forall (K : Scalar) (L : ScalarLaws K) (data : Z -> list nat -> K) nw, net_is_matrix data nw (id_net nw) mid.
Proof. intros. apply id_net_is_matrix. Qed.
Print Assumptions C05n_identity_wires_are_the_identity.

(** 1. one iteration of the loop: merging a gate's network onto the output legs of its wires and
    re-transposing multiplies the represented matrix from the left by the embedded gate matrix *)
Theorem C05n_gate_step_is_left_multiplication :
  forall (K : Scalar) (L : ScalarLaws K) nw net0 (g : ngate) net' (data : Z -> list nat -> K) (M G : BMx K),
    net_is_matrix data nw net0 M -> wires_ok nw (ng_wires g) ->
    net_is_matrix data (length (ng_wires g)) (ng_net g) G ->
    gate_step nw net0 g = Some net' ->
    net_is_matrix data nw net' (mmul nw (embed nw (ng_wires g) G) M).
Proof. intros K L nw net0 g net' data M G. apply gate_step_value. Qed.
Print Assumptions C05n_gate_step_is_left_multiplication.

(** 2. clause (d): Circuit.as_tensornet() is consistent, has 2*nw open axes of dimension 2 (outputs,
    then inputs) and its defining sum is the circuit matrix (the ordered product of the embedded gate
    matrices, clause (a)) - for any gate mix, length, wire overlap pattern and idle wires *)
Theorem C05n_circuit_network_is_the_circuit_matrix :
  forall (K : Scalar) (L : ScalarLaws K) (data : Z -> list nat -> K) nw (gs : list (ngate * BMx K)) cnet,
    gates_sem data nw gs -> circuit_net nw (map fst gs) = Some cnet ->
    WF cnet /\ is_consistent cnet = true /\ vshape cnet = repeat 2%nat (2 * nw) /\
    forall ro ci : bits, length ro = nw -> length ci = nw ->
      defining_sum cnet data (map b2d (ro ++ ci)) = cmat nw (circuit_of gs) ro ci.
Proof.
  intros K L data nw gs cnet Hs H. destruct (circuit_net_is_matrix data nw gs cnet Hs H) as [W [Sh V]].
  split; [exact W|]. split; [apply WF_is_consistent; exact W|]. split; [exact Sh | exact V].
Qed.
Print Assumptions C05n_circuit_network_is_the_circuit_matrix.

(** 2'. ... hence whatever Circuit.as_tensornet().contract_einsum() returns expands (to_full_tensor)
    to the circuit matrix reshaped to (2,)*2nw *)
Theorem C05n_circuit_network_contracts_to_the_circuit_matrix :
  forall (K : Scalar) (L : ScalarLaws K) (data : Z -> list nat -> K) nw (gs : list (ngate * BMx K)) cnet v am,
    gates_sem data nw gs -> circuit_net nw (map fst gs) = Some cnet ->
    contract_einsum cnet data = Some (v, am) ->
    fst (to_full_tensor v am) = repeat 2%nat (2 * nw) /\
    forall ro ci : bits, length ro = nw -> length ci = nw ->
      snd (to_full_tensor v am) (map b2d (ro ++ ci)) = cmat nw (circuit_of gs) ro ci.
Proof.
  intros K L data nw gs cnet v am Hs H HE.
  exact (einsum_of_matrix_net data nw cnet _ v am (circuit_net_is_matrix data nw gs cnet Hs H) HE).
Qed.
Print Assumptions C05n_circuit_network_contracts_to_the_circuit_matrix.

(** 3. clause (e): the network TensorNetworkSimulator.run contracts (|0> leaves merged onto the input
    legs) is consistent, has nw open axes of dimension 2, and its value - also as returned by
    contract_einsum + to_full_tensor - is the first column of the circuit matrix, which is exactly what
    StatevectorSimulator.run computes (clause (b)) *)
Theorem C05n_tn_simulator_returns_the_first_column :
  forall (K : Scalar) (L : ScalarLaws K) (data : Z -> list nat -> K) nw (gs : list (ngate * BMx K))
         cnet ref ordT ordB snet,
    gates_sem data nw gs -> circuit_net nw (map fst gs) = Some cnet -> is_ket0 data ref ->
    simulator_net nw cnet ref ordT ordB = Some snet ->
    WF snet /\ vshape snet = repeat 2%nat nw /\
    (forall ro : bits, length ro = nw ->
       defining_sum snet data (map b2d ro) = column0 nw (cmat nw (circuit_of gs)) ro /\
       defining_sum snet data (map b2d ro) = run_statevector nw (circuit_of gs) ro) /\
    (forall v am, contract_einsum snet data = Some (v, am) ->
       fst (to_full_tensor v am) = repeat 2%nat nw /\
       forall ro : bits, length ro = nw ->
         snd (to_full_tensor v am) (map b2d ro) = column0 nw (cmat nw (circuit_of gs)) ro).
Proof. intros K L data nw gs cnet ref ordT ordB snet. apply tn_simulator_first_column. Qed.
Print Assumptions C05n_tn_simulator_returns_the_first_column.

(** 3'. the same for ANY network that stands for a matrix M (not only one built by as_tensornet) *)
Theorem C05n_zero_leaves_select_the_first_column :
  forall (K : Scalar) (L : ScalarLaws K) nw cnet (M : BMx K) ref ordT ordB snet (data : Z -> list nat -> K),
    net_is_matrix data nw cnet M -> is_ket0 data ref ->
    simulator_net nw cnet ref ordT ordB = Some snet ->
    WF snet /\ vshape snet = repeat 2%nat nw /\
    forall ro : bits, length ro = nw -> defining_sum snet data (map b2d ro) = M ro (zeros nw).
Proof. intros K L nw cnet M ref ordT ordB snet data. apply simulator_net_value. Qed.
Print Assumptions C05n_zero_leaves_select_the_first_column.

(* ================================================================== the gate hypothesis is what C06 proves *)
Lemma shape_vshape n s : TNModel.shape n = Some s -> vshape n = s.
Proof. unfold TNModel.shape, vshape. destruct (dget VT (tensors n)); cbn; congruence. Qed.

(** a gate that wraps its matrix reshaped to 2n axes (GeneralGate, every one-wire gate) *)
Theorem C05n_wrapped_gate_satisfies_the_gate_hypothesis :
  forall (K : Scalar) (L : ScalarLaws K) (n : nat) (G : BMx K),
    net_is_matrix (wrap_data (reshape_mx n G)) n (net_of (wrap_build (repeat 2%nat (2 * n)))) G.
Proof.
  intros K L n G. destruct (wrap_structure (repeat 2%nat (2 * n))) as [_ [W [_ [_ [Sh _]]]]].
  split; [exact W|]. split; [apply shape_vshape; exact Sh|].
  intros ro ci Lr Lc. change (map b2d (ro ++ ci)) with (map nb (ro ++ ci)). rewrite wrap_value.
  - apply reshape_val. exact Lr.
  - rewrite map_length, app_length, repeat_length. lia.
  - rewrite repeat_length. intros i Hi.
    rewrite (nth_indep (repeat 2%nat (2 * n)) O 2%nat) by (rewrite repeat_length; exact Hi). rewrite nth_repeat.
    rewrite (nth_indep _ O (nb false)) by (rewrite map_length, app_length; lia). rewrite map_nth.
    destruct (nth i (ro ++ ci) false); cbn; lia.
Qed.
Print Assumptions C05n_wrapped_gate_satisfies_the_gate_hypothesis.

(** a controlled gate: any number >= 1 of controls, any pattern, any target matrix *)
Theorem C05n_controlled_gate_satisfies_the_gate_hypothesis :
  forall (K : Scalar) (L : ScalarLaws K) (m nt : nat) (p0 : bool) (pt : list bool) (U : BMx K),
    length pt = m ->
    net_is_matrix (ctrl_data nt U) (S m + nt)
                  (net_of (ctrl_build (Z.of_nat (S m)) (Z.of_nat nt) (map b2z (p0 :: pt))))
                  (CompModel.ctrl_mat (p0 :: pt) U).
Proof.
  intros K L m nt p0 pt U Hpt. destruct (ctrl_structure m nt p0 pt Hpt) as [_ W _ _ Sh _ _].
  split; [exact W|]. split; [apply shape_vshape; exact Sh|].
  intros ro ci Lr Lc.
  destruct (split_bits (S m) nt ro Lr) as [Lr1 [Lr2 Er]]. destruct (split_bits (S m) nt ci Lc) as [Lc1 [Lc2 Ec]].
  destruct (firstn (S m) ro) as [|xo0 xos] eqn:Fo; [discriminate|].
  destruct (firstn (S m) ci) as [|xi0 xis] eqn:Fi; [discriminate|].
  rewrite Er, Ec. change (map b2d) with (map nb). rewrite <- app_assoc.
  apply (ctrl_net_is_matrix m nt p0 pt U xo0 xi0 xos xis (skipn (S m) ro) (skipn (S m) ci)); cbn [length] in *; lia.
Qed.
Print Assumptions C05n_controlled_gate_satisfies_the_gate_hypothesis.

(** ... so, e.g., for a circuit of one controlled gate on arbitrary distinct wires of a register with
    idle wires, clause (d) holds outright *)
Theorem C05n_single_controlled_gate_circuit :
  forall (K : Scalar) (L : ScalarLaws K) nw (m nt : nat) (p0 : bool) (pt : list bool) (U : BMx K) ws ordT ordB cnet,
    length pt = m -> length ws = (S m + nt)%nat -> wires_ok nw ws ->
    let gnet := net_of (ctrl_build (Z.of_nat (S m)) (Z.of_nat nt) (map b2z (p0 :: pt))) in
    circuit_net nw [mkNG gnet ws ordT ordB] = Some cnet ->
    WF cnet /\ vshape cnet = repeat 2%nat (2 * nw) /\
    forall ro ci : bits, length ro = nw -> length ci = nw ->
      defining_sum cnet (ctrl_data nt U) (map b2d (ro ++ ci))
      = mmul nw (embed nw ws (CompModel.ctrl_mat (p0 :: pt) U)) mid ro ci.
Proof.
  intros K L nw m nt p0 pt U ws ordT ordB cnet Hpt Lws Wws gnet H.
  apply (circuit_net_is_matrix (ctrl_data nt U) nw [(mkNG gnet ws ordT ordB, CompModel.ctrl_mat (p0 :: pt) U)] cnet); [|exact H].
  constructor; [|constructor]. cbn [fst snd ng_wires ng_net]. split; [exact Wws|]. rewrite Lws.
  exact (C05n_controlled_gate_satisfies_the_gate_hypothesis K L m nt p0 pt U Hpt).
Qed.
Print Assumptions C05n_single_controlled_gate_circuit.

(** gates that were analysed one by one, each under ITS OWN data dictionary d_k (as C06 does), form a
    circuit: give gate k of N the datarefs r*N + k ([retag], the references are opaque dictionary keys -
    distinct strings in qib) and look entry z of the common dictionary up in d_(z mod N) at z / N.  Then
    clause (d) holds for ANY list of such gates - no hypothesis about a common dictionary is left. *)
Theorem C05n_circuit_of_separately_analysed_gates :
  forall (K : Scalar) (L : ScalarLaws K) nw (specs : list (ngate * BMx K * (Z -> list nat -> K))) cnet,
    Forall (fun s => let '(g, G, d) := s in
                     wires_ok nw (ng_wires g) /\ net_is_matrix d (length (ng_wires g)) (ng_net g) G) specs ->
    circuit_net nw (map fst (tagged_gates specs)) = Some cnet ->
    net_is_matrix (common_data (map snd specs)) nw cnet (cmat nw (circuit_of (tagged_gates specs))) /\
    map (@g_wires K) (circuit_of (tagged_gates specs)) = map (fun s => ng_wires (fst (fst s))) specs /\
    map (@g_mat K) (circuit_of (tagged_gates specs)) = map (fun s => snd (fst s)) specs.
Proof.
  intros K L nw specs cnet H Hc. split; [|split].
  - apply circuit_net_is_matrix; [apply gates_sem_tagged; exact H | exact Hc].
  - transitivity (map (fun s : ngate * BMx K * (Z -> list nat -> K) => ng_wires (fst (fst s)))
                      (map snd (combine (seq 0 (length specs)) specs)));
      [|rewrite combine_map_snd by (rewrite seq_length; reflexivity); reflexivity].
    unfold circuit_of, tagged_gates. rewrite !map_map. apply map_ext. intros [k [[g G] d]]. reflexivity.
  - transitivity (map (fun s : ngate * BMx K * (Z -> list nat -> K) => snd (fst s))
                      (map snd (combine (seq 0 (length specs)) specs)));
      [|rewrite combine_map_snd by (rewrite seq_length; reflexivity); reflexivity].
    unfold circuit_of, tagged_gates. rewrite !map_map. apply map_ext. intros [k [[g G] d]]. reflexivity.
Qed.
Print Assumptions C05n_circuit_of_separately_analysed_gates.

(** the hypotheses are satisfiable on a non-trivial instance: CNOT with control wire 2 and target
    wire 0 on a 3-wire register (wire 1 idle): the model accepts, and so does the simulator's merge *)
Example C05n_example :
  let gnet := net_of (ctrl_build 1 1 [1%Z]) in
  exists cnet snet, circuit_net 3 [mkNG gnet [2; 0]%nat [-1]%Z [0; 1; 2]%Z] = Some cnet /\
    wf_b cnet = true /\ num_open_axes cnet = Some 6%nat /\
    simulator_net 3 cnet 9 [0; -1]%Z [0; 1; 2]%Z = Some snet /\ wf_b snet = true /\ num_open_axes snet = Some 3%nat.
Proof. cbv zeta. eexists. eexists. split; [vm_compute; reflexivity|]. vm_compute. repeat split. Qed.
